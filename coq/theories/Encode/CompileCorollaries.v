(** Consequences of [compile_denotes] / [compile_full_cnf] for the formula the
    samplers hand to the solver (fragment F1): every model decodes to a valid
    sequence (C01), every valid sequence is the decoding of a model and of only
    one (C02), no auxiliary variable is free (C03); plus a worked example
    record showing the hypotheses are satisfiable by a design with a crossing, a
    derived factor and user constraints. *)
From Coq Require Import ZArith List Bool Arith Lia.
From Coq Require String.
From SP Require Import Base.Sat Base.Bits.
From SP Require Import Design.Flat Design.Layout Design.Sem.
From SP Require Import Encode.Compile Encode.CodeSem Encode.Generic Encode.Blocks Encode.Runs
     Encode.GridLemmas Encode.LayoutF1 Encode.F1Kinds Encode.F1Sem Encode.F1DerivSem Encode.CompileProofs.
Import ListNotations.
Close Scope Z_scope.
Open Scope nat_scope.

Section Corollaries.
Variable fb : flat.
Hypothesis HF1 : in_f1 fb = true.
Hypothesis HT : 0 < T fb.

Notation GZ := (GZ fb).

(** * The one-hot image of a sequence *)
Definition img (q : tseq) : asg := fun v =>
  existsb (fun t => existsb (fun f => existsb (fun l =>
     isact fb f && lappl fb f t && (zn (gvar fb t f l) =? v)%Z && is_level l (get_cell q f t))
     (seq 0 (nlevels fb f))) (seq 0 (nf fb))) (seq 0 (T fb)).

Lemma img_bit q t f l :
  t < T fb -> isact fb f = true -> lappl fb f t = true -> l < nlevels fb f ->
  bit fb (img q) t f l = is_level l (get_cell q f t).
Proof.
  intros Ht Hf Hap Hl. unfold bit, img. destruct (is_level l (get_cell q f t)) eqn:E.
  - apply existsb_exists. exists t. split; [apply in_seq; lia|].
    apply existsb_exists. exists f. split; [apply in_seq; pose proof (f1_act_lt fb HF1 f Hf); lia|].
    apply existsb_exists. exists l. split; [apply in_seq; lia|]. now rewrite Hf, Hap, Z.eqb_refl, E.
  - apply not_true_is_false. intros H.
    apply existsb_exists in H. destruct H as (t' & Ht' & H). apply in_seq in Ht'.
    apply existsb_exists in H. destruct H as (f' & Hf' & H). apply in_seq in Hf'.
    apply existsb_exists in H. destruct H as (l' & Hl' & H). apply in_seq in Hl'.
    rewrite !andb_true_iff in H. destruct H as [[[H0 H0'] H1] H2]. apply Z.eqb_eq in H1. unfold zn in H1. apply Nat2Z.inj in H1.
    destruct (gvar_inj fb HF1 t' f' l' t f l ltac:(lia) H0 ltac:(lia) H0' Ht Hf Hl Hap H1) as (-> & -> & ->). congruence.
Qed.

(** the shape of a valid sequence: complete, every cell a level of its factor *)
Lemma valid_shape q :
  valid_b (code_sem fb) q = true ->
  length q = nf fb /\
  (forall f, f < nf fb -> length (nth f q []) = T fb) /\
  (forall t f, t < T fb -> isact fb f = true -> lappl fb f t = true -> exists l, l < nlevels fb f /\ get_cell q f t = Some l) /\
  (forall t f, t < T fb -> isact fb f = true -> lappl fb f t = false -> get_cell q f t = None).
Proof.
  intros Hv. unfold valid_b in Hv. rewrite !andb_true_iff in Hv. destruct Hv as [[[Hlen Hfac] _] _].
  apply Nat.eqb_eq in Hlen. rewrite (sem_factors_length fb HF1 HT) in Hlen.
  cbn [code_sem s_factors] in Hfac.
  rewrite (forallb_index_map_ds (fun f fd => code_factor fb f fd) (fun f d => factor_ok (code_sem fb) q f d) (fl_design fb)) in Hfac.
  assert (K : forall f, f < nf fb -> exists fd, nth_error (fl_design fb) f = Some fd /\
                                     factor_ok (code_sem fb) q f (code_factor fb f fd) = true).
  { intros f Hf. destruct (nth_error (fl_design fb) f) as [fd|] eqn:E.
    - exists fd. split; [reflexivity|]. now apply Hfac.
    - apply nth_error_None in E. unfold nf in Hf. lia. }
  assert (Kc : forall t f, t < T fb -> isact fb f = true ->
            match get_cell q f t with
            | Some l => lappl fb f t = true /\ l < nlevels fb f
            | None => lappl fb f t = false
            end).
  { intros t f Ht Ha. pose proof (f1_act_lt fb HF1 f Ha) as Hf. destruct (K f Hf) as (fd & Efd & Hok).
    unfold factor_ok in Hok. apply andb_true_iff in Hok.
    destruct Hok as [_ Hc]. rewrite forallb_forall in Hc. specialize (Hc t ltac:(apply in_seq; cbn [code_sem s_trials]; unfold T in Ht; lia)).
    rewrite <- (applies_lappl fb HF1 HT f fd t Efd).
    destruct (get_cell q f t) as [l|] eqn:Ec.
    - rewrite !andb_true_iff in Hc. destruct Hc as [[[Hap Hl] _] _]. split; [exact Hap|].
      apply Nat.ltb_lt in Hl. cbn [code_factor f_nlevels] in Hl. now rewrite (nlevels_design fb f fd Efd).
    - now apply negb_true_iff in Hc. }
  split; [exact Hlen|]. split; [|split].
  - intros f Hf. destruct (K f Hf) as (fd & _ & Hok). unfold factor_ok in Hok. apply andb_true_iff in Hok.
    destruct Hok as [Hl _]. now apply Nat.eqb_eq in Hl.
  - intros t f Ht Ha Hap. specialize (Kc t f Ht Ha). destruct (get_cell q f t) as [l|].
    + exists l. split; [apply Kc|reflexivity].
    + congruence.
  - intros t f Ht Ha Hap. specialize (Kc t f Ht Ha). destruct (get_cell q f t) as [l|]; [|reflexivity].
    destruct Kc as [Kc _]. congruence.
Qed.

Lemma valid_is_shape q : valid_b (code_sem fb) q = true -> shape fb q.
Proof. intros Hv. destruct (valid_shape q Hv) as (A & B & C & D). repeat split; assumption. Qed.

Lemma valid_factor_ok q f fd :
  valid_b (code_sem fb) q = true -> nth_error (fl_design fb) f = Some fd ->
  factor_ok (code_sem fb) q f (code_factor fb f fd) = true.
Proof.
  intros Hv Efd. unfold valid_b in Hv. rewrite !andb_true_iff in Hv. destruct Hv as [[[_ Hfac] _] _].
  cbn [code_sem s_factors] in Hfac.
  rewrite (forallb_index_map_ds (fun f fd => code_factor fb f fd) (fun f d => factor_ok (code_sem fb) q f d) (fl_design fb)) in Hfac.
  now apply Hfac.
Qed.

(** the active cells read back from the image *)
Lemma img_cell_act q t d :
  shape fb q -> t < T fb -> isact fb d = true -> cell_act fb (img q) t d = get_cell q d t.
Proof.
  intros (_ & _ & C & D) Ht Hd. unfold cell_act. destruct (lappl fb d t) eqn:Hap; [|symmetry; now apply D].
  destruct (C t d Ht Hd Hap) as (x & Hx & Ex). rewrite Ex.
  apply find_unique; [exact Hx|]. intros j Hj.
  rewrite (img_bit q t d j Ht Hd Hap Hj), Ex, is_level_some. apply Nat.eqb_sym.
Qed.

(** the implied cells of a valid sequence are those computed from the image *)
Lemma img_cell_impl q : valid_b (code_sem fb) q = true ->
  forall f t, t < T fb -> f < nf fb -> isact fb f = false -> get_cell q f t = cell_impl fb (img q) t f.
Proof.
  intros Hv f. induction f as [f IHf] using lt_wf_ind. intros t Ht Hf Hn. pose proof (valid_is_shape q Hv) as Hs.
  destruct (implied_facts fb HF1 HT f Hf Hn) as (fd & w & Efd & Ew & Hd & W1 & W2 & Htot).
  pose proof Hs as (_ & R & C & _).
  pose proof (impl_sustain fb HF1 HT f Hf Hn) as Hsu.
  pose proof (proj1 (factor_ok_impl fb HT q f fd w Efd Ew Hsu (R f Hf)) (valid_factor_ok q f fd Hv Efd) t Ht) as Hok.
  (* the cells of the dependencies of q are those of the image *)
  assert (Hdeps : forall d t', dep_ok fb f d = true -> t' <= t -> get_cell q d t' = cell_of fb (img q) t' d).
  { intros d t' Hdok Ht'. unfold cell_of. destruct (dep_ok_cases fb f d Hn Hdok) as [Hsd|(Hda & Hlt & _)].
    - destruct (sact_lappl fb HF1 d t' Hsd) as [Hda _]. rewrite Hda. symmetry. apply (img_cell_act q t' d Hs ltac:(lia) Hda).
    - rewrite Hda. apply IHf; [exact Hlt|lia|lia|exact Hda]. }
  rewrite <- (cell_impl_char fb HF1 HT (img q) q t f Hf Hn Ht Hdeps).
  unfold impl_cell, factor_at. rewrite Efd, Ew.
  destruct (get_cell q f t) as [l0|] eqn:El0.
  - destruct Hok as (Hap & Hl0 & Hacc). rewrite Hap.
    symmetry. apply (find_only fb HF1 HT); [|exact Hl0|exact Hacc].
    destruct (window_in_su1 fb HF1 HT q f fd w t Hsu Hap Ew W1) as (k & Hk & Hin).
    { intros d t' Hdd Ht'. pose proof (proj1 (Forall_forall _ _) Hd d Hdd) as Hdok. cbv beta in Hdok.
      destruct (dep_ok_cases fb f d Hn Hdok) as [Hsd|(Hda & Hlt & Hal)].
      - destruct (sact_lappl fb HF1 d t' Hsd) as [Hda Hdl]. exact (C t' d ltac:(lia) Hda Hdl).
      - (* an implied dependency that has a level in every trial: its cell is a level by validity *)
        pose proof (dep_lt fb HF1 HT f d Hf Hn Hdok) as Hdn.
        destruct (implied_facts fb HF1 HT d Hdn Hda) as (fdd & wd & Efdd & Ewd & _).
        pose proof (proj1 (factor_ok_impl fb HT q d fdd wd Efdd Ewd (impl_sustain fb HF1 HT d Hdn Hda) (R d Hdn))
                          (valid_factor_ok q d fdd Hv Efdd) t' ltac:(lia)) as Hokd.
        destruct (get_cell q d t') as [x|] eqn:Ex.
        + destruct Hokd as (_ & Hx & _). now exists x.
        + exfalso. pose proof (Hal t') as Happl. unfold appl, factor_at in Happl. rewrite Efdd in Happl. congruence. }
    exact (Htot k _ Hk Hin).
  - now rewrite Hok.
Qed.

Lemma valid_onehot_img q : valid_b (code_sem fb) q = true -> onehot fb (img q) q.
Proof.
  intros Hv. destruct (valid_shape q Hv) as (A & B & C & D). split; [exact A|]. split; [exact B|]. split; [exact C|].
  split; [|split; [|exact D]].
  - intros t f l Ht Hf Hap Hl. now apply img_bit.
  - intros t f Ht Hf Hn. now apply (img_cell_impl q Hv).
Qed.

(** two one-hot images of the same sequence agree on the grid *)
Lemma onehot_agree s1 s2 q : onehot fb s1 q -> onehot fb s2 q -> agree_upto GZ s1 s2.
Proof.
  intros (_ & _ & _ & H1 & _) (_ & _ & _ & H2 & _) v Hv.
  destruct (gvar_surj fb HF1 (Z.to_nat v)) as (t & f & l & Ht & Hf & Hl & Hap & E).
  { unfold F1Kinds.GZ, zn in Hv. lia. }
  replace v with (zn (gvar fb t f l)) by (unfold zn; lia).
  change (bit fb s1 t f l = bit fb s2 t f l). now rewrite H1, H2.
Qed.

(** * Statements about the final formula *)
Section Final.
Variable b : backend.
Hypothesis Hcomp : compile fb = COk b.

Theorem models_are_valid ok n' final t :
  full_cnf b = (ok, n', final) -> sat t final = true ->
  exists q, onehot fb t q /\ valid_b (code_sem fb) q = true.
Proof.
  intros Ef St. destruct (compile_full_cnf fb HF1 HT b Hcomp) as (n1 & f1 & E1 & _ & _ & Hsem & _).
  rewrite Ef in E1. inversion E1. subst. apply Hsem. exists t. split; [apply agree_upto_refl|exact St].
Qed.

Theorem valid_has_model ok n' final q :
  full_cnf b = (ok, n', final) -> valid_b (code_sem fb) q = true ->
  exists t, sat t final = true /\ onehot fb t q.
Proof.
  intros Ef Hv. destruct (compile_full_cnf fb HF1 HT b Hcomp) as (n1 & f1 & E1 & _ & _ & Hsem & _).
  rewrite Ef in E1. inversion E1. subst.
  destruct (proj2 (Hsem (img q))) as (t & A & St).
  { exists q. split; [now apply valid_onehot_img|exact Hv]. }
  exists t. split; [exact St|]. apply (onehot_local fb HF1 HT (img q) t q A). now apply valid_onehot_img.
Qed.

Theorem one_model_per_sequence ok n' final q t1 t2 :
  full_cnf b = (ok, n', final) ->
  sat t1 final = true -> sat t2 final = true -> onehot fb t1 q -> onehot fb t2 q ->
  agree_upto n' t1 t2.
Proof.
  intros Ef S1 S2 O1 O2. destruct (compile_full_cnf fb HF1 HT b Hcomp) as (n1 & f1 & E1 & _ & _ & _ & Hu).
  rewrite Ef in E1. inversion E1. subst. apply Hu; [|exact S1|exact S2]. exact (onehot_agree t1 t2 q O1 O2).
Qed.

Theorem unique_extension ok n' final t1 t2 :
  full_cnf b = (ok, n', final) ->
  agree_upto GZ t1 t2 -> sat t1 final = true -> sat t2 final = true -> agree_upto n' t1 t2.
Proof.
  intros Ef A S1 S2. destruct (compile_full_cnf fb HF1 HT b Hcomp) as (n1 & f1 & E1 & _ & _ & _ & Hu).
  rewrite Ef in E1. inversion E1. subst. now apply Hu.
Qed.

(** every variable of the formula is at most [n'] (the declared count), and no
    auxiliary variable is free: flipping one in a model falsifies the formula *)
Theorem vars_contiguous ok n' final :
  full_cnf b = (ok, n', final) ->
  ok = true /\ vars_upto n' final /\
  forall t v, (GZ < v <= n')%Z -> sat t final = true -> sat (upd t v (negb (t v))) final = false.
Proof.
  intros Ef. destruct (compile_full_cnf fb HF1 HT b Hcomp) as (n1 & f1 & E1 & _ & V & _ & Hu).
  rewrite Ef in E1. inversion E1. subst. split; [reflexivity|]. split; [exact V|].
  intros t v Hv St. apply not_true_is_false. intros St'.
  assert (A : agree_upto GZ t (upd t v (negb (t v)))).
  { intros w Hw. unfold upd. destruct (w =? v)%Z eqn:E; [apply Z.eqb_eq in E; lia|reflexivity]. }
  pose proof (Hu t _ A St St' v ltac:(unfold F1Kinds.GZ, zn in *; lia)) as H.
  unfold upd in H. rewrite Z.eqb_refl in H. destruct (t v); discriminate.
Qed.

End Final.
End Corollaries.

(** * A worked example: color x text crossing with a derived congruency factor,
      AtMostKInARow on the derived level, ExactlyK, Exclude-free, Pin *)
Definition xlvl (a : list (list (list (option nat)))) : flevel :=
  {| lv_name := String.EmptyString; lv_weight := 1; lv_accepts := a |}.
Definition xsimple : ffactor :=
  {| ff_name := String.EmptyString; ff_hidden := false; ff_levels := [xlvl []; xlvl []]; ff_window := None; ff_complex := false |}.
Definition xwin : fwindow :=
  {| win_deps := [0; 1]; win_width := 1; win_stride := 1; win_start := 0; win_start_delta := 0%Z |}.
Definition xcon : ffactor :=
  {| ff_name := String.EmptyString; ff_hidden := false;
     ff_levels := [xlvl [[[Some 0]; [Some 0]]; [[Some 1]; [Some 1]]]; xlvl [[[Some 0]; [Some 1]]; [[Some 1]; [Some 0]]]];
     ff_window := Some xwin; ff_complex := false |}.
Definition ex_stroop : flat :=
  {| fl_design := [xsimple; xsimple; xcon]; fl_act := [0; 1; 2];
     fl_crossings := [[0; 1]]; fl_sustains := [1]; fl_weights := [1]; fl_sizes := [4];
     fl_preambles := [0]; fl_alignment := EqualPreamble; fl_alignment_preamble := 0;
     fl_min_trials := 0; fl_trials := 4; fl_rcc := true; fl_exclude := [];
     fl_excluded_derived := [];
     fl_constraints := [FCross; FConsistency; FAtMost 1 2 0 None; FPin 0%Z 0 1 None;
                        FDerivation 4 [[DIdx 0; DIdx 2]; [DIdx 1; DIdx 3]] 2;
                        FDerivation 5 [[DIdx 0; DIdx 3]; [DIdx 1; DIdx 2]] 2];
     fl_errors_fail := false |}.

Example ex_stroop_in_f1 : in_f1 ex_stroop = true /\ 0 < T ex_stroop.
Proof. split; [vm_compute; reflexivity|vm_compute; lia]. Qed.

Example ex_stroop_compiles :
  exists b, compile ex_stroop = COk b /\ b_fresh b = 108%Z /\ length (b_requests b) = 19 /\ length (b_clauses b) = 247.
Proof. vm_compute. eexists. repeat split. Qed.

(** it has valid sequences (so the theorems are not vacuous): 24 orders of the
    4 combinations, of which those with the pinned first trial and no two
    congruent trials in a row remain *)
Example ex_stroop_valid_count : length (all_valid (code_sem ex_stroop)) = 6.
Proof. vm_compute. reflexivity. Qed.

(** the widened fragment: the derived factor is crossed (the four inconsistent
    combinations are left out of the crossing), Sequential on the text factor,
    AtLeastKInARow on a derived level, ExactlyKInARow on a colour *)
Definition ex_wide : flat :=
  {| fl_design := [xsimple; xsimple; xcon]; fl_act := [0; 1; 2];
     fl_crossings := [[0; 1; 2]]; fl_sustains := [1]; fl_weights := [1]; fl_sizes := [4];
     fl_preambles := [0]; fl_alignment := EqualPreamble; fl_alignment_preamble := 0;
     fl_min_trials := 0; fl_trials := 4; fl_rcc := true; fl_exclude := [];
     fl_excluded_derived := [];
     fl_constraints := [FCross; FConsistency; FSequential 1; FAtLeast 1 2 0 None; FExactlyKInARow 1 0 0 None;
                        FDerivation 4 [[DIdx 0; DIdx 2]; [DIdx 1; DIdx 3]] 2;
                        FDerivation 5 [[DIdx 0; DIdx 3]; [DIdx 1; DIdx 2]] 2];
     fl_errors_fail := false |}.

Example ex_wide_facts :
  in_f1 ex_wide = true /\ 0 < T ex_wide /\
  length (trial_combinations_of ex_wide [0; 1; 2]) = 4 /\ length (crossing_combos ex_wide [0; 1; 2]) = 8 /\
  (exists b, compile ex_wide = COk b /\ b_fresh b = 139%Z) /\
  length (all_valid (code_sem ex_wide)) = 1.
Proof.
  split; [vm_compute; reflexivity|]. split; [vm_compute; lia|]. split; [vm_compute; reflexivity|].
  split; [vm_compute; reflexivity|]. split; [vm_compute; eexists; split; reflexivity|vm_compute; reflexivity].
Qed.

(** implied derived factor: the congruency factor is neither crossed nor
    constrained, so it is not in act_design, gets no variables and no
    Derivation constraints; its row is computed from the decoded colour and
    text rows ([F1Sem.cell_impl]) *)
Definition ex_implied : flat :=
  {| fl_design := [xsimple; xsimple; xcon]; fl_act := [0; 1];
     fl_crossings := [[0; 1]]; fl_sustains := [1]; fl_weights := [1]; fl_sizes := [4];
     fl_preambles := [0]; fl_alignment := EqualPreamble; fl_alignment_preamble := 0;
     fl_min_trials := 0; fl_trials := 4; fl_rcc := true; fl_exclude := [];
     fl_excluded_derived := [];
     fl_constraints := [FCross; FConsistency; FAtMost 1 1 0 None];
     fl_errors_fail := false |}.

Example ex_implied_facts :
  in_f1 ex_implied = true /\ 0 < T ex_implied /\ isact ex_implied 2 = false /\
  (exists b, compile ex_implied = COk b /\ b_fresh b = 66%Z) /\
  length (all_valid (code_sem ex_implied)) = 12 /\
  hd [] (all_valid (code_sem ex_implied)) =
    [[Some 1; Some 1; Some 0; Some 0]; [Some 1; Some 0; Some 1; Some 0]; [Some 0; Some 1; Some 1; Some 0]].
Proof.
  split; [vm_compute; reflexivity|]. split; [vm_compute; lia|]. split; [vm_compute; reflexivity|].
  split; [vm_compute; eexists; split; reflexivity|]. split; vm_compute; reflexivity.
Qed.

(** implied factor with a complex window: a Transition (width 2, stride 1,
    start 1) on the text factor, not in act_design; it has no level in the
    first trial *)
Definition xtwin : fwindow :=
  {| win_deps := [1]; win_width := 2; win_stride := 1; win_start := 1; win_start_delta := 0%Z |}.
Definition xtrans : ffactor :=
  {| ff_name := String.EmptyString; ff_hidden := false;
     ff_levels := [xlvl [[[Some 0; Some 0]]; [[Some 1; Some 1]]]; xlvl [[[Some 0; Some 1]]; [[Some 1; Some 0]]]];
     ff_window := Some xtwin; ff_complex := true |}.
Definition ex_implied_transition : flat :=
  {| fl_design := [xsimple; xsimple; xtrans]; fl_act := [0; 1];
     fl_crossings := [[0; 1]]; fl_sustains := [1]; fl_weights := [1]; fl_sizes := [4];
     fl_preambles := [0]; fl_alignment := EqualPreamble; fl_alignment_preamble := 1;
     fl_min_trials := 0; fl_trials := 4; fl_rcc := true; fl_exclude := [];
     fl_excluded_derived := [];
     fl_constraints := [FCross; FConsistency; FAtMost 1 1 0 None];
     fl_errors_fail := false |}.

Example ex_implied_transition_facts :
  in_f1 ex_implied_transition = true /\ 0 < T ex_implied_transition /\ isact ex_implied_transition 2 = false /\
  (exists b, compile ex_implied_transition = COk b /\ b_fresh b = 66%Z) /\
  length (all_valid (code_sem ex_implied_transition)) = 12 /\
  hd [] (all_valid (code_sem ex_implied_transition)) =
    [[Some 1; Some 1; Some 0; Some 0]; [Some 1; Some 0; Some 1; Some 0]; [None; Some 1; Some 1; Some 1]].
Proof.
  split; [vm_compute; reflexivity|]. split; [vm_compute; lia|]. split; [vm_compute; reflexivity|].
  split; [vm_compute; eexists; split; reflexivity|]. split; vm_compute; reflexivity.
Qed.

(** a factor of act_design with a complex window: a colour-repetition Transition
    crossed with the colour; the crossing starts after a preamble of one trial,
    the Transition has 4 x 2 variables after the 5 x 2 grid variables, an
    AtMostKInARow constrains its first level *)
Definition xtwin0 : fwindow :=
  {| win_deps := [0]; win_width := 2; win_stride := 1; win_start := 1; win_start_delta := 0%Z |}.
Definition xtrans0 : ffactor :=
  {| ff_name := String.EmptyString; ff_hidden := false;
     ff_levels := [xlvl [[[Some 0; Some 0]]; [[Some 1; Some 1]]]; xlvl [[[Some 0; Some 1]]; [[Some 1; Some 0]]]];
     ff_window := Some xtwin0; ff_complex := true |}.
Definition ex_transition : flat :=
  {| fl_design := [xsimple; xtrans0]; fl_act := [0; 1];
     fl_crossings := [[0; 1]]; fl_sustains := [1]; fl_weights := [1]; fl_sizes := [4];
     fl_preambles := [1]; fl_alignment := EqualPreamble; fl_alignment_preamble := 1;
     fl_min_trials := 0; fl_trials := 5; fl_rcc := true; fl_exclude := [];
     fl_excluded_derived := [];
     fl_constraints := [FCross; FConsistency; FAtMost 2 1 0 None;
                        FDerivation 10 [[DIdx 0; DIdx 2]; [DIdx 1; DIdx 3]] 1;
                        FDerivation 11 [[DIdx 0; DIdx 3]; [DIdx 1; DIdx 2]] 1];
     fl_errors_fail := false |}.

Example ex_transition_facts :
  in_f1 ex_transition = true /\ 0 < T ex_transition /\
  isact ex_transition 1 = true /\ is_complex ex_transition 1 = true /\
  VN ex_transition = 18 /\ gvar ex_transition 1 1 0 = 11 /\ gvar ex_transition 4 1 1 = 18 /\
  (exists b, compile ex_transition = COk b /\ b_fresh b = 102%Z) /\
  length (all_valid (code_sem ex_transition)) = 4 /\
  hd [] (all_valid (code_sem ex_transition)) =
    [[Some 0; Some 1; Some 1; Some 0; Some 0]; [None; Some 1; Some 0; Some 1; Some 0]].
Proof.
  split; [vm_compute; reflexivity|]. split; [vm_compute; lia|]. split; [vm_compute; reflexivity|].
  split; [vm_compute; reflexivity|]. split; [vm_compute; reflexivity|]. split; [vm_compute; reflexivity|].
  split; [vm_compute; reflexivity|]. split; [vm_compute; eexists; split; reflexivity|]. split; vm_compute; reflexivity.
Qed.

(** Nest: the outer factor is sustained over the two trials of the inner block,
    the inner crossing is completed inside every group of two trials *)
Definition ex_nest : flat :=
  {| fl_design := [xsimple; xsimple]; fl_act := [0; 1];
     fl_crossings := [[0]; [1]]; fl_sustains := [2; 1]; fl_weights := [1; 1]; fl_sizes := [4; 2];
     fl_preambles := [0; 0]; fl_alignment := EqualPreamble; fl_alignment_preamble := 0;
     fl_min_trials := 0; fl_trials := 4; fl_rcc := true; fl_exclude := [];
     fl_excluded_derived := [];
     fl_constraints := [FCross; FConsistency; FSustain];
     fl_errors_fail := false |}.

Example ex_nest_facts :
  in_f1 ex_nest = true /\ 0 < T ex_nest /\ sustain_of ex_nest 0 = 2 /\
  (exists b, compile ex_nest = COk b /\ b_fresh b = 84%Z) /\
  length (all_valid (code_sem ex_nest)) = 8 /\
  hd [] (all_valid (code_sem ex_nest)) = [[Some 1; Some 1; Some 0; Some 0]; [Some 1; Some 0; Some 1; Some 0]].
Proof.
  split; [vm_compute; reflexivity|]. split; [vm_compute; lia|]. split; [vm_compute; reflexivity|].
  split; [vm_compute; eexists; split; reflexivity|]. split; vm_compute; reflexivity.
Qed.

(** LatinSquare over a 3-level and a 2-level factor: segments of three trials; in
    the r-th segment the second factor is the first one rotated by r (mod 2) *)
Definition x3 : ffactor :=
  {| ff_name := String.EmptyString; ff_hidden := false; ff_levels := [xlvl []; xlvl []; xlvl []]; ff_window := None; ff_complex := false |}.
Definition ex_latin : flat :=
  {| fl_design := [x3; xsimple]; fl_act := [0; 1];
     fl_crossings := [[0; 1]]; fl_sustains := [1]; fl_weights := [1]; fl_sizes := [6];
     fl_preambles := [0]; fl_alignment := EqualPreamble; fl_alignment_preamble := 0;
     fl_min_trials := 0; fl_trials := 6; fl_rcc := true; fl_exclude := [];
     fl_excluded_derived := [];
     fl_constraints := [FCross; FConsistency; FLatin [0; 1]];
     fl_errors_fail := false |}.

Example ex_latin_facts :
  in_f1 ex_latin = true /\ 0 < T ex_latin /\
  (exists b, compile ex_latin = COk b /\ b_fresh b = 159%Z) /\
  length (all_valid (code_sem ex_latin)) = 36 /\
  hd [] (all_valid (code_sem ex_latin)) =
    [[Some 2; Some 1; Some 0; Some 2; Some 1; Some 0]; [Some 0; Some 1; Some 0; Some 1; Some 0; Some 1]].
Proof.
  split; [vm_compute; reflexivity|]. split; [vm_compute; lia|].
  split; [vm_compute; eexists; split; reflexivity|]. split; vm_compute; reflexivity.
Qed.
