(** [compile_denotes]: in the fragment F1 the backend request compiled from a
    flat record denotes exactly the sequences valid for [code_sem fb]
    (reference semantics of Design/Sem.v): an assignment satisfies the request
    iff its auxiliary variables (Cross state variables, Tseitin variables) carry
    the values a fixed function [ext] of the grid computes, and its grid part is
    the one-hot image of a valid sequence.  Composed with (G)
    ([Blocks.block_full_cnf]) this gives the statements about the formula
    handed to the solver: soundness (C01), completeness (C02), unique
    extension (C03). *)
From Coq Require Import ZArith List Bool Arith Lia.
From SP Require Import Base.Sat Base.Bits Core.Card Core.CardProofs.
From SP Require Import Logic.Formula.
From SP Require Import Design.Flat Design.Layout Design.Sem.
From SP Require Import Encode.Compile Encode.CodeSem Encode.Generic Encode.Blocks Encode.Runs
     Encode.GridLemmas Encode.LayoutF1 Encode.F1Kinds Encode.F1Cross Encode.F1Deriv Encode.F1DerivC Encode.F1Sem Encode.F1Sustain Encode.F1Latin
     Encode.F1CrossSem Encode.F1DerivSem Encode.F1InARow Encode.F1Sequential Encode.F1Excl.
Import ListNotations.
Close Scope Z_scope.
Open Scope nat_scope.

Section F1.
Variable fb : flat.
Hypothesis HF1 : in_f1 fb = true.
Hypothesis HT : 0 < T fb.

Notation GZ := (GZ fb).
Notation Facts := (in_f1_facts fb HF1).

(** what each constraint says about the boolean grid *)
Definition Pc (c : fconstraint) (s : asg) : Prop :=
  match c with
  | FCross => Pcross fb s
  | FConsistency => Pcons fb s
  | FSustain => Psust fb s
  | FDerivation d deps f => Pderiv_any fb d deps f s
  | FAtMost k f l wb => Patmost fb k f l wb s
  | FExactlyK k f l wb => Pexactlyk fb k f l wb s
  | FAtLeast k f l wb => Patleast fb k f l wb s
  | FExactlyKInARow k f l wb => Pexactrow fb k f l wb s
  | FSequential f => Psequential fb f s
  | FLatin fs => Platin fb fs s
  | FExclude f l => Pexclude fb f l s
  | FPin i f l wb => Ppin fb i f l wb s
  | _ => True
  end.

Definition Pall (s : asg) : Prop := Forall (fun c => Pc c s) (fl_constraints fb).

Lemma GZ_nonneg' : (0 <= GZ)%Z.
Proof. unfold F1Kinds.GZ, zn. lia. Qed.

Lemma step_nothing fresh ct :
  (GZ < fresh)%Z -> nothing fresh = COk ct ->
  exists ext, DefinesA (fresh - 1) (ct_fresh ct - 1) (ct_clauses ct) (ct_requests ct) ext (fun _ => True).
Proof.
  intros Hfr E. unfold nothing in E. inversion E. subst ct. cbn [ct_fresh ct_clauses ct_requests].
  exists (fun s => s). apply definesA_nil. pose proof GZ_nonneg'. lia.
Qed.

(** * (a): every constraint of an F1 record contributes a block *)
Lemma all_steps : Forall (step_ok fb Pc GZ) (fl_constraints fb).
Proof.
  apply Forall_forall. intros c Hin. pose proof (f1_constraints fb Facts c Hin) as Hc.
  intros fresh ct Hfr E. destruct c; cbn [Pc]; try (cbn [constraint_f1] in Hc; discriminate).
  - exact (step_cross fb HF1 HT fresh ct Hfr E).
  - exact (step_consistency fb HF1 HT fresh ct Hfr E).
  - exact (step_sustain fb HF1 HT fresh ct Hfr E).
  - exact (step_deriv_any fb HF1 HT _ _ _ Hin fresh ct Hfr E).
  - exact (step_atmost fb HF1 HT _ _ _ _ Hc fresh ct Hfr E).
  - exact (step_atleast fb HF1 HT _ _ _ _ Hc fresh ct Hfr E).
  - exact (step_exactlyk fb HF1 HT _ _ _ _ Hc fresh ct Hfr E).
  - exact (step_exactrow fb HF1 HT _ _ _ _ Hc fresh ct Hfr E).
  - exact (step_exclude fb HF1 HT _ _ Hc fresh ct Hfr E).
  - exact (step_pin fb HF1 HT _ _ _ _ Hc fresh ct Hfr E).
  - exact (step_nothing fresh ct Hfr E).
  - exact (step_nothing fresh ct Hfr E).
  - exact (step_nothing fresh ct Hfr E).
  - exact (step_latin fb HF1 HT _ Hc fresh ct Hfr E).
  - exact (step_sequential fb HF1 HT _ Hc fresh ct Hfr E).
Qed.

Lemma GZ_vps : GZ = zn (variables_per_sample fb).
Proof. unfold F1Kinds.GZ. now rewrite (f1_vps fb HF1). Qed.

Theorem compile_is_block b :
  compile fb = COk b ->
  exists ext, DefinesA GZ (b_fresh b - 1) (b_clauses b) (b_requests b) ext Pall.
Proof. intros E. exact (compile_block fb Pc GZ b GZ_vps all_steps E). Qed.

(** * (b): the grid predicates are the documented meaning *)
Lemma nf_length : nf fb = length (fl_design fb).
Proof. reflexivity. Qed.

Lemma sem_factors_length : length (s_factors (code_sem fb)) = nf fb.
Proof. cbn [code_sem s_factors]. rewrite map_length, combine_length, seq_length. unfold nf. lia. Qed.

Lemma forallb_flat_map {A B} (p : B -> bool) (g : A -> list B) (l : list A) :
  forallb p (flat_map g l) = true <-> forall x, In x l -> forallb p (g x) = true.
Proof.
  induction l as [|x l IH]; cbn [flat_map]; [split; [intros _ y []|reflexivity]|].
  rewrite forallb_app, andb_true_iff, IH. split.
  - intros [Hx Hl] y [<-|Hy]; [exact Hx|now apply Hl].
  - intros H. split; [apply H; now left|intros y Hy; apply H; now right].
Qed.

Lemma constraint_sem s q c :
  onehot fb s q -> grouped fb q -> In c (fl_constraints fb) ->
  match c with FCross | FConsistency | FSustain | FDerivation _ _ _ => True | _ =>
    (Pc c s <-> forallb (constraint_ok (code_sem fb) q) (code_constraint fb c) = true) end.
Proof.
  intros Ho Hg Hin. pose proof (f1_constraints fb Facts c Hin) as Hc.
  destruct c; try exact I; try (cbn [constraint_f1] in Hc; discriminate); cbn [Pc].
  - cbn [code_constraint forallb]; rewrite andb_true_r. exact (atmost_sem fb HF1 HT s q _ _ _ _ Ho Hc).
  - cbn [code_constraint forallb]; rewrite andb_true_r. exact (atleast_sem fb HF1 HT s q _ _ _ _ Ho Hc).
  - cbn [code_constraint forallb]; rewrite andb_true_r. exact (exactlyk_sem fb HF1 HT s q _ _ _ _ Ho Hc).
  - cbn [code_constraint forallb]; rewrite andb_true_r. exact (exactrow_sem fb HF1 HT s q _ _ _ _ Ho Hc).
  - cbn [code_constraint forallb]; rewrite andb_true_r. exact (exclude_sem fb HF1 HT s q _ _ Ho Hc).
  - cbn [code_constraint forallb]; rewrite andb_true_r. exact (pin_sem fb HF1 HT s q _ _ _ _ Ho Hc).
  - split; reflexivity.
  - split; reflexivity.
  - split; reflexivity.
  - exact (latin_sem_c fb HF1 HT s q _ Ho Hc).
  - exact (sequential_sem fb HF1 HT s q _ Ho Hg Hc).
Qed.

Theorem pall_valid s :
  Pall s <-> exists q, onehot fb s q /\ valid_b (code_sem fb) q = true.
Proof.
  unfold Pall. rewrite Forall_forall. split.
  - intros H.
    assert (Ho : onehot fb s (decode fb s)).
    { apply (pcons_onehot fb HF1). exact (H FConsistency (f1_has_consistency fb Facts)). }
    assert (Hg : grouped fb (decode fb s)).
    { destruct (f1_has_sustain fb Facts) as [Hone|Hsu]; [now apply grouped_trivial|].
      apply (sustain_sem fb HF1 HT s _ Ho). exact (H FSustain Hsu). }
    assert (Hfo : forallb (fun p => factor_ok (code_sem fb) (decode fb s) (fst p) (snd p))
                          (index_list (s_factors (code_sem fb))) = true).
    { apply (factors_sem fb HF1 HT s _ Ho Hg). intros d deps f Hin. exact (H _ Hin). }
    assert (Hne : NoExcl fb s).
    { apply (no_excluded_shown fb HF1 HT s (decode fb s) Ho); [|exact Hfo].
      intros p Hp. exact (H _ (f1_exclude_backed fb Facts p Hp)). }
    exists (decode fb s). split; [exact Ho|]. unfold valid_b. rewrite !andb_true_iff. split; [split; [split|]|].
    + apply Nat.eqb_eq. rewrite sem_factors_length. exact (proj1 Ho).
    + exact Hfo.
    + cbn [code_sem s_crossings]. apply (crossings_sem fb HF1 HT s _ _ 0 Ho Hne (f1_crossings fb Facts)).
      destruct (f1_has_cross fb Facts) as [Hx|Hx]; [exact (H FCross Hx)|]. rewrite Hx. exact I.
    + cbn [code_sem s_constraints]. apply forallb_flat_map. intros c Hin.
      pose proof (constraint_sem s _ c Ho Hg Hin) as K. specialize (H c Hin).
      destruct c; try reflexivity; try (apply K; exact H).
  - intros (q & Ho & Hv) c Hin. unfold valid_b in Hv. rewrite !andb_true_iff in Hv. destruct Hv as [[[_ Hfac] Hcr] Hcs].
    cbn [code_sem s_constraints] in Hcs. rewrite forallb_flat_map in Hcs.
    pose proof (factors_grouped fb HF1 HT s q Ho Hfac) as Hg.
    assert (Hne : NoExcl fb s).
    { apply (no_excluded_shown fb HF1 HT s q Ho); [|exact Hfac].
      intros p Hp. pose proof (f1_exclude_backed fb Facts p Hp) as Hb.
      apply (constraint_sem s q _ Ho Hg Hb). exact (Hcs _ Hb). }
    pose proof (constraint_sem s q c Ho Hg Hin) as K.
    destruct c; cbn [Pc]; try exact I; try (apply K; exact (Hcs _ Hin)).
    + unfold Pcross. apply (crossings_sem fb HF1 HT s q _ 0 Ho Hne (f1_crossings fb Facts)). exact Hcr.
    + exact (onehot_pcons fb s q Ho).
    + exact (proj2 (sustain_sem fb HF1 HT s q Ho) Hg).
    + exact (proj2 (factors_sem fb HF1 HT s q Ho Hg) Hfac _ _ _ Hin).
Qed.

(** [onehot] (hence [Pall]) reads only the trial variables *)
Lemma bit_local s t tr f l :
  agree_upto GZ s t -> tr < T fb -> isact fb f = true -> lappl fb f tr = true -> l < nlevels fb f ->
  F1Kinds.bit fb s tr f l = F1Kinds.bit fb t tr f l.
Proof.
  intros A Ht Hf Hap Hl. unfold F1Kinds.bit. apply A.
  pose proof (gvar_range fb HF1 tr f l Ht Hf Hl Hap). pose proof (gvar_le fb HF1 HT tr f l Ht Hf Hl Hap). unfold zn in *. lia.
Qed.

Lemma find_ext_in {A} (p p' : A -> bool) (xs : list A) :
  (forall x, In x xs -> p x = p' x) -> find p xs = find p' xs.
Proof.
  induction xs as [|x xs IH]; intros H; [reflexivity|]. cbn [find].
  rewrite (H x (or_introl eq_refl)), IH; [reflexivity|]. intros y Hy. apply H. now right.
Qed.

Lemma cell_act_local s t tr f :
  agree_upto GZ s t -> tr < T fb -> isact fb f = true -> cell_act fb s tr f = cell_act fb t tr f.
Proof.
  intros A Ht Hf. unfold cell_act. destruct (lappl fb f tr) eqn:Hap; [|reflexivity].
  apply find_ext_in. intros l Hl. apply in_seq in Hl.
  apply bit_local; auto; lia.
Qed.

Lemma cell_impl_local s t : agree_upto GZ s t ->
  forall f tr, tr < T fb -> f < nf fb -> isact fb f = false -> cell_impl fb s tr f = cell_impl fb t tr f.
Proof.
  intros A f. induction f as [f IHf] using lt_wf_ind. intros tr Ht Hf Hn.
  unfold cell_impl at 1. apply (cell_impl_char fb HF1 HT t (dec_upto fb s f) tr f Hf Hn Ht).
  intros d t' Hok Ht'. rewrite (base_reads fb HF1 HT s f d t' Hf Hn Hok ltac:(lia)). unfold cell_of.
  destruct (dep_ok_cases fb f d Hn Hok) as [Hs|(Hda & Hlt & _)].
  - destruct (sact_lappl fb HF1 d t' Hs) as [Hda _]. rewrite Hda. apply cell_act_local; [exact A|lia|exact Hda].
  - rewrite Hda. apply IHf; [exact Hlt|lia|lia|exact Hda].
Qed.

Lemma onehot_local s t q : agree_upto GZ s t -> onehot fb s q -> onehot fb t q.
Proof.
  intros A (H1 & H2 & H3 & H4 & H5 & H6). split; [exact H1|]. split; [exact H2|]. split; [exact H3|]. split; [|split; [|exact H6]].
  - intros tr f l Ht Hf Hap Hl. rewrite <- (H4 tr f l Ht Hf Hap Hl). symmetry. now apply bit_local.
  - intros tr f Ht Hf Hn. rewrite (H5 tr f Ht Hf Hn). now apply (cell_impl_local s t A).
Qed.

Lemma pall_local s t : agree_upto GZ s t -> (Pall s <-> Pall t).
Proof.
  intros A. rewrite !pall_valid. split; intros (q & Ho & Hv); exists q; (split; [|exact Hv]).
  - exact (onehot_local s t q A Ho).
  - exact (onehot_local t s q (agree_upto_sym _ _ _ A) Ho).
Qed.

(** * compile_denotes *)
Theorem compile_denotes b :
  compile fb = COk b ->
  exists ext,
    (forall s v, ~ (GZ < v <= b_fresh b - 1)%Z -> ext s v = s v) /\
    (forall s t, agree_upto GZ s t -> forall v, (GZ < v <= b_fresh b - 1)%Z -> ext s v = ext t v) /\
    forall s, br_sem s b <->
      (forall v, (GZ < v <= b_fresh b - 1)%Z -> s v = ext s v) /\
      exists q, onehot fb s q /\ valid_b (code_sem fb) q = true.
Proof.
  intros E. destruct (compile_is_block b E) as (ext & D). exists ext.
  split; [exact (da_out _ _ _ _ _ _ D)|]. split; [exact (da_local _ _ _ _ _ _ D)|].
  intros s. rewrite <- pall_valid. exact (da_sem _ _ _ _ _ _ D s).
Qed.

(** * The formula handed to the solver *)
Theorem compile_full_cnf b :
  compile fb = COk b ->
  exists n' final,
    full_cnf b = (true, n', final) /\ (b_fresh b - 1 <= n')%Z /\ vars_upto n' final /\
    (forall s, (exists t, agree_upto GZ s t /\ sat t final = true) <->
               exists q, onehot fb s q /\ valid_b (code_sem fb) q = true) /\
    (forall t1 t2, agree_upto GZ t1 t2 -> sat t1 final = true -> sat t2 final = true -> agree_upto n' t1 t2).
Proof.
  intros E. destruct (compile_is_block b E) as (ext & D).
  destruct (block_full_cnf GZ b ext Pall D pall_local) as (n' & final & Ef & Hn & V & Hsem & Hu).
  exists n', final. split; [exact Ef|]. split; [exact Hn|]. split; [exact V|]. split; [|exact Hu].
  intros s. rewrite Hsem. apply pall_valid.
Qed.

End F1.
