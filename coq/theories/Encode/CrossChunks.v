(** The chunking of [Cross.__add_weight_constraint] (per combination: EQ on
    every full chunk of [size] state variables, LT weight+1 on the remaining
    ones) against the chunking of the reference semantics [Sem.chunks_ok] (per
    chunk: every admitted combination occurs exactly / at most its
    multiplicity). *)
From Coq Require Import ZArith List Bool Arith Lia.
From SP Require Import Base.Sat Base.Bits Core.Card Core.CardProofs Design.Sem.
From SP Require Import Encode.Compile Encode.Generic Encode.Runs Encode.GridLemmas.
Import ListNotations.
Close Scope Z_scope.
Open Scope nat_scope.

(** the requests of [add_weight_constraint] read on the boolean values of the variables *)
Fixpoint awc_ok (fuel : nat) (bs : list bool) (m size : nat) : Prop :=
  match fuel with
  | O => True
  | S fu =>
    match bs with
    | [] => True
    | _ => (if size <=? length bs then ntrue (firstn size bs) = m else ntrue bs <= m)
           /\ awc_ok fu (skipn size bs) m size
    end
  end.

Lemma Forall_firstn {A} (P : A -> Prop) n (l : list A) : Forall P l -> Forall P (firstn n l).
Proof.
  revert n. induction l as [|x l IH]; intros n H; destruct n; cbn [firstn]; try constructor.
  - inversion H; assumption.
  - inversion H; subst. now apply IH.
Qed.

Lemma Forall_skipn {A} (P : A -> Prop) n (l : list A) : Forall P l -> Forall P (skipn n l).
Proof.
  revert n. induction l as [|x l IH]; intros n H; destruct n; cbn [skipn]; try assumption.
  inversion H; subst. now apply IH.
Qed.

Lemma awc_ok_step fu bs m size :
  bs <> [] ->
  (awc_ok (S fu) bs m size <->
   (if size <=? length bs then ntrue (firstn size bs) = m else ntrue bs <= m) /\ awc_ok fu (skipn size bs) m size).
Proof. destruct bs; [contradiction|]. intros _. reflexivity. Qed.

(** enough fuel is enough *)
Lemma awc_ok_fuel m size : 0 < size -> forall fu fu' bs, length bs < fu -> length bs < fu' ->
  (awc_ok fu bs m size <-> awc_ok fu' bs m size).
Proof.
  intros Hs. induction fu as [|fu IH]; intros fu' bs H1 H2; [lia|]. destruct fu' as [|fu']; [lia|].
  destruct bs as [|b bs]; [reflexivity|].
  rewrite !awc_ok_step by discriminate.
  assert (Hl : length (skipn size (b :: bs)) < length (b :: bs)).
  { rewrite skipn_length. cbn [length]. lia. }
  rewrite (IH fu' (skipn size (b :: bs))) by lia. reflexivity.
Qed.

Lemma awc_requests s fuel : forall vars w size cw reqs,
  Forall (fun v => (0 < v)%Z) vars ->
  add_weight_constraint fuel vars w size cw = COk reqs ->
  (Forall (req_rel s) reqs <-> awc_ok fuel (map s vars) (w * cw) size).
Proof.
  induction fuel as [|fu IH]; intros vars w size cw reqs Hp E; cbn [add_weight_constraint] in E; [discriminate|].
  destruct vars as [|v vars]; [inversion E; subst; cbn; split; constructor|].
  remember (v :: vars) as vs eqn:Evs.
  destruct (add_weight_constraint fu (skipn size vs) w size cw) as [rest|e] eqn:Er; cbn [cbind] in E; [|discriminate].
  inversion E; subst reqs. clear E.
  specialize (IH _ _ _ _ _ (Forall_skipn _ size vs Hp) Er).
  rewrite awc_ok_step by (subst vs; discriminate).
  rewrite map_length, skipn_map, firstn_map, <- IH, Forall_cons_iff.
  assert (K : req_rel s (if size <=? length vs then (Card.EQ, zn (w * cw), firstn size vs) else (Card.LT, zn (w * cw + 1), vs))
              <-> (if size <=? length vs then ntrue (map s (firstn size vs)) = w * cw else ntrue (map s vs) <= w * cw)).
  { destruct (size <=? length vs); cbn [req_rel rel].
    - rewrite (count_pos s _ (Forall_firstn _ size vs Hp)). unfold zn. lia.
    - rewrite (count_pos s _ Hp). unfold zn. lia. }
  rewrite K. reflexivity.
Qed.

Lemma awc_total fuel : forall vars w size cw,
  0 < size -> length vars < fuel -> exists reqs, add_weight_constraint fuel vars w size cw = COk reqs.
Proof.
  induction fuel as [|fu IH]; intros vars w size cw Hs Hl; [lia|].
  cbn [add_weight_constraint]. destruct vars as [|v vars]; [eexists; reflexivity|].
  destruct (IH (skipn size (v :: vars)) w size cw Hs) as [rest Er].
  - rewrite skipn_length. cbn [length] in *. lia.
  - rewrite Er. cbn [cbind]. eexists; reflexivity.
Qed.

Lemma awc_req_ok n fuel : forall vars w size cw reqs,
  0 < size -> Forall (fun v => (0 < v <= n)%Z) vars ->
  add_weight_constraint fuel vars w size cw = COk reqs -> Forall (req_ok n) reqs.
Proof.
  induction fuel as [|fu IH]; intros vars w size cw reqs Hs Hv E; cbn [add_weight_constraint] in E; [discriminate|].
  destruct vars as [|v vars]; [inversion E; constructor|].
  remember (v :: vars) as vs eqn:Evs.
  destruct (add_weight_constraint fu (skipn size vs) w size cw) as [rest|e] eqn:Er; cbn [cbind] in E; [|discriminate].
  inversion E; subst reqs. clear E. constructor.
  - assert (Hin : forall l, Forall (fun v => (0 < v <= n)%Z) l -> Forall (inr n) l).
    { intros l. apply Forall_impl. intros a. unfold inr. lia. }
    destruct (size <=? length vs); cbn [req_ok]; (split; [unfold zn; lia|split]).
    + subst vs. destruct size; [lia|]. discriminate.
    + apply Hin. now apply Forall_firstn.
    + subst vs. discriminate.
    + now apply Hin.
  - apply (IH _ _ _ _ _ Hs) in Er; [assumption|]. now apply Forall_skipn.
Qed.

(** * Against [Sem.chunks_ok] *)
Lemma skipn_skipn {A} (x y : nat) (l : list A) : skipn x (skipn y l) = skipn (y + x) l.
Proof.
  revert l. induction y as [|y IH]; intros l; [reflexivity|].
  destruct l as [|a l]; [now rewrite !skipn_nil|]. cbn [skipn plus]. apply IH.
Qed.

Lemma skipn_map_seq {B} (g : nat -> B) n a : skipn a (map g (seq 0 n)) = map g (seq a (n - a)).
Proof.
  destruct (Nat.le_gt_cases a n) as [H|H].
  - rewrite <- (firstn_skipn_map_seq g n a (n - a)) by lia.
    rewrite firstn_all2; [reflexivity|]. rewrite skipn_length, map_length, seq_length. lia.
  - rewrite skipn_all2 by (rewrite map_length, seq_length; lia). replace (n - a) with 0 by lia. reflexivity.
Qed.

Section Chunks.
Variable S0 : sem.
Variable q : tseq.
Variable c : dcrossing.

Definition cbits (cm : list nat * nat) : list bool :=
  map (fun t => combo_eqb (fst cm) (combo_at q (c_factors c) t)) (seq 0 (s_trials S0)).

Lemma cbits_length cm : length (cbits cm) = s_trials S0.
Proof. unfold cbits. now rewrite map_length, seq_length. Qed.

Lemma count_combo_bits cm a len :
  a + len <= s_trials S0 ->
  count_combo q (c_factors c) (fst cm) a (a + len) = ntrue (firstn len (skipn a (cbits cm))).
Proof.
  intros H. unfold count_combo, cbits. rewrite (firstn_skipn_map_seq _ _ a len H), ntrue_map_filter.
  now replace (a + len - a) with len by lia.
Qed.

Lemma count_combo_bits_tail cm a :
  count_combo q (c_factors c) (fst cm) a (s_trials S0) = ntrue (skipn a (cbits cm)).
Proof. unfold count_combo, cbits. now rewrite skipn_map_seq, ntrue_map_filter. Qed.

Definition matched (t : nat) : Prop :=
  existsb (fun cm => combo_eqb (fst cm) (combo_at q (c_factors c) t)) (c_mult c) = true.

Lemma chunks_awc : 0 < c_chunk c -> forall fuel a, s_trials S0 - a < fuel ->
  (chunks_ok fuel S0 q c a = true <->
   (forall t, a <= t < s_trials S0 -> matched t) /\
   Forall (fun cm => awc_ok fuel (skipn a (cbits cm)) (snd cm) (c_chunk c)) (c_mult c)).
Proof.
  intros Hc. induction fuel as [|fu IH]; intros a Hf; [lia|].
  cbn [chunks_ok]. destruct (s_trials S0 <=? a) eqn:Ea.
  - apply Nat.leb_le in Ea. split; [|reflexivity]. intros _. split; [intros t Ht; lia|].
    apply Forall_forall. intros cm _. rewrite skipn_all2 by (rewrite cbits_length; lia). exact I.
  - apply Nat.leb_gt in Ea. set (T0 := s_trials S0) in *. set (b := a + c_chunk c).
    rewrite !andb_true_iff, !forallb_forall, (IH b) by (unfold b; lia).
    assert (Hstep : forall cm,
      (let n := count_combo q (c_factors c) (fst cm) a (Nat.min b T0) in
       if b <=? T0 then n =? snd cm else n <=? snd cm) = true /\
      awc_ok fu (skipn b (cbits cm)) (snd cm) (c_chunk c) <->
      awc_ok (Datatypes.S fu) (skipn a (cbits cm)) (snd cm) (c_chunk c)).
    { intros cm. rewrite awc_ok_step.
      2:{ intros E. apply (f_equal (@length bool)) in E. rewrite skipn_length, cbits_length in E. cbn in E. fold T0 in E. lia. }
      rewrite skipn_length, cbits_length, skipn_skipn. fold T0. fold b.
      replace (c_chunk c <=? T0 - a) with (b <=? T0).
      2:{ unfold b. destruct (a + c_chunk c <=? T0) eqn:E1; destruct (c_chunk c <=? T0 - a) eqn:E2; try reflexivity;
          [apply Nat.leb_le in E1; apply Nat.leb_gt in E2|apply Nat.leb_gt in E1; apply Nat.leb_le in E2]; lia. }
      cbv zeta. destruct (b <=? T0) eqn:Eb.
      - apply Nat.leb_le in Eb. rewrite Nat.min_l by lia. unfold b at 1.
        rewrite count_combo_bits by (fold b; fold T0; lia). rewrite Nat.eqb_eq. reflexivity.
      - apply Nat.leb_gt in Eb. rewrite Nat.min_r by lia. unfold T0 at 1.
        rewrite count_combo_bits_tail. rewrite Nat.leb_le. reflexivity. }
    split.
    + intros [[H1 H2] [H3 H4]]. split.
      * intros t Ht. destruct (Nat.lt_ge_cases t b) as [Hb|Hb].
        -- apply H2. apply in_seq. destruct (Nat.min_spec b T0) as [[_ ->]|[_ ->]]; lia.
        -- apply H3. lia.
      * apply Forall_forall. intros cm Hcm. apply Hstep. split; [now apply H1|].
        apply (proj1 (Forall_forall _ _) H4 cm Hcm).
    + intros [H1 H2]. split; [split|split].
      * intros cm Hcm. apply (proj2 (Hstep cm)). apply (proj1 (Forall_forall _ _) H2 cm Hcm).
      * intros t Ht. apply in_seq in Ht. apply H1. destruct (Nat.min_spec b T0) as [[_ E]|[_ E]]; rewrite E in Ht; lia.
      * intros t Ht. apply H1. unfold b in Ht. lia.
      * apply Forall_forall. intros cm Hcm. apply (proj2 (Hstep cm)). apply (proj1 (Forall_forall _ _) H2 cm Hcm).
Qed.
End Chunks.
