(** The (a) half of [Cross] in the fragment F1: the state variables are
    definitional (each is the conjunction of the level variables of its
    combination in its trial), the Tseitin variables are definitional, and what
    remains is, per admitted combination, the chunked counting condition of
    [__add_weight_constraint] on the boolean list "trial t shows combination c". *)
From Coq Require Import ZArith List Bool Arith Lia.
From SP Require Import Base.Sat Base.Bits Core.Card Core.CardProofs.
From SP Require Import Logic.Formula Logic.Tseitin Logic.TseitinProofs.
From SP Require Import Design.Flat Design.Layout Design.Sem.
From SP Require Import Encode.Compile Encode.CodeSem Encode.Generic Encode.Blocks Encode.Runs
     Encode.GridLemmas Encode.CrossChunks Encode.LayoutF1 Encode.F1Kinds.
Import ListNotations.
Close Scope Z_scope.
Open Scope nat_scope.

(** * Generic list facts *)
Lemma cmapM_ok {A B} (f : A -> cres B) (g : A -> B) (l : list A) :
  (forall x, In x l -> f x = COk (g x)) -> cmapM f l = COk (map g l).
Proof.
  induction l as [|x l IH]; intros H; [reflexivity|]. cbn [cmapM map].
  rewrite (H x (or_introl eq_refl)). cbn [cbind]. rewrite IH; [reflexivity|]. intros y Hy. apply H. now right.
Qed.

Lemma cmapM_Forall2 {A B} (f : A -> cres B) (l : list A) : forall r,
  cmapM f l = COk r -> Forall2 (fun x y => f x = COk y) l r.
Proof.
  induction l as [|x l IH]; intros r E; cbn [cmapM] in E.
  - inversion E. constructor.
  - destruct (f x) as [y|e] eqn:Ex; cbn [cbind] in E; [|discriminate].
    destruct (cmapM f l) as [ys|e] eqn:El; cbn [cbind] in E; [|discriminate].
    inversion E. subst r. constructor; [exact Ex|]. now apply IH.
Qed.

Lemma cmapM_total {A B} (f : A -> cres B) (l : list A) :
  (forall x, In x l -> exists y, f x = COk y) -> exists r, cmapM f l = COk r.
Proof.
  induction l as [|x l IH]; intros H; [eexists; reflexivity|]. cbn [cmapM].
  destruct (H x (or_introl eq_refl)) as [y Ey]. rewrite Ey. cbn [cbind].
  destruct IH as [r Er]; [intros z Hz; apply H; now right|]. rewrite Er. cbn [cbind]. eexists; reflexivity.
Qed.

Lemma zrange_nth a n i : i < n -> nth i (zrange a n) 0%Z = (a + Z.of_nat i)%Z.
Proof.
  revert a i. induction n as [|n IH]; intros a i H; [lia|]. destruct i as [|i]; cbn [zrange nth].
  - lia.
  - rewrite IH by lia. lia.
Qed.

Lemma zrange_length a n : length (zrange a n) = n.
Proof. revert a. induction n as [|n IH]; intros a; cbn [zrange length]; [reflexivity|now rewrite IH]. Qed.

Lemma map2_nth {A B C} (f : A -> B -> C) (la : list A) (lb : list B) (da : A) (db : B) :
  length la = length lb ->
  map2 f la lb = map (fun n => f (nth n la da) (nth n lb db)) (seq 0 (length la)).
Proof.
  revert lb. induction la as [|a la IH]; intros [|b lb] H; cbn [length] in H; try discriminate; [reflexivity|].
  cbn [map2 length seq map nth]. f_equal. rewrite <- seq_shift, map_map. apply IH. lia.
Qed.

Lemma concat_uniform_length {A} (rows : list (list A)) nc :
  Forall (fun r => length r = nc) rows -> length (concat rows) = length rows * nc.
Proof.
  intros H. induction H as [|r rows Hr _ IH]; [reflexivity|]. cbn [concat length]. rewrite app_length, IH, Hr. lia.
Qed.

Lemma nth_concat_uniform {A} (rows : list (list A)) nc (d : A) : forall t j,
  Forall (fun r => length r = nc) rows -> t < length rows -> j < nc ->
  nth (t * nc + j) (concat rows) d = nth j (nth t rows []) d.
Proof.
  induction rows as [|r rows IH]; intros t j H Ht Hj; [cbn in Ht; lia|].
  inversion H as [|? ? Hr Hrs]; subst. cbn [concat]. destruct t as [|t].
  - cbn [Nat.mul Nat.add nth]. rewrite app_nth1 by lia. reflexivity.
  - cbn [nth]. rewrite app_nth2 by lia. replace (S t * length r + j - length r) with (t * length r + j) by lia.
    apply IH; [assumption|cbn [length] in Ht; lia|assumption].
Qed.

Lemma flat_map_map {A B C} (g : B -> list C) (h : A -> B) (l : list A) :
  flat_map g (map h l) = flat_map (fun x => g (h x)) l.
Proof. induction l as [|x l IH]; [reflexivity|]. cbn [map flat_map]. now rewrite IH. Qed.


Lemma forallb_ext_in {A} (f g : A -> bool) (l : list A) :
  (forall x, In x l -> f x = g x) -> forallb f l = forallb g l.
Proof.
  induction l as [|x l IH]; intros H; [reflexivity|]. cbn [forallb].
  rewrite (H x (or_introl eq_refl)), IH; [reflexivity|]. intros y Hy. apply H. now right.
Qed.

Lemma forallb_map_comp {A B} (f : A -> B) (p : B -> bool) (l : list A) :
  forallb p (map f l) = forallb (fun x => p (f x)) l.
Proof. induction l as [|x l IH]; [reflexivity|]. cbn [map forallb]. now rewrite IH. Qed.

Lemma Forall2_Forall_iff {A B} (R : A -> B -> Prop) (P : A -> Prop) (Q : B -> Prop) (l : list A) (r : list B) :
  Forall2 R l r -> (forall x y, In x l -> R x y -> (Q y <-> P x)) -> (Forall Q r <-> Forall P l).
Proof.
  intros H. induction H as [|x y l r Hxy _ IH]; intros HR; [split; constructor|].
  rewrite !Forall_cons_iff, (HR x y (or_introl eq_refl) Hxy), IH; [reflexivity|].
  intros a b Ha. apply HR. now right.
Qed.

Lemma combine_map_seq {A B C} (f : nat -> A) (g : C -> B) (l : list C) (d : C) :
  combine (map f (seq 0 (length l))) (map g l) = map (fun j => (f j, g (nth j l d))) (seq 0 (length l)).
Proof.
  revert f. induction l as [|x l IH]; intros f; [reflexivity|].
  cbn [length seq map combine nth]. f_equal. rewrite <- seq_shift, !map_map. apply (IH (fun j => f (S j))).
Qed.

Lemma Forall_nth_seq {A} (P : A -> Prop) (l : list A) (d : A) :
  Forall P l <-> Forall (fun j => P (nth j l d)) (seq 0 (length l)).
Proof.
  induction l as [|x l IH]; [split; constructor|].
  cbn [length seq]. rewrite !Forall_cons_iff, <- seq_shift, Forall_map. cbn [nth]. now rewrite IH.
Qed.

Lemma req_rel_ext s t r : (forall v, s v = t v) -> (req_rel s r <-> req_rel t r).
Proof.
  intros H. destruct r as [[kd k] vs]. cbn [req_rel]. unfold count.
  replace (filter (lit_true s) vs) with (filter (lit_true t) vs); [reflexivity|].
  apply filter_ext. intros a. unfold lit_true. now rewrite !H.
Qed.

Section F1Cross.
Variable fb : flat.
Hypothesis HF1 : in_f1 fb = true.
Hypothesis HT : 0 < T fb.

Notation GZ := (GZ fb).
Notation bit := (bit fb).

(** "trial t shows combination di" on the boolean grid *)
Definition cbit (s : asg) (di : list (nat * nat)) (t : nat) : bool :=
  forallb (fun p => bit s t (fst p) (snd p)) di.

Definition gv (t : nat) (p : nat * nat) : nat := gvar fb t (fst p) (snd p).

(** the counting condition of one crossing *)
Definition Pcross1 (i : nat) (c : list nat) (s : asg) : Prop :=
  Forall (fun di => awc_ok (S (T fb - preamble_size fb i))
                           (map (cbit s di) (seq (preamble_size fb i) (T fb - preamble_size fb i)))
                           (combination_weight fb di * sustain_of fb (hd 0 c) * crossing_weight fb c)
                           (nth i (fl_sizes fb) 0 * crossing_weight fb c))
         (trial_combinations_of fb c).

Fixpoint Pcrossings (i : nat) (cs : list (list nat)) (s : asg) : Prop :=
  match cs with
  | [] => True
  | c :: r => Pcross1 i c s /\ Pcrossings (S i) r s
  end.

Definition Pcross (s : asg) : Prop := Pcrossings 0 (fl_crossings fb) s.

(** * Combinations *)
Lemma combos_cons f r :
  crossing_combos fb (f :: r) =
  flat_map (fun l => map (cons (f, l)) (crossing_combos fb r)) (seq 0 (nlevels fb f)).
Proof. unfold crossing_combos. cbn [map product]. now rewrite flat_map_map. Qed.

Lemma combos_spec c : forall di, In di (crossing_combos fb c) ->
  map fst di = c /\ Forall (fun p => snd p < nlevels fb (fst p)) di.
Proof.
  induction c as [|f r IH]; intros di H.
  - cbn in H. destruct H as [<-|[]]. split; [reflexivity|constructor].
  - rewrite combos_cons in H. apply in_flat_map in H. destruct H as (l & Hl & H). apply in_seq in Hl.
    apply in_map_iff in H. destruct H as (di' & <- & Hdi'). destruct (IH di' Hdi') as [A B].
    split; [cbn [map fst]; now rewrite A|]. constructor; [cbn [fst snd]; lia|exact B].
Qed.

Lemma combo_vars_ok c di t fresh :
  Forall (fun f => isact fb f = true) c -> Forall (fun f => lappl fb f t = true) c ->
  In di (crossing_combos fb c) -> t < T fb -> (GZ < fresh)%Z ->
  Forall (fun v => 0 < v /\ (zn v <= fresh - 1)%Z) (map (gv t) di).
Proof.
  intros Hc Ha Hdi Ht Hfr. destruct (combos_spec c di Hdi) as [A B].
  apply Forall_map. apply Forall_forall. intros p Hp. unfold gv. split; [apply gvar_pos|].
  assert (Hin : In (fst p) c) by (rewrite <- A; now apply in_map).
  pose proof (proj1 (Forall_forall _ _) Hc _ Hin) as Hf. pose proof (proj1 (Forall_forall _ _) Ha _ Hin) as Hap.
  cbv beta in Hf, Hap.
  pose proof (gvar_le fb HF1 HT t (fst p) (snd p) Ht Hf (proj1 (Forall_forall _ _) B p Hp) Hap). lia.
Qed.

Lemma encode_combo c di t :
  Forall (fun f => isact fb f = true) c -> In di (crossing_combos fb c) ->
  encode_combination fb di t = COk (map (gv (t - 1)) di).
Proof.
  intros Hc Hdi. destruct (combos_spec c di Hdi) as [A B]. unfold encode_combination.
  apply cmapM_ok. intros p Hp.
  assert (Hf : isact fb (fst p) = true).
  { apply (proj1 (Forall_forall _ _) Hc). rewrite <- A. now apply in_map. }
  rewrite (f1_encode_any fb HF1 (fst p) (snd p) t Hf (proj1 (Forall_forall _ _) B p Hp)). reflexivity.
Qed.


(** * One crossing *)
Lemma match_first {A B} (l : list A) (e : B) (f : A -> B) (d : A) :
  l <> [] -> match l with [] => e | x :: _ => f x end = f (hd d l).
Proof. destruct l; [contradiction|reflexivity]. Qed.

Section One.
Variable i : nat.
Variable c : list nat.
Variable fresh : Z.
Hypothesis Hc : Forall (fun f => isact fb f = true) c.
Hypothesis Hfr : (GZ < fresh)%Z.

(** the crossing starts after its preamble; from there on every crossed factor has a level *)
Let pre := preamble_size fb i.
Let NT := T fb - pre.
Hypothesis Hpre : pre < T fb.
Hypothesis Hc2 : Forall (fun f => stride1 fb f = true /\ start_of fb f <= pre) c.

Lemma crossed_appl t : pre <= t -> Forall (fun f => lappl fb f t = true) c.
Proof.
  intros Ht. apply Forall_forall. intros f Hf.
  pose proof (proj1 (Forall_forall _ _) Hc f Hf) as Ha. destruct (proj1 (Forall_forall _ _) Hc2 f Hf) as [Hs Hst].
  cbv beta in Ha. rewrite (lappl_stride1 fb HF1 f t Ha Hs). apply Nat.leb_le. lia.
Qed.

Let combos := trial_combinations_of fb c.
Let nc := length combos.
Let N := NT * nc.
Let rows := map (fun t => map (fun di => map (gv t) di) combos) (seq pre NT).
Let flattened := concat rows.
Let fresh1 := (fresh + zn N)%Z.
Let iffs := map2 (fun sv vars => FIff (FVar sv) (FAnd (map fv vars))) (zrange fresh N) flattened.

Lemma combos_sub di : In di combos -> In di (crossing_combos fb c).
Proof. unfold combos, trial_combinations_of. intros H. apply filter_In in H. apply H. Qed.

Lemma rows_uniform : Forall (fun r => length r = nc) rows.
Proof. unfold rows. apply Forall_map. apply Forall_forall. intros t _. now rewrite map_length. Qed.

Lemma rows_length : length rows = NT.
Proof. unfold rows. now rewrite map_length, seq_length. Qed.

Lemma flattened_length : length flattened = N.
Proof. unfold flattened. rewrite (concat_uniform_length rows nc rows_uniform), rows_length. reflexivity. Qed.

Lemma flattened_nth t j : t < NT -> j < nc ->
  nth (t * nc + j) flattened [] = map (gv (pre + t)) (nth j combos []).
Proof.
  intros Ht Hj. unfold flattened. rewrite (nth_concat_uniform rows nc [] t j rows_uniform) by (rewrite ?rows_length; assumption).
  unfold rows. rewrite (nth_indep _ [] (map (fun di => map (gv 0) di) combos)) by (rewrite map_length, seq_length; exact Ht).
  rewrite (map_nth (fun t => map (fun di => map (gv t) di) combos) (seq pre NT) 0 t), seq_nth by exact Ht.
  rewrite (nth_indep _ [] (map (gv (pre + t)) [])) by (rewrite map_length; exact Hj).
  now rewrite (map_nth (fun di => map (gv (pre + t)) di) combos [] j).
Qed.

Lemma index_split n : n < N -> exists t j, t < NT /\ j < nc /\ n = t * nc + j.
Proof.
  intros Hn. unfold N in Hn. assert (Hnc : 0 < nc) by (destruct nc; [lia|lia]).
  exists (n / nc), (n mod nc). split; [apply Nat.div_lt_upper_bound; lia|]. split; [apply Nat.mod_upper_bound; lia|].
  rewrite (Nat.div_mod n nc) at 1 by lia. lia.
Qed.

Lemma flattened_vars_ok n : n < N ->
  Forall (fun v => 0 < v /\ (zn v <= fresh - 1)%Z) (nth n flattened []).
Proof.
  intros Hn. destruct (index_split n Hn) as (t & j & Ht & Hj & ->). rewrite (flattened_nth t j Ht Hj).
  apply (combo_vars_ok c); try assumption; [apply crossed_appl; lia|apply combos_sub; apply nth_In; exact Hj|unfold NT in Ht; lia].
Qed.

(** the values the state variables must take *)
Definition extS (s : asg) : asg :=
  fun v => if ((fresh <=? v) && (v <? fresh1))%Z
           then forallb (fun u => s (zn u)) (nth (Z.to_nat (v - fresh)) flattened [])
           else s v.

Lemma extS_out s v : ~ (fresh - 1 < v <= fresh1 - 1)%Z -> extS s v = s v.
Proof.
  intros H. unfold extS. destruct ((fresh <=? v) && (v <? fresh1))%Z eqn:E; [|reflexivity].
  apply andb_true_iff in E. destruct E as [E1 E2]. apply Z.leb_le in E1. apply Z.ltb_lt in E2. lia.
Qed.

Lemma extS_in s n : n < N -> extS s (fresh + zn n)%Z = forallb (fun u => s (zn u)) (nth n flattened []).
Proof.
  intros Hn. unfold extS, fresh1. replace ((fresh <=? fresh + zn n) && (fresh + zn n <? fresh + zn N))%Z with true.
  - unfold zn. now replace (Z.to_nat (fresh + Z.of_nat n - fresh)) with n by lia.
  - symmetry. apply andb_true_iff. split; [apply Z.leb_le|apply Z.ltb_lt]; unfold zn; lia.
Qed.

Lemma extS_local s t : agree_upto (fresh - 1) s t -> forall v, (fresh - 1 < v <= fresh1 - 1)%Z -> extS s v = extS t v.
Proof.
  intros A v Hv. unfold fresh1 in Hv. replace v with (fresh + zn (Z.to_nat (v - fresh)))%Z by (unfold zn; lia).
  assert (Hn : Z.to_nat (v - fresh) < N) by (unfold zn in Hv; lia).
  rewrite !extS_in by exact Hn. apply forallb_ext_in. intros u Hu.
  destruct (proj1 (Forall_forall _ _) (flattened_vars_ok _ Hn) u Hu) as [U1 U2]. apply A. unfold zn in *. lia.
Qed.

Lemma GZ_nonneg : (0 <= GZ)%Z.
Proof. unfold F1Kinds.GZ, zn. lia. Qed.

Lemma iffs_eq :
  iffs = map (fun n => FIff (FVar (fresh + zn n)%Z) (FAnd (map fv (nth n flattened [])))) (seq 0 N).
Proof.
  unfold iffs. rewrite (map2_nth _ (zrange fresh N) flattened 0%Z []) by (now rewrite zrange_length, flattened_length).
  rewrite zrange_length. apply map_ext_in. intros n Hn. apply in_seq in Hn. now rewrite zrange_nth by lia.
Qed.

Lemma eval_fvs s (us : list nat) : Forall (fun u => 0 < u) us ->
  forallb (eval s) (map fv us) = forallb (fun u => s (zn u)) us.
Proof.
  intros H. rewrite forallb_map_comp. apply forallb_ext_in. intros u Hu. cbn [fv eval].
  apply lit_true_pos. assert (U : 0 < u) by exact (proj1 (Forall_forall _ _) H u Hu). unfold zn. lia.
Qed.

Lemma eval_iffs s :
  eval s (FAnd iffs) = true <-> forall v, (fresh - 1 < v <= fresh1 - 1)%Z -> s v = extS s v.
Proof.
  pose proof GZ_nonneg as HG. rewrite iffs_eq. cbn [eval]. rewrite forallb_map_comp, forallb_forall. split.
  - intros H v Hv. unfold fresh1 in Hv. replace v with (fresh + zn (Z.to_nat (v - fresh)))%Z by (unfold zn; lia).
    assert (Hn : Z.to_nat (v - fresh) < N) by (unfold zn in Hv; lia).
    specialize (H _ (proj2 (in_seq _ _ _) (conj (Nat.le_0_l _) Hn))). cbn [eval] in H.
    rewrite lit_true_pos in H by (unfold zn; lia). rewrite eval_fvs in H.
    + rewrite extS_in by exact Hn. now apply eqb_prop.
    + eapply Forall_impl; [|apply (flattened_vars_ok _ Hn)]. intros a [Ha _]. exact Ha.
  - intros H n Hn. apply in_seq in Hn. cbn [eval]. rewrite lit_true_pos by (unfold zn; lia).
    rewrite eval_fvs.
    + rewrite <- extS_in by lia. rewrite <- H; [apply eqb_reflx|]. unfold fresh1, zn. lia.
    + eapply Forall_impl; [|apply (flattened_vars_ok n); lia]. intros a [Ha _]. exact Ha.
Qed.

Lemma iffs_leaves z : In z (leaves (FAnd iffs)) -> z <> 0%Z /\ (Z.abs z < fresh1)%Z.
Proof.
  pose proof GZ_nonneg as HG. rewrite iffs_eq. cbn [leaves]. rewrite flat_map_map. intros H.
  apply in_flat_map in H. destruct H as (n & Hn & H). apply in_seq in Hn. cbn [leaves] in H.
  destruct H as [<-|H].
  - unfold fresh1, zn. lia.
  - apply in_flat_map in H. destruct H as (f & Hf & H). apply in_map_iff in Hf. destruct Hf as (u & <- & Hu).
    cbn [fv leaves] in H. destruct H as [<-|[]].
    destruct (proj1 (Forall_forall _ _) (flattened_vars_ok n ltac:(lia)) u Hu) as [U1 U2].
    unfold fresh1, zn in *. lia.
Qed.

(** the requests *)
Let cw := crossing_weight fb c.
Let size := nth i (fl_sizes fb) 0 * cw.
Let tr (j : nat) : list Z := map (fun t => (fresh + zn (t * nc + j))%Z) (seq 0 NT).
Let wt (di : list (nat * nat)) : nat := combination_weight fb di * sustain_of fb (hd 0 c).

Lemma tr_ok j : j < nc -> Forall (fun v => (0 < v <= fresh1 - 1)%Z) (tr j).
Proof.
  pose proof GZ_nonneg as HG. intros Hj. unfold tr. apply Forall_map. apply Forall_forall. intros t Ht. apply in_seq in Ht.
  assert (t * nc + j < N) by (unfold N; nia). unfold fresh1, zn. lia.
Qed.

Lemma tr_values s j : j < nc -> map (extS s) (tr j) = map (cbit s (nth j combos [])) (seq pre NT).
Proof.
  intros Hj. unfold tr. rewrite map_map, (map_seq_shift0 (cbit s (nth j combos [])) pre NT).
  apply map_ext_in. intros t Ht. apply in_seq in Ht.
  rewrite extS_in by (unfold N; nia). rewrite flattened_nth by lia. unfold cbit.
  rewrite forallb_map_comp. reflexivity.
Qed.

Lemma reqs_pcross reqss :
  0 < size ->
  cmapM (fun p => add_weight_constraint (S (length (fst p))) (fst p) (snd p) size cw)
        (combine (map tr (seq 0 nc)) (map wt combos)) = COk reqss ->
  Forall (req_ok (fresh1 - 1)) (concat reqss) /\
  forall s, Forall (req_rel (extS s)) (concat reqss) <-> Pcross1 i c s.
Proof.
  intros Hsz E. apply cmapM_Forall2 in E. unfold nc in E. rewrite (combine_map_seq tr wt combos []) in E. fold nc in E.
  split.
  - apply Forall_concat.
    apply (Forall2_Forall_iff _ (fun _ => True) (Forall (req_ok (fresh1 - 1))) _ _ E); [|apply Forall_forall; trivial].
    intros p reqs Hp Hr. apply in_map_iff in Hp. destruct Hp as (j & <- & Hj). apply in_seq in Hj. cbn [fst snd] in Hr.
    split; [trivial|]. intros _. apply (awc_req_ok _ _ _ _ _ _ _ Hsz (tr_ok j ltac:(lia)) Hr).
  - intros s. rewrite Forall_concat. unfold Pcross1. fold combos. rewrite (Forall_nth_seq _ combos []). fold nc.
    rewrite (Forall2_Forall_iff _ (fun p => awc_ok (S (length (fst p))) (map (extS s) (fst p)) (snd p * cw) size) _ _ _ E).
    + rewrite Forall_map. apply Forall_iff_ext. intros j Hj. apply in_seq in Hj. cbn [fst snd].
      rewrite (tr_values s j ltac:(lia)). unfold tr at 1. rewrite map_length, seq_length. reflexivity.
    + intros p reqs Hp Hr. apply in_map_iff in Hp. destruct Hp as (j & <- & Hj). apply in_seq in Hj. cbn [fst snd] in *.
      apply (awc_requests (extS s) _ _ _ _ _ _); [|exact Hr].
      eapply Forall_impl; [|apply (tr_ok j); lia]. intros a [Ha _]. exact Ha.
Qed.

(** * The contribution of one crossing is a block *)
Lemma step_one_crossing ct :
  crossing_f1 fb i c = true ->
  apply_one_crossing fb i c fresh = COk ct ->
  exists ext, DefinesA (fresh - 1) (ct_fresh ct - 1) (ct_clauses ct) (ct_requests ct) ext (Pcross1 i c).
Proof.
  intros Hcf E. pose proof GZ_nonneg as HG.
  unfold crossing_f1 in Hcf. rewrite !andb_true_iff in Hcf. destruct Hcf as [[[_ Hsize] _] _].
  apply Nat.ltb_lt in Hsize.
  unfold apply_one_crossing in E. fold combos in E. fold pre in E. fold NT in E.
  assert (Eenc : cmapM (fun t => cmapM (fun di => encode_combination fb di t) combos) (seq (1 + pre) NT) = COk rows).
  { unfold rows. cbn [Nat.add]. rewrite <- (seq_shift NT pre).
    rewrite (cmapM_ok _ (fun t => map (fun di => map (gv (t - 1)) di) combos)).
    - f_equal. rewrite map_map. apply map_ext. intros t. now replace (S t - 1) with t by lia.
    - intros t _. apply cmapM_ok. intros di Hdi. apply (encode_combo c); [exact Hc|now apply combos_sub]. }
  rewrite Eenc in E. cbn [cbind] in E.
  assert (Hrows : rows <> []).
  { intros H. apply (f_equal (@length _)) in H. rewrite rows_length in H. cbn in H. unfold NT in H. lia. }
  rewrite (match_first rows _ _ [] Hrows) in E.
  assert (Ehd : length (hd [] rows) = nc).
  { destruct rows as [|r0 rs] eqn:Er; [contradiction|]. cbn [hd]. pose proof rows_uniform as U. rewrite Er in U.
    now inversion U. }
  rewrite Ehd, seq_length in E. fold N in E. fold flattened in E. fold iffs in E.
  destruct (cmapM _ _) as [reqss|e] eqn:Ereq in E; cbn [cbind] in E; [|discriminate].
  fold fresh1 in E. destruct (cnf_fn iffs fresh1) as [cls fresh2] eqn:Ecnf.
  inversion E. subst ct. clear E. cbn [ct_fresh ct_clauses ct_requests].
  (* the Tseitin block *)
  destruct (definesA_tseitin iffs fresh1 cls fresh2) as (extT & DT); [unfold fresh1, zn; lia|exact iffs_leaves|exact Ecnf|].
  pose proof (da_range _ _ _ _ _ _ DT) as RT.
  (* the requests *)
  assert (Ereq' : cmapM (fun p => add_weight_constraint (S (length (fst p))) (fst p) (snd p) size cw)
                        (combine (map tr (seq 0 nc)) (map wt combos)) = COk reqss) by exact Ereq.
  destruct (reqs_pcross reqss Hsize Ereq') as [Rok Rsem].
  assert (DR : DefinesA (fresh2 - 1) (fresh2 - 1) [] (concat reqss) (fun s => s)
                        (fun s => Forall (req_rel s) (concat reqss))).
  { apply definesA_requests; [lia|]. eapply Forall_impl; [|exact Rok]. intros r. apply req_ok_le. lia. }
  pose proof (definesA_seq _ _ _ _ _ _ _ _ _ _ _ DT DR) as D2. rewrite app_nil_r in D2. cbn [app] in D2.
  exists (fun s => extT (extS s)).
  eapply (definesA_absorb (fresh - 1) (fresh1 - 1) (fresh2 - 1) cls (concat reqss) extS _ (Pcross1 i c)).
  - unfold fresh1, zn. lia.
  - exact extS_out.
  - exact extS_local.
  - exact D2.
  - intros s. cbv beta. rewrite eval_iffs.
    assert (Heq : (forall v, (fresh - 1 < v <= fresh1 - 1)%Z -> s v = extS s v) -> forall v, s v = extS s v).
    { intros H1 v. destruct (Z_lt_le_dec (fresh - 1) v) as [A|A]; [destruct (Z_le_gt_dec v (fresh1 - 1)) as [B|B]|].
      - apply H1. lia.
      - symmetry. apply extS_out. lia.
      - symmetry. apply extS_out. lia. }
    split.
    + intros [H1 H2]. split; [exact H1|]. apply Rsem.
      eapply Forall_impl; [|exact H2]. intros r. apply (proj1 (req_rel_ext s (extS s) r (Heq H1))).
    + intros [H1 H2]. split; [exact H1|]. apply Rsem in H2.
      eapply Forall_impl; [|exact H2]. intros r. apply (proj2 (req_rel_ext s (extS s) r (Heq H1))).
Qed.

End One.

Lemma crossing_f1_factors i c : crossing_f1 fb i c = true -> Forall (fun f => isact fb f = true) c.
Proof.
  unfold crossing_f1. rewrite !andb_true_iff. intros [[[H _] _] _]. rewrite forallb_forall in H.
  apply Forall_forall. intros f Hf. specialize (H f Hf). rewrite !andb_true_iff in H. apply H.
Qed.

Lemma crossing_f1_starts i c : crossing_f1 fb i c = true ->
  preamble_size fb i < T fb /\
  Forall (fun f => stride1 fb f = true /\ start_of fb f <= preamble_size fb i) c.
Proof.
  unfold crossing_f1. rewrite !andb_true_iff. intros [[[H _] Hp] _]. rewrite forallb_forall in H.
  split; [now apply Nat.ltb_lt in Hp|].
  apply Forall_forall. intros f Hf. specialize (H f Hf). rewrite !andb_true_iff in H.
  destruct H as [[_ H1] H2]. apply Nat.leb_le in H2. now split.
Qed.

Lemma step_crossings cs : forall i fresh ct,
  crossings_f1 fb i cs = true -> (GZ < fresh)%Z ->
  apply_crossings fb i cs fresh = COk ct ->
  exists ext, DefinesA (fresh - 1) (ct_fresh ct - 1) (ct_clauses ct) (ct_requests ct) ext (Pcrossings i cs).
Proof.
  induction cs as [|c cs IH]; intros i fresh ct Hf Hfr E.
  - cbn [apply_crossings] in E. inversion E. subst ct. cbn [ct_fresh ct_clauses ct_requests Pcrossings].
    exists (fun s => s). apply definesA_nil. unfold F1Kinds.GZ, zn in Hfr. lia.
  - cbn [crossings_f1] in Hf. apply andb_true_iff in Hf. destruct Hf as [Hc Hcs].
    cbn [apply_crossings] in E.
    destruct (apply_one_crossing fb i c fresh) as [c1|e] eqn:E1; cbn [cbind] in E; [|discriminate].
    destruct (apply_crossings fb (S i) cs (ct_fresh c1)) as [c2|e] eqn:E2; cbn [cbind] in E; [|discriminate].
    inversion E. subst ct. clear E. cbn [ct_fresh ct_clauses ct_requests Pcrossings].
    destruct (crossing_f1_starts i c Hc) as [Hp1 Hp2].
    destruct (step_one_crossing i c fresh (crossing_f1_factors i c Hc) Hfr Hp1 Hp2 c1 Hc E1) as (e1 & D1).
    pose proof (da_range _ _ _ _ _ _ D1) as R1.
    destruct (IH (S i) (ct_fresh c1) c2 Hcs ltac:(lia) E2) as (e2 & D2).
    exists (fun s => e2 (e1 s)). exact (definesA_seq _ _ _ _ _ _ _ _ _ _ _ D1 D2).
Qed.

Lemma step_cross :
  forall fresh ct, (GZ < fresh)%Z -> apply_constraint fb FCross fresh = COk ct ->
  exists ext, DefinesA (fresh - 1) (ct_fresh ct - 1) (ct_clauses ct) (ct_requests ct) ext Pcross.
Proof.
  intros fresh ct Hfr E. cbn [apply_constraint] in E. unfold apply_cross in E.
  apply (step_crossings _ 0 fresh ct (f1_crossings fb (in_f1_facts fb HF1)) Hfr E).
Qed.

End F1Cross.
