(** The (b) half of [Cross] in the fragment F1: on a one-hot grid the chunked
    counting condition [Pcross1] of Encode/F1Cross.v is the documented meaning
    ([Sem.crossing_ok] on [code_crossing]) of the sequence the grid encodes. *)
From Coq Require Import ZArith List Bool Arith Lia.
From SP Require Import Base.Sat Base.Bits.
From SP Require Import Design.Flat Design.Layout Design.Sem.
From SP Require Import Encode.Compile Encode.CodeSem Encode.Runs Encode.GridLemmas Encode.CrossChunks
     Encode.LayoutF1 Encode.F1Kinds Encode.F1Cross Encode.F1Sem.
Import ListNotations.
Close Scope Z_scope.
Open Scope nat_scope.

(** * Generic facts on combinations *)
Lemma list_eqb_combo (g : nat -> cell) (di : list (nat * nat)) :
  list_eqb cell_eqb (map Some (map snd di)) (map g (map fst di)) =
  forallb (fun p => cell_eqb (Some (snd p)) (g (fst p))) di.
Proof. induction di as [|p di IH]; [reflexivity|]. cbn [map list_eqb forallb]. now rewrite IH. Qed.

Lemma combo_eqb_self (q : tseq) (lv : nat -> nat) (c : list nat) t :
  (forall f, In f c -> get_cell q f t = Some (lv f)) ->
  combo_eqb (map lv c) (combo_at q c t) = true.
Proof.
  unfold combo_eqb, combo_at. induction c as [|f c IH]; intros H; [reflexivity|].
  cbn [map list_eqb]. rewrite (H f (or_introl eq_refl)). cbn [cell_eqb]. rewrite Nat.eqb_refl, IH; [reflexivity|].
  intros g Hg. apply H. now right.
Qed.

Section F1CrossSem.
Variable fb : flat.
Hypothesis HF1 : in_f1 fb = true.
Hypothesis HT : 0 < T fb.

(** every in-range assignment of levels to the crossed factors is a combination *)
Lemma combos_mem (lv : nat -> nat) (c : list nat) :
  (forall f, In f c -> lv f < nlevels fb f) ->
  In (map (fun f => (f, lv f)) c) (crossing_combos fb c).
Proof.
  induction c as [|f c IH]; intros H; [now left|].
  rewrite combos_cons. apply in_flat_map. exists (lv f). split.
  - apply in_seq. pose proof (H f (or_introl eq_refl)). lia.
  - cbn [map]. apply in_map. apply IH. intros g Hg. apply H. now right.
Qed.

(** "trial t shows combination di" on the grid and on the sequence *)
Lemma cbit_combo s q di t :
  onehot fb s q -> t < T fb ->
  Forall (fun f => isact fb f = true) (map fst di) ->
  Forall (fun f => lappl fb f t = true) (map fst di) ->
  Forall (fun p => snd p < nlevels fb (fst p)) di ->
  combo_eqb (map snd di) (combo_at q (map fst di) t) = cbit fb s di t.
Proof.
  intros (_ & _ & _ & Hb & _) Ht Hf Ha Hl. unfold combo_eqb, combo_at. rewrite list_eqb_combo. unfold cbit.
  apply forallb_ext_in. intros p Hp.
  assert (Hfp : isact fb (fst p) = true) by (apply (proj1 (Forall_forall _ _) Hf); now apply in_map).
  assert (Hap : lappl fb (fst p) t = true) by (apply (proj1 (Forall_forall _ _) Ha); now apply in_map).
  rewrite (Hb t (fst p) (snd p) Ht Hfp Hap (proj1 (Forall_forall _ _) Hl p Hp)). unfold is_level. apply cell_eqb_sym.
Qed.

(** no trial of the grid shows a combination the crossing excludes (proved from
    the Exclude and Derivation constraints in Encode/F1Excl.v) *)
Definition NoExcl (s : asg) : Prop :=
  forall c di t, Forall (fun f => isact fb f = true) c -> Forall (fun f => lappl fb f t = true) c ->
    In di (crossing_combos fb c) -> t < T fb ->
    cbit fb s di t = true -> is_excluded_or_inconsistent fb di = false.

Lemma tcs_sub c di : In di (trial_combinations_of fb c) -> In di (crossing_combos fb c).
Proof. unfold trial_combinations_of. intros H. apply filter_In in H. apply H. Qed.

(** on a complete sequence every trial shows some admitted combination *)
Lemma onehot_matched s q c t (mul : list (nat * nat) -> nat) :
  onehot fb s q -> NoExcl s -> Forall (fun f => isact fb f = true) c -> Forall (fun f => lappl fb f t = true) c -> t < T fb ->
  existsb (fun cm : list nat * nat => combo_eqb (fst cm) (combo_at q c t))
          (map (fun di => (map snd di, mul di)) (trial_combinations_of fb c)) = true.
Proof.
  intros Ho Hne Hf Ha Ht. pose proof Ho as (_ & _ & Hc & _). apply existsb_exists.
  set (lv := fun f => match get_cell q f t with Some l => l | None => 0 end).
  assert (Hlv : forall f, In f c -> lv f < nlevels fb f /\ get_cell q f t = Some (lv f)).
  { intros f Hin. destruct (Hc t f Ht (proj1 (Forall_forall _ _) Hf f Hin) (proj1 (Forall_forall _ _) Ha f Hin)) as (l & Hl & El).
    unfold lv. rewrite El. split; [exact Hl|reflexivity]. }
  set (di0 := map (fun f => (f, lv f)) c).
  assert (Hfst : map fst di0 = c) by (unfold di0; rewrite map_map; cbn [fst]; apply map_id).
  assert (Hsnd : map snd di0 = map lv c) by (unfold di0; rewrite map_map; reflexivity).
  assert (Hin0 : In di0 (crossing_combos fb c)) by (apply combos_mem; intros f Hin; apply (Hlv f Hin)).
  assert (Hself : combo_eqb (map snd di0) (combo_at q c t) = true).
  { rewrite Hsnd. apply combo_eqb_self. intros f Hin. apply (Hlv f Hin). }
  assert (Hshow : cbit fb s di0 t = true).
  { destruct (combos_spec fb HF1 HT c di0 Hin0) as [_ B].
    rewrite <- (cbit_combo s q di0 t Ho Ht); [rewrite Hfst; exact Hself|rewrite Hfst; exact Hf|rewrite Hfst; exact Ha|exact B]. }
  exists (map snd di0, mul di0). split.
  - apply (in_map (fun di => (map snd di, mul di))). unfold trial_combinations_of. apply filter_In. split; [exact Hin0|].
    now rewrite (Hne c di0 t Hf Ha Hin0 Ht Hshow).
  - cbn [fst]. exact Hself.
Qed.

Theorem cross1_sem s q i c :
  onehot fb s q -> NoExcl s -> crossing_f1 fb i c = true ->
  (Pcross1 fb i c s <-> crossing_ok (code_sem fb) q (code_crossing fb i c) = true).
Proof.
  intros Ho Hne Hcf. pose proof (crossing_f1_factors fb i c Hcf) as Hc.
  destruct (crossing_f1_starts fb i c Hcf) as [Hpre Hc2].
  unfold crossing_f1 in Hcf. rewrite !andb_true_iff in Hcf. destruct Hcf as [[[_ Hsize] _] _].
  unfold crossing_ok.
  set (cc := code_crossing fb i c). set (pre := preamble_size fb i) in *.
  assert (Happ : forall t, pre <= t -> Forall (fun f => lappl fb f t = true) c).
  { intros t Ht. apply Forall_forall. intros f Hf.
    pose proof (proj1 (Forall_forall _ _) Hc f Hf) as Ha. destruct (proj1 (Forall_forall _ _) Hc2 f Hf) as [Hs Hst].
    cbv beta in Ha. rewrite (lappl_stride1 fb HF1 f t Ha Hs). apply Nat.leb_le. lia. }
  assert (Hchunk : c_chunk cc = nth i (fl_sizes fb) 0 * crossing_weight fb c) by reflexivity.
  assert (Hfirst : c_first cc = pre) by reflexivity.
  assert (Hfac : c_factors cc = c) by reflexivity.
  assert (Hmult : c_mult cc = map (fun di => (map snd di, combination_weight fb di * sustain_of fb (hd 0 c) * crossing_weight fb c))
                                  (trial_combinations_of fb c)) by reflexivity.
  assert (Htr : s_trials (code_sem fb) = T fb) by reflexivity.
  assert (Hpos : 0 < c_chunk cc) by (rewrite Hchunk; apply Nat.ltb_lt; exact Hsize).
  assert (Hfuel : s_trials (code_sem fb) - pre < S (s_trials (code_sem fb))) by lia.
  rewrite Hfirst, Hchunk, Hsize, andb_true_l.
  rewrite (chunks_awc (code_sem fb) q cc Hpos (S (s_trials (code_sem fb))) pre Hfuel).
  assert (Hm : forall t, pre <= t < s_trials (code_sem fb) -> matched q cc t).
  { intros t Ht. rewrite Htr in Ht. unfold matched. rewrite Hfac, Hmult. apply (onehot_matched s q c t _ Ho Hne Hc); [apply Happ|]; lia. }
  rewrite Hmult, Forall_map, Hchunk. unfold Pcross1. fold pre.
  assert (K : Forall (fun di => awc_ok (S (T fb - pre)) (map (cbit fb s di) (seq pre (T fb - pre)))
                                  (combination_weight fb di * sustain_of fb (hd 0 c) * crossing_weight fb c)
                                  (nth i (fl_sizes fb) 0 * crossing_weight fb c)) (trial_combinations_of fb c) <->
              Forall (fun x => awc_ok (S (s_trials (code_sem fb)))
                                  (skipn pre (cbits (code_sem fb) q cc
                                     (map snd x, combination_weight fb x * sustain_of fb (hd 0 c) * crossing_weight fb c)))
                                  (snd (map snd x, combination_weight fb x * sustain_of fb (hd 0 c) * crossing_weight fb c))
                                  (nth i (fl_sizes fb) 0 * crossing_weight fb c)) (trial_combinations_of fb c)).
  { apply Forall_iff_ext. intros di Hdi. destruct (combos_spec fb HF1 HT c di (tcs_sub c di Hdi)) as [A B].
    cbn [snd]. rewrite Htr. unfold cbits. rewrite Htr, Hfac. cbn [fst]. rewrite skipn_map_seq.
    replace (map (fun t => combo_eqb (map snd di) (combo_at q c t)) (seq pre (T fb - pre)))
      with (map (cbit fb s di) (seq pre (T fb - pre))).
    - apply awc_ok_fuel; [rewrite <- Hchunk; exact Hpos| |]; rewrite map_length, seq_length; lia.
    - apply map_ext_in. intros t Ht. apply in_seq in Ht. symmetry. rewrite <- A.
      apply cbit_combo; [exact Ho|lia|rewrite A; exact Hc|rewrite A; apply Happ; lia|exact B]. }
  rewrite K. split; [intros H; split; [exact Hm|exact H]|intros [_ H]; exact H].
Qed.

Theorem crossings_sem s q : forall cs i,
  onehot fb s q -> NoExcl s -> crossings_f1 fb i cs = true ->
  (Pcrossings fb i cs s <-> forallb (crossing_ok (code_sem fb) q) (code_crossings fb i cs) = true).
Proof.
  induction cs as [|c cs IH]; intros i Ho Hne Hf.
  - cbn [Pcrossings code_crossings forallb]. split; trivial.
  - cbn [crossings_f1] in Hf. apply andb_true_iff in Hf. destruct Hf as [Hc Hcs].
    cbn [Pcrossings code_crossings forallb]. rewrite andb_true_iff, (cross1_sem s q i c Ho Hne Hc), (IH (S i) Ho Hne Hcs).
    reflexivity.
Qed.

End F1CrossSem.

Check cross1_sem.
Check crossings_sem.
Print Assumptions cross1_sem.
Print Assumptions crossings_sem.
