(** The (a) half of the (simple) [Derivation] constraints in F1, and what
    [derivations_match] says about the [FDerivation] entries of the record. *)
From Coq Require Import ZArith List Bool Arith Lia.
From SP Require Import Base.Sat Base.Bits Core.Card Core.CardProofs.
From SP Require Import Logic.Formula Logic.Tseitin Logic.TseitinProofs.
From SP Require Import Design.Flat Design.Layout Design.Sem.
From SP Require Import Encode.Compile Encode.CodeSem Encode.Generic Encode.Blocks Encode.Runs
     Encode.GridLemmas Encode.CrossChunks Encode.LayoutF1 Encode.F1Kinds Encode.F1Cross.
Import ListNotations.
Close Scope Z_scope.
Open Scope nat_scope.

Lemma list_eqb'_eq {A} (eqb : A -> A -> bool) :
  (forall a b, eqb a b = true -> a = b) -> forall l1 l2, list_eqb' eqb l1 l2 = true -> l1 = l2.
Proof.
  intros H. induction l1 as [|x l1 IH]; intros [|y l2] E; cbn [list_eqb'] in E; try discriminate; [reflexivity|].
  apply andb_true_iff in E. destruct E as [E1 E2]. f_equal; [now apply H|now apply IH].
Qed.

Lemma didx_eqb_eq a b : didx_eqb a b = true -> a = b.
Proof. destruct a, b; cbn [didx_eqb]; intros E; try discriminate; apply Nat.eqb_eq in E; now subst. Qed.

Section F1Deriv.
Variable fb : flat.
Hypothesis HF1 : in_f1 fb = true.
Hypothesis HT : 0 < T fb.

Notation GZ := (GZ fb).

(** the Iff's of [__apply_derivation] *)
Definition deriv_iffs (d : nat) (deps : list (list didx)) : list fm :=
  map (fun n =>
         FIff (fv (d + n * vpt fb + 1))
              (FOr (map (fun l => FAnd (map (fun x => match x with DIdx i => fv (i + n * vpt fb + 1) | DBefore _ => fv 0 end) l))
                        deps))) (seq 0 (T fb)).

Definition Pderiv (d : nat) (deps : list (list didx)) (s : asg) : Prop :=
  eval s (FAnd (deriv_iffs d deps)) = true.

(** the dependent indices [DerivationProcessor] produces for a table entry *)
Definition entry_deps (deps : list nat) (entry : list (list (option nat))) : list didx :=
  map2 (fun dd col => match col with [Some x] => DIdx (off fb dd + x) | _ => DBefore 0 end) deps entry.

Lemma entry_deps_expected deps : forall entry,
  Forall (fun dd => sact fb dd = true) deps -> entry_ok fb deps entry = true ->
  map2 (fun d col => match col with
                     | [Some x] => match first_variable_for_level fb d x with Some v => DIdx v | None => DBefore 0 end
                     | _ => DBefore 0
                     end) deps entry = entry_deps deps entry.
Proof.
  induction deps as [|dd deps IH]; intros [|col entry] Hd He; cbn [entry_ok] in He; try discriminate; try reflexivity.
  apply andb_true_iff in He. destruct He as [Hc He]. inversion Hd as [|? ? Hdd Hds]; subst.
  unfold entry_deps. cbn [map2]. f_equal; [|apply IH; assumption].
  unfold col_ok in Hc. destruct col as [|[x|] [|? ?]]; try discriminate. apply Nat.ltb_lt in Hc.
  cbv beta in Hdd. apply (sact_split fb) in Hdd. destruct Hdd as [Hda Hdc].
  now rewrite (f1_first_var fb HF1 dd x Hda Hc), Hdc.
Qed.

Lemma simple_offset_in fs : forall f o, simple_offset fb fs f = Some o -> In f fs.
Proof.
  induction fs as [|g gs IH]; intros f o H; cbn [simple_offset] in H; [discriminate|].
  destruct (g =? f) eqn:E; [apply Nat.eqb_eq in E; now left|].
  destruct (simple_offset fb gs f) as [o'|] eqn:E'; [|discriminate]. right. now apply (IH f o').
Qed.

(** every [FDerivation] of an F1 record is the derivation of a level of a derived factor of act_design *)
Lemma deriv_shape0 d deps f :
  In (FDerivation d deps f) (fl_constraints fb) ->
  exists fd w l lv,
    nth_error (fl_design fb) f = Some fd /\ ff_window fd = Some w /\ nth_error (ff_levels fd) l = Some lv /\
    isact fb f = true /\ l < nlevels fb f /\ first_variable_for_level fb f l = Some d /\
    deps = (if ff_complex fd then expected_deps_c fb w lv else expected_deps fb w lv) /\
    Forall (fun dd => sact fb dd = true) (win_deps w) /\
    Forall (fun entry => (if ff_complex fd then entryw_ok fb (win_width w) (win_deps w) entry
                          else entry_ok fb (win_deps w) entry) = true) (lv_accepts lv).
Proof.
  intros Hin. pose proof (in_f1_facts fb HF1) as F. pose proof (f1_derivations fb F) as HD.
  unfold derivations_match in HD. apply andb_true_iff in HD. destruct HD as [_ HD2].
  rewrite forallb_forall in HD2. specialize (HD2 _ Hin). cbn beta iota in HD2.
  apply andb_true_iff in HD2. destruct HD2 as [Hf HD2].
  apply existsb_exists in HD2. destruct HD2 as (l & Hl & HD2). apply in_seq in Hl.
  unfold is_derivation_of in HD2. unfold factor_at in HD2.
  destruct (nth_error (fl_design fb) f) as [fd|] eqn:Efd; [|discriminate].
  destruct (ff_window fd) as [w|] eqn:Ew; [|discriminate].
  destruct (nth_error (ff_levels fd) l) as [lv|] eqn:Elv; [|discriminate].
  destruct (first_variable_for_level fb f l) as [v|] eqn:Ev; [|discriminate].
  rewrite !andb_true_iff in HD2. destruct HD2 as [[_ Hd] Hdeps]. apply Nat.eqb_eq in Hd.
  apply (list_eqb'_eq _ (list_eqb'_eq _ didx_eqb_eq)) in Hdeps.
  assert (Hl' : l < nlevels fb f) by lia.
  destruct (f1_tables fb F f fd Efd) as [Htab _]. unfold tables_ok in Htab. rewrite Ew in Htab.
  apply andb_true_iff in Htab. destruct Htab as [Hlt Hent]. rewrite Hf in Hent. cbn [negb orb] in Hent.
  rewrite forallb_forall in Hlt, Hent.
  exists fd, w, l, lv. split; [reflexivity|]. split; [exact Ew|]. split; [exact Elv|]. split; [exact Hf|].
  split; [exact Hl'|]. split; [now subst v|]. split; [exact Hdeps|]. split.
  - apply Forall_forall. intros dd Hdd. apply (dep_ok_act fb f dd Hf). now apply Hlt.
  - specialize (Hent lv (nth_error_In _ _ Elv)). rewrite forallb_forall in Hent. apply Forall_forall. intros e He.
    specialize (Hent e He). destruct (ff_complex fd); exact Hent.
Qed.

Lemma is_complex_at f fd : nth_error (fl_design fb) f = Some fd -> is_complex fb f = ff_complex fd.
Proof. intros E. unfold is_complex, factor_at. now rewrite E. Qed.

(** the shape of the [FDerivation] of a factor without a complex window *)
Lemma deriv_shape d deps f :
  In (FDerivation d deps f) (fl_constraints fb) -> is_complex fb f = false ->
  exists fd w l lv,
    nth_error (fl_design fb) f = Some fd /\ ff_window fd = Some w /\ nth_error (ff_levels fd) l = Some lv /\
    isact fb f = true /\ l < nlevels fb f /\ d = off fb f + l /\
    deps = map (entry_deps (win_deps w)) (lv_accepts lv) /\
    Forall (fun dd => sact fb dd = true) (win_deps w) /\
    Forall (fun entry => entry_ok fb (win_deps w) entry = true) (lv_accepts lv).
Proof.
  intros Hin Hcx.
  destruct (deriv_shape0 d deps f Hin) as (fd & w & l & lv & Efd & Ew & Elv & Hf & Hl' & Ev & Hdeps & Hlt' & Hent').
  rewrite (is_complex_at f fd Efd) in Hcx. rewrite Hcx in Hdeps, Hent'.
  rewrite (f1_first_var fb HF1 f l Hf Hl'), (is_complex_at f fd Efd), Hcx in Ev.
  assert (Hd' : d = off fb f + l) by congruence.
  assert (Hdeps' : deps = map (entry_deps (win_deps w)) (lv_accepts lv)).
  { rewrite Hdeps. unfold expected_deps. apply map_ext_in. intros entry He.
    apply entry_deps_expected; [exact Hlt'|exact (proj1 (Forall_forall _ _) Hent' entry He)]. }
  exists fd, w, l, lv. split; [exact Efd|]. split; [exact Ew|]. split; [exact Elv|]. split; [exact Hf|].
  split; [exact Hl'|]. split; [exact Hd'|]. split; [exact Hdeps'|]. split; [exact Hlt'|exact Hent'].
Qed.

Lemma entry_deps_idx deps : forall entry x,
  Forall (fun dd => sact fb dd = true) deps -> entry_ok fb deps entry = true ->
  In x (entry_deps deps entry) -> exists i, x = DIdx i /\ i < vpt fb.
Proof.
  induction deps as [|dd deps IH]; intros [|col entry] x Hd He Hx; cbn [entry_ok] in He; try discriminate;
    unfold entry_deps in Hx; cbn [map2] in Hx; try contradiction.
  apply andb_true_iff in He. destruct He as [Hc He]. inversion Hd as [|? ? Hdd Hds]; subst.
  destruct Hx as [<-|Hx]; [|now apply (IH entry)].
  unfold col_ok in Hc. destruct col as [|[y|] [|? ?]]; try discriminate. apply Nat.ltb_lt in Hc.
  exists (off fb dd + y). split; [reflexivity|]. pose proof (f1_off_vpt fb HF1 dd Hdd). lia.
Qed.

(** * The contribution of a Derivation is a block *)
Lemma step_deriv d deps f :
  In (FDerivation d deps f) (fl_constraints fb) -> is_complex fb f = false ->
  forall fresh ct, (GZ < fresh)%Z -> apply_constraint fb (FDerivation d deps f) fresh = COk ct ->
  exists ext, DefinesA (fresh - 1) (ct_fresh ct - 1) (ct_clauses ct) (ct_requests ct) ext (Pderiv d deps).
Proof.
  intros Hin Hcx fresh ct Hfr E.
  destruct (deriv_shape d deps f Hin Hcx) as (fd & w & l & lv & Efd & Ew & Elv & Hf & Hl & Hd & Hdeps & Hlt & Hent).
  assert (Hdv : d < vpt fb) by (pose proof (f1_off_vpt fb HF1 f (proj2 (sact_split fb f) (conj Hf Hcx))); lia).
  assert (Hidx : forall e x, In e deps -> In x e -> exists i, x = DIdx i /\ i < vpt fb).
  { intros e x He Hx. rewrite Hdeps in He. apply in_map_iff in He. destruct He as (entry & <- & Hentry).
    apply (entry_deps_idx (win_deps w) entry x); [exact Hlt|exact (proj1 (Forall_forall _ _) Hent entry Hentry)|exact Hx]. }
  assert (HGZ : (0 <= GZ)%Z) by (unfold F1Kinds.GZ, zn; lia).
  cbn [apply_constraint] in E. unfold apply_derivation in E.
  replace (d <? grid_variables fb) with true in E.
  2:{ symmetry. apply Nat.ltb_lt. rewrite (f1_grid fb). unfold GN. nia. }
  unfold deriv_simple in E.
  replace (existsb (existsb is_before) deps) with false in E.
  2:{ symmetry. apply not_true_is_false. intros Hex. apply existsb_exists in Hex. destruct Hex as (e & He & Hex).
      apply existsb_exists in Hex. destruct Hex as (x & Hx & Hb). destruct (Hidx e x He Hx) as (i & -> & _). discriminate. }
  rewrite andb_false_r in E. fold (vpt fb) in E. fold (T fb) in E.
  change (map _ (seq 0 (T fb))) with (deriv_iffs d deps) in E.
  destruct (cnf_fn (deriv_iffs d deps) fresh) as [cls fresh'] eqn:Ecnf. inversion E. subst ct. clear E.
  cbn [ct_fresh ct_clauses ct_requests].
  apply (definesA_tseitin (deriv_iffs d deps) fresh cls fresh'); [lia| |exact Ecnf].
  (* leaves *)
  intros z Hz. cbn [leaves] in Hz. unfold deriv_iffs in Hz. rewrite flat_map_map in Hz.
  apply in_flat_map in Hz. destruct Hz as (n & Hn & Hz). apply in_seq in Hn. cbn [leaves fv] in Hz.
  assert (Hbound : forall i, i < vpt fb -> (0 < Z.of_nat (i + n * vpt fb + 1) < fresh)%Z).
  { intros i Hi. unfold F1Kinds.GZ, VN, GN, zn in Hfr. nia. }
  destruct Hz as [<-|Hz]; [specialize (Hbound d Hdv); lia|].
  rewrite flat_map_map in Hz. apply in_flat_map in Hz. destruct Hz as (e & He & Hz). cbn [leaves] in Hz.
  rewrite flat_map_map in Hz. apply in_flat_map in Hz. destruct Hz as (x & Hx & Hz).
  destruct (Hidx e x He Hx) as (i & -> & Hi). cbn [fv leaves] in Hz. destruct Hz as [<-|[]].
  specialize (Hbound i Hi). lia.
Qed.

End F1Deriv.
