(** The (a) half of the [Derivation] constraint of a factor with a complex
    window (Transition, Window(width, stride, start)) in F1: the loop of
    [__apply_derivation_with_complex_window] produces, for every trial [n] in
    which the factor has a level, the equivalence between the variable of the
    level at [n] and the disjunction over the table entries of the
    conjunction of the variables of the entry's levels in the window ending at
    [n] (the [j]-th cell of a column is read [width - 1 - j] trials back). *)
From Coq Require Import ZArith List Bool Arith Lia.
From SP Require Import Base.Sat Base.Bits Core.Card Core.CardProofs.
From SP Require Import Logic.Formula Logic.Tseitin Logic.TseitinProofs.
From SP Require Import Design.Flat Design.Layout Design.Sem.
From SP Require Import Encode.Compile Encode.CodeSem Encode.Generic Encode.Blocks Encode.Runs
     Encode.GridLemmas Encode.CrossChunks Encode.LayoutF1 Encode.PrevArith Encode.F1Kinds Encode.F1Cross Encode.F1Deriv.
Import ListNotations.
Close Scope Z_scope.
Open Scope nat_scope.

(** * Generic list facts *)
Lemma flat_map_some {A B C} (g : A -> B) (h : B -> list C) (l : list A) :
  flat_map (fun o : option B => match o with Some v => h v | None => [] end) (map (fun x => Some (g x)) l)
  = flat_map (fun x => h (g x)) l.
Proof. induction l as [|x l IH]; [reflexivity|]. cbn [map flat_map]. now rewrite IH. Qed.

Lemma flat_map_singleton {A B} (g : A -> B) (l : list A) : flat_map (fun x => [g x]) l = map g l.
Proof. induction l as [|x l IH]; [reflexivity|]. cbn [map flat_map app]. now rewrite IH. Qed.

Lemma combine_seq_in {A} (l : list A) : forall s j x, In (j, x) (combine (seq s (length l)) l) -> s <= j < s + length l /\ In x l.
Proof.
  induction l as [|y l IH]; intros s j x H; [contradiction|]. cbn [length seq combine] in H. destruct H as [H|H].
  - inversion H. subst. cbn [length]. split; [lia|now left].
  - destruct (IH (S s) j x H) as [P Q]. cbn [length]. split; [lia|now right].
Qed.

Section F1DerivC.
Variable fb : flat.
Hypothesis HF1 : in_f1 fb = true.
Hypothesis HT : 0 < T fb.

Notation GZ := (GZ fb).
Let FF : F1facts fb := in_f1_facts fb HF1.

Definition lev_of' (c : option nat) : nat := match c with Some x => x | None => 0 end.

(** the 0-based variable indices [DerivationProcessor] produces for a table entry
    ([shift_window]: the [j]-th cell of a column is shifted by [j] trials) *)
Definition col_idx (d : nat) (col : list (option nat)) : list nat :=
  map (fun jc => off fb d + lev_of' (snd jc) + fst jc * vpt fb) (combine (seq 0 (length col)) col).
Definition entry_idx (deps : list nat) (entry : list (list (option nat))) : list nat :=
  concat (map2 col_idx deps entry).

(** the variables an entry reads in the window ending at trial [n] *)
Definition col_cvars (width n d : nat) (col : list (option nat)) : list nat :=
  map (fun jc => gvar fb (n - (width - 1 - fst jc)) d (lev_of' (snd jc))) (combine (seq 0 (length col)) col).
Definition entry_cvars (w : fwindow) (n : nat) (entry : list (list (option nat))) : list nat :=
  concat (map2 (col_cvars (win_width w) n) (win_deps w) entry).

(** the equivalence generated for trial [n] *)
Definition cx_iff (w : fwindow) (f l : nat) (entries : list (list (list (option nat)))) (n : nat) : fm :=
  FIff (fv (gvar fb n f l)) (FOr (map (fun e => FAnd (map fv (entry_cvars w n e))) entries)).

Definition cx_iffs (w : fwindow) (f l : nat) (entries : list (list (list (option nat)))) : list fm :=
  map (cx_iff w f l entries) (trials_of fb f 0 (T fb)).

(** the formulas of the constraint, read off the model *)
Definition derivc_formulas (d : nat) (deps : list (list didx)) (f : nat) : list fm :=
  match factor_at fb f with
  | Some fd =>
    match ff_window fd with
    | Some w => match deriv_complex_loop fb (seq 0 (T fb)) 0 d deps f (sustain_of fb f) w with
                | COk iffs => iffs
                | CErr _ => []
                end
    | None => []
    end
  | None => []
  end.

Definition Pderivc (d : nat) (deps : list (list didx)) (f : nat) (s : asg) : Prop :=
  eval s (FAnd (derivc_formulas d deps f)) = true.

(** * Table entries *)
Lemma colw_cells width d col :
  colw_ok fb width d col = true ->
  length col = width /\ forall j c, In (j, c) (combine (seq 0 (length col)) col) -> exists x, c = Some x /\ x < nlevels fb d.
Proof.
  unfold colw_ok. rewrite andb_true_iff, forallb_forall. intros [Hl Hc]. apply Nat.eqb_eq in Hl. split; [exact Hl|].
  intros j c Hin. destruct (combine_seq_in col 0 j c Hin) as [_ Hcin]. specialize (Hc c Hcin).
  destruct c as [x|]; [|discriminate]. exists x. split; [reflexivity|now apply Nat.ltb_lt].
Qed.

Lemma entry_idx_expected width deps : forall entry,
  Forall (fun dd => sact fb dd = true) deps -> entryw_ok fb width deps entry = true ->
  concat (map2 (fun d col =>
                  map (fun jc => match snd jc with
                                 | Some x => match first_variable_for_level fb d x with
                                             | Some v => DIdx (v + fst jc * variables_per_trial fb)
                                             | None => DBefore 0
                                             end
                                 | None => DBefore 0
                                 end) (combine (seq 0 (length col)) col)) deps entry)
  = map DIdx (entry_idx deps entry).
Proof.
  induction deps as [|dd deps IH]; intros [|col entry] Hd He; cbn [entryw_ok] in He; try discriminate; [reflexivity|].
  apply andb_true_iff in He. destruct He as [Hc He]. inversion Hd as [|? ? Hdd Hds]; subst.
  unfold entry_idx. cbn [map2 concat]. rewrite map_app. f_equal; [|apply IH; assumption].
  unfold col_idx. rewrite map_map. apply map_ext_in. intros [j c] Hin. cbn [fst snd].
  destruct (colw_cells width dd col Hc) as [_ Hcells]. destruct (Hcells j c Hin) as (x & -> & Hx).
  cbv beta in Hdd. apply (sact_split fb) in Hdd. destruct Hdd as [Hda Hdc].
  rewrite (f1_first_var fb HF1 dd x Hda Hx), Hdc. cbn [lev_of']. reflexivity.
Qed.

(** * The facts about a factor of act_design with a complex window *)
Lemma complex_facts f fd :
  nth_error (fl_design fb) f = Some fd -> isact fb f = true -> ff_complex fd = true ->
  exists w, ff_window fd = Some w /\ 0 < win_width w /\ 0 < win_stride w /\ win_width w - 1 <= win_start w /\
            win_start_delta w = Z.of_nat (win_start w - (win_width w - 1)).
Proof.
  intros Efd Ha Hc. pose proof (f1_factor fb FF f fd Efd Ha) as H. unfold factor_f1 in H. rewrite Hc in H.
  apply andb_true_iff in H. destruct H as [_ H]. destruct (ff_window fd) as [w|]; [|discriminate].
  rewrite !andb_true_iff in H. destruct H as [[[W1 W2] W3] W4].
  apply Nat.ltb_lt in W1, W2. apply Nat.leb_le in W3. apply Z.eqb_eq in W4. exists w. repeat split; assumption.
Qed.

Lemma sustain1 f : isact fb f = true -> is_complex fb f = true -> sustain fb f = 1.
Proof. exact (f1_sustain_cx fb HF1 f). Qed.

Lemma lappl_model f t : isact fb f = true -> is_complex fb f = true ->
  applies_to_trial fb f (t / 1 + 1) = lappl fb f t.
Proof.
  intros Ha Hc. unfold lappl, applies_at. rewrite (sustain1 f Ha Hc). replace (S t - 1) with t by lia. reflexivity.
Qed.

(** * The variables of one entry at one trial *)
Lemma deriv_vars_idx xs n shift :
  Forall (fun x => x < GN fb) xs -> (0 <= shift)%Z ->
  deriv_vars fb (map DIdx xs) n shift 1 =
  COk (Some (map (fun x => (zn x + (shift * zn 1 * zn (vpt fb) + 1))%Z) xs)).
Proof.
  intros H Hs. induction H as [|x xs Hx _ IH]; [reflexivity|].
  cbn [map deriv_vars]. unfold get_trial_size. rewrite (f1_grid fb).
  replace (x <? GN fb) with true by (symmetry; now apply Nat.ltb_lt). cbn [cbind]. fold (vpt fb).
  replace (zn x + (shift * zn 1 * zn (vpt fb) + 1) <=? 0)%Z with false by (symmetry; apply Z.leb_gt; unfold zn; nia).
  rewrite IH. reflexivity.
Qed.

Lemma col_shift width d col n t st sd :
  sact fb d = true -> colw_ok fb width d col = true -> width - 1 <= st -> n = st + t * sd -> n < T fb ->
  Forall (fun x => x < GN fb) (col_idx d col) /\
  map (fun x => (zn x + ((zn t * zn sd + Z.of_nat (st - (width - 1)) * zn 1) * zn 1 * zn (vpt fb) + 1))%Z) (col_idx d col)
  = map zn (col_cvars width n d col).
Proof.
  intros Hd Hc Hw Hn HnT. destruct (colw_cells width d col Hc) as [Hlen Hcells].
  apply (sact_split fb) in Hd. destruct Hd as [Hda Hdc].
  pose proof (f1_off_vpt fb HF1 d (proj2 (sact_split fb d) (conj Hda Hdc))) as Hoff.
  split.
  - unfold col_idx. apply Forall_map. apply Forall_forall. intros [j c] Hin. cbn [fst snd].
    destruct (Hcells j c Hin) as (x & -> & Hx). destruct (combine_seq_in col 0 j _ Hin) as [Hj _]. cbn [lev_of'].
    unfold GN. nia.
  - unfold col_idx, col_cvars. rewrite !map_map. apply map_ext_in. intros [j c] Hin. cbn [fst snd].
    destruct (Hcells j c Hin) as (x & -> & Hx). destruct (combine_seq_in col 0 j _ Hin) as [Hj _]. cbn [lev_of'].
    rewrite (gvar_simple fb (n - (width - 1 - j)) d x Hdc).
    replace (n - (width - 1 - j)) with ((st - (width - 1)) + t * sd + j) by lia.
    unfold zn. nia.
Qed.

Lemma entry_shift w deps : forall entry n t,
  Forall (fun dd => sact fb dd = true) deps -> entryw_ok fb (win_width w) deps entry = true ->
  win_width w - 1 <= win_start w -> n = win_start w + t * win_stride w -> n < T fb ->
  Forall (fun x => x < GN fb) (entry_idx deps entry) /\
  map (fun x => (zn x + ((zn t * zn (win_stride w) + Z.of_nat (win_start w - (win_width w - 1)) * zn 1) * zn 1 * zn (vpt fb) + 1))%Z)
      (entry_idx deps entry)
  = map zn (concat (map2 (col_cvars (win_width w) n) deps entry)).
Proof.
  induction deps as [|dd deps IH]; intros [|col entry] n t Hd He Hw Hn HnT; cbn [entryw_ok] in He; try discriminate.
  - split; [constructor|reflexivity].
  - apply andb_true_iff in He. destruct He as [Hc He]. inversion Hd as [|a1 a2 Hdd Hds]. subst a1 a2.
    destruct (col_shift (win_width w) dd col n t (win_start w) (win_stride w) Hdd Hc Hw Hn HnT) as [A1 A2].
    destruct (IH entry n t Hds He Hw Hn HnT) as [B1 B2].
    unfold entry_idx in *. cbn [map2 concat]. split; [apply Forall_app; now split|].
    rewrite !map_app. now rewrite A2, B2.
Qed.

(** the indices of a list of [DIdx] *)
Definition idxs_of (dl : list didx) : list nat :=
  flat_map (fun x => match x with DIdx i => [i] | DBefore _ => [] end) dl.

Lemma idxs_of_map xs : idxs_of (map DIdx xs) = xs.
Proof. induction xs as [|x xs IHx]; [reflexivity|]. unfold idxs_of in *. cbn [map flat_map app]. now rewrite IHx. Qed.

(** * The loop *)
Lemma trials_of_cons f a k :
  trials_of fb f a (a + S k) = (if lappl fb f a then [a] else []) ++ trials_of fb f (S a) (S a + k).
Proof.
  unfold trials_of. replace (a + S k - a) with (S k) by lia. replace (S a + k - S a) with k by lia.
  cbn [seq filter]. fold (lappl fb f a). destruct (lappl fb f a); reflexivity.
Qed.

Lemma loop_spec f fd w l lv :
  nth_error (fl_design fb) f = Some fd -> ff_window fd = Some w -> isact fb f = true -> ff_complex fd = true ->
  nth_error (ff_levels fd) l = Some lv ->
  Forall (fun dd => sact fb dd = true) (win_deps w) ->
  Forall (fun entry => entryw_ok fb (win_width w) (win_deps w) entry = true) (lv_accepts lv) ->
  forall k a, a + k <= T fb ->
  deriv_complex_loop fb (seq a k) (prev fb f a) (GN fb + coff fb f + l)
                     (map (fun e => map DIdx (entry_idx (win_deps w) e)) (lv_accepts lv)) f 1 w
  = COk (map (cx_iff w f l (lv_accepts lv)) (trials_of fb f a (a + k))).
Proof.
  intros Efd Ew Ha Hcx Elv Hdeps Hent.
  destruct (complex_facts f fd Efd Ha Hcx) as (w' & Ew' & W1 & W2 & W3 & W4).
  assert (w' = w) by congruence. subst w'.
  assert (Hfa : factor_at fb f = Some fd) by exact Efd.
  assert (Hcf : is_complex fb f = true) by (rewrite (is_complex_at fb f fd Efd); exact Hcx).
  induction k as [|k IH]; intros a Hak.
  - unfold trials_of. rewrite Nat.add_0_r, Nat.sub_diag. reflexivity.
  - cbn [seq deriv_complex_loop]. rewrite Nat.mod_1_r. cbn [Nat.eqb negb].
    rewrite (lappl_model f a Ha Hcf), trials_of_cons.
    destruct (lappl fb f a) eqn:Eap; cbn [negb].
    + pose proof (lappl_prev fb f fd w a Hfa Ew (sustain1 f Ha Hcf) W2 Eap) as Hn.
      assert (Hands : cmapM (fun l0 => deriv_vars fb l0 a (zn (prev fb f a) * zn (win_stride w) + win_start_delta w * zn 1)%Z 1)
                            (map (fun e => map DIdx (entry_idx (win_deps w) e)) (lv_accepts lv))
                      = COk (map (fun e => Some (map zn (entry_cvars w a e))) (lv_accepts lv))).
      { rewrite (cmapM_ok _ (fun dl => Some (map (fun x => (zn x + ((zn (prev fb f a) * zn (win_stride w) + win_start_delta w * zn 1) * zn 1 * zn (vpt fb) + 1))%Z)
                                                  (idxs_of dl)))).
        - rewrite map_map. f_equal. apply map_ext_in. intros e He.
          pose proof (proj1 (Forall_forall _ _) Hent e He) as Hok. cbv beta in Hok.
          destruct (entry_shift w (win_deps w) e a (prev fb f a) Hdeps Hok W3 Hn ltac:(lia)) as [_ B].
          rewrite W4, idxs_of_map. unfold entry_cvars. now rewrite <- B.
        - intros dl Hdl. apply in_map_iff in Hdl. destruct Hdl as (e & <- & He).
          pose proof (proj1 (Forall_forall _ _) Hent e He) as Hok. cbv beta in Hok.
          destruct (entry_shift w (win_deps w) e a (prev fb f a) Hdeps Hok W3 Hn ltac:(lia)) as [A _].
          rewrite (deriv_vars_idx _ a _ A) by (rewrite W4; unfold zn; nia).
          now rewrite idxs_of_map. }
      rewrite Hands. cbn [cbind].
      replace (prev fb f a + 1) with (prev fb f (S a)) by (rewrite prev_S, Eap; reflexivity).
      rewrite (IH (S a) ltac:(lia)). cbn [cbind app map]. f_equal. f_equal.
      unfold cx_iff. f_equal.
      * unfold fv. f_equal. rewrite (gvar_complex fb a f l Hcf). unfold zn. lia.
      * f_equal. rewrite (flat_map_some (fun e => map zn (entry_cvars w a e)) (fun vs => [FAnd (map FVar vs)])).
        rewrite flat_map_singleton. apply map_ext. intros e. f_equal. unfold fv. now rewrite map_map.
    + replace (prev fb f a) with (prev fb f (S a)) by (rewrite prev_S, Eap; lia).
      rewrite (IH (S a) ltac:(lia)). reflexivity.
Qed.

(** * The shape of the [FDerivation] of a complex factor *)
Lemma deriv_shape_c d deps f :
  In (FDerivation d deps f) (fl_constraints fb) -> is_complex fb f = true ->
  exists fd w l lv,
    nth_error (fl_design fb) f = Some fd /\ ff_window fd = Some w /\ nth_error (ff_levels fd) l = Some lv /\
    isact fb f = true /\ ff_complex fd = true /\ l < nlevels fb f /\ d = GN fb + coff fb f + l /\
    deps = map (fun e => map DIdx (entry_idx (win_deps w) e)) (lv_accepts lv) /\
    Forall (fun dd => sact fb dd = true) (win_deps w) /\
    Forall (fun entry => entryw_ok fb (win_width w) (win_deps w) entry = true) (lv_accepts lv).
Proof.
  intros Hin Hcx.
  destruct (deriv_shape0 fb HF1 HT d deps f Hin) as (fd & w & l & lv & Efd & Ew & Elv & Hf & Hl' & Ev & Hdeps & Hlt' & Hent').
  rewrite (is_complex_at fb f fd Efd) in Hcx. rewrite Hcx in Hdeps, Hent'.
  rewrite (f1_first_var fb HF1 f l Hf Hl'), (is_complex_at fb f fd Efd), Hcx in Ev.
  exists fd, w, l, lv. split; [exact Efd|]. split; [exact Ew|]. split; [exact Elv|]. split; [exact Hf|].
  split; [exact Hcx|]. split; [exact Hl'|]. split; [congruence|]. split; [|split; [exact Hlt'|exact Hent']].
  rewrite Hdeps. unfold expected_deps_c. apply map_ext_in. intros e He.
  apply (entry_idx_expected (win_width w)); [exact Hlt'|exact (proj1 (Forall_forall _ _) Hent' e He)].
Qed.

(** the formulas of the constraint *)
Lemma derivc_formulas_eq d deps f :
  In (FDerivation d deps f) (fl_constraints fb) -> is_complex fb f = true ->
  exists fd w l lv,
    nth_error (fl_design fb) f = Some fd /\ ff_window fd = Some w /\ nth_error (ff_levels fd) l = Some lv /\
    isact fb f = true /\ ff_complex fd = true /\ l < nlevels fb f /\ d = GN fb + coff fb f + l /\
    Forall (fun dd => sact fb dd = true) (win_deps w) /\
    Forall (fun entry => entryw_ok fb (win_width w) (win_deps w) entry = true) (lv_accepts lv) /\
    deriv_complex_loop fb (seq 0 (T fb)) 0 d deps f (sustain_of fb f) w = COk (cx_iffs w f l (lv_accepts lv)) /\
    derivc_formulas d deps f = cx_iffs w f l (lv_accepts lv).
Proof.
  intros Hin Hcx.
  destruct (deriv_shape_c d deps f Hin Hcx) as (fd & w & l & lv & Efd & Ew & Elv & Hf & Hc & Hl & -> & -> & Hd & He).
  exists fd, w, l, lv. split; [exact Efd|]. split; [exact Ew|]. split; [exact Elv|]. split; [exact Hf|].
  split; [exact Hc|]. split; [exact Hl|]. split; [reflexivity|]. split; [exact Hd|]. split; [exact He|].
  pose proof (loop_spec f fd w l lv Efd Ew Hf Hc Elv Hd He (T fb) 0 ltac:(lia)) as L.
  assert (Hsu : sustain_of fb f = 1) by (apply (f1_sustain_cx fb HF1 f Hf); now rewrite (is_complex_at fb f fd Efd)).
  rewrite prev_0 in L. cbn [Nat.add] in L. rewrite Hsu.
  split; [exact L|]. unfold derivc_formulas, factor_at. rewrite Efd, Ew, Hsu, L. reflexivity.
Qed.

(** * The variables of the formulas are trial variables *)
Lemma entry_cvars_ok w f fd n e :
  nth_error (fl_design fb) f = Some fd -> ff_window fd = Some w -> isact fb f = true -> ff_complex fd = true ->
  Forall (fun dd => sact fb dd = true) (win_deps w) -> entryw_ok fb (win_width w) (win_deps w) e = true ->
  n < T fb -> lappl fb f n = true ->
  Forall (fun v => 0 < v /\ (zn v <= GZ)%Z) (entry_cvars w n e).
Proof.
  intros Efd Ew Ha Hcx Hd He Hn Hap. unfold entry_cvars.
  generalize dependent e. generalize (win_deps w) Hd. clear Hd.
  induction l as [|dd deps IH]; intros Hd [|col entry] He; cbn [entryw_ok] in He; try discriminate; [constructor|].
  apply andb_true_iff in He. destruct He as [Hc He]. inversion Hd as [|? ? Hdd Hds]; subst.
  cbn [map2 concat]. apply Forall_app. split; [|now apply IH].
  destruct (colw_cells (win_width w) dd col Hc) as [Hlen Hcells]. cbv beta in Hdd.
  apply (sact_split fb) in Hdd. destruct Hdd as [Hda Hdc].
  unfold col_cvars. apply Forall_map. apply Forall_forall. intros [j c] Hin. cbn [fst snd].
  destruct (Hcells j c Hin) as (x & -> & Hx). cbn [lev_of'].
  split; [apply gvar_pos|]. apply (gvar_le fb HF1 HT); [lia|exact Hda|exact Hx|now apply (lappl_simple fb HF1)].
Qed.

Lemma cx_iffs_leaves w f fd l lv fresh :
  nth_error (fl_design fb) f = Some fd -> ff_window fd = Some w -> isact fb f = true -> ff_complex fd = true ->
  l < nlevels fb f ->
  Forall (fun dd => sact fb dd = true) (win_deps w) ->
  Forall (fun entry => entryw_ok fb (win_width w) (win_deps w) entry = true) (lv_accepts lv) ->
  (GZ < fresh)%Z ->
  forall z, In z (leaves (FAnd (cx_iffs w f l (lv_accepts lv)))) -> z <> 0%Z /\ (Z.abs z < fresh)%Z.
Proof.
  intros Efd Ew Ha Hcx Hl Hd He Hfr z Hz. cbn [leaves] in Hz. unfold cx_iffs in Hz. rewrite flat_map_map in Hz.
  apply in_flat_map in Hz. destruct Hz as (n & Hn & Hz). apply in_trials_of in Hn. destruct Hn as [Hn Hap].
  unfold cx_iff in Hz. cbn [leaves fv] in Hz. destruct Hz as [<-|Hz].
  - pose proof (gvar_pos fb n f l). pose proof (gvar_le fb HF1 HT n f l ltac:(lia) Ha Hl Hap). unfold zn in *. lia.
  - rewrite flat_map_map in Hz. apply in_flat_map in Hz. destruct Hz as (e & Hein & Hz). cbn [leaves] in Hz.
    rewrite flat_map_map in Hz. apply in_flat_map in Hz. destruct Hz as (v & Hv & Hz). cbn [fv leaves] in Hz.
    destruct Hz as [<-|[]].
    pose proof (entry_cvars_ok w f fd n e Efd Ew Ha Hcx Hd (proj1 (Forall_forall _ _) He e Hein) ltac:(lia) Hap) as Hok.
    destruct (proj1 (Forall_forall _ _) Hok v Hv) as [V1 V2]. unfold zn in *. lia.
Qed.

(** * The contribution of the Derivation of a complex factor is a block *)
Lemma step_derivc d deps f :
  In (FDerivation d deps f) (fl_constraints fb) -> is_complex fb f = true ->
  forall fresh ct, (GZ < fresh)%Z -> apply_constraint fb (FDerivation d deps f) fresh = COk ct ->
  exists ext, DefinesA (fresh - 1) (ct_fresh ct - 1) (ct_clauses ct) (ct_requests ct) ext (Pderivc d deps f).
Proof.
  intros Hin Hcx fresh ct Hfr E.
  destruct (derivc_formulas_eq d deps f Hin Hcx) as (fd & w & l & lv & Efd & Ew & Elv & Hf & Hc & Hl & Hdd & Hd & He & L & EF).
  assert (HGZ : (0 <= GZ)%Z) by (unfold F1Kinds.GZ, zn; lia).
  cbn [apply_constraint] in E. unfold apply_derivation in E.
  replace (d <? grid_variables fb) with false in E.
  2:{ symmetry. apply Nat.ltb_ge. rewrite (f1_grid fb). lia. }
  unfold deriv_complex in E. change (factor_at fb f) with (nth_error (fl_design fb) f) in E. rewrite Efd, Ew in E.
  rewrite (f1_sustain_cx fb HF1 f Hf Hcx) in E. cbn [Nat.eqb] in E. rewrite (f1_sustain_cx fb HF1 f Hf Hcx) in L. rewrite L in E. cbn [cbind] in E.
  destruct (cnf_fn (cx_iffs w f l (lv_accepts lv)) fresh) as [cls fresh'] eqn:Ecnf. inversion E. subst ct. clear E.
  cbn [ct_fresh ct_clauses ct_requests]. unfold Pderivc. rewrite EF.
  apply (definesA_tseitin (cx_iffs w f l (lv_accepts lv)) fresh cls fresh'); [lia| |exact Ecnf].
  exact (cx_iffs_leaves w f fd l lv fresh Efd Ew Hf Hc Hl Hd He Hfr).
Qed.

(** * Either kind of Derivation *)
Definition Pderiv_any (d : nat) (deps : list (list didx)) (f : nat) (s : asg) : Prop :=
  if is_complex fb f then Pderivc d deps f s else Pderiv fb d deps s.

Lemma step_deriv_any d deps f :
  In (FDerivation d deps f) (fl_constraints fb) ->
  forall fresh ct, (GZ < fresh)%Z -> apply_constraint fb (FDerivation d deps f) fresh = COk ct ->
  exists ext, DefinesA (fresh - 1) (ct_fresh ct - 1) (ct_clauses ct) (ct_requests ct) ext (Pderiv_any d deps f).
Proof.
  intros Hin fresh ct Hfr E. unfold Pderiv_any. destruct (is_complex fb f) eqn:Hcx.
  - exact (step_derivc d deps f Hin Hcx fresh ct Hfr E).
  - exact (step_deriv fb HF1 HT d deps f Hin Hcx fresh ct Hfr E).
Qed.

End F1DerivC.

Check step_derivc.
Print Assumptions step_derivc.
