(** The (b) half of the [Derivation] constraints in F1: on a one-hot grid the
    Iff's generated for the derived levels hold iff every factor of the decoded
    sequence satisfies [Sem.factor_ok] on [code_sem fb].  Proof file. *)
From Coq Require Import ZArith List Bool Arith Lia.
From SP Require Import Base.Sat Base.Bits Core.Card Core.CardProofs.
From SP Require Import Logic.Formula Logic.Tseitin Logic.TseitinProofs.
From SP Require Import Design.Flat Design.Layout Design.Sem.
From SP Require Import Encode.Compile Encode.CodeSem Encode.Generic Encode.Blocks Encode.Runs
     Encode.GridLemmas Encode.CrossChunks Encode.LayoutF1 Encode.F1Kinds Encode.F1Cross
     Encode.F1Deriv Encode.F1DerivC Encode.F1Sem Encode.F1Sustain.
Import ListNotations.
Close Scope Z_scope.
Open Scope nat_scope.

(** * Generic list facts *)

Lemma existsb_ext_in_ds {A} (f g : A -> bool) (l : list A) :
  (forall x, In x l -> f x = g x) -> existsb f l = existsb g l.
Proof.
  induction l as [|x l IH]; intros H; [reflexivity|]. cbn [existsb].
  rewrite (H x (or_introl eq_refl)), IH; [reflexivity|]. intros y Hy. apply H. now right.
Qed.

Lemma existsb_map_ds {A B} (f : A -> B) (p : B -> bool) (l : list A) :
  existsb p (map f l) = existsb (fun x => p (f x)) l.
Proof. induction l as [|x l IH]; [reflexivity|]. cbn [map existsb]. now rewrite IH. Qed.

Lemma forallb_map_forall_ds {A B} (g : A -> B) (p : B -> bool) (l : list A) :
  forallb p (map g l) = true <-> forall x, In x l -> p (g x) = true.
Proof. rewrite forallb_map_comp, forallb_forall. reflexivity. Qed.

(** [forallb] over the indexed list of an indexed map, as a quantified statement *)
Lemma forallb_combine_map_ds {A B} (g : nat -> A -> B) (p : nat -> B -> bool) : forall (l : list A) s,
  forallb (fun x => p (fst x) (snd x))
          (combine (seq s (length l)) (map (fun y => g (fst y) (snd y)) (combine (seq s (length l)) l))) = true
  <-> forall f a, nth_error l f = Some a -> p (s + f) (g (s + f) a) = true.
Proof.
  induction l as [|x l IH]; intros s.
  - cbn. split; [|reflexivity]. intros _ f a E. destruct f; discriminate.
  - cbn [length seq combine map forallb fst snd]. rewrite andb_true_iff, (IH (S s)). split.
    + intros [H0 H] f a E. destruct f as [|f]; cbn [nth_error] in E.
      * inversion E. subst a. rewrite Nat.add_0_r. exact H0.
      * replace (s + S f) with (S s + f) by lia. now apply H.
    + intros H. split.
      * specialize (H 0 x eq_refl). rewrite Nat.add_0_r in H. exact H.
      * intros f a E. specialize (H (S f) a E). replace (s + S f) with (S s + f) in H by lia. exact H.
Qed.

Lemma forallb_index_map_ds {A B} (g : nat -> A -> B) (p : nat -> B -> bool) (l : list A) :
  forallb (fun x => p (fst x) (snd x))
          (index_list (map (fun y => g (fst y) (snd y)) (combine (seq 0 (length l)) l))) = true
  <-> forall f a, nth_error l f = Some a -> p f (g f a) = true.
Proof.
  unfold index_list. rewrite map_length, combine_length, seq_length, Nat.min_id.
  apply (forallb_combine_map_ds g p l 0).
Qed.

Lemma nth_map_nth_error_ds {A B} (g : A -> B) (l : list A) n x d :
  nth_error l n = Some x -> nth n (map g l) d = g x.
Proof. intros E. apply nth_error_nth. now apply map_nth_error. Qed.

(** membership in [itertools.product] *)
Lemma in_product_map_ds (g n : nat -> nat) : forall deps,
  (forall d, In d deps -> g d < n d) ->
  In (map g deps) (product (map (fun d => seq 0 (n d)) deps)).
Proof.
  induction deps as [|d deps IH]; intros H; cbn [map product]; [now left|].
  apply in_flat_map. exists (g d). split.
  - apply in_seq. specialize (H d (or_introl eq_refl)). lia.
  - apply in_map. apply IH. intros e He. apply H. now right.
Qed.

(** two distinct members satisfying [p] make the filter at least two long *)
Lemma filter_two_ds (p : nat -> bool) (xs : list nat) a b :
  NoDup xs -> In a xs -> In b xs -> a <> b -> p a = true -> p b = true -> 2 <= length (filter p xs).
Proof.
  intros Hnd Ha Hb Hab Pa Pb.
  change 2 with (length [a; b]). apply NoDup_incl_length.
  - constructor; [|constructor; [intros []|constructor]]. intros [E|[]]. now apply Hab.
  - intros x [<-|[<-|[]]]; apply filter_In; auto.
Qed.

Lemma eval_fvs_ds s (us : list nat) : Forall (fun u => 0 < u) us ->
  forallb (eval s) (map fv us) = forallb (fun u => s (zn u)) us.
Proof.
  intros H. induction H as [|u us Hu _ IH]; [reflexivity|]. cbn [map forallb]. rewrite IH. f_equal.
  cbn [fv eval]. apply lit_true_pos. unfold zn. lia.
Qed.

(** the start of the group of [t] for sustain [su] lies in the same group for a multiple [m] of [su] *)
Lemma group_same su m t : 0 < su -> 0 < m -> m mod su = 0 -> ((t / su) * su) / m = t / m.
Proof.
  intros Hsu Hm Hd. apply Nat.mod_divides in Hd; [|lia]. destruct Hd as (k & Hk).
  assert (Hk0 : 0 < k) by (destruct k; [rewrite Nat.mul_0_r in Hk; lia|lia]).
  pose proof (Nat.div_mod t m ltac:(lia)) as Et. pose proof (Nat.mod_upper_bound t m ltac:(lia)) as Hr.
  set (q := t / m) in *. set (r := t mod m) in *.
  assert (Emod : t mod su = r mod su).
  { rewrite Et, Hk. replace (su * k * q + r) with (r + (k * q) * su) by lia. apply Nat.mod_add. lia. }
  assert (E1 : (t / su) * su = t - t mod su).
  { pose proof (Nat.div_mod t su ltac:(lia)). lia. }
  pose proof (Nat.mod_le r su ltac:(lia)) as Hle.
  symmetry. apply (Nat.div_unique _ m q (r - r mod su)); [lia|]. rewrite E1, Emod. lia.
Qed.

Section F1DerivSem.
Variable fb : flat.
Hypothesis HF1 : in_f1 fb = true.
Hypothesis HT : 0 < T fb.

Let FF : F1facts fb := in_f1_facts fb HF1.

(** the (width 1) arguments of the reference window ([CodeSem.dwin]) of a WithinTrial factor of act_design *)
Definition cargs (q : tseq) (deps : list nat) (t : nat) : list (list cell) :=
  map (fun d => [get_cell q d t]) deps.

(** the level (0 where the cell is empty) of factor [d] at trial [t] *)
Definition lev (q : tseq) (t d : nat) : nat :=
  match get_cell q d t with Some x => x | None => 0 end.

(** * What [in_f1] gives for one grid factor (in act_design, no complex window) *)
Lemma f1_window_shape f fd w :
  nth_error (fl_design fb) f = Some fd -> ff_window fd = Some w -> sact fb f = true ->
  win_width w = 1 /\ win_stride w = 1 /\ win_start w = 0.
Proof.
  intros Efd Ew Hs. apply (sact_split fb) in Hs. destruct Hs as [Ha Hcx].
  rewrite (is_complex_at fb f fd Efd) in Hcx.
  pose proof (f1_factor fb FF f fd Efd Ha) as H. unfold factor_f1 in H. rewrite Ew, Hcx in H.
  rewrite !andb_true_iff in H. destruct H as [_ [[H1 H2] H3]].
  apply Nat.eqb_eq in H1, H2, H3. auto.
Qed.

Lemma f1_deps_facts f fd w :
  nth_error (fl_design fb) f = Some fd -> ff_window fd = Some w -> isact fb f = true ->
  Forall (fun dd => sact fb dd = true) (win_deps w).
Proof.
  intros Efd Ew Ha. destruct (f1_tables fb FF f fd Efd) as [Htab _]. unfold tables_ok in Htab. rewrite Ew in Htab.
  apply andb_true_iff in Htab. destruct Htab as [Hlt _]. rewrite forallb_forall in Hlt.
  apply Forall_forall. intros dd Hdd. apply (dep_ok_act fb f dd Ha). now apply Hlt.
Qed.

Lemma f1_tables_facts f fd w :
  nth_error (fl_design fb) f = Some fd -> ff_window fd = Some w -> sact fb f = true ->
  Forall (fun dd => sact fb dd = true) (win_deps w) /\
  (forall lv entry, In lv (ff_levels fd) -> In entry (lv_accepts lv) -> entry_ok fb (win_deps w) entry = true).
Proof.
  intros Efd Ew Hs. apply (sact_split fb) in Hs. destruct Hs as [Ha Hcx].
  split; [exact (f1_deps_facts f fd w Efd Ew Ha)|]. rewrite (is_complex_at fb f fd Efd) in Hcx.
  destruct (f1_tables fb FF f fd Efd) as [Htab _]. unfold tables_ok in Htab. rewrite Ew in Htab.
  apply andb_true_iff in Htab. destruct Htab as [_ Hent]. rewrite Ha, Hcx in Hent. cbn [negb orb] in Hent.
  rewrite forallb_forall in Hent.
  intros lv entry Hlv He. specialize (Hent lv Hlv). rewrite forallb_forall in Hent. now apply Hent.
Qed.

Lemma nlevels_design f fd : nth_error (fl_design fb) f = Some fd -> nlevels fb f = length (ff_levels fd).
Proof. intros E. unfold nlevels, factor_at. now rewrite E. Qed.

Lemma design_lt f fd : nth_error (fl_design fb) f = Some fd -> f < nf fb.
Proof. intros E. unfold nf. apply nth_error_Some. congruence. Qed.

Lemma code_factor_derived f fd w :
  ff_window fd = Some w -> f_derived (code_factor fb f fd) = Some (dwin fd w).
Proof. intros E. cbn [code_factor f_derived]. rewrite E. reflexivity. Qed.

Lemma code_factor_plain f fd :
  ff_window fd = None -> f_derived (code_factor fb f fd) = None.
Proof. intros E. cbn [code_factor f_derived]. rewrite E. reflexivity. Qed.

Lemma window_args_f1 q f fd w t :
  win_width w = 1 ->
  window_args q (code_factor fb f fd) (dwin fd w) t = cargs q (win_deps w) ((t / sustain_of fb f) * sustain_of fb f).
Proof.
  intros Hw. unfold window_args, cargs. cbn [f_sustain code_factor w_width w_deps dwin].
  rewrite Hw. apply map_ext. intros d. cbn [seq map].
  change ((1 - 1 - 0) * sustain_of fb f) with 0. cbn [Nat.leb]. now rewrite Nat.sub_0_r.
Qed.

(** the cells of the depended-on factors are those at the start of the group *)
Lemma cargs_group q f fd w t :
  grouped fb q -> nth_error (fl_design fb) f = Some fd -> ff_window fd = Some w -> sact fb f = true -> t < T fb ->
  cargs q (win_deps w) ((t / sustain_of fb f) * sustain_of fb f) = cargs q (win_deps w) t.
Proof.
  intros Hg Efd Ew Hs Ht. unfold cargs. apply map_ext_in. intros d Hd. f_equal.
  destruct (sact_lappl fb HF1 f 0 Hs) as [Haf _].
  pose proof (proj1 (Forall_forall _ _) (f1_deps_facts f fd w Efd Ew Haf) d Hd) as Hds. cbv beta in Hds.
  destruct (sact_lappl fb HF1 d t Hds) as [Hda _].
  pose proof (f1_sustain_deps fb FF f fd w Efd Ew Hs d Hd) as Hdiv.
  pose proof (f1_sustain_pos fb FF f) as Pf. pose proof (f1_sustain_pos fb FF d) as Pd.
  set (t0 := (t / sustain_of fb f) * sustain_of fb f).
  assert (Ht0 : t0 <= t) by apply (group_le fb HT).
  rewrite <- (Hg d t0 Hda ltac:(lia)), <- (Hg d t Hda Ht). unfold t0.
  now rewrite (group_same (sustain_of fb f) (sustain_of fb d) t Pf Pd Hdiv).
Qed.

Lemma applies_f1 f fd t : nth_error (fl_design fb) f = Some fd -> sact fb f = true -> applies (code_factor fb f fd) t = true.
Proof.
  intros Efd Hs. rewrite (applies_lappl fb HF1 HT f fd t Efd). apply (sact_lappl fb HF1 f t Hs).
Qed.

(** the shape part of [onehot]: complete rows, a level exactly where the factor has one *)
Definition shape (q : tseq) : Prop :=
  length q = nf fb /\ (forall f, f < nf fb -> length (nth f q []) = T fb) /\
  (forall t f, t < T fb -> isact fb f = true -> lappl fb f t = true -> exists l, l < nlevels fb f /\ get_cell q f t = Some l) /\
  (forall t f, t < T fb -> isact fb f = true -> lappl fb f t = false -> get_cell q f t = None).

Lemma onehot_shape s q : onehot fb s q -> shape q.
Proof. intros (A & B & C & _ & _ & D). repeat split; assumption. Qed.

Lemma shape_cell q t d : shape q -> t < T fb -> sact fb d = true -> exists x, x < nlevels fb d /\ get_cell q d t = Some x.
Proof. intros (_ & _ & C & _) Ht Hs. destruct (sact_lappl fb HF1 d t Hs) as [Ha Hl]. exact (C t d Ht Ha Hl). Qed.

(** [factor_ok] of a grid factor on a well-shaped sequence: only the acceptance of
    the chosen level of a derived factor remains *)
Lemma factor_ok_shape q f fd :
  shape q -> grouped fb q -> nth_error (fl_design fb) f = Some fd -> sact fb f = true ->
  (factor_ok (code_sem fb) q f (code_factor fb f fd) = true <->
   forall w, ff_window fd = Some w ->
   forall t l0, t < T fb -> get_cell q f t = Some l0 -> accepts (dwin fd w) l0 (cargs q (win_deps w) t) = true).
Proof.
  intros Hsh Hg Efd Hs. pose proof Hsh as (Hq & Hr & Hc & _).
  pose proof (design_lt f fd Efd) as Hf. pose proof (nlevels_design f fd Efd) as Hnl.
  destruct (sact_lappl fb HF1 f 0 Hs) as [Ha _].
  unfold factor_ok. change (s_trials (code_sem fb)) with (T fb).
  rewrite (Hr f Hf), Nat.eqb_refl, andb_true_l, forallb_forall. split.
  - intros H w Ew t l0 Ht El0.
    specialize (H t (proj2 (in_seq _ _ _) (conj (Nat.le_0_l _) Ht))). rewrite El0 in H.
    rewrite (code_factor_derived f fd w Ew) in H. apply andb_true_iff in H. destruct H as [_ H].
    destruct (f1_window_shape f fd w Efd Ew Hs) as (H1 & _ & _).
    now rewrite (window_args_f1 q f fd w t H1), (cargs_group q f fd w t Hg Efd Ew Hs Ht) in H.
  - intros H t Ht. apply in_seq in Ht. destruct (shape_cell q t f Hsh ltac:(lia) Hs) as (l0 & Hl0 & El0). rewrite El0.
    rewrite (applies_f1 f fd t Efd Hs). cbn [f_nlevels f_sustain code_factor].
    rewrite (Hg f t Ha ltac:(lia)), El0. cbn [cell_eqb]. rewrite Nat.eqb_refl.
    replace (l0 <? length (ff_levels fd)) with true by (symmetry; apply Nat.ltb_lt; lia).
    cbn [andb]. destruct (ff_window fd) as [w|] eqn:Ew; [|now rewrite (code_factor_plain f fd Ew)].
    destruct (f1_window_shape f fd w Efd Ew Hs) as (H1 & _ & _).
    rewrite (code_factor_derived f fd w Ew).
    rewrite (window_args_f1 q f fd w t H1), (cargs_group q f fd w t Hg Efd Ew Hs ltac:(lia)).
    apply (H w eq_refl t l0); [lia|exact El0].
Qed.

Lemma factor_ok_f1 s q f fd :
  onehot fb s q -> grouped fb q -> nth_error (fl_design fb) f = Some fd -> sact fb f = true ->
  (factor_ok (code_sem fb) q f (code_factor fb f fd) = true <->
   forall w, ff_window fd = Some w ->
   forall t l0, t < T fb -> get_cell q f t = Some l0 -> accepts (dwin fd w) l0 (cargs q (win_deps w) t) = true).
Proof. intros Ho. apply factor_ok_shape. exact (onehot_shape s q Ho). Qed.

(** * The grid variable of a level is the cell test *)
Lemma eval_gridvar s q t f l :
  onehot fb s q -> t < T fb -> sact fb f = true -> l < nlevels fb f ->
  eval s (fv (off fb f + l + t * vpt fb + 1)) = is_level l (get_cell q f t).
Proof.
  intros Ho Ht Hs Hl. apply (sact_split fb) in Hs. destruct Hs as [Hf Hcx].
  rewrite <- (onehot_simple_bit fb HF1 s q t f l Ho Ht Hf Hcx Hl). unfold bit, fv, zn. cbn [eval].
  replace (off fb f + l + t * vpt fb + 1) with (gvar fb t f l) by (rewrite (gvar_simple fb t f l Hcx); lia).
  apply lit_true_pos. pose proof (gvar_pos fb t f l). lia.
Qed.

(** key lemma A: the conjunction generated for a table entry tests the window arguments *)
Lemma entry_eval s q t deps : forall entry,
  onehot fb s q -> t < T fb -> Forall (fun d => sact fb d = true) deps -> entry_ok fb deps entry = true ->
  forallb (eval s) (map (fun x => match x with DIdx i => fv (i + t * vpt fb + 1) | DBefore _ => fv 0 end)
                        (entry_deps fb deps entry))
  = args_eqb (cargs q deps t) entry.
Proof.
  induction deps as [|d deps IH]; intros [|col entry] Ho Ht Hd He; cbn [entry_ok] in He; try discriminate.
  - reflexivity.
  - apply andb_true_iff in He. destruct He as [Hcol He]. inversion Hd as [|? ? Hdd Hds]; subst.
    unfold col_ok in Hcol. destruct col as [|[x|] [|? ?]]; try discriminate. apply Nat.ltb_lt in Hcol.
    unfold entry_deps, cargs, args_eqb in *. cbn [map2 map forallb list_eqb].
    rewrite (eval_gridvar s q t d x Ho Ht Hdd Hcol), andb_true_r. unfold is_level. f_equal.
    now apply IH.
Qed.

(** key lemma B: what the Iff's of one derived level say *)
Lemma pderiv_char s q f l deps entries :
  onehot fb s q -> sact fb f = true -> l < nlevels fb f -> Forall (fun dd => sact fb dd = true) deps ->
  (forall entry, In entry entries -> entry_ok fb deps entry = true) ->
  (Pderiv fb (off fb f + l) (map (entry_deps fb deps) entries) s <->
   forall t, t < T fb -> is_level l (get_cell q f t) = existsb (args_eqb (cargs q deps t)) entries).
Proof.
  intros Ho Hf Hl Hd He. unfold Pderiv, deriv_iffs. cbn [eval]. rewrite forallb_map_forall_ds.
  assert (K : forall t, t < T fb ->
            eval s (FIff (fv (off fb f + l + t * vpt fb + 1))
                         (FOr (map (fun e => FAnd (map (fun x => match x with
                                                                 | DIdx i => fv (i + t * vpt fb + 1)
                                                                 | DBefore _ => fv 0
                                                                 end) e))
                                   (map (entry_deps fb deps) entries))))
            = Bool.eqb (is_level l (get_cell q f t)) (existsb (args_eqb (cargs q deps t)) entries)).
  { intros t Ht. cbn [eval]. rewrite (eval_gridvar s q t f l Ho Ht Hf Hl). f_equal.
    rewrite map_map, existsb_map_ds. apply existsb_ext_in_ds. intros entry Hentry. cbn [eval].
    apply entry_eval; auto. }
  split.
  - intros H t Ht. specialize (H t (proj2 (in_seq _ _ _) (conj (Nat.le_0_l _) Ht))).
    rewrite (K t Ht) in H. now apply eqb_prop.
  - intros H t Ht. apply in_seq in Ht. rewrite (K t ltac:(lia)), (H t ltac:(lia)). apply eqb_reflx.
Qed.

(** * Acceptance by the reference window and by the flat record *)
Lemma accepts_level fd w l args :
  accepts (dwin fd w) l args =
  match nth_error (ff_levels fd) l with
  | Some lv => existsb (args_eqb args) (lv_accepts lv)
  | None => false
  end.
Proof.
  unfold accepts. cbn [w_table dwin]. destruct (nth_error (ff_levels fd) l) as [lv|] eqn:E.
  - now rewrite (nth_map_nth_error_ds lv_accepts (ff_levels fd) l lv [] E).
  - rewrite nth_overflow; [reflexivity|]. rewrite map_length. now apply nth_error_None.
Qed.

Lemma args_entry_matches q t deps : forall entry,
  (forall d, In d deps -> exists x, get_cell q d t = Some x) ->
  entry_ok fb deps entry = true ->
  args_eqb (cargs q deps t) entry = entry_matches entry (map (lev q t) deps).
Proof.
  induction deps as [|d deps IH]; intros [|col entry] Hd He; cbn [entry_ok] in He; try discriminate.
  - reflexivity.
  - apply andb_true_iff in He. destruct He as [Hcol He].
    unfold col_ok in Hcol. destruct col as [|[x|] [|? ?]]; try discriminate.
    destruct (Hd d (or_introl eq_refl)) as (a & Ea).
    unfold cargs, args_eqb in *. cbn [map list_eqb entry_matches]. unfold lev at 1. rewrite Ea.
    cbn [cell_eqb]. rewrite andb_true_r, (Nat.eqb_sym a x). f_equal.
    apply IH; [|exact He]. intros e Hin. apply Hd. now right.
Qed.

Lemma accepts_level_accepts_shape q f fd w t l :
  shape q -> nth_error (fl_design fb) f = Some fd -> ff_window fd = Some w -> sact fb f = true -> t < T fb ->
  accepts (dwin fd w) l (cargs q (win_deps w) t) = level_accepts fd l (map (lev q t) (win_deps w)).
Proof.
  intros Hsh Efd Ew Ha Ht. pose proof (design_lt f fd Efd) as Hf.
  destruct (f1_tables_facts f fd w Efd Ew Ha) as [Hlt Hent].
  rewrite accepts_level. unfold level_accepts. destruct (nth_error (ff_levels fd) l) as [lv|] eqn:Elv; [|reflexivity].
  apply existsb_ext_in_ds. intros entry Hentry. apply args_entry_matches.
  - intros d Hd. pose proof (proj1 (Forall_forall _ _) Hlt d Hd) as Hdf. cbv beta in Hdf.
    destruct (shape_cell q t d Hsh Ht Hdf) as (x & _ & Ex). now exists x.
  - apply (Hent lv entry); [eapply nth_error_In; exact Elv|exact Hentry].
Qed.

Lemma accepts_level_accepts s q f fd w t l :
  onehot fb s q -> nth_error (fl_design fb) f = Some fd -> ff_window fd = Some w -> sact fb f = true -> t < T fb ->
  accepts (dwin fd w) l (cargs q (win_deps w) t) = level_accepts fd l (map (lev q t) (win_deps w)).
Proof. intros Ho. apply accepts_level_accepts_shape. exact (onehot_shape s q Ho). Qed.

(** no two levels accept the arguments of a trial *)
Lemma accepts_unique_shape q f fd w t l l0 :
  shape q -> nth_error (fl_design fb) f = Some fd -> ff_window fd = Some w -> sact fb f = true -> t < T fb ->
  accepts (dwin fd w) l (cargs q (win_deps w) t) = true ->
  accepts (dwin fd w) l0 (cargs q (win_deps w) t) = true -> l = l0.
Proof.
  intros Ho Efd Ew Hs Ht A1 A2.
  rewrite (accepts_level_accepts_shape q f fd w t l Ho Efd Ew Hs Ht) in A1.
  rewrite (accepts_level_accepts_shape q f fd w t l0 Ho Efd Ew Hs Ht) in A2.
  destruct (Nat.eq_dec l l0) as [E|N]; [exact E|exfalso].
  assert (B : forall k, level_accepts fd k (map (lev q t) (win_deps w)) = true -> k < length (ff_levels fd)).
  { intros k Hk. unfold level_accepts in Hk. apply nth_error_Some. destruct (nth_error (ff_levels fd) k); [discriminate|discriminate Hk]. }
  pose proof (B l A1) as L1. pose proof (B l0 A2) as L2.
  pose proof Hs as Hs'. apply (sact_split fb) in Hs'. destruct Hs' as [Ha Hcx]. rewrite (is_complex_at fb f fd Efd) in Hcx.
  destruct (f1_tables fb FF f fd Efd) as [_ Hun]. unfold tables_unambiguous in Hun. rewrite Ha, Ew, Hcx in Hun. cbn [negb orb] in Hun.
  rewrite forallb_forall in Hun. specialize (Hun (map (lev q t) (win_deps w))).
  pose proof (design_lt f fd Efd) as Hf.
  destruct (f1_tables_facts f fd w Efd Ew Hs) as [Hlt _].
  assert (Hin : In (map (lev q t) (win_deps w)) (product (map (fun d => seq 0 (nlevels fb d)) (win_deps w)))).
  { apply (in_product_map_ds (lev q t) (nlevels fb)). intros d Hd.
    pose proof (proj1 (Forall_forall _ _) Hlt d Hd) as Hdf. cbv beta in Hdf.
    destruct (shape_cell q t d Ho Ht Hdf) as (x & Hx & Ex). unfold lev. now rewrite Ex. }
  specialize (Hun Hin). apply Nat.leb_le in Hun.
  pose proof (filter_two_ds (fun k => level_accepts fd k (map (lev q t) (win_deps w))) (seq 0 (length (ff_levels fd))) l l0
                (seq_NoDup _ _) (proj2 (in_seq _ _ _) (conj (Nat.le_0_l _) L1))
                (proj2 (in_seq _ _ _) (conj (Nat.le_0_l _) L2)) N A1 A2) as H2.
  lia.
Qed.

Lemma accepts_unique s q f fd w t l l0 :
  onehot fb s q -> nth_error (fl_design fb) f = Some fd -> ff_window fd = Some w -> sact fb f = true -> t < T fb ->
  accepts (dwin fd w) l (cargs q (win_deps w) t) = true ->
  accepts (dwin fd w) l0 (cargs q (win_deps w) t) = true -> l = l0.
Proof. intros Ho. apply accepts_unique_shape. exact (onehot_shape s q Ho). Qed.

(** * The converse of [deriv_shape]: every derived level has its Derivation *)
Lemma deriv_exists0 f fd w l :
  nth_error (fl_design fb) f = Some fd -> ff_window fd = Some w -> isact fb f = true -> l < length (ff_levels fd) ->
  exists d deps, In (FDerivation d deps f) (fl_constraints fb) /\ first_variable_for_level fb f l = Some d.
Proof.
  intros Efd Ew Hact Hl. pose proof (f1_derivations fb FF) as HD.
  unfold derivations_match in HD. apply andb_true_iff in HD. destruct HD as [HD1 _].
  rewrite forallb_forall in HD1. specialize (HD1 (f, fd) (nth_error_combine_seq (fl_design fb) 0 f fd Efd)).
  cbn beta iota in HD1. cbn [fst snd] in HD1. rewrite Hact in HD1. cbn [negb orb] in HD1. rewrite Ew in HD1. rewrite forallb_forall in HD1.
  specialize (HD1 l (proj2 (in_seq _ _ _) (conj (Nat.le_0_l _) Hl))).
  apply existsb_exists in HD1. destruct HD1 as (c & Hc & HD1).
  unfold is_derivation_of in HD1. destruct c as [| | |d deps f'| | | | | | | | | | | | |]; try discriminate HD1.
  unfold factor_at in HD1. rewrite Efd, Ew in HD1.
  destruct (nth_error (ff_levels fd) l) as [lv|] eqn:Elv; [|discriminate].
  destruct (first_variable_for_level fb f l) as [v|] eqn:Ev; [|discriminate].
  rewrite !andb_true_iff in HD1. destruct HD1 as [[Hf' Hd] _]. apply Nat.eqb_eq in Hf', Hd. subst f' d.
  exists v, deps. split; [exact Hc|reflexivity].
Qed.

Lemma deriv_exists f fd w l :
  nth_error (fl_design fb) f = Some fd -> ff_window fd = Some w -> sact fb f = true -> l < length (ff_levels fd) ->
  exists lv, nth_error (ff_levels fd) l = Some lv /\
    In (FDerivation (off fb f + l) (map (entry_deps fb (win_deps w)) (lv_accepts lv)) f) (fl_constraints fb).
Proof.
  intros Efd Ew Hs Hl. pose proof Hs as Hs'. apply (sact_split fb) in Hs'. destruct Hs' as [Hact Hcx].
  destruct (deriv_exists0 f fd w l Efd Ew Hact Hl) as (d & deps & Hc & Ev).
  pose proof (nlevels_design f fd Efd) as Hnl.
  rewrite (f1_first_var fb HF1 f l Hact ltac:(lia)), Hcx in Ev. inversion Ev. subst d.
  destruct (deriv_shape fb HF1 HT _ _ _ Hc Hcx) as (fd' & w' & l' & lv' & Efd' & Ew' & Elv' & _ & Hl' & Hd' & Hdeps' & _).
  assert (fd' = fd) by congruence. subst fd'. assert (w' = w) by congruence. subst w'.
  assert (l' = l) by lia. subst l'.
  exists lv'. split; [exact Elv'|]. rewrite <- Hdeps'. exact Hc.
Qed.

(** * [factor_ok] of a derived factor with sustain 1, unfolded (implied factors, complex windows) *)
Lemma factor_ok_impl q f fd w :
  nth_error (fl_design fb) f = Some fd -> ff_window fd = Some w -> sustain_of fb f = 1 -> length (nth f q []) = T fb ->
  (factor_ok (code_sem fb) q f (code_factor fb f fd) = true <->
   forall t, t < T fb ->
     match get_cell q f t with
     | Some l => applies (code_factor fb f fd) t = true /\ l < nlevels fb f /\
                 accepts (dwin fd w) l (window_args q (code_factor fb f fd) (dwin fd w) t) = true
     | None => applies (code_factor fb f fd) t = false
     end).
Proof.
  intros Efd Ew Hsu Hr. pose proof (nlevels_design f fd Efd) as Hnl.
  unfold factor_ok. change (s_trials (code_sem fb)) with (T fb).
  rewrite Hr, Nat.eqb_refl, andb_true_l, forallb_forall.
  assert (K : forall t, (t / f_sustain (code_factor fb f fd)) * f_sustain (code_factor fb f fd) = t).
  { intros t. cbn [f_sustain code_factor]. rewrite Hsu, Nat.div_1_r. apply Nat.mul_1_r. }
  split.
  - intros H t Ht. specialize (H t (proj2 (in_seq _ _ _) (conj (Nat.le_0_l _) Ht))).
    destruct (get_cell q f t) as [l|] eqn:El.
    + rewrite (code_factor_derived f fd w Ew) in H. rewrite !andb_true_iff in H.
      destruct H as [[[A B] _] D]. apply Nat.ltb_lt in B. cbn [f_nlevels code_factor] in B.
      split; [exact A|]. split; [lia|exact D].
    + now apply negb_true_iff in H.
  - intros H t Ht. apply in_seq in Ht. specialize (H t ltac:(lia)).
    destruct (get_cell q f t) as [l|] eqn:El.
    + destruct H as (A & B & D). rewrite (code_factor_derived f fd w Ew), A, D, K, El.
      cbn [cell_eqb f_nlevels code_factor]. rewrite Nat.eqb_refl.
      replace (l <? length (ff_levels fd)) with true by (symmetry; apply Nat.ltb_lt; lia). reflexivity.
    + now apply negb_true_iff.
Qed.

(** on a one-hot grid the implied cell computed from the sequence itself is the implied cell of the grid *)
Lemma onehot_impl_cell s q f t :
  onehot fb s q -> f < nf fb -> isact fb f = false -> t < T fb -> impl_cell fb q t f = cell_impl fb s t f.
Proof.
  intros Ho Hf Ha Ht. apply (cell_impl_char fb HF1 HT s q t f Hf Ha Ht).
  intros d t' Hd Ht'. apply (onehot_cell fb s q t' d Ho); [lia|exact (dep_lt fb HF1 HT f d Hf Ha Hd)].
Qed.

(** * Factors of act_design with a complex window *)
Lemma col_eval s q width n d : forall col s0,
  onehot fb s q -> n < T fb -> sact fb d = true ->
  (forall c, In c col -> exists x, c = Some x /\ x < nlevels fb d) ->
  forallb (fun v => s (zn v))
          (map (fun jc => gvar fb (n - (width - 1 - fst jc)) d (lev_of' (snd jc))) (combine (seq s0 (length col)) col))
  = list_eqb cell_eqb (map (fun j => get_cell q d (n - (width - 1 - j))) (seq s0 (length col))) col.
Proof.
  induction col as [|c col IH]; intros s0 Ho Hn Hs Hc; [reflexivity|].
  cbn [length seq combine map forallb list_eqb fst snd].
  destruct (Hc c (or_introl eq_refl)) as (x & -> & Hx). cbn [lev_of'].
  pose proof Hs as Hs'. apply (sact_split fb) in Hs'. destruct Hs' as [Ha Hcx].
  change (s (zn (gvar fb (n - (width - 1 - s0)) d x))) with (bit fb s (n - (width - 1 - s0)) d x).
  rewrite (onehot_simple_bit fb HF1 s q (n - (width - 1 - s0)) d x Ho ltac:(lia) Ha Hcx Hx). unfold is_level.
  f_equal. apply IH; try assumption. intros c' Hc'. apply Hc. now right.
Qed.

Lemma entry_eval_c s q width n : forall deps entry,
  onehot fb s q -> n < T fb -> Forall (fun d => sact fb d = true) deps -> entryw_ok fb width deps entry = true ->
  forallb (fun v => s (zn v)) (concat (map2 (col_cvars fb width n) deps entry))
  = args_eqb (map (fun d => map (fun j => get_cell q d (n - (width - 1 - j))) (seq 0 width)) deps) entry.
Proof.
  induction deps as [|d deps IH]; intros [|col entry] Ho Hn Hd He; cbn [entryw_ok] in He; try discriminate; [reflexivity|].
  apply andb_true_iff in He. destruct He as [Hc He]. inversion Hd as [|a1 a2 Hdd Hds]. subst a1 a2.
  cbn [map2 concat map]. rewrite forallb_app. unfold args_eqb in *. cbn [list_eqb]. f_equal; [|now apply IH].
  destruct (colw_cells fb width d col Hc) as [Hlen Hcells]. unfold col_cvars.
  rewrite (col_eval s q width n d col 0 Ho Hn Hdd).
  - now rewrite Hlen.
  - intros c Hin. destruct (In_nth col c None Hin) as (j & Hj & Ej).
    apply (Hcells j c). rewrite <- Ej.
    assert (G : forall (l : list (option nat)) s0 i, i < length l -> In (s0 + i, nth i l None) (combine (seq s0 (length l)) l)).
    { induction l as [|y l IHl]; intros s0 i Hi; [cbn in Hi; lia|]. cbn [length seq combine]. destruct i as [|i].
      - left. now rewrite Nat.add_0_r.
      - right. replace (s0 + S i) with (S s0 + i) by lia. cbn [nth]. apply IHl. cbn [length] in Hi. lia. }
    exact (G col 0 j Hj).
Qed.

Section Complex.
Variables (f : nat) (fd : ffactor) (w : fwindow).
Hypothesis Efd : nth_error (fl_design fb) f = Some fd.
Hypothesis Ew : ff_window fd = Some w.
Hypothesis Ha : isact fb f = true.
Hypothesis Hcx : ff_complex fd = true.

Lemma cx_w3 : win_width w - 1 <= win_start w.
Proof. destruct (complex_facts fb HF1 f fd Efd Ha Hcx) as (w' & Ew' & _ & _ & W3 & _). congruence. Qed.

Lemma cx_su : sustain_of fb f = 1.
Proof. apply (f1_sustain_cx fb HF1 f Ha). now rewrite (is_complex_at fb f fd Efd). Qed.

Lemma cx_deps : Forall (fun d => sact fb d = true) (win_deps w).
Proof. exact (f1_deps_facts f fd w Efd Ew Ha). Qed.

Lemma cx_window_in q n : shape q -> n < T fb -> lappl fb f n = true ->
  In (window_args q (code_factor fb f fd) (dwin fd w) n) (all_args fb w).
Proof.
  intros Hsh Hn Hap. apply (impl_window_in fb HF1 HT q f fd w n cx_su cx_w3); [now rewrite (applies_lappl fb HF1 HT f fd n Efd)|exact Ew|].
  intros d t' Hd Ht'. apply (shape_cell q t' d Hsh ltac:(lia)). exact (proj1 (Forall_forall _ _) cx_deps d Hd).
Qed.

(** what the equivalences of one level say *)
Lemma pderivc_char s q l lv :
  onehot fb s q -> l < nlevels fb f ->
  Forall (fun entry => entryw_ok fb (win_width w) (win_deps w) entry = true) (lv_accepts lv) ->
  (eval s (FAnd (cx_iffs fb w f l (lv_accepts lv))) = true <->
   forall n, n < T fb -> lappl fb f n = true ->
     is_level l (get_cell q f n) = existsb (args_eqb (window_args q (code_factor fb f fd) (dwin fd w) n)) (lv_accepts lv)).
Proof.
  intros Ho Hl Hent. pose proof Ho as (_ & _ & _ & Hb & _).
  unfold cx_iffs. cbn [eval]. rewrite forallb_map_forall_ds.
  assert (K : forall n, n < T fb -> lappl fb f n = true ->
            eval s (cx_iff fb w f l (lv_accepts lv) n)
            = Bool.eqb (is_level l (get_cell q f n))
                       (existsb (args_eqb (window_args q (code_factor fb f fd) (dwin fd w) n)) (lv_accepts lv))).
  { intros n Hn Hap. unfold cx_iff. cbn [eval]. f_equal.
    - unfold fv. cbn [eval]. rewrite lit_true_pos by (pose proof (gvar_pos fb n f l); unfold zn; lia).
      exact (Hb n f l Hn Ha Hap Hl).
    - rewrite existsb_map_ds. apply existsb_ext_in_ds. intros e He. cbn [eval].
      pose proof (proj1 (Forall_forall _ _) Hent e He) as Hok. cbv beta in Hok.
      rewrite (eval_fvs_ds s (entry_cvars fb w n e)).
      + unfold entry_cvars. rewrite (entry_eval_c s q (win_width w) n (win_deps w) e Ho Hn cx_deps Hok).
        rewrite (impl_window_args fb HF1 HT q f fd w n cx_su cx_w3); [reflexivity| |exact Ew].
        now rewrite (applies_lappl fb HF1 HT f fd n Efd).
      + eapply Forall_impl; [|exact (entry_cvars_ok fb HF1 HT w f fd n e Efd Ew Ha Hcx cx_deps Hok Hn Hap)].
        intros a [Ha' _]. exact Ha'. }
  split.
  - intros H n Hn Hap. specialize (H n (proj2 (in_trials_of fb f 0 (T fb) n) (conj (conj (Nat.le_0_l _) Hn) Hap))).
    rewrite (K n Hn Hap) in H. now apply eqb_prop.
  - intros H n Hin. apply in_trials_of in Hin. destruct Hin as [[_ Hn] Hap].
    rewrite (K n Hn Hap), (H n Hn Hap). apply eqb_reflx.
Qed.

(** no two levels accept the window of a trial *)
Lemma accepts_unique_c q n l l0 :
  shape q -> n < T fb -> lappl fb f n = true -> l < nlevels fb f -> l0 < nlevels fb f ->
  accepts (dwin fd w) l (window_args q (code_factor fb f fd) (dwin fd w) n) = true ->
  accepts (dwin fd w) l0 (window_args q (code_factor fb f fd) (dwin fd w) n) = true -> l = l0.
Proof.
  intros Hsh Hn Hap L1 L2 A1 A2. destruct (Nat.eq_dec l l0) as [E|N]; [exact E|exfalso].
  destruct (f1_tables fb FF f fd Efd) as [_ Hun]. unfold tables_unambiguous in Hun. rewrite Ha, Ew, Hcx in Hun. cbn [negb orb] in Hun.
  rewrite forallb_forall in Hun. specialize (Hun _ (cx_window_in q n Hsh Hn Hap)). apply Nat.leb_le in Hun.
  rewrite <- (nlevels_design f fd Efd) in Hun.
  pose proof (filter_two_ds (fun k => accepts (dwin fd w) k (window_args q (code_factor fb f fd) (dwin fd w) n))
                (seq 0 (nlevels fb f)) l l0 (seq_NoDup _ _)
                (proj2 (in_seq _ _ _) (conj (Nat.le_0_l _) L1)) (proj2 (in_seq _ _ _) (conj (Nat.le_0_l _) L2)) N A1 A2) as H2.
  lia.
Qed.

(** every level has its Derivation *)
Lemma deriv_exists_c l :
  l < nlevels fb f ->
  exists lv d deps, nth_error (ff_levels fd) l = Some lv /\ In (FDerivation d deps f) (fl_constraints fb) /\
    derivc_formulas fb d deps f = cx_iffs fb w f l (lv_accepts lv) /\
    Forall (fun entry => entryw_ok fb (win_width w) (win_deps w) entry = true) (lv_accepts lv).
Proof.
  intros Hl. pose proof (nlevels_design f fd Efd) as Hnl.
  destruct (deriv_exists0 f fd w l Efd Ew Ha ltac:(lia)) as (d & deps & Hc & Ev).
  assert (Hcf : is_complex fb f = true) by (rewrite (is_complex_at fb f fd Efd); exact Hcx).
  rewrite (f1_first_var fb HF1 f l Ha Hl), Hcf in Ev. inversion Ev. subst d.
  destruct (derivc_formulas_eq fb HF1 HT _ deps f Hc Hcf) as (fd' & w' & l' & lv' & Efd' & Ew' & Elv' & _ & _ & Hl' & Hd' & _ & He' & _ & EF).
  assert (fd' = fd) by congruence. subst fd'. assert (w' = w) by congruence. subst w'.
  assert (l' = l) by lia. subst l'.
  exists lv', (GN fb + coff fb f + l), deps. split; [exact Elv'|]. split; [exact Hc|]. split; [exact EF|exact He'].
Qed.

End Complex.

(** * The group condition is part of [factor_ok] *)
Lemma factors_grouped s q :
  onehot fb s q ->
  forallb (fun p => factor_ok (code_sem fb) q (fst p) (snd p)) (index_list (s_factors (code_sem fb))) = true ->
  grouped fb q.
Proof.
  intros Ho H f t Ha Ht. pose proof Ho as (_ & _ & Hc & _).
  destruct (is_complex fb f) eqn:Hcx; [now apply (complex_grouped fb HF1)|].
  change (s_factors (code_sem fb))
    with (map (fun p => code_factor fb (fst p) (snd p)) (combine (seq 0 (length (fl_design fb))) (fl_design fb))) in H.
  rewrite (forallb_index_map_ds (code_factor fb) (factor_ok (code_sem fb) q) (fl_design fb)) in H.
  pose proof (f1_act_lt fb HF1 f Ha) as Hf.
  destruct (nth_error (fl_design fb) f) as [fd|] eqn:Efd; [|apply nth_error_None in Efd; unfold nf in Hf; lia].
  specialize (H f fd Efd). unfold factor_ok in H. apply andb_true_iff in H. destruct H as [_ H].
  rewrite forallb_forall in H. specialize (H t (proj2 (in_seq _ _ _) (conj (Nat.le_0_l _) Ht))).
  destruct (Hc t f Ht Ha (lappl_simple fb HF1 f t Ha Hcx)) as (l & Hl & El). rewrite El in H.
  rewrite !andb_true_iff in H. destruct H as [[_ H] _]. cbn [f_sustain code_factor] in H.
  destruct (get_cell q f (t / sustain_of fb f * sustain_of fb f)) as [l'|]; [|discriminate].
  cbn [cell_eqb] in H. apply Nat.eqb_eq in H. now subst.
Qed.

(** * The theorem *)
Theorem factors_sem s q :
  onehot fb s q -> grouped fb q ->
  ((forall d deps f, In (FDerivation d deps f) (fl_constraints fb) -> Pderiv_any fb d deps f s) <->
   forallb (fun p => factor_ok (code_sem fb) q (fst p) (snd p)) (index_list (s_factors (code_sem fb))) = true).
Proof.
  intros Ho Hg. pose proof Ho as (Hq & Hr & Hc & Hb & Himp & Hnone). pose proof (onehot_shape s q Ho) as Hsh.
  change (s_factors (code_sem fb))
    with (map (fun p => code_factor fb (fst p) (snd p)) (combine (seq 0 (length (fl_design fb))) (fl_design fb))).
  rewrite (forallb_index_map_ds (code_factor fb) (factor_ok (code_sem fb) q) (fl_design fb)).
  split.
  - intros H f fd Efd. pose proof (design_lt f fd Efd) as Hf. pose proof (nlevels_design f fd Efd) as Hnl.
    destruct (isact fb f) eqn:Hact; [destruct (ff_complex fd) eqn:Hcx|].
    + (* a factor of act_design with a complex window *)
      destruct (complex_facts fb HF1 f fd Efd Hact Hcx) as (w & Ew & _).
      assert (Hcf : is_complex fb f = true) by (rewrite (is_complex_at fb f fd Efd); exact Hcx).
      apply (factor_ok_impl q f fd w Efd Ew (f1_sustain_cx fb HF1 f Hact Hcf) (Hr f Hf)). intros t Ht.
      rewrite (applies_lappl fb HF1 HT f fd t Efd). destruct (lappl fb f t) eqn:Hap.
      * destruct (Hc t f Ht Hact Hap) as (l0 & Hl0 & El0). rewrite El0. split; [reflexivity|]. split; [exact Hl0|].
        destruct (deriv_exists_c f fd w Efd Ew Hact Hcx l0 Hl0) as (lv & d & deps & Elv & Hin & EF & Hent).
        specialize (H _ _ _ Hin). unfold Pderiv_any in H. rewrite Hcf in H. unfold Pderivc in H. rewrite EF in H.
        pose proof (proj1 (pderivc_char f fd w Efd Ew Hact Hcx s q l0 lv Ho Hl0 Hent) H t Ht Hap) as H'.
        rewrite accepts_level, Elv, <- H', El0. unfold is_level. cbn [cell_eqb]. apply Nat.eqb_refl.
      * now rewrite (Hnone t f Ht Hact Hap).
    + (* a grid factor *)
      assert (Hs : sact fb f = true) by (apply (sact_split fb); split; [exact Hact|now rewrite (is_complex_at fb f fd Efd)]).
      assert (Hcf : is_complex fb f = false) by (rewrite (is_complex_at fb f fd Efd); exact Hcx).
      apply (factor_ok_f1 s q f fd Ho Hg Efd Hs). intros w Ew t l0 Ht El0.
      destruct (shape_cell q t f Hsh Ht Hs) as (l1 & Hl1 & El1). rewrite El0 in El1. inversion El1. subst l1.
      destruct (f1_tables_facts f fd w Efd Ew Hs) as [Hlt Hent].
      destruct (deriv_exists f fd w l0 Efd Ew Hs ltac:(lia)) as (lv & Elv & Hin).
      specialize (H _ _ _ Hin). unfold Pderiv_any in H. rewrite Hcf in H.
      assert (He : forall entry, In entry (lv_accepts lv) -> entry_ok fb (win_deps w) entry = true).
      { intros entry Hentry. apply (Hent lv entry); [eapply nth_error_In; exact Elv|exact Hentry]. }
      pose proof (proj1 (pderiv_char s q f l0 (win_deps w) (lv_accepts lv) Ho Hs Hl1 Hlt He) H) as H'.
      rewrite accepts_level, Elv, <- (H' t Ht), El0. unfold is_level. cbn [cell_eqb]. apply Nat.eqb_refl.
    + (* an implied factor *)
      destruct (implied_facts fb HF1 HT f Hf Hact) as (fd' & w & Efd' & Ew & Hdeps & W1 & W2 & Htot).
      assert (fd' = fd) by congruence. subst fd'.
      pose proof (impl_sustain fb HF1 HT f Hf Hact) as Hsu.
      apply (factor_ok_impl q f fd w Efd Ew Hsu (Hr f Hf)). intros t Ht.
      rewrite (Himp t f Ht Hf Hact), <- (onehot_impl_cell s q f t Ho Hf Hact Ht).
      pose proof (pcons_cell_impl fb HF1 HT s (onehot_pcons fb s q Ho) f t Ht Hf Hact) as P.
      rewrite <- (onehot_impl_cell s q f t Ho Hf Hact Ht) in P.
      unfold appl, impl_cell, factor_at in P |- *. rewrite Efd, Ew in P |- *.
      destruct (applies (code_factor fb f fd) t) eqn:Hap; [|reflexivity].
      destruct (find (fun l => accepts (dwin fd w) l (window_args q (code_factor fb f fd) (dwin fd w) t)) (seq 0 (nlevels fb f)))
        as [l|] eqn:El.
      * destruct (find_in_range fb HF1 HT _ _ _ El) as [A B]. now split.
      * exfalso. destruct P as (l & _ & Q). discriminate.
  - intros H d deps f Hin. unfold Pderiv_any. destruct (is_complex fb f) eqn:Hcf.
    + destruct (derivc_formulas_eq fb HF1 HT d deps f Hin Hcf) as (fd & w & l & lv & Efd & Ew & Elv & Hf & Hcx & Hl & _ & _ & Hent & _ & EF).
      unfold Pderivc. rewrite EF. apply (pderivc_char f fd w Efd Ew Hf Hcx s q l lv Ho Hl Hent).
      intros n Hn Hap. destruct (Hc n f Hn Hf Hap) as (l0 & Hl0 & El0). rewrite El0.
      pose proof (proj1 (factor_ok_impl q f fd w Efd Ew (f1_sustain_cx fb HF1 f Hf Hcf) (Hr f (design_lt f fd Efd))) (H f fd Efd) n Hn) as Hok.
      rewrite El0 in Hok. destruct Hok as (_ & _ & Hacc).
      unfold is_level. cbn [cell_eqb]. destruct (l0 =? l) eqn:E.
      * apply Nat.eqb_eq in E. subst l0. rewrite accepts_level, Elv in Hacc. now symmetry.
      * symmetry. apply not_true_is_false. intros Hex.
        assert (Hacc' : accepts (dwin fd w) l (window_args q (code_factor fb f fd) (dwin fd w) n) = true)
          by (rewrite accepts_level, Elv; exact Hex).
        pose proof (accepts_unique_c f fd w Efd Ew Hf Hcx q n l l0 Hsh Hn Hap Hl Hl0 Hacc' Hacc) as El. subst l0.
        rewrite Nat.eqb_refl in E. discriminate.
    + destruct (deriv_shape fb HF1 HT d deps f Hin Hcf) as (fd & w & l & lv & Efd & Ew & Elv & Hf & Hl & -> & -> & Hlt & Hent).
      assert (Hs : sact fb f = true) by (apply (sact_split fb); now split).
      apply (pderiv_char s q f l (win_deps w) (lv_accepts lv) Ho Hs Hl).
      * exact Hlt.
      * intros entry Hentry. exact (proj1 (Forall_forall _ _) Hent entry Hentry).
      * intros t Ht. destruct (shape_cell q t f Hsh Ht Hs) as (l0 & Hl0 & El0). rewrite El0.
        pose proof (proj1 (factor_ok_f1 s q f fd Ho Hg Efd Hs) (H f fd Efd) w Ew t l0 Ht El0) as Hacc.
        unfold is_level. cbn [cell_eqb]. destruct (l0 =? l) eqn:E.
        -- apply Nat.eqb_eq in E. subst l0. rewrite accepts_level, Elv in Hacc. now symmetry.
        -- symmetry. apply not_true_is_false. intros Hex.
           assert (Hacc' : accepts (dwin fd w) l (cargs q (win_deps w) t) = true)
             by (rewrite accepts_level, Elv; exact Hex).
           pose proof (accepts_unique s q f fd w t l l0 Ho Efd Ew Hs Ht Hacc' Hacc) as El. subst l0.
           rewrite Nat.eqb_refl in E. discriminate.
Qed.

End F1DerivSem.

Check factors_sem.
Print Assumptions factors_sem.
