(** No trial of a grid that satisfies the Exclude constraints and the
    derivations shows a combination the crossing leaves out
    ([is_excluded_or_inconsistent_combination]): an excluded (factor, level)
    never occurs, and a derived level whose predicate accepts no argument tuple
    compatible with the combination cannot be the value of its factor in a trial
    showing the combination.  This is what makes the chunked counts of [Cross]
    (over the admitted combinations only) agree with the reference semantics,
    which requires every crossing trial to show an admitted combination. *)
From Coq Require Import ZArith List Bool Arith Lia.
From SP Require Import Base.Sat.
From SP Require Import Design.Flat Design.Layout Design.Sem.
From SP Require Import Encode.Compile Encode.CodeSem Encode.Runs Encode.GridLemmas Encode.LayoutF1
     Encode.F1Kinds Encode.F1Cross Encode.F1Sem Encode.F1CrossSem Encode.F1DerivSem.
Import ListNotations.
Close Scope Z_scope.
Open Scope nat_scope.

Lemma in_product_gen {A B} (g : A -> B) (L : A -> list B) : forall deps,
  (forall d, In d deps -> In (g d) (L d)) -> In (map g deps) (product (map L deps)).
Proof.
  induction deps as [|d deps IH]; intros H; [now left|].
  cbn [map product]. apply in_flat_map. exists (g d). split; [apply H; now left|].
  apply in_map. apply IH. intros e He. apply H. now right.
Qed.

Section F1Excl.
Variable fb : flat.
Hypothesis HF1 : in_f1 fb = true.
Hypothesis HT : 0 < T fb.

Notation Facts := (in_f1_facts fb HF1).

Lemma lookup_in di f l : lookup_level di f = Some l -> In (f, l) di.
Proof.
  unfold lookup_level. destruct (find (fun p => fst p =? f) di) as [[f' l']|] eqn:E; [|discriminate].
  cbn [option_map snd]. intros Q. inversion Q. subst l'. apply find_some in E. destruct E as [Hin Hf].
  cbn [fst] in Hf. apply Nat.eqb_eq in Hf. now subst f'.
Qed.

(** what a trial showing [di] says about the cells *)
Lemma shown_cell s q c di t f l :
  onehot fb s q -> Forall (fun g => isact fb g = true) c -> Forall (fun g => lappl fb g t = true) c ->
  In di (crossing_combos fb c) -> t < T fb ->
  cbit fb s di t = true -> In (f, l) di ->
  isact fb f = true /\ l < nlevels fb f /\ get_cell q f t = Some l /\ lappl fb f t = true.
Proof.
  intros Ho Hc Hac Hdi Ht Hsh Hin. destruct (combos_spec fb HF1 HT c di Hdi) as [A B].
  assert (Hfc : In f c) by (rewrite <- A; now apply (in_map fst di (f, l))).
  assert (Hf : isact fb f = true) by exact (proj1 (Forall_forall _ _) Hc f Hfc).
  assert (Hap : lappl fb f t = true) by exact (proj1 (Forall_forall _ _) Hac f Hfc).
  pose proof (proj1 (Forall_forall _ _) B (f, l) Hin) as Hl. cbn [fst snd] in Hl.
  split; [exact Hf|]. split; [exact Hl|]. split; [|exact Hap].
  unfold cbit in Hsh. rewrite forallb_forall in Hsh. specialize (Hsh (f, l) Hin). cbn [fst snd] in Hsh.
  destruct Ho as (_ & _ & Hcell & Hbit & _). rewrite (Hbit t f l Ht Hf Hap Hl) in Hsh.
  destruct (Hcell t f Ht Hf Hap) as (l0 & _ & El0). rewrite El0 in *. rewrite is_level_some in Hsh.
  apply Nat.eqb_eq in Hsh. now subst.
Qed.

Theorem no_excluded_shown s q :
  onehot fb s q ->
  (forall p, In p (fl_exclude fb) -> Pexclude fb (fst p) (snd p) s) ->
  forallb (fun p => factor_ok (code_sem fb) q (fst p) (snd p)) (index_list (s_factors (code_sem fb))) = true ->
  NoExcl fb s.
Proof.
  intros Ho Hex Hfo c di t Hc Hac Hdi Ht Hsh.
  pose proof (factors_grouped fb HF1 HT s q Ho Hfo) as Hg.
  cbn [code_sem s_factors] in Hfo.
  rewrite (forallb_index_map_ds (fun f fd => code_factor fb f fd) (fun f d => factor_ok (code_sem fb) q f d) (fl_design fb)) in Hfo.
  unfold is_excluded_or_inconsistent, is_excluded_combination.
  apply orb_false_iff. split; [apply orb_false_iff; split|].
  - (* an excluded (factor, level) pair *)
    apply not_true_is_false. intros H. apply existsb_exists in H. destruct H as ([f l] & Hp & Hl).
    unfold level_is in Hl. cbn [fst snd] in Hl.
    destruct (lookup_level di f) as [l'|] eqn:El; [|discriminate]. apply Nat.eqb_eq in Hl. subst l'.
    destruct (shown_cell s q c di t f l Ho Hc Hac Hdi Ht Hsh (lookup_in di f l El)) as (Hf & Hlv & Ecell & Hap).
    specialize (Hex (f, l) Hp). cbn [fst snd] in Hex. unfold Pexclude in Hex.
    apply ntrue_all_false in Hex. unfold F1Kinds.col in Hex.
    rewrite Forall_map in Hex.
    pose proof (proj1 (Forall_forall _ _) Hex t (proj2 (in_trials_of fb f 0 (T fb) t) (conj (conj (Nat.le_0_l _) Ht) Hap))) as Hb.
    cbv beta in Hb. destruct Ho as (_ & _ & _ & Hbit & _). rewrite (Hbit t f l Ht Hf Hap Hlv), Ecell, is_level_some, Nat.eqb_refl in Hb.
    discriminate.
  - (* a combination of basic levels that makes an excluded derived level true *)
    apply not_true_is_false. intros H. apply existsb_exists in H. destruct H as (e & He & Hall).
    rewrite forallb_forall in Hall.
    destruct (f1_no_excluded_derived fb Facts e He) as ([f0 ld] & Hp & Hed).
    unfold excluded_derived_of in Hed. cbn [fst snd] in Hed. unfold factor_at in Hed.
    destruct (nth_error (fl_design fb) f0) as [fd|] eqn:Efd; [|discriminate].
    destruct (ff_window fd) as [w|] eqn:Ew; [|discriminate].
    rewrite !andb_true_iff in Hed. destruct Hed as [[[Ha0 Hcx] Hdeps] Hacc]. apply negb_true_iff in Hcx.
    rewrite forallb_forall in Hdeps.
    assert (Hs0 : sact fb f0 = true).
    { apply (sact_split fb). split; [exact Ha0|]. unfold is_complex, factor_at. now rewrite Efd. }
    (* the cells of the factors it reads are the levels of [e] *)
    assert (Hargs : map (lev q t) (win_deps w) = map (fun d => match lookup_level e d with Some x => x | None => 0 end) (win_deps w)).
    { apply map_ext_in. intros d Hd. specialize (Hdeps d Hd).
      destruct (lookup_level e d) as [x|] eqn:Ee; [|discriminate].
      pose proof (Hall (d, x) (lookup_in e d x Ee)) as Hli. unfold level_is in Hli. cbn [fst snd] in Hli.
      destruct (lookup_level di d) as [x'|] eqn:Ed; [|discriminate]. apply Nat.eqb_eq in Hli. subst x'.
      destruct (shown_cell s q c di t d x Ho Hc Hac Hdi Ht Hsh (lookup_in di d x Ed)) as (_ & _ & Ec & _).
      unfold lev. now rewrite Ec. }
    destruct (sact_lappl fb HF1 f0 t Hs0) as [_ Hap0].
    pose proof Ho as (_ & _ & Hcell & Hbit & _).
    destruct (Hcell t f0 Ht Ha0 Hap0) as (l0 & Hl0 & El0).
    pose proof (proj1 (factor_ok_f1 fb HF1 HT s q f0 fd Ho Hg Efd Hs0) (Hfo f0 fd Efd) w Ew t l0 Ht El0) as Hacc0.
    assert (Hacc1 : accepts (dwin fd w) ld (cargs q (win_deps w) t) = true).
    { rewrite (accepts_level_accepts fb HF1 s q f0 fd w t ld Ho Efd Ew Hs0 Ht), Hargs. exact Hacc. }
    pose proof (accepts_unique fb HF1 HT s q f0 fd w t ld l0 Ho Efd Ew Hs0 Ht Hacc1 Hacc0) as E. subst l0.
    assert (Hlv : ld < nlevels fb f0) by exact Hl0.
    specialize (Hex (f0, ld) Hp). cbn [fst snd] in Hex. unfold Pexclude in Hex.
    apply ntrue_all_false in Hex. unfold F1Kinds.col in Hex. rewrite Forall_map in Hex.
    pose proof (proj1 (Forall_forall _ _) Hex t (proj2 (in_trials_of fb f0 0 (T fb) t) (conj (conj (Nat.le_0_l _) Ht) Hap0))) as Hb.
    cbv beta in Hb. rewrite (Hbit t f0 ld Ht Ha0 Hap0 Hlv), El0, is_level_some, Nat.eqb_refl in Hb. discriminate.
  - (* a derived level no compatible argument tuple satisfies *)
    apply not_true_is_false. intros H. apply existsb_exists in H. destruct H as ([f l] & Hp & Hbad). cbn [fst snd] in Hbad.
    unfold factor_at in Hbad. destruct (nth_error (fl_design fb) f) as [fd|] eqn:Efd; [|discriminate].
    destruct (ff_window fd) as [w|] eqn:Ew; [|discriminate].
    destruct (ff_complex fd) eqn:Hcx; [discriminate|]. apply negb_true_iff in Hbad.
    destruct (shown_cell s q c di t f l Ho Hc Hac Hdi Ht Hsh Hp) as (Hf0 & Hlv & Ecell & _).
    assert (Hf : sact fb f = true).
    { apply (sact_split fb). split; [exact Hf0|]. unfold is_complex, factor_at. now rewrite Efd. }
    pose proof (proj1 (factor_ok_f1 fb HF1 HT s q f fd Ho Hg Efd Hf) (Hfo f fd Efd) w Ew t l Ht Ecell) as Hacc.
    rewrite (accepts_level_accepts fb HF1 s q f fd w t l Ho Efd Ew Hf Ht) in Hacc.
    assert (Hin : In (map (lev q t) (win_deps w))
                     (product (map (fun d => match lookup_level di d with Some x => [x] | None => seq 0 (nlevels fb d) end)
                                   (win_deps w)))).
    { apply in_product_gen. intros d Hd. destruct (lookup_level di d) as [x|] eqn:Ed.
      - destruct (shown_cell s q c di t d x Ho Hc Hac Hdi Ht Hsh (lookup_in di d x Ed)) as (_ & _ & Ec & _).
        unfold lev. rewrite Ec. now left.
      - destruct (f1_tables_facts fb HF1 f fd w Efd Ew Hf) as [Hdeps _].
        pose proof (proj1 (Forall_forall _ _) Hdeps d Hd) as Hdn. cbv beta in Hdn.
        destruct (sact_lappl fb HF1 d t Hdn) as [Hda Hdl].
        destruct Ho as (_ & _ & Hcell & _). destruct (Hcell t d Ht Hda Hdl) as (x & Hx & Ex).
        unfold lev. rewrite Ex. apply in_seq. lia. }
    assert (Hex' : existsb (level_accepts fd l)
                     (product (map (fun d => match lookup_level di d with Some x => [x] | None => seq 0 (nlevels fb d) end)
                                   (win_deps w))) = true).
    { apply existsb_exists. eexists. split; [exact Hin|exact Hacc]. }
    congruence.
Qed.

End F1Excl.
