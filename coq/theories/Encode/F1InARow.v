(** AtLeastKInARow and ExactlyKInARow inside the fragment F1: (a) their
    contribution is a Tseitin block (ExactlyKInARow: one block per window, each
    on the accumulated implications) asserting the emitted implications, whose
    leaves are grid variables; (b) by Encode/InARow.v those implications hold
    iff every maximal run of the level in every window has length >= k / = k,
    which on a one-hot grid is [Sem.constraint_ok] for [KAtLeast] /
    [KExactlyInARow]. *)
From Coq Require Import ZArith List Bool Arith Lia.
From SP Require Import Base.Sat Base.Bits.
From SP Require Import Logic.Formula.
From SP Require Import Design.Flat Design.Layout Design.Sem.
From SP Require Import Encode.Compile Encode.CodeSem Encode.Generic Encode.Blocks Encode.Runs
     Encode.GridLemmas Encode.LayoutF1 Encode.F1Kinds Encode.F1Sem Encode.InARow Encode.InARowLeaves.
Import ListNotations.
Close Scope Z_scope.
Open Scope nat_scope.

Lemma leaves_and_app l1 l2 : leaves (FAnd (l1 ++ l2)) = leaves (FAnd l1) ++ leaves (FAnd l2).
Proof. cbn [leaves]. apply flat_map_app. Qed.

Lemma leaves_and_flat_map {A} (g : A -> list fm) (l : list A) z :
  In z (leaves (FAnd (flat_map g l))) -> exists x, In x l /\ In z (leaves (FAnd (g x))).
Proof.
  induction l as [|x l IH]; cbn [flat_map]; [intros []|].
  rewrite leaves_and_app, in_app_iff. intros [H|H].
  - exists x. split; [now left|exact H].
  - destruct (IH H) as (y & Hy & Hz). exists y. split; [now right|exact Hz].
Qed.

(** the loop of ExactlyKInARow: one Tseitin block per window *)
Lemma ekr_loop_block k : forall vls impls fresh cls fresh',
  (1 <= fresh)%Z ->
  (forall z, In z (leaves (FAnd (impls ++ ekr_all k vls))) -> z <> 0%Z /\ (Z.abs z < fresh)%Z) ->
  ekr_loop k vls impls fresh = (cls, fresh') ->
  exists ext, DefinesA (fresh - 1) (fresh' - 1) cls [] ext
                       (fun s => (vls <> [] -> eval s (FAnd impls) = true) /\ eval s (FAnd (ekr_all k vls)) = true).
Proof.
  induction vls as [|vl r IH]; intros impls fresh cls fresh' Hf HL E.
  - cbn [ekr_loop] in E. inversion E. subst. exists (fun s => s).
    eapply definesA_conseq; [apply definesA_nil; lia|]. intros s. split; [|tauto].
    intros _. split; [intros H; now contradiction H|reflexivity].
  - rewrite ekr_loop_cons in E. cbv zeta in E.
    destruct (cnf_fn (impls ++ ekr_window k vl) fresh) as [cls1 fresh1] eqn:E1.
    destruct (ekr_loop k r (impls ++ ekr_window k vl) fresh1) as [cls2 fresh2] eqn:E2.
    inversion E. subst cls fresh'. clear E.
    assert (HL1 : forall z, In z (leaves (FAnd (impls ++ ekr_window k vl))) -> z <> 0%Z /\ (Z.abs z < fresh)%Z).
    { intros z Hz. apply HL. unfold ekr_all. cbn [flat_map]. rewrite app_assoc, leaves_and_app, in_app_iff. now left. }
    destruct (definesA_tseitin _ fresh cls1 fresh1 Hf HL1 E1) as (e1 & D1).
    pose proof (da_range _ _ _ _ _ _ D1) as R1.
    destruct (IH (impls ++ ekr_window k vl) fresh1 cls2 fresh2 ltac:(lia)) as (e2 & D2); [|exact E2|].
    { intros z Hz. assert (Hz' : z <> 0%Z /\ (Z.abs z < fresh)%Z); [|lia].
      apply HL. unfold ekr_all. cbn [flat_map]. now rewrite app_assoc. }
    exists (fun s => e2 (e1 s)).
    pose proof (definesA_seq _ _ _ _ _ _ _ _ _ _ _ D1 D2) as D. cbn [app] in D.
    eapply definesA_conseq; [exact D|]. intros s. unfold ekr_all. cbn [flat_map].
    rewrite !eval_and_app, !andb_true_iff. split.
    + intros [[A B] [_ C]]. split; [intros _; exact A|]. now split.
    + intros [A [B C]]. assert (A' := A ltac:(discriminate)). split; [now split|]. split; [intros _; now split|exact C].
Qed.

Section F1InARow.
Variable fb : flat.
Hypothesis HF1 : in_f1 fb = true.
Hypothesis HT : 0 < T fb.

Notation GZ := (GZ fb).
Notation col := (col fb).

Definition Patleast (k f l : nat) (wb : option geometry) (s : asg) : Prop :=
  Forall (fun r => Forall (fun n => k <= n) (bruns (col s f l (fst r) (snd r)))) (windows_of fb wb).

Definition Pexactrow (k f l : nat) (wb : option geometry) (s : asg) : Prop :=
  Forall (fun r => Forall (fun n => n = k) (bruns (col s f l (fst r) (snd r)))) (windows_of fb wb).

Definition vls_of (f l : nat) (rs : list (nat * nat)) : list (list nat) :=
  map (fun r => map (fun t => gvar fb t f l) (trials_of fb f (fst r) (snd r))) rs.

Lemma vls_pos f l rs : Forall (Forall (fun v => 0 < v)) (vls_of f l rs).
Proof.
  apply Forall_map. apply Forall_forall. intros r _. apply Forall_map. apply Forall_forall. intros t _.
  apply gvar_pos.
Qed.

Lemma vls_bound f l rs fresh v vl :
  isact fb f = true -> l < nlevels fb f -> Forall (fun r => fst r < T fb /\ snd r <= T fb) rs -> (GZ < fresh)%Z ->
  In vl (vls_of f l rs) -> In v vl -> (Z.of_nat v <> 0 /\ Z.abs (Z.of_nat v) < fresh)%Z.
Proof.
  intros Hf Hl Hb Hfr Hvl Hv. apply in_map_iff in Hvl. destruct Hvl as (r & <- & Hr).
  pose proof (proj1 (Forall_forall _ _) Hb r Hr) as [_ Hr2].
  pose proof (proj1 (Forall_forall _ _) (range_vars_ok fb HF1 HT f l r fresh Hf Hl Hr2 Hfr) v Hv) as [A B].
  unfold zn in B. lia.
Qed.

Lemma guard_inarow k f l wb :
  ((0 <? k) && isact fb f && (l <? nlevels fb f) && geom_ok fb wb && stride1 fb f)%bool = true ->
  0 < k /\ isact fb f = true /\ l < nlevels fb f /\ stride1 fb f = true /\ exists rs, map_block_trial_ranges fb wb = Some rs.
Proof.
  rewrite !andb_true_iff. intros [[[[A B] C] D] E]. apply Nat.ltb_lt in A, C.
  repeat split; try assumption. now apply geom_ok_some.
Qed.

Lemma runs_cols s f l rs (P : nat -> Prop) :
  Forall (fun vl => Forall P (bruns (map (fun v => s (zn v)) vl))) (vls_of f l rs) <->
  Forall (fun r => Forall P (bruns (col s f l (fst r) (snd r)))) rs.
Proof. unfold vls_of. rewrite Forall_map. apply Forall_iff_ext. intros r _. now rewrite col_vars. Qed.

(** * AtLeastKInARow *)
Lemma step_atleast k f l wb :
  constraint_f1 fb (FAtLeast k f l wb) = true ->
  forall fresh ct, (GZ < fresh)%Z -> apply_constraint fb (FAtLeast k f l wb) fresh = COk ct ->
  exists ext, DefinesA (fresh - 1) (ct_fresh ct - 1) (ct_clauses ct) (ct_requests ct) ext (Patleast k f l wb).
Proof.
  intros Hc fresh ct Hfr E. cbn [constraint_f1] in Hc. destruct (guard_inarow k f l wb Hc) as (Hk & Hf & Hl & Hst & rs & Ers).
  pose proof (f1_ranges_bound fb wb rs Ers) as Hb.
  assert (HGZ : (0 <= GZ)%Z) by (unfold F1Kinds.GZ, zn; lia).
  cbn [apply_constraint] in E. unfold apply_atleast in E.
  rewrite (f1_var_lists fb HF1 f l wb rs HT Hf Hl Ers) in E. cbn [cbind] in E. fold (vls_of f l rs) in E.
  destruct (cnf_fn _ fresh) as [cls fresh'] eqn:Ecnf. inversion E. subst ct. clear E.
  cbn [ct_fresh ct_clauses ct_requests].
  assert (HL : forall z, In z (leaves (FAnd (flat_map (fun vl => atleast_impls k vl (windows (k + 1) vl)) (vls_of f l rs)))) ->
                         z <> 0%Z /\ (Z.abs z < fresh)%Z).
  { intros z Hz. apply leaves_and_flat_map in Hz. destruct Hz as (vl & Hvl & Hz). rewrite Nat.add_1_r in Hz.
    destruct (atleast_impls_leaves k vl z Hk Hz) as (v & Hv & ->).
    exact (vls_bound f l rs fresh v vl Hf Hl Hb Hfr Hvl Hv). }
  destruct (definesA_tseitin _ fresh cls fresh' ltac:(lia) HL Ecnf) as (ext & D).
  exists ext. eapply definesA_conseq; [exact D|]. intros s. cbv beta.
  rewrite (atleast_formula_spec k _ s Hk (vls_pos f l rs)), runs_cols. unfold Patleast. now rewrite (ranges_of fb wb rs Ers).
Qed.

Lemma atleast_total k f l wb fresh :
  constraint_f1 fb (FAtLeast k f l wb) = true -> exists ct, apply_constraint fb (FAtLeast k f l wb) fresh = COk ct.
Proof.
  intros Hc. cbn [constraint_f1] in Hc. destruct (guard_inarow k f l wb Hc) as (Hk & Hf & Hl & Hst & rs & Ers).
  cbn [apply_constraint]. unfold apply_atleast. rewrite (f1_var_lists fb HF1 f l wb rs HT Hf Hl Ers). cbn [cbind].
  destruct (cnf_fn _ _). eexists. reflexivity.
Qed.

(** * ExactlyKInARow *)
Lemma step_exactrow k f l wb :
  constraint_f1 fb (FExactlyKInARow k f l wb) = true ->
  forall fresh ct, (GZ < fresh)%Z -> apply_constraint fb (FExactlyKInARow k f l wb) fresh = COk ct ->
  exists ext, DefinesA (fresh - 1) (ct_fresh ct - 1) (ct_clauses ct) (ct_requests ct) ext (Pexactrow k f l wb).
Proof.
  intros Hc fresh ct Hfr E. cbn [constraint_f1] in Hc. destruct (guard_inarow k f l wb Hc) as (Hk & Hf & Hl & Hst & rs & Ers).
  pose proof (f1_ranges_bound fb wb rs Ers) as Hb.
  assert (HGZ : (0 <= GZ)%Z) by (unfold F1Kinds.GZ, zn; lia).
  cbn [apply_constraint] in E. unfold apply_exactlykinarow in E.
  rewrite (f1_var_lists fb HF1 f l wb rs HT Hf Hl Ers) in E. cbn [cbind] in E. fold (vls_of f l rs) in E.
  destruct (ekr_loop k (vls_of f l rs) [] fresh) as [cls fresh'] eqn:Eloop. inversion E. subst ct. clear E.
  cbn [ct_fresh ct_clauses ct_requests].
  assert (HL : forall z, In z (leaves (FAnd ([] ++ ekr_all k (vls_of f l rs)))) -> z <> 0%Z /\ (Z.abs z < fresh)%Z).
  { cbn [app]. intros z Hz. unfold ekr_all in Hz. apply leaves_and_flat_map in Hz. destruct Hz as (vl & Hvl & Hz).
    destruct (ekr_window_leaves k vl z Hk Hz) as (v & Hv & ->).
    exact (vls_bound f l rs fresh v vl Hf Hl Hb Hfr Hvl Hv). }
  destruct (ekr_loop_block k (vls_of f l rs) [] fresh cls fresh' ltac:(lia) HL Eloop) as (ext & D).
  exists ext. eapply definesA_conseq; [exact D|]. intros s. cbv beta.
  rewrite (ekr_formula_spec k _ s Hk (vls_pos f l rs)), runs_cols. unfold Pexactrow. rewrite (ranges_of fb wb rs Ers).
  split; [tauto|]. intros H. split; [intros _; apply eval_and_nil|exact H].
Qed.

Lemma exactrow_total k f l wb fresh :
  constraint_f1 fb (FExactlyKInARow k f l wb) = true -> exists ct, apply_constraint fb (FExactlyKInARow k f l wb) fresh = COk ct.
Proof.
  intros Hc. cbn [constraint_f1] in Hc. destruct (guard_inarow k f l wb Hc) as (Hk & Hf & Hl & Hst & rs & Ers).
  cbn [apply_constraint]. unfold apply_exactlykinarow. rewrite (f1_var_lists fb HF1 f l wb rs HT Hf Hl Ers). cbn [cbind].
  destruct (ekr_loop _ _ _ _). eexists. reflexivity.
Qed.

(** * (b) halves *)
Theorem atleast_sem s q k f l wb :
  onehot fb s q -> constraint_f1 fb (FAtLeast k f l wb) = true ->
  (Patleast k f l wb s <-> constraint_ok (code_sem fb) q (mk_c (KAtLeast k) f l (windows_of fb wb)) = true).
Proof.
  intros Ho Hc. cbn [constraint_f1] in Hc. destruct (guard_inarow k f l wb Hc) as (Hk & Hf & Hl & Hst & rs & Ers).
  pose proof (f1_ranges_bound fb wb rs Ers) as Hb.
  unfold Patleast, constraint_ok, mk_c. cbn [k_kind k_factor k_level k_windows]. rewrite (ranges_of fb wb rs Ers).
  rewrite forallb_forall, Forall_forall. split; intros H r Hr; specialize (H r Hr);
    pose proof (proj1 (Forall_forall _ _) Hb r Hr) as [_ Hr2].
  - rewrite forallb_forall. intros n Hn. apply Nat.leb_le.
    rewrite runs_bruns, (col_bruns fb HF1 HT s q f l (fst r) (snd r) Ho Hf Hst Hl Hr2) in Hn.
    exact (proj1 (Forall_forall _ _) H n Hn).
  - rewrite <- (col_bruns fb HF1 HT s q f l (fst r) (snd r) Ho Hf Hst Hl Hr2), <- runs_bruns.
    apply Forall_forall. intros n Hn. rewrite forallb_forall in H. apply Nat.leb_le. now apply H.
Qed.

Theorem exactrow_sem s q k f l wb :
  onehot fb s q -> constraint_f1 fb (FExactlyKInARow k f l wb) = true ->
  (Pexactrow k f l wb s <-> constraint_ok (code_sem fb) q (mk_c (KExactlyInARow k) f l (windows_of fb wb)) = true).
Proof.
  intros Ho Hc. cbn [constraint_f1] in Hc. destruct (guard_inarow k f l wb Hc) as (Hk & Hf & Hl & Hst & rs & Ers).
  pose proof (f1_ranges_bound fb wb rs Ers) as Hb.
  unfold Pexactrow, constraint_ok, mk_c. cbn [k_kind k_factor k_level k_windows]. rewrite (ranges_of fb wb rs Ers).
  rewrite forallb_forall, Forall_forall. split; intros H r Hr; specialize (H r Hr);
    pose proof (proj1 (Forall_forall _ _) Hb r Hr) as [_ Hr2].
  - rewrite forallb_forall. intros n Hn. apply Nat.eqb_eq.
    rewrite runs_bruns, (col_bruns fb HF1 HT s q f l (fst r) (snd r) Ho Hf Hst Hl Hr2) in Hn.
    exact (proj1 (Forall_forall _ _) H n Hn).
  - rewrite <- (col_bruns fb HF1 HT s q f l (fst r) (snd r) Ho Hf Hst Hl Hr2), <- runs_bruns.
    apply Forall_forall. intros n Hn. rewrite forallb_forall in H. apply Nat.eqb_eq. now apply H.
Qed.

End F1InARow.
