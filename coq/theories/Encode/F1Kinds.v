(** Per-kind (a) halves in the fragment F1: what each constraint's contribution
    to the backend request says about the boolean grid
    [bit s t f l] = value of the variable of (trial t, factor f, level l). *)
From Coq Require Import ZArith List Bool Arith Lia.
From SP Require Import Base.Sat Base.Bits Core.Card Core.CardProofs.
From SP Require Import Logic.Formula Logic.Tseitin Logic.TseitinProofs.
From SP Require Import Design.Flat Design.Layout Design.Sem.
From SP Require Import Encode.Compile Encode.CodeSem Encode.Generic Encode.Blocks Encode.Runs
     Encode.GridLemmas Encode.CrossChunks Encode.LayoutF1.
Import ListNotations.
Close Scope Z_scope.
Open Scope nat_scope.

Section F1Kinds.
Variable fb : flat.
Hypothesis HF1 : in_f1 fb = true.
Hypothesis HT : 0 < T fb.

(** the number of trial variables (grid variables, then those of the complex factors) *)
Definition GZ : Z := zn (VN fb).

Definition bit (s : asg) (t f l : nat) : bool := s (zn (gvar fb t f l)).
(** the column of a level over the trials of [a, b) in which the factor has a level *)
Definition col (s : asg) (f l a b : nat) : list bool := map (fun t => bit s t f l) (trials_of fb f a b).

(** * Predicates on the grid, one per kind *)
Definition Pcons (s : asg) : Prop :=
  forall t f, t < T fb -> isact fb f = true -> lappl fb f t = true ->
    ntrue (map (bit s t f) (seq 0 (nlevels fb f))) = 1.

Definition Patmost (k f l : nat) (wb : option geometry) (s : asg) : Prop :=
  Forall (fun r => forall w, In w (windows (S k) (col s f l (fst r) (snd r))) -> ntrue w < S k) (windows_of fb wb).

Definition Pexactlyk (k f l : nat) (wb : option geometry) (s : asg) : Prop :=
  Forall (fun r => ntrue (col s f l (fst r) (snd r)) = k) (windows_of fb wb).

Definition Pexclude (f l : nat) (s : asg) : Prop := ntrue (col s f l 0 (T fb)) = 0.

Definition pins (i : Z) (f : nat) (wb : option geometry) : list nat :=
  match get_trial_numbers fb f i wb with Some ps => ps | None => [] end.

(** every pinned trial has the level (in particular the factor has a level there) *)
Definition Ppin (i : Z) (f l : nat) (wb : option geometry) (s : asg) : Prop :=
  pins i f wb <> [] /\ Forall (fun p => lappl fb f p = true /\ bit s p f l = true) (pins i f wb).

(** * Variables of the grid are in 1..G *)
Lemma gvar_le t f l : t < T fb -> isact fb f = true -> l < nlevels fb f -> lappl fb f t = true ->
  (zn (gvar fb t f l) <= GZ)%Z.
Proof. intros A B C D. pose proof (gvar_range fb HF1 t f l A B C D). unfold GZ, zn. lia. Qed.

Lemma range_vars_ok f l (r : nat * nat) fresh :
  isact fb f = true -> l < nlevels fb f -> snd r <= T fb -> (GZ < fresh)%Z ->
  Forall (fun v => 0 < v /\ (zn v <= fresh - 1)%Z) (map (fun t => gvar fb t f l) (trials_of fb f (fst r) (snd r))).
Proof.
  intros A B C D. apply Forall_forall. intros v Hv. apply in_map_iff in Hv. destruct Hv as (t & <- & Ht).
  apply in_trials_of in Ht. destruct Ht as [Ht Ha]. split; [apply gvar_pos|].
  pose proof (gvar_le t f l ltac:(lia) A B Ha). lia.
Qed.

Lemma Forall_sub {A} (P : A -> Prop) (l w : list A) n :
  Forall P l -> In w (windows n l) -> Forall P w.
Proof.
  intros H Hw. apply windows_spec in Hw. destruct Hw as (i & _ & _ & ->).
  apply Forall_firstn, Forall_skipn, H.
Qed.

Lemma ranges_of wb rs : map_block_trial_ranges fb wb = Some rs -> windows_of fb wb = rs.
Proof. unfold windows_of. now intros ->. Qed.

Lemma geom_ok_some wb : geom_ok fb wb = true -> exists rs, map_block_trial_ranges fb wb = Some rs.
Proof. unfold geom_ok. destruct (map_block_trial_ranges fb wb) as [rs|]; [eauto|discriminate]. Qed.

Lemma col_vars s f l a b :
  map (fun v => s (zn v)) (map (fun t => gvar fb t f l) (trials_of fb f a b)) = col s f l a b.
Proof. unfold col, bit. now rewrite map_map. Qed.

(** * AtMostKInARow *)
Lemma step_atmost k f l wb :
  constraint_f1 fb (FAtMost k f l wb) = true ->
  forall fresh ct, (GZ < fresh)%Z -> apply_constraint fb (FAtMost k f l wb) fresh = COk ct ->
  exists ext, DefinesA (fresh - 1) (ct_fresh ct - 1) (ct_clauses ct) (ct_requests ct) ext (Patmost k f l wb).
Proof.
  intros Hc fresh ct Hfr E. cbn [constraint_f1] in Hc. rewrite !andb_true_iff in Hc.
  destruct Hc as [[[Hf Hl] Hg] _]. apply Nat.ltb_lt in Hl. destruct (geom_ok_some wb Hg) as [rs Ers].
  cbn [apply_constraint] in E. unfold apply_atmost, sublistss in E.
  rewrite (f1_var_lists fb HF1 f l wb rs HT Hf Hl Ers) in E. cbn [cbind] in E. inversion E. subst ct. clear E.
  cbn [ct_fresh ct_clauses ct_requests]. exists (fun s => s).
  pose proof (f1_ranges_bound fb wb rs Ers) as Hb.
  assert (HGZ : (0 <= GZ)%Z) by (unfold GZ, zn; lia).
  eapply definesA_conseq.
  - apply definesA_requests; [lia|].
    apply Forall_forall. intros q Hq. apply in_flat_map in Hq. destruct Hq as (ws & Hws & Hq).
    apply in_map_iff in Hws. destruct Hws as (vl & <- & Hvl). apply in_map_iff in Hvl. destruct Hvl as (r & <- & Hr).
    apply in_map_iff in Hq. destruct Hq as (sl & <- & Hsl).
    pose proof (proj1 (Forall_forall _ _) Hb r Hr) as [_ Hr2].
    apply req_ok_zs.
    + apply windows_length in Hsl. destruct sl; [cbn in Hsl; lia|discriminate].
    + eapply Forall_sub; [|exact Hsl]. now apply range_vars_ok.
  - intros s. unfold Patmost. rewrite (ranges_of wb rs Ers). rewrite Forall_flat_map, Forall_map, Forall_map.
    apply Forall_iff_ext. intros r Hr. pose proof (proj1 (Forall_forall _ _) Hb r Hr) as [_ Hr2].
    rewrite Forall_map, Nat.add_1_r, <- col_vars.
    set (vl := map (fun t => gvar fb t f l) (trials_of fb f (fst r) (snd r))).
    rewrite (windows_map nat bool (fun v => s (zn v)) (S k) vl).
    assert (Hpos : forall sl, In sl (windows (S k) vl) -> Forall (fun v => 0 < v) sl).
    { intros sl Hsl. eapply Forall_impl; [|eapply Forall_sub; [|exact Hsl]; apply (range_vars_ok f l r (GZ + 1)); try assumption; lia].
      intros a [Ha _]. exact Ha. }
    split.
    + intros H w Hw. apply in_map_iff in Hw. destruct Hw as (sl & <- & Hsl).
      apply (req_rel_LT s (S k) sl (Hpos sl Hsl)). exact (proj1 (Forall_forall _ _) H sl Hsl).
    + intros H. apply Forall_forall. intros sl Hsl. apply (req_rel_LT s (S k) sl (Hpos sl Hsl)).
      apply H. apply in_map. exact Hsl.
Qed.

(** * ExactlyK *)
(** /repo 4d027cb: an empty variable list contributes And([1, -1]) (k <> 0) or nothing (k = 0) instead of an EQ
    request; when every list is non-empty the contribution is one EQ request per list and no clause *)
Lemma exactlyk_clauses_nonempty (k : nat) (vls : list (list nat)) :
  Forall (fun vl => vl <> []) vls ->
  flat_map (fun vl : list nat => match vl with
                                 | [] => if k =? 0 then [] else [[1%Z]; [(-1)%Z]]
                                 | _ :: _ => []
                                 end) vls = ([] : list (list Z)).
Proof.
  intros H. induction H as [|vl vls Hvl _ IH]; [reflexivity|].
  cbn [flat_map]. rewrite IH. destruct vl; [contradiction|reflexivity].
Qed.

Lemma exactlyk_requests_nonempty (k : nat) (vls : list (list nat)) :
  Forall (fun vl => vl <> []) vls ->
  flat_map (fun vl : list nat => match vl with
                                 | [] => []
                                 | _ :: _ => [(Card.EQ, zn k, zs vl)]
                                 end) vls = map (fun vl => (Card.EQ, zn k, zs vl)) vls.
Proof.
  intros H. induction H as [|vl vls Hvl _ IH]; [reflexivity|].
  cbn [flat_map map]. rewrite IH. destruct vl; [contradiction|reflexivity].
Qed.

(** no request of the contribution has an empty variable list, whatever the lists are *)
Lemma exactlyk_requests_no_empty (k : nat) (vls : list (list nat)) :
  Forall (fun q : req => snd q <> [])
         (flat_map (fun vl : list nat => match vl with
                                         | [] => []
                                         | _ :: _ => [(Card.EQ, zn k, zs vl)]
                                         end) vls).
Proof.
  induction vls as [|vl vls IH]; [constructor|].
  cbn [flat_map]. destruct vl as [|v vl]; [exact IH|].
  cbn [app]. constructor; [cbn; discriminate|exact IH].
Qed.

Lemma step_exactlyk k f l wb :
  constraint_f1 fb (FExactlyK k f l wb) = true ->
  forall fresh ct, (GZ < fresh)%Z -> apply_constraint fb (FExactlyK k f l wb) fresh = COk ct ->
  exists ext, DefinesA (fresh - 1) (ct_fresh ct - 1) (ct_clauses ct) (ct_requests ct) ext (Pexactlyk k f l wb).
Proof.
  intros Hc fresh ct Hfr E. cbn [constraint_f1] in Hc. rewrite !andb_true_iff in Hc.
  destruct Hc as [[[[Hf Hl] Hg] _] Hne]. apply Nat.ltb_lt in Hl. destruct (geom_ok_some wb Hg) as [rs Ers].
  rewrite (ranges_of wb rs Ers) in Hne. rewrite forallb_forall in Hne.
  cbn [apply_constraint] in E. unfold apply_exactlyk in E.
  rewrite (f1_var_lists fb HF1 f l wb rs HT Hf Hl Ers) in E. cbn [cbind] in E.
  assert (Hvne : Forall (fun vl : list nat => vl <> [])
                        (map (fun r => map (fun t => gvar fb t f l) (trials_of fb f (fst r) (snd r))) rs)).
  { rewrite Forall_map. apply Forall_forall. intros r Hr. specialize (Hne r Hr).
    destruct (trials_of fb f (fst r) (snd r)); [discriminate Hne|discriminate]. }
  rewrite (exactlyk_clauses_nonempty k _ Hvne), (exactlyk_requests_nonempty k _ Hvne) in E. clear Hvne.
  inversion E. subst ct. clear E.
  cbn [ct_fresh ct_clauses ct_requests]. exists (fun s => s).
  pose proof (f1_ranges_bound fb wb rs Ers) as Hb.
  assert (HGZ : (0 <= GZ)%Z) by (unfold GZ, zn; lia).
  eapply definesA_conseq.
  - apply definesA_requests; [lia|]. rewrite !Forall_map.
    apply Forall_forall. intros r Hr. pose proof (proj1 (Forall_forall _ _) Hb r Hr) as [_ Hr2].
    apply req_ok_zs; [|now apply range_vars_ok].
    specialize (Hne r Hr). destruct (trials_of fb f (fst r) (snd r)); [discriminate Hne|discriminate].
  - intros s. unfold Pexactlyk. rewrite (ranges_of wb rs Ers), !Forall_map.
    apply Forall_iff_ext. intros r Hr. pose proof (proj1 (Forall_forall _ _) Hb r Hr) as [_ Hr2].
    rewrite <- col_vars. apply req_rel_EQ.
    eapply Forall_impl; [|apply (range_vars_ok f l r (GZ + 1)); try assumption; lia]. intros a [Ha _]. exact Ha.
Qed.

(** * Exclude *)
Lemma sat_neg_units s (vl : list nat) :
  Forall (fun v => 0 < v) vl ->
  (sat s (map (fun v => [(- zn v)%Z]) vl) = true <-> ntrue (map (fun v => s (zn v)) vl) = 0).
Proof.
  intros H. induction H as [|v vl Hv _ IH]; [cbn; tauto|].
  cbn [map sat forallb csat existsb]. rewrite andb_true_iff, orb_false_r, IH, ntrue_cons.
  rewrite lit_true_neg by (unfold zn; lia). destruct (s (zn v)); cbn [negb].
  - split; [intros [H _]; discriminate|lia].
  - split; [intros [_ H]; cbn; exact H|intros H; split; [reflexivity|exact H]].
Qed.

Lemma vars_upto_neg_units n (vl : list nat) :
  Forall (fun v => 0 < v /\ (zn v <= n)%Z) vl -> vars_upto n (map (fun v => [(- zn v)%Z]) vl).
Proof.
  intros H c x Hc Hx. apply in_map_iff in Hc. destruct Hc as (v & <- & Hv). destruct Hx as [<-|[]].
  destruct (proj1 (Forall_forall _ _) H v Hv) as [A B]. unfold zn in *. lia.
Qed.

Lemma step_exclude f l :
  constraint_f1 fb (FExclude f l) = true ->
  forall fresh ct, (GZ < fresh)%Z -> apply_constraint fb (FExclude f l) fresh = COk ct ->
  exists ext, DefinesA (fresh - 1) (ct_fresh ct - 1) (ct_clauses ct) (ct_requests ct) ext (Pexclude f l).
Proof.
  intros Hc fresh ct Hfr E. cbn [constraint_f1] in Hc. rewrite !andb_true_iff in Hc.
  destruct Hc as [[Hf Hl] _]. apply Nat.ltb_lt in Hl.
  cbn [apply_constraint] in E. unfold apply_exclude in E.
  rewrite (f1_var_lists_none fb HF1 f l HT Hf Hl) in E. cbn [cbind] in E.
  inversion E. subst ct. clear E. cbn [ct_fresh ct_clauses ct_requests flat_map]. rewrite app_nil_r.
  exists (fun s => s).
  assert (HGZ : (0 <= GZ)%Z) by (unfold GZ, zn; lia).
  assert (Hv : Forall (fun v => 0 < v /\ (zn v <= fresh - 1)%Z) (map (fun t => gvar fb t f l) (trials_of fb f 0 (T fb)))).
  { exact (range_vars_ok f l (0, T fb) fresh Hf Hl (le_n _) Hfr). }
  eapply definesA_conseq.
  - apply definesA_clauses; [lia|]. now apply vars_upto_neg_units.
  - intros s. unfold Pexclude, col. rewrite sat_neg_units.
    + now rewrite map_map.
    + eapply Forall_impl; [|exact Hv]. intros a [Ha _]. exact Ha.
Qed.

(** * Pin *)
Lemma sat_pos_units s (vl : list nat) :
  Forall (fun v => 0 < v) vl ->
  (sat s (map (fun v => [zn v]) vl) = true <-> Forall (fun v => s (zn v) = true) vl).
Proof.
  intros H. induction H as [|v vl Hv _ IH]; [cbn; split; constructor|].
  cbn [map sat forallb csat existsb]. rewrite andb_true_iff, orb_false_r, IH, Forall_cons_iff.
  now rewrite lit_true_pos by (unfold zn; lia).
Qed.

Lemma pin_guard i f l wb :
  constraint_f1 fb (FPin i f l wb) = true ->
  isact fb f = true /\ l < nlevels fb f /\ (1 <= GZ)%Z /\
  exists ps, get_trial_numbers fb f i wb = Some ps /\ Forall (fun p => p < T fb) ps.
Proof.
  cbn [constraint_f1]. rewrite !andb_true_iff. intros [[[[[Hf Hl] Hv] _] _] Hp]. apply Nat.ltb_lt in Hl, Hv.
  split; [exact Hf|]. split; [exact Hl|]. split; [unfold GZ; rewrite <- (f1_vps fb HF1); unfold zn; lia|].
  destruct (get_trial_numbers fb f i wb) as [ps|]; [|discriminate]. exists ps. split; [reflexivity|].
  rewrite forallb_forall in Hp. apply Forall_forall. intros p Hin. now apply Nat.ltb_lt, Hp.
Qed.

Lemma pin_guard_geom i f l wb :
  constraint_f1 fb (FPin i f l wb) = true ->
  0 < geometry_sustain fb wb f /\ exists rs, map_block_trial_ranges fb wb = Some rs.
Proof.
  cbn [constraint_f1]. rewrite !andb_true_iff. intros [[[_ Hg] Hs] _]. apply Nat.ltb_lt in Hs.
  split; [exact Hs|now apply geom_ok_some].
Qed.

(** the pinned trials: per range the [su] trials from the pinned position on *)
Definition pin_pos (i : Z) (su : nat) (r : nat * nat) : Z :=
  (if (i <? 0)%Z then Z.of_nat (snd r) + Z.of_nat su * i else Z.of_nat (fst r) + Z.of_nat su * i)%Z.
Definition pin_in (i : Z) (su : nat) (r : nat * nat) : bool :=
  ((Z.of_nat (fst r) <=? pin_pos i su r) && (pin_pos i su r <? Z.of_nat (snd r)))%Z.

Lemma pins_eq i f wb rs :
  map_block_trial_ranges fb wb = Some rs ->
  get_trial_numbers fb f i wb =
  Some (flat_map (fun r => if pin_in i (geometry_sustain fb wb f) r
                           then map (fun j => Z.to_nat (pin_pos i (geometry_sustain fb wb f) r) + j) (seq 0 (geometry_sustain fb wb f))
                           else []) rs).
Proof. intros Hrs. unfold get_trial_numbers. rewrite Hrs. reflexivity. Qed.

(** the clauses of one pinned trial *)
Definition pin_clauses (f l t : nat) : list (list Z) :=
  if lappl fb f t then [[zn (gvar fb t f l)]] else [[1%Z]; [(-1)%Z]].

Lemma pin_cmapM f l ps : isact fb f = true -> l < nlevels fb f ->
  cmapM (fun t => if negb (applies_at fb f (t + 1)) then COk [[1%Z]; [(-1)%Z]]
                  else v <~ get_variable fb (t + 1) f l ;; COk [[zn v]]) ps
  = COk (map (pin_clauses f l) ps).
Proof.
  intros Hf Hl. induction ps as [|a ps IH]; [reflexivity|]. cbn [cmapM map].
  rewrite Nat.add_1_r. change (applies_at fb f (S a)) with (lappl fb f a). unfold pin_clauses at 1.
  destruct (lappl fb f a); cbn [negb].
  - rewrite (f1_get_variable fb HF1 f l a Hf Hl). cbn [cbind].
    replace (a + 1) with (S a) in IH. 2:{ lia. }
    assert (IH' : cmapM (fun t => if negb (applies_at fb f (t + 1)) then COk [[1%Z]; [(-1)%Z]]
                                  else v <~ get_variable fb (t + 1) f l ;; COk [[zn v]]) ps
                  = COk (map (pin_clauses f l) ps)) by exact IH.
    rewrite IH'. reflexivity.
  - cbn [cbind]. rewrite IH. reflexivity.
Qed.

Lemma sat_unsat_pair s : sat s [[1%Z]; [(-1)%Z]] = false.
Proof. unfold sat, csat, lit_true. cbn. destruct (s 1%Z); reflexivity. Qed.

Lemma sat_pin_clauses s f l ps : Forall (fun p => p < T fb) ps ->
  (sat s (concat (map (pin_clauses f l) ps)) = true <-> Forall (fun p => lappl fb f p = true /\ bit s p f l = true) ps).
Proof.
  intros Hb. induction Hb as [|p ps Hp _ IH]; [cbn; split; constructor|].
  cbn [map concat]. unfold sat in *. rewrite forallb_app, andb_true_iff, IH, Forall_cons_iff.
  unfold pin_clauses. destruct (lappl fb f p).
  - cbn [forallb csat existsb]. rewrite andb_true_r, orb_false_r.
    rewrite lit_true_pos by (pose proof (gvar_pos fb p f l); unfold zn; lia). unfold bit. tauto.
  - change (forallb (csat s) [[1%Z]; [(-1)%Z]]) with (sat s [[1%Z]; [(-1)%Z]]). rewrite sat_unsat_pair.
    split; [intros [H _]; discriminate|intros [[H _] _]; discriminate].
Qed.

Lemma step_pin i f l wb :
  constraint_f1 fb (FPin i f l wb) = true ->
  forall fresh ct, (GZ < fresh)%Z -> apply_constraint fb (FPin i f l wb) fresh = COk ct ->
  exists ext, DefinesA (fresh - 1) (ct_fresh ct - 1) (ct_clauses ct) (ct_requests ct) ext (Ppin i f l wb).
Proof.
  intros Hc fresh ct Hfr E. destruct (pin_guard i f l wb Hc) as (Hf & Hl & HG1 & ps & Ep & Hpb).
  assert (HGZ : (0 <= GZ)%Z) by (unfold GZ, zn; lia).
  cbn [apply_constraint] in E. unfold apply_pin in E. unfold Ppin, pins. rewrite Ep in E |- *.
  destruct ps as [|p ps'].
  - inversion E. subst ct. clear E. cbn [ct_fresh ct_clauses ct_requests]. exists (fun s => s).
    eapply definesA_conseq.
    + apply (definesA_clauses (fresh - 1) [[1%Z]; [(-1)%Z]]); [lia|].
      intros c x Hc' Hx. destruct Hc' as [<-|[<-|[]]]; destruct Hx as [<-|[]]; lia.
    + intros s. cbv beta. rewrite (sat_unsat_pair s). split; [discriminate|intros [H _]; now contradiction H].
  - remember (p :: ps') as pl eqn:Epl.
    rewrite (pin_cmapM f l pl Hf Hl) in E. cbn [cbind] in E. inversion E. subst ct. clear E.
    cbn [ct_fresh ct_clauses ct_requests]. exists (fun s => s).
    eapply definesA_conseq.
    + apply definesA_clauses; [lia|].
      intros c x Hc' Hx. apply in_concat in Hc'. destruct Hc' as (cl & Hcl & Hc').
      apply in_map_iff in Hcl. destruct Hcl as (t & <- & Ht). unfold pin_clauses in Hc'.
      pose proof (proj1 (Forall_forall _ _) Hpb t Ht) as HtT. cbv beta in HtT.
      destruct (lappl fb f t) eqn:Hap.
      * destruct Hc' as [<-|[]]. destruct Hx as [<-|[]].
        pose proof (gvar_pos fb t f l). pose proof (gvar_le t f l HtT Hf Hl Hap). unfold zn in *. lia.
      * destruct Hc' as [<-|[<-|[]]]; destruct Hx as [<-|[]]; lia.
    + intros s. rewrite (sat_pin_clauses s f l pl Hpb).
      split; [intros H; split; [subst pl; discriminate|exact H]|tauto].
Qed.

(** * Consistency *)
Lemma sact_split f : sact fb f = true <-> isact fb f = true /\ is_complex fb f = false.
Proof. unfold sact. rewrite andb_true_iff, negb_true_iff. tauto. Qed.

Lemma dep_ok_act f d : isact fb f = true -> dep_ok fb f d = true -> sact fb d = true.
Proof.
  intros Ha H. unfold dep_ok in H. rewrite Ha in H. cbn [negb andb] in H. now rewrite orb_false_r in H.
Qed.

Lemma cact_split f : cact fb f = true <-> isact fb f = true /\ is_complex fb f = true.
Proof. unfold cact. rewrite andb_true_iff. tauto. Qed.

Lemma step_consistency :
  forall fresh ct, (GZ < fresh)%Z -> apply_constraint fb FConsistency fresh = COk ct ->
  exists ext, DefinesA (fresh - 1) (ct_fresh ct - 1) (ct_clauses ct) (ct_requests ct) ext Pcons.
Proof.
  intros fresh ct Hfr E. cbn [apply_constraint] in E. rewrite (f1_consistency fb HF1 fresh) in E.
  inversion E. subst ct. clear E. cbn [ct_fresh ct_clauses ct_requests]. exists (fun s => s).
  assert (HGZ : (0 <= GZ)%Z) by (unfold GZ, zn; lia).
  assert (Hrow : forall t f, t < T fb -> isact fb f = true -> lappl fb f t = true ->
            Forall (fun v => 0 < v /\ (zn v <= fresh - 1)%Z) (map (fun l => gvar fb t f l) (seq 0 (nlevels fb f)))).
  { intros t f Ht Hf Ha. apply Forall_map. apply Forall_forall. intros l Hl. apply in_seq in Hl.
    split; [apply gvar_pos|]. pose proof (gvar_le t f l Ht Hf ltac:(lia) Ha). lia. }
  assert (Hzs : forall t f, map (fun l => Z.of_nat (gvar fb t f l)) (seq 0 (nlevels fb f))
                            = zs (map (fun l => gvar fb t f l) (seq 0 (nlevels fb f)))).
  { intros t f. unfold zs. now rewrite map_map. }
  (* every request of the list is the row of an act factor in a trial where it has a level, and conversely *)
  assert (Hin : forall r, In r (cons_all fb) <->
            exists t f, t < T fb /\ isact fb f = true /\ lappl fb f t = true /\ r = cons_row fb t f).
  { intros r. unfold cons_all. rewrite in_app_iff, !in_flat_map. split.
    - intros [(t & Ht & Hr)|(f & Hf & Hr)].
      + apply in_seq in Ht. apply in_map_iff in Hr. destruct Hr as (f & <- & Hf). apply filter_In in Hf.
        destruct Hf as [_ Hf]. apply sact_split in Hf. destruct Hf as [Hf Hc].
        exists t, f. repeat split; [lia|exact Hf|now apply (lappl_simple fb HF1)].
      + apply filter_In in Hf. destruct Hf as [_ Hf]. apply cact_split in Hf. destruct Hf as [Hf Hc].
        apply in_map_iff in Hr. destruct Hr as (t & <- & Ht). apply in_trials_of in Ht. destruct Ht as [Ht Ha].
        exists t, f. repeat split; [lia|exact Hf|exact Ha].
    - intros (t & f & Ht & Hf & Ha & ->). pose proof (f1_act_lt fb HF1 f Hf) as Hlt.
      destruct (is_complex fb f) eqn:Hc.
      + right. exists f. split; [apply filter_In; split; [apply in_seq; lia|now apply cact_split]|].
        apply (in_map (fun t => cons_row fb t f)). apply in_trials_of. split; [lia|exact Ha].
      + left. exists t. split; [apply in_seq; lia|]. apply in_map. apply filter_In. split; [apply in_seq; lia|now apply sact_split]. }
  eapply definesA_conseq.
  - apply definesA_requests; [lia|]. apply Forall_forall. intros r Hr. apply Hin in Hr.
    destruct Hr as (t & f & Ht & Hf & Ha & ->). unfold cons_row. rewrite Hzs.
    change 1%Z with (zn 1). apply req_ok_zs; [|now apply Hrow].
    pose proof (f1_nlevels_pos fb HF1 f (f1_act_lt fb HF1 f Hf)). destruct (nlevels fb f); [lia|discriminate].
  - intros s. unfold Pcons. rewrite Forall_forall. split.
    + intros H t f Ht Hf Ha. specialize (H (cons_row fb t f) (proj2 (Hin _) (ex_intro _ t (ex_intro _ f (conj Ht (conj Hf (conj Ha eq_refl))))))).
      unfold cons_row in H. rewrite Hzs in H. change 1%Z with (zn 1) in H. apply req_rel_EQ in H.
      * rewrite map_map in H. exact H.
      * eapply Forall_impl; [|apply (Hrow t f Ht Hf Ha)]. intros a [Ha' _]. exact Ha'.
    + intros H r Hr. apply Hin in Hr. destruct Hr as (t & f & Ht & Hf & Ha & ->).
      unfold cons_row. rewrite Hzs. change 1%Z with (zn 1). apply req_rel_EQ.
      * eapply Forall_impl; [|apply (Hrow t f Ht Hf Ha)]. intros a [Ha' _]. exact Ha'.
      * rewrite map_map. now apply H.
Qed.

End F1Kinds.
