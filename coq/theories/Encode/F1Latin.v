(** The [LatinSquare] constraint in F1 (unsustained factors without a complex
    window): (a) its contribution is a block - per segment of [diag] trials
    after the preamble and per trial of the segment the implications "main
    factor has its k-th level -> every other factor has its (k + rotation)-th
    level" (Tseitin) and per main level an "at most once in the segment"
    request; (b) on a one-hot grid that is [Sem.latin_ok]: the rotation vector
    of a segment is the digits of the segment number (Encode/MixedRadix.v). *)
From Coq Require Import ZArith List Bool Arith Lia.
From SP Require Import Base.Sat Base.Bits Core.Card Core.CardProofs.
From SP Require Import Logic.Formula Logic.Tseitin Logic.TseitinProofs.
From SP Require Import Design.Flat Design.Layout Design.Sem.
From SP Require Import Encode.Compile Encode.CodeSem Encode.Generic Encode.Blocks Encode.Runs
     Encode.GridLemmas Encode.CrossChunks Encode.LayoutF1 Encode.F1Kinds Encode.F1Cross Encode.F1Sem Encode.MixedRadix.
Import ListNotations.
Close Scope Z_scope.
Open Scope nat_scope.

(** * Generic facts: the largest level count and the last factor that has it *)
Lemma fold_max_ge (l : list nat) : forall a n, In n l \/ n <= a -> n <= fold_left Nat.max l a.
Proof.
  induction l as [|x l IH]; intros a n H; cbn [fold_left].
  - destruct H as [[]|H]; exact H.
  - apply IH. destruct H as [[<-|H]|H]; [right; lia|now left|right; lia].
Qed.

Lemma fold_max_in (l : list nat) : forall a, fold_left Nat.max l a = a \/ In (fold_left Nat.max l a) l.
Proof.
  induction l as [|x l IH]; intros a; cbn [fold_left]; [now left|].
  destruct (IH (Nat.max a x)) as [E|E].
  - rewrite E. destruct (Nat.max_spec a x) as [[_ ->]|[_ ->]]; [right; now left|now left].
  - right. now right.
Qed.

Lemma combine_app_eq {A B} (l1 l1' : list A) (l2 l2' : list B) :
  length l1 = length l2 -> combine (l1 ++ l1') (l2 ++ l2') = combine l1 l2 ++ combine l1' l2'.
Proof.
  revert l2. induction l1 as [|a l1 IH]; intros [|b l2] H; cbn [length] in H; try discriminate; [reflexivity|].
  cbn [app combine]. f_equal. apply IH. lia.
Qed.

Lemma liw_app (p : nat -> bool) (l : list nat) x :
  last_index_where p (l ++ [x]) = if p x then length l else last_index_where p l.
Proof.
  unfold last_index_where. rewrite app_length. cbn [length]. rewrite Nat.add_1_r, seq_S. cbn [Nat.add].
  rewrite combine_app_eq by now rewrite seq_length. cbn [combine]. rewrite fold_left_app. cbn [fold_left fst snd].
  reflexivity.
Qed.

Lemma liw_spec (p : nat -> bool) (l : list nat) :
  (exists x, In x l /\ p x = true) ->
  last_index_where p l < length l /\ p (nth (last_index_where p l) l 0) = true.
Proof.
  induction l as [|x l IH] using rev_ind; intros (y & Hy & Py); [destruct Hy|].
  rewrite liw_app, app_length. cbn [length]. destruct (p x) eqn:Px.
  - split; [lia|]. rewrite app_nth2 by lia. now rewrite Nat.sub_diag.
  - apply in_app_iff in Hy. destruct Hy as [Hy|[<-|[]]]; [|congruence].
    destruct (IH (ex_intro _ y (conj Hy Py))) as [A B]. split; [lia|]. now rewrite app_nth1 by lia.
Qed.

Section F1Latin.
Variable fb : flat.
Hypothesis HF1 : in_f1 fb = true.
Hypothesis HT : 0 < T fb.

Notation GZ := (GZ fb).
Notation bit := (bit fb).

Section One.
Variable fs : list nat.
Hypothesis Hfs : Forall (fun f => isact fb f = true /\ is_complex fb f = false) fs.
Hypothesis Hne : fs <> [].

Let nls : list nat := map (nlevels fb) fs.
Let diag : nat := fold_left Nat.max nls 0.
Let main : nat := last_index_where (fun n => n =? diag) nls.
Let mainf : nat := nth main fs 0.
Let nmain : nat := nth main nls 0.

Lemma fs_act idx : idx < length fs -> isact fb (nth idx fs 0) = true /\ is_complex fb (nth idx fs 0) = false.
Proof. intros H. exact (proj1 (Forall_forall _ _) Hfs _ (nth_In fs 0 H)). Qed.

Lemma nls_nth idx : idx < length fs -> nth idx nls 0 = nlevels fb (nth idx fs 0).
Proof.
  intros H. unfold nls. rewrite (nth_indep _ 0 (nlevels fb 0)) by now rewrite map_length.
  apply (map_nth (nlevels fb)).
Qed.

Lemma nls_pos idx : idx < length fs -> 0 < nth idx nls 0.
Proof.
  intros H. rewrite (nls_nth idx H). destruct (fs_act idx H) as [Ha _].
  exact (f1_nlevels_pos fb HF1 _ (f1_act_lt fb HF1 _ Ha)).
Qed.

Lemma nls_le idx : idx < length fs -> nth idx nls 0 <= diag.
Proof. intros H. apply fold_max_ge. left. apply nth_In. unfold nls. now rewrite map_length. Qed.

Lemma diag_pos : 0 < diag.
Proof.
  assert (H0 : 0 < length fs) by (destruct fs; [contradiction|cbn; lia]).
  pose proof (nls_le 0 H0). pose proof (nls_pos 0 H0). lia.
Qed.

Lemma main_spec : main < length fs /\ nmain = diag.
Proof.
  assert (Hex : exists x, In x nls /\ (x =? diag) = true).
  { destruct (fold_max_in nls 0) as [E|E].
    - pose proof diag_pos. unfold diag in *. lia.
    - exists diag. split; [exact E|apply Nat.eqb_refl]. }
  destruct (liw_spec (fun n => n =? diag) nls Hex) as [A B]. fold main in A, B.
  unfold nls in A. rewrite map_length in A. split; [exact A|]. now apply Nat.eqb_eq in B.
Qed.

Lemma mainf_act : isact fb mainf = true /\ is_complex fb mainf = false /\ nlevels fb mainf = diag.
Proof.
  destruct main_spec as [A B]. destruct (fs_act main A) as [Ha Hc]. fold mainf in Ha, Hc.
  split; [exact Ha|]. split; [exact Hc|]. unfold nmain in B. now rewrite (nls_nth main A) in B.
Qed.

(** ** The formulas and requests of one segment *)
Definition js (i : nat) : list nat := filter (fun j => i + j <? T fb) (seq 0 diag).

Definition lat_if (i j k : nat) (rots : list nat) (ixf : nat * nat) : list fm :=
  if fst ixf =? main then []
  else [FIf (fv (gvar fb (i + j) mainf ((k + nth main rots 0) mod nmain)))
            (fv (gvar fb (i + j) (snd ixf) ((k + nth (fst ixf) rots 0) mod nth (fst ixf) nls 0)))].

Definition seg_ands (i : nat) (rots : list nat) : list fm :=
  concat (map (fun j => concat (map (fun k => concat (map (lat_if i j k rots) (combine (seq 0 (length fs)) fs)))
                                    (seq 0 diag))) (js i)).

Definition seg_reqs (i : nat) : list req :=
  map (fun l => (Card.LT, 2%Z, zs (map (fun j => gvar fb (i + j) mainf l) (js i)))) (seq 0 nmain).

Fixpoint latin_lists (fuel i : nat) (rots : list nat) : list fm * list req :=
  match fuel with
  | O => ([], [])
  | S fu =>
    if i <? T fb
    then let rest := latin_lists fu (i + diag) (step_rotations main nls rots) in
         (seg_ands i rots ++ fst rest, seg_reqs i ++ snd rest)
    else ([], [])
  end.

Lemma in_js i j : In j (js i) <-> j < diag /\ i + j < T fb.
Proof. unfold js. rewrite filter_In, in_seq, Nat.ltb_lt. lia. Qed.

Lemma js_nonempty i : i < T fb -> js i <> [].
Proof.
  intros Hi E. assert (H : In 0 (js i)) by (apply in_js; pose proof diag_pos; lia). rewrite E in H. destruct H.
Qed.

Lemma latin_loop_eq : forall fuel i rots, T fb - i < fuel ->
  latin_loop fb fuel fs nls main mainf diag 1 i rots = COk (latin_lists fuel i rots).
Proof.
  destruct main_spec as [Hm Hnm]. destruct mainf_act as (Hma & Hmc & Hml). pose proof diag_pos as Hd.
  induction fuel as [|fuel IH]; intros i rots Hfu; [lia|].
  cbn [latin_loop latin_lists]. destruct (i <? T fb) eqn:Ei; cbn [negb]; [|reflexivity].
  apply Nat.ltb_lt in Ei. fold (js i). fold nmain.
  rewrite (cmapM_ok _ (fun j => concat (map (fun k => concat (map (lat_if i j k rots) (combine (seq 0 (length fs)) fs))) (seq 0 diag)))).
  2:{ intros j Hj. rewrite (cmapM_ok _ (fun k => concat (map (lat_if i j k rots) (combine (seq 0 (length fs)) fs)))); [reflexivity|].
      intros k Hk. rewrite Nat.add_1_r.
      rewrite (f1_get_variable fb HF1 mainf _ (i + j) Hma).
      2:{ rewrite Hml, <- Hnm. apply Nat.mod_upper_bound. lia. }
      cbn [cbind].
      rewrite (cmapM_ok _ (lat_if i j k rots)); [reflexivity|].
      intros [idx f] Hin. unfold lat_if. cbn [fst snd]. destruct (idx =? main); [reflexivity|].
      assert (Hidx : idx < length fs /\ f = nth idx fs 0).
      { clear - Hin. assert (G : forall (l : list nat) s0 a b, In (a, b) (combine (seq s0 (length l)) l) -> s0 <= a < s0 + length l /\ b = nth (a - s0) l 0).
        { induction l as [|y l IHl]; intros s0 a b H; [destruct H|]. cbn [length seq combine] in H. destruct H as [H|H].
          - inversion H. subst. rewrite Nat.sub_diag. cbn [length nth]. split; [lia|reflexivity].
          - destruct (IHl (S s0) a b H) as [A B]. cbn [length]. split; [lia|]. rewrite B.
            replace (a - s0) with (S (a - S s0)) by lia. reflexivity. }
        destruct (G fs 0 idx f Hin) as [A B]. rewrite Nat.sub_0_r in B. split; [lia|exact B]. }
      destruct Hidx as [Hidx ->]. destruct (fs_act idx Hidx) as [Ha _].
      rewrite (f1_get_variable fb HF1 _ _ (i + j) Ha).
      2:{ rewrite <- (nls_nth idx Hidx). apply Nat.mod_upper_bound. pose proof (nls_pos idx Hidx). lia. }
      reflexivity. }
  cbn [cbind].
  rewrite (cmapM_ok _ (fun l => (Card.LT, 2%Z, zs (map (fun j => gvar fb (i + j) mainf l) (js i))))).
  2:{ intros l Hl. apply in_seq in Hl.
      rewrite (cmapM_ok _ (fun j => gvar fb (i + j) mainf l)); [reflexivity|].
      intros j Hj. rewrite Nat.add_1_r. apply (f1_get_variable fb HF1 mainf l (i + j) Hma). rewrite Hml, <- Hnm. lia. }
  cbn [cbind]. rewrite Nat.mul_1_r, (IH (i + diag) _ ltac:(lia)). cbn [cbind]. reflexivity.
Qed.

(** ** Membership in the lists *)
Definition rots_from (rots : list nat) (r : nat) : list nat := Nat.iter r (step_rotations main nls) rots.

Lemma rots_from_S rots r : rots_from (step_rotations main nls rots) r = rots_from rots (S r).
Proof.
  unfold rots_from. induction r as [|r IH]; [reflexivity|].
  change (Nat.iter (S r) (step_rotations main nls) (step_rotations main nls rots))
    with (step_rotations main nls (Nat.iter r (step_rotations main nls) (step_rotations main nls rots))).
  rewrite IH. reflexivity.
Qed.

Lemma in_latin_ands x : forall fuel i rots, T fb - i < fuel ->
  (In x (fst (latin_lists fuel i rots)) <->
   exists r, i + r * diag < T fb /\ In x (seg_ands (i + r * diag) (rots_from rots r))).
Proof.
  pose proof diag_pos as Hd. induction fuel as [|fuel IH]; intros i rots Hfu; [lia|].
  cbn [latin_lists]. destruct (i <? T fb) eqn:Ei.
  - apply Nat.ltb_lt in Ei. cbn [fst]. rewrite in_app_iff, (IH (i + diag) _ ltac:(lia)). split.
    + intros [H|(r & Hr & H)].
      * exists 0. rewrite Nat.add_0_r. split; [exact Ei|exact H].
      * exists (S r). rewrite rots_from_S in H. replace (i + S r * diag) with (i + diag + r * diag) by lia. auto.
    + intros (r & Hr & H). destruct r as [|r].
      * left. now rewrite Nat.add_0_r in H.
      * right. exists r. rewrite rots_from_S. replace (i + diag + r * diag) with (i + S r * diag) by lia. auto.
  - apply Nat.ltb_ge in Ei. cbn [fst]. split; [intros []|]. intros (r & Hr & _). lia.
Qed.

Lemma in_latin_reqs x : forall fuel i rots, T fb - i < fuel ->
  (In x (snd (latin_lists fuel i rots)) <-> exists r, i + r * diag < T fb /\ In x (seg_reqs (i + r * diag))).
Proof.
  pose proof diag_pos as Hd. induction fuel as [|fuel IH]; intros i rots Hfu; [lia|].
  cbn [latin_lists]. destruct (i <? T fb) eqn:Ei.
  - apply Nat.ltb_lt in Ei. cbn [snd]. rewrite in_app_iff, (IH (i + diag) _ ltac:(lia)). split.
    + intros [H|(r & Hr & H)].
      * exists 0. rewrite Nat.add_0_r. split; [exact Ei|exact H].
      * exists (S r). replace (i + S r * diag) with (i + diag + r * diag) by lia. auto.
    + intros (r & Hr & H). destruct r as [|r].
      * left. now rewrite Nat.add_0_r in H.
      * right. exists r. replace (i + diag + r * diag) with (i + S r * diag) by lia. auto.
  - apply Nat.ltb_ge in Ei. cbn [snd]. split; [intros []|]. intros (r & Hr & _). lia.
Qed.

Lemma in_seg_ands x i rots :
  In x (seg_ands i rots) <->
  exists j k idx, In j (js i) /\ k < diag /\ idx < length fs /\ idx <> main /\
    x = FIf (fv (gvar fb (i + j) mainf ((k + nth main rots 0) mod nmain)))
            (fv (gvar fb (i + j) (nth idx fs 0) ((k + nth idx rots 0) mod nth idx nls 0))).
Proof.
  unfold seg_ands. rewrite in_concat. split.
  - intros (l1 & H1 & Hx). apply in_map_iff in H1. destruct H1 as (j & <- & Hj).
    apply in_concat in Hx. destruct Hx as (l2 & H2 & Hx). apply in_map_iff in H2. destruct H2 as (k & <- & Hk). apply in_seq in Hk.
    apply in_concat in Hx. destruct Hx as (l3 & H3 & Hx). apply in_map_iff in H3. destruct H3 as ([idx f] & <- & Hin).
    unfold lat_if in Hx. cbn [fst snd] in Hx. destruct (idx =? main) eqn:Em; [destruct Hx|]. destruct Hx as [<-|[]].
    assert (G : forall (l : list nat) s0 a b, In (a, b) (combine (seq s0 (length l)) l) -> s0 <= a < s0 + length l /\ b = nth (a - s0) l 0).
    { induction l as [|y l IHl]; intros s0 a b H; [destruct H|]. cbn [length seq combine] in H. destruct H as [H|H].
      - inversion H. subst. rewrite Nat.sub_diag. cbn [length nth]. split; [lia|reflexivity].
      - destruct (IHl (S s0) a b H) as [A B]. cbn [length]. split; [lia|]. rewrite B.
        replace (a - s0) with (S (a - S s0)) by lia. reflexivity. }
    destruct (G fs 0 idx f Hin) as [A B]. rewrite Nat.sub_0_r in B. subst f.
    exists j, k, idx. apply Nat.eqb_neq in Em. repeat split; try assumption; lia.
  - intros (j & k & idx & Hj & Hk & Hidx & Hm & ->).
    eexists. split; [apply (in_map (fun j0 => concat (map (fun k0 => concat (map (lat_if i j0 k0 rots) (combine (seq 0 (length fs)) fs))) (seq 0 diag))) (js i) j Hj)|].
    apply in_concat. eexists. split; [apply (in_map (fun k0 => concat (map (lat_if i j k0 rots) (combine (seq 0 (length fs)) fs))) (seq 0 diag) k); apply in_seq; lia|].
    apply in_concat. exists (lat_if i j k rots (idx, nth idx fs 0)). split.
    + apply in_map.
      assert (G : forall (l : list nat) s0 a, a < length l -> In (s0 + a, nth a l 0) (combine (seq s0 (length l)) l)).
      { induction l as [|y l IHl]; intros s0 a H; [cbn in H; lia|]. cbn [length seq combine]. destruct a as [|a].
        - left. now rewrite Nat.add_0_r.
        - right. replace (s0 + S a) with (S s0 + a) by lia. cbn [nth]. apply IHl. cbn [length] in H. lia. }
      exact (G fs 0 idx Hidx).
    + unfold lat_if. cbn [fst snd]. replace (idx =? main) with false by (symmetry; now apply Nat.eqb_neq). now left.
Qed.

(** ** The predicate of the constraint and its block *)
Variable pre : nat.

Definition zeros : list nat := map (fun _ => 0) fs.
Definition LL : list fm * list req := latin_lists (S (T fb)) pre zeros.

Definition Platin_one (s : asg) : Prop := eval s (FAnd (fst LL)) = true /\ Forall (req_rel s) (snd LL).

Lemma seg_trial_ok i j f lvl fresh :
  i + j < T fb -> isact fb f = true -> is_complex fb f = false -> lvl < nlevels fb f -> (GZ < fresh)%Z ->
  0 < gvar fb (i + j) f lvl /\ (zn (gvar fb (i + j) f lvl) <= fresh - 1)%Z.
Proof.
  intros Ht Ha Hc Hl Hfr. split; [apply gvar_pos|].
  pose proof (gvar_le fb HF1 HT (i + j) f lvl Ht Ha Hl (lappl_simple fb HF1 f _ Ha Hc)). lia.
Qed.

Lemma latin_block fresh cls fresh' :
  (GZ < fresh)%Z -> cnf_fn (fst LL) fresh = (cls, fresh') ->
  exists ext, DefinesA (fresh - 1) (fresh' - 1) cls (snd LL) ext Platin_one.
Proof.
  intros Hfr Ecnf. destruct main_spec as [Hm Hnm]. destruct mainf_act as (Hma & Hmc & Hml). pose proof diag_pos as Hd.
  assert (HGZ : (0 <= GZ)%Z) by (unfold F1Kinds.GZ, zn; lia).
  assert (HL : forall z, In z (leaves (FAnd (fst LL))) -> z <> 0%Z /\ (Z.abs z < fresh)%Z).
  { intros z Hz. cbn [leaves] in Hz. apply in_flat_map in Hz. destruct Hz as (x & Hx & Hz).
    apply (in_latin_ands x (S (T fb)) pre zeros ltac:(lia)) in Hx. destruct Hx as (r & Hr & Hx).
    apply in_seg_ands in Hx. destruct Hx as (j & k & idx & Hj & Hk & Hidx & Hne' & ->).
    apply in_js in Hj. destruct Hj as [Hj HjT]. destruct (fs_act idx Hidx) as [Ha Hc].
    cbn [leaves fv] in Hz.
    assert (H1 : (k + nth main (rots_from zeros r) 0) mod nmain < nlevels fb mainf)
      by (rewrite Hml, <- Hnm; apply Nat.mod_upper_bound; lia).
    assert (H2 : (k + nth idx (rots_from zeros r) 0) mod nth idx nls 0 < nlevels fb (nth idx fs 0))
      by (rewrite <- (nls_nth idx Hidx); apply Nat.mod_upper_bound; pose proof (nls_pos idx Hidx); lia).
    destruct Hz as [<-|[<-|[]]].
    - destruct (seg_trial_ok (pre + r * diag) j mainf _ fresh HjT Hma Hmc H1 Hfr). unfold zn in *. lia.
    - destruct (seg_trial_ok (pre + r * diag) j _ _ fresh HjT Ha Hc H2 Hfr). unfold zn in *. lia. }
  destruct (definesA_tseitin (fst LL) fresh cls fresh' ltac:(lia) HL Ecnf) as (extT & DT).
  pose proof (da_range _ _ _ _ _ _ DT) as RT.
  assert (Rok : Forall (req_ok (fresh' - 1)) (snd LL)).
  { apply Forall_forall. intros x Hx. apply (in_latin_reqs x (S (T fb)) pre zeros ltac:(lia)) in Hx.
    destruct Hx as (r & Hr & Hx). unfold seg_reqs in Hx. apply in_map_iff in Hx. destruct Hx as (l & <- & Hl). apply in_seq in Hl.
    apply (req_ok_le (fresh - 1)); [lia|]. change 2%Z with (zn 2). apply req_ok_zs.
    - pose proof (js_nonempty (pre + r * diag) Hr). destruct (js (pre + r * diag)); [contradiction|discriminate].
    - apply Forall_map. apply Forall_forall. intros j Hj. apply in_js in Hj. destruct Hj as [Hj HjT].
      apply (seg_trial_ok _ j mainf l fresh HjT Hma Hmc); [rewrite Hml, <- Hnm; lia|exact Hfr]. }
  assert (DR : DefinesA (fresh' - 1) (fresh' - 1) [] (snd LL) (fun s => s) (fun s => Forall (req_rel s) (snd LL))).
  { apply definesA_requests; [lia|exact Rok]. }
  pose proof (definesA_seq _ _ _ _ _ _ _ _ _ _ _ DT DR) as D2. rewrite app_nil_r in D2. cbn [app] in D2.
  exists (fun s => extT s). exact D2.
Qed.

(** ** The segment form of the predicate *)
Definition rot (r idx : nat) : nat := nth idx (rots_from zeros r) 0.

Definition Pseg (s : asg) : Prop :=
  (forall r j k idx, pre + r * diag + j < T fb -> j < diag -> k < diag -> idx < length fs -> idx <> main ->
     bit s (pre + r * diag + j) mainf ((k + rot r main) mod nmain) = true ->
     bit s (pre + r * diag + j) (nth idx fs 0) ((k + rot r idx) mod nth idx nls 0) = true) /\
  (forall r l, pre + r * diag < T fb -> l < nmain ->
     ntrue (map (fun j => bit s (pre + r * diag + j) mainf l) (js (pre + r * diag))) < 2).

Lemma platin_seg s : Platin_one s <-> Pseg s.
Proof.
  destruct main_spec as [Hm Hnm]. destruct mainf_act as (Hma & Hmc & Hml). pose proof diag_pos as Hd.
  unfold Platin_one, Pseg. cbn [eval]. rewrite forallb_forall, Forall_forall. split.
  - intros [HA HB]. split.
    + intros r j k idx Ht Hj Hk Hidx Hne' Hb.
      specialize (HA (FIf (fv (gvar fb (pre + r * diag + j) mainf ((k + rot r main) mod nmain)))
                          (fv (gvar fb (pre + r * diag + j) (nth idx fs 0) ((k + rot r idx) mod nth idx nls 0))))).
      cbn [eval fv] in HA. rewrite !lit_true_pos in HA by (pose proof (gvar_pos fb (pre + r * diag + j) mainf ((k + rot r main) mod nmain));
                                                           pose proof (gvar_pos fb (pre + r * diag + j) (nth idx fs 0) ((k + rot r idx) mod nth idx nls 0)); unfold zn; lia).
      unfold F1Kinds.bit, zn in Hb. rewrite Hb in HA. cbn [implb] in HA. apply HA.
      apply (in_latin_ands _ (S (T fb)) pre zeros ltac:(lia)). exists r. split; [lia|].
      apply in_seg_ands. exists j, k, idx. repeat split; try assumption. apply in_js. lia.
    + intros r l Hr Hl.
      specialize (HB (Card.LT, 2%Z, zs (map (fun j => gvar fb (pre + r * diag + j) mainf l) (js (pre + r * diag))))).
      change 2%Z with (zn 2) in HB. rewrite req_rel_LT in HB.
      * rewrite map_map in HB. apply HB. apply (in_latin_reqs _ (S (T fb)) pre zeros ltac:(lia)). exists r. split; [exact Hr|].
        unfold seg_reqs. apply (in_map (fun l0 => (Card.LT, 2%Z, zs (map (fun j => gvar fb (pre + r * diag + j) mainf l0) (js (pre + r * diag)))))).
        apply in_seq. lia.
      * apply Forall_map. apply Forall_forall. intros j _. apply gvar_pos.
  - intros [HA HB]. split.
    + intros x Hx. apply (in_latin_ands x (S (T fb)) pre zeros ltac:(lia)) in Hx. destruct Hx as (r & Hr & Hx).
      apply in_seg_ands in Hx. destruct Hx as (j & k & idx & Hj & Hk & Hidx & Hne' & ->). apply in_js in Hj. destruct Hj as [Hj HjT].
      cbn [eval fv]. rewrite !lit_true_pos by (pose proof (gvar_pos fb (pre + r * diag + j) mainf ((k + nth main (rots_from zeros r) 0) mod nmain));
                                               pose proof (gvar_pos fb (pre + r * diag + j) (nth idx fs 0) ((k + nth idx (rots_from zeros r) 0) mod nth idx nls 0)); unfold zn; lia).
      destruct (s (Z.of_nat (gvar fb (pre + r * diag + j) mainf ((k + nth main (rots_from zeros r) 0) mod nmain)))) eqn:Eb; [|reflexivity].
      cbn [implb]. apply (HA r j k idx HjT Hj Hk Hidx Hne'). exact Eb.
    + intros x Hx. apply (in_latin_reqs x (S (T fb)) pre zeros ltac:(lia)) in Hx. destruct Hx as (r & Hr & Hx).
      unfold seg_reqs in Hx. apply in_map_iff in Hx. destruct Hx as (l & <- & Hl). apply in_seq in Hl.
      change 2%Z with (zn 2). rewrite req_rel_LT.
      * rewrite map_map. apply HB; [exact Hr|lia].
      * apply Forall_map. apply Forall_forall. intros j _. apply gvar_pos.
Qed.

(** ** (b): on a one-hot grid, the documented meaning *)
Definition xs : list (nat * nat) := map (fun f => (f, nlevels fb f)) fs.
Definition others : list (nat * nat) := remove_nth main xs.

Lemma xs_length : length xs = length fs.
Proof. unfold xs. apply map_length. Qed.

Lemma xs_snd : map snd xs = nls.
Proof. unfold xs, nls. rewrite map_map. reflexivity. Qed.

Lemma xs_pos : Forall (fun x => 0 < snd x) xs.
Proof.
  unfold xs. apply Forall_map. apply Forall_forall. intros f Hf. cbn [snd].
  destruct (proj1 (Forall_forall _ _) Hfs f Hf) as [Ha _]. exact (f1_nlevels_pos fb HF1 f (f1_act_lt fb HF1 f Ha)).
Qed.

Lemma rots_from_at r : rots_from zeros r = rots_at main xs r.
Proof.
  unfold rots_from, rots_at, zeros. rewrite xs_snd. f_equal. unfold xs. rewrite map_map. reflexivity.
Qed.

Lemma others_length : length others = length fs - 1.
Proof. destruct main_spec as [Hm _]. unfold others. rewrite remove_nth_length by (rewrite xs_length; exact Hm). now rewrite xs_length. Qed.

Lemma others_nth p : p < length fs - 1 ->
  nth p others (0, 0) = (nth (unskip main p) fs 0, nlevels fb (nth (unskip main p) fs 0)).
Proof.
  intros Hp. destruct main_spec as [Hm _]. unfold others.
  rewrite remove_nth_nth by (rewrite xs_length; assumption). unfold xs.
  assert (Hu : unskip main p < length fs) by (unfold unskip; destruct (p <? main); lia).
  rewrite (nth_indep _ (0, 0) ((fun f => (f, nlevels fb f)) 0)) by (rewrite map_length; exact Hu).
  now rewrite (map_nth (fun f => (f, nlevels fb f))).
Qed.

Lemma rot_main r : rot r main = 0.
Proof.
  destruct main_spec as [Hm _]. unfold rot. rewrite rots_from_at. apply rots_at_main; [rewrite xs_length; exact Hm|exact xs_pos].
Qed.

Lemma rot_other r p : p < length fs - 1 -> rot r (unskip main p) = nth p (rotations others r) 0.
Proof.
  intros Hp. destruct main_spec as [Hm _]. unfold rot. rewrite rots_from_at.
  apply rots_at_others; [rewrite xs_length; exact Hm|exact xs_pos|]. fold others. now rewrite others_length.
Qed.

Lemma rots_len r : length others = length (rotations others r).
Proof.
  destruct main_spec as [Hm _]. symmetry. unfold others. apply rotations_length; [rewrite xs_length; exact Hm|exact xs_pos].
Qed.

Lemma unskip_surj idx : idx < length fs -> idx <> main -> exists p, p < length fs - 1 /\ idx = unskip main p.
Proof.
  intros Hi Hne'. destruct (Nat.lt_ge_cases idx main) as [C|C].
  - exists idx. destruct main_spec as [Hm _]. split; [lia|]. unfold unskip. now replace (idx <? main) with true by (symmetry; now apply Nat.ltb_lt).
  - exists (idx - 1). split; [lia|]. unfold unskip. replace (idx - 1 <? main) with false by (symmetry; apply Nat.ltb_ge; lia). lia.
Qed.

Lemma unskip_ne p : unskip main p <> main.
Proof. unfold unskip. destruct (Nat.ltb_spec p main); lia. Qed.

Lemma unskip_lt p : p < length fs - 1 -> unskip main p < length fs.
Proof. intros H. unfold unskip. destruct (Nat.ltb_spec p main); lia. Qed.

(** [forallb] over a combination, by index *)
Lemma forallb_combine_nth {A B} (g : A * B -> bool) (la : list A) (lb : list B) (da : A) (db : B) :
  length la = length lb ->
  (forallb g (combine la lb) = true <-> forall p, p < length la -> g (nth p la da, nth p lb db) = true).
Proof.
  revert lb. induction la as [|a la IH]; intros [|b lb] H; cbn [length] in H; try discriminate.
  - cbn. split; [intros _ p Hp; lia|reflexivity].
  - cbn [combine forallb length]. rewrite andb_true_iff, (IH lb ltac:(lia)). split.
    + intros [H0 Hr] [|p] Hp; [exact H0|]. cbn [nth]. apply Hr. lia.
    + intros Hall. split; [exact (Hall 0 ltac:(lia))|]. intros p Hp. exact (Hall (S p) ltac:(lia)).
Qed.

(** at most one [true]: no two positions *)
Lemma ntrue_lt2 (g : nat -> bool) (l : list nat) : NoDup l ->
  (ntrue (map g l) < 2 <-> forall a b, In a l -> In b l -> g a = true -> g b = true -> a = b).
Proof.
  intros Hnd. rewrite ntrue_map_filter. split.
  - intros H a b Ha Hb Ga Gb. destruct (Nat.eq_dec a b) as [E|N]; [exact E|exfalso].
    assert (H2 : 2 <= length (filter g l)).
    { change 2 with (length [a; b]). apply NoDup_incl_length.
      - constructor; [|constructor; [intros []|constructor]]. intros [Q|[]]. now apply N.
      - intros x [<-|[<-|[]]]; apply filter_In; auto. }
    lia.
  - intros H. destruct (filter g l) as [|a [|b r]] eqn:E; cbn [length]; try lia. exfalso.
    assert (Ha : In a (filter g l)) by (rewrite E; now left). assert (Hb : In b (filter g l)) by (rewrite E; right; now left).
    apply filter_In in Ha, Hb. destruct Ha as [Ha Ga], Hb as [Hb Gb]. pose proof (H a b Ha Hb Ga Gb) as Eab. subst b.
    pose proof (NoDup_filter g Hnd) as Hndf. rewrite E in Hndf. inversion Hndf as [|? ? Hnin _]; subst. apply Hnin. now left.
Qed.

Lemma js_nodup i : NoDup (js i).
Proof. unfold js. apply NoDup_filter. apply seq_NoDup. Qed.

(** the segment and the position of a trial after the preamble *)
Lemma seg_decomp t : pre <= t -> t = pre + ((t - pre) / diag) * diag + (t - pre) mod diag /\ (t - pre) mod diag < diag.
Proof.
  intros Ht. pose proof diag_pos as Hd. pose proof (Nat.div_mod (t - pre) diag ltac:(lia)) as D.
  pose proof (Nat.mod_upper_bound (t - pre) diag ltac:(lia)) as R. split; [lia|exact R].
Qed.

Lemma seg_of r j : j < diag -> (pre + r * diag + j - pre) / diag = r.
Proof.
  intros Hj. replace (pre + r * diag + j - pre) with (j + r * diag) by lia.
  rewrite Nat.div_add by lia. rewrite (Nat.div_small j diag Hj). lia.
Qed.

Theorem latin_sem s q :
  onehot fb s q ->
  (Pseg s <-> latin_ok (code_sem fb) q mainf others diag pre 1 = true).
Proof.
  intros Ho. pose proof Ho as (_ & _ & Hcell & Hbit & _).
  destruct main_spec as [Hm Hnm]. destruct mainf_act as (Hma & Hmc & Hml). pose proof diag_pos as Hd.
  assert (Hap : forall f t, isact fb f = true -> is_complex fb f = false -> lappl fb f t = true)
    by (intros f t Ha Hc; now apply (lappl_simple fb HF1)).
  assert (Hmcell : forall t, t < T fb -> exists k, k < diag /\ get_cell q mainf t = Some k).
  { intros t Ht. destruct (Hcell t mainf Ht Hma (Hap _ t Hma Hmc)) as (k & Hk & Ek). exists k. split; [lia|exact Ek]. }
  assert (Hmbit : forall t l, t < T fb -> l < diag -> bit s t mainf l = is_level l (get_cell q mainf t)).
  { intros t l Ht Hl. apply (Hbit t mainf l Ht Hma (Hap _ t Hma Hmc)). lia. }
  unfold latin_ok. change (s_trials (code_sem fb)) with (T fb). rewrite forallb_forall. unfold Pseg. split.
  - (* the grid conditions give the documented ones *)
    intros [HA HB] t Ht. apply in_seq in Ht. destruct (t <? pre) eqn:Etp; [reflexivity|]. apply Nat.ltb_ge in Etp.
    rewrite !Nat.div_1_r. destruct (seg_decomp t Etp) as [Et Hj]. set (r := (t - pre) / diag) in *. set (j := (t - pre) mod diag) in *.
    destruct (Hmcell t ltac:(lia)) as (k & Hk & Ek). rewrite Ek. apply andb_true_iff. split.
    + apply (proj2 (forallb_combine_nth _ others (rotations others r) (0, 0) 0 (rots_len r))).
      intros p Hp. rewrite others_length in Hp. rewrite (others_nth p Hp).
      pose proof (unskip_lt p Hp) as Hu. destruct (fs_act _ Hu) as [Ha Hc].
      assert (Hb : bit s t mainf ((k + rot r main) mod nmain) = true).
      { rewrite rot_main, Nat.add_0_r, Hnm, (Nat.mod_small k diag Hk), (Hmbit t k ltac:(lia) Hk), Ek, is_level_some. apply Nat.eqb_refl. }
      rewrite Et in Hb. pose proof (HA r j k (unskip main p) ltac:(lia) Hj Hk Hu (unskip_ne p) Hb) as Hb'.
      rewrite <- Et in Hb'. rewrite (rot_other r p Hp), (nls_nth _ Hu) in Hb'.
      assert (Hlv : (k + nth p (rotations others r) 0) mod nlevels fb (nth (unskip main p) fs 0) < nlevels fb (nth (unskip main p) fs 0)).
      { apply Nat.mod_upper_bound. pose proof (nls_pos _ Hu) as P. rewrite (nls_nth _ Hu) in P. lia. }
      rewrite (Hbit t _ _ ltac:(lia) Ha (Hap _ t Ha Hc) Hlv) in Hb'. exact Hb'.
    + apply forallb_forall. intros t' Ht'. apply in_seq in Ht'. rewrite !Nat.div_1_r.
      destruct ((pre <=? t') && ((t' - pre) / diag =? r) && negb (t' - pre =? t - pre)) eqn:Ec; [|reflexivity].
      rewrite !andb_true_iff in Ec. destruct Ec as [[E1 E2] E3]. apply Nat.leb_le in E1. apply Nat.eqb_eq in E2.
      apply negb_true_iff in E3. apply Nat.eqb_neq in E3.
      destruct (seg_decomp t' E1) as [Et' Hj']. rewrite E2 in Et'. set (j' := (t' - pre) mod diag) in *.
      apply negb_true_iff. apply not_true_is_false. intros Hcc.
      destruct (get_cell q mainf t') as [k'|] eqn:Ek'; [|discriminate]. cbn [cell_eqb] in Hcc. apply Nat.eqb_eq in Hcc. subst k'.
      pose proof (proj1 (ntrue_lt2 (fun j0 => bit s (pre + r * diag + j0) mainf k) (js (pre + r * diag)) (js_nodup _))
                        (HB r k ltac:(lia) ltac:(lia))) as Hlt2. cbv beta in Hlt2.
      assert (Ejj : j = j').
      { apply Hlt2.
        - apply in_js. lia.
        - apply in_js. lia.
        - rewrite <- Et, (Hmbit t k ltac:(lia) Hk), Ek, is_level_some. apply Nat.eqb_refl.
        - rewrite <- Et', (Hmbit t' k ltac:(lia) Hk), Ek', is_level_some. apply Nat.eqb_refl. }
      lia.
  - (* and conversely *)
    intros H. split.
    + intros r j k idx Ht Hj Hk Hidx Hne' Hb. set (t := pre + r * diag + j) in *.
      specialize (H t ltac:(apply in_seq; lia)). cbv beta in H.
      replace (t <? pre) with false in H by (symmetry; apply Nat.ltb_ge; unfold t; lia).
      assert (Eseg : (t - pre) / diag = r) by (unfold t; now apply seg_of).
      cbv zeta in H. rewrite !Nat.div_1_r, !Eseg in H.
      rewrite rot_main, Nat.add_0_r, Hnm, (Nat.mod_small k diag Hk), (Hmbit t k Ht Hk) in Hb.
      destruct (get_cell q mainf t) as [k0|] eqn:Ek; [|discriminate]. rewrite is_level_some in Hb. apply Nat.eqb_eq in Hb. subst k0.
      apply andb_true_iff in H. destruct H as [H1 _].
      pose proof (proj1 (forallb_combine_nth _ others (rotations others r) (0, 0) 0 (rots_len r)) H1) as H1'. clear H1. rename H1' into H1.
      destruct (unskip_surj idx Hidx Hne') as (p & Hp & ->).
      specialize (H1 p ltac:(rewrite others_length; exact Hp)). rewrite (others_nth p Hp) in H1.
      pose proof (unskip_lt p Hp) as Hu. destruct (fs_act _ Hu) as [Ha Hc].
      rewrite (rot_other r p Hp), (nls_nth _ Hu).
      assert (Hlv : (k + nth p (rotations others r) 0) mod nlevels fb (nth (unskip main p) fs 0) < nlevels fb (nth (unskip main p) fs 0)).
      { apply Nat.mod_upper_bound. pose proof (nls_pos _ Hu) as P. rewrite (nls_nth _ Hu) in P. lia. }
      rewrite (Hbit t _ _ Ht Ha (Hap _ t Ha Hc) Hlv). exact H1.
    + intros r l Hr Hl. apply (ntrue_lt2 _ _ (js_nodup _)). intros a b Hja Hjb Ga Gb.
      apply in_js in Hja, Hjb. destruct Hja as [Ha1 Ha2], Hjb as [Hb1 Hb2].
      rewrite (Hmbit _ l Ha2 ltac:(lia)) in Ga. rewrite (Hmbit _ l Hb2 ltac:(lia)) in Gb.
      destruct (get_cell q mainf (pre + r * diag + a)) as [ka|] eqn:Eka; [|discriminate].
      destruct (get_cell q mainf (pre + r * diag + b)) as [kb|] eqn:Ekb; [|discriminate].
      rewrite is_level_some in Ga, Gb. apply Nat.eqb_eq in Ga, Gb. subst ka kb.
      destruct (Nat.eq_dec a b) as [E|N]; [exact E|exfalso].
      set (t := pre + r * diag + a) in *. specialize (H t ltac:(apply in_seq; lia)). cbv beta in H.
      replace (t <? pre) with false in H by (symmetry; apply Nat.ltb_ge; unfold t; lia).
      assert (Eseg : (t - pre) / diag = r) by (unfold t; now apply seg_of).
      cbv zeta in H. rewrite !Nat.div_1_r, !Eseg in H. rewrite Eka in H.
      apply andb_true_iff in H. destruct H as [_ H2]. rewrite forallb_forall in H2.
      specialize (H2 (pre + r * diag + b) ltac:(apply in_seq; lia)). cbv beta in H2. rewrite !Nat.div_1_r in H2.
      replace (pre <=? pre + r * diag + b) with true in H2 by (symmetry; apply Nat.leb_le; lia).
      rewrite (seg_of r b Hb1), Nat.eqb_refl in H2.
      replace (pre + r * diag + b - pre =? t - pre) with false in H2 by (symmetry; apply Nat.eqb_neq; unfold t; lia).
      cbn [andb negb] in H2. rewrite Ekb in H2. cbn [cell_eqb] in H2. rewrite Nat.eqb_refl in H2. discriminate.
Qed.

End One.
(** * The constraint *)
Definition Platin (fs : list nat) (s : asg) : Prop :=
  match fs with
  | [] | [_] => True
  | f0 :: _ => Platin_one fs (pre_of fb f0) s
  end.

Lemma latin_guard f0 f1 r :
  constraint_f1 fb (FLatin (f0 :: f1 :: r)) = true ->
  Forall (fun f => isact fb f = true /\ is_complex fb f = false) (f0 :: f1 :: r) /\
  sustain_of fb f0 = 1 /\ factor_preamble_size fb f0 = COk (pre_of fb f0).
Proof.
  cbn [constraint_f1]. rewrite !andb_true_iff. intros [[A B] C]. apply Nat.eqb_eq in B. split; [|split; [exact B|]].
  - rewrite forallb_forall in A. apply Forall_forall. intros f Hf. specialize (A f Hf).
    apply andb_true_iff in A. destruct A as [A1 A2]. apply negb_true_iff in A2. now split.
  - unfold pre_of. destruct (factor_preamble_size fb f0); [reflexivity|discriminate].
Qed.

Lemma apply_latin_eq f0 f1 r fresh :
  constraint_f1 fb (FLatin (f0 :: f1 :: r)) = true ->
  apply_constraint fb (FLatin (f0 :: f1 :: r)) fresh =
  let '(cls, fresh') := cnf_fn (fst (LL (f0 :: f1 :: r) (pre_of fb f0))) fresh in
  COk {| ct_fresh := fresh'; ct_clauses := cls; ct_requests := snd (LL (f0 :: f1 :: r) (pre_of fb f0)) |}.
Proof.
  intros Hc. destruct (latin_guard f0 f1 r Hc) as (Hfs & Hsu & Hpre).
  cbn [apply_constraint]. unfold apply_latin. rewrite Hpre, Hsu. cbn [cbind].
  rewrite (latin_loop_eq (f0 :: f1 :: r) Hfs ltac:(discriminate) (S (T fb)) (pre_of fb f0) _ ltac:(lia)). cbn [cbind].
  reflexivity.
Qed.

Lemma step_latin fs :
  constraint_f1 fb (FLatin fs) = true ->
  forall fresh ct, (GZ < fresh)%Z -> apply_constraint fb (FLatin fs) fresh = COk ct ->
  exists ext, DefinesA (fresh - 1) (ct_fresh ct - 1) (ct_clauses ct) (ct_requests ct) ext (Platin fs).
Proof.
  intros Hc fresh ct Hfr E. destruct fs as [|f0 [|f1 r]]; [discriminate Hc| |].
  - cbn [apply_constraint] in E. unfold apply_latin in E. inversion E. subst ct. cbn [ct_fresh ct_clauses ct_requests Platin].
    exists (fun s => s). apply definesA_nil. unfold F1Kinds.GZ, zn in Hfr. lia.
  - rewrite (apply_latin_eq f0 f1 r fresh Hc) in E. destruct (latin_guard f0 f1 r Hc) as (Hfs & _ & _).
    destruct (cnf_fn _ fresh) as [cls fresh'] eqn:Ecnf. inversion E. subst ct. cbn [ct_fresh ct_clauses ct_requests].
    exact (latin_block (f0 :: f1 :: r) Hfs ltac:(discriminate) (pre_of fb f0) fresh cls fresh' Hfr Ecnf).
Qed.

Lemma latin_total fs fresh :
  constraint_f1 fb (FLatin fs) = true -> exists ct, apply_constraint fb (FLatin fs) fresh = COk ct.
Proof.
  intros Hc. destruct fs as [|f0 [|f1 r]]; [discriminate Hc| |].
  - cbn [apply_constraint]. unfold apply_latin. eexists. reflexivity.
  - rewrite (apply_latin_eq f0 f1 r fresh Hc). destruct (cnf_fn _ fresh). eexists. reflexivity.
Qed.

Lemma remove_nth_map {A B} (g : A -> B) k (l : list A) : remove_nth k (map g l) = map g (remove_nth k l).
Proof. unfold remove_nth. now rewrite map_app, firstn_map, skipn_map. Qed.

Theorem latin_sem_c s q fs :
  onehot fb s q -> constraint_f1 fb (FLatin fs) = true ->
  (Platin fs s <-> forallb (constraint_ok (code_sem fb) q) (code_constraint fb (FLatin fs)) = true).
Proof.
  intros Ho Hc. destruct fs as [|f0 [|f1 r]]; [discriminate Hc| |].
  - cbn [Platin code_constraint forallb]. tauto.
  - destruct (latin_guard f0 f1 r Hc) as (Hfs & Hsu & _).
    assert (Hne : f0 :: f1 :: r <> []) by discriminate.
    change (Platin (f0 :: f1 :: r) s) with (Platin_one (f0 :: f1 :: r) (pre_of fb f0) s).
    rewrite (platin_seg _ Hfs Hne (pre_of fb f0) s), (latin_sem _ Hfs Hne (pre_of fb f0) s q Ho).
    unfold code_constraint. cbn [forallb]. rewrite andb_true_r.
    unfold constraint_ok, mk_c. cbn [k_kind k_factor k_level k_windows]. rewrite Hsu.
    rewrite (flat_map_remove_nth (fun f => (f, nlevels fb f))).
    unfold others, xs. rewrite remove_nth_map. reflexivity.
Qed.

End F1Latin.
