(** The (b) halves in F1: the grid predicates of Encode/F1Kinds.v on a one-hot
    grid are the documented meaning ([Design/Sem.v] on [code_sem fb]) of the
    sequence the grid encodes. *)
From Coq Require Import ZArith List Bool Arith Lia.
From SP Require Import Base.Sat Base.Bits.
From SP Require Import Design.Flat Design.Layout Design.Sem.
From SP Require Import Encode.Compile Encode.CodeSem Encode.Runs Encode.GridLemmas Encode.LayoutF1 Encode.PrevArith Encode.F1Kinds.
Import ListNotations.
Close Scope Z_scope.
Open Scope nat_scope.

Lemma find_unique (p : nat -> bool) n i :
  i < n -> (forall j, j < n -> p j = (j =? i)) -> find p (seq 0 n) = Some i.
Proof.
  intros Hi H.
  assert (G : forall k m, k <= i -> i < k + m -> (forall j, k <= j < k + m -> p j = (j =? i)) -> find p (seq k m) = Some i).
  { intros k m. revert k. induction m as [|m IH]; intros k Hk Hm Hp; [lia|]. cbn [seq find].
    rewrite (Hp k ltac:(lia)). destruct (k =? i) eqn:E.
    - apply Nat.eqb_eq in E. now subst.
    - apply Nat.eqb_neq in E. apply IH; [lia|lia|]. intros j Hj. apply Hp. lia. }
  apply G; [lia|lia|]. intros j Hj. apply H. lia.
Qed.

Lemma nth_map_seq {A} (g : nat -> A) n i d : i < n -> nth i (map g (seq 0 n)) d = g i.
Proof.
  intros H. rewrite (nth_indep _ d (g 0)) by (now rewrite map_length, seq_length).
  now rewrite (map_nth g (seq 0 n) 0 i), seq_nth.
Qed.

Lemma cell_eqb_sym a b : cell_eqb a b = cell_eqb b a.
Proof. destruct a, b; cbn [cell_eqb]; try reflexivity. apply Nat.eqb_sym. Qed.

Section F1Sem.
Variable fb : flat.
Hypothesis HF1 : in_f1 fb = true.
Hypothesis HT : 0 < T fb.

Notation bit := (bit fb).
Notation col := (col fb).

(** * Decoding the grid *)
Notation Facts := (in_f1_facts fb HF1).

Definition lev_of (c : cell) : nat := match c with Some x => x | None => 0 end.

(** the cell of a factor of [act_design]: the level whose variable is on, nothing
    in the trials in which a factor with a complex window has no level *)
Definition cell_act (s : asg) (t f : nat) : cell :=
  if lappl fb f t then find (fun l => bit s t f l) (seq 0 (nlevels fb f)) else None.

(** the rows of the factors of [act_design] as a sequence (the other rows are not read) *)
Definition dec_act (s : asg) : tseq :=
  map (fun f => map (fun t => cell_act s t f) (seq 0 (T fb))) (seq 0 (nf fb)).

(** the cell of an implied factor computed from a sequence [q] that holds the rows it
    reads: nothing where the factor does not apply, else the first level whose table
    accepts its window over [q] ([add_implied_levels]) *)
Definition impl_cell (q : tseq) (t f : nat) : cell :=
  match factor_at fb f with
  | Some fd => match ff_window fd with
               | Some w =>
                 if applies (code_factor fb f fd) t
                 then find (fun l => accepts (dwin fd w) l (window_args q (code_factor fb f fd) (dwin fd w) t))
                           (seq 0 (nlevels fb f))
                 else None
               | None => None
               end
  | None => None
  end.

(** the implied rows are filled in design order (an implied factor may read implied factors listed before it) *)
Definition set_row (q : tseq) (f : nat) (row : list cell) : tseq :=
  map (fun g => if g =? f then row else nth g q []) (seq 0 (nf fb)).

Definition dec_step (q : tseq) (f : nat) : tseq :=
  if isact fb f then q else set_row q f (map (fun t => impl_cell q t f) (seq 0 (T fb))).

Definition dec_upto (s : asg) (n : nat) : tseq := fold_left dec_step (seq 0 n) (dec_act s).

Definition cell_impl (s : asg) (t f : nat) : cell := impl_cell (dec_upto s f) t f.

(** does factor [f] have a level in trial [t] *)
Definition appl (f t : nat) : bool :=
  match factor_at fb f with Some fd => applies (code_factor fb f fd) t | None => true end.

Definition cell_of (s : asg) (t f : nat) : cell :=
  if isact fb f then cell_act s t f else cell_impl s t f.

Definition decode (s : asg) : tseq :=
  map (fun f => map (fun t => cell_of s t f) (seq 0 (T fb))) (seq 0 (nf fb)).

(** [q] has one level per cell of the factors of [act_design], the grid part of [s]
    is the one-hot image of those rows, and the rows of the implied factors are the
    levels derived from them (no level where the factor does not apply) *)
Definition onehot (s : asg) (q : tseq) : Prop :=
  length q = nf fb /\
  (forall f, f < nf fb -> length (nth f q []) = T fb) /\
  (forall t f, t < T fb -> isact fb f = true -> lappl fb f t = true ->
     exists l, l < nlevels fb f /\ get_cell q f t = Some l) /\
  (forall t f l, t < T fb -> isact fb f = true -> lappl fb f t = true -> l < nlevels fb f ->
     bit s t f l = is_level l (get_cell q f t)) /\
  (forall t f, t < T fb -> f < nf fb -> isact fb f = false -> get_cell q f t = cell_impl s t f) /\
  (forall t f, t < T fb -> isact fb f = true -> lappl fb f t = false -> get_cell q f t = None).

Lemma decode_cell s t f : t < T fb -> f < nf fb -> get_cell (decode s) f t = cell_of s t f.
Proof.
  intros Ht Hf. unfold get_cell, decode. rewrite (nth_map_seq _ (nf fb) f [] Hf). now rewrite nth_map_seq.
Qed.

Lemma decode_row_length s f : f < nf fb -> length (nth f (decode s) []) = T fb.
Proof.
  intros Hf. unfold decode. rewrite (nth_map_seq _ (nf fb) f [] Hf). now rewrite map_length, seq_length.
Qed.

Lemma is_level_some l x : is_level l (Some x) = (x =? l).
Proof. reflexivity. Qed.

Lemma find_in_range (p : nat -> bool) n l : find p (seq 0 n) = Some l -> l < n /\ p l = true.
Proof. intros H. apply find_some in H. destruct H as [A B]. apply in_seq in A. split; [lia|exact B]. Qed.

Lemma find_exists (p : nat -> bool) (xs : list nat) : existsb p xs = true -> exists l, find p xs = Some l.
Proof.
  induction xs as [|x xs IH]; cbn [existsb find]; [discriminate|]. destruct (p x); [eauto|]. cbn [orb]. exact IH.
Qed.

Lemma in_product_lists {A B} (g : A -> B) (L : A -> list B) : forall deps,
  (forall d, In d deps -> In (g d) (L d)) -> In (map g deps) (product (map L deps)).
Proof.
  induction deps as [|d deps IH]; intros H; [now left|].
  cbn [map product]. apply in_flat_map. exists (g d). split; [apply H; now left|].
  apply in_map. apply IH. intros e He. apply H. now right.
Qed.

(** a column of [width] in-range levels is one of [all_cols] *)
Lemma in_all_cols n : forall (c : list cell),
  Forall (fun x => exists i, i < n /\ x = Some i) c -> In c (all_cols n (length c)).
Proof.
  induction c as [|x c IH]; intros H; [now left|]. inversion H as [|? ? (i & Hi & ->) Hr]; subst.
  cbn [length all_cols]. apply in_flat_map. exists i. split; [apply in_seq; lia|]. apply in_map. now apply IH.
Qed.

(** ... and a column of [k] empty cells followed by in-range levels is one of [all_cols_from] *)
Lemma in_all_cols_from n : forall k (c : list cell), k <= length c ->
  (forall j, j < k -> nth j c None = None) ->
  (forall j, k <= j < length c -> exists i, i < n /\ nth j c None = Some i) ->
  In c (all_cols_from n (length c) k).
Proof.
  induction k as [|k IH]; intros c Hk Hn Hs.
  - cbn [all_cols_from]. apply in_all_cols. apply Forall_forall. intros x Hx.
    destruct (In_nth c x None Hx) as (j & Hj & <-). destruct (Hs j ltac:(lia)) as (i & Hi & E). exists i. now split.
  - destruct c as [|x c]; [cbn in Hk; lia|]. cbn [length all_cols_from].
    pose proof (Hn 0 ltac:(lia)) as H0. cbn [nth] in H0. subst x. apply in_map. apply IH.
    + cbn [length] in Hk. lia.
    + intros j Hj. apply (Hn (S j)). lia.
    + intros j Hj. apply (Hs (S j)). cbn [length]. lia.
Qed.

(** a filter of length one: [find] returns its only member *)
Lemma find_only (p : nat -> bool) n l :
  length (filter p (seq 0 n)) = 1 -> l < n -> p l = true -> find p (seq 0 n) = Some l.
Proof.
  intros H1 Hl Pl. destruct (find p (seq 0 n)) as [l1|] eqn:E.
  - destruct (find_in_range p n l1 E) as [Hl1 Pl1]. destruct (Nat.eq_dec l1 l) as [->|N]; [reflexivity|exfalso].
    assert (H2 : 2 <= length (filter p (seq 0 n))).
    { change 2 with (length [l1; l]). apply NoDup_incl_length.
      - constructor; [|constructor; [intros []|constructor]]. intros [Q|[]]. now apply N.
      - intros x [<-|[<-|[]]]; apply filter_In; (split; [apply in_seq; lia|assumption]). }
    lia.
  - pose proof (find_none _ _ E l ltac:(apply in_seq; lia)) as Q. cbv beta in Q. congruence.
Qed.

Lemma nlevels_at f fd : nth_error (fl_design fb) f = Some fd -> nlevels fb f = length (ff_levels fd).
Proof. intros E. unfold nlevels, factor_at. now rewrite E. Qed.

(** the implied factors are not sustained *)
Lemma impl_sustain f : f < nf fb -> isact fb f = false -> sustain_of fb f = 1.
Proof.
  intros Hf Ha. destruct (nth_error (fl_design fb) f) as [fd|] eqn:Efd.
  - apply (f1_sustain_one fb Facts f fd Efd). unfold sact. now rewrite Ha.
  - apply nth_error_None in Efd. unfold nf in Hf. lia.
Qed.

(** [Sem.applies] on [code_sem] is [Factor.applies_to_trial] of the layout *)
Lemma appl_lappl f t : appl f t = lappl fb f t.
Proof.
  unfold appl. rewrite (lappl_unfold fb f t). unfold applies_to_trial.
  destruct (factor_at fb f) as [fd|] eqn:Efd; [|reflexivity].
  unfold applies. cbn [f_derived code_factor f_sustain]. destruct (ff_window fd) as [w|] eqn:Ew; [|reflexivity].
  cbn [w_start w_stride]. set (g := t / sustain_of fb f).
  replace (g + 1 - (win_start w + 1)) with (g - win_start w) by lia. f_equal.
  destruct (Nat.leb_spec (win_start w) g), (Nat.leb_spec (win_start w + 1) (g + 1)); try reflexivity; lia.
Qed.

Lemma applies_lappl f fd t : nth_error (fl_design fb) f = Some fd -> applies (code_factor fb f fd) t = lappl fb f t.
Proof. intros Efd. rewrite <- appl_lappl. unfold appl, factor_at. now rewrite Efd. Qed.

(** a factor of [act_design] without a complex window has a level in every trial *)
Lemma appl_act f t : isact fb f = true -> is_complex fb f = false -> appl f t = true.
Proof. intros Ha Hc. rewrite appl_lappl. now apply (lappl_simple fb HF1). Qed.

Lemma sact_lappl d t : sact fb d = true -> isact fb d = true /\ lappl fb d t = true.
Proof.
  intros H. apply (sact_split fb) in H. destruct H as [Ha Hc]. split; [exact Ha|now apply (lappl_simple fb HF1)].
Qed.

(** an implied factor of an F1 record: its window never reads before the first
    trial, its dependencies are in [act_design], one level accepts every argument tuple *)
Lemma implied_facts f : f < nf fb -> isact fb f = false ->
  exists fd w, nth_error (fl_design fb) f = Some fd /\ ff_window fd = Some w /\
               Forall (fun d => dep_ok fb f d = true) (win_deps w) /\
               0 < win_width w /\ 0 < win_stride w /\
               (forall k args, k <= win_width w - 1 - win_start w -> In args (all_args_from fb w k) ->
                  length (filter (fun l => accepts (dwin fd w) l args) (seq 0 (nlevels fb f))) = 1).
Proof.
  intros Hf Ha. destruct (nth_error (fl_design fb) f) as [fd|] eqn:Efd.
  2:{ apply nth_error_None in Efd. unfold nf in Hf. lia. }
  pose proof (f1_implied fb Facts f fd Efd) as Hi. unfold implied_ok in Hi. rewrite Ha in Hi. cbn [orb] in Hi.
  apply andb_true_iff in Hi. destruct Hi as [Hw Htot]. unfold factor_impl_f1 in Hw.
  destruct (ff_window fd) as [w|] eqn:Ew; [|rewrite andb_false_r in Hw; discriminate].
  rewrite !andb_true_iff in Hw. destruct Hw as [_ [W1 W2]].
  apply Nat.ltb_lt in W1, W2.
  exists fd, w. split; [reflexivity|]. split; [exact Ew|]. split; [|split; [exact W1|split; [exact W2|]]].
  - destruct (f1_tables fb Facts f fd Efd) as [Htab _]. unfold tables_ok in Htab. rewrite Ew in Htab.
    apply andb_true_iff in Htab. destruct Htab as [Hd _]. rewrite forallb_forall in Hd. now apply Forall_forall.
  - intros k args Hk Hin. unfold tables_total in Htot. rewrite Ew, forallb_forall in Htot.
    specialize (Htot k ltac:(apply in_seq; lia)). rewrite forallb_forall in Htot.
    rewrite (nlevels_at f fd Efd). apply Nat.eqb_eq. now apply Htot.
Qed.

(** the window of an unsustained factor, unfolded: the cells [width - 1 - j] trials back, none before the first trial *)
Lemma window_args_su1 (q : tseq) f fd w t :
  sustain_of fb f = 1 -> ff_window fd = Some w ->
  window_args q (code_factor fb f fd) (dwin fd w) t =
  map (fun d => map (fun j => if win_width w - 1 - j <=? t then get_cell q d (t - (win_width w - 1 - j)) else None)
                    (seq 0 (win_width w))) (win_deps w).
Proof.
  intros Hsu Ew. unfold window_args. cbn [f_sustain code_factor w_deps w_width dwin]. rewrite Hsu, Nat.div_1_r, Nat.mul_1_r.
  apply map_ext. intros d. apply map_ext. intros j. now rewrite Nat.mul_1_r.
Qed.

(** the window only depends on the earlier-or-equal cells of the depended-on factors *)
Lemma window_ext_su1 (q q' : tseq) f fd w t :
  sustain_of fb f = 1 -> ff_window fd = Some w ->
  (forall d t', In d (win_deps w) -> t' <= t -> get_cell q d t' = get_cell q' d t') ->
  window_args q (code_factor fb f fd) (dwin fd w) t = window_args q' (code_factor fb f fd) (dwin fd w) t.
Proof.
  intros Hsu Ew H. rewrite !(window_args_su1 _ f fd w t Hsu Ew).
  apply map_ext_in. intros d Hd. apply map_ext. intros j.
  destruct (win_width w - 1 - j <=? t); [|reflexivity]. apply H; [exact Hd|lia].
Qed.

(** if the depended-on cells are levels, the window at a trial where the factor applies is
    one of the tuples of [all_args_from] for the number of trials missing before the first *)
Lemma window_in_su1 (q : tseq) f fd w t :
  sustain_of fb f = 1 -> applies (code_factor fb f fd) t = true -> ff_window fd = Some w -> 0 < win_width w ->
  (forall d t', In d (win_deps w) -> t' <= t -> exists x, x < nlevels fb d /\ get_cell q d t' = Some x) ->
  exists k, k <= win_width w - 1 - win_start w /\
            In (window_args q (code_factor fb f fd) (dwin fd w) t) (all_args_from fb w k).
Proof.
  intros Hsu Hap Ew W1 H. rewrite (window_args_su1 q f fd w t Hsu Ew).
  unfold applies in Hap. cbn [f_derived code_factor] in Hap. rewrite Ew in Hap.
  cbn [f_sustain code_factor w_start w_stride] in Hap. rewrite Hsu, Nat.div_1_r in Hap.
  apply andb_true_iff in Hap. destruct Hap as [Hst _]. apply Nat.leb_le in Hst.
  exists (win_width w - 1 - t). split; [lia|]. unfold all_args_from.
  apply in_product_lists. intros d Hd.
  set (c := map (fun j => if win_width w - 1 - j <=? t then get_cell q d (t - (win_width w - 1 - j)) else None) (seq 0 (win_width w))).
  assert (Hlen : length c = win_width w) by (unfold c; now rewrite map_length, seq_length).
  rewrite <- Hlen at 1. apply in_all_cols_from.
  - rewrite Hlen. lia.
  - intros j Hj. unfold c. rewrite (nth_indep _ None ((fun j0 => if win_width w - 1 - j0 <=? t then get_cell q d (t - (win_width w - 1 - j0)) else None) 0)) by (rewrite map_length, seq_length; lia).
    rewrite (map_nth (fun j0 => if win_width w - 1 - j0 <=? t then get_cell q d (t - (win_width w - 1 - j0)) else None)), seq_nth by lia.
    cbn [Nat.add]. replace (win_width w - 1 - j <=? t) with false by (symmetry; apply Nat.leb_gt; lia). reflexivity.
  - intros j Hj. rewrite Hlen in Hj. unfold c. rewrite (nth_indep _ None ((fun j0 => if win_width w - 1 - j0 <=? t then get_cell q d (t - (win_width w - 1 - j0)) else None) 0)) by (rewrite map_length, seq_length; lia).
    rewrite (map_nth (fun j0 => if win_width w - 1 - j0 <=? t then get_cell q d (t - (win_width w - 1 - j0)) else None)), seq_nth by lia.
    cbn [Nat.add]. replace (win_width w - 1 - j <=? t) with true by (symmetry; apply Nat.leb_le; lia).
    destruct (H d (t - (win_width w - 1 - j)) Hd ltac:(lia)) as (x & Hx & Ex). exists x. now split.
Qed.

(** the window of an implied factor at a trial where it applies reads only
    earlier-or-equal trials *)
Lemma impl_window_args (q : tseq) f fd w t :
  sustain_of fb f = 1 -> win_width w - 1 <= win_start w -> applies (code_factor fb f fd) t = true -> ff_window fd = Some w ->
  window_args q (code_factor fb f fd) (dwin fd w) t =
  map (fun d => map (fun j => get_cell q d (t - (win_width w - 1 - j))) (seq 0 (win_width w))) (win_deps w).
Proof.
  intros Hsu Hws Hap Ew. unfold applies in Hap. cbn [f_derived code_factor] in Hap. rewrite Ew in Hap.
  cbn [f_sustain code_factor w_start w_stride] in Hap. rewrite Hsu, Nat.div_1_r in Hap.
  apply andb_true_iff in Hap. destruct Hap as [Hst _]. apply Nat.leb_le in Hst.
  unfold window_args. cbn [f_sustain code_factor w_deps w_width dwin]. rewrite Hsu, Nat.div_1_r, Nat.mul_1_r.
  apply map_ext. intros d. apply map_ext_in. intros j Hj. apply in_seq in Hj. rewrite Nat.mul_1_r.
  replace (win_width w - 1 - j <=? t) with true by (symmetry; apply Nat.leb_le; lia). reflexivity.
Qed.

(** the window only depends on the rows of the depended-on factors *)
Lemma impl_window_ext (q q' : tseq) f fd w t :
  sustain_of fb f = 1 -> win_width w - 1 <= win_start w -> applies (code_factor fb f fd) t = true -> ff_window fd = Some w ->
  (forall d t', In d (win_deps w) -> t' <= t -> get_cell q d t' = get_cell q' d t') ->
  window_args q (code_factor fb f fd) (dwin fd w) t = window_args q' (code_factor fb f fd) (dwin fd w) t.
Proof.
  intros Hsu Hws Hap Ew H. rewrite !(impl_window_args _ f fd w t Hsu Hws Hap Ew).
  apply map_ext_in. intros d Hd. apply map_ext. intros j. apply H; [exact Hd|lia].
Qed.

(** if the depended-on cells are levels, the window is one of the tuples of [all_args] *)
Lemma impl_window_in (q : tseq) f fd w t :
  sustain_of fb f = 1 -> win_width w - 1 <= win_start w -> applies (code_factor fb f fd) t = true -> ff_window fd = Some w ->
  (forall d t', In d (win_deps w) -> t' <= t -> exists x, x < nlevels fb d /\ get_cell q d t' = Some x) ->
  In (window_args q (code_factor fb f fd) (dwin fd w) t) (all_args fb w).
Proof.
  intros Hsu Hws Hap Ew H. rewrite (impl_window_args q f fd w t Hsu Hws Hap Ew). unfold all_args.
  apply in_product_lists. intros d Hd.
  replace (win_width w) with (length (map (fun j => get_cell q d (t - (win_width w - 1 - j))) (seq 0 (win_width w)))) at 2
    by now rewrite map_length, seq_length.
  apply in_all_cols. apply Forall_forall. intros c Hc. apply in_map_iff in Hc. destruct Hc as (j & <- & _).
  destruct (H d (t - (win_width w - 1 - j)) Hd ltac:(lia)) as (x & Hx & Ex). now exists x.
Qed.

Lemma dec_act_cell s t f : t < T fb -> f < nf fb -> get_cell (dec_act s) f t = cell_act s t f.
Proof.
  intros Ht Hf. unfold get_cell, dec_act. rewrite (nth_map_seq _ (nf fb) f [] Hf). now rewrite nth_map_seq.
Qed.

(** on a consistent grid every act cell is a level in range *)
Lemma pcons_cell_act s t f : Pcons fb s -> t < T fb -> isact fb f = true -> lappl fb f t = true ->
  exists i, i < nlevels fb f /\ cell_act s t f = Some i /\ forall l, l < nlevels fb f -> bit s t f l = (l =? i).
Proof.
  intros H Ht Hf Hap. specialize (H t f Ht Hf Hap). apply ntrue_one in H. destruct H as (i & Hi & Hn).
  rewrite map_length, seq_length in Hi, Hn. exists i. split; [exact Hi|].
  assert (Hb : forall l, l < nlevels fb f -> bit s t f l = (l =? i)).
  { intros l Hl. rewrite <- (Hn l Hl). now rewrite nth_map_seq. }
  split; [|exact Hb]. unfold cell_act. rewrite Hap. now apply find_unique.
Qed.

(** ** The rows the implied factors are computed from *)
Lemma set_row_cell q f row g t : g < nf fb ->
  get_cell (set_row q f row) g t = if g =? f then nth t row None else get_cell q g t.
Proof.
  intros Hg. unfold get_cell, set_row. rewrite (nth_map_seq _ (nf fb) g [] Hg). now destruct (g =? f).
Qed.

Lemma dec_upto_S s n : dec_upto s (S n) = dec_step (dec_upto s n) n.
Proof. unfold dec_upto. rewrite seq_S, fold_left_app. reflexivity. Qed.

Lemma dec_upto_cell s n : forall g t, g < nf fb -> t < T fb ->
  get_cell (dec_upto s n) g t = if (g <? n) && negb (isact fb g) then cell_impl s t g else cell_act s t g.
Proof.
  induction n as [|n IH]; intros g t Hg Ht.
  - cbn [Nat.ltb Nat.leb andb]. unfold dec_upto. cbn [seq fold_left]. now apply dec_act_cell.
  - rewrite dec_upto_S. unfold dec_step. destruct (isact fb n) eqn:En.
    + rewrite (IH g t Hg Ht). destruct (Nat.eq_dec g n) as [->|Ne].
      * rewrite En. cbn [negb]. now rewrite !andb_false_r.
      * replace (g <? S n) with (g <? n); [reflexivity|].
        destruct (Nat.ltb_spec g n), (Nat.ltb_spec g (S n)); try reflexivity; lia.
    + rewrite (set_row_cell _ n _ g t Hg). destruct (g =? n) eqn:Eg.
      * apply Nat.eqb_eq in Eg. subst g. rewrite nth_map_seq by exact Ht.
        replace (n <? S n) with true by (symmetry; apply Nat.ltb_lt; lia). rewrite En. reflexivity.
      * apply Nat.eqb_neq in Eg. rewrite (IH g t Hg Ht).
        replace (g <? S n) with (g <? n); [reflexivity|].
        destruct (Nat.ltb_spec g n), (Nat.ltb_spec g (S n)); try reflexivity; lia.
Qed.

(** what a dependency of an implied factor is *)
Lemma dep_ok_cases f d : isact fb f = false -> dep_ok fb f d = true ->
  sact fb d = true \/ (isact fb d = false /\ d < f /\ forall t, appl d t = true).
Proof.
  intros Ha H. unfold dep_ok in H. apply orb_true_iff in H. destruct H as [H|H]; [now left|right].
  rewrite Ha in H. cbn [negb andb] in H. rewrite !andb_true_iff in H. destruct H as [[Hd Hlt] Hal].
  apply negb_true_iff in Hd. apply Nat.ltb_lt in Hlt. split; [exact Hd|]. split; [exact Hlt|].
  intros t. unfold always_appl in Hal. unfold appl. destruct (factor_at fb d) as [fd|]; [|discriminate].
  unfold applies. cbn [f_derived code_factor]. destruct (ff_window fd) as [w|]; [|reflexivity].
  apply andb_true_iff in Hal. destruct Hal as [H0 H1]. apply Nat.eqb_eq in H0, H1. cbn [w_start w_stride].
  rewrite H0, H1, Nat.mod_1_r. reflexivity.
Qed.

Lemma dep_lt f d : f < nf fb -> isact fb f = false -> dep_ok fb f d = true -> d < nf fb.
Proof.
  intros Hf Ha H. destruct (dep_ok_cases f d Ha H) as [Hs|(_ & Hlt & _)]; [|lia].
  apply (sact_split fb) in Hs. destruct Hs as [Hd _]. now apply (f1_act_lt fb HF1).
Qed.

(** the rows an implied factor is computed from hold the cells of its dependencies *)
Lemma base_reads s f d t : f < nf fb -> isact fb f = false -> dep_ok fb f d = true -> t < T fb ->
  get_cell (dec_upto s f) d t = cell_of s t d.
Proof.
  intros Hf Ha Hd Ht. rewrite (dec_upto_cell s f d t (dep_lt f d Hf Ha Hd) Ht). unfold cell_of.
  destruct (dep_ok_cases f d Ha Hd) as [Hs|(Hda & Hlt & _)].
  - apply (sact_split fb) in Hs. destruct Hs as [Hda _]. rewrite Hda. cbn [negb]. now rewrite andb_false_r.
  - rewrite Hda. cbn [negb]. replace (d <? f) with true by (symmetry; now apply Nat.ltb_lt). reflexivity.
Qed.

(** the cell computed from any sequence holding those cells is the implied cell *)
Lemma impl_cell_ext q q' t f fd w :
  nth_error (fl_design fb) f = Some fd -> ff_window fd = Some w -> sustain_of fb f = 1 ->
  (forall d t', In d (win_deps w) -> t' <= t -> get_cell q d t' = get_cell q' d t') ->
  impl_cell q t f = impl_cell q' t f.
Proof.
  intros Efd Ew Hsu H. unfold impl_cell, factor_at. rewrite Efd, Ew.
  destruct (applies (code_factor fb f fd) t); [|reflexivity].
  now rewrite (window_ext_su1 q q' f fd w t Hsu Ew H).
Qed.

Lemma cell_impl_char s q t f : f < nf fb -> isact fb f = false -> t < T fb ->
  (forall d t', dep_ok fb f d = true -> t' <= t -> get_cell q d t' = cell_of s t' d) ->
  impl_cell q t f = cell_impl s t f.
Proof.
  intros Hf Ha Ht H. destruct (implied_facts f Hf Ha) as (fd & w & Efd & Ew & Hdeps & _).
  unfold cell_impl. apply (impl_cell_ext q (dec_upto s f) t f fd w Efd Ew (impl_sustain f Hf Ha)).
  intros d t' Hd Ht'. pose proof (proj1 (Forall_forall _ _) Hdeps d Hd) as Hok. cbv beta in Hok.
  rewrite (base_reads s f d t' Hf Ha Hok ltac:(lia)). apply H; [exact Hok|lia].
Qed.

(** ... and every implied cell is the level its table derives, where the factor applies *)
Lemma pcons_cell_impl s : Pcons fb s -> forall f t, t < T fb -> f < nf fb -> isact fb f = false ->
  if appl f t then exists l, l < nlevels fb f /\ cell_impl s t f = Some l else cell_impl s t f = None.
Proof.
  intros H f. induction f as [f IHf] using lt_wf_ind. intros t Ht Hf Ha.
  destruct (implied_facts f Hf Ha) as (fd & w & Efd & Ew & Hdeps & W1 & W2 & Htot).
  unfold appl, cell_impl, impl_cell, factor_at. rewrite Efd, Ew.
  destruct (applies (code_factor fb f fd) t) eqn:Hap; [|reflexivity].
  assert (Hin : exists k, k <= win_width w - 1 - win_start w /\
                  In (window_args (dec_upto s f) (code_factor fb f fd) (dwin fd w) t) (all_args_from fb w k)).
  { apply window_in_su1; try assumption; [now apply impl_sustain|]. intros d t' Hd Ht'.
    pose proof (proj1 (Forall_forall _ _) Hdeps d Hd) as Hok. cbv beta in Hok.
    rewrite (base_reads s f d t' Hf Ha Hok ltac:(lia)). unfold cell_of.
    destruct (dep_ok_cases f d Ha Hok) as [Hs|(Hda & Hlt & Hal)].
    - destruct (sact_lappl d t' Hs) as [Hda Hdl]. rewrite Hda.
      destruct (pcons_cell_act s t' d H ltac:(lia) Hda Hdl) as (i & Hi & Ei & _). now exists i.
    - rewrite Hda. pose proof (IHf d Hlt t' ltac:(lia) ltac:(lia) Hda) as P. rewrite (Hal t') in P. exact P. }
  destruct Hin as (k & Hk & Hin). specialize (Htot k _ Hk Hin).
  destruct (find (fun l => accepts (dwin fd w) l (window_args (dec_upto s f) (code_factor fb f fd) (dwin fd w) t))
                 (seq 0 (nlevels fb f))) as [l|] eqn:El.
  - exists l. split; [|reflexivity]. now apply find_in_range in El.
  - exfalso. assert (E0 : filter (fun l => accepts (dwin fd w) l (window_args (dec_upto s f) (code_factor fb f fd) (dwin fd w) t))
                                 (seq 0 (nlevels fb f)) = []).
    { apply filter_all_false. intros x Hx. exact (find_none _ _ El x Hx). }
    rewrite E0 in Htot. discriminate.
Qed.

(** (b) for Consistency: exactly one level per cell = the grid is the one-hot image of its decoding *)
Theorem pcons_onehot s : Pcons fb s <-> onehot s (decode s).
Proof.
  split.
  - intros H. split; [unfold decode; now rewrite map_length, seq_length|]. split; [intros f Hf; now apply decode_row_length|].
    split; [|split; [|split]].
    + intros t f Ht Ea Hap. rewrite decode_cell by (try assumption; now apply (f1_act_lt fb HF1)). unfold cell_of. rewrite Ea.
      destruct (pcons_cell_act s t f H Ht Ea Hap) as (i & Hi & Hc & _). exists i. now split.
    + intros t f l Ht Hf Hap Hl. destruct (pcons_cell_act s t f H Ht Hf Hap) as (i & Hi & Hc & Hb).
      rewrite decode_cell by (try assumption; now apply (f1_act_lt fb HF1)). unfold cell_of. rewrite Hf, Hc, is_level_some.
      rewrite (Hb l Hl). apply Nat.eqb_sym.
    + intros t f Ht Hf Ha. rewrite decode_cell by assumption. unfold cell_of. now rewrite Ha.
    + intros t f Ht Hf Hap. rewrite decode_cell by (try assumption; now apply (f1_act_lt fb HF1)). unfold cell_of, cell_act.
      now rewrite Hf, Hap.
  - intros (_ & _ & Hc & Hb & _) t f Ht Hf Hap. destruct (Hc t f Ht Hf Hap) as (i & Hi & Ei).
    apply ntrue_one. rewrite map_length, seq_length. exists i. split; [exact Hi|]. intros j Hj.
    rewrite nth_map_seq by exact Hj.
    rewrite (Hb t f j Ht Hf Hap Hj), Ei, is_level_some. apply Nat.eqb_sym.
Qed.

Lemma onehot_pcons s q : onehot s q -> Pcons fb s.
Proof.
  intros (_ & _ & Hc & Hb & _) t f Ht Hf Hap. destruct (Hc t f Ht Hf Hap) as (i & Hi & Ei).
  apply ntrue_one. rewrite map_length, seq_length. exists i. split; [exact Hi|]. intros j Hj.
  rewrite nth_map_seq by exact Hj.
  rewrite (Hb t f j Ht Hf Hap Hj), Ei, is_level_some. apply Nat.eqb_sym.
Qed.

(** a one-hot grid determines the sequence *)
Lemma onehot_cell_act s q t f : onehot s q -> t < T fb -> isact fb f = true -> get_cell q f t = cell_act s t f.
Proof.
  intros (_ & _ & Hc & Hb & _ & Hn) Ht Hf. unfold cell_act. destruct (lappl fb f t) eqn:Hap; [|now apply Hn].
  destruct (Hc t f Ht Hf Hap) as (i & Hi & Ei). rewrite Ei. symmetry.
  apply find_unique; [exact Hi|]. intros j Hj. rewrite (Hb t f j Ht Hf Hap Hj), Ei, is_level_some. apply Nat.eqb_sym.
Qed.

Lemma onehot_cell s q t f : onehot s q -> t < T fb -> f < nf fb -> get_cell q f t = cell_of s t f.
Proof.
  intros Ho Ht Hf. unfold cell_of. destruct (isact fb f) eqn:Ea.
  - now apply onehot_cell_act.
  - destruct Ho as (_ & _ & _ & _ & Hi & _). now apply Hi.
Qed.

(** a cell of a factor without a complex window is a level *)
Lemma onehot_simple_cell s q t f : onehot s q -> t < T fb -> isact fb f = true -> is_complex fb f = false ->
  exists l, l < nlevels fb f /\ get_cell q f t = Some l.
Proof. intros (_ & _ & Hc & _) Ht Hf Hcx. apply (Hc t f Ht Hf). now apply (lappl_simple fb HF1). Qed.

Lemma onehot_simple_bit s q t f l : onehot s q -> t < T fb -> isact fb f = true -> is_complex fb f = false ->
  l < nlevels fb f -> bit s t f l = is_level l (get_cell q f t).
Proof. intros (_ & _ & _ & Hb & _) Ht Hf Hcx Hl. apply (Hb t f l Ht Hf); [now apply (lappl_simple fb HF1)|exact Hl]. Qed.

(** * Columns of a one-hot grid are the rows of the sequence *)
Lemma bruns_false_prefix k bs : bruns (repeat false k ++ bs) = bruns bs.
Proof. induction k as [|k IH]; [reflexivity|]. cbn [repeat app]. unfold bruns in *. cbn [bruns_aux Nat.eqb]. exact IH. Qed.

Lemma map_all_false {A} (g : A -> bool) (xs : list A) :
  (forall x, In x xs -> g x = false) -> map g xs = repeat false (length xs).
Proof.
  induction xs as [|x xs IH]; intros H; [reflexivity|]. cbn [map length repeat].
  rewrite (H x (or_introl eq_refl)), IH; [reflexivity|]. intros y Hy. apply H. now right.
Qed.

Lemma ntrue_false_prefix k bs : ntrue (repeat false k ++ bs) = ntrue bs.
Proof. now rewrite ntrue_app, ntrue_repeat_false. Qed.

(** for a factor whose levels exist from its first trial on (stride 1) the row
    slice is the column preceded by the cells without a level *)
Lemma col_slice s q f l a b :
  onehot s q -> isact fb f = true -> stride1 fb f = true -> l < nlevels fb f -> b <= T fb ->
  exists k, map (is_level l) (slice (nth f q []) a b) = repeat false k ++ col s f l a b.
Proof.
  intros (Hq & Hr & Hc & Hb & _ & Hn) Hf Hs Hl Hbt.
  rewrite (map_seq_slice (is_level l) (nth f q []) None a b) by (rewrite Hr; [assumption|now apply (f1_act_lt fb HF1)]).
  unfold F1Kinds.col. rewrite (trials_of_stride1 fb HF1 f a b Hf Hs).
  set (st := start_of fb f). set (m := Nat.max a st).
  assert (Hlap : forall t, lappl fb f t = (st <=? t)) by (intros t; apply (lappl_stride1 fb HF1 f t Hf Hs)).
  destruct (Nat.le_gt_cases m b) as [Hmb|Hmb].
  - exists (m - a). replace (b - a) with ((m - a) + (b - m)) by lia. rewrite seq_app, map_app.
    replace (a + (m - a)) with m by lia. f_equal.
    + rewrite map_all_false; [now rewrite seq_length|].
      intros t Ht. apply in_seq in Ht.
      change (nth t (nth f q []) None) with (get_cell q f t).
      rewrite (Hn t f ltac:(lia) Hf); [reflexivity|]. rewrite Hlap. apply Nat.leb_gt. lia.
    + apply map_ext_in. intros t Ht. apply in_seq in Ht. symmetry.
      apply (Hb t f l ltac:(lia) Hf); [|exact Hl]. rewrite Hlap. apply Nat.leb_le. lia.
  - exists (b - a). replace (b - m) with 0 by lia. cbn [seq map]. rewrite app_nil_r.
    rewrite map_all_false; [now rewrite seq_length|].
    intros t Ht. apply in_seq in Ht.
    change (nth t (nth f q []) None) with (get_cell q f t).
    rewrite (Hn t f ltac:(lia) Hf); [reflexivity|]. rewrite Hlap. apply Nat.leb_gt. lia.
Qed.

Lemma col_bruns s q f l a b :
  onehot s q -> isact fb f = true -> stride1 fb f = true -> l < nlevels fb f -> b <= T fb ->
  bruns (map (is_level l) (slice (nth f q []) a b)) = bruns (col s f l a b).
Proof. intros Ho Hf Hs Hl Hb. destruct (col_slice s q f l a b Ho Hf Hs Hl Hb) as (k & ->). apply bruns_false_prefix. Qed.

Lemma col_ntrue s q f l a b :
  onehot s q -> isact fb f = true -> stride1 fb f = true -> l < nlevels fb f -> b <= T fb ->
  ntrue (map (is_level l) (slice (nth f q []) a b)) = ntrue (col s f l a b).
Proof. intros Ho Hf Hs Hl Hb. destruct (col_slice s q f l a b Ho Hf Hs Hl Hb) as (k & ->). apply ntrue_false_prefix. Qed.

Definition sem := code_sem fb.

(** * (b) for AtMostKInARow *)
Theorem atmost_sem s q k f l wb :
  onehot s q -> constraint_f1 fb (FAtMost k f l wb) = true ->
  (Patmost fb k f l wb s <-> constraint_ok sem q (mk_c (KAtMost k) f l (windows_of fb wb)) = true).
Proof.
  intros Ho Hc. cbn [constraint_f1] in Hc. rewrite !andb_true_iff in Hc. destruct Hc as [[[Hf Hl] Hg] Hst].
  apply Nat.ltb_lt in Hl. destruct (geom_ok_some fb wb Hg) as [rs Ers].
  pose proof (f1_ranges_bound fb wb rs Ers) as Hb. rewrite (ranges_of fb wb rs Ers) in *.
  unfold Patmost, constraint_ok, mk_c. cbn [k_kind k_factor k_level k_windows]. rewrite (ranges_of fb wb rs Ers).
  rewrite forallb_forall, Forall_forall. split; intros H r Hr; specialize (H r Hr);
    pose proof (proj1 (Forall_forall _ _) Hb r Hr) as [_ Hr2].
  - rewrite forallb_forall. intros n Hn. apply Nat.leb_le.
    rewrite runs_bruns, (col_bruns s q f l (fst r) (snd r) Ho Hf Hst Hl Hr2) in Hn.
    apply (proj1 (atmost_windows_runs k _)) in H. exact (proj1 (Forall_forall _ _) H n Hn).
  - apply atmost_windows_runs. rewrite <- (col_bruns s q f l (fst r) (snd r) Ho Hf Hst Hl Hr2), <- runs_bruns.
    apply Forall_forall. intros n Hn. rewrite forallb_forall in H. apply Nat.leb_le. now apply H.
Qed.

(** * (b) for ExactlyK *)
Theorem exactlyk_sem s q k f l wb :
  onehot s q -> constraint_f1 fb (FExactlyK k f l wb) = true ->
  (Pexactlyk fb k f l wb s <-> constraint_ok sem q (mk_c (KExactlyK k) f l (windows_of fb wb)) = true).
Proof.
  intros Ho Hc. cbn [constraint_f1] in Hc. rewrite !andb_true_iff in Hc. destruct Hc as [[[[Hf Hl] Hg] Hst] _].
  apply Nat.ltb_lt in Hl. destruct (geom_ok_some fb wb Hg) as [rs Ers].
  pose proof (f1_ranges_bound fb wb rs Ers) as Hb.
  unfold Pexactlyk, constraint_ok, mk_c. cbn [k_kind k_factor k_level k_windows]. rewrite (ranges_of fb wb rs Ers).
  rewrite forallb_forall, Forall_forall. split; intros H r Hr; specialize (H r Hr);
    pose proof (proj1 (Forall_forall _ _) Hb r Hr) as [_ Hr2].
  - apply Nat.eqb_eq. now rewrite count_level_ntrue, (col_ntrue s q f l (fst r) (snd r) Ho Hf Hst Hl Hr2).
  - apply Nat.eqb_eq in H. now rewrite <- (col_ntrue s q f l (fst r) (snd r) Ho Hf Hst Hl Hr2), <- count_level_ntrue.
Qed.

(** * (b) for Exclude *)
Lemma slice_full {A} (row : list A) : slice row 0 (length row) = row.
Proof. unfold slice. cbn [skipn]. rewrite Nat.sub_0_r. apply firstn_all. Qed.

Theorem exclude_sem s q f l :
  onehot s q -> constraint_f1 fb (FExclude f l) = true ->
  (Pexclude fb f l s <-> constraint_ok sem q (mk_c KExclude f l []) = true).
Proof.
  intros Ho Hc. cbn [constraint_f1] in Hc. rewrite !andb_true_iff in Hc. destruct Hc as [[Hf Hl] Hst]. apply Nat.ltb_lt in Hl.
  unfold Pexclude, constraint_ok, mk_c. cbn [k_kind k_factor k_level k_windows].
  rewrite <- (col_ntrue s q f l 0 (T fb) Ho Hf Hst Hl (le_n _)).
  destruct Ho as (_ & Hr & _). rewrite <- (Hr f (f1_act_lt fb HF1 f Hf)), slice_full, <- count_level_ntrue. symmetry. apply Nat.eqb_eq.
Qed.

(** * (b) for Pin *)
Lemma pinned_cell s q f l p :
  onehot s q -> isact fb f = true -> l < nlevels fb f -> p < T fb ->
  (lappl fb f p = true /\ bit s p f l = true <-> cell_eqb (get_cell q f p) (Some l) = true).
Proof.
  intros (_ & _ & _ & Hbit & _ & Hnone) Hf Hl Hp. destruct (lappl fb f p) eqn:Hap.
  - rewrite (Hbit p f l Hp Hf Hap Hl). unfold is_level. tauto.
  - rewrite (Hnone p f Hp Hf Hap). cbn [cell_eqb]. split; [intros [H _]; discriminate|discriminate].
Qed.

Theorem pin_sem s q i f l wb :
  onehot s q -> constraint_f1 fb (FPin i f l wb) = true ->
  (Ppin fb i f l wb s <-> constraint_ok sem q (mk_c (KPin i (geometry_sustain fb wb f)) f l (windows_of fb wb)) = true).
Proof.
  intros Ho Hc. destruct (pin_guard fb HF1 HT i f l wb Hc) as (Hf & Hl & _ & ps & Ep & Hpb).
  destruct (pin_guard_geom fb i f l wb Hc) as (Hsu & rs & Ers).
  set (su := geometry_sustain fb wb f) in *.
  unfold Ppin, pins, constraint_ok, mk_c. cbn [k_kind k_factor k_level k_windows].
  rewrite (ranges_of fb wb rs Ers), Ep. rewrite (pins_eq fb i f wb rs Ers) in Ep. fold su in Ep. inversion Ep as [Eps]. clear Ep. rewrite !Eps.
  cbv zeta.
  assert (Epos : forall w : nat * nat,
            (if (0 <=? i)%Z then Z.of_nat (fst w) + i * Z.of_nat su else Z.of_nat (snd w) + i * Z.of_nat su)%Z = pin_pos i su w).
  { intros w. unfold pin_pos. destruct (Z.leb_spec 0 i), (Z.ltb_spec i 0); lia. }
  assert (Hpl : forall p, In p ps <-> exists r j, In r rs /\ pin_in i su r = true /\ j < su /\ p = Z.to_nat (pin_pos i su r) + j).
  { intros p. rewrite <- Eps, in_flat_map. split.
    - intros (r & Hr' & Hp). destruct (pin_in i su r) eqn:Hi; [|destruct Hp].
      apply in_map_iff in Hp. destruct Hp as (j & <- & Hj). apply in_seq in Hj. exists r, j. repeat split; auto; lia.
    - intros (r & j & Hr' & Hi & Hj & ->). exists r. split; [exact Hr'|]. rewrite Hi.
      apply (in_map (fun j0 => Z.to_nat (pin_pos i su r) + j0)). apply in_seq. lia. }
  assert (Hcellp : forall p, In p ps ->
            (lappl fb f p = true /\ bit s p f l = true <-> cell_eqb (nth p (nth f q []) None) (Some l) = true)).
  { intros p Hp. apply (pinned_cell s q f l p Ho Hf Hl). exact (proj1 (Forall_forall _ _) Hpb p Hp). }
  rewrite andb_true_iff, forallb_forall. split.
  - intros [Hne Hall]. split.
    + apply existsb_exists. destruct ps as [|p ps'] eqn:Epl; [contradiction|].
      destruct (proj1 (Hpl p) (or_introl eq_refl)) as (r & j & Hr' & Hi & _).
      exists r. split; [exact Hr'|]. unfold in_range. rewrite Epos. exact Hi.
    + intros r Hr'. unfold in_range. rewrite Epos. fold (pin_in i su r). destruct (pin_in i su r) eqn:Hi; [|reflexivity].
      apply forallb_forall. intros j Hj. apply in_seq in Hj.
      assert (Hin : In (Z.to_nat (pin_pos i su r) + j) ps) by (apply Hpl; exists r, j; repeat split; auto; lia).
      apply (Hcellp _ Hin). exact (proj1 (Forall_forall _ _) Hall _ Hin).
  - intros [Hex Hall]. apply existsb_exists in Hex. destruct Hex as (r0 & Hr0 & Hin0).
    unfold in_range in Hin0. rewrite Epos in Hin0. fold (pin_in i su r0) in Hin0. split.
    + intros Epl. assert (Hp : In (Z.to_nat (pin_pos i su r0) + 0) ps) by (apply Hpl; exists r0, 0; repeat split; auto).
      rewrite Epl in Hp. destruct Hp.
    + apply Forall_forall. intros p Hp. apply (Hcellp p Hp). apply Hpl in Hp. destruct Hp as (r & j & Hr' & Hi & Hj & ->).
      specialize (Hall r Hr'). unfold in_range in Hall. rewrite Epos in Hall. fold (pin_in i su r) in Hall. rewrite Hi in Hall.
      rewrite forallb_forall in Hall. apply Hall. apply in_seq. lia.
Qed.

End F1Sem.
