(** The [Sequential] constraint in the fragment F1: (a) its contribution to the
    backend request is a definitional block asserting that in the first trial
    of the k-th group of [sustain] trials after the preamble exactly level
    (k mod nlevels) of the factor is on; (b) on a one-hot grid whose rows are
    constant on the sustain groups that is the documented meaning
    ([Design/Sem.v], [KSequential]) on the decoded sequence. *)
From Coq Require Import ZArith List Bool Arith Lia.
From SP Require Import Base.Sat Base.Bits Core.Card Core.CardProofs.
From SP Require Import Logic.Formula Logic.Tseitin Logic.TseitinProofs.
From SP Require Import Design.Flat Design.Layout Design.Sem.
From SP Require Import Encode.Compile Encode.CodeSem Encode.Generic Encode.Blocks Encode.Runs
     Encode.GridLemmas Encode.CrossChunks Encode.LayoutF1 Encode.F1Kinds Encode.F1Cross Encode.F1Sem Encode.F1Sustain.
Import ListNotations.
Close Scope Z_scope.
Open Scope nat_scope.

Lemma nth_error_map_combine_from {A B} (g : nat * A -> B) (l : list A) : forall k f,
  nth_error (map g (combine (seq k (length l)) l)) f = option_map (fun x => g (k + f, x)) (nth_error l f).
Proof.
  induction l as [|a l IH]; intros k f.
  - destruct f; reflexivity.
  - cbn [length seq combine map]. destruct f as [|f].
    + cbn [nth_error option_map]. now rewrite Nat.add_0_r.
    + cbn [nth_error]. rewrite IH. now replace (S k + f) with (k + S f) by lia.
Qed.

Lemma nth_error_map_combine {A B} (g : nat * A -> B) (l : list A) f :
  nth_error (map g (combine (seq 0 (length l)) l)) f = option_map (fun x => g (f, x)) (nth_error l f).
Proof. apply (nth_error_map_combine_from g l 0 f). Qed.

Section F1Sequential.
Variable fb : flat.
Hypothesis HF1 : in_f1 fb = true.
Hypothesis HT : 0 < T fb.

Notation GZ := (GZ fb).
Notation bit := (bit fb).

(** what Sequential says about the boolean grid: in the first trial of the k-th
    group after the preamble exactly level (k mod nlevels) is on *)
Definition Psequential (f : nat) (s : asg) : Prop :=
  forall k l, pre_of fb f + k * sustain_of fb f < T fb -> l < nlevels fb f ->
    bit s (pre_of fb f + k * sustain_of fb f) f l = (l =? k mod nlevels fb f).

(** * the guard: a factor without a complex window whose preamble is a whole number of its sustain groups *)
Lemma seq_guard f : constraint_f1 fb (FSequential f) = true ->
  isact fb f = true /\ is_complex fb f = false /\ factor_preamble_size fb f = COk (pre_of fb f) /\
  pre_of fb f mod sustain_of fb f = 0.
Proof.
  cbn [constraint_f1]. rewrite !andb_true_iff. intros [[A B] C]. apply negb_true_iff in B.
  split; [exact A|]. split; [exact B|]. unfold pre_of.
  destruct (factor_preamble_size fb f) as [p|e]; [|discriminate]. split; [reflexivity|now apply Nat.eqb_eq].
Qed.

(** * The literals of [Sequential.apply] *)
Definition seq_lit (f pre sc i l : nat) : fm :=
  if l =? ((i - pre) / sc) mod nlevels fb f then fv (gvar fb i f l) else FNot (fv (gvar fb i f l)).

Fixpoint seq_lits (fuel f pre sc i : nat) : list fm :=
  match fuel with
  | O => []
  | S fu => if i <? T fb then map (seq_lit f pre sc i) (seq 0 (nlevels fb f)) ++ seq_lits fu f pre sc (i + sc) else []
  end.

Lemma seq_loop_unroll f pre sc : isact fb f = true -> 0 < sc -> forall fuel i,
  T fb - i < fuel -> seq_loop fb fuel f (nlevels fb f) sc pre i = COk (seq_lits fuel f pre sc i).
Proof.
  intros Hf Hsc. induction fuel as [|fuel IH]; intros i Hfu; [lia|].
  cbn [seq_loop seq_lits]. destruct (i <? T fb) eqn:Ei; cbn [negb]; [|reflexivity].
  apply Nat.ltb_lt in Ei.
  rewrite (cmapM_ok _ (seq_lit f pre sc i)).
  2:{ intros l Hl. apply in_seq in Hl. rewrite Nat.add_1_r, (f1_get_variable fb HF1 f l i Hf ltac:(lia)).
      cbn [cbind]. unfold seq_lit. reflexivity. }
  cbn [cbind]. rewrite (IH (i + sc) ltac:(lia)). reflexivity.
Qed.

Lemma in_seq_lits f pre sc x : 0 < sc -> forall fuel i, T fb - i < fuel ->
  (In x (seq_lits fuel f pre sc i) <->
   exists j l, i + j * sc < T fb /\ l < nlevels fb f /\ x = seq_lit f pre sc (i + j * sc) l).
Proof.
  intros Hsc. induction fuel as [|fuel IH]; intros i Hfu; [lia|].
  cbn [seq_lits]. destruct (i <? T fb) eqn:Ei.
  - apply Nat.ltb_lt in Ei. rewrite in_app_iff, (IH (i + sc) ltac:(lia)). split.
    + intros [H|(j & l & Hj & Hl & ->)].
      * apply in_map_iff in H. destruct H as (l & <- & Hl). apply in_seq in Hl. exists 0, l. rewrite Nat.add_0_r. repeat split; lia.
      * exists (S j), l. replace (i + S j * sc) with (i + sc + j * sc) by lia. auto.
    + intros (j & l & Hj & Hl & ->). destruct j as [|j].
      * left. rewrite Nat.add_0_r. apply in_map. apply in_seq. lia.
      * right. exists j, l. replace (i + sc + j * sc) with (i + S j * sc) by lia. auto.
  - apply Nat.ltb_ge in Ei. split; [intros []|]. intros (j & l & Hj & _). lia.
Qed.

Lemma eval_seq_lit s f pre sc t l :
  eval s (seq_lit f pre sc t l) = eqb (bit s t f l) (l =? ((t - pre) / sc) mod nlevels fb f).
Proof.
  unfold seq_lit, F1Kinds.bit.
  pose proof (gvar_pos fb t f l) as Hp.
  destruct (l =? ((t - pre) / sc) mod nlevels fb f); cbn [eval fv]; rewrite lit_true_pos by lia; unfold zn;
    destruct (s (Z.of_nat (gvar fb t f l))); reflexivity.
Qed.

Lemma eval_seq_lits s f : 0 < sustain_of fb f ->
  eval s (FAnd (seq_lits (S (T fb)) f (pre_of fb f) (sustain_of fb f) (pre_of fb f))) = true <-> Psequential f s.
Proof.
  intros Hsc. cbn [eval]. rewrite forallb_forall. unfold Psequential. set (pre := pre_of fb f). set (sc := sustain_of fb f) in *.
  assert (Hk : forall k, (pre + k * sc - pre) / sc = k).
  { intros k. replace (pre + k * sc - pre) with (k * sc) by lia. apply Nat.div_mul. lia. }
  split.
  - intros H k l Ht Hl. specialize (H (seq_lit f pre sc (pre + k * sc) l)).
    rewrite eval_seq_lit, Hk in H. apply eqb_prop. apply H.
    apply (in_seq_lits f pre sc _ Hsc (S (T fb)) pre ltac:(lia)). exists k, l. auto.
  - intros H x Hx. apply (in_seq_lits f pre sc _ Hsc (S (T fb)) pre ltac:(lia)) in Hx.
    destruct Hx as (k & l & Ht & Hl & ->).
    rewrite eval_seq_lit, Hk, (H k l Ht Hl). apply eqb_reflx.
Qed.

Lemma apply_sequential_eq f fresh : constraint_f1 fb (FSequential f) = true ->
  apply_constraint fb (FSequential f) fresh =
  let '(cls, fresh') := cnf_fn (seq_lits (S (T fb)) f (pre_of fb f) (sustain_of fb f) (pre_of fb f)) fresh in
  COk {| ct_fresh := fresh'; ct_clauses := cls; ct_requests := [] |}.
Proof.
  intros Hc. destruct (seq_guard f Hc) as (Hf & Hcx & Hfps & Hdiv). cbn [apply_constraint]. unfold apply_sequential.
  rewrite Hfps. cbn [cbind].
  pose proof (f1_nlevels_pos fb HF1 f (f1_act_lt fb HF1 f Hf)) as Hn.
  pose proof (f1_sustain_pos fb (in_f1_facts fb HF1) f) as Hsc.
  replace (nlevels fb f =? 0) with false by (symmetry; apply Nat.eqb_neq; lia).
  replace (sustain_of fb f =? 0) with false by (symmetry; apply Nat.eqb_neq; lia). cbn [orb]. rewrite andb_false_r.
  rewrite (seq_loop_unroll f (pre_of fb f) (sustain_of fb f) Hf Hsc (S (T fb)) (pre_of fb f) ltac:(lia)). cbn [cbind]. reflexivity.
Qed.

(** * (a): the contribution of a Sequential is a block *)
Lemma step_sequential f :
  constraint_f1 fb (FSequential f) = true ->
  forall fresh ct, (GZ < fresh)%Z -> apply_constraint fb (FSequential f) fresh = COk ct ->
  exists ext, DefinesA (fresh - 1) (ct_fresh ct - 1) (ct_clauses ct) (ct_requests ct) ext (Psequential f).
Proof.
  intros Hc0 fresh ct Hfr E. destruct (seq_guard f Hc0) as (Hc & Hcx & Hfps & Hdiv).
  pose proof (f1_sustain_pos fb (in_f1_facts fb HF1) f) as Hsc.
  rewrite (apply_sequential_eq f fresh Hc0) in E.
  destruct (cnf_fn _ fresh) as [cls fresh'] eqn:Ecnf. inversion E. subst ct. clear E.
  cbn [ct_fresh ct_clauses ct_requests].
  assert (HGZ : (0 <= GZ)%Z) by (unfold F1Kinds.GZ, zn; lia).
  assert (HL : forall z, In z (leaves (FAnd (seq_lits (S (T fb)) f (pre_of fb f) (sustain_of fb f) (pre_of fb f)))) ->
                         z <> 0%Z /\ (Z.abs z < fresh)%Z).
  { intros z Hz. cbn [leaves] in Hz. apply in_flat_map in Hz. destruct Hz as (x & Hx & Hz).
    apply (in_seq_lits f _ _ _ Hsc (S (T fb)) _ ltac:(lia)) in Hx. destruct Hx as (k & l & Ht & Hl & ->).
    pose proof (gvar_pos fb (pre_of fb f + k * sustain_of fb f) f l) as Hp.
    pose proof (gvar_le fb HF1 HT _ f l Ht Hc Hl (lappl_simple fb HF1 f _ Hc Hcx)) as Hle.
    unfold zn in Hle. unfold seq_lit in Hz.
    destruct (l =? _); cbn [leaves fv] in Hz; destruct Hz as [<-|[]]; lia. }
  destruct (definesA_tseitin _ fresh cls fresh' ltac:(lia) HL Ecnf) as (ext & D).
  exists ext. apply (definesA_conseq _ _ _ _ _ _ _ D). intros s. now apply eval_seq_lits.
Qed.

Lemma sequential_total f fresh :
  constraint_f1 fb (FSequential f) = true -> exists ct, apply_constraint fb (FSequential f) fresh = COk ct.
Proof.
  intros Hc0. rewrite (apply_sequential_eq f fresh Hc0).
  destruct (cnf_fn _ fresh) as [cls fresh']. eauto.
Qed.

(** * (b): on a one-hot grid, the documented meaning *)
Lemma code_nlevels f :
  match nth_error (s_factors (code_sem fb)) f with Some fd => f_nlevels fd | None => 0 end = nlevels fb f.
Proof.
  unfold code_sem. cbn [s_factors]. rewrite nth_error_map_combine. unfold nlevels, factor_at.
  destruct (nth_error (fl_design fb) f) as [fd|]; reflexivity.
Qed.

Theorem sequential_sem s q f :
  onehot fb s q -> grouped fb q -> constraint_f1 fb (FSequential f) = true ->
  (Psequential f s <-> forallb (constraint_ok (code_sem fb) q) (code_constraint fb (FSequential f)) = true).
Proof.
  intros Ho Hg Hc0. pose proof Ho as (Hq & Hr & Hcell & Hbit & _). destruct (seq_guard f Hc0) as (Hc & Hcx & Hfps & Hdiv).
  assert (Hap : forall t, lappl fb f t = true) by (intros t; now apply (lappl_simple fb HF1)).
  pose proof (f1_act_lt fb HF1 f Hc) as Hcn. pose proof (f1_nlevels_pos fb HF1 f Hcn) as Hn.
  pose proof (f1_sustain_pos fb (in_f1_facts fb HF1) f) as Hsc.
  cbn [code_constraint forallb]. rewrite andb_true_r.
  unfold constraint_ok, mk_c. cbn [k_kind k_factor k_level k_windows].
  rewrite code_nlevels. change (s_trials (code_sem fb)) with (T fb).
  set (pre := pre_of fb f) in *. set (sc := sustain_of fb f) in *. set (n := nlevels fb f) in *.
  apply Nat.mod_divides in Hdiv; [|lia]. destruct Hdiv as (m & Hm).
  (* the group of a trial after the preamble starts at pre + k * sc *)
  assert (Hgrp : forall t, pre <= t -> (t / sc) * sc = pre + ((t - pre) / sc) * sc).
  { intros t Ht. pose proof (Nat.div_mod (t - pre) sc ltac:(lia)) as D.
    pose proof (Nat.mod_upper_bound (t - pre) sc ltac:(lia)) as R.
    set (k := (t - pre) / sc) in *. set (r := (t - pre) mod sc) in *.
    assert (Et : t = (m + k) * sc + r) by lia.
    rewrite Et at 1. rewrite Nat.div_add_l by lia. rewrite (Nat.div_small r sc R). lia. }
  rewrite forallb_forall. unfold Psequential. fold pre sc n. split.
  - intros H t Ht. apply in_seq in Ht. destruct (t <? pre) eqn:Etp; [reflexivity|]. apply Nat.ltb_ge in Etp.
    set (k := (t - pre) / sc). pose proof (Hgrp t Etp) as Eg. fold k in Eg.
    assert (Ht0 : pre + k * sc <= t) by (rewrite <- Eg; apply (group_le fb HT)).
    change (nth t (nth f q []) None) with (get_cell q f t).
    rewrite <- (Hg f t Hc ltac:(lia)). fold sc. rewrite Eg.
    destruct (Hcell (pre + k * sc) f ltac:(lia) Hc (Hap _)) as (l0 & Hl0 & E0). rewrite E0. cbn [cell_eqb].
    pose proof (Nat.mod_upper_bound k n ltac:(lia)) as Hmn.
    pose proof (H k (k mod n) ltac:(lia) Hmn) as Hb.
    rewrite (Hbit (pre + k * sc) f _ ltac:(lia) Hc (Hap _) Hmn), E0, is_level_some, Nat.eqb_refl in Hb. exact Hb.
  - intros H k l Ht Hl. specialize (H (pre + k * sc) ltac:(apply in_seq; lia)). cbv beta in H.
    replace (pre + k * sc <? pre) with false in H by (symmetry; apply Nat.ltb_ge; lia).
    replace ((pre + k * sc - pre) / sc) with k in H by (replace (pre + k * sc - pre) with (k * sc) by lia; symmetry; apply Nat.div_mul; lia).
    change (nth (pre + k * sc) (nth f q []) None) with (get_cell q f (pre + k * sc)) in H.
    rewrite (Hbit (pre + k * sc) f l Ht Hc (Hap _) Hl).
    destruct (Hcell (pre + k * sc) f Ht Hc (Hap _)) as (l0 & Hl0 & E0). rewrite E0 in H |- *.
    cbn [cell_eqb] in H. apply Nat.eqb_eq in H. rewrite is_level_some, H. apply Nat.eqb_sym.
Qed.

End F1Sequential.

Check Psequential.
Check step_sequential.
Check sequential_total.
Check sequential_sem.
Print Assumptions step_sequential.
Print Assumptions sequential_total.
Print Assumptions sequential_sem.
