(** The [Sequential] constraint in the fragment F1: (a) its contribution to the
    backend request is a definitional block asserting that at trial t exactly
    level (t mod nlevels) of the factor is on; (b) on a one-hot grid that is the
    documented meaning ([Design/Sem.v], [KSequential]) on the decoded sequence. *)
From Coq Require Import ZArith List Bool Arith Lia.
From SP Require Import Base.Sat Base.Bits Core.Card Core.CardProofs.
From SP Require Import Logic.Formula Logic.Tseitin Logic.TseitinProofs.
From SP Require Import Design.Flat Design.Layout Design.Sem.
From SP Require Import Encode.Compile Encode.CodeSem Encode.Generic Encode.Blocks Encode.Runs
     Encode.GridLemmas Encode.CrossChunks Encode.LayoutF1 Encode.F1Kinds Encode.F1Cross Encode.F1Sem.
Import ListNotations.
Close Scope Z_scope.
Open Scope nat_scope.

Lemma nth_error_map_combine_from {A B} (g : nat * A -> B) (l : list A) : forall k f,
  nth_error (map g (combine (seq k (length l)) l)) f = option_map (fun x => g (k + f, x)) (nth_error l f).
Proof.
  induction l as [|a l IH]; intros k f.
  - destruct f; reflexivity.
  - cbn [length seq combine map]. destruct f as [|f].
    + cbn [nth_error option_map]. now rewrite Nat.add_0_r.
    + cbn [nth_error]. rewrite IH. now replace (S k + f) with (k + S f) by lia.
Qed.

Lemma nth_error_map_combine {A B} (g : nat * A -> B) (l : list A) f :
  nth_error (map g (combine (seq 0 (length l)) l)) f = option_map (fun x => g (f, x)) (nth_error l f).
Proof. apply (nth_error_map_combine_from g l 0 f). Qed.

Section F1Sequential.
Variable fb : flat.
Hypothesis HF1 : in_f1 fb = true.
Hypothesis HT : 0 < T fb.

Notation GZ := (GZ fb).
Notation bit := (bit fb).

(** what Sequential says about the boolean grid: at trial t exactly level (t mod nlevels) is on *)
Definition Psequential (f : nat) (s : asg) : Prop :=
  forall t l, t < T fb -> l < nlevels fb f -> bit s t f l = (l =? t mod nlevels fb f).

(** * the guard: a factor without a complex window whose crossings (if any) have no preamble *)
Lemma seq_guard f : constraint_f1 fb (FSequential f) = true ->
  isact fb f = true /\ is_complex fb f = false /\ factor_preamble_size fb f = COk 0 /\ sustain_of fb f = 1.
Proof.
  cbn [constraint_f1]. rewrite !andb_true_iff. intros [[[A B] D] C]. apply negb_true_iff in B. apply Nat.eqb_eq in D.
  split; [exact A|]. split; [exact B|]. split; [|exact D].
  destruct (factor_preamble_size fb f) as [[|n]|e]; try discriminate. reflexivity.
Qed.

Lemma pre_of_zero f : factor_preamble_size fb f = COk 0 -> pre_of fb f = 0.
Proof. intros H. unfold pre_of. now rewrite H. Qed.

(** * The literals of [Sequential.apply] *)
Definition seq_lit (f i l : nat) : fm :=
  if l =? i mod nlevels fb f then fv (gvar fb i f l) else FNot (fv (gvar fb i f l)).

Definition seq_lits (f i0 : nat) : list fm :=
  flat_map (fun i => map (seq_lit f i) (seq 0 (nlevels fb f))) (seq i0 (T fb - i0)).

Lemma seq_loop_unroll f : isact fb f = true -> forall fuel i,
  T fb - i < fuel -> seq_loop fb fuel f (nlevels fb f) 1 0 i = COk (seq_lits f i).
Proof.
  intros Hf. induction fuel as [|fuel IH]; intros i Hfu; [lia|].
  cbn [seq_loop]. destruct (i <? T fb) eqn:Ei; cbn [negb].
  - apply Nat.ltb_lt in Ei.
    rewrite (cmapM_ok _ (seq_lit f i)).
    2:{ intros l Hl. apply in_seq in Hl. rewrite Nat.add_1_r, (f1_get_variable fb HF1 f l i Hf ltac:(lia)).
        cbn [cbind]. unfold seq_lit. now rewrite Nat.sub_0_r, Nat.div_1_r. }
    cbn [cbind]. rewrite Nat.add_1_r, (IH (S i) ltac:(lia)). cbn [cbind].
    unfold seq_lits. replace (T fb - i) with (S (T fb - S i)) by lia. reflexivity.
  - apply Nat.ltb_ge in Ei. unfold seq_lits. replace (T fb - i) with 0 by lia. reflexivity.
Qed.

Lemma in_seq_lits f x :
  In x (seq_lits f 0) <-> exists t l, t < T fb /\ l < nlevels fb f /\ x = seq_lit f t l.
Proof.
  unfold seq_lits. rewrite in_flat_map, Nat.sub_0_r. split.
  - intros (t & Ht & Hx). apply in_seq in Ht. apply in_map_iff in Hx. destruct Hx as (l & <- & Hl).
    apply in_seq in Hl. exists t, l. split; [lia|]. split; [lia|reflexivity].
  - intros (t & l & Ht & Hl & ->). exists t. split; [apply in_seq; lia|].
    apply in_map. apply in_seq. lia.
Qed.

Lemma eval_seq_lit s f t l :
  eval s (seq_lit f t l) = eqb (bit s t f l) (l =? t mod nlevels fb f).
Proof.
  unfold seq_lit, F1Kinds.bit.
  pose proof (gvar_pos fb t f l) as Hp.
  destruct (l =? t mod nlevels fb f); cbn [eval fv]; rewrite lit_true_pos by lia; unfold zn;
    destruct (s (Z.of_nat (gvar fb t f l))); reflexivity.
Qed.

Lemma eval_seq_lits s f : eval s (FAnd (seq_lits f 0)) = true <-> Psequential f s.
Proof.
  cbn [eval]. rewrite forallb_forall. unfold Psequential. split.
  - intros H t l Ht Hl. specialize (H (seq_lit f t l)).
    rewrite eval_seq_lit in H. apply eqb_prop. apply H. apply in_seq_lits. exists t, l. auto.
  - intros H x Hx. apply in_seq_lits in Hx. destruct Hx as (t & l & Ht & Hl & ->).
    rewrite eval_seq_lit, (H t l Ht Hl). apply eqb_reflx.
Qed.

Lemma apply_sequential_eq f fresh : isact fb f = true -> factor_preamble_size fb f = COk 0 -> sustain_of fb f = 1 ->
  apply_constraint fb (FSequential f) fresh =
  let '(cls, fresh') := cnf_fn (seq_lits f 0) fresh in
  COk {| ct_fresh := fresh'; ct_clauses := cls; ct_requests := [] |}.
Proof.
  intros Hf Hfps Hsu. cbn [apply_constraint]. unfold apply_sequential.
  rewrite Hfps, Hsu. cbn [cbind].
  pose proof (f1_nlevels_pos fb HF1 f (f1_act_lt fb HF1 f Hf)) as Hn.
  replace (nlevels fb f =? 0) with false by (symmetry; apply Nat.eqb_neq; lia).
  replace (1 =? 0) with false by reflexivity. cbn [orb]. rewrite andb_false_r.
  rewrite (seq_loop_unroll f Hf (S (T fb)) 0 ltac:(lia)). cbn [cbind]. reflexivity.
Qed.

(** * (a): the contribution of a Sequential is a block *)
Lemma step_sequential f :
  constraint_f1 fb (FSequential f) = true ->
  forall fresh ct, (GZ < fresh)%Z -> apply_constraint fb (FSequential f) fresh = COk ct ->
  exists ext, DefinesA (fresh - 1) (ct_fresh ct - 1) (ct_clauses ct) (ct_requests ct) ext (Psequential f).
Proof.
  intros Hc0 fresh ct Hfr E. destruct (seq_guard f Hc0) as (Hc & Hcx & Hfps & Hsu).
  rewrite (apply_sequential_eq f fresh Hc Hfps Hsu) in E.
  destruct (cnf_fn (seq_lits f 0) fresh) as [cls fresh'] eqn:Ecnf. inversion E. subst ct. clear E.
  cbn [ct_fresh ct_clauses ct_requests].
  assert (HGZ : (0 <= GZ)%Z) by (unfold F1Kinds.GZ, zn; lia).
  destruct (definesA_tseitin (seq_lits f 0) fresh cls fresh') as (ext & D); [lia| |exact Ecnf|].
  - intros z Hz. cbn [leaves] in Hz. apply in_flat_map in Hz. destruct Hz as (x & Hx & Hz).
    apply in_seq_lits in Hx. destruct Hx as (t & l & Ht & Hl & ->).
    pose proof (gvar_pos fb t f l) as Hp. pose proof (gvar_le fb HF1 HT t f l Ht Hc Hl (lappl_simple fb HF1 f t Hc Hcx)) as Hle.
    unfold zn in Hle. unfold seq_lit in Hz.
    destruct (l =? t mod nlevels fb f); cbn [leaves fv] in Hz; destruct Hz as [<-|[]]; lia.
  - exists ext. apply (definesA_conseq _ _ _ _ _ _ _ D). intros s. apply eval_seq_lits.
Qed.

Lemma sequential_total f fresh :
  constraint_f1 fb (FSequential f) = true -> exists ct, apply_constraint fb (FSequential f) fresh = COk ct.
Proof.
  intros Hc0. destruct (seq_guard f Hc0) as (Hc & Hcx & Hfps & Hsu).
  rewrite (apply_sequential_eq f fresh Hc Hfps Hsu).
  destruct (cnf_fn (seq_lits f 0) fresh) as [cls fresh']. eauto.
Qed.

(** * (b): on a one-hot grid, the documented meaning *)
Lemma code_nlevels f :
  match nth_error (s_factors (code_sem fb)) f with Some fd => f_nlevels fd | None => 0 end = nlevels fb f.
Proof.
  unfold code_sem. cbn [s_factors]. rewrite nth_error_map_combine. unfold nlevels, factor_at.
  destruct (nth_error (fl_design fb) f) as [fd|]; reflexivity.
Qed.

Theorem sequential_sem s q f :
  onehot fb s q -> constraint_f1 fb (FSequential f) = true ->
  (Psequential f s <-> forallb (constraint_ok (code_sem fb) q) (code_constraint fb (FSequential f)) = true).
Proof.
  intros (Hq & Hr & Hcell & Hbit & _) Hc0. destruct (seq_guard f Hc0) as (Hc & Hcx & Hfps & Hsu).
  assert (Hap : forall t, lappl fb f t = true) by (intros t; now apply (lappl_simple fb HF1)).
  pose proof (f1_act_lt fb HF1 f Hc) as Hcn. pose proof (f1_nlevels_pos fb HF1 f Hcn) as Hn.
  cbn [code_constraint forallb]. rewrite andb_true_r.
  unfold constraint_ok, mk_c. cbn [k_kind k_factor k_level k_windows].
  rewrite code_nlevels, (pre_of_zero f Hfps), Hsu.
  change (s_trials (code_sem fb)) with (T fb).
  rewrite forallb_forall. unfold Psequential. split.
  - intros H t Ht. apply in_seq in Ht.
    replace (t <? 0) with false by (symmetry; apply Nat.ltb_ge; lia).
    rewrite Nat.sub_0_r, Nat.div_1_r.
    destruct (Hcell t f ltac:(lia) Hc (Hap t)) as (l0 & Hl0 & E0). unfold get_cell in E0. rewrite E0.
    cbn [cell_eqb].
    pose proof (Nat.mod_upper_bound t (nlevels fb f) ltac:(lia)) as Hm.
    pose proof (H t (t mod nlevels fb f) ltac:(lia) Hm) as Hb.
    rewrite (Hbit t f _ ltac:(lia) Hc (Hap t) Hm) in Hb. unfold get_cell in Hb. rewrite E0, is_level_some, Nat.eqb_refl in Hb.
    exact Hb.
  - intros H t l Ht Hl. specialize (H t ltac:(apply in_seq; lia)). cbv beta in H.
    replace (t <? 0) with false in H by (symmetry; apply Nat.ltb_ge; lia).
    rewrite Nat.sub_0_r, Nat.div_1_r in H.
    rewrite (Hbit t f l Ht Hc (Hap t) Hl). unfold get_cell.
    destruct (Hcell t f Ht Hc (Hap t)) as (l0 & Hl0 & E0). unfold get_cell in E0. rewrite E0 in H |- *.
    cbn [cell_eqb] in H. apply Nat.eqb_eq in H. rewrite is_level_some, H. apply Nat.eqb_sym.
Qed.

End F1Sequential.

Check Psequential.
Check step_sequential.
Check sequential_total.
Check sequential_sem.
Print Assumptions step_sequential.
Print Assumptions sequential_total.
Print Assumptions sequential_sem.
