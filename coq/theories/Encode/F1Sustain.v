(** The [Sustain] constraint in F1 (Nest / Repeat: the factors of an outer
    crossing keep their level over groups of [sustain] trials): (a) its
    contribution is a Tseitin block saying that every level variable equals the
    variable of the first trial of its group; (b) on a one-hot grid this is the
    group condition of [Sem.factor_ok]. *)
From Coq Require Import ZArith List Bool Arith Lia.
From SP Require Import Base.Sat Base.Bits Core.Card Core.CardProofs.
From SP Require Import Logic.Formula Logic.Tseitin Logic.TseitinProofs.
From SP Require Import Design.Flat Design.Layout Design.Sem.
From SP Require Import Encode.Compile Encode.CodeSem Encode.Generic Encode.Blocks Encode.Runs
     Encode.GridLemmas Encode.CrossChunks Encode.LayoutF1 Encode.F1Kinds Encode.F1Cross Encode.F1Sem.
Import ListNotations.
Close Scope Z_scope.
Open Scope nat_scope.

Section F1Sustain.
Variable fb : flat.
Hypothesis HF1 : in_f1 fb = true.
Hypothesis HT : 0 < T fb.

Notation GZ := (GZ fb).
Notation bit := (bit fb).
Let FF : F1facts fb := in_f1_facts fb HF1.

(** the variables of a level over the trials in which its factor has a level *)
Definition lvars (f l : nat) : list nat := map (fun t => gvar fb t f l) (trials_of fb f 0 (T fb)).

Definition sust_level (f l : nat) : list fm := sustain_iffs_of_list (sustain_of fb f) (lvars f l) ++ [].
Definition sust_factor (f : nat) : list fm := concat (map (sust_level f) (seq 0 (nlevels fb f))).
Definition sust_formulas : list fm := concat (map sust_factor (fl_act fb)).

Definition Psust (s : asg) : Prop := eval s (FAnd sust_formulas) = true.

(** the group condition on the grid *)
Definition Pgroups (s : asg) : Prop :=
  forall f l i, isact fb f = true -> l < nlevels fb f -> i < length (trials_of fb f 0 (T fb)) ->
    s (zn (nth i (lvars f l) 0)) = s (zn (nth ((i / sustain_of fb f) * sustain_of fb f) (lvars f l) 0)).

Lemma apply_sustain_eq fresh :
  apply_sustain fb fresh =
  let '(cls, fresh') := cnf_fn sust_formulas fresh in
  COk {| ct_fresh := fresh'; ct_clauses := cls; ct_requests := [] |}.
Proof.
  unfold apply_sustain.
  rewrite (cmapM_ok _ sust_factor); [reflexivity|].
  intros f Hf. apply (isact_In fb) in Hf.
  rewrite (cmapM_ok _ (sust_level f)); [reflexivity|].
  intros l Hl. apply in_seq in Hl.
  rewrite (f1_var_lists_none fb HF1 f l HT Hf ltac:(lia)). cbn [cbind flat_map]. reflexivity.
Qed.

Lemma group_le i sc : (i / sc) * sc <= i.
Proof. destruct sc as [|sc]; [cbn; lia|]. rewrite Nat.mul_comm. apply Nat.mul_div_le. lia. Qed.

Lemma lvars_ok f l fresh :
  isact fb f = true -> l < nlevels fb f -> (GZ < fresh)%Z ->
  Forall (fun v => 0 < v /\ (zn v <= fresh - 1)%Z) (lvars f l).
Proof. intros Hf Hl Hfr. exact (range_vars_ok fb HF1 HT f l (0, T fb) fresh Hf Hl (le_n _) Hfr). Qed.

Lemma in_sust_formulas x :
  In x sust_formulas <->
  exists f l i, isact fb f = true /\ l < nlevels fb f /\ i < length (trials_of fb f 0 (T fb)) /\
    x = FIff (fv (nth i (lvars f l) 0)) (fv (nth ((i / sustain_of fb f) * sustain_of fb f) (lvars f l) 0)).
Proof.
  unfold sust_formulas, sust_factor, sust_level, sustain_iffs_of_list. rewrite in_concat. split.
  - intros (fs & Hfs & Hx). apply in_map_iff in Hfs. destruct Hfs as (f & <- & Hf). apply (isact_In fb) in Hf.
    apply in_concat in Hx. destruct Hx as (ls & Hls & Hx). apply in_map_iff in Hls. destruct Hls as (l & <- & Hl).
    apply in_seq in Hl. rewrite app_nil_r in Hx. apply in_map_iff in Hx. destruct Hx as (i & <- & Hi). apply in_seq in Hi.
    unfold lvars in Hi. rewrite map_length in Hi. exists f, l, i. repeat split; try assumption; lia.
  - intros (f & l & i & Hf & Hl & Hi & ->). exists (concat (map (fun l0 => map (fun i0 => FIff (fv (nth i0 (lvars f l0) 0)) (fv (nth (i0 / sustain_of fb f * sustain_of fb f) (lvars f l0) 0))) (seq 0 (length (lvars f l0))) ++ []) (seq 0 (nlevels fb f)))).
    split.
    + apply (in_map (fun f0 => concat (map (fun l0 => map (fun i0 => FIff (fv (nth i0 (lvars f0 l0) 0)) (fv (nth (i0 / sustain_of fb f0 * sustain_of fb f0) (lvars f0 l0) 0))) (seq 0 (length (lvars f0 l0))) ++ []) (seq 0 (nlevels fb f0)))) (fl_act fb) f).
      now apply (isact_In fb).
    + apply in_concat. eexists. split.
      * apply (in_map (fun l0 => map (fun i0 => FIff (fv (nth i0 (lvars f l0) 0)) (fv (nth (i0 / sustain_of fb f * sustain_of fb f) (lvars f l0) 0))) (seq 0 (length (lvars f l0))) ++ []) (seq 0 (nlevels fb f)) l).
        apply in_seq. lia.
      * rewrite app_nil_r. apply (in_map (fun i0 => FIff (fv (nth i0 (lvars f l) 0)) (fv (nth (i0 / sustain_of fb f * sustain_of fb f) (lvars f l) 0)))).
        apply in_seq. unfold lvars. rewrite map_length. lia.
Qed.

Lemma psust_groups s : Psust s <-> Pgroups s.
Proof.
  unfold Psust, Pgroups. cbn [eval]. rewrite forallb_forall. split.
  - intros H f l i Hf Hl Hi.
    specialize (H _ (proj2 (in_sust_formulas _) (ex_intro _ f (ex_intro _ l (ex_intro _ i (conj Hf (conj Hl (conj Hi eq_refl)))))))).
    cbn [eval fv] in H.
    assert (Hpos : forall j, j < length (trials_of fb f 0 (T fb)) -> 0 < nth j (lvars f l) 0).
    { intros j Hj. unfold lvars. rewrite (nth_indep _ 0 (gvar fb 0 f l)) by (rewrite map_length; exact Hj).
      rewrite (map_nth (fun t => gvar fb t f l)). apply gvar_pos. }
    pose proof (group_le i (sustain_of fb f)) as Hg.
    rewrite !lit_true_pos in H by (unfold zn; pose proof (Hpos i Hi); pose proof (Hpos (i / sustain_of fb f * sustain_of fb f) ltac:(lia)); lia).
    now apply eqb_prop.
  - intros H x Hx. apply in_sust_formulas in Hx. destruct Hx as (f & l & i & Hf & Hl & Hi & ->). cbn [eval fv].
    assert (Hpos : forall j, j < length (trials_of fb f 0 (T fb)) -> 0 < nth j (lvars f l) 0).
    { intros j Hj. unfold lvars. rewrite (nth_indep _ 0 (gvar fb 0 f l)) by (rewrite map_length; exact Hj).
      rewrite (map_nth (fun t => gvar fb t f l)). apply gvar_pos. }
    pose proof (group_le i (sustain_of fb f)) as Hg.
    rewrite !lit_true_pos by (unfold zn; pose proof (Hpos i Hi); pose proof (Hpos (i / sustain_of fb f * sustain_of fb f) ltac:(lia)); lia).
    pose proof (H f l i Hf Hl Hi) as E. unfold zn in E. rewrite E. apply eqb_reflx.
Qed.

(** * (a): the contribution of Sustain is a block *)
Lemma step_sustain :
  forall fresh ct, (GZ < fresh)%Z -> apply_constraint fb FSustain fresh = COk ct ->
  exists ext, DefinesA (fresh - 1) (ct_fresh ct - 1) (ct_clauses ct) (ct_requests ct) ext Psust.
Proof.
  intros fresh ct Hfr E. cbn [apply_constraint] in E. rewrite apply_sustain_eq in E.
  destruct (cnf_fn sust_formulas fresh) as [cls fresh'] eqn:Ecnf. inversion E. subst ct. clear E.
  cbn [ct_fresh ct_clauses ct_requests].
  assert (HGZ : (0 <= GZ)%Z) by (unfold F1Kinds.GZ, zn; lia).
  apply (definesA_tseitin sust_formulas fresh cls fresh'); [lia| |exact Ecnf].
  intros z Hz. cbn [leaves] in Hz. apply in_flat_map in Hz. destruct Hz as (x & Hx & Hz).
  apply in_sust_formulas in Hx. destruct Hx as (f & l & i & Hf & Hl & Hi & ->).
  pose proof (lvars_ok f l fresh Hf Hl Hfr) as Hok. pose proof (group_le i (sustain_of fb f)) as Hg.
  assert (Hnth : forall j, j < length (trials_of fb f 0 (T fb)) -> 0 < nth j (lvars f l) 0 /\ (zn (nth j (lvars f l) 0%nat) <= fresh - 1)%Z).
  { intros j Hj. apply (proj1 (Forall_forall _ _) Hok). apply nth_In. unfold lvars. now rewrite map_length. }
  cbn [leaves fv] in Hz. destruct Hz as [<-|[<-|[]]].
  - destruct (Hnth i Hi). unfold zn in *. lia.
  - destruct (Hnth (i / sustain_of fb f * sustain_of fb f) ltac:(lia)). unfold zn in *. lia.
Qed.

Lemma sustain_total fresh : exists ct, apply_constraint fb FSustain fresh = COk ct.
Proof. cbn [apply_constraint]. rewrite apply_sustain_eq. destruct (cnf_fn sust_formulas fresh). eauto. Qed.

(** * (b): on a one-hot grid, the group condition of the sequence *)
Definition grouped (q : tseq) : Prop :=
  forall f t, isact fb f = true -> t < T fb ->
    get_cell q f ((t / sustain_of fb f) * sustain_of fb f) = get_cell q f t.

Lemma complex_grouped q f t : isact fb f = true -> is_complex fb f = true ->
  get_cell q f ((t / sustain_of fb f) * sustain_of fb f) = get_cell q f t.
Proof. intros Ha Hc. rewrite (f1_sustain_cx fb HF1 f Ha Hc), Nat.div_1_r, Nat.mul_1_r. reflexivity. Qed.

Theorem sustain_sem s q : onehot fb s q -> (Psust s <-> grouped q).
Proof.
  intros Ho. rewrite psust_groups. pose proof Ho as (_ & _ & Hc & Hb & _). unfold Pgroups, grouped. split.
  - intros H f t Hf Ht. destruct (is_complex fb f) eqn:Hcx; [now apply complex_grouped|].
    pose proof (group_le t (sustain_of fb f)) as Hg.
    destruct (onehot_simple_cell fb HF1 s q t f Ho Ht Hf Hcx) as (l & Hl & El).
    destruct (onehot_simple_cell fb HF1 s q (t / sustain_of fb f * sustain_of fb f) f Ho ltac:(lia) Hf Hcx) as (l' & Hl' & El').
    rewrite El, El'. f_equal.
    specialize (H f l t Hf Hl). unfold lvars in H. rewrite (trials_of_simple fb HF1 f 0 (T fb) Hf Hcx), Nat.sub_0_r, seq_length in H.
    specialize (H Ht).
    rewrite !(nth_indep _ 0 (gvar fb 0 f l)) in H by (rewrite map_length, seq_length; lia).
    rewrite !(map_nth (fun t0 => gvar fb t0 f l)), !seq_nth in H by lia. cbn [Nat.add] in H.
    change (bit s t f l = bit s (t / sustain_of fb f * sustain_of fb f) f l) in H.
    rewrite (onehot_simple_bit fb HF1 s q t f l Ho Ht Hf Hcx Hl), El, is_level_some, Nat.eqb_refl in H.
    rewrite (onehot_simple_bit fb HF1 s q (t / sustain_of fb f * sustain_of fb f) f l Ho ltac:(lia) Hf Hcx Hl), El', is_level_some in H.
    symmetry in H. now apply Nat.eqb_eq in H.
  - intros H f l i Hf Hl Hi. destruct (is_complex fb f) eqn:Hcx.
    + now rewrite (f1_sustain_cx fb HF1 f Hf Hcx), Nat.div_1_r, Nat.mul_1_r.
    + pose proof (group_le i (sustain_of fb f)) as Hg. unfold lvars.
      rewrite (trials_of_simple fb HF1 f 0 (T fb) Hf Hcx), Nat.sub_0_r, seq_length in Hi.
      rewrite (trials_of_simple fb HF1 f 0 (T fb) Hf Hcx), Nat.sub_0_r.
      rewrite !(nth_indep _ 0 (gvar fb 0 f l)) by (rewrite map_length, seq_length; lia).
      rewrite !(map_nth (fun t0 => gvar fb t0 f l)), !seq_nth by lia. cbn [Nat.add].
      change (bit s i f l = bit s (i / sustain_of fb f * sustain_of fb f) f l).
      rewrite (onehot_simple_bit fb HF1 s q i f l Ho Hi Hf Hcx Hl).
      rewrite (onehot_simple_bit fb HF1 s q (i / sustain_of fb f * sustain_of fb f) f l Ho ltac:(lia) Hf Hcx Hl).
      now rewrite (H f i Hf Hi).
Qed.

(** without a [Sustain] constraint every sustain count is 1 and the group condition is void *)
Lemma grouped_trivial q : (forall f, sustain_of fb f = 1) -> grouped q.
Proof. intros H f t _ _. now rewrite (H f), Nat.div_1_r, Nat.mul_1_r. Qed.

End F1Sustain.

Check step_sustain.
Check sustain_sem.
Print Assumptions step_sustain.
Print Assumptions sustain_sem.
