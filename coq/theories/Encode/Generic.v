(** (G) The generic step from a backend request to the formula handed to the
    solver: [combine_cnf_with_requests] turns every low-level request into a
    definitional block (pop-count / comparator circuits) plus assertion
    clauses.  So the final CNF has, for each assignment of the variables below
    [b_fresh], a satisfying extension iff the clauses of the request hold and
    every request relation [count vs (EQ|LT|GT) k] holds - and that extension
    is unique.  Rests on [CardProofs.request_spec] (the cardinality theorem). *)
From Coq Require Import ZArith List Bool Lia.
From SP Require Import Base.Sat Base.Bits Core.CnfModel Core.Card Core.CnfProofs Core.CardProofs.
From SP Require Import Encode.Compile.
Import ListNotations.
Open Scope Z_scope.

(** * The semantic reading of a backend request *)
Definition req_rel (s : asg) (r : req) : Prop :=
  let '(kd, k, vs) := r in rel kd (count s vs) k.

Definition br_sem (s : asg) (b : backend) : Prop :=
  sat s (b_clauses b) = true /\ Forall (req_rel s) (b_requests b).

(** a request the cardinality encoders accept: non-negative k, non-empty
    variable list (the code raises ValueError otherwise), variables in 1..n *)
Definition req_ok (n : Z) (r : req) : Prop :=
  let '(kd, k, vs) := r in 0 <= k /\ vs <> [] /\ Forall (inr n) vs.

Lemma req_ok_le n m r : n <= m -> req_ok n r -> req_ok m r.
Proof.
  destruct r as [[kd k] vs]. intros H (A & B & C). repeat split; try assumption.
  now apply (Forall_inr_le n).
Qed.

Lemma req_rel_agree n s t r : agree_upto n s t -> req_ok n r -> (req_rel s r <-> req_rel t r).
Proof.
  destruct r as [[kd k] vs]. intros A (_ & _ & C). cbn [req_rel].
  now rewrite (count_agree n s t vs A C).
Qed.

Lemma Forall_req_rel_agree n s t rs :
  agree_upto n s t -> Forall (req_ok n) rs -> (Forall (req_rel s) rs <-> Forall (req_rel t) rs).
Proof.
  intros A H. induction H as [|r rs Hr _ IH]; [split; constructor|].
  split; intros F; inversion F; subst; constructor;
    try (apply (req_rel_agree n s t r A Hr); assumption); now apply IH.
Qed.

(** * All requests in sequence *)
Lemma run_requests_spec rs : forall n,
  0 <= n -> Forall (req_ok n) rs ->
  exists n' new defs asrt ext,
    (forall cs, run_requests rs (mk n cs) = (true, mk n' (cs ++ new))) /\
    (forall s, sat s new = sat s defs && sat s asrt) /\
    vars_upto n' new /\
    Defines n n' defs ext /\
    (forall s, sat s defs = true -> (sat s asrt = true <-> Forall (req_rel s) rs)).
Proof.
  induction rs as [|[[kd k] vs] rs IH]; intros n Hn Hok.
  - exists n, [], [], [], (fun s => s). split; [|split; [|split; [|split]]].
    + intros cs. cbn [run_requests]. unfold ret. now rewrite app_nil_r.
    + reflexivity.
    + intros c l [].
    + now apply defines_nil.
    + intros s _. split; constructor.
  - inversion Hok as [|? ? Hr Hrs]; subst. destruct Hr as (Hk & Hne & Hvs).
    destruct (request_spec n kd k vs Hn Hk Hne Hvs)
      as (b & n1 & d1 & a1 & e1 & R1 & D1 & V1 & Hb & Hiff). subst b.
    pose proof (def_range _ _ _ _ D1) as Rg1.
    destruct (IH n1 ltac:(lia)) as (n' & newT & dT & aT & eT & RT & ST & VT & DT & HT).
    { eapply Forall_impl; [|exact Hrs]. intros r. apply req_ok_le. lia. }
    pose proof (def_range _ _ _ _ DT) as RgT.
    exists n', ((d1 ++ a1) ++ newT), (d1 ++ dT), (a1 ++ aT), (fun s => eT (e1 s)).
    split; [|split; [|split; [|split]]].
    + intros cs. cbn [run_requests]. unfold bind. rewrite R1, RT. now rewrite <- !app_assoc.
    + intros s. rewrite !sat_app, ST.
      destruct (sat s d1), (sat s a1), (sat s dT), (sat s aT); reflexivity.
    + apply vars_upto_app; [apply vars_upto_app|exact VT].
      * apply (vars_upto_le n1); [lia|apply (def_vars _ _ _ _ D1)].
      * apply (vars_upto_le n1); [lia|exact V1].
    + now apply (defines_seq n n1 n').
    + intros s Hs. rewrite sat_app, andb_true_iff in Hs. destruct Hs as [Hs1 HsT].
      rewrite sat_app, andb_true_iff, (Hiff s Hs1), (HT s HsT). split.
      * intros [A B]. now constructor.
      * intros F. inversion F; subst. now split.
Qed.

(** * (G) *)
Theorem full_cnf_denotes b :
  1 <= b_fresh b ->
  Forall (req_ok (b_fresh b - 1)) (b_requests b) ->
  vars_upto (b_fresh b - 1) (b_clauses b) ->
  exists n' final,
    full_cnf b = (true, n', final) /\ b_fresh b - 1 <= n' /\ vars_upto n' final /\
    (forall s, (exists t, agree_upto (b_fresh b - 1) s t /\ sat t final = true) <-> br_sem s b) /\
    (forall t1 t2, agree_upto (b_fresh b - 1) t1 t2 ->
       sat t1 final = true -> sat t2 final = true -> agree_upto n' t1 t2).
Proof.
  intros Hf Hok Hv. set (n := b_fresh b - 1) in *.
  destruct (run_requests_spec (b_requests b) n ltac:(lia) Hok)
    as (n' & new & defs & asrt & ext & R & S & V & D & H).
  pose proof (def_range _ _ _ _ D) as Rg.
  exists n', (new ++ b_clauses b). split; [|split; [lia|split; [|split]]].
  - unfold full_cnf, combine_requests. fold n. change {| next := n; cls := [] |} with (mk n []).
    rewrite R. reflexivity.
  - apply vars_upto_app; [exact V|]. apply (vars_upto_le n); [lia|exact Hv].
  - intros s. unfold br_sem. split.
    + intros (t & A & St). rewrite sat_app, S, !andb_true_iff in St. destruct St as [[Sd Sa] Sc].
      split.
      * now rewrite (sat_agree n s t _ A Hv).
      * apply (Forall_req_rel_agree n s t _ A Hok). now apply (H t Sd).
    + intros [Sc Fr]. exists (ext s).
      pose proof (defines_ext_agree _ _ _ _ s D ltac:(lia)) as A.
      pose proof (defines_sat_ext _ _ _ _ s D) as Sd.
      split; [exact A|]. rewrite sat_app, S, Sd. cbn [andb]. apply andb_true_iff. split.
      * apply (H _ Sd). now apply (Forall_req_rel_agree n s (ext s) _ A Hok).
      * now rewrite <- (sat_agree n s (ext s) _ A Hv).
  - intros t1 t2 A S1 S2. rewrite sat_app, S, !andb_true_iff in S1, S2.
    destruct S1 as [[S1 _] _], S2 as [[S2 _] _]. exact (defines_unique _ _ _ _ _ _ D A S1 S2).
Qed.

(** every variable 1..n' of the final formula is either below [b_fresh] or
    defined by the cardinality circuits: nothing above [n'] is mentioned *)
Corollary full_cnf_vars b n' final :
  1 <= b_fresh b ->
  Forall (req_ok (b_fresh b - 1)) (b_requests b) ->
  vars_upto (b_fresh b - 1) (b_clauses b) ->
  full_cnf b = (true, n', final) -> vars_upto n' final.
Proof.
  intros Hf Hok Hv E. destruct (full_cnf_denotes b Hf Hok Hv) as (n1 & f1 & E1 & _ & V & _).
  rewrite E in E1. inversion E1. now subst.
Qed.
