(** Small generic lemmas between the counting functions of the propositional
    layer ([Bits.count], requests) and boolean lists ([Runs.ntrue]), slices of
    rows, and the chunking of [Cross.__add_weight_constraint] against the
    chunking of the reference semantics ([Sem.chunks_ok]). *)
From Coq Require Import ZArith List Bool Arith Lia.
From SP Require Import Base.Sat Base.Bits Core.Card Core.CardProofs Design.Sem.
From SP Require Import Encode.Compile Encode.Generic Encode.Runs.
Import ListNotations.
Close Scope Z_scope.
Open Scope nat_scope.

(** * count of positive variables = ntrue of their values *)
Lemma count_zs s (vl : list nat) :
  Forall (fun v => 0 < v) vl ->
  count s (zs vl) = Z.of_nat (ntrue (map (fun v => s (zn v)) vl)).
Proof.
  intros H. unfold count, zs, ntrue. f_equal.
  induction H as [|v vl Hv _ IH]; [reflexivity|].
  cbn [map filter]. rewrite lit_true_pos by lia. unfold zn.
  destruct (s (Z.of_nat v)); cbn [length]; now rewrite IH.
Qed.

Lemma count_pos s (vs : list Z) :
  Forall (fun v => (0 < v)%Z) vs ->
  count s vs = Z.of_nat (ntrue (map s vs)).
Proof.
  intros H. unfold count, ntrue. f_equal.
  induction H as [|v vl Hv _ IH]; [reflexivity|].
  cbn [map filter]. rewrite lit_true_pos by lia.
  destruct (s v); cbn [length]; now rewrite IH.
Qed.

Lemma req_rel_LT s k vl :
  Forall (fun v => 0 < v) vl ->
  (req_rel s (LT, zn k, zs vl) <-> ntrue (map (fun v => s (zn v)) vl) < k).
Proof. intros H. cbn [req_rel rel]. rewrite (count_zs s vl H). unfold zn. lia. Qed.

Lemma req_rel_EQ s k vl :
  Forall (fun v => 0 < v) vl ->
  (req_rel s (EQ, zn k, zs vl) <-> ntrue (map (fun v => s (zn v)) vl) = k).
Proof. intros H. cbn [req_rel rel]. rewrite (count_zs s vl H). unfold zn. lia. Qed.

Lemma req_ok_zs n (kd : kind) k vl :
  vl <> [] -> Forall (fun v => 0 < v /\ (zn v <= n)%Z) vl -> req_ok n (kd, zn k, zs vl).
Proof.
  intros Hne H. cbn [req_ok]. split; [unfold zn; lia|]. split.
  - destruct vl; [contradiction|discriminate].
  - unfold zs. apply Forall_map. eapply Forall_impl; [|exact H]. intros v [A B]. unfold inr, zn in *. lia.
Qed.

(** * slices *)
Lemma slice_seq {A} (row : list A) (d : A) a b :
  b <= length row -> slice row a b = map (fun t => nth t row d) (seq a (b - a)).
Proof.
  unfold slice. revert a b. induction row as [|x row IH]; intros a b Hb.
  - cbn [length] in Hb. replace (b - a) with 0 by lia. now destruct a.
  - destruct a as [|a].
    + cbn [skipn]. rewrite Nat.sub_0_r. destruct b as [|b]; [reflexivity|].
      cbn [firstn seq map nth]. f_equal. cbn [length] in Hb.
      specialize (IH 0 b ltac:(lia)). cbn [skipn] in IH. rewrite Nat.sub_0_r in IH. rewrite IH.
      rewrite <- seq_shift, map_map. reflexivity.
    + cbn [skipn]. destruct b as [|b]; [reflexivity|]. cbn [length] in Hb.
      replace (S b - S a) with (b - a) by lia. rewrite (IH a b ltac:(lia)).
      rewrite <- seq_shift, map_map. reflexivity.
Qed.

Lemma map_seq_slice {A B} (g : A -> B) (row : list A) (d : A) a b :
  b <= length row ->
  map g (slice row a b) = map (fun t => g (nth t row d)) (seq a (b - a)).
Proof. intros H. rewrite (slice_seq row d a b H), map_map. reflexivity. Qed.

Lemma filter_length_le' {A} (p : A -> bool) (l : list A) : length (filter p l) <= length l.
Proof. induction l as [|x l IH]; [apply le_n|]. cbn [filter]. destruct (p x); cbn [length]; lia. Qed.

Lemma filter_length_eq {A} (p : A -> bool) (l : list A) :
  length (filter p l) = length l -> filter p l = l.
Proof.
  induction l as [|x l IH]; [reflexivity|]. cbn [filter]. destruct (p x); cbn [length]; intros H.
  - f_equal. apply IH. lia.
  - pose proof (filter_length_le' p l). lia.
Qed.

Lemma firstn_skipn_map_seq {B} (g : nat -> B) n a len :
  a + len <= n -> firstn len (skipn a (map g (seq 0 n))) = map g (seq a len).
Proof.
  intros H. rewrite skipn_map, firstn_map. f_equal.
  replace n with (a + (n - a)) by lia. rewrite seq_app, skipn_app, seq_length, Nat.sub_diag.
  rewrite (skipn_all2 (seq 0 a)) by (rewrite seq_length; lia). cbn [app skipn].
  replace (n - a) with (len + (n - a - len)) by lia. rewrite seq_app, firstn_app, seq_length, Nat.sub_diag.
  rewrite firstn_all2 by (rewrite seq_length; lia). cbn [firstn]. now rewrite app_nil_r.
Qed.

Lemma Forall_iff_ext {A} (P Q : A -> Prop) (l : list A) :
  (forall x, In x l -> (P x <-> Q x)) -> (Forall P l <-> Forall Q l).
Proof.
  intros H. rewrite !Forall_forall. split; intros F x Hx; apply (H x Hx); now apply F.
Qed.
