(** Meaning of the implications that [AtLeastKInARow] and [ExactlyKInARow]
    (sweetpea/_internal/constraint.py, models [atleast_impls] and [ekr_impls] of
    Encode/Compile.v) emit for ONE window of trials: they hold under an
    assignment iff every maximal run of the level inside the window has length
    at least k, respectively exactly k.

    Everything is proved for every k >= 1 and every window length.  Proof file:
    no definitions of the model are changed.

    Route: (1) the variable lists handed to the formula constructors are
    slices of the window ([is_slice]); (2) evaluation of every emitted
    implication is a condition on [E i], the value of the i-th variable of the
    window ([AL_idx], [EX_idx]); (3) these index conditions are equivalent to
    the run-start characterisations [atleast_runs_spec0] / [exact_runs_spec] of
    Encode/Runs.v. *)
From Coq Require Import ZArith List Bool Lia Arith.
From SP Require Import Base.Sat Logic.Formula Encode.Compile Encode.Runs.
Import ListNotations.
Close Scope Z_scope.
Open Scope nat_scope.

(** * 0. Exhaustive test of the two statements (all boolean lists of length
      0..8, k = 1..5), checked by the kernel *)

Fixpoint allbits (n : nat) : list (list bool) :=
  match n with
  | O => [[]]
  | S m => flat_map (fun l => [true :: l; false :: l]) (allbits m)
  end.

Definition asg_of (bits : list bool) : Z -> bool :=
  fun z => nth (Z.to_nat z - 1) bits false.

Definition test_lhs1 (k : nat) (bits : list bool) : bool :=
  let vl := seq 1 (length bits) in
  eval (asg_of bits) (FAnd (atleast_impls k vl (windows (S k) vl))).
Definition test_rhs1 (k : nat) (bits : list bool) : bool :=
  forallb (fun n => k <=? n) (bruns (map (fun v => asg_of bits (zn v)) (seq 1 (length bits)))).
Definition test_lhs2 (k : nat) (bits : list bool) : bool :=
  let vl := seq 1 (length bits) in
  eval (asg_of bits) (FAnd (match windows k vl with
                            | [] => map (fun v => FNot (fv v)) vl
                            | sub => ekr_impls k sub
                            end)).
Definition test_rhs2 (k : nat) (bits : list bool) : bool :=
  forallb (fun n => n =? k) (bruns (map (fun v => asg_of bits (zn v)) (seq 1 (length bits)))).

Definition test_bad (lhs rhs : nat -> list bool -> bool) : list (nat * list bool * bool) :=
  flat_map (fun k =>
    flat_map (fun n =>
      flat_map (fun b => if Bool.eqb (lhs k b) (rhs k b) then [] else [(k, b, lhs k b)])
               (allbits n)) (seq 0 9)) (seq 1 5).

Example atleast_statement_tested : test_bad test_lhs1 test_rhs1 = [].
Proof. vm_compute. reflexivity. Qed.
Example exactly_statement_tested : test_bad test_lhs2 test_rhs2 = [].
Proof. vm_compute. reflexivity. Qed.

(** * 1. List facts *)

Lemma windows_seq : forall A L (l : list A), 0 < L ->
  windows L l = map (fun i => firstn L (skipn i l)) (seq 0 (S (length l) - L)).
Proof.
  intros A L l HL. induction l as [|a r IH].
  - cbn [windows length]. replace (1 - L) with 0 by lia. reflexivity.
  - rewrite windows_cons, IH. cbn [length].
    destruct (L <=? S (length r)) eqn:E.
    + apply Nat.leb_le in E.
      replace (S (S (length r)) - L) with (S (S (length r) - L)) by lia.
      cbn [seq map app]. change (skipn 0 (a :: r)) with (a :: r). f_equal.
      rewrite <- seq_shift, map_map. reflexivity.
    + apply Nat.leb_gt in E.
      replace (S (length r) - L) with 0 by lia.
      replace (S (S (length r)) - L) with 0 by lia. reflexivity.
Qed.

Lemma nth_map_seq : forall A (f : nat -> A) m i d, i < m -> nth i (map f (seq 0 m)) d = f i.
Proof.
  intros A f m i d H.
  rewrite (nth_indep _ d (f 0)) by (rewrite map_length, seq_length; exact H).
  rewrite map_nth, seq_nth by exact H. reflexivity.
Qed.

Lemma last_map_seq : forall A (f : nat -> A) m d, last (map f (seq 0 (S m))) d = f m.
Proof.
  intros A f m d. rewrite seq_S, map_app. cbn [map]. rewrite last_last. reflexivity.
Qed.

Lemma last_as_nth : forall A (l : list A) d, last l d = nth (length l - 1) l d.
Proof.
  intros A l d. induction l as [|a l IH]; [reflexivity|].
  destruct l as [|b r]; [reflexivity|].
  change (last (a :: b :: r) d) with (last (b :: r) d). rewrite IH. cbn [length].
  replace (S (S (length r)) - 1) with (S (length r)) by lia.
  replace (S (length r) - 1) with (length r) by lia. reflexivity.
Qed.

(** [w] lists the [len] elements of [l] from position [a] on *)
Definition is_slice (l w : list nat) (a len : nat) : Prop :=
  length w = len /\ forall t, t < len -> nth t w 0 = nth (a + t) l 0.

Lemma is_slice_window : forall l i L, i + L <= length l ->
  is_slice l (firstn L (skipn i l)) i L.
Proof.
  intros l i L H. split.
  - rewrite firstn_length, skipn_length. lia.
  - intros t Ht. rewrite nth_firstn_lt by exact Ht. apply nth_skipn_add.
Qed.

Lemma is_slice_self : forall l, is_slice l l 0 (length l).
Proof. intro l. split; [reflexivity|]. intros t _. reflexivity. Qed.

Lemma is_slice_skipn : forall l w a len c,
  is_slice l w a len -> is_slice l (skipn c w) (a + c) (len - c).
Proof.
  intros l w a len c [HL HN]. split.
  - rewrite skipn_length. lia.
  - intros t Ht. rewrite nth_skipn_add, HN by lia. f_equal. lia.
Qed.

Lemma is_slice_tl : forall l w a len, is_slice l w a len -> is_slice l (tl w) (a + 1) (len - 1).
Proof.
  intros l w a len H. replace (tl w) with (skipn 1 w) by (destruct w; reflexivity).
  apply is_slice_skipn. exact H.
Qed.

Lemma is_slice_removelast : forall l w a len,
  is_slice l w a len -> is_slice l (removelast w) a (len - 1).
Proof.
  intros l w a len [HL HN]. rewrite removelast_firstn_len. split.
  - rewrite firstn_length. lia.
  - intros t Ht. rewrite nth_firstn_lt by lia. apply HN. lia.
Qed.

Lemma is_slice_nth : forall l w a len j, is_slice l w a len -> j < len ->
  nth j w 0 = nth (a + j) l 0.
Proof. intros l w a len j [_ HN] Hj. apply HN. exact Hj. Qed.

Lemma is_slice_last : forall l w a len, is_slice l w a len -> 0 < len ->
  last w 0 = nth (a + (len - 1)) l 0.
Proof.
  intros l w a len [HL HN] Hlen. rewrite last_as_nth, HL. apply HN. lia.
Qed.

(** a list shorter than [k] has a run satisfying [P] only if ... it has no run *)
Lemma short_runs : forall (P : nat -> Prop) k bs,
  length bs < k -> (forall x, P x -> k <= x) ->
  (Forall P (bruns bs) <-> Forall (fun b => b = false) bs).
Proof.
  intros P k bs Hlen HP. rewrite <- bruns_nil_iff. split.
  - intro H. destruct (bruns bs) as [|x r] eqn:Eq; [reflexivity|]. exfalso.
    pose proof (bruns_all_le_length bs) as HL. rewrite Eq in HL.
    apply Forall_inv in H. apply Forall_inv in HL. apply HP in H. lia.
  - intro H. rewrite H. constructor.
Qed.

(** * 2. The index-level conditions *)

(** AtLeastKInARow on a window of [m + k] trials ([m >= 1] sublists of k+1):
    start corner case, "off then on implies the next k-1 on", end corner
    case, and no run start in the last k-1 trials *)
Definition AL_idx (k m : nat) (E : nat -> bool) : Prop :=
  (E 0 = true -> forall t, t < k - 1 -> E (1 + t) = true) /\
  (forall i, i < m -> E i = false -> E (i + 1) = true ->
             forall t, t < k - 1 -> E (i + 2 + t) = true) /\
  (E m = false -> forall t, t < k - 1 -> E (m + 1 + t) = false) /\
  (1 < m -> forall t, S t < k - 1 -> E (m + 1 + t) = false -> E (m + 1 + S t) = false).

(** ExactlyKInARow on a window of [k + d] trials ([d + 1] sublists of k) *)
Definition EX_idx (k d : nat) (E : nat -> bool) : Prop :=
  (forall idx, idx < (if 1 <? k then S d else d) ->
     E idx = true -> (idx = 0 \/ E (idx - 1) = false) ->
     (forall t, t < k - 1 -> E (idx + 1 + t) = true) /\ (idx < d -> E (idx + k) = false)) /\
  (1 < k -> forall t, S t < k -> E (d + S t) = true -> E (d + t) = true).

Section Comb.
Variable bs : list bool.
Variable E : nat -> bool.
Hypothesis HB : forall i, i < length bs -> nth i bs false = E i.

Lemma atleast_E : forall k,
  Forall (fun x => k <= x) (bruns bs) <->
  forall i, i < length bs -> E i = true -> (i = 0 \/ E (i - 1) = false) ->
            i + k <= length bs /\ forall j, j < k -> E (i + j) = true.
Proof.
  intro k. rewrite atleast_runs_spec0. split; intros H i Hi Hn Hs.
  - destruct (H i Hi) as [Ha Hb].
    + rewrite HB by exact Hi. exact Hn.
    + destruct Hs as [Hs | Hs]; [left; exact Hs | right; rewrite HB by lia; exact Hs].
    + split; [exact Ha|]. intros j Hj. rewrite <- HB by lia. apply Hb. exact Hj.
  - destruct (H i Hi) as [Ha Hb].
    + rewrite <- HB by exact Hi. exact Hn.
    + destruct Hs as [Hs | Hs]; [left; exact Hs | right; rewrite <- HB by lia; exact Hs].
    + split; [exact Ha|]. intros j Hj. rewrite HB by lia. apply Hb. exact Hj.
Qed.

Lemma exact_E : forall k, 0 < k ->
  (Forall (fun x => x = k) (bruns bs) <->
   (forall i, i < length bs -> E i = true -> (i = 0 \/ E (i - 1) = false) ->
              i + k <= length bs /\ forall j, j < k -> E (i + j) = true) /\
   (forall i, i + k < length bs -> (forall j, j < k -> E (i + j) = true) ->
              (i = 0 \/ E (i - 1) = false) -> E (i + k) = false)).
Proof.
  intros k Hk. split.
  - intro H. apply (exact_runs_spec k bs Hk) in H. destruct H as [HA HC]. split.
    + apply atleast_E. apply atleast_runs_spec0. exact HA.
    + intros i Hi Hall Hs. rewrite <- HB by lia. apply HC.
      * exact Hi.
      * intros j Hj. rewrite HB by lia. apply Hall. exact Hj.
      * destruct Hs as [Hs | Hs]; [left; exact Hs | right; rewrite HB by lia; exact Hs].
  - intros [HA HC]. apply (exact_runs_spec k bs Hk). split.
    + apply atleast_runs_spec0. apply atleast_E. exact HA.
    + intros i Hi Hall Hs. rewrite HB by lia. apply HC.
      * exact Hi.
      * intros j Hj. rewrite <- HB by lia. apply Hall. exact Hj.
      * destruct Hs as [Hs | Hs]; [left; exact Hs | right; rewrite <- HB by lia; exact Hs].
Qed.

(** every on-position belongs to a run, whose start lies to its left *)
Lemma run_start_exists : forall j, E j = true ->
  exists i, i <= j /\ E i = true /\ (i = 0 \/ E (i - 1) = false) /\
            forall t, i <= t -> t <= j -> E t = true.
Proof.
  induction j as [|j IH]; intro Hj.
  - exists 0. split; [lia|]. split; [exact Hj|]. split; [left; reflexivity|].
    intros t H1 H2. replace t with 0 by lia. exact Hj.
  - destruct (E j) eqn:Ej.
    + destruct (IH eq_refl) as [i [H1 [H2 [H3 H4]]]].
      exists i. split; [lia|]. split; [exact H2|]. split; [exact H3|].
      intros t Ht1 Ht2. destruct (Nat.eq_dec t (S j)) as [-> | Hne]; [exact Hj|].
      apply H4; lia.
    + exists (S j). split; [lia|]. split; [exact Hj|]. split.
      * right. replace (S j - 1) with j by lia. exact Ej.
      * intros t H1 H2. replace t with (S j) by lia. exact Hj.
Qed.

Lemma atleast_comb : forall k m, 0 < k -> 0 < m -> length bs = m + k ->
  (AL_idx k m E <-> Forall (fun x => k <= x) (bruns bs)).
Proof.
  intros k m Hk Hm Hlen. rewrite atleast_E. rewrite Hlen. split.
  - intros (H1 & H2 & H3 & H4) i Hi Hn Hs.
    destruct Hs as [-> | Hs].
    { split; [lia|]. intros j Hj. destruct j as [|j]; [exact Hn|].
      apply (H1 Hn). lia. }
    destruct i as [|i]; [simpl in Hs; congruence|].
    replace (S i - 1) with i in Hs by lia.
    replace (S i) with (i + 1) in * by lia.
    destruct (Nat.lt_ge_cases i m) as [Him | Him].
    { split; [lia|]. intros j Hj. destruct j as [|j].
      - replace (i + 1 + 0) with (i + 1) by lia. exact Hn.
      - replace (i + 1 + S j) with (i + 2 + j) by lia. apply (H2 i Him Hs Hn). lia. }
    exfalso. destruct (E m) eqn:Em.
    + assert (Hne : i <> m) by (intro; subst i; congruence).
      destruct (Nat.lt_ge_cases 1 m) as [Hm1 | Hm1].
      * assert (Hf : E (m + 1 + S (i - m - 1)) = false).
        { apply (H4 Hm1); [lia|]. replace (m + 1 + (i - m - 1)) with i by lia. exact Hs. }
        replace (m + 1 + S (i - m - 1)) with (i + 1) in Hf by lia. congruence.
      * assert (Hm' : m = 1) by lia. subst m.
        destruct (E 0) eqn:E0.
        -- assert (Hf : E (1 + (i - 1)) = true) by (apply (H1 eq_refl); lia).
           replace (1 + (i - 1)) with i in Hf by lia. congruence.
        -- assert (Hf : E (0 + 2 + (i - 2)) = true) by (apply (H2 0); [lia | exact E0 | exact Em | lia]).
           replace (0 + 2 + (i - 2)) with i in Hf by lia. congruence.
    + assert (Hf : E (m + 1 + (i - m)) = false) by (apply (H3 eq_refl); lia).
      replace (m + 1 + (i - m)) with (i + 1) in Hf by lia. congruence.
  - intro HS. unfold AL_idx. split; [|split; [|split]].
    + intros H0 t Ht. destruct (HS 0) as [_ Hb]; [lia | exact H0 | left; reflexivity|].
      apply (Hb (1 + t)). lia.
    + intros i Hi Hoff Hon t Ht.
      destruct (HS (i + 1)) as [_ Hb]; [lia | exact Hon | right; replace (i + 1 - 1) with i by lia; exact Hoff|].
      replace (i + 2 + t) with (i + 1 + (1 + t)) by lia. apply Hb. lia.
    + intros Hoff t Ht. destruct (E (m + 1 + t)) eqn:Et; [exfalso | reflexivity].
      destruct (run_start_exists _ Et) as [i [H1 [H2 [H3 H4]]]].
      assert (Hgt : m < i).
      { destruct (Nat.lt_ge_cases m i) as [Hlt | Hge]; [exact Hlt|].
        assert (Hf : E m = true) by (apply H4; lia). congruence. }
      destruct (HS i) as [Ha _]; [lia | exact H2 | exact H3 | lia].
    + intros Hm1 t Ht Hoff. destruct (E (m + 1 + S t)) eqn:Et; [exfalso | reflexivity].
      destruct (HS (m + 1 + S t)) as [Ha _]; [lia | exact Et | | lia].
      right. replace (m + 1 + S t - 1) with (m + 1 + t) by lia. exact Hoff.
Qed.

(** window of exactly k trials: all-or-nothing *)
Lemma atleast_comb_eq : forall k, 0 < k -> length bs = k ->
  ((forall t, t < k - 1 -> E 0 = E (0 + 1 + t)) <-> Forall (fun x => k <= x) (bruns bs)).
Proof.
  intros k Hk Hlen. rewrite atleast_E. rewrite Hlen. split.
  - intros H i Hi Hn Hs.
    assert (Hall : forall j, j < k -> E j = E 0).
    { intros [|j] Hj; [reflexivity|]. symmetry. apply (H j). lia. }
    assert (H0 : E 0 = true) by (rewrite <- (Hall i Hi); exact Hn).
    destruct Hs as [-> | Hs].
    + split; [lia|]. intros j Hj. simpl. rewrite Hall by exact Hj. exact H0.
    + rewrite Hall in Hs by lia. congruence.
  - intros HS t Ht. destruct (E 0) eqn:E0.
    + destruct (HS 0) as [_ Hb]; [lia | exact E0 | left; reflexivity|].
      symmetry. apply (Hb (1 + t)). lia.
    + destruct (E (0 + 1 + t)) eqn:Et; [exfalso | reflexivity].
      destruct (run_start_exists _ Et) as [i [H1 [H2 [H3 H4]]]].
      destruct (HS i) as [Ha _]; [lia | exact H2 | exact H3|].
      assert (Hi0 : i = 0) by lia. subst i. congruence.
Qed.

Lemma exact_comb : forall k d, 0 < k -> length bs = k + d ->
  (EX_idx k d E <-> Forall (fun x => x = k) (bruns bs)).
Proof.
  intros k d Hk Hlen. rewrite (exact_E k Hk). rewrite Hlen. split.
  - intros [H1 H2]. split.
    + intros i Hi Hn Hs.
      destruct (Nat.eq_dec k 1) as [-> | Hk1].
      { split; [lia|]. intros j Hj. replace (i + j) with i by lia. exact Hn. }
      assert (Hk2 : 1 < k) by lia.
      assert (Etrim : (1 <? k) = true) by (apply Nat.ltb_lt; exact Hk2).
      rewrite Etrim in H1.
      destruct (Nat.le_gt_cases i d) as [Hid | Hid].
      * destruct (H1 i) as [Hq _]; [lia | exact Hn | exact Hs|].
        split; [lia|]. intros j Hj. destruct j as [|j].
        -- replace (i + 0) with i by lia. exact Hn.
        -- replace (i + S j) with (i + 1 + j) by lia. apply Hq. lia.
      * exfalso.
        assert (Hf : E (d + (i - d - 1)) = true).
        { apply (H2 Hk2); [lia|]. replace (d + S (i - d - 1)) with i by lia. exact Hn. }
        replace (d + (i - d - 1)) with (i - 1) in Hf by lia.
        destruct Hs as [Hs | Hs]; [lia | congruence].
    + intros i Hi Hall Hs.
      assert (Hn : E i = true).
      { replace i with (i + 0) by lia. apply Hall. exact Hk. }
      destruct (H1 i) as [_ Hq]; [destruct (1 <? k); lia | exact Hn | exact Hs|].
      apply Hq. lia.
  - intros [HA HC]. split.
    + intros idx Hidx Hn Hs.
      assert (Hidx' : idx <= d) by (destruct (1 <? k); lia).
      destruct (HA idx) as [Ha Hb]; [lia | exact Hn | exact Hs|].
      split.
      * intros t Ht. replace (idx + 1 + t) with (idx + (1 + t)) by lia. apply Hb. lia.
      * intro Hlt. apply HC; [lia | exact Hb | exact Hs].
    + intros Hk2 t Ht Hon. destruct (E (d + t)) eqn:Et; [reflexivity | exfalso].
      destruct (HA (d + S t)) as [Ha _]; [lia | exact Hon | | lia].
      right. replace (d + S t - 1) with (d + t) by lia. exact Et.
Qed.

End Comb.

(** * 3. Evaluation of the emitted formulas *)

(** one implication of the main loop of [ExactlyKInARow] *)
Definition ekr_one (k : nat) (sublists : list (list nat)) (idx : nat) : fm :=
  let n := length sublists in
  let l := nth idx sublists [] in
  let p := if idx =? 0 then fv (nth 0 l 0)
           else FAnd [FNot (fv (nth 0 (nth (idx - 1) sublists []) 0)); fv (nth 0 l 0)] in
  let q := if idx <? n - 1 then
             let ql := map fv (tl l) ++ [FNot (fv (last (nth (idx + 1) sublists []) 0))] in
             match ql with [x] => x | _ => FAnd ql end
           else match tl l with
                | _ :: _ :: _ => FAnd (map fv (tl l))
                | _ => fv (nth (k - 1) l 0)
                end in
  FIf p q.

Lemma ekr_impls_unfold : forall k subs,
  ekr_impls k subs =
  map (ekr_one k subs) (seq 0 (if 1 <? k then length subs else length subs - 1))
  ++ (if 1 <? length (last subs []) then tail_impls (rev (last subs [])) else []).
Proof. reflexivity. Qed.

Section Sem.
Variable s : asg.

(** the value of variable [v] as the formulas see it *)
Definition ev (v : nat) : bool := eval s (fv v).

Lemma eval_and_cons : forall f l, eval s (FAnd (f :: l)) = eval s f && eval s (FAnd l).
Proof. reflexivity. Qed.

Lemma eval_and_app : forall l1 l2,
  eval s (FAnd (l1 ++ l2)) = eval s (FAnd l1) && eval s (FAnd l2).
Proof. intros l1 l2. cbn [eval]. apply forallb_app. Qed.

Lemma eval_and_nil : eval s (FAnd []) = true.
Proof. reflexivity. Qed.

Lemma eval_and_map : forall A (f : A -> fm) l,
  eval s (FAnd (map f l)) = true <-> forall x, In x l -> eval s (f x) = true.
Proof.
  intros A f l. cbn [eval]. rewrite forallb_forall. split.
  - intros H x Hx. apply H. apply in_map. exact Hx.
  - intros H y Hy. apply in_map_iff in Hy. destruct Hy as [x [<- Hx]]. apply H. exact Hx.
Qed.

Lemma eval_if : forall p q, eval s (FIf p q) = true <-> (eval s p = true -> eval s q = true).
Proof. intros p q. cbn [eval]. apply implb_true_iff. Qed.

Lemma eval_not_true : forall p, eval s (FNot p) = true <-> eval s p = false.
Proof. intro p. cbn [eval]. apply negb_true_iff. Qed.

Lemma eval_nab : forall a b,
  eval s (FAnd [FNot (fv a); fv b]) = true <-> ev a = false /\ ev b = true.
Proof.
  intros a b. cbn [eval forallb]. unfold ev.
  destruct (eval s (fv a)), (eval s (fv b)); cbn; intuition congruence.
Qed.

Lemma evA : forall w,
  eval s (FAnd (map fv w)) = true <-> forall t, t < length w -> ev (nth t w 0) = true.
Proof.
  induction w as [|a w IH].
  - split; [intros _ t Ht; simpl in Ht; lia | reflexivity].
  - cbn [map length]. rewrite eval_and_cons, andb_true_iff, IH. split.
    + intros [Ha Hw] [|t] Ht; [exact Ha | apply Hw; lia].
    + intro H. split; [apply (H 0); lia | intros t Ht; apply (H (S t)); lia].
Qed.

Lemma evO : forall w,
  eval s (FOr (map fv w)) = false <-> forall t, t < length w -> ev (nth t w 0) = false.
Proof.
  induction w as [|a w IH].
  - split; [intros _ t Ht; simpl in Ht; lia | reflexivity].
  - cbn [map length].
    change (eval s (FOr (fv a :: map fv w))) with (ev a || eval s (FOr (map fv w))).
    rewrite orb_false_iff, IH. split.
    + intros [Ha Hw] [|t] Ht; [exact Ha | apply Hw; lia].
    + intro H. split; [apply (H 0); lia | intros t Ht; apply (H (S t)); lia].
Qed.

Lemma ev_not_pairs : forall w,
  eval s (FAnd (not_pairs w)) = true <->
  forall t, S t < length w -> ev (nth t w 0) = false -> ev (nth (S t) w 0) = false.
Proof.
  induction w as [|a w IH].
  - split; [intros _ t Ht; simpl in Ht; lia | reflexivity].
  - destruct w as [|b r].
    + split; [intros _ t Ht; simpl in Ht; lia | reflexivity].
    + change (not_pairs (a :: b :: r)) with (FIf (FNot (fv a)) (FNot (fv b)) :: not_pairs (b :: r)).
      rewrite eval_and_cons, andb_true_iff, IH, eval_if, !eval_not_true. split.
      * intros [Hab Hr] [|t] Ht; [exact Hab | apply Hr; simpl in Ht |- *; lia].
      * intro H. split; [apply (H 0); simpl; lia|].
        intros t Ht. apply (H (S t)). simpl in Ht |- *. lia.
Qed.

Lemma ev_tail_impls : forall w,
  eval s (FAnd (tail_impls w)) = true <->
  forall t, S t < length w -> ev (nth t w 0) = true -> ev (nth (S t) w 0) = true.
Proof.
  induction w as [|a w IH].
  - split; [intros _ t Ht; simpl in Ht; lia | reflexivity].
  - destruct w as [|b r].
    + split; [intros _ t Ht; simpl in Ht; lia | reflexivity].
    + change (tail_impls (a :: b :: r)) with (FIf (fv a) (fv b) :: tail_impls (b :: r)).
      rewrite eval_and_cons, andb_true_iff, IH, eval_if. split.
      * intros [Hab Hr] [|t] Ht; [exact Hab | apply Hr; simpl in Ht |- *; lia].
      * intro H. split; [apply (H 0); simpl; lia|].
        intros t Ht. apply (H (S t)). simpl in Ht |- *. lia.
Qed.

Lemma eval_all_not : forall vl,
  eval s (FAnd (map (fun v => FNot (fv v)) vl)) = true <->
  Forall (fun b => b = false) (map ev vl).
Proof.
  induction vl as [|a r IH].
  - split; [constructor | reflexivity].
  - cbn [map]. rewrite eval_and_cons, andb_true_iff, Forall_cons_iff, IH, eval_not_true.
    reflexivity.
Qed.

Lemma eval_single_or_and : forall ql,
  eval s (match ql with [x] => x | _ => FAnd ql end) = eval s (FAnd ql).
Proof.
  intros [|x [|y r]]; [reflexivity | | reflexivity].
  cbn [eval forallb]. rewrite andb_true_r. reflexivity.
Qed.

(** ** the window *)
Section Window.
Variable vl : list nat.

Definition Ev (i : nat) : bool := ev (nth i vl 0).

Lemma Ev_link : forall i, i < length (map ev vl) -> nth i (map ev vl) false = Ev i.
Proof.
  intros i Hi. rewrite (nth_indep _ false (ev 0)) by exact Hi.
  rewrite map_nth. reflexivity.
Qed.

Lemma slA : forall w a len, is_slice vl w a len ->
  (eval s (FAnd (map fv w)) = true <-> forall t, t < len -> Ev (a + t) = true).
Proof.
  intros w a len [HL HN]. rewrite evA, HL. unfold Ev.
  split; intros H t Ht; [rewrite <- HN by exact Ht | rewrite HN by exact Ht]; apply H; exact Ht.
Qed.

Lemma slO : forall w a len, is_slice vl w a len ->
  (eval s (FOr (map fv w)) = false <-> forall t, t < len -> Ev (a + t) = false).
Proof.
  intros w a len [HL HN]. rewrite evO, HL. unfold Ev.
  split; intros H t Ht; [rewrite <- HN by exact Ht | rewrite HN by exact Ht]; apply H; exact Ht.
Qed.

Lemma sl_not_pairs : forall w a len, is_slice vl w a len ->
  (eval s (FAnd (not_pairs w)) = true <->
   forall t, S t < len -> Ev (a + t) = false -> Ev (a + S t) = false).
Proof.
  intros w a len [HL HN]. rewrite ev_not_pairs, HL. unfold Ev.
  split; intros H t Ht.
  - rewrite <- (HN t), <- (HN (S t)) by lia. apply H. exact Ht.
  - rewrite (HN t), (HN (S t)) by lia. apply H. exact Ht.
Qed.

Lemma sl_tail_rev : forall w a len, is_slice vl w a len ->
  (eval s (FAnd (tail_impls (rev w))) = true <->
   forall t, S t < len -> Ev (a + S t) = true -> Ev (a + t) = true).
Proof.
  intros w a len [HL HN]. rewrite ev_tail_impls, rev_length, HL. unfold Ev.
  split; intros H t Ht.
  - specialize (H (len - S (S t))).
    rewrite !rev_nth in H by lia. rewrite HL in H.
    replace (len - S (len - S (S t))) with (S t) in H by lia.
    replace (len - S (S (len - S (S t)))) with t in H by lia.
    rewrite (HN t), (HN (S t)) in H by lia. apply H. lia.
  - rewrite !rev_nth by lia. rewrite HL.
    specialize (H (len - S (S t))).
    replace (S (len - S (S t))) with (len - S t) in H by lia.
    rewrite !HN by lia. apply H. lia.
Qed.

(** ** AtLeastKInARow: structure of the emitted conjunction *)
Lemma atleast_eval : forall k subs, subs <> [] ->
  let first := hd [] subs in
  let lst := last subs [] in
  (eval s (FAnd (atleast_impls k vl subs)) = true <->
   (ev (nth 0 first 0) = true -> eval s (FAnd (map fv (removelast (tl first)))) = true) /\
   (forall sub, In sub subs -> ev (nth 0 sub 0) = false -> ev (nth 1 sub 0) = true ->
                eval s (FAnd (map fv (skipn 2 sub))) = true) /\
   (ev (nth 1 lst 0) = false -> eval s (FOr (map fv (skipn 2 lst))) = false) /\
   (1 < length subs -> eval s (FAnd (not_pairs (skipn 2 lst))) = true)).
Proof.
  intros k subs Hne first lst.
  destruct subs as [|f0 rest]; [congruence|].
  unfold atleast_impls. cbv zeta. fold lst. subst first. cbn [hd].
  remember (f0 :: rest) as subs eqn:Esubs.
  rewrite eval_and_cons, !eval_and_app, !andb_true_iff, eval_and_cons, eval_and_nil, andb_true_r.
  rewrite eval_and_map, !eval_if, eval_not_true.
  assert (Hlast : (eval s (FNot (FOr (map fv (skipn 2 lst)))) = true) <->
                  eval s (FOr (map fv (skipn 2 lst))) = false) by apply eval_not_true.
  rewrite Hlast.
  assert (Hmid : (forall x, In x subs ->
                    eval s (FIf (FAnd [FNot (fv (nth 0 x 0)); fv (nth 1 x 0)])
                                (FAnd (map fv (skipn 2 x)))) = true) <->
                 (forall sub, In sub subs -> ev (nth 0 sub 0) = false -> ev (nth 1 sub 0) = true ->
                    eval s (FAnd (map fv (skipn 2 sub))) = true)).
  { split; intros H x Hx.
    - intros Ha Hb. apply (proj1 (eval_if _ _) (H x Hx)). apply eval_nab. split; assumption.
    - apply eval_if. intro Hp. apply eval_nab in Hp. destruct Hp as [Ha Hb]. apply H; assumption. }
  rewrite Hmid.
  assert (Htail : eval s (FAnd (if 1 <? length subs then not_pairs (skipn 2 lst) else [])) = true <->
                  (1 < length subs -> eval s (FAnd (not_pairs (skipn 2 lst))) = true)).
  { destruct (1 <? length subs) eqn:E1.
    - apply Nat.ltb_lt in E1. split; [intros H _; exact H | intro H; apply H; exact E1].
    - apply Nat.ltb_ge in E1. split; [intros _ Hc; lia | intros _; reflexivity]. }
  rewrite Htail. unfold ev. tauto.
Qed.

Lemma atleast_bridge : forall k m, 0 < k -> 0 < m -> length vl = m + k ->
  (eval s (FAnd (atleast_impls k vl (windows (S k) vl))) = true <-> AL_idx k m Ev).
Proof.
  intros k m Hk Hm Hlen.
  rewrite windows_seq by lia. rewrite Hlen.
  replace (S (m + k) - S k) with m by lia.
  set (W := fun i => firstn (S k) (skipn i vl)).
  assert (HW : forall i, i < m -> is_slice vl (W i) i (S k)).
  { intros i Hi. apply is_slice_window. lia. }
  destruct m as [|m']; [lia|].
  set (subs := map W (seq 0 (S m'))).
  assert (Hne : subs <> []) by (unfold subs; cbn [seq map]; discriminate).
  rewrite (atleast_eval k subs Hne). cbv zeta.
  assert (Hfirst : hd [] subs = W 0) by reflexivity.
  assert (Hlst : last subs [] = W m') by apply last_map_seq.
  assert (Hlens : length subs = S m') by (unfold subs; rewrite map_length, seq_length; reflexivity).
  rewrite Hfirst, Hlst, Hlens.
  assert (HW0 := HW 0 Hm).
  assert (HWm : is_slice vl (W m') m' (S k)) by (apply HW; lia).
  (* first corner *)
  rewrite (is_slice_nth _ _ _ _ 0 HW0) by lia.
  rewrite (slA _ _ _ (is_slice_removelast _ _ _ _ (is_slice_tl _ _ _ _ HW0))).
  (* last corner *)
  rewrite (is_slice_nth _ _ _ _ 1 HWm) by lia.
  rewrite (slO _ _ _ (is_slice_skipn _ _ _ _ 2 HWm)).
  rewrite (sl_not_pairs _ _ _ (is_slice_skipn _ _ _ _ 2 HWm)).
  replace (S k - 1 - 1) with (k - 1) by lia.
  replace (S k - 2) with (k - 1) by lia.
  replace (0 + 0) with 0 by lia. replace (0 + 1) with 1 by lia.
  replace (m' + 1) with (S m') by lia. replace (m' + 2) with (S m' + 1) by lia.
  fold (Ev 0). fold (Ev (S m')).
  unfold AL_idx.
  assert (Hmid :
    (forall sub, In sub subs -> ev (nth 0 sub 0) = false -> ev (nth 1 sub 0) = true ->
                 eval s (FAnd (map fv (skipn 2 sub))) = true) <->
    (forall i, i < S m' -> Ev i = false -> Ev (i + 1) = true ->
               forall t, t < k - 1 -> Ev (i + 2 + t) = true)).
  { split.
    - intros H i Hi Hoff Hon.
      assert (HWi := HW i Hi).
      assert (Hin : In (W i) subs) by (unfold subs; apply in_map; apply in_seq; lia).
      specialize (H _ Hin).
      rewrite (is_slice_nth _ _ _ _ 0 HWi), (is_slice_nth _ _ _ _ 1 HWi) in H by lia.
      rewrite (slA _ _ _ (is_slice_skipn _ _ _ _ 2 HWi)) in H.
      replace (i + 0) with i in H by lia.
      replace (S k - 2) with (k - 1) in H by lia.
      apply H; assumption.
    - intros H sub Hin Hoff Hon. unfold subs in Hin. apply in_map_iff in Hin.
      destruct Hin as [i [<- Hi]]. apply in_seq in Hi.
      assert (Hi' : i < S m') by lia.
      assert (HWi := HW i Hi').
      rewrite (is_slice_nth _ _ _ _ 0 HWi) in Hoff by lia.
      rewrite (is_slice_nth _ _ _ _ 1 HWi) in Hon by lia.
      rewrite (slA _ _ _ (is_slice_skipn _ _ _ _ 2 HWi)).
      replace (i + 0) with i in Hoff by lia.
      replace (S k - 2) with (k - 1) by lia.
      apply H; assumption. }
  rewrite Hmid.
  split; intros (H1 & H2 & H3 & H4); (split; [|split; [|split]]).
  - intros H0 t Ht. apply (H1 H0). exact Ht.
  - exact H2.
  - intros Hoff t Ht. apply (H3 Hoff). exact Ht.
  - intros Hm1 t Ht. apply (H4 Hm1). exact Ht.
  - intros H0 t Ht. apply (H1 H0). exact Ht.
  - exact H2.
  - intros Hoff t Ht. apply (H3 Hoff). exact Ht.
  - intros Hm1 t Ht. apply (H4 Hm1). exact Ht.
Qed.


(** the Iff chain of the window of exactly k trials *)
Lemma sl_iffs : forall w a len h, is_slice vl w a len ->
  (eval s (FAnd (map (fun v => FIff (fv h) (fv v)) w)) = true <->
   forall t, t < len -> ev h = Ev (a + t)).
Proof.
  intros w a len h [HL HN]. rewrite eval_and_map. unfold Ev. split.
  - intros H t Ht. rewrite <- HN by exact Ht.
    assert (Hin : In (nth t w 0) w) by (apply nth_In; lia).
    specialize (H _ Hin). cbn [eval] in H. apply (proj1 (eqb_true_iff _ _)) in H. exact H.
  - intros H x Hx. destruct (In_nth _ _ 0 Hx) as [t [Ht <-]].
    cbn [eval]. apply (proj2 (eqb_true_iff _ _)). fold (ev h). fold (ev (nth t w 0)). rewrite HN by lia. apply H. lia.
Qed.

(** ** ExactlyKInARow *)
Lemma exact_bridge : forall k d, 0 < k -> length vl = k + d ->
  (eval s (FAnd (ekr_impls k (windows k vl))) = true <-> EX_idx k d Ev).
Proof.
  intros k d Hk Hlen.
  rewrite windows_seq by lia. rewrite Hlen.
  replace (S (k + d) - k) with (S d) by lia.
  set (W := fun i => firstn k (skipn i vl)).
  assert (HW : forall i, i < S d -> is_slice vl (W i) i k).
  { intros i Hi. apply is_slice_window. lia. }
  set (subs := map W (seq 0 (S d))).
  assert (Hlens : length subs = S d) by (unfold subs; rewrite map_length, seq_length; reflexivity).
  assert (Hlst : last subs [] = W d) by apply last_map_seq.
  assert (Hnth : forall i, i < S d -> nth i subs [] = W i) by (intros i Hi; apply nth_map_seq; exact Hi).
  assert (Hone : forall idx, idx < S d -> (idx < d \/ 1 < k) ->
    (eval s (ekr_one k subs idx) = true <->
     (Ev idx = true -> (idx = 0 \/ Ev (idx - 1) = false) ->
      (forall t, t < k - 1 -> Ev (idx + 1 + t) = true) /\ (idx < d -> Ev (idx + k) = false)))).
  { intros idx Hidx Hor. unfold ekr_one. cbv zeta. rewrite Hlens, (Hnth idx) by exact Hidx.
    replace (S d - 1) with d by lia.
    assert (HWi := HW idx Hidx).
    rewrite eval_if.
    assert (Hp : eval s (if idx =? 0 then fv (nth 0 (W idx) 0)
                         else FAnd [FNot (fv (nth 0 (nth (idx - 1) subs []) 0)); fv (nth 0 (W idx) 0)]) = true
                 <-> (Ev idx = true /\ (idx = 0 \/ Ev (idx - 1) = false))).
    { rewrite (is_slice_nth _ _ _ _ 0 HWi) by lia. replace (idx + 0) with idx by lia.
      destruct (idx =? 0) eqn:E0.
      - apply Nat.eqb_eq in E0. unfold Ev, ev. split.
        + intro H. split; [exact H | left; exact E0].
        + intros [H _]. exact H.
      - apply Nat.eqb_neq in E0. rewrite (Hnth (idx - 1)) by lia.
        assert (HWp : is_slice vl (W (idx - 1)) (idx - 1) k) by (apply HW; lia).
        rewrite (is_slice_nth _ _ _ _ 0 HWp) by lia. replace (idx - 1 + 0) with (idx - 1) by lia.
        rewrite eval_nab. unfold Ev. split.
        + intros [Ha Hb]. split; [exact Hb | right; exact Ha].
        + intros [Hb [Ha | Ha]]; [lia | split; assumption]. }
    rewrite Hp.
    assert (Htl := is_slice_tl _ _ _ _ HWi).
    assert (Hq : eval s (if idx <? d
                         then match map fv (tl (W idx)) ++ [FNot (fv (last (nth (idx + 1) subs []) 0))] with
                              | [x] => x
                              | _ => FAnd (map fv (tl (W idx)) ++ [FNot (fv (last (nth (idx + 1) subs []) 0))])
                              end
                         else match tl (W idx) with
                              | _ :: _ :: _ => FAnd (map fv (tl (W idx)))
                              | _ => fv (nth (k - 1) (W idx) 0)
                              end) = true
                 <-> ((forall t, t < k - 1 -> Ev (idx + 1 + t) = true) /\ (idx < d -> Ev (idx + k) = false))).
    { destruct (idx <? d) eqn:Ed.
      - apply Nat.ltb_lt in Ed.
        rewrite eval_single_or_and, eval_and_app, andb_true_iff.
        rewrite (slA _ _ _ Htl).
        rewrite eval_and_cons, eval_and_nil, andb_true_r, eval_not_true.
        rewrite (Hnth (idx + 1)) by lia.
        assert (HWn : is_slice vl (W (idx + 1)) (idx + 1) k) by (apply HW; lia).
        rewrite (is_slice_last _ _ _ _ HWn Hk).
        replace (idx + 1 + (k - 1)) with (idx + k) by lia.
        fold (ev (nth (idx + k) vl 0)). fold (Ev (idx + k)).
        split; intros [Ha Hb]; (split; [exact Ha|]).
        + intros _. exact Hb.
        + apply Hb. exact Ed.
      - apply Nat.ltb_ge in Ed.
        assert (Hk2 : 1 < k) by lia.
        assert (Hvac : forall P : Prop, P <-> P /\ (idx < d -> Ev (idx + k) = false)).
        { intro P. split; [intro HP; split; [exact HP | intro Hc; lia] | intros [HP _]; exact HP]. }
        rewrite <- Hvac.
        destruct (tl (W idx)) as [|x [|y r]] eqn:Etl.
        + destruct Htl as [HL _]. simpl in HL. lia.
        + destruct Htl as [HL _]. simpl in HL. assert (Hk' : k = 2) by lia.
          rewrite (is_slice_nth _ _ _ _ (k - 1) HWi) by lia.
          fold (ev (nth (idx + (k - 1)) vl 0)). fold (Ev (idx + (k - 1))).
          subst k. split.
          * intros H t Ht. replace (idx + 1 + t) with (idx + (2 - 1)) by lia. exact H.
          * intro H. replace (idx + (2 - 1)) with (idx + 1 + 0) by lia. apply H. lia.
        + apply (slA _ _ _ Htl). }
    rewrite Hq. tauto. }
  rewrite ekr_impls_unfold, eval_and_app, andb_true_iff, eval_and_map.
  rewrite Hlens, Hlst. replace (S d - 1) with d by lia.
  assert (HWd : is_slice vl (W d) d k) by (apply HW; lia).
  assert (Htail : eval s (FAnd (if 1 <? length (W d) then tail_impls (rev (W d)) else [])) = true <->
                  (1 < k -> forall t, S t < k -> Ev (d + S t) = true -> Ev (d + t) = true)).
  { destruct HWd as [HL HN]. rewrite HL.
    destruct (1 <? k) eqn:E1.
    - apply Nat.ltb_lt in E1. rewrite (sl_tail_rev _ _ _ (conj HL HN)).
      split; [intros H _; exact H | intro H; apply H; exact E1].
    - apply Nat.ltb_ge in E1. split; [intros _ Hc; lia | intros _; reflexivity]. }
  rewrite Htail. unfold EX_idx.
  apply and_iff_compat_r. split.
  - intros H idx Hidx. apply Hone.
    + destruct (1 <? k); lia.
    + destruct (1 <? k) eqn:E1; [right; apply Nat.ltb_lt; exact E1 | left; exact Hidx].
    + apply H. apply in_seq. lia.
  - intros H idx Hin. apply in_seq in Hin. apply Hone.
    + destruct (1 <? k); lia.
    + destruct (1 <? k) eqn:E1; [right; apply Nat.ltb_lt; exact E1 | left; lia].
    + apply H. lia.
Qed.

End Window.
End Sem.

(** * 4. The theorems *)

Lemma map_sv_ev : forall s vl, Forall (fun v => 0 < v) vl ->
  map (fun v => s (zn v)) vl = map (ev s) vl.
Proof.
  intros s vl H. apply map_ext_in. intros a Ha. rewrite Forall_forall in H.
  specialize (H a Ha). unfold ev, fv, zn. cbn [eval]. symmetry. apply lit_true_pos. lia.
Qed.

(** The implications [AtLeastKInARow] emits for one window hold iff every
    maximal run of the level inside the window has length at least k. *)
Theorem atleast_impls_spec k vl s :
  0 < k -> Forall (fun v => 0 < v) vl ->
  (eval s (FAnd (atleast_impls k vl (windows (S k) vl))) = true <->
   Forall (fun n => k <= n) (bruns (map (fun v => s (zn v)) vl))).
Proof.
  intros Hk Hpos. rewrite (map_sv_ev s vl Hpos).
  destruct (lt_eq_lt_dec (length vl) k) as [[Hlt | Heq] | Hgt].
  - rewrite windows_short by lia. unfold atleast_impls.
    replace (length vl =? k) with false by (symmetry; apply Nat.eqb_neq; lia).
    rewrite eval_all_not. symmetry. apply short_runs with (k := k).
    + rewrite map_length. exact Hlt.
    + intros x Hx. exact Hx.
  - rewrite windows_short by lia. unfold atleast_impls.
    replace (length vl =? k) with true by (symmetry; apply Nat.eqb_eq; exact Heq).
    rewrite <- (atleast_comb_eq (map (ev s) vl) (Ev s vl) (Ev_link s vl) k Hk)
      by (rewrite map_length; exact Heq).
    rewrite (sl_iffs s vl _ _ _ (hd 0 vl) (is_slice_tl _ _ _ _ (is_slice_self vl))).
    rewrite Heq.
    replace (ev s (hd 0 vl)) with (Ev s vl 0) by (destruct vl; reflexivity).
    reflexivity.
  - rewrite (atleast_bridge s vl k (length vl - k)) by lia.
    apply atleast_comb.
    + apply Ev_link.
    + exact Hk.
    + lia.
    + rewrite map_length. lia.
Qed.

(** The implications [ExactlyKInARow] emits for one window (what [ekr_loop]
    appends for it) hold iff every maximal run of the level inside the window
    has length exactly k. *)
Theorem ekr_impls_spec k vl s :
  0 < k -> Forall (fun v => 0 < v) vl ->
  (eval s (FAnd (match windows k vl with
                 | [] => map (fun v => FNot (fv v)) vl
                 | sub => ekr_impls k sub
                 end)) = true <->
   Forall (fun n => n = k) (bruns (map (fun v => s (zn v)) vl))).
Proof.
  intros Hk Hpos. rewrite (map_sv_ev s vl Hpos).
  destruct (Nat.lt_ge_cases (length vl) k) as [Hlt | Hge].
  - rewrite windows_short by exact Hlt.
    rewrite eval_all_not. symmetry. apply short_runs with (k := k).
    + rewrite map_length. exact Hlt.
    + intros x Hx. lia.
  - assert (Hne : windows k vl <> []).
    { intro Hnil. pose proof (windows_count _ k vl Hk) as Hc. rewrite Hnil in Hc. cbn [length] in Hc. lia. }
    destruct (windows k vl) as [|w0 ws] eqn:Ew; [congruence|]. cbv beta iota. rewrite <- Ew.
    rewrite (exact_bridge s vl k (length vl - k)) by lia.
    apply exact_comb.
    + apply Ev_link.
    + exact Hk.
    + rewrite map_length. lia.
Qed.

(** * 5. Several windows: the whole formula of one [apply] *)

Lemma eval_and_flat_map : forall s A (g : A -> list fm) (l : list A),
  eval s (FAnd (flat_map g l)) = true <-> Forall (fun x => eval s (FAnd (g x)) = true) l.
Proof.
  intros s A g l. induction l as [|a r IH].
  - split; [constructor | reflexivity].
  - cbn [flat_map]. rewrite eval_and_app, andb_true_iff, Forall_cons_iff, IH. reflexivity.
Qed.

(** [apply_atleast] hands [FAnd (flat_map ... vls)] to [cnf_fn]: it holds iff
    in every window every maximal run of the level has length at least k. *)
Theorem atleast_formula_spec k vls s :
  0 < k -> Forall (Forall (fun v => 0 < v)) vls ->
  (eval s (FAnd (flat_map (fun vl => atleast_impls k vl (windows (k + 1) vl)) vls)) = true <->
   Forall (fun vl => Forall (fun n => k <= n) (bruns (map (fun v => s (zn v)) vl))) vls).
Proof.
  intros Hk Hpos. rewrite eval_and_flat_map. rewrite !Forall_forall. rewrite Forall_forall in Hpos.
  split; intros H vl Hvl; specialize (H vl Hvl); specialize (Hpos vl Hvl);
    rewrite Nat.add_1_r in *; apply (atleast_impls_spec k vl s Hk Hpos); exact H.
Qed.

(** what [ekr_loop] appends to [implications] for one window, and what it has
    accumulated after all windows *)
Definition ekr_window (k : nat) (vl : list nat) : list fm :=
  match windows k vl with
  | [] => map (fun v => FNot (fv v)) vl
  | sub => ekr_impls k sub
  end.

Definition ekr_all (k : nat) (vls : list (list nat)) : list fm := flat_map (ekr_window k) vls.

Theorem ekr_formula_spec k vls s :
  0 < k -> Forall (Forall (fun v => 0 < v)) vls ->
  (eval s (FAnd (ekr_all k vls)) = true <->
   Forall (fun vl => Forall (fun n => n = k) (bruns (map (fun v => s (zn v)) vl))) vls).
Proof.
  intros Hk Hpos. unfold ekr_all. rewrite eval_and_flat_map. rewrite !Forall_forall.
  rewrite Forall_forall in Hpos.
  split; intros H vl Hvl; specialize (H vl Hvl); specialize (Hpos vl Hvl);
    apply (ekr_impls_spec k vl s Hk Hpos); exact H.
Qed.

Lemma ekr_loop_cons : forall k vl r impls fresh,
  ekr_loop k (vl :: r) impls fresh =
  let impls' := impls ++ ekr_window k vl in
  let '(cls, fresh1) := cnf_fn impls' fresh in
  let '(cls2, fresh2) := ekr_loop k r impls' fresh1 in
  (cls ++ cls2, fresh2).
Proof.
  intros k vl r impls fresh. cbn [ekr_loop]. cbv zeta. unfold ekr_window.
  destruct (windows k vl); reflexivity.
Qed.

(** [ekr_loop] calls [cnf_fn] once per window on the implications accumulated
    so far; the clauses of the last call are those of [ekr_all] of all the
    windows (so the emitted CNF contains the Tseitin clauses of that formula). *)
Theorem ekr_loop_last_call : forall k vls vl0 impls fresh,
  exists fresh' rest,
    fst (ekr_loop k (vls ++ [vl0]) impls fresh) =
    rest ++ fst (cnf_fn (impls ++ ekr_all k (vls ++ [vl0])) fresh').
Proof.
  intros k vls. induction vls as [|vl r IH]; intros vl0 impls fresh.
  - exists fresh, []. cbn [app]. rewrite ekr_loop_cons. cbv zeta.
    unfold ekr_all. cbn [flat_map ekr_loop]. rewrite app_nil_r.
    destruct (cnf_fn (impls ++ ekr_window k vl0) fresh) as [cls fresh1].
    cbn [fst]. rewrite app_nil_r. reflexivity.
  - cbn [app]. rewrite ekr_loop_cons. cbv zeta.
    destruct (cnf_fn (impls ++ ekr_window k vl) fresh) as [cls fresh1].
    destruct (IH vl0 (impls ++ ekr_window k vl) fresh1) as [fresh' [rest Hr]].
    destruct (ekr_loop k (r ++ [vl0]) (impls ++ ekr_window k vl) fresh1) as [cls2 fresh2].
    cbn [fst] in *. exists fresh', (cls ++ rest). rewrite Hr, <- app_assoc.
    unfold ekr_all. cbn [flat_map]. rewrite <- app_assoc. reflexivity.
Qed.

Print Assumptions atleast_impls_spec.
Print Assumptions ekr_impls_spec.
Print Assumptions atleast_formula_spec.
Print Assumptions ekr_formula_spec.
Print Assumptions ekr_loop_last_call.
