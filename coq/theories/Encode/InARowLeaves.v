(** Leaves of the formulas emitted by the AtLeastKInARow / ExactlyKInARow
    encoders: every leaf is the Z image of one of the variables of the window
    list, in particular never the default 0 of the [nth _ _ 0], [last _ 0],
    [hd 0] calls of the definitions in Encode/Compile.v.  Proof file. *)
From Coq Require Import ZArith List Bool Lia Arith.
From SP Require Import Base.Sat Logic.Formula Encode.Compile Encode.Runs Encode.InARow.
Import ListNotations.
Close Scope Z_scope.
Open Scope nat_scope.

(** * 1. Good formulas: all leaves come from [vl] *)

Definition GoodF (vl : list nat) (f : fm) : Prop :=
  forall z, In z (leaves f) -> exists v, In v vl /\ z = Z.of_nat v.

Definition GoodL (vl : list nat) (l : list fm) : Prop :=
  forall f, In f l -> GoodF vl f.

Lemma goodF_fv : forall vl v, In v vl -> GoodF vl (fv v).
Proof.
  intros vl v H z Hz. simpl in Hz. destruct Hz as [Hz | []].
  exists v. split; [exact H | symmetry; exact Hz].
Qed.

Lemma goodF_not : forall vl f, GoodF vl f -> GoodF vl (FNot f).
Proof. intros vl f H z Hz. apply H. exact Hz. Qed.

Lemma goodF_if : forall vl p q, GoodF vl p -> GoodF vl q -> GoodF vl (FIf p q).
Proof.
  intros vl p q Hp Hq z Hz. simpl in Hz. apply in_app_or in Hz.
  destruct Hz as [Hz | Hz]; [apply Hp | apply Hq]; exact Hz.
Qed.

Lemma goodF_iff : forall vl p q, GoodF vl p -> GoodF vl q -> GoodF vl (FIff p q).
Proof.
  intros vl p q Hp Hq z Hz. simpl in Hz. apply in_app_or in Hz.
  destruct Hz as [Hz | Hz]; [apply Hp | apply Hq]; exact Hz.
Qed.

Lemma goodF_and : forall vl l, GoodL vl l -> GoodF vl (FAnd l).
Proof.
  intros vl l H z Hz. simpl in Hz. apply in_flat_map in Hz.
  destruct Hz as [f [Hf Hz]]. exact (H f Hf z Hz).
Qed.

Lemma goodF_or : forall vl l, GoodL vl l -> GoodF vl (FOr l).
Proof.
  intros vl l H z Hz. simpl in Hz. apply in_flat_map in Hz.
  destruct Hz as [f [Hf Hz]]. exact (H f Hf z Hz).
Qed.

Lemma goodL_nil : forall vl, GoodL vl [].
Proof. intros vl f []. Qed.

Lemma goodL_cons : forall vl f l, GoodF vl f -> GoodL vl l -> GoodL vl (f :: l).
Proof.
  intros vl f l Hf Hl g [Hg | Hg]; [subst g; exact Hf | exact (Hl g Hg)].
Qed.

Lemma goodL_app : forall vl l1 l2, GoodL vl l1 -> GoodL vl l2 -> GoodL vl (l1 ++ l2).
Proof.
  intros vl l1 l2 H1 H2 g Hg. apply in_app_or in Hg.
  destruct Hg as [Hg | Hg]; [exact (H1 g Hg) | exact (H2 g Hg)].
Qed.

Lemma goodL_map : forall A vl (g : A -> fm) (l : list A),
  (forall x, In x l -> GoodF vl (g x)) -> GoodL vl (map g l).
Proof.
  intros A vl g l H f Hf. apply in_map_iff in Hf.
  destruct Hf as [x [Hx Hin]]. subst f. exact (H x Hin).
Qed.

Lemma goodL_map_fv : forall vl w, incl w vl -> GoodL vl (map fv w).
Proof.
  intros vl w H. apply goodL_map. intros x Hx. apply goodF_fv. exact (H x Hx).
Qed.

Lemma goodL_not_pairs : forall vl w, incl w vl -> GoodL vl (not_pairs w).
Proof.
  intros vl w. induction w as [|a r IH]; intro H; [apply goodL_nil|].
  destruct r as [|b r']; [apply goodL_nil|].
  change (GoodL vl (FIf (FNot (fv a)) (FNot (fv b)) :: not_pairs (b :: r'))).
  apply goodL_cons.
  - apply goodF_if; apply goodF_not; apply goodF_fv; apply H.
    + left; reflexivity.
    + right; left; reflexivity.
  - apply IH. intros x Hx. apply H. right. exact Hx.
Qed.

Lemma goodL_tail_impls : forall vl w, incl w vl -> GoodL vl (tail_impls w).
Proof.
  intros vl w. induction w as [|a r IH]; intro H; [apply goodL_nil|].
  destruct r as [|b r']; [apply goodL_nil|].
  change (GoodL vl (FIf (fv a) (fv b) :: tail_impls (b :: r'))).
  apply goodL_cons.
  - apply goodF_if; apply goodF_fv; apply H.
    + left; reflexivity.
    + right; left; reflexivity.
  - apply IH. intros x Hx. apply H. right. exact Hx.
Qed.

(** the [match ql with [x] => x | _ => FAnd ql end] of [ekr_impls] *)
Lemma goodF_single_or_and : forall vl ql, GoodL vl ql ->
  GoodF vl (match ql with [x] => x | _ => FAnd ql end).
Proof.
  intros vl ql H. destruct ql as [|x [|y r]].
  - apply goodF_and. exact H.
  - apply H. left. reflexivity.
  - apply goodF_and. exact H.
Qed.

(** * 2. Sub-lists *)

Lemma incl_firstn : forall A n (l : list A), incl (firstn n l) l.
Proof.
  intros A n. induction n as [|n IH]; intros l x Hx; [destruct Hx|].
  destruct l as [|a r]; [destruct Hx|].
  simpl in Hx. destruct Hx as [Hx | Hx]; [left; exact Hx | right; exact (IH r x Hx)].
Qed.

Lemma incl_skipn : forall A n (l : list A), incl (skipn n l) l.
Proof.
  intros A n. induction n as [|n IH]; intros l x Hx; [exact Hx|].
  destruct l as [|a r]; [destruct Hx|].
  simpl in Hx. right. exact (IH r x Hx).
Qed.

Lemma incl_tl_self : forall A (l : list A), incl (tl l) l.
Proof. intros A l x Hx. destruct l as [|a r]; [destruct Hx | right; exact Hx]. Qed.

Lemma incl_removelast : forall A (l : list A), incl (removelast l) l.
Proof.
  intros A l. induction l as [|a r IH]; intros x Hx; [destruct Hx|].
  destruct r as [|b r']; [destruct Hx|].
  change (In x (a :: removelast (b :: r'))) in Hx.
  destruct Hx as [Hx | Hx]; [left; exact Hx | right; exact (IH x Hx)].
Qed.

Lemma incl_rev_self : forall A (l : list A), incl (rev l) l.
Proof. intros A l x Hx. apply in_rev. exact Hx. Qed.

Lemma last_In : forall A (l : list A) d, l <> [] -> In (last l d) l.
Proof.
  intros A l d. induction l as [|a r IH]; intro H; [congruence|].
  destruct r as [|b r']; [left; reflexivity|].
  right. change (In (last (b :: r') d) (b :: r')). apply IH. discriminate.
Qed.

Lemma windows_members : forall L (vl w : list nat),
  In w (windows L vl) -> length w = L /\ incl w vl.
Proof.
  intros L vl w H. split; [exact (windows_length _ _ _ _ H)|].
  apply windows_spec in H. destruct H as [i [_ [_ Hw]]]. subst w.
  intros x Hx. apply (incl_skipn _ i). apply (incl_firstn _ L). exact Hx.
Qed.

(** * 3. Lists of windows of a common length *)

Section Wins.
Variable vl : list nat.
Variable L : nat.
Variable subs : list (list nat).
Hypothesis HW : forall w, In w subs -> length w = L /\ incl w vl.

Lemma win_nth : forall w j, In w subs -> j < L -> In (nth j w 0) vl.
Proof.
  intros w j Hw Hj. destruct (HW w Hw) as [Hlen Hinc].
  apply Hinc. apply nth_In. lia.
Qed.

Lemma win_last : forall w, In w subs -> 0 < L -> In (last w 0) vl.
Proof.
  intros w Hw HL. destruct (HW w Hw) as [Hlen Hinc].
  apply Hinc. apply last_In. intro E. subst w. simpl in Hlen. lia.
Qed.

Lemma win_incl : forall w, In w subs -> incl w vl.
Proof. intros w Hw. exact (proj2 (HW w Hw)). Qed.

Lemma win_nth_sub : forall i, i < length subs -> In (nth i subs []) subs.
Proof. intros i Hi. apply nth_In. exact Hi. Qed.

Lemma win_last_sub : subs <> [] -> In (last subs []) subs.
Proof. intro H. apply last_In. exact H. Qed.

End Wins.

(** * 4. AtLeastKInARow *)

Lemma atleast_impls_cons : forall k vl first rest,
  atleast_impls k vl (first :: rest) =
  FIf (fv (nth 0 first 0)) (FAnd (map fv (removelast (tl first))))
  :: map (fun s => FIf (FAnd [FNot (fv (nth 0 s 0)); fv (nth 1 s 0)]) (FAnd (map fv (skipn 2 s))))
         (first :: rest)
  ++ [FIf (FNot (fv (nth 1 (last (first :: rest) []) 0)))
          (FNot (FOr (map fv (skipn 2 (last (first :: rest) [])))))]
  ++ (if 1 <? length (first :: rest) then not_pairs (skipn 2 (last (first :: rest) [])) else []).
Proof. reflexivity. Qed.

Lemma atleast_impls_nil : forall k vl,
  atleast_impls k vl [] =
  if length vl =? k then map (fun v => FIff (fv (hd 0 vl)) (fv v)) (tl vl)
  else map (fun v => FNot (fv v)) vl.
Proof. reflexivity. Qed.

Lemma atleast_good : forall k vl subs, 0 < k ->
  (forall w, In w subs -> length w = S k /\ incl w vl) ->
  GoodL vl (atleast_impls k vl subs).
Proof.
  intros k vl subs Hk HW. destruct subs as [|first rest].
  - rewrite atleast_impls_nil. destruct (length vl =? k) eqn:E.
    + apply Nat.eqb_eq in E. apply goodL_map. intros x Hx.
      apply goodF_iff; apply goodF_fv.
      * destruct vl as [|a r]; [simpl in E; lia | left; reflexivity].
      * apply (incl_tl_self _ vl). exact Hx.
    + apply goodL_map. intros x Hx. apply goodF_not. apply goodF_fv. exact Hx.
  - rewrite atleast_impls_cons.
    assert (Hfirst : In first (first :: rest)) by (left; reflexivity).
    assert (Hlst : In (last (first :: rest) []) (first :: rest))
      by (apply last_In; discriminate).
    remember (last (first :: rest) []) as lst eqn:El.
    remember (first :: rest) as ss eqn:Es.
    apply goodL_cons; [|apply goodL_app; [|apply goodL_app]].
    + apply goodF_if.
      * apply goodF_fv. apply (win_nth vl (S k) ss HW); [exact Hfirst | lia].
      * apply goodF_and. apply goodL_map_fv.
        intros x Hx. apply (win_incl vl (S k) ss HW first Hfirst).
        apply (incl_tl_self _ first). apply (incl_removelast _ (tl first)). exact Hx.
    + apply goodL_map. intros w Hw. apply goodF_if.
      * apply goodF_and. apply goodL_cons; [|apply goodL_cons; [|apply goodL_nil]].
        -- apply goodF_not. apply goodF_fv. apply (win_nth vl (S k) ss HW); [exact Hw | lia].
        -- apply goodF_fv. apply (win_nth vl (S k) ss HW); [exact Hw | lia].
      * apply goodF_and. apply goodL_map_fv.
        intros x Hx. apply (win_incl vl (S k) ss HW w Hw).
        apply (incl_skipn _ 2 w). exact Hx.
    + apply goodL_cons; [|apply goodL_nil]. apply goodF_if.
      * apply goodF_not. apply goodF_fv. apply (win_nth vl (S k) ss HW); [exact Hlst | lia].
      * apply goodF_not. apply goodF_or. apply goodL_map_fv.
        intros x Hx. apply (win_incl vl (S k) ss HW lst Hlst).
        apply (incl_skipn _ 2 lst). exact Hx.
    + destruct (1 <? length ss); [|apply goodL_nil].
      apply goodL_not_pairs.
      intros x Hx. apply (win_incl vl (S k) ss HW lst Hlst).
      apply (incl_skipn _ 2 lst). exact Hx.
Qed.

Lemma atleast_impls_leaves : forall k vl z, 0 < k ->
  In z (leaves (FAnd (atleast_impls k vl (windows (S k) vl)))) ->
  exists v, In v vl /\ z = Z.of_nat v.
Proof.
  intros k vl z Hk Hz. revert z Hz.
  change (GoodF vl (FAnd (atleast_impls k vl (windows (S k) vl)))).
  apply goodF_and. apply atleast_good; [exact Hk|].
  intros w Hw. exact (windows_members _ _ _ Hw).
Qed.

(** * 5. ExactlyKInARow *)

Lemma ekr_one_good : forall k vl subs idx, 0 < k ->
  (forall w, In w subs -> length w = k /\ incl w vl) ->
  idx < length subs ->
  GoodF vl (ekr_one k subs idx).
Proof.
  intros k vl subs idx Hk HW Hidx. unfold ekr_one. cbv zeta.
  assert (Hl : In (nth idx subs []) subs) by (apply nth_In; exact Hidx).
  remember (nth idx subs []) as l eqn:El.
  apply goodF_if.
  - destruct (idx =? 0) eqn:E0.
    + apply goodF_fv. apply (win_nth vl k subs HW); [exact Hl | lia].
    + apply Nat.eqb_neq in E0.
      apply goodF_and. apply goodL_cons; [|apply goodL_cons; [|apply goodL_nil]].
      * apply goodF_not. apply goodF_fv. apply (win_nth vl k subs HW); [|lia].
        apply nth_In. lia.
      * apply goodF_fv. apply (win_nth vl k subs HW); [exact Hl | lia].
  - destruct (idx <? length subs - 1) eqn:E1.
    + apply Nat.ltb_lt in E1. apply goodF_single_or_and. apply goodL_app.
      * apply goodL_map_fv. intros x Hx. apply (win_incl vl k subs HW l Hl).
        apply (incl_tl_self _ l). exact Hx.
      * apply goodL_cons; [|apply goodL_nil]. apply goodF_not. apply goodF_fv.
        apply (win_last vl k subs HW); [|exact Hk]. apply nth_In. lia.
    + assert (Htl : incl (tl l) vl).
      { intros x Hx. apply (win_incl vl k subs HW l Hl). apply (incl_tl_self _ l). exact Hx. }
      assert (Hn : GoodF vl (fv (nth (k - 1) l 0))).
      { apply goodF_fv. apply (win_nth vl k subs HW); [exact Hl | lia]. }
      destruct (tl l) as [|a [|b r]] eqn:Et.
      * exact Hn.
      * exact Hn.
      * apply goodF_and. apply goodL_map_fv. exact Htl.
Qed.

Lemma ekr_good : forall k vl subs, 0 < k -> subs <> [] ->
  (forall w, In w subs -> length w = k /\ incl w vl) ->
  GoodL vl (ekr_impls k subs).
Proof.
  intros k vl subs Hk Hne HW. rewrite ekr_impls_unfold. apply goodL_app.
  - apply goodL_map. intros idx Hidx. apply in_seq in Hidx.
    apply ekr_one_good; [exact Hk | exact HW |].
    destruct (1 <? k); lia.
  - destruct (1 <? length (last subs [])); [|apply goodL_nil].
    apply goodL_tail_impls. intros x Hx.
    apply (win_incl vl k subs HW (last subs [])); [apply last_In; exact Hne|].
    apply (incl_rev_self _ (last subs [])). exact Hx.
Qed.

Lemma ekr_window_leaves : forall k vl z, 0 < k ->
  In z (leaves (FAnd (ekr_window k vl))) -> exists v, In v vl /\ z = Z.of_nat v.
Proof.
  intros k vl z Hk Hz. revert z Hz.
  change (GoodF vl (FAnd (ekr_window k vl))).
  apply goodF_and. unfold ekr_window.
  destruct (windows k vl) as [|w0 r] eqn:E.
  - apply goodL_map. intros x Hx. apply goodF_not. apply goodF_fv. exact Hx.
  - change (GoodL vl (ekr_impls k (w0 :: r))). apply ekr_good.
    + exact Hk.
    + discriminate.
    + intros w Hw. rewrite <- E in Hw. exact (windows_members _ _ _ Hw).
Qed.

Print Assumptions atleast_impls_leaves.
Print Assumptions ekr_window_leaves.
