(** Model of the iterate-and-block loop of
    sweetpea/_internal/core/generate/sample_non_uniform.py
    ([compute_solutions] + [update_file]): call the solver on the CNF; stop on
    UNSAT or when [count] is exhausted; otherwise truncate the solution to its
    first [support] literals, append the blocking clause
    [[-lit for lit in solution]] to the CNF and the truncated solution to the
    result.  Executable definitions only; proofs are in IterateProofs.v. *)
From Coq Require Import ZArith List Bool.
From SP Require Import Base.Sat.
Import ListNotations.
Open Scope Z_scope.

(* list(range(a, a+n)) *)
Fixpoint zrange (a : Z) (n : nat) : list Z :=
  match n with
  | O => []
  | S n' => a :: zrange (a + 1) n'
  end.

(* solution[:support]: signed literals of variables 1..support *)
Definition proj (support : nat) (s : asg) : list Z :=
  map (fun v => if s v then v else - v) (zrange 1 support).

(* negated_solution = [-1 * var for var in solution] *)
Definition blocking (sol : list Z) : clause := map Z.opp sol.

Section Iterate.
Variable solve : cnf -> option asg.

(* compute_solutions: [count] is the remaining number of requested solutions,
   [f] the current contents of the CNF file. *)
Fixpoint iterate (count : nat) (f : cnf) (support : nat) : list (list Z) :=
  match count with
  | O => []
  | S c =>
      match solve f with
      | None => []
      | Some s =>
          let sol := proj support s in
          sol :: iterate c (f ++ [blocking sol]) support
      end
  end.
End Iterate.
