(** The iterate-and-block loop of IterateSATGen run on the compiled formula
    (fragment F1): what it returns are projections of models that decode to
    valid sequences, pairwise different, and when it stops before the requested
    count every valid sequence has been returned. *)
From Coq Require Import ZArith List Bool Arith Lia.
From SP Require Import Base.Sat.
From SP Require Import Design.Flat Design.Sem.
From SP Require Import Encode.Compile Encode.CodeSem Encode.LayoutF1 Encode.F1Kinds Encode.F1Sem
     Encode.CompileProofs Encode.CompileCorollaries Encode.Iterate Encode.IterateProofs.
Import ListNotations.
Close Scope Z_scope.
Open Scope nat_scope.

Theorem iterate_compiled
  (solve : cnf -> option asg)
  (solve_sound : forall f s, solve f = Some s -> sat s f = true)
  (solve_complete : forall f, solve f = None -> forall s, sat s f = false)
  (fb : flat) (b : backend) (ok : bool) (n' : Z) (final : cnf) (count support : nat) :
  in_f1 fb = true -> 0 < T fb -> compile fb = COk b -> full_cnf b = (ok, n', final) ->
  let r := iterate solve count final support in
  NoDup r /\
  (forall sol, In sol r ->
     exists t q, sat t final = true /\ proj support t = sol /\ onehot fb t q /\ valid_b (code_sem fb) q = true) /\
  (length r < count ->
     forall q, valid_b (code_sem fb) q = true ->
       exists t, sat t final = true /\ onehot fb t q /\ In (proj support t) r).
Proof.
  intros HF1 HT Hc Ef r.
  destruct (iterate_exhausts solve solve_sound solve_complete count final support) as (Hnd & Hin & _ & Hex & _).
  fold r in Hnd, Hin, Hex. split; [exact Hnd|]. split.
  - intros sol Hsol. destruct (Hin sol Hsol) as (t & St & Ep).
    destruct (models_are_valid fb HF1 HT b Hc ok n' final t Ef St) as (q & Ho & Hv).
    exists t, q. auto.
  - intros Hlt q Hv. destruct (valid_has_model fb HF1 HT b Hc ok n' final q Ef Hv) as (t & St & Ho).
    exists t. split; [exact St|]. split; [exact Ho|]. now apply Hex.
Qed.
