(** Proofs about the iterate-and-block loop modelled in Iterate.v: with a sound
    and complete solver the loop returns pairwise distinct projections of
    models of the original formula, exhausts them when it stops early, and
    returns exactly min(count, N) of them. *)
From Coq Require Import ZArith List Bool Lia ZifyBool.
From SP Require Import Base.Sat Encode.Iterate.
Import ListNotations.
Open Scope Z_scope.

(** * The projection and its blocking clause *)

Lemma zrange_lower a n v : In v (zrange a n) -> a <= v.
Proof.
  revert a. induction n as [|n IH]; intros a Hin; cbn [zrange In] in Hin.
  - destruct Hin.
  - destruct Hin as [E|Hin]; [lia|]. apply IH in Hin. lia.
Qed.

Lemma zrange_length a n : length (zrange a n) = n.
Proof.
  revert a. induction n as [|n IH]; intros a; cbn [zrange length];
    [reflexivity|now rewrite IH].
Qed.

Lemma proj_length support s : length (proj support s) = support.
Proof. unfold proj. now rewrite map_length, zrange_length. Qed.

Definition signed (s : asg) (v : Z) : Z := if s v then v else - v.

Lemma proj_signed support s : proj support s = map (signed s) (zrange 1 support).
Proof. reflexivity. Qed.

Lemma signed_eq_iff s s0 v :
  0 < v -> (signed s v = signed s0 v <-> s v = s0 v).
Proof.
  intros Hv. unfold signed.
  destruct (s v), (s0 v); split; intros H;
    try reflexivity; try discriminate; lia.
Qed.

Lemma block_lit s s0 v :
  0 < v -> lit_true s (- signed s0 v) = negb (eqb (s v) (s0 v)).
Proof.
  intros Hv. unfold signed. destruct (s0 v).
  - rewrite lit_true_neg by assumption. now destruct (s v).
  - rewrite Z.opp_involutive, lit_true_pos by assumption. now destruct (s v).
Qed.

Lemma csat_blocking_list s s0 l :
  (forall v, In v l -> 0 < v) ->
  (csat s (blocking (map (signed s0) l)) = true <->
   map (signed s) l <> map (signed s0) l).
Proof.
  induction l as [|v l IH]; intros Hpos.
  - cbn. split; [discriminate|intros H; now elim H].
  - assert (Hv : 0 < v) by (apply Hpos; now left).
    assert (Hl : forall w, In w l -> 0 < w) by (intros w Hw; apply Hpos; now right).
    specialize (IH Hl).
    unfold csat, blocking in *. cbn [map existsb].
    rewrite orb_true_iff, block_lit by assumption. rewrite IH. split.
    + intros [Hd|Hd] E; injection E as E1 E2.
      * apply signed_eq_iff in E1; [|assumption]. rewrite E1 in Hd.
        now destruct (s0 v).
      * now apply Hd.
    + intros Hne. destruct (eqb (s v) (s0 v)) eqn:Eb.
      * right. intros E. apply Hne. f_equal; [|assumption].
        apply signed_eq_iff; [assumption|]. now apply eqb_prop.
      * now left.
Qed.

Lemma csat_blocking support s s0 :
  csat s (blocking (proj support s0)) = true <->
  proj support s <> proj support s0.
Proof.
  rewrite !proj_signed. apply csat_blocking_list.
  intros v Hv. apply zrange_lower in Hv. lia.
Qed.

(** Key lemma: models of the formula extended by the blocking clause. *)
Lemma sat_block support f s s0 :
  sat s (f ++ [blocking (proj support s0)]) = true <->
  sat s f = true /\ proj support s <> proj support s0.
Proof.
  rewrite sat_app, andb_true_iff. cbn [sat forallb]. rewrite andb_true_r.
  now rewrite csat_blocking.
Qed.

Lemma sol_eq_dec (a b : list Z) : {a = b} + {a <> b}.
Proof. apply list_eq_dec, Z.eq_dec. Qed.

Section IterateProofs.
Variable solve : cnf -> option asg.
Hypothesis solve_sound : forall f s, solve f = Some s -> sat s f = true.
Hypothesis solve_complete : forall f, solve f = None -> forall s, sat s f = false.

(** The four structural facts, by induction on [count] generalised over the
    current formula. *)
Lemma iterate_inv support count : forall f,
  let r := iterate solve count f support in
  NoDup r /\
  (forall sol, In sol r -> exists s, sat s f = true /\ proj support s = sol) /\
  (length r <= count)%nat /\
  ((length r < count)%nat -> forall s, sat s f = true -> In (proj support s) r).
Proof.
  induction count as [|c IH]; intros f; cbn zeta.
  - cbn [iterate]. repeat split.
    + constructor.
    + intros sol [].
    + reflexivity.
    + cbn [length]. lia.
  - cbn [iterate]. destruct (solve f) as [s0|] eqn:Es.
    + cbn zeta. set (sol0 := proj support s0).
      specialize (IH (f ++ [blocking sol0])). cbn zeta in IH.
      set (r' := iterate solve c (f ++ [blocking sol0]) support) in *.
      destruct IH as (Hnd & Hmod & Hlen & Hex).
      repeat split.
      * constructor; [|assumption]. intros Hin.
        destruct (Hmod _ Hin) as (s & Hs & Hp).
        apply sat_block in Hs. destruct Hs as [_ Hne]. now apply Hne.
      * intros sol [E|Hin].
        -- exists s0. split; [now apply solve_sound|exact E].
        -- destruct (Hmod _ Hin) as (s & Hs & Hp).
           apply sat_block in Hs. exists s. now split.
      * cbn [length]. lia.
      * cbn [length]. intros Hlt s Hs.
        destruct (sol_eq_dec (proj support s) sol0) as [E|Hne].
        -- left. now symmetry.
        -- right. apply Hex; [lia|]. apply sat_block. now split.
    + repeat split.
      * constructor.
      * intros sol [].
      * cbn [length]. lia.
      * intros _ s Hs. rewrite (solve_complete f Es s) in Hs. discriminate.
Qed.

Theorem iterate_exhausts count f support :
  let r := iterate solve count f support in
  NoDup r /\
  (forall sol, In sol r -> exists s, sat s f = true /\ proj support s = sol) /\
  (length r <= count)%nat /\
  ((length r < count)%nat -> forall s, sat s f = true -> In (proj support s) r) /\
  (forall L, NoDup L ->
     (forall sol, In sol L <-> exists s, sat s f = true /\ proj support s = sol) ->
     length r = Nat.min count (length L)).
Proof.
  cbn zeta. destruct (iterate_inv support count f) as (Hnd & Hmod & Hlen & Hex).
  cbn zeta in *. set (r := iterate solve count f support) in *.
  repeat split; try assumption.
  intros L HL HLiff.
  assert (Hinc : incl r L).
  { intros sol Hin. apply HLiff. now apply Hmod. }
  pose proof (NoDup_incl_length Hnd Hinc) as Hle.
  destruct (Nat.lt_ge_cases (length r) count) as [Hlt|Hge].
  - assert (Hinc' : incl L r).
    { intros sol Hin. apply HLiff in Hin. destruct Hin as (s & Hs & Hp).
      subst sol. now apply Hex. }
    pose proof (NoDup_incl_length HL Hinc') as Hle'. lia.
  - lia.
Qed.

(** Every returned solution has exactly [support] literals. *)
Lemma iterate_lengths count f support sol :
  In sol (iterate solve count f support) -> length sol = support.
Proof.
  intros Hin.
  destruct (iterate_exhausts count f support) as (_ & Hmod & _). cbn zeta in Hmod.
  destruct (Hmod _ Hin) as (s & _ & Hp). subst sol. apply proj_length.
Qed.

End IterateProofs.

(** * A concrete solver

    Brute force over the variables 1..n.  It is sound for every formula (and
    complete for formulas mentioning only variables 1..n); running the loop
    with it on (x1 \/ x2) returns the three projected models and then stops. *)
Fixpoint all_bools (n : nat) : list (list bool) :=
  match n with
  | O => [[]]
  | S n' => map (cons true) (all_bools n') ++ map (cons false) (all_bools n')
  end.

Definition asg_of (bs : list bool) : asg :=
  fun v => nth (Z.to_nat (v - 1)) bs false.

Definition solve_bf (n : nat) (f : cnf) : option asg :=
  find (fun s => sat s f) (map asg_of (all_bools n)).

Lemma solve_bf_sound n f s : solve_bf n f = Some s -> sat s f = true.
Proof. unfold solve_bf. intros H. now apply find_some in H. Qed.

Example iterate_bf_or :
  iterate (solve_bf 2) 5 [[1; 2]] 2 = [[1; 2]; [1; -2]; [-1; 2]].
Proof. vm_compute. reflexivity. Qed.

Example iterate_bf_or_count :
  iterate (solve_bf 2) 2 [[1; 2]] 2 = [[1; 2]; [1; -2]].
Proof. vm_compute. reflexivity. Qed.

(* The projection may be shorter than the variable set: x3 is free, the two
   models of (x1) /\ (x2 \/ x3) projected on 1..2 are returned once each. *)
Example iterate_bf_project :
  iterate (solve_bf 3) 5 [[1]; [2; 3]] 2 = [[1; 2]; [1; -2]].
Proof. vm_compute. reflexivity. Qed.

Print Assumptions iterate_exhausts.
