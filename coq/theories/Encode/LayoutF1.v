(** Layout arithmetic on the fragment F1 ([CodeSem.in_f1]): [act_design] lists
    some of the design factors in design order, each once (the others,
    "implied", have no variables); a factor of [act_design] is simple /
    WithinTrial (a grid factor: one variable per level and trial) or has a
    complex window (Transition, Window: one variable per level and trial in
    which it applies, numbered after the grid); all sustain counts are 1.
    The variable of (trial t, factor f, level l) is [gvar fb t f l].  Proof file. *)
From Coq Require Import ZArith List Bool Arith Lia ZifyBool.
From SP Require Import Design.Flat Design.Layout Encode.Compile Encode.CodeSem.
From SP Require Core.Card.
Import ListNotations.
Close Scope Z_scope.
Open Scope nat_scope.

Definition nf (fb : flat) : nat := length (fl_design fb).
(* grid factors / complex factors of [act_design] *)
Definition sact (fb : flat) (f : nat) : bool := isact fb f && negb (is_complex fb f).
Definition cact (fb : flat) (f : nat) : bool := isact fb f && is_complex fb f.
(* levels that have grid variables: those of the grid factors *)
Definition anl (fb : flat) (f : nat) : nat := if sact fb f then nlevels fb f else 0.
(* sum of the level counts of the grid factors before f *)
Definition off (fb : flat) (f : nat) : nat :=
  fold_left (fun acc g => acc + anl fb g) (seq 0 f) 0.
(* does factor f have a level in (0-based) trial t; how many earlier trials does it have a level in *)
Definition lappl (fb : flat) (f t : nat) : bool := applies_at fb f (S t).
Definition prev (fb : flat) (f t : nat) : nat := previous_trials_count fb f (S t).
Definition napp (fb : flat) (f : nat) : nat := prev fb f (T fb).
(* variables of a complex factor, and the sum over the complex factors before f *)
Definition cnl (fb : flat) (f : nat) : nat := if cact fb f then napp fb f * nlevels fb f else 0.
Definition coff (fb : flat) (f : nat) : nat :=
  fold_left (fun acc g => acc + cnl fb g) (seq 0 f) 0.
(* number of grid variables, of all variables *)
Definition GN (fb : flat) : nat := T fb * vpt fb.
Definition VN (fb : flat) : nat := GN fb + coff fb (nf fb).
(* SAT variable of (0-based trial t, factor f, level l) *)
Definition gvar (fb : flat) (t f l : nat) : nat :=
  if is_complex fb f then GN fb + coff fb f + prev fb f t * nlevels fb f + l + 1
  else t * vpt fb + off fb f + l + 1.

(** * Generic list facts *)

Lemma list_nat_eqb_eq : forall a b, list_nat_eqb a b = true -> a = b.
Proof.
  induction a as [|x a IH]; intros [|y b] H; simpl in H; try discriminate; auto.
  apply andb_true_iff in H. destruct H as [H1 H2].
  apply Nat.eqb_eq in H1. subst y. f_equal. auto.
Qed.

Lemma filter_all_true {A} (p : A -> bool) (l : list A) :
  (forall x, In x l -> p x = true) -> filter p l = l.
Proof.
  induction l as [|x l IH]; intros H; simpl; auto.
  rewrite (H x (or_introl eq_refl)). f_equal. apply IH. intros y Hy. apply H. right. exact Hy.
Qed.

Lemma filter_all_false {A} (p : A -> bool) (l : list A) :
  (forall x, In x l -> p x = false) -> filter p l = [].
Proof.
  induction l as [|x l IH]; intros H; simpl; auto.
  rewrite (H x (or_introl eq_refl)). apply IH. intros y Hy. apply H. right. exact Hy.
Qed.

Lemma seq_shift0 : forall n s, seq s n = map (Nat.add s) (seq 0 n).
Proof.
  induction n as [|n IH]; intros s; simpl; auto.
  f_equal; [lia|].
  rewrite <- (seq_shift n 0), map_map, (IH (S s)).
  apply map_ext. intros i. lia.
Qed.

Lemma map_seq_shift0 {B} (g : nat -> B) s n :
  map g (seq s n) = map (fun i => g (s + i)) (seq 0 n).
Proof. rewrite (seq_shift0 n s), map_map. reflexivity. Qed.

Lemma zrange_map : forall n a, zrange a n = map (fun i => (a + Z.of_nat i)%Z) (seq 0 n).
Proof.
  induction n as [|n IH]; intros a; simpl; auto.
  f_equal; [lia|].
  rewrite <- (seq_shift n 0), map_map, IH. apply map_ext. intros i. lia.
Qed.

Lemma fold_max_zero : forall l, (forall n, In n l -> n = 0) -> fold_left Nat.max l 0 = 0.
Proof.
  induction l as [|x l IH]; intros H; simpl; auto.
  rewrite (H x (or_introl eq_refl)). simpl. apply IH. intros n Hn. apply H. right. exact Hn.
Qed.

Lemma fold_overwrite_one (f : nat) :
  forall (l : list (list nat * nat)) acc,
    (forall p, In p l -> snd p = 1) -> acc = 1 ->
    fold_left (fun acc cs => if existsb (Nat.eqb f) (fst cs) then snd cs else acc) l acc = 1.
Proof.
  induction l as [|p l IH]; intros acc H Hacc; simpl; auto.
  apply IH.
  - intros q Hq. apply H. right. exact Hq.
  - destruct (existsb (Nat.eqb f) (fst p)); auto. apply H. left. reflexivity.
Qed.

Lemma fold_left_filter_add {A} (p : A -> bool) (h : A -> nat) :
  forall l a, fold_left (fun acc g => acc + h g) (filter p l) a
            = fold_left (fun acc g => acc + (if p g then h g else 0)) l a.
Proof.
  induction l as [|x l IH]; intros a; simpl; auto.
  destruct (p x); simpl; rewrite IH; [reflexivity|]. f_equal. lia.
Qed.

Lemma NoDup_filter_seq (p : nat -> bool) : forall n s, NoDup (filter p (seq s n)).
Proof.
  intros n s. apply NoDup_filter. apply seq_NoDup.
Qed.

Lemma isact_In : forall fb f, isact fb f = true <-> In f (fl_act fb).
Proof.
  intros fb f. unfold isact. rewrite existsb_exists. split.
  - intros [x [Hx E]]. apply Nat.eqb_eq in E. subst x. exact Hx.
  - intros H. exists f. split; [exact H|apply Nat.eqb_refl].
Qed.

(** * Facts read off [in_f1] *)

Record F1facts (fb : flat) : Prop := {
  f1_act_sorted : fl_act fb = filter (isact fb) (seq 0 (nf fb));
  f1_implied : forall f fd, nth_error (fl_design fb) f = Some fd -> implied_ok fb f fd = true;
  f1_factor : forall f fd, nth_error (fl_design fb) f = Some fd -> isact fb f = true -> factor_f1 fd = true;
  f1_tables : forall f fd, nth_error (fl_design fb) f = Some fd ->
                           tables_ok fb f fd = true /\ tables_unambiguous fb f fd = true;
  f1_sustains_len : length (fl_sustains fb) = length (fl_crossings fb);
  f1_sustain_pos : forall f, 0 < sustain_of fb f;
  f1_sustain_one : forall f fd, nth_error (fl_design fb) f = Some fd -> sact fb f = false -> sustain_of fb f = 1;
  f1_sustain_deps : forall f fd w, nth_error (fl_design fb) f = Some fd -> ff_window fd = Some w -> sact fb f = true ->
                                   forall d, In d (win_deps w) -> sustain_of fb d mod sustain_of fb f = 0;
  f1_has_sustain : (forall f, sustain_of fb f = 1) \/ In FSustain (fl_constraints fb);
  f1_crossings : crossings_f1 fb 0 (fl_crossings fb) = true;
  f1_nodup : forall c, In c (fl_crossings fb) -> list_nat_nodup c = true;
  f1_constraints : forall c, In c (fl_constraints fb) -> constraint_f1 fb c = true;
  f1_has_consistency : In FConsistency (fl_constraints fb);
  f1_has_cross : In FCross (fl_constraints fb) \/ fl_crossings fb = [];
  f1_derivations : derivations_match fb = true;
  f1_exclude_backed : forall p, In p (fl_exclude fb) -> In (FExclude (fst p) (snd p)) (fl_constraints fb);
  f1_no_excluded_derived : forall e, In e (fl_excluded_derived fb) ->
                           exists p, In p (fl_exclude fb) /\ excluded_derived_of fb e p = true
}.

Lemma nth_error_combine_seq {A} : forall (l : list A) s f x,
  nth_error l f = Some x -> In (s + f, x) (combine (seq s (length l)) l).
Proof.
  induction l as [|y l IH]; intros s f x H; destruct f; simpl in *; try discriminate.
  - inversion H. subst. left. f_equal. lia.
  - right. replace (s + S f) with (S s + f) by lia. apply IH. exact H.
Qed.

Lemma fold_overwrite_pos (f : nat) :
  forall (l : list (list nat * nat)) acc,
    (forall p, In p l -> 0 < snd p) -> 0 < acc ->
    0 < fold_left (fun acc cs => if existsb (Nat.eqb f) (fst cs) then snd cs else acc) l acc.
Proof.
  induction l as [|p l IH]; intros acc H Hacc; simpl; auto.
  apply IH.
  - intros q Hq. apply H. right. exact Hq.
  - destruct (existsb (Nat.eqb f) (fst p)); auto. apply H. left. reflexivity.
Qed.

Lemma in_f1_facts : forall fb, in_f1 fb = true -> F1facts fb.
Proof.
  intros fb H. unfold in_f1 in H.
  repeat rewrite andb_true_iff in H.
  destruct H as [[[[[[[[[[[[H1 H2] [H3 H3b]] H4] H5] H8] H9] H10] H11] H12] H13] H14] H15].
  unfold sustains_ok in H4. rewrite !andb_true_iff in H4. destruct H4 as [[H4a H4b] H4c].
  rewrite forallb_forall in H4a, H4b.
  constructor.
  - apply list_nat_eqb_eq. exact H3.
  - intros f fd Hf. rewrite forallb_forall in H3b.
    specialize (H3b (f, fd)). simpl in H3b. apply H3b.
    apply (nth_error_combine_seq (fl_design fb) 0 f fd Hf).
  - intros f fd Hf Ha. rewrite forallb_forall in H1.
    specialize (H1 (f, fd) (nth_error_combine_seq (fl_design fb) 0 f fd Hf)). cbn [fst snd] in H1.
    rewrite Ha in H1. exact H1.
  - intros f fd Hf. rewrite forallb_forall in H2.
    specialize (H2 (f, fd)). simpl in H2. apply andb_true_iff. apply H2.
    apply (nth_error_combine_seq (fl_design fb) 0 f fd Hf).
  - apply Nat.eqb_eq. exact H5.
  - intros f. unfold sustain_of. apply fold_overwrite_pos; [|lia].
    intros p Hp. destruct p as [c s]. simpl. apply Nat.ltb_lt. apply H4a. eapply in_combine_r. exact Hp.
  - intros f fd Hf Hsa. specialize (H4b (f, fd) (nth_error_combine_seq (fl_design fb) 0 f fd Hf)).
    cbn [fst snd] in H4b. apply andb_true_iff in H4b. destruct H4b as [A _].
    unfold grid_factor in A. unfold sact in Hsa. rewrite Hsa in A. cbn [orb] in A. now apply Nat.eqb_eq.
  - intros f fd w Hf Hw Hsa d Hd. specialize (H4b (f, fd) (nth_error_combine_seq (fl_design fb) 0 f fd Hf)).
    cbn [fst snd] in H4b. apply andb_true_iff in H4b. destruct H4b as [_ B]. rewrite Hw in B.
    unfold grid_factor in B. unfold sact in Hsa. rewrite Hsa in B. cbn [negb orb] in B.
    rewrite forallb_forall in B. apply Nat.eqb_eq. now apply B.
  - apply orb_true_iff in H4c. destruct H4c as [A|A].
    + left. intros f. unfold sustain_of. apply fold_overwrite_one; auto.
      intros p Hp. destruct p as [c s]. simpl. rewrite forallb_forall in A. apply Nat.eqb_eq. apply A. eapply in_combine_r. exact Hp.
    + right. apply existsb_exists in A. destruct A as [c [Hc Hk]]. destruct c; try discriminate. exact Hc.
  - exact H8.
  - intros c Hc. rewrite forallb_forall in H9. apply H9. exact Hc.
  - intros c Hc. rewrite forallb_forall in H10. apply H10. exact Hc.
  - apply existsb_exists in H11. destruct H11 as [c [Hc Hk]]. destruct c; try discriminate. exact Hc.
  - apply orb_true_iff in H12. destruct H12 as [H12|H12].
    + left. apply existsb_exists in H12. destruct H12 as [c [Hc Hk]]. destruct c; try discriminate. exact Hc.
    + right. destruct (fl_crossings fb); [reflexivity|discriminate].
  - exact H13.
  - intros p Hp. unfold exclude_backed in H14. rewrite forallb_forall in H14. specialize (H14 p Hp).
    apply existsb_exists in H14. destruct H14 as [c [Hc Hk]]. destruct c; try discriminate.
    apply andb_true_iff in Hk. destruct Hk as [A B]. apply Nat.eqb_eq in A, B. subst. exact Hc.
  - intros e He. unfold no_excluded_derived in H15. rewrite forallb_forall in H15. specialize (H15 e He).
    apply existsb_exists in H15. exact H15.
Qed.

(** * Facts that hold for every flat record *)

Lemma off_0 : forall fb, off fb 0 = 0.
Proof. reflexivity. Qed.

Lemma off_S : forall fb f, off fb (S f) = off fb f + anl fb f.
Proof.
  intros fb f. unfold off. rewrite seq_S, fold_left_app. reflexivity.
Qed.

Lemma off_le : forall fb f g, f <= g -> off fb f <= off fb g.
Proof.
  intros fb f g H. induction H as [|g H IH]; [lia|]. rewrite off_S. lia.
Qed.

Lemma off_mono : forall fb f g, f < g -> off fb f + anl fb f <= off fb g.
Proof.
  intros fb f g H. rewrite <- off_S. apply off_le. lia.
Qed.

Lemma anl_act : forall fb f, sact fb f = true -> anl fb f = nlevels fb f.
Proof. intros fb f H. unfold anl. rewrite H. reflexivity. Qed.

Lemma anl_nact : forall fb f, sact fb f = false -> anl fb f = 0.
Proof. intros fb f H. unfold anl. rewrite H. reflexivity. Qed.

Lemma coff_0 : forall fb, coff fb 0 = 0.
Proof. reflexivity. Qed.

Lemma coff_S : forall fb f, coff fb (S f) = coff fb f + cnl fb f.
Proof.
  intros fb f. unfold coff. rewrite seq_S, fold_left_app. reflexivity.
Qed.

Lemma coff_le : forall fb f g, f <= g -> coff fb f <= coff fb g.
Proof.
  intros fb f g H. induction H as [|g H IH]; [lia|]. rewrite coff_S. lia.
Qed.

Lemma coff_mono : forall fb f g, f < g -> coff fb f + cnl fb f <= coff fb g.
Proof.
  intros fb f g H. rewrite <- coff_S. apply coff_le. lia.
Qed.

(** ** Trials in which a factor has a level *)
Lemma prev_0 : forall fb f, prev fb f 0 = 0.
Proof. reflexivity. Qed.

Lemma prev_S : forall fb f t, prev fb f (S t) = prev fb f t + (if lappl fb f t then 1 else 0).
Proof.
  intros fb f t. unfold prev, previous_trials_count, lappl.
  replace (S (S t) - 1) with (S t) by lia. replace (S t - 1) with t by lia.
  rewrite seq_S, filter_app, app_length. cbn [filter Nat.add].
  destruct (applies_at fb f (S t)); reflexivity.
Qed.

Lemma prev_le : forall fb f t, prev fb f t <= t.
Proof.
  intros fb f t. induction t as [|t IH]; [rewrite prev_0; lia|]. rewrite prev_S. destruct (lappl fb f t); lia.
Qed.

Lemma prev_mono : forall fb f t t', t <= t' -> prev fb f t <= prev fb f t'.
Proof.
  intros fb f t t' H. induction H as [|t' H IH]; [lia|]. rewrite prev_S. lia.
Qed.

Lemma prev_lt : forall fb f t t', t < t' -> lappl fb f t = true -> prev fb f t < prev fb f t'.
Proof.
  intros fb f t t' H Ha. pose proof (prev_mono fb f (S t) t' H) as M. rewrite prev_S, Ha in M. lia.
Qed.

Lemma in_trials_of : forall fb f a b t, In t (trials_of fb f a b) <-> a <= t < b /\ lappl fb f t = true.
Proof.
  intros fb f a b t. unfold trials_of, lappl. rewrite filter_In, in_seq. split; intros [H1 H2]; (split; [lia|exact H2]).
Qed.

(** the trials of [a, b) with a level are numbered consecutively by [prev] *)
Lemma trials_of_prev : forall fb f a b, a <= b ->
  map (prev fb f) (trials_of fb f a b) = seq (prev fb f a) (prev fb f b - prev fb f a).
Proof.
  intros fb f a b Hab. replace b with (a + (b - a)) by lia. generalize (b - a) as n. clear b Hab.
  induction n as [|n IH].
  - unfold trials_of. rewrite Nat.add_0_r, !Nat.sub_diag. reflexivity.
  - unfold trials_of in *. replace (a + S n - a) with (S n) by lia. replace (a + n - a) with n in IH by lia.
    rewrite seq_S, filter_app, map_app, IH. cbn [filter].
    replace (a + S n) with (S (a + n)) by lia. rewrite prev_S. fold (lappl fb f (a + n)).
    pose proof (prev_mono fb f a (a + n) ltac:(lia)) as M.
    destruct (lappl fb f (a + n)); cbn [map].
    + replace (prev fb f (a + n) + 1 - prev fb f a) with (S (prev fb f (a + n) - prev fb f a)) by lia.
      rewrite seq_S. f_equal. f_equal. lia.
    + rewrite app_nil_r. f_equal. lia.
Qed.

Lemma trials_of_length : forall fb f a b, a <= b ->
  length (trials_of fb f a b) = prev fb f b - prev fb f a.
Proof.
  intros fb f a b Hab. rewrite <- (map_length (prev fb f)), (trials_of_prev fb f a b Hab). apply seq_length.
Qed.

(** every number below [prev f b] is the number of a trial with a level *)
Lemma prev_hit : forall fb f b k, k < prev fb f b ->
  exists t, t < b /\ lappl fb f t = true /\ prev fb f t = k.
Proof.
  intros fb f b. induction b as [|b IH]; intros k Hk; [rewrite prev_0 in Hk; lia|].
  rewrite prev_S in Hk. destruct (Nat.lt_ge_cases k (prev fb f b)) as [C|C].
  - destruct (IH k C) as (t & Ht & Ha & Ep). exists t. repeat split; auto.
  - destruct (lappl fb f b) eqn:Ea; [|lia]. exists b. repeat split; auto. lia.
Qed.


(** every range of [map_block_trial_ranges] lies within the trials *)
Lemma ranges_loop_bound : forall fb fuel start e step stop,
  Forall (fun r => fst r < stop /\ snd r <= trials fb) (ranges_loop fb fuel start e step stop).
Proof.
  intros fb fuel. induction fuel as [|fuel IH]; intros start e step stop; simpl; [constructor|].
  destruct (start <? stop) eqn:E; [|constructor].
  constructor; [|apply IH].
  simpl. apply Nat.ltb_lt in E. split; [exact E|apply Nat.le_min_r].
Qed.

Lemma f1_ranges_bound : forall fb wb rs,
  map_block_trial_ranges fb wb = Some rs ->
  Forall (fun r => fst r < T fb /\ snd r <= T fb) rs.
Proof.
  intros fb wb rs H.
  assert (W : forall fuel start e step stop, stop <= trials fb ->
            Forall (fun r => fst r < T fb /\ snd r <= T fb) (ranges_loop fb fuel start e step stop)).
  { intros fuel start e step stop Hs.
    eapply Forall_impl; [|apply ranges_loop_bound].
    intros r [H1 H2]. unfold T. unfold trials in *. split; lia. }
  assert (SomeE : forall a b : list (nat * nat), Some a = Some b -> a = b) by (intros a b Q; congruence).
  unfold map_block_trial_ranges in H. destruct wb as [g|].
  - destruct ((g_trials g <=? g_preamble g) && (0 <? trials fb - g_preamble g)); [discriminate|].
    destruct (fl_alignment fb).
    + destruct (post_preamble_size fb <? g_preamble g); [discriminate|].
      apply SomeE in H. rewrite <- H. apply W. lia.
    + apply SomeE in H. rewrite <- H. apply W. lia.
    + apply SomeE in H. rewrite <- H. apply W. lia.
  - apply SomeE in H. rewrite <- H. apply W. lia.
Qed.

Lemma f1_ranges_none : forall fb,
  map_block_trial_ranges fb None = Some (if 0 <? T fb then [(0, T fb)] else []).
Proof.
  intros fb. unfold map_block_trial_ranges, T. f_equal.
  assert (G : forall n, n = trials fb ->
              ranges_loop fb (S n) 0 n n n = if 0 <? n then [(0, n)] else []).
  { intros n Hn. destruct n as [|k].
    - reflexivity.
    - cbn [ranges_loop]. rewrite <- Hn.
      replace (0 <? S k) with true by (symmetry; apply Nat.ltb_lt; lia).
      replace (0 + S k <? S k) with false by (symmetry; apply Nat.ltb_ge; lia).
      rewrite Nat.min_id. reflexivity. }
  apply (G (trials fb) eq_refl).
Qed.

(** [get_trial_numbers] when the sustain count of the geometry is 1 *)
Lemma f1_trial_numbers : forall fb f b wb rs,
  geometry_sustain fb wb f = 1 ->
  map_block_trial_ranges fb wb = Some rs ->
  get_trial_numbers fb f b wb =
  Some (flat_map (fun r =>
          let p := (if (b <? 0)%Z then Z.of_nat (snd r) + b else Z.of_nat (fst r) + b)%Z in
          if ((Z.of_nat (fst r) <=? p) && (p <? Z.of_nat (snd r)))%Z then [Z.to_nat p] else []) rs).
Proof.
  intros fb f b wb rs Hsu Hrs. unfold get_trial_numbers. rewrite Hsu, Hrs.
  cbn [option_map]. f_equal. clear Hrs.
  apply flat_map_ext. intros r.
  replace (Z.of_nat 1 * b)%Z with b by lia.
  cbv zeta. cbn [seq map]. rewrite Nat.add_0_r. reflexivity.
Qed.


(** ** More generic facts *)
Lemma filter_filter {A} (p q : A -> bool) : forall l,
  filter p (filter q l) = filter (fun x => q x && p x) l.
Proof.
  induction l as [|x l IH]; simpl; auto.
  destruct (q x); simpl; [destruct (p x); simpl; rewrite IH; reflexivity|exact IH].
Qed.

Lemma filter_leb_seq : forall s n a,
  filter (fun t => s <=? t) (seq a n) = seq (Nat.max a s) (a + n - Nat.max a s).
Proof.
  intros s. induction n as [|n IH]; intros a.
  - simpl. replace (a + 0 - Nat.max a s) with 0 by lia. reflexivity.
  - rewrite seq_S, filter_app, IH. cbn [filter].
    destruct (s <=? a + n) eqn:E.
    + apply Nat.leb_le in E.
      replace (a + S n - Nat.max a s) with (S (a + n - Nat.max a s)) by lia.
      rewrite seq_S. f_equal. f_equal. lia.
    + apply Nat.leb_gt in E. rewrite app_nil_r. f_equal. lia.
Qed.

Lemma fold_if_count (p : nat -> bool) (n : nat) : forall (l : list nat) acc,
  fold_left (fun acc t => if p t then acc + n else acc) l acc
  = acc + length (filter p l) * n.
Proof.
  induction l as [|t l IH]; intros acc; simpl; [lia|].
  rewrite IH. destruct (p t); simpl; lia.
Qed.

Lemma applies_at_S1 : forall fb f t, sustain_of fb f = 1 ->
  applies_at fb f (S t) = applies_to_trial fb f (t + 1).
Proof.
  intros fb f t H. unfold applies_at, sustain. rewrite H.
  replace (S t - 1) with t by lia. rewrite Nat.div_1_r. reflexivity.
Qed.

Lemma vff_napp : forall fb f, variables_for_factor fb f 0 0 = napp fb f * nlevels fb f.
Proof.
  intros fb f. unfold variables_for_factor. cbn [Nat.eqb].
  rewrite fold_if_count. unfold napp, prev, previous_trials_count, T, trials.
  cbn [Nat.add]. replace (S (fl_trials fb) - 1) with (fl_trials fb - 0) by lia. reflexivity.
Qed.

Lemma trials_of_shift : forall fb f a n,
  length (filter (fun t => applies_at fb f t) (seq (1 + a) n))
  = length (filter (fun t => applies_at fb f (S t)) (seq a n)).
Proof.
  intros fb f a n. cbn [Nat.add]. rewrite <- seq_shift.
  generalize (seq a n) as l. induction l as [|x l IH]; simpl; auto.
  destruct (applies_at fb f (S x)); simpl; rewrite IH; reflexivity.
Qed.

Lemma vff_trials_of : forall fb f start e, e <> 0 ->
  variables_for_factor fb f start e = length (trials_of fb f start e) * nlevels fb f.
Proof.
  intros fb f start e He. unfold variables_for_factor.
  replace (e =? 0) with false by (symmetry; apply Nat.eqb_neq; exact He).
  rewrite fold_if_count. cbn [Nat.add]. unfold trials_of.
  rewrite <- trials_of_shift. reflexivity.
Qed.

Lemma ranges_loop_pos : forall fb fuel start e step stop, 0 < e -> 0 < trials fb ->
  Forall (fun r => 0 < snd r) (ranges_loop fb fuel start e step stop).
Proof.
  intros fb fuel. induction fuel as [|fuel IH]; intros start e step stop He Ht; simpl; [constructor|].
  destruct (start <? stop); [|constructor].
  constructor; [cbn [snd]; lia|apply IH; lia].
Qed.

Lemma ranges_loop_stop0 : forall fb fuel start e step, ranges_loop fb fuel start e step 0 = [].
Proof. intros fb [|fuel] start e step; simpl; reflexivity. Qed.

Lemma zrange_length : forall n a, length (zrange a n) = n.
Proof. induction n as [|n IH]; intros a; simpl; auto. Qed.

Lemma zrange_app : forall n m a, zrange a (n + m) = zrange a n ++ zrange (a + Z.of_nat n)%Z m.
Proof.
  induction n as [|n IH]; intros m a.
  - simpl. f_equal. lia.
  - cbn [Nat.add zrange app]. f_equal. rewrite IH. f_equal. f_equal. lia.
Qed.

Lemma firstn_app_len {A} (l1 l2 : list A) n : length l1 = n -> firstn n (l1 ++ l2) = l1.
Proof. intros <-. rewrite firstn_app, Nat.sub_diag, firstn_all. simpl. apply app_nil_r. Qed.

Lemma skipn_app_len {A} (l1 l2 : list A) n : length l1 = n -> skipn n (l1 ++ l2) = l2.
Proof. intros <-. rewrite skipn_app, Nat.sub_diag, skipn_all. reflexivity. Qed.

Lemma chunk_list_S {A} fu (l : list A) n : firstn n l <> [] ->
  chunk_list (S fu) l n = firstn n l :: chunk_list fu (skipn n l) n.
Proof. intros H. cbn [chunk_list]. destruct (firstn n l); [congruence|reflexivity]. Qed.

Lemma chunk_zrange : forall n, 0 < n -> forall k fuel a, k <= fuel ->
  chunk_list fuel (zrange a (k * n)) n = map (fun i => zrange (a + Z.of_nat (i * n))%Z n) (seq 0 k).
Proof.
  intros n Hn. induction k as [|k IH]; intros fuel a Hk.
  - cbn [Nat.mul zrange seq map]. destruct fuel; [reflexivity|].
    cbn [chunk_list]. rewrite firstn_nil. reflexivity.
  - destruct fuel as [|fu]; [lia|]. cbn [Nat.mul]. rewrite zrange_app.
    assert (F : firstn n (zrange a n ++ zrange (a + Z.of_nat n) (k * n)) = zrange a n)
      by (apply firstn_app_len, zrange_length).
    rewrite chunk_list_S by (rewrite F; destruct n; [lia|discriminate]).
    rewrite F, (skipn_app_len _ _ n (zrange_length n a)), IH by lia.
    cbn [seq map]. f_equal.
    + f_equal. lia.
    + rewrite <- seq_shift, map_map. apply map_ext. intros i. f_equal. lia.
Qed.

(** * The layout on F1 *)
Section F1.
Variable fb : flat.
Hypothesis HF1 : in_f1 fb = true.

Let FF : F1facts fb := in_f1_facts fb HF1.

Lemma f1_act_lt : forall f, isact fb f = true -> f < nf fb.
Proof.
  intros f Hf. apply isact_In in Hf. rewrite (f1_act_sorted fb FF) in Hf.
  apply filter_In in Hf. destruct Hf as [Hf _]. apply in_seq in Hf. lia.
Qed.

Lemma f1_act_nodup : NoDup (fl_act fb).
Proof.
  rewrite (f1_act_sorted fb FF). apply NoDup_filter_seq.
Qed.

Lemma f1_nlevels_pos : forall f, f < nf fb -> 0 < nlevels fb f.
Proof.
  intros f Hf. unfold nlevels, factor_at.
  destruct (nth_error (fl_design fb) f) as [fd|] eqn:E.
  - destruct (isact fb f) eqn:Ha.
    + pose proof (f1_factor fb FF f fd E Ha) as H. unfold factor_f1 in H.
      apply andb_true_iff in H. destruct H as [H _]. apply Nat.ltb_lt. exact H.
    + pose proof (f1_implied fb FF f fd E) as H. unfold implied_ok in H. rewrite Ha in H. cbn [orb] in H.
      unfold factor_impl_f1 in H. repeat rewrite andb_true_iff in H. destruct H as [[H _] _]. apply Nat.ltb_lt. exact H.
  - apply nth_error_None in E. unfold nf in Hf. lia.
Qed.

Lemma f1_simple_act : simple_act fb = filter (sact fb) (seq 0 (nf fb)).
Proof.
  unfold simple_act. rewrite (f1_act_sorted fb FF) at 1. rewrite filter_filter. reflexivity.
Qed.

Lemma f1_complex_act : complex_act fb = filter (cact fb) (seq 0 (nf fb)).
Proof.
  unfold complex_act. rewrite (f1_act_sorted fb FF) at 1. rewrite filter_filter. reflexivity.
Qed.

(* the shape of a factor of act_design *)
Lemma f1_act_shape : forall f, isact fb f = true ->
  exists fd, nth_error (fl_design fb) f = Some fd /\ factor_f1 fd = true.
Proof.
  intros f Ha. pose proof (f1_act_lt f Ha) as L. unfold nf in L.
  destruct (nth_error (fl_design fb) f) as [fd|] eqn:E.
  - exists fd. split; [reflexivity|]. exact (f1_factor fb FF f fd E Ha).
  - apply nth_error_None in E. lia.
Qed.

Lemma lappl_unfold : forall f t, lappl fb f t = applies_to_trial fb f (t / sustain_of fb f + 1).
Proof. intros f t. unfold lappl, applies_at, sustain. now replace (S t - 1) with t by lia. Qed.

(** a factor of act_design with a complex window is not sustained *)
Lemma f1_sustain_cx : forall f, isact fb f = true -> is_complex fb f = true -> sustain_of fb f = 1.
Proof.
  intros f Ha Hc. destruct (f1_act_shape f Ha) as (fd & E & _).
  apply (f1_sustain_one fb FF f fd E). unfold sact. now rewrite Ha, Hc.
Qed.

(** ** Where a factor of act_design has a level *)
Lemma lappl_simple : forall f t, isact fb f = true -> is_complex fb f = false -> lappl fb f t = true.
Proof.
  intros f t Ha Hc. rewrite lappl_unfold.
  destruct (f1_act_shape f Ha) as (fd & E & H).
  unfold is_complex, factor_at in Hc. unfold applies_to_trial, factor_at. rewrite E in *.
  unfold factor_f1 in H. rewrite Hc in H.
  destruct (ff_window fd) as [w|]; auto.
  repeat rewrite andb_true_iff in H. destruct H as [_ [[H1 H2] H3]].
  apply Nat.eqb_eq in H2. apply Nat.eqb_eq in H3. rewrite H2, H3.
  rewrite Nat.mod_1_r. apply andb_true_iff. split; [apply Nat.leb_le; lia|reflexivity].
Qed.

Lemma prev_simple : forall f t, isact fb f = true -> is_complex fb f = false -> prev fb f t = t.
Proof.
  intros f t Ha Hc. induction t as [|t IH]; [apply prev_0|].
  rewrite prev_S, IH, (lappl_simple f t Ha Hc). lia.
Qed.

(** a factor with stride 1 has a level from its first trial on *)
Lemma lappl_stride1 : forall f t, isact fb f = true -> stride1 fb f = true ->
  lappl fb f t = (start_of fb f <=? t).
Proof.
  intros f t Ha Hs. rewrite lappl_unfold.
  destruct (f1_act_shape f Ha) as (fd & E & H).
  assert (Hsu : is_complex fb f = true -> sustain_of fb f = 1) by (intros Q; now apply f1_sustain_cx).
  unfold is_complex in Hsu.
  unfold stride1, start_of, factor_at in *. unfold applies_to_trial, factor_at. rewrite E in *.
  unfold factor_f1 in H.
  destruct (ff_window fd) as [w|]; [|reflexivity].
  destruct (ff_complex fd).
  - rewrite (Hsu eq_refl), Nat.div_1_r. cbn [negb orb] in Hs. apply Nat.eqb_eq in Hs. rewrite Hs, Nat.mod_1_r.
    cbn [Nat.eqb]. rewrite andb_true_r.
    destruct (win_start w <=? t) eqn:Q; [apply Nat.leb_le in Q; apply Nat.leb_le; lia|
                                         apply Nat.leb_gt in Q; apply Nat.leb_gt; lia].
  - repeat rewrite andb_true_iff in H. destruct H as [_ [[H1 H2] H3]].
    apply Nat.eqb_eq in H2. apply Nat.eqb_eq in H3. rewrite H2, H3.
    rewrite Nat.mod_1_r. cbn [Nat.eqb Nat.leb]. rewrite andb_true_r. apply Nat.leb_le. lia.
Qed.

Lemma start_simple : forall f, isact fb f = true -> is_complex fb f = false -> start_of fb f = 0.
Proof.
  intros f Ha Hc.
  destruct (f1_act_shape f Ha) as (fd & E & H).
  unfold is_complex, start_of, factor_at in *. rewrite E in *.
  unfold factor_f1 in H. rewrite Hc in H.
  destruct (ff_window fd) as [w|]; auto.
  repeat rewrite andb_true_iff in H. destruct H as [_ [[H1 H2] H3]].
  apply Nat.eqb_eq in H3. exact H3.
Qed.

Lemma trials_of_simple : forall f a b, isact fb f = true -> is_complex fb f = false ->
  trials_of fb f a b = seq a (b - a).
Proof.
  intros f a b Ha Hc. unfold trials_of. apply filter_all_true.
  intros t _. apply (lappl_simple f t Ha Hc).
Qed.

Lemma trials_of_stride1 : forall f a b, isact fb f = true -> stride1 fb f = true ->
  trials_of fb f a b = seq (Nat.max a (start_of fb f)) (b - Nat.max a (start_of fb f)).
Proof.
  intros f a b Ha Hs. unfold trials_of.
  rewrite (filter_ext _ (fun t => start_of fb f <=? t)).
  - rewrite filter_leb_seq. f_equal. lia.
  - intros t. apply (lappl_stride1 f t Ha Hs).
Qed.

(** ** Sizes *)
Lemma gvar_simple : forall t f l, is_complex fb f = false -> gvar fb t f l = t * vpt fb + off fb f + l + 1.
Proof. intros t f l H. unfold gvar. now rewrite H. Qed.

Lemma gvar_complex : forall t f l, is_complex fb f = true ->
  gvar fb t f l = GN fb + coff fb f + prev fb f t * nlevels fb f + l + 1.
Proof. intros t f l H. unfold gvar. now rewrite H. Qed.

Lemma f1_vpt : vpt fb = off fb (nf fb).
Proof.
  unfold vpt, variables_per_trial. rewrite f1_simple_act.
  rewrite fold_left_filter_add. reflexivity.
Qed.

Lemma sact_isact : forall f, sact fb f = true -> isact fb f = true /\ is_complex fb f = false.
Proof.
  intros f H. unfold sact in H. apply andb_true_iff in H. destruct H as [H1 H2].
  apply negb_true_iff in H2. split; assumption.
Qed.

Lemma cact_isact : forall f, cact fb f = true -> isact fb f = true /\ is_complex fb f = true.
Proof.
  intros f H. unfold cact in H. apply andb_true_iff in H. exact H.
Qed.

Lemma sact_intro : forall f, isact fb f = true -> is_complex fb f = false -> sact fb f = true.
Proof. intros f H1 H2. unfold sact. rewrite H1, H2. reflexivity. Qed.

Lemma cact_intro : forall f, isact fb f = true -> is_complex fb f = true -> cact fb f = true.
Proof. intros f H1 H2. unfold cact. rewrite H1, H2. reflexivity. Qed.

Lemma cnl_act : forall f, cact fb f = true -> cnl fb f = napp fb f * nlevels fb f.
Proof. intros f H. unfold cnl. rewrite H. reflexivity. Qed.

Lemma cnl_nact : forall f, cact fb f = false -> cnl fb f = 0.
Proof. intros f H. unfold cnl. rewrite H. reflexivity. Qed.

Lemma f1_off_vpt : forall f, sact fb f = true -> off fb f + nlevels fb f <= vpt fb.
Proof.
  intros f Hf. rewrite f1_vpt, <- (anl_act fb f Hf). apply off_mono. apply f1_act_lt.
  apply sact_isact. exact Hf.
Qed.

Lemma f1_vff : forall f, variables_for_factor fb f 0 0 = napp fb f * nlevels fb f.
Proof. intros f. apply vff_napp. Qed.

Lemma f1_vps : variables_per_sample fb = VN fb.
Proof.
  unfold variables_per_sample, VN, GN. rewrite (f1_act_sorted fb FF) at 1.
  rewrite f1_vpt, fold_left_filter_add.
  induction (nf fb) as [|n IH].
  - rewrite off_0, coff_0. simpl. lia.
  - rewrite seq_S, fold_left_app, IH, off_S, coff_S. cbn [fold_left Nat.add].
    unfold anl, cnl, sact, cact.
    destruct (isact fb n) eqn:Ea; cbn [andb]; [|lia].
    rewrite (f1_vff n).
    destruct (is_complex fb n) eqn:Ec; cbn [negb]; [lia|].
    unfold napp. rewrite (prev_simple n (T fb) Ea Ec). lia.
Qed.

Lemma f1_grid : grid_variables fb = GN fb.
Proof. reflexivity. Qed.

(** ** Variables *)
Lemma f1_simple_offset : forall n s f, s <= f < s + n -> sact fb f = true ->
  simple_offset fb (filter (sact fb) (seq s n)) f = Some (off fb f - off fb s).
Proof.
  induction n as [|n IH]; intros s f H Hf; [lia|].
  cbn [seq filter]. destruct (sact fb s) eqn:Es.
  - cbn [simple_offset]. destruct (s =? f) eqn:E.
    + apply Nat.eqb_eq in E. subst. f_equal. lia.
    + apply Nat.eqb_neq in E. rewrite IH by (try lia; exact Hf). cbn [option_map]. f_equal.
      pose proof (off_mono fb s f ltac:(lia)) as H1.
      rewrite off_S. rewrite (anl_act fb s Es) in *. lia.
  - assert (E : s <> f) by (intros Q; subst; congruence).
    rewrite IH by (try lia; exact Hf). f_equal.
    rewrite off_S, (anl_nact fb s Es). lia.
Qed.

Lemma f1_complex_offset : forall n s f l, s <= f < s + n -> cact fb f = true ->
  complex_offset fb (filter (cact fb) (seq s n)) f l = coff fb f - coff fb s + l.
Proof.
  induction n as [|n IH]; intros s f l H Hf; [lia|].
  cbn [seq filter]. destruct (cact fb s) eqn:Es.
  - cbn [complex_offset]. destruct (s =? f) eqn:E.
    + apply Nat.eqb_eq in E. subst. lia.
    + apply Nat.eqb_neq in E. rewrite IH by (try lia; exact Hf).
      pose proof (coff_mono fb s f ltac:(lia)) as H1.
      rewrite f1_vff. rewrite coff_S. rewrite (cnl_act s Es) in *. lia.
  - assert (E : s <> f) by (intros Q; subst; congruence).
    rewrite IH by (try lia; exact Hf).
    rewrite coff_S, (cnl_nact s Es). lia.
Qed.

Lemma f1_first_var : forall f l, isact fb f = true -> l < nlevels fb f ->
  first_variable_for_level fb f l =
  Some (if is_complex fb f then GN fb + coff fb f + l else off fb f + l).
Proof.
  intros f l Hf Hl. pose proof (f1_act_lt f Hf) as Hlt.
  unfold first_variable_for_level. destruct (is_complex fb f) eqn:Ec.
  - rewrite f1_complex_act, f1_complex_offset by (try lia; apply cact_intro; assumption).
    rewrite coff_0. rewrite f1_grid. f_equal. lia.
  - replace (l <? nlevels fb f) with true by (symmetry; apply Nat.ltb_lt; exact Hl).
    rewrite f1_simple_act, f1_simple_offset by (try lia; apply sact_intro; assumption).
    cbn [option_map]. rewrite off_0. f_equal. lia.
Qed.

Lemma ptc_prev : forall f trial, previous_trials_count fb f trial = prev fb f (trial - 1).
Proof.
  intros f trial. unfold prev, previous_trials_count.
  replace (S (trial - 1) - 1) with (trial - 1) by lia. reflexivity.
Qed.

Lemma f1_encode_any : forall f l trial, isact fb f = true -> l < nlevels fb f ->
  encode_variable fb f l trial = Some (gvar fb (trial - 1) f l).
Proof.
  intros f l trial Hf Hl. unfold encode_variable.
  rewrite f1_first_var by assumption. rewrite ptc_prev. unfold gvar.
  destruct (is_complex fb f) eqn:Ec.
  - f_equal. lia.
  - rewrite (prev_simple f (trial - 1) Hf Ec). unfold vpt. f_equal. lia.
Qed.

Lemma f1_encode : forall f l t, isact fb f = true -> l < nlevels fb f ->
  encode_variable fb f l (S t) = Some (gvar fb t f l).
Proof.
  intros f l t Hf Hl. rewrite f1_encode_any by assumption. do 2 f_equal. lia.
Qed.

Lemma f1_get_variable : forall f l t, isact fb f = true -> l < nlevels fb f ->
  get_variable fb (S t) f l = COk (gvar fb t f l).
Proof.
  intros f l t Hf Hl. unfold get_variable. rewrite f1_encode by assumption. reflexivity.
Qed.

Lemma gvar_pos : forall t f l, 0 < gvar fb t f l.
Proof. intros t f l. unfold gvar. destruct (is_complex fb f); lia. Qed.

Lemma gvar_range : forall t f l, t < T fb -> isact fb f = true -> l < nlevels fb f -> lappl fb f t = true ->
  1 <= gvar fb t f l <= VN fb.
Proof.
  intros t f l Ht Hf Hl Ha. unfold gvar, VN. destruct (is_complex fb f) eqn:Ec.
  - pose proof (coff_mono fb f (nf fb) (f1_act_lt f Hf)) as M.
    rewrite (cnl_act f (cact_intro f Hf Ec)) in M.
    pose proof (prev_lt fb f t (T fb) Ht Ha) as P. fold (napp fb f) in P. nia.
  - pose proof (f1_off_vpt f (sact_intro f Hf Ec)) as H. unfold GN. nia.
Qed.

(** grid variables are at most [GN], the others above *)
Lemma gvar_grid : forall t f l, t < T fb -> isact fb f = true -> is_complex fb f = false -> l < nlevels fb f ->
  gvar fb t f l <= GN fb.
Proof.
  intros t f l Ht Hf Ec Hl. rewrite (gvar_simple t f l Ec).
  pose proof (f1_off_vpt f (sact_intro f Hf Ec)) as H. unfold GN. nia.
Qed.

Lemma gvar_above : forall t f l, is_complex fb f = true -> GN fb < gvar fb t f l.
Proof. intros t f l H. rewrite (gvar_complex t f l H). lia. Qed.

Lemma off_level_inj : forall f l f' l', sact fb f = true -> sact fb f' = true ->
  l < nlevels fb f -> l' < nlevels fb f' ->
  off fb f + l = off fb f' + l' -> f = f' /\ l = l'.
Proof.
  intros f l f' l' Hf Hf' Hl Hl' H.
  pose proof (anl_act fb f Hf) as Ea. pose proof (anl_act fb f' Hf') as Ea'.
  destruct (Nat.lt_trichotomy f f') as [C|[C|C]].
  - pose proof (off_mono fb f f' C). lia.
  - subst. split; lia.
  - pose proof (off_mono fb f' f C). lia.
Qed.

Lemma coff_block_inj : forall f r f' r', cact fb f = true -> cact fb f' = true ->
  r < cnl fb f -> r' < cnl fb f' ->
  coff fb f + r = coff fb f' + r' -> f = f' /\ r = r'.
Proof.
  intros f r f' r' Hf Hf' Hr Hr' H.
  destruct (Nat.lt_trichotomy f f') as [C|[C|C]].
  - pose proof (coff_mono fb f f' C). lia.
  - subst. split; lia.
  - pose proof (coff_mono fb f' f C). lia.
Qed.

Lemma prev_napp : forall f t, t < T fb -> lappl fb f t = true -> prev fb f t < napp fb f.
Proof. intros f t Ht Ha. unfold napp. apply prev_lt; assumption. Qed.

Lemma gvar_inj : forall t f l t' f' l',
  t < T fb -> isact fb f = true -> l < nlevels fb f -> lappl fb f t = true ->
  t' < T fb -> isact fb f' = true -> l' < nlevels fb f' -> lappl fb f' t' = true ->
  gvar fb t f l = gvar fb t' f' l' -> t = t' /\ f = f' /\ l = l'.
Proof.
  intros t f l t' f' l' Ht Hf Hl Ha Ht' Hf' Hl' Ha' H.
  destruct (is_complex fb f) eqn:Ec; destruct (is_complex fb f') eqn:Ec'.
  - rewrite (gvar_complex t f l Ec), (gvar_complex t' f' l' Ec') in H.
    pose proof (prev_napp f t Ht Ha) as P. pose proof (prev_napp f' t' Ht' Ha') as P'.
    destruct (coff_block_inj f (prev fb f t * nlevels fb f + l) f' (prev fb f' t' * nlevels fb f' + l')) as [E1 E2].
    + apply cact_intro; assumption.
    + apply cact_intro; assumption.
    + rewrite cnl_act by (apply cact_intro; assumption). nia.
    + rewrite cnl_act by (apply cact_intro; assumption). nia.
    + lia.
    + subst f'.
      assert (E : prev fb f t = prev fb f t' /\ l = l').
      { apply (Nat.div_mod_unique (nlevels fb f)); lia. }
      destruct E as [E3 E4]. split; [|split; [reflexivity|exact E4]].
      destruct (Nat.lt_trichotomy t t') as [C|[C|C]]; [|exact C|].
      * pose proof (prev_lt fb f t t' C Ha). lia.
      * pose proof (prev_lt fb f t' t C Ha'). lia.
  - pose proof (gvar_above t f l Ec). pose proof (gvar_grid t' f' l' Ht' Hf' Ec' Hl'). lia.
  - pose proof (gvar_above t' f' l' Ec'). pose proof (gvar_grid t f l Ht Hf Ec Hl). lia.
  - pose proof (f1_off_vpt f (sact_intro f Hf Ec)) as B.
    pose proof (f1_off_vpt f' (sact_intro f' Hf' Ec')) as B'.
    rewrite (gvar_simple t f l Ec), (gvar_simple t' f' l' Ec') in H.
    assert (E : t = t' /\ off fb f + l = off fb f' + l').
    { apply (Nat.div_mod_unique (vpt fb)); lia. }
    destruct E as [E1 E2]. split; [exact E1|].
    apply off_level_inj; try assumption; apply sact_intro; assumption.
Qed.

Lemma off_decompose : forall n r, r < off fb n ->
  exists f l, f < n /\ sact fb f = true /\ l < nlevels fb f /\ r = off fb f + l.
Proof.
  induction n as [|n IH]; intros r Hr.
  - rewrite off_0 in Hr. lia.
  - rewrite off_S in Hr. destruct (Nat.lt_ge_cases r (off fb n)) as [C|C].
    + destruct (IH r C) as [f [l [H1 [H2 [H3 H4]]]]]. exists f, l. repeat split; auto.
    + unfold anl in Hr. destruct (sact fb n) eqn:En; [|lia].
      exists n, (r - off fb n). repeat split; auto; lia.
Qed.

Lemma coff_decompose : forall n r, r < coff fb n ->
  exists f r', f < n /\ cact fb f = true /\ r' < cnl fb f /\ r = coff fb f + r'.
Proof.
  induction n as [|n IH]; intros r Hr.
  - rewrite coff_0 in Hr. lia.
  - rewrite coff_S in Hr. destruct (Nat.lt_ge_cases r (coff fb n)) as [C|C].
    + destruct (IH r C) as [f [l [H1 [H2 [H3 H4]]]]]. exists f, l. repeat split; auto.
    + destruct (cact fb n) eqn:En; [|rewrite (cnl_nact n En) in Hr; lia].
      exists n, (r - coff fb n). repeat split; auto; lia.
Qed.

Lemma gvar_surj : forall v, 1 <= v <= VN fb ->
  exists t f l, t < T fb /\ isact fb f = true /\ l < nlevels fb f /\ lappl fb f t = true /\ v = gvar fb t f l.
Proof.
  intros v Hv. destruct (Nat.le_gt_cases v (GN fb)) as [C|C].
  - unfold GN in C.
    assert (V : vpt fb <> 0) by nia.
    pose proof (Nat.div_mod (v - 1) (vpt fb) V) as D.
    pose proof (Nat.mod_upper_bound (v - 1) (vpt fb) V) as M.
    destruct (off_decompose (nf fb) ((v - 1) mod vpt fb)) as [f [l [_ [H1 [H2 H3]]]]].
    { rewrite <- f1_vpt. exact M. }
    destruct (sact_isact f H1) as [Hi Hc].
    exists ((v - 1) / vpt fb), f, l. repeat split; auto.
    + apply Nat.div_lt_upper_bound; [exact V|]. nia.
    + apply lappl_simple; assumption.
    + rewrite gvar_simple by assumption. nia.
  - unfold VN in Hv.
    destruct (coff_decompose (nf fb) (v - GN fb - 1)) as (f & r & Hlt & Hc & Hr & Er); [lia|].
    destruct (cact_isact f Hc) as [Hi Hcx].
    rewrite (cnl_act f Hc) in Hr.
    pose proof (f1_nlevels_pos f Hlt) as NL.
    assert (N0 : nlevels fb f <> 0) by lia.
    pose proof (Nat.div_mod r (nlevels fb f) N0) as D.
    pose proof (Nat.mod_upper_bound r (nlevels fb f) N0) as M.
    assert (K : r / nlevels fb f < napp fb f).
    { apply Nat.div_lt_upper_bound; [exact N0|]. nia. }
    destruct (prev_hit fb f (T fb) (r / nlevels fb f) K) as (t & Ht & Ha & Ep).
    exists t, f, (r mod nlevels fb f). repeat split; auto.
    rewrite gvar_complex by assumption. rewrite Ep. nia.
Qed.

(** ** Variable lists *)
Lemma f1_ranges_pos : forall wb rs, 0 < T fb -> map_block_trial_ranges fb wb = Some rs ->
  Forall (fun r => 0 < snd r) rs.
Proof.
  intros wb rs HT H. unfold T in HT. change (fl_trials fb) with (trials fb) in HT.
  assert (SomeE : forall a b : list (nat * nat), Some a = Some b -> a = b) by (intros a b Q; congruence).
  unfold map_block_trial_ranges in H. destruct wb as [g|].
  - destruct ((g_trials g <=? g_preamble g) && (0 <? trials fb - g_preamble g)) eqn:Q; [discriminate|].
    assert (W : forall fuel start, Forall (fun r => 0 < snd r)
                (ranges_loop fb fuel start (g_trials g) (g_trials g - g_preamble g) (trials fb - g_preamble g))).
    { intros fuel start. destruct (g_trials g) as [|k] eqn:G.
      - assert (Z0 : trials fb - g_preamble g = 0).
        { apply andb_false_iff in Q. destruct Q as [Q|Q].
          - apply Nat.leb_gt in Q. lia.
          - apply Nat.ltb_ge in Q. lia. }
        rewrite Z0, ranges_loop_stop0. constructor.
      - apply ranges_loop_pos; lia. }
    destruct (fl_alignment fb).
    + destruct (post_preamble_size fb <? g_preamble g); [discriminate|].
      apply SomeE in H. rewrite <- H. apply W.
    + apply SomeE in H. rewrite <- H. apply W.
    + apply SomeE in H. rewrite <- H. apply W.
  - apply SomeE in H. rewrite <- H. apply ranges_loop_pos; lia.
Qed.

Lemma f1_simple_range_vars : forall f l s e, is_complex fb f = false ->
  simple_range_vars fb (off fb f + l) s e = map (fun t => gvar fb t f l) (seq s (e - s)).
Proof.
  intros f l s e Hc. unfold simple_range_vars. rewrite (map_seq_shift0 (fun t => gvar fb t f l)).
  apply map_ext. intros i. rewrite gvar_simple by assumption. unfold vpt. lia.
Qed.

Lemma trials_of_prev_len : forall f a b,
  map (prev fb f) (trials_of fb f a b) = seq (prev fb f a) (length (trials_of fb f a b)).
Proof.
  intros f a b. destruct (Nat.le_gt_cases a b) as [C|C].
  - rewrite (trials_of_length fb f a b C). apply trials_of_prev. exact C.
  - unfold trials_of. replace (b - a) with 0 by lia. reflexivity.
Qed.

Lemma f1_complex_range_vars : forall f l s e, f < nf fb -> is_complex fb f = true -> 0 < e ->
  complex_range_vars fb f (GN fb + coff fb f + l) s e = map (fun t => gvar fb t f l) (trials_of fb f s e).
Proof.
  intros f l s e Hf Hc He. pose proof (f1_nlevels_pos f Hf) as NL.
  unfold complex_range_vars. cbv zeta. rewrite vff_trials_of by lia. rewrite Nat.div_mul by lia.
  replace (s + 1) with (S s) by lia. change (previous_trials_count fb f (S s)) with (prev fb f s).
  transitivity (map (fun k => GN fb + coff fb f + k * nlevels fb f + l + 1)
                    (map (prev fb f) (trials_of fb f s e))).
  2: { rewrite map_map. apply map_ext. intros t. symmetry. apply gvar_complex. exact Hc. }
  rewrite trials_of_prev_len, (map_seq_shift0 _ (prev fb f s)). apply map_ext. intros i. lia.
Qed.

Lemma f1_var_lists : forall f l wb rs, 0 < T fb -> isact fb f = true -> l < nlevels fb f ->
  map_block_trial_ranges fb wb = Some rs ->
  var_lists fb f l wb =
  COk (map (fun r => map (fun t => gvar fb t f l) (trials_of fb f (fst r) (snd r))) rs).
Proof.
  intros f l wb rs HT Hf Hl Hrs. unfold var_lists. rewrite Hrs.
  assert (B : build_variable_lists fb f l wb =
              Some (map (fun r => map (fun t => gvar fb t f l) (trials_of fb f (fst r) (snd r))) rs)).
  { unfold build_variable_lists. rewrite f1_first_var, Hrs by assumption.
    pose proof (f1_ranges_pos wb rs HT Hrs) as P. rewrite Forall_forall in P.
    destruct (is_complex fb f) eqn:Ec; cbv beta iota; f_equal; apply map_ext_in; intros r Hr.
    - apply f1_complex_range_vars; [apply f1_act_lt; exact Hf|exact Ec|apply P; exact Hr].
    - rewrite f1_simple_range_vars by assumption. rewrite trials_of_simple by assumption. reflexivity. }
  destruct rs; [reflexivity|]. rewrite B. reflexivity.
Qed.

(** the whole-sequence case ([within_block = None]) *)
Lemma f1_var_lists_none : forall f l, 0 < T fb -> isact fb f = true -> l < nlevels fb f ->
  var_lists fb f l None =
  COk [map (fun t => gvar fb t f l) (trials_of fb f 0 (T fb))].
Proof.
  intros f l HT Hf Hl. rewrite (f1_var_lists f l None _ HT Hf Hl (f1_ranges_none fb)).
  replace (0 <? T fb) with true by (symmetry; now apply Nat.ltb_lt). reflexivity.
Qed.

(** ** Consistency: per trial the grid factors, then per complex factor its trials *)
Definition cons_row (t f : nat) : req :=
  (Card.EQ, 1%Z, map (fun l => Z.of_nat (gvar fb t f l)) (seq 0 (nlevels fb f))).

Definition cons_all : list req :=
  flat_map (fun t => map (cons_row t) (filter (sact fb) (seq 0 (nf fb)))) (seq 0 (T fb)) ++
  flat_map (fun f => map (fun t => cons_row t f) (trials_of fb f 0 (T fb))) (filter (cact fb) (seq 0 (nf fb))).

Definition cons_grid (t0 n : nat) : list req :=
  flat_map (fun t => map (cons_row t) (filter (sact fb) (seq 0 (nf fb)))) (seq t0 n).

Lemma f1_cons_factors : forall t n s,
  cons_factors fb (filter (sact fb) (seq s n)) (1 + Z.of_nat (t * vpt fb + off fb s))%Z
  = (map (cons_row t) (filter (sact fb) (seq s n)), (1 + Z.of_nat (t * vpt fb + off fb (s + n)))%Z).
Proof.
  intros t. induction n as [|n IH]; intros s.
  - cbn [seq filter cons_factors map]. rewrite Nat.add_0_r. reflexivity.
  - cbn [seq filter]. replace (s + S n) with (S s + n) by lia.
    destruct (sact fb s) eqn:Es.
    + cbn [cons_factors map].
      replace (1 + Z.of_nat (t * vpt fb + off fb s) + zn (nlevels fb s))%Z
        with (1 + Z.of_nat (t * vpt fb + off fb (S s)))%Z
        by (rewrite off_S, (anl_act fb s Es); unfold zn; lia).
      rewrite IH. f_equal. f_equal.
      unfold cons_row. f_equal. rewrite zrange_map. apply map_ext. intros i.
      rewrite gvar_simple by (apply sact_isact; exact Es). lia.
    + replace (off fb s) with (off fb (S s)) by (rewrite off_S, (anl_nact fb s Es); lia).
      apply IH.
Qed.

Lemma f1_cons_factors_act : forall t,
  cons_factors fb (simple_act fb) (1 + Z.of_nat (t * vpt fb))%Z
  = (map (cons_row t) (filter (sact fb) (seq 0 (nf fb))), (1 + Z.of_nat (S t * vpt fb))%Z).
Proof.
  intros t. rewrite f1_simple_act.
  replace (1 + Z.of_nat (t * vpt fb))%Z with (1 + Z.of_nat (t * vpt fb + off fb 0))%Z
    by (rewrite off_0; lia).
  rewrite f1_cons_factors. cbn [Nat.add]. rewrite <- f1_vpt.
  replace (t * vpt fb + vpt fb) with (S t * vpt fb) by lia. reflexivity.
Qed.

Lemma f1_cons_trials : forall n t,
  cons_trials fb n (1 + Z.of_nat (t * vpt fb))%Z
  = (cons_grid t n, (1 + Z.of_nat ((t + n) * vpt fb))%Z).
Proof.
  induction n as [|n IH]; intros t.
  - cbn [cons_trials]. unfold cons_grid. cbn [seq flat_map]. rewrite Nat.add_0_r. reflexivity.
  - cbn [cons_trials]. rewrite f1_cons_factors_act.
    rewrite IH. unfold cons_grid. cbn [seq flat_map].
    replace (S t + n) with (t + S n) by lia. reflexivity.
Qed.

Lemma f1_cons_complex : forall n s,
  cons_complex fb (filter (cact fb) (seq s n)) (1 + Z.of_nat (GN fb + coff fb s))%Z
  = flat_map (fun f => map (fun t => cons_row t f) (trials_of fb f 0 (T fb))) (filter (cact fb) (seq s n)).
Proof.
  induction n as [|n IH]; intros s; [reflexivity|].
  cbn [seq filter]. destruct (cact fb s) eqn:Es.
  - cbn [cons_complex flat_map]. cbv zeta. rewrite f1_vff.
    replace (1 + Z.of_nat (GN fb + coff fb s) + zn (napp fb s * nlevels fb s))%Z
      with (1 + Z.of_nat (GN fb + coff fb (S s)))%Z
      by (rewrite coff_S, (cnl_act s Es); unfold zn; lia).
    rewrite IH. f_equal.
    destruct (cact_isact s Es) as [Hi Hc].
    pose proof (f1_nlevels_pos s (f1_act_lt s Hi)) as NL.
    rewrite zrange_length, chunk_zrange by nia.
    rewrite map_map.
    transitivity (map (fun k => (Card.EQ, 1%Z,
                                 map (fun l => Z.of_nat (GN fb + coff fb s + k * nlevels fb s + l + 1))
                                     (seq 0 (nlevels fb s))))
                      (map (prev fb s) (trials_of fb s 0 (T fb)))).
    + rewrite (trials_of_prev fb s 0 (T fb)) by lia. rewrite prev_0, Nat.sub_0_r. unfold napp.
      apply map_ext. intros k. f_equal. rewrite zrange_map. apply map_ext. intros l. lia.
    + rewrite map_map. apply map_ext. intros t. unfold cons_row. f_equal. apply map_ext. intros l.
      rewrite gvar_complex by exact Hc. reflexivity.
  - replace (coff fb s) with (coff fb (S s)) by (rewrite coff_S, (cnl_nact s Es); lia).
    apply IH.
Qed.

Lemma f1_consistency : forall fresh,
  apply_consistency fb fresh = COk {| ct_fresh := fresh; ct_clauses := []; ct_requests := cons_all |}.
Proof.
  intros fresh. unfold apply_consistency.
  assert (H : cons_trials fb (T fb) 1%Z = (cons_grid 0 (T fb), (1 + Z.of_nat (GN fb + coff fb 0))%Z)).
  { pose proof (f1_cons_trials (T fb) 0) as H. rewrite coff_0. unfold GN.
    replace (T fb * vpt fb + 0) with ((0 + T fb) * vpt fb) by lia. exact H. }
  rewrite H, f1_complex_act, f1_cons_complex. reflexivity.
Qed.

End F1.

(** The hypothesis is satisfiable: two plain factors with 2 and 3 levels fully
    crossed over 6 trials. *)
Definition ex_level : flevel :=
  {| lv_name := String.EmptyString; lv_weight := 1; lv_accepts := [] |}.
Definition ex_factor (n : nat) : ffactor :=
  {| ff_name := String.EmptyString; ff_hidden := false; ff_levels := repeat ex_level n;
     ff_window := None; ff_complex := false |}.
Definition ex_fb : flat :=
  {| fl_design := [ex_factor 2; ex_factor 3]; fl_act := [0; 1];
     fl_crossings := [[0; 1]]; fl_sustains := [1]; fl_weights := [1]; fl_sizes := [6];
     fl_preambles := [0]; fl_alignment := PostPreamble; fl_alignment_preamble := 0;
     fl_min_trials := 0; fl_trials := 6; fl_rcc := false; fl_exclude := [];
     fl_excluded_derived := []; fl_constraints := [FCross; FConsistency];
     fl_errors_fail := false |}.

Example ex_fb_in_f1 : in_f1 ex_fb = true.
Proof. vm_compute. reflexivity. Qed.

Example ex_fb_gvar : gvar ex_fb 1 1 2 = 10 /\ get_variable ex_fb 2 1 2 = COk 10.
Proof. vm_compute. split; reflexivity. Qed.

Print Assumptions f1_consistency.
Print Assumptions f1_var_lists.
