(** Layout arithmetic on the fragment F1 ([CodeSem.in_f1]): every factor is
    simple (no complex window), [act_design] lists every factor, all sustain
    counts are 1 and all preambles 0.  Then the SAT-variable layout of
    [Design/Layout.v] is the plain grid: the variable of (trial t, factor f,
    level l) is [t * vpt + off f + l + 1].  Proof file. *)
From Coq Require Import ZArith List Bool Arith Lia ZifyBool.
From SP Require Import Design.Flat Design.Layout Encode.Compile Encode.CodeSem.
From SP Require Core.Card.
Import ListNotations.
Close Scope Z_scope.
Open Scope nat_scope.

Definition nf (fb : flat) : nat := length (fl_design fb).
(* sum of the level counts of the factors before f *)
Definition off (fb : flat) (f : nat) : nat :=
  fold_left (fun acc g => acc + nlevels fb g) (seq 0 f) 0.
(* SAT variable of (0-based trial t, factor f, level l) *)
Definition gvar (fb : flat) (t f l : nat) : nat := t * vpt fb + off fb f + l + 1.

(** * Generic list facts *)

Lemma list_nat_eqb_eq : forall a b, list_nat_eqb a b = true -> a = b.
Proof.
  induction a as [|x a IH]; intros [|y b] H; simpl in H; try discriminate; auto.
  apply andb_true_iff in H. destruct H as [H1 H2].
  apply Nat.eqb_eq in H1. subst y. f_equal. auto.
Qed.

Lemma filter_all_true {A} (p : A -> bool) (l : list A) :
  (forall x, In x l -> p x = true) -> filter p l = l.
Proof.
  induction l as [|x l IH]; intros H; simpl; auto.
  rewrite (H x (or_introl eq_refl)). f_equal. apply IH. intros y Hy. apply H. right. exact Hy.
Qed.

Lemma filter_all_false {A} (p : A -> bool) (l : list A) :
  (forall x, In x l -> p x = false) -> filter p l = [].
Proof.
  induction l as [|x l IH]; intros H; simpl; auto.
  rewrite (H x (or_introl eq_refl)). apply IH. intros y Hy. apply H. right. exact Hy.
Qed.

Lemma seq_shift0 : forall n s, seq s n = map (Nat.add s) (seq 0 n).
Proof.
  induction n as [|n IH]; intros s; simpl; auto.
  f_equal; [lia|].
  rewrite <- (seq_shift n 0), map_map, (IH (S s)).
  apply map_ext. intros i. lia.
Qed.

Lemma map_seq_shift0 {B} (g : nat -> B) s n :
  map g (seq s n) = map (fun i => g (s + i)) (seq 0 n).
Proof. rewrite (seq_shift0 n s), map_map. reflexivity. Qed.

Lemma zrange_map : forall n a, zrange a n = map (fun i => (a + Z.of_nat i)%Z) (seq 0 n).
Proof.
  induction n as [|n IH]; intros a; simpl; auto.
  f_equal; [lia|].
  rewrite <- (seq_shift n 0), map_map, IH. apply map_ext. intros i. lia.
Qed.

Lemma fold_max_zero : forall l, (forall n, In n l -> n = 0) -> fold_left Nat.max l 0 = 0.
Proof.
  induction l as [|x l IH]; intros H; simpl; auto.
  rewrite (H x (or_introl eq_refl)). simpl. apply IH. intros n Hn. apply H. right. exact Hn.
Qed.

Lemma fold_overwrite_one (f : nat) :
  forall (l : list (list nat * nat)) acc,
    (forall p, In p l -> snd p = 1) -> acc = 1 ->
    fold_left (fun acc cs => if existsb (Nat.eqb f) (fst cs) then snd cs else acc) l acc = 1.
Proof.
  induction l as [|p l IH]; intros acc H Hacc; simpl; auto.
  apply IH.
  - intros q Hq. apply H. right. exact Hq.
  - destruct (existsb (Nat.eqb f) (fst p)); auto. apply H. left. reflexivity.
Qed.

(** * Facts read off [in_f1] *)

Record F1facts (fb : flat) : Prop := {
  f1_act : fl_act fb = seq 0 (nf fb);
  f1_factor : forall f fd, nth_error (fl_design fb) f = Some fd -> factor_f1 fd = true;
  f1_tables : forall f fd, nth_error (fl_design fb) f = Some fd ->
                           tables_ok fb f fd = true /\ tables_unambiguous fb fd = true;
  f1_sustains : forall n, In n (fl_sustains fb) -> n = 1;
  f1_sustains_len : length (fl_sustains fb) = length (fl_crossings fb);
  f1_sustain : forall f, sustain_of fb f = 1;
  f1_align_pre : fl_alignment_preamble fb = 0;
  f1_preambles : forall n, In n (fl_preambles fb) -> n = 0;
  f1_crossings : crossings_f1 fb 0 (fl_crossings fb) = true;
  f1_nodup : forall c, In c (fl_crossings fb) -> list_nat_nodup c = true;
  f1_constraints : forall c, In c (fl_constraints fb) -> constraint_f1 fb c = true;
  f1_has_consistency : In FConsistency (fl_constraints fb);
  f1_has_cross : In FCross (fl_constraints fb) \/ fl_crossings fb = [];
  f1_derivations : derivations_match fb = true
}.

Lemma nth_error_combine_seq {A} : forall (l : list A) s f x,
  nth_error l f = Some x -> In (s + f, x) (combine (seq s (length l)) l).
Proof.
  induction l as [|y l IH]; intros s f x H; destruct f; simpl in *; try discriminate.
  - inversion H. subst. left. f_equal. lia.
  - right. replace (s + S f) with (S s + f) by lia. apply IH. exact H.
Qed.

Lemma in_f1_facts : forall fb, in_f1 fb = true -> F1facts fb.
Proof.
  intros fb H. unfold in_f1 in H.
  repeat rewrite andb_true_iff in H.
  destruct H as [[[[[[[[[[[[H1 H2] H3] H4] H5] H6] H7] H8] H9] H10] H11] H12] H13].
  assert (Hs : forall n, In n (fl_sustains fb) -> n = 1).
  { intros n Hn. rewrite forallb_forall in H4. apply Nat.eqb_eq. apply H4. exact Hn. }
  constructor.
  - apply list_nat_eqb_eq. exact H3.
  - intros f fd Hf. rewrite forallb_forall in H1. apply H1. eapply nth_error_In. exact Hf.
  - intros f fd Hf. rewrite forallb_forall in H2.
    specialize (H2 (f, fd)). simpl in H2. apply andb_true_iff. apply H2.
    apply (nth_error_combine_seq (fl_design fb) 0 f fd Hf).
  - exact Hs.
  - apply Nat.eqb_eq. exact H5.
  - intros f. unfold sustain_of. apply fold_overwrite_one; auto.
    intros p Hp. apply Hs. destruct p as [c s]. simpl. eapply in_combine_r. exact Hp.
  - apply Nat.eqb_eq. exact H6.
  - intros n Hn. rewrite forallb_forall in H7. apply Nat.eqb_eq. apply H7. exact Hn.
  - exact H8.
  - intros c Hc. rewrite forallb_forall in H9. apply H9. exact Hc.
  - intros c Hc. rewrite forallb_forall in H10. apply H10. exact Hc.
  - apply existsb_exists in H11. destruct H11 as [c [Hc Hk]]. destruct c; try discriminate. exact Hc.
  - apply orb_true_iff in H12. destruct H12 as [H12|H12].
    + left. apply existsb_exists in H12. destruct H12 as [c [Hc Hk]]. destruct c; try discriminate. exact Hc.
    + right. destruct (fl_crossings fb); [reflexivity|discriminate].
  - exact H13.
Qed.
