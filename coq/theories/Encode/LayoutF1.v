(** Layout arithmetic on the fragment F1 ([CodeSem.in_f1]): every factor is
    simple (no complex window), [act_design] lists some of the design factors
    in design order, each once (the others, "implied", have no variables), all
    sustain counts are 1 and all preambles 0.  Then the SAT-variable layout of
    [Design/Layout.v] is the plain grid: the variable of (trial t, active
    factor f, level l) is [t * vpt + off f + l + 1].  Proof file. *)
From Coq Require Import ZArith List Bool Arith Lia ZifyBool.
From SP Require Import Design.Flat Design.Layout Encode.Compile Encode.CodeSem.
From SP Require Core.Card.
Import ListNotations.
Close Scope Z_scope.
Open Scope nat_scope.

Definition nf (fb : flat) : nat := length (fl_design fb).
(* levels that have variables: those of the factors of [act_design] *)
Definition anl (fb : flat) (f : nat) : nat := if isact fb f then nlevels fb f else 0.
(* sum of the level counts of the active factors before f *)
Definition off (fb : flat) (f : nat) : nat :=
  fold_left (fun acc g => acc + anl fb g) (seq 0 f) 0.
(* SAT variable of (0-based trial t, factor f, level l) *)
Definition gvar (fb : flat) (t f l : nat) : nat := t * vpt fb + off fb f + l + 1.

(** * Generic list facts *)

Lemma list_nat_eqb_eq : forall a b, list_nat_eqb a b = true -> a = b.
Proof.
  induction a as [|x a IH]; intros [|y b] H; simpl in H; try discriminate; auto.
  apply andb_true_iff in H. destruct H as [H1 H2].
  apply Nat.eqb_eq in H1. subst y. f_equal. auto.
Qed.

Lemma filter_all_true {A} (p : A -> bool) (l : list A) :
  (forall x, In x l -> p x = true) -> filter p l = l.
Proof.
  induction l as [|x l IH]; intros H; simpl; auto.
  rewrite (H x (or_introl eq_refl)). f_equal. apply IH. intros y Hy. apply H. right. exact Hy.
Qed.

Lemma filter_all_false {A} (p : A -> bool) (l : list A) :
  (forall x, In x l -> p x = false) -> filter p l = [].
Proof.
  induction l as [|x l IH]; intros H; simpl; auto.
  rewrite (H x (or_introl eq_refl)). apply IH. intros y Hy. apply H. right. exact Hy.
Qed.

Lemma seq_shift0 : forall n s, seq s n = map (Nat.add s) (seq 0 n).
Proof.
  induction n as [|n IH]; intros s; simpl; auto.
  f_equal; [lia|].
  rewrite <- (seq_shift n 0), map_map, (IH (S s)).
  apply map_ext. intros i. lia.
Qed.

Lemma map_seq_shift0 {B} (g : nat -> B) s n :
  map g (seq s n) = map (fun i => g (s + i)) (seq 0 n).
Proof. rewrite (seq_shift0 n s), map_map. reflexivity. Qed.

Lemma zrange_map : forall n a, zrange a n = map (fun i => (a + Z.of_nat i)%Z) (seq 0 n).
Proof.
  induction n as [|n IH]; intros a; simpl; auto.
  f_equal; [lia|].
  rewrite <- (seq_shift n 0), map_map, IH. apply map_ext. intros i. lia.
Qed.

Lemma fold_max_zero : forall l, (forall n, In n l -> n = 0) -> fold_left Nat.max l 0 = 0.
Proof.
  induction l as [|x l IH]; intros H; simpl; auto.
  rewrite (H x (or_introl eq_refl)). simpl. apply IH. intros n Hn. apply H. right. exact Hn.
Qed.

Lemma fold_overwrite_one (f : nat) :
  forall (l : list (list nat * nat)) acc,
    (forall p, In p l -> snd p = 1) -> acc = 1 ->
    fold_left (fun acc cs => if existsb (Nat.eqb f) (fst cs) then snd cs else acc) l acc = 1.
Proof.
  induction l as [|p l IH]; intros acc H Hacc; simpl; auto.
  apply IH.
  - intros q Hq. apply H. right. exact Hq.
  - destruct (existsb (Nat.eqb f) (fst p)); auto. apply H. left. reflexivity.
Qed.

Lemma fold_left_filter_add {A} (p : A -> bool) (h : A -> nat) :
  forall l a, fold_left (fun acc g => acc + h g) (filter p l) a
            = fold_left (fun acc g => acc + (if p g then h g else 0)) l a.
Proof.
  induction l as [|x l IH]; intros a; simpl; auto.
  destruct (p x); simpl; rewrite IH; [reflexivity|]. f_equal. lia.
Qed.

Lemma NoDup_filter_seq (p : nat -> bool) : forall n s, NoDup (filter p (seq s n)).
Proof.
  intros n s. apply NoDup_filter. apply seq_NoDup.
Qed.

Lemma isact_In : forall fb f, isact fb f = true <-> In f (fl_act fb).
Proof.
  intros fb f. unfold isact. rewrite existsb_exists. split.
  - intros [x [Hx E]]. apply Nat.eqb_eq in E. subst x. exact Hx.
  - intros H. exists f. split; [exact H|apply Nat.eqb_refl].
Qed.

(** * Facts read off [in_f1] *)

Record F1facts (fb : flat) : Prop := {
  f1_act_sorted : fl_act fb = filter (isact fb) (seq 0 (nf fb));
  f1_implied : forall f fd, nth_error (fl_design fb) f = Some fd -> implied_ok fb f fd = true;
  f1_factor : forall f fd, nth_error (fl_design fb) f = Some fd -> isact fb f = true -> factor_f1 fd = true;
  f1_tables : forall f fd, nth_error (fl_design fb) f = Some fd ->
                           tables_ok fb f fd = true /\ tables_unambiguous fb f fd = true;
  f1_sustains : forall n, In n (fl_sustains fb) -> n = 1;
  f1_sustains_len : length (fl_sustains fb) = length (fl_crossings fb);
  f1_sustain : forall f, sustain_of fb f = 1;
  f1_align_pre : fl_alignment fb = PostPreamble -> fl_alignment_preamble fb = 0;
  f1_preambles : forall n, In n (fl_preambles fb) -> n = 0;
  f1_crossings : crossings_f1 fb 0 (fl_crossings fb) = true;
  f1_nodup : forall c, In c (fl_crossings fb) -> list_nat_nodup c = true;
  f1_constraints : forall c, In c (fl_constraints fb) -> constraint_f1 fb c = true;
  f1_has_consistency : In FConsistency (fl_constraints fb);
  f1_has_cross : In FCross (fl_constraints fb) \/ fl_crossings fb = [];
  f1_derivations : derivations_match fb = true;
  f1_exclude_backed : forall p, In p (fl_exclude fb) -> In (FExclude (fst p) (snd p)) (fl_constraints fb);
  f1_no_excluded_derived : fl_excluded_derived fb = []
}.

Lemma nth_error_combine_seq {A} : forall (l : list A) s f x,
  nth_error l f = Some x -> In (s + f, x) (combine (seq s (length l)) l).
Proof.
  induction l as [|y l IH]; intros s f x H; destruct f; simpl in *; try discriminate.
  - inversion H. subst. left. f_equal. lia.
  - right. replace (s + S f) with (S s + f) by lia. apply IH. exact H.
Qed.

Lemma in_f1_facts : forall fb, in_f1 fb = true -> F1facts fb.
Proof.
  intros fb H. unfold in_f1 in H.
  repeat rewrite andb_true_iff in H.
  destruct H as [[[[[[[[[[[[[[H1 H2] [H3 H3b]] H4] H5] H6] H7] H8] H9] H10] H11] H12] H13] H14] H15].
  assert (Hs : forall n, In n (fl_sustains fb) -> n = 1).
  { intros n Hn. rewrite forallb_forall in H4. apply Nat.eqb_eq. apply H4. exact Hn. }
  constructor.
  - apply list_nat_eqb_eq. exact H3.
  - intros f fd Hf. rewrite forallb_forall in H3b.
    specialize (H3b (f, fd)). simpl in H3b. apply H3b.
    apply (nth_error_combine_seq (fl_design fb) 0 f fd Hf).
  - intros f fd Hf Ha. rewrite forallb_forall in H1.
    specialize (H1 (f, fd) (nth_error_combine_seq (fl_design fb) 0 f fd Hf)). cbn [fst snd] in H1.
    rewrite Ha in H1. exact H1.
  - intros f fd Hf. rewrite forallb_forall in H2.
    specialize (H2 (f, fd)). simpl in H2. apply andb_true_iff. apply H2.
    apply (nth_error_combine_seq (fl_design fb) 0 f fd Hf).
  - exact Hs.
  - apply Nat.eqb_eq. exact H5.
  - intros f. unfold sustain_of. apply fold_overwrite_one; auto.
    intros p Hp. apply Hs. destruct p as [c s]. simpl. eapply in_combine_r. exact Hp.
  - intros Ea. rewrite Ea in H6. apply Nat.eqb_eq. exact H6.
  - intros n Hn. rewrite forallb_forall in H7. apply Nat.eqb_eq. apply H7. exact Hn.
  - exact H8.
  - intros c Hc. rewrite forallb_forall in H9. apply H9. exact Hc.
  - intros c Hc. rewrite forallb_forall in H10. apply H10. exact Hc.
  - apply existsb_exists in H11. destruct H11 as [c [Hc Hk]]. destruct c; try discriminate. exact Hc.
  - apply orb_true_iff in H12. destruct H12 as [H12|H12].
    + left. apply existsb_exists in H12. destruct H12 as [c [Hc Hk]]. destruct c; try discriminate. exact Hc.
    + right. destruct (fl_crossings fb); [reflexivity|discriminate].
  - exact H13.
  - intros p Hp. unfold exclude_backed in H14. rewrite forallb_forall in H14. specialize (H14 p Hp).
    apply existsb_exists in H14. destruct H14 as [c [Hc Hk]]. destruct c; try discriminate.
    apply andb_true_iff in Hk. destruct Hk as [A B]. apply Nat.eqb_eq in A, B. subst. exact Hc.
  - unfold no_excluded_derived in H15. destruct (fl_excluded_derived fb); [reflexivity|discriminate].
Qed.

(** * Facts that hold for every flat record *)

Lemma off_0 : forall fb, off fb 0 = 0.
Proof. reflexivity. Qed.

Lemma off_S : forall fb f, off fb (S f) = off fb f + anl fb f.
Proof.
  intros fb f. unfold off. rewrite seq_S, fold_left_app. reflexivity.
Qed.

Lemma off_le : forall fb f g, f <= g -> off fb f <= off fb g.
Proof.
  intros fb f g H. induction H as [|g H IH]; [lia|]. rewrite off_S. lia.
Qed.

Lemma off_mono : forall fb f g, f < g -> off fb f + anl fb f <= off fb g.
Proof.
  intros fb f g H. rewrite <- off_S. apply off_le. lia.
Qed.

Lemma anl_act : forall fb f, isact fb f = true -> anl fb f = nlevels fb f.
Proof. intros fb f H. unfold anl. rewrite H. reflexivity. Qed.

Lemma anl_nact : forall fb f, isact fb f = false -> anl fb f = 0.
Proof. intros fb f H. unfold anl. rewrite H. reflexivity. Qed.

(** every range of [map_block_trial_ranges] lies within the trials *)
Lemma ranges_loop_bound : forall fb fuel start e step stop,
  Forall (fun r => fst r < stop /\ snd r <= trials fb) (ranges_loop fb fuel start e step stop).
Proof.
  intros fb fuel. induction fuel as [|fuel IH]; intros start e step stop; simpl; [constructor|].
  destruct (start <? stop) eqn:E; [|constructor].
  constructor; [|apply IH].
  simpl. apply Nat.ltb_lt in E. split; [exact E|apply Nat.le_min_r].
Qed.

Lemma f1_ranges_bound : forall fb wb rs,
  map_block_trial_ranges fb wb = Some rs ->
  Forall (fun r => fst r < T fb /\ snd r <= T fb) rs.
Proof.
  intros fb wb rs H.
  assert (W : forall fuel start e step stop, stop <= trials fb ->
            Forall (fun r => fst r < T fb /\ snd r <= T fb) (ranges_loop fb fuel start e step stop)).
  { intros fuel start e step stop Hs.
    eapply Forall_impl; [|apply ranges_loop_bound].
    intros r [H1 H2]. unfold T. unfold trials in *. split; lia. }
  assert (SomeE : forall a b : list (nat * nat), Some a = Some b -> a = b) by (intros a b Q; congruence).
  unfold map_block_trial_ranges in H. destruct wb as [g|].
  - destruct ((g_trials g <=? g_preamble g) && (0 <? trials fb - g_preamble g)); [discriminate|].
    destruct (fl_alignment fb).
    + destruct (post_preamble_size fb <? g_preamble g); [discriminate|].
      apply SomeE in H. rewrite <- H. apply W. lia.
    + apply SomeE in H. rewrite <- H. apply W. lia.
    + apply SomeE in H. rewrite <- H. apply W. lia.
  - apply SomeE in H. rewrite <- H. apply W. lia.
Qed.

Lemma f1_ranges_none : forall fb,
  map_block_trial_ranges fb None = Some (if 0 <? T fb then [(0, T fb)] else []).
Proof.
  intros fb. unfold map_block_trial_ranges, T. f_equal.
  assert (G : forall n, n = trials fb ->
              ranges_loop fb (S n) 0 n n n = if 0 <? n then [(0, n)] else []).
  { intros n Hn. destruct n as [|k].
    - reflexivity.
    - cbn [ranges_loop]. rewrite <- Hn.
      replace (0 <? S k) with true by (symmetry; apply Nat.ltb_lt; lia).
      replace (0 + S k <? S k) with false by (symmetry; apply Nat.ltb_ge; lia).
      rewrite Nat.min_id. reflexivity. }
  apply (G (trials fb) eq_refl).
Qed.

(** [get_trial_numbers] when the sustain count of the geometry is 1 *)
Lemma f1_trial_numbers : forall fb f b wb rs,
  geometry_sustain fb wb f = 1 ->
  map_block_trial_ranges fb wb = Some rs ->
  get_trial_numbers fb f b wb =
  Some (flat_map (fun r =>
          let p := (if (b <? 0)%Z then Z.of_nat (snd r) + b else Z.of_nat (fst r) + b)%Z in
          if ((Z.of_nat (fst r) <=? p) && (p <? Z.of_nat (snd r)))%Z then [Z.to_nat p] else []) rs).
Proof.
  intros fb f b wb rs Hsu Hrs. unfold get_trial_numbers. rewrite Hsu, Hrs.
  cbn [option_map]. f_equal. clear Hrs.
  apply flat_map_ext. intros r.
  replace (Z.of_nat 1 * b)%Z with b by lia.
  cbv zeta. cbn [seq map]. rewrite Nat.add_0_r. reflexivity.
Qed.

(** * The layout on F1 *)
Section F1.
Variable fb : flat.
Hypothesis HF1 : in_f1 fb = true.

Let FF : F1facts fb := in_f1_facts fb HF1.

Lemma f1_act_lt : forall f, isact fb f = true -> f < nf fb.
Proof.
  intros f Hf. apply isact_In in Hf. rewrite (f1_act_sorted fb FF) in Hf.
  apply filter_In in Hf. destruct Hf as [Hf _]. apply in_seq in Hf. lia.
Qed.

Lemma f1_act_nodup : NoDup (fl_act fb).
Proof.
  rewrite (f1_act_sorted fb FF). apply NoDup_filter_seq.
Qed.

Lemma f1_is_complex : forall f, isact fb f = true -> is_complex fb f = false.
Proof.
  intros f Ha. unfold is_complex, factor_at. destruct (nth_error (fl_design fb) f) as [fd|] eqn:E; auto.
  pose proof (f1_factor fb FF f fd E Ha) as H. unfold factor_f1 in H.
  repeat rewrite andb_true_iff in H. destruct H as [[H _] _].
  apply negb_true_iff. exact H.
Qed.

Lemma f1_simple_act : simple_act fb = fl_act fb.
Proof.
  unfold simple_act. apply filter_all_true.
  intros f Hf. rewrite f1_is_complex; [reflexivity|]. now apply isact_In.
Qed.

Lemma f1_complex_act : complex_act fb = [].
Proof.
  unfold complex_act. apply filter_all_false. intros f Hf. apply f1_is_complex. now apply isact_In.
Qed.

Lemma f1_nlevels_pos : forall f, f < nf fb -> 0 < nlevels fb f.
Proof.
  intros f Hf. unfold nlevels, factor_at.
  destruct (nth_error (fl_design fb) f) as [fd|] eqn:E.
  - destruct (isact fb f) eqn:Ha.
    + pose proof (f1_factor fb FF f fd E Ha) as H. unfold factor_f1 in H.
      repeat rewrite andb_true_iff in H. destruct H as [[_ H] _]. apply Nat.ltb_lt. exact H.
    + pose proof (f1_implied fb FF f fd E) as H. unfold implied_ok in H. rewrite Ha in H. cbn [orb] in H.
      unfold factor_impl_f1 in H. repeat rewrite andb_true_iff in H. destruct H as [[H _] _]. apply Nat.ltb_lt. exact H.
  - apply nth_error_None in E. unfold nf in Hf. lia.
Qed.

Lemma f1_applies_to_trial : forall f n, isact fb f = true -> 1 <= n -> applies_to_trial fb f n = true.
Proof.
  intros f n Ha Hn. unfold applies_to_trial, factor_at.
  destruct (nth_error (fl_design fb) f) as [fd|] eqn:E; auto.
  pose proof (f1_factor fb FF f fd E Ha) as H. unfold factor_f1 in H.
  destruct (ff_window fd) as [w|]; auto.
  repeat rewrite andb_true_iff in H. destruct H as [_ [[_ H2] H3]].
  apply Nat.eqb_eq in H2. apply Nat.eqb_eq in H3. rewrite H2, H3.
  rewrite Nat.mod_1_r. apply andb_true_iff. split; [apply Nat.leb_le; lia|reflexivity].
Qed.

Lemma f1_applies : forall f t, isact fb f = true -> applies_at fb f t = true.
Proof.
  intros f t Ha. unfold applies_at. apply f1_applies_to_trial; [exact Ha|lia].
Qed.

Lemma f1_vpt : vpt fb = off fb (nf fb).
Proof.
  unfold vpt, variables_per_trial. rewrite f1_simple_act, (f1_act_sorted fb FF).
  rewrite fold_left_filter_add. reflexivity.
Qed.

Lemma f1_off_vpt : forall f, isact fb f = true -> off fb f + nlevels fb f <= vpt fb.
Proof.
  intros f Hf. rewrite f1_vpt, <- (anl_act fb f Hf). apply off_mono. apply f1_act_lt. exact Hf.
Qed.

Lemma fold_applies_count : forall f (l : list nat) acc, isact fb f = true ->
  fold_left (fun acc t => if applies_at fb f t then acc + nlevels fb f else acc) l acc
  = acc + length l * nlevels fb f.
Proof.
  intros f l acc Ha. revert acc. induction l as [|t l IH]; intros acc; simpl; [lia|].
  rewrite (f1_applies f t Ha), IH. lia.
Qed.

Lemma f1_vff : forall f, isact fb f = true -> variables_for_factor fb f 0 0 = T fb * nlevels fb f.
Proof.
  intros f Ha. unfold variables_for_factor. cbn [Nat.eqb].
  rewrite (fold_applies_count f _ _ Ha), seq_length. unfold T, trials. lia.
Qed.

Lemma f1_vps : variables_per_sample fb = T fb * vpt fb.
Proof.
  unfold variables_per_sample. rewrite (f1_act_sorted fb FF), f1_vpt, fold_left_filter_add.
  induction (nf fb) as [|n IH].
  - rewrite off_0. simpl. lia.
  - rewrite seq_S, fold_left_app, IH, off_S. cbn [fold_left Nat.add]. unfold anl.
    destruct (isact fb n) eqn:Ea; [rewrite (f1_vff n Ea)|]; lia.
Qed.

Lemma f1_grid : grid_variables fb = T fb * vpt fb.
Proof. reflexivity. Qed.

Lemma f1_simple_offset : forall n s f, s <= f < s + n -> isact fb f = true ->
  simple_offset fb (filter (isact fb) (seq s n)) f = Some (off fb f - off fb s).
Proof.
  induction n as [|n IH]; intros s f H Hf; [lia|].
  cbn [seq filter]. destruct (isact fb s) eqn:Es.
  - cbn [simple_offset]. destruct (s =? f) eqn:E.
    + apply Nat.eqb_eq in E. subst. f_equal. lia.
    + apply Nat.eqb_neq in E. rewrite IH by (try lia; exact Hf). cbn [option_map]. f_equal.
      pose proof (off_mono fb s f ltac:(lia)) as H1.
      rewrite off_S. rewrite (anl_act fb s Es) in *. lia.
  - assert (E : s <> f) by (intros Q; subst; congruence).
    rewrite IH by (try lia; exact Hf). f_equal.
    rewrite off_S, (anl_nact fb s Es). lia.
Qed.

Lemma f1_first_var : forall f l, isact fb f = true -> l < nlevels fb f ->
  first_variable_for_level fb f l = Some (off fb f + l).
Proof.
  intros f l Hf Hl. pose proof (f1_act_lt f Hf) as Hlt.
  unfold first_variable_for_level. rewrite (f1_is_complex f Hf).
  replace (l <? nlevels fb f) with true by (symmetry; apply Nat.ltb_lt; exact Hl).
  rewrite f1_simple_act, (f1_act_sorted fb FF), f1_simple_offset by (try lia; exact Hf).
  cbn [option_map]. rewrite off_0. f_equal. lia.
Qed.

Lemma f1_prev : forall f t, isact fb f = true -> previous_trials_count fb f t = t - 1.
Proof.
  intros f t Ha. unfold previous_trials_count. rewrite filter_all_true.
  - apply seq_length.
  - intros x _. now apply f1_applies.
Qed.

Lemma f1_encode_any : forall f l trial, isact fb f = true -> l < nlevels fb f ->
  encode_variable fb f l trial = Some (gvar fb (trial - 1) f l).
Proof.
  intros f l trial Hf Hl. unfold encode_variable.
  rewrite f1_first_var, (f1_is_complex f Hf), f1_prev by assumption.
  unfold gvar, vpt. f_equal. lia.
Qed.

Lemma f1_encode : forall f l t, isact fb f = true -> l < nlevels fb f ->
  encode_variable fb f l (S t) = Some (gvar fb t f l).
Proof.
  intros f l t Hf Hl. rewrite f1_encode_any by assumption. do 2 f_equal. lia.
Qed.

Lemma f1_get_variable : forall f l t, isact fb f = true -> l < nlevels fb f ->
  get_variable fb (S t) f l = COk (gvar fb t f l).
Proof.
  intros f l t Hf Hl. unfold get_variable. rewrite f1_encode by assumption. reflexivity.
Qed.

Lemma gvar_range : forall t f l, t < T fb -> isact fb f = true -> l < nlevels fb f ->
  1 <= gvar fb t f l <= T fb * vpt fb.
Proof.
  intros t f l Ht Hf Hl. pose proof (f1_off_vpt f Hf) as H. unfold gvar. nia.
Qed.

Lemma off_level_inj : forall f l f' l', isact fb f = true -> isact fb f' = true ->
  l < nlevels fb f -> l' < nlevels fb f' ->
  off fb f + l = off fb f' + l' -> f = f' /\ l = l'.
Proof.
  intros f l f' l' Hf Hf' Hl Hl' H.
  pose proof (anl_act fb f Hf) as Ea. pose proof (anl_act fb f' Hf') as Ea'.
  destruct (Nat.lt_trichotomy f f') as [C|[C|C]].
  - pose proof (off_mono fb f f' C). lia.
  - subst. split; lia.
  - pose proof (off_mono fb f' f C). lia.
Qed.

Lemma gvar_inj : forall t f l t' f' l',
  isact fb f = true -> l < nlevels fb f -> isact fb f' = true -> l' < nlevels fb f' ->
  gvar fb t f l = gvar fb t' f' l' -> t = t' /\ f = f' /\ l = l'.
Proof.
  intros t f l t' f' l' Hf Hl Hf' Hl' H.
  pose proof (f1_off_vpt f Hf) as B. pose proof (f1_off_vpt f' Hf') as B'.
  unfold gvar in H.
  assert (E : t = t' /\ off fb f + l = off fb f' + l').
  { apply (Nat.div_mod_unique (vpt fb)); lia. }
  destruct E as [E1 E2]. split; [exact E1|].
  apply off_level_inj; assumption.
Qed.

Lemma off_decompose : forall n r, r < off fb n ->
  exists f l, f < n /\ isact fb f = true /\ l < nlevels fb f /\ r = off fb f + l.
Proof.
  induction n as [|n IH]; intros r Hr.
  - rewrite off_0 in Hr. lia.
  - rewrite off_S in Hr. destruct (Nat.lt_ge_cases r (off fb n)) as [C|C].
    + destruct (IH r C) as [f [l [H1 [H2 [H3 H4]]]]]. exists f, l. repeat split; auto.
    + unfold anl in Hr. destruct (isact fb n) eqn:En; [|lia].
      exists n, (r - off fb n). repeat split; auto; lia.
Qed.

Lemma gvar_surj : forall v, 1 <= v <= T fb * vpt fb ->
  exists t f l, t < T fb /\ isact fb f = true /\ l < nlevels fb f /\ v = gvar fb t f l.
Proof.
  intros v Hv.
  assert (V : vpt fb <> 0) by nia.
  pose proof (Nat.div_mod (v - 1) (vpt fb) V) as D.
  pose proof (Nat.mod_upper_bound (v - 1) (vpt fb) V) as M.
  destruct (off_decompose (nf fb) ((v - 1) mod vpt fb)) as [f [l [_ [H1 [H2 H3]]]]].
  { rewrite <- f1_vpt. exact M. }
  exists ((v - 1) / vpt fb), f, l. repeat split; auto.
  - apply Nat.div_lt_upper_bound; [exact V|]. nia.
  - unfold gvar. nia.
Qed.

(** ** Variable lists *)
Lemma f1_simple_range_vars : forall f l s e,
  simple_range_vars fb (off fb f + l) s e = map (fun t => gvar fb t f l) (seq s (e - s)).
Proof.
  intros f l s e. unfold simple_range_vars. rewrite (map_seq_shift0 (fun t => gvar fb t f l)).
  apply map_ext. intros i. unfold gvar, vpt. lia.
Qed.

Lemma f1_build_variable_lists : forall f l wb rs, isact fb f = true -> l < nlevels fb f ->
  map_block_trial_ranges fb wb = Some rs ->
  build_variable_lists fb f l wb =
  Some (map (fun r => map (fun t => gvar fb t f l) (seq (fst r) (snd r - fst r))) rs).
Proof.
  intros f l wb rs Hf Hl Hrs. unfold build_variable_lists.
  rewrite f1_first_var, Hrs by assumption. f_equal.
  apply map_ext. intros r. rewrite (f1_is_complex f Hf). apply f1_simple_range_vars.
Qed.

Lemma f1_var_lists : forall f l wb rs, isact fb f = true -> l < nlevels fb f ->
  map_block_trial_ranges fb wb = Some rs ->
  var_lists fb f l wb =
  COk (map (fun r => map (fun t => gvar fb t f l) (seq (fst r) (snd r - fst r))) rs).
Proof.
  intros f l wb rs Hf Hl Hrs. unfold var_lists.
  rewrite (f1_build_variable_lists f l wb rs Hf Hl Hrs), Hrs.
  destruct rs; reflexivity.
Qed.

(** the whole-sequence case ([within_block = None]) *)
Lemma f1_var_lists_none : forall f l, isact fb f = true -> l < nlevels fb f ->
  var_lists fb f l None =
  COk (if 0 <? T fb then [map (fun t => gvar fb t f l) (seq 0 (T fb))] else []).
Proof.
  intros f l Hf Hl. rewrite (f1_var_lists f l None _ Hf Hl (f1_ranges_none fb)).
  destruct (0 <? T fb); cbn [map fst snd]; [rewrite Nat.sub_0_r|]; reflexivity.
Qed.

(** ** Consistency *)
Definition cons_row (t f : nat) : req :=
  (Card.EQ, 1%Z, map (fun l => Z.of_nat (gvar fb t f l)) (seq 0 (nlevels fb f))).

Definition cons_grid (t0 n : nat) : list req :=
  flat_map (fun t => map (cons_row t) (fl_act fb)) (seq t0 n).

(* [cons_factors] over a suffix of the act list, starting at the offset of its
   first candidate factor *)
Lemma f1_cons_factors : forall t n s,
  cons_factors fb (filter (isact fb) (seq s n)) (1 + Z.of_nat (t * vpt fb + off fb s))%Z
  = (map (cons_row t) (filter (isact fb) (seq s n)), (1 + Z.of_nat (t * vpt fb + off fb (s + n)))%Z).
Proof.
  intros t. induction n as [|n IH]; intros s.
  - cbn [seq filter cons_factors map]. rewrite Nat.add_0_r. reflexivity.
  - cbn [seq filter]. replace (s + S n) with (S s + n) by lia.
    destruct (isact fb s) eqn:Es.
    + cbn [cons_factors map].
      replace (1 + Z.of_nat (t * vpt fb + off fb s) + zn (nlevels fb s))%Z
        with (1 + Z.of_nat (t * vpt fb + off fb (S s)))%Z
        by (rewrite off_S, (anl_act fb s Es); unfold zn; lia).
      rewrite IH. f_equal. f_equal.
      unfold cons_row. f_equal. rewrite zrange_map. apply map_ext. intros i. unfold gvar. lia.
    + replace (off fb s) with (off fb (S s)) by (rewrite off_S, (anl_nact fb s Es); lia).
      apply IH.
Qed.

Lemma f1_cons_factors_act : forall t,
  cons_factors fb (fl_act fb) (1 + Z.of_nat (t * vpt fb))%Z
  = (map (cons_row t) (fl_act fb), (1 + Z.of_nat (S t * vpt fb))%Z).
Proof.
  intros t. rewrite (f1_act_sorted fb FF).
  replace (1 + Z.of_nat (t * vpt fb))%Z with (1 + Z.of_nat (t * vpt fb + off fb 0))%Z
    by (rewrite off_0; lia).
  rewrite f1_cons_factors. cbn [Nat.add]. rewrite <- f1_vpt.
  replace (t * vpt fb + vpt fb) with (S t * vpt fb) by lia. reflexivity.
Qed.

Lemma f1_cons_trials : forall n t,
  cons_trials fb n (1 + Z.of_nat (t * vpt fb))%Z
  = (cons_grid t n, (1 + Z.of_nat ((t + n) * vpt fb))%Z).
Proof.
  induction n as [|n IH]; intros t.
  - cbn [cons_trials]. unfold cons_grid. cbn [seq flat_map]. rewrite Nat.add_0_r. reflexivity.
  - cbn [cons_trials]. rewrite f1_simple_act, f1_cons_factors_act.
    rewrite IH. unfold cons_grid. cbn [seq flat_map].
    replace (S t + n) with (t + S n) by lia. reflexivity.
Qed.

Lemma f1_cons_trials_all :
  cons_trials fb (T fb) 1%Z =
  (flat_map (fun t => map (fun f => (Card.EQ, 1%Z,
                                     map (fun l => Z.of_nat (gvar fb t f l)) (seq 0 (nlevels fb f))))
                          (fl_act fb))
            (seq 0 (T fb)),
   (1 + Z.of_nat (T fb * vpt fb))%Z).
Proof.
  change (cons_trials fb (T fb) 1%Z = (cons_grid 0 (T fb), (1 + Z.of_nat (T fb * vpt fb))%Z)).
  pose proof (f1_cons_trials (T fb) 0) as H. cbn [Nat.mul Nat.add Z.of_nat Z.add] in H. exact H.
Qed.

Lemma f1_consistency : forall fresh,
  apply_consistency fb fresh =
  COk {| ct_fresh := fresh; ct_clauses := [];
         ct_requests :=
           flat_map (fun t => map (fun f => (Card.EQ, 1%Z,
                                             map (fun l => Z.of_nat (gvar fb t f l)) (seq 0 (nlevels fb f))))
                                  (fl_act fb))
                    (seq 0 (T fb)) |}.
Proof.
  intros fresh. unfold apply_consistency. rewrite f1_cons_trials_all, f1_complex_act.
  cbn [cons_complex]. rewrite app_nil_r. reflexivity.
Qed.

(** ** Preambles *)
Lemma f1_post_preamble : fl_alignment fb = PostPreamble -> post_preamble_size fb = 0.
Proof.
  intros Ea. unfold post_preamble_size. rewrite (f1_align_pre fb FF Ea), fold_max_zero; [reflexivity|].
  apply (f1_preambles fb FF).
Qed.

Lemma f1_preamble : forall i, preamble_size fb i = 0.
Proof.
  intros i. unfold preamble_size.
  assert (N : nth i (fl_preambles fb) 0 = 0).
  { destruct (nth_in_or_default i (fl_preambles fb) 0) as [H|H]; [|exact H].
    apply (f1_preambles fb FF). exact H. }
  destruct (fl_alignment fb) eqn:Ea; [now apply f1_post_preamble|exact N|exact N].
Qed.

End F1.

(** The hypothesis is satisfiable: two plain factors with 2 and 3 levels fully
    crossed over 6 trials. *)
Definition ex_level : flevel :=
  {| lv_name := String.EmptyString; lv_weight := 1; lv_accepts := [] |}.
Definition ex_factor (n : nat) : ffactor :=
  {| ff_name := String.EmptyString; ff_hidden := false; ff_levels := repeat ex_level n;
     ff_window := None; ff_complex := false |}.
Definition ex_fb : flat :=
  {| fl_design := [ex_factor 2; ex_factor 3]; fl_act := [0; 1];
     fl_crossings := [[0; 1]]; fl_sustains := [1]; fl_weights := [1]; fl_sizes := [6];
     fl_preambles := [0]; fl_alignment := PostPreamble; fl_alignment_preamble := 0;
     fl_min_trials := 0; fl_trials := 6; fl_rcc := false; fl_exclude := [];
     fl_excluded_derived := []; fl_constraints := [FCross; FConsistency];
     fl_errors_fail := false |}.

Example ex_fb_in_f1 : in_f1 ex_fb = true.
Proof. vm_compute. reflexivity. Qed.

Example ex_fb_gvar : gvar ex_fb 1 1 2 = 10 /\ get_variable ex_fb 2 1 2 = COk 10.
Proof. vm_compute. split; reflexivity. Qed.

Print Assumptions f1_consistency.
Print Assumptions f1_var_lists.
