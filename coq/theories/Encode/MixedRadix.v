(** The rotation counter of [LatinSquare.apply] ([Compile.step_rotations]: add
    one to the mixed-radix number whose digits are the rotations of the factors
    other than the main one, last factor fastest, wrapping around) against the
    rotation vector of the reference semantics ([Sem.rotations]: the digits of
    the segment number).  Proof file. *)
From Coq Require Import ZArith List Bool Arith Lia.
From SP Require Import Design.Sem Encode.Compile.
Import ListNotations.
Close Scope Z_scope.
Open Scope nat_scope.

(** the list without its [k]-th element *)
Definition remove_nth {A} (k : nat) (l : list A) : list A := firstn k l ++ skipn (S k) l.

(** the position in the full list of the [p]-th element of [remove_nth main] *)
Definition unskip (main p : nat) : nat := if p <? main then p else S p.


(** * Auxiliary: plain list lemmas *)

Lemma remove_nth_cons {A} (k : nat) (a : A) (l : list A) :
  remove_nth (S k) (a :: l) = a :: remove_nth k l.
Proof. reflexivity. Qed.

Lemma remove_nth_app_mid {A} (a : list A) (x : A) (b : list A) :
  remove_nth (length a) (a ++ x :: b) = a ++ b.
Proof.
  induction a as [|y a IH]; [reflexivity|].
  cbn [length app]. rewrite remove_nth_cons. now rewrite IH.
Qed.

Lemma split_at {A} (l : list A) : forall k, k < length l ->
  exists a x b, l = a ++ x :: b /\ length a = k.
Proof.
  induction l as [|y l IH]; intros [|k] H; cbn [length] in H; try lia.
  - exists [], y, l. split; reflexivity.
  - destruct (IH k) as (a & x & b & E & L); [lia|].
    exists (y :: a), x, b. split; [now rewrite E | cbn [length]; now rewrite L].
Qed.

Lemma combine_app_eq {A B} (l1 : list A) (l1' : list B) l2 l2' :
  length l1 = length l1' ->
  combine (l1 ++ l2) (l1' ++ l2') = combine l1 l1' ++ combine l2 l2'.
Proof.
  revert l1'. induction l1 as [|a l1 IH]; intros [|b l1'] H; try discriminate; [reflexivity|].
  cbn [app combine]. f_equal. apply IH. cbn [length] in H. lia.
Qed.

Lemma nth_insert (RA RB : list nat) (p : nat) :
  nth (unskip (length RA) p) (RA ++ 0 :: RB) 0 = nth p (RA ++ RB) 0.
Proof.
  unfold unskip. destruct (p <? length RA) eqn:E.
  - apply Nat.ltb_lt in E. now rewrite !app_nth1 by lia.
  - apply Nat.ltb_ge in E. rewrite !app_nth2 by lia.
    replace (S p - length RA) with (S (p - length RA)) by lia. reflexivity.
Qed.

(** * Mixed-radix digits, least significant first *)

Fixpoint digits (ns : list nat) (r : nat) : list nat :=
  match ns with
  | [] => []
  | n :: tl => (r mod n) :: digits tl (r / n)
  end.

Fixpoint incr (ns ds : list nat) : list nat :=
  match ns, ds with
  | n :: ns', d :: ds' => if S d <? n then S d :: ds' else 0 :: incr ns' ds'
  | _, _ => []
  end.

Lemma digits_length ns : forall r, length (digits ns r) = length ns.
Proof. induction ns as [|n ns IH]; intros r; cbn [digits length]; auto. Qed.

Lemma digits_zero ns : Forall (fun n => 0 < n) ns -> digits ns 0 = map (fun _ => 0) ns.
Proof.
  induction 1 as [|n ns Hn _ IH]; [reflexivity|].
  cbn [digits map]. rewrite Nat.mod_0_l, Nat.div_0_l by lia. now rewrite IH.
Qed.

Lemma incr_length ns : forall ds, length ns = length ds -> length (incr ns ds) = length ds.
Proof.
  induction ns as [|n ns IH]; intros [|d ds] H; try discriminate; [reflexivity|].
  cbn [incr]. destruct (S d <? n); cbn [length]; [reflexivity|].
  rewrite IH; [reflexivity | cbn [length] in H; lia].
Qed.

Lemma succ_mod_lt r n : S (r mod n) < n -> S r mod n = S (r mod n) /\ S r / n = r / n.
Proof.
  intros H. assert (Hn : n <> 0) by lia.
  pose proof (Nat.div_mod r n Hn) as E.
  split; symmetry.
  - apply Nat.mod_unique with (q := r / n); lia.
  - apply Nat.div_unique with (r := S (r mod n)); lia.
Qed.

Lemma succ_mod_ge r n : 0 < n -> ~ S (r mod n) < n -> S r mod n = 0 /\ S r / n = S (r / n).
Proof.
  intros Hp H. assert (Hn : n <> 0) by lia.
  pose proof (Nat.div_mod r n Hn) as E.
  pose proof (Nat.mod_upper_bound r n Hn) as U.
  assert (E' : S r = n * S (r / n) + 0) by (rewrite Nat.mul_succ_r; lia).
  split; symmetry.
  - apply Nat.mod_unique with (q := S (r / n)); [lia | exact E'].
  - apply Nat.div_unique with (r := 0); [lia | exact E'].
Qed.

Lemma incr_digits ns : Forall (fun n => 0 < n) ns ->
  forall r, incr ns (digits ns r) = digits ns (S r).
Proof.
  induction 1 as [|n ns Hn _ IH]; intros r; [reflexivity|].
  cbn [digits incr]. destruct (S (r mod n) <? n) eqn:E.
  - apply Nat.ltb_lt in E. destruct (succ_mod_lt r n E) as [-> ->]. reflexivity.
  - apply Nat.ltb_ge in E. destruct (succ_mod_ge r n Hn) as [-> ->]; [lia|].
    now rewrite IH.
Qed.

Lemma rotations_digits (others : list (nat * nat)) (r : nat) :
  rotations others r = rev (digits (rev (map snd others)) r).
Proof.
  destruct others as [|o os]; [reflexivity|].
  unfold rotations. rewrite <- map_rev.
  generalize (rev (o :: os)) as l. intros l. f_equal. revert r.
  induction l as [|[f n] l IH]; intros r; [reflexivity|].
  cbn [map snd digits]. f_equal. apply IH.
Qed.

Lemma rotations_length_gen (others : list (nat * nat)) r :
  length (rotations others r) = length others.
Proof.
  rewrite rotations_digits, rev_length, digits_length, rev_length, map_length. reflexivity.
Qed.

Lemma rotations_zero (others : list (nat * nat)) :
  Forall (fun x => 0 < snd x) others -> rotations others 0 = map (fun _ => 0) others.
Proof.
  intros H. rewrite rotations_digits, digits_zero.
  - rewrite map_rev, rev_involutive, map_map. reflexivity.
  - apply Forall_rev. apply Forall_map. exact H.
Qed.

(** * [step_rev] on items with one main item *)

Definition mkf (ns ds : list nat) : list (bool * nat * nat) :=
  map (fun p => (false, fst p, snd p)) (combine ns ds).

Lemma mkf_app ns1 ds1 ns2 ds2 : length ns1 = length ds1 ->
  mkf (ns1 ++ ns2) (ds1 ++ ds2) = mkf ns1 ds1 ++ mkf ns2 ds2.
Proof. intros H. unfold mkf. rewrite combine_app_eq by exact H. apply map_app. Qed.

Lemma mkf_rev ns : forall ds, length ns = length ds -> rev (mkf ns ds) = mkf (rev ns) (rev ds).
Proof.
  induction ns as [|n ns IH]; intros [|d ds] H; try discriminate; [reflexivity|].
  cbn [rev]. rewrite mkf_app by (rewrite !rev_length; cbn [length] in H; lia).
  rewrite <- IH by (cbn [length] in H; lia). reflexivity.
Qed.

Lemma mkf_snd ns : forall ds, length ns = length ds -> map snd (mkf ns ds) = ds.
Proof.
  induction ns as [|n ns IH]; intros [|d ds] H; try discriminate; [reflexivity|].
  unfold mkf in *. cbn [combine map snd]. f_equal. apply IH. cbn [length] in H. lia.
Qed.

Lemma mkf_flags {X} (L : list X) : forall ns ds, length L = length ns ->
  combine (combine (map (fun _ => false) L) ns) ds = mkf ns ds.
Proof.
  induction L as [|x L IH]; intros [|n ns] ds H; try discriminate; [reflexivity|].
  destruct ds as [|d ds]; [reflexivity|].
  unfold mkf in *. cbn [map combine fst snd]. f_equal. apply IH. cbn [length] in H. lia.
Qed.

Lemma step_rev_mkf ns : forall ds, step_rev (mkf ns ds) = mkf ns (incr ns ds).
Proof.
  induction ns as [|n ns IH]; intros [|d ds]; try reflexivity.
  unfold mkf in *. cbn [combine map step_rev fst snd incr].
  destruct (S d <? n); cbn [combine map fst snd]; [reflexivity|]. now rewrite IH.
Qed.

Lemma step_rev_split n r ns2 ds2 : forall ns1 ds1, length ns1 = length ds1 ->
  exists d1 d2, length d1 = length ds1 /\ d1 ++ d2 = incr (ns1 ++ ns2) (ds1 ++ ds2) /\
    step_rev (mkf ns1 ds1 ++ (true, n, r) :: mkf ns2 ds2) = mkf ns1 d1 ++ (true, n, r) :: mkf ns2 d2.
Proof.
  induction ns1 as [|a ns1 IH]; intros [|d ds1] H; try discriminate.
  - exists [], (incr ns2 ds2). cbn [app length mkf combine map step_rev].
    fold (mkf ns2 ds2). rewrite step_rev_mkf. auto.
  - cbn [app incr]. unfold mkf at 1. cbn [combine map app step_rev fst snd].
    fold (mkf ns1 ds1).
    destruct (S d <? a).
    + exists (S d :: ds1), ds2. split; [reflexivity|]. split; reflexivity.
    + destruct (IH ds1) as (d1 & d2 & L & E & St); [cbn [length] in H; lia|].
      exists (0 :: d1), d2. split; [cbn [length]; now rewrite L|].
      split; [cbn [app]; now rewrite E|].
      rewrite St. reflexivity.
Qed.

Lemma flags_false m : forall k s, m < s \/ s + k <= m ->
  map (fun i => i =? m) (seq s k) = map (fun _ => false) (seq s k).
Proof.
  intros k s H. apply map_ext_in. intros i Hi. apply in_seq in Hi.
  apply Nat.eqb_neq. lia.
Qed.

Lemma step_rotations_split NA n NB RA RB :
  length RA = length NA -> length RB = length NB ->
  exists D1 D2, length D1 = length NB /\
    D1 ++ D2 = incr (rev NB ++ rev NA) (rev RB ++ rev RA) /\
    step_rotations (length NA) (NA ++ n :: NB) (RA ++ 0 :: RB) = rev D2 ++ 0 :: rev D1.
Proof.
  intros LA LB. unfold step_rotations.
  rewrite app_length. cbn [length]. rewrite LA, LB.
  rewrite seq_app. cbn [seq]. rewrite map_app. cbn [map].
  rewrite Nat.add_0_l, Nat.eqb_refl.
  rewrite (flags_false (length NA) (length NA) 0) by lia.
  rewrite (flags_false (length NA) (length NB) (S (length NA))) by lia.
  rewrite combine_app_eq by (rewrite map_length, seq_length; reflexivity).
  cbn [combine].
  rewrite combine_app_eq
    by (rewrite combine_length, map_length, seq_length; lia).
  cbn [combine].
  rewrite !mkf_flags by (rewrite seq_length; reflexivity).
  rewrite rev_app_distr. cbn [rev]. rewrite <- app_assoc. cbn [app].
  rewrite !mkf_rev by lia.
  destruct (step_rev_split n 0 (rev NA) (rev RA) (rev NB) (rev RB)) as (d1 & d2 & L & E & St);
    [rewrite !rev_length; lia|].
  rewrite St. exists d1, d2.
  rewrite rev_length in L.
  assert (L2 : length d2 = length NA).
  { apply (f_equal (@length nat)) in E. rewrite incr_length in E.
    - rewrite !app_length, !rev_length in E. lia.
    - rewrite !app_length, !rev_length. lia. }
  split; [lia|]. split; [exact E|].
  rewrite rev_app_distr. cbn [rev]. rewrite <- app_assoc. cbn [app].
  rewrite map_app. cbn [map snd]. rewrite !map_rev.
  rewrite !mkf_snd by (rewrite rev_length; lia). reflexivity.
Qed.

Lemma rots_inv_gen (A B : list (nat * nat)) (x : nat * nat) :
  Forall (fun y => 0 < snd y) (A ++ x :: B) ->
  forall r, exists RA RB,
    Nat.iter r (step_rotations (length A) (map snd (A ++ x :: B))) (map (fun _ => 0) (A ++ x :: B))
      = RA ++ 0 :: RB /\
    length RA = length A /\ RA ++ RB = rotations (A ++ B) r.
Proof.
  intros Hp.
  assert (HpAB : Forall (fun y => 0 < snd y) (A ++ B)).
  { apply Forall_app in Hp. destruct Hp as [HA HB]. apply Forall_app. split; [exact HA|].
    now inversion HB. }
  induction r as [|r IH].
  - exists (map (fun _ => 0) A), (map (fun _ => 0) B). unfold Nat.iter. cbn [nat_rect].
    split; [now rewrite map_app|]. split; [apply map_length|].
    rewrite rotations_zero by exact HpAB. now rewrite map_app.
  - destruct IH as (RA & RB & E & LA & ER).
    unfold Nat.iter in *. cbn [nat_rect]. rewrite E.
    rewrite map_app. cbn [map].
    assert (LB : length RB = length B).
    { apply (f_equal (@length nat)) in ER. rewrite rotations_length_gen, !app_length in ER. lia. }
    rewrite <- (map_length snd A).
    destruct (step_rotations_split (map snd A) (snd x) (map snd B) RA RB) as (D1 & D2 & L1 & ED & St);
      [rewrite map_length; lia | rewrite map_length; lia |].
    rewrite St. exists (rev D2), (rev D1).
    split; [reflexivity|].
    rewrite <- !rev_app_distr, <- map_app in ED.
    rewrite ER, rotations_digits, rev_involutive in ED.
    rewrite incr_digits in ED
      by (apply Forall_rev; apply Forall_map; exact HpAB).
    split.
    + apply (f_equal (@length nat)) in ED.
      rewrite digits_length, rev_length, map_length, !app_length in ED.
      rewrite map_length in L1. rewrite rev_length, map_length. lia.
    + rewrite <- rev_app_distr, ED, rotations_digits. reflexivity.
Qed.

Section MixedRadix.
Variable main : nat.
Variable xs : list (nat * nat).          (* (factor, number of levels), in declaration order *)
Hypothesis Hmain : main < length xs.
Hypothesis Hpos : Forall (fun x => 0 < snd x) xs.

Let nls : list nat := map snd xs.
Let others : list (nat * nat) := remove_nth main xs.

(** the rotations after [r] segments *)
Definition rots_at (r : nat) : list nat := Nat.iter r (step_rotations main nls) (map (fun _ => 0) xs).

Lemma rots_at_inv r : exists RA RB,
  rots_at r = RA ++ 0 :: RB /\ length RA = main /\ RA ++ RB = rotations others r.
Proof.
  destruct (split_at xs main Hmain) as (A & x & B & E & L).
  pose proof Hpos as Hp. rewrite E in Hp.
  destruct (rots_inv_gen A B x Hp r) as (RA & RB & E1 & E2 & E3).
  exists RA, RB. unfold rots_at, nls, others.
  rewrite E, <- L. rewrite remove_nth_app_mid. auto.
Qed.

Lemma others_length : length others = length xs - 1.
Proof.
  destruct (split_at xs main Hmain) as (A & x & B & E & L).
  unfold others. rewrite E, <- L, remove_nth_app_mid, !app_length. cbn [length]. lia.
Qed.

Lemma rots_at_length r : length (rots_at r) = length xs.
Proof.
  destruct (rots_at_inv r) as (RA & RB & E & L & ER).
  apply (f_equal (@length nat)) in ER.
  rewrite rotations_length_gen, others_length, app_length in ER.
  rewrite E, app_length. cbn [length]. lia.
Qed.

Lemma rots_at_main r : nth main (rots_at r) 0 = 0.
Proof.
  destruct (rots_at_inv r) as (RA & RB & E & L & ER).
  rewrite E, app_nth2 by lia. rewrite L, Nat.sub_diag. reflexivity.
Qed.

Lemma rotations_length r : length (rotations others r) = length others.
Proof using Hmain Hpos. apply rotations_length_gen. Qed.

Lemma rots_at_others r p : p < length others -> nth (unskip main p) (rots_at r) 0 = nth p (rotations others r) 0.
Proof.
  intros _. destruct (rots_at_inv r) as (RA & RB & E & L & ER).
  rewrite E, <- ER, <- L. apply nth_insert.
Qed.

End MixedRadix.

(** the indexed filter of [LatinSquare] is [remove_nth] *)
Lemma flat_map_no_main {A B} (g : A -> B) (m : nat) (l : list A) : forall s, m < s ->
  flat_map (fun ixf : nat * A => if fst ixf =? m then [] else [g (snd ixf)]) (combine (seq s (length l)) l)
  = map g l.
Proof.
  induction l as [|a l IH]; intros s H; [reflexivity|].
  cbn [length seq combine flat_map fst snd map].
  destruct (s =? m) eqn:E; [apply Nat.eqb_eq in E; lia|].
  cbn [app]. f_equal. apply IH. lia.
Qed.

Lemma flat_map_remove_nth_gen {A B} (g : A -> B) (l : list A) : forall s k,
  flat_map (fun ixf : nat * A => if fst ixf =? s + k then [] else [g (snd ixf)]) (combine (seq s (length l)) l)
  = map g (remove_nth k l).
Proof.
  induction l as [|a l IH]; intros s k.
  - destruct k; reflexivity.
  - cbn [length seq combine flat_map fst snd].
    destruct k as [|k].
    + rewrite Nat.add_0_r, Nat.eqb_refl. cbn [app].
      rewrite flat_map_no_main by lia. reflexivity.
    + destruct (s =? s + S k) eqn:E; [apply Nat.eqb_eq in E; lia|].
      rewrite remove_nth_cons. cbn [app map]. f_equal.
      rewrite <- Nat.add_succ_comm. apply IH.
Qed.

Lemma flat_map_remove_nth {A B} (g : A -> B) (main : nat) (l : list A) :
  flat_map (fun ixf : nat * A => if fst ixf =? main then [] else [g (snd ixf)]) (combine (seq 0 (length l)) l)
  = map g (remove_nth main l).
Proof. exact (flat_map_remove_nth_gen g l 0 main). Qed.

Lemma remove_nth_length {A} (k : nat) (l : list A) : k < length l -> length (remove_nth k l) = length l - 1.
Proof.
  intros H. unfold remove_nth. rewrite app_length, firstn_length, skipn_length. lia.
Qed.

Lemma remove_nth_nth {A} (k p : nat) (l : list A) (d : A) : k < length l -> p < length l - 1 ->
  nth p (remove_nth k l) d = nth (unskip k p) l d.
Proof.
  revert k p. induction l as [|a l IH]; intros k p Hk Hp; cbn [length] in *; [lia|].
  destruct k as [|k].
  - reflexivity.
  - rewrite remove_nth_cons. destruct p as [|p]; [reflexivity|].
    cbn [nth]. rewrite IH by lia.
    unfold unskip. change (S p <? S k) with (p <? k).
    destruct (p <? k); reflexivity.
Qed.

Print Assumptions rots_at_others.
Print Assumptions flat_map_remove_nth.
Print Assumptions remove_nth_nth.
Print Assumptions remove_nth_length.
