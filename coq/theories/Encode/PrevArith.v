(** Arithmetic of the trials in which a factor with a window has a level:
    the [k]-th such trial is [start + k * stride].  Proof file. *)
From Coq Require Import ZArith List Bool Arith Lia.
From SP Require Import Design.Flat Design.Layout Encode.Compile Encode.CodeSem Encode.LayoutF1.
Import ListNotations.
Close Scope Z_scope.
Open Scope nat_scope.

(** where a factor with a window and sustain 1 has a level *)
Lemma lappl_window fb f fd w t :
  factor_at fb f = Some fd -> ff_window fd = Some w -> sustain fb f = 1 ->
  lappl fb f t = (win_start w <=? t) && ((t - win_start w) mod win_stride w =? 0).
Proof.
  intros Hf Hw Hs. unfold lappl, applies_at. rewrite Hs, Nat.div_1_r.
  unfold applies_to_trial. rewrite Hf, Hw.
  replace (S t - 1 + 1) with (t + 1) by lia.
  replace (t + 1 - (win_start w + 1)) with (t - win_start w) by lia.
  f_equal.
  destruct (Nat.leb_spec (win_start w + 1) (t + 1)), (Nat.leb_spec (win_start w) t); auto; lia.
Qed.

Lemma prev_none fb f n :
  (forall t, t < n -> lappl fb f t = false) -> prev fb f n = 0.
Proof.
  induction n as [|n IH]; intros H; [apply prev_0|].
  rewrite prev_S, (H n) by lia. rewrite IH; [lia|]. intros t Ht. apply H. lia.
Qed.

Lemma window_arith_step st sd m k :
  0 < sd -> st <= m -> (m - st) mod sd = 0 -> 0 < k < sd -> (m + k - st) mod sd <> 0.
Proof.
  intros Hsd Hst Hm Hk.
  apply Nat.mod_divides in Hm; [|lia]. destruct Hm as [c Hc].
  replace (m + k - st) with (k + (m - st)) by lia.
  rewrite Hc, (Nat.mul_comm sd c), Nat.mod_add by lia.
  rewrite Nat.mod_small by lia. lia.
Qed.

Lemma window_arith_back st sd n :
  0 < sd -> st < n -> (n - st) mod sd = 0 ->
  sd <= n - st /\ (n - sd - st) mod sd = 0.
Proof.
  intros Hsd Hst Hn.
  apply Nat.mod_divides in Hn; [|lia]. destruct Hn as [c Hc].
  destruct c as [|c]; [rewrite Nat.mul_0_r in Hc; lia|].
  rewrite Nat.mul_succ_r in Hc.
  split; [lia|].
  replace (n - sd - st) with (sd * c) by lia.
  rewrite Nat.mul_comm. apply Nat.mod_mul. lia.
Qed.

Lemma prev_next fb f fd w m k :
  factor_at fb f = Some fd -> ff_window fd = Some w -> sustain fb f = 1 -> 0 < win_stride w ->
  lappl fb f m = true -> 1 <= k <= win_stride w ->
  prev fb f (m + k) = prev fb f m + 1.
Proof.
  intros Hf Hw Hs Hsd Hm. induction k as [|k IH]; intros Hk; [lia|].
  replace (m + S k) with (S (m + k)) by lia. rewrite prev_S.
  destruct (Nat.eq_dec k 0) as [->|Hk0].
  - rewrite Nat.add_0_r, Hm. reflexivity.
  - rewrite IH by lia.
    assert (Hl : lappl fb f (m + k) = false).
    { rewrite (lappl_window _ _ _ _ m Hf Hw Hs) in Hm.
      apply andb_true_iff in Hm. destruct Hm as [H1 H2].
      apply Nat.leb_le in H1. apply Nat.eqb_eq in H2.
      rewrite (lappl_window _ _ _ _ (m + k) Hf Hw Hs).
      apply andb_false_iff. right. apply Nat.eqb_neq.
      apply window_arith_step; auto; lia. }
    rewrite Hl. lia.
Qed.

(** a trial with a level is [start + (number of earlier trials with a level) * stride] *)
Lemma lappl_prev fb f fd w n :
  factor_at fb f = Some fd -> ff_window fd = Some w -> sustain fb f = 1 -> 0 < win_stride w ->
  lappl fb f n = true -> n = win_start w + prev fb f n * win_stride w.
Proof.
  intros Hf Hw Hs Hsd. induction n as [n IH] using lt_wf_ind. intros Hn.
  pose proof Hn as Hn'.
  rewrite (lappl_window _ _ _ _ n Hf Hw Hs) in Hn'.
  apply andb_true_iff in Hn'. destruct Hn' as [H1 H2].
  apply Nat.leb_le in H1. apply Nat.eqb_eq in H2.
  destruct (Nat.eq_dec n (win_start w)) as [He|Hne].
  - rewrite (prev_none fb f n); [lia|].
    intros t Ht. rewrite (lappl_window _ _ _ _ t Hf Hw Hs).
    apply andb_false_iff. left. apply Nat.leb_gt. lia.
  - destruct (window_arith_back (win_start w) (win_stride w) n) as [G1 G2]; auto; [lia|].
    assert (Hm : lappl fb f (n - win_stride w) = true).
    { rewrite (lappl_window _ _ _ _ _ Hf Hw Hs). apply andb_true_iff. split.
      - apply Nat.leb_le. lia.
      - apply Nat.eqb_eq. exact G2. }
    pose proof (IH (n - win_stride w) ltac:(lia) Hm) as E.
    pose proof (prev_next fb f fd w (n - win_stride w) (win_stride w) Hf Hw Hs Hsd Hm ltac:(lia)) as P.
    replace (n - win_stride w + win_stride w) with n in P by lia.
    rewrite P. rewrite Nat.mul_add_distr_r. lia.
Qed.

(** with stride 1 the levels exist from [start] on *)
Lemma prev_stride1 fb f fd w n :
  factor_at fb f = Some fd -> ff_window fd = Some w -> sustain fb f = 1 -> win_stride w = 1 ->
  prev fb f n = n - win_start w.
Proof.
  intros Hf Hw Hs H1. induction n as [|n IH]; [rewrite prev_0; lia|].
  rewrite prev_S, IH, (lappl_window _ _ _ _ n Hf Hw Hs), H1, Nat.mod_1_r.
  cbn [Nat.eqb]. rewrite andb_true_r.
  destruct (Nat.leb_spec (win_start w) n); lia.
Qed.

Print Assumptions lappl_window.
Print Assumptions lappl_prev.
Print Assumptions prev_stride1.
