(** The statements of Properties/C01.v, C02.v, C03.v in closed form (so that the
    property files consist of [exact lemma] only). *)
From Coq Require Import ZArith List Bool.
From SP Require Import Base.Sat Base.Bits Design.Flat Design.Sem.
From SP Require Import Encode.Compile Encode.CodeSem Encode.Generic Encode.F1Kinds Encode.F1Sem
     Encode.CompileProofs Encode.CompileCorollaries.

Lemma c01_sound :
  forall (fb : flat) (b : backend) (ok : bool) (n' : Z) (final : cnf) (t : asg),
    in_f1 fb = true -> (0 < T fb)%nat ->
    compile fb = COk b -> full_cnf b = (ok, n', final) ->
    sat t final = true ->
    exists q, onehot fb t q /\ valid_b (code_sem fb) q = true.
Proof. intros fb b ok n' final t HF1 HT Hc. exact (models_are_valid fb HF1 HT b Hc ok n' final t). Qed.

Lemma c02_complete :
  forall (fb : flat) (b : backend) (ok : bool) (n' : Z) (final : cnf) (q : tseq),
    in_f1 fb = true -> (0 < T fb)%nat ->
    compile fb = COk b -> full_cnf b = (ok, n', final) ->
    valid_b (code_sem fb) q = true ->
    exists t, sat t final = true /\ onehot fb t q.
Proof. intros fb b ok n' final q HF1 HT Hc. exact (valid_has_model fb HF1 HT b Hc ok n' final q). Qed.

Lemma c02_once :
  forall (fb : flat) (b : backend) (ok : bool) (n' : Z) (final : cnf) (q : tseq) (t1 t2 : asg),
    in_f1 fb = true -> (0 < T fb)%nat ->
    compile fb = COk b -> full_cnf b = (ok, n', final) ->
    sat t1 final = true -> sat t2 final = true -> onehot fb t1 q -> onehot fb t2 q ->
    agree_upto n' t1 t2.
Proof. intros fb b ok n' final q t1 t2 HF1 HT Hc. exact (one_model_per_sequence fb HF1 HT b Hc ok n' final q t1 t2). Qed.

Lemma c03_unique_extension :
  forall (fb : flat) (b : backend) (ok : bool) (n' : Z) (final : cnf) (t1 t2 : asg),
    in_f1 fb = true -> (0 < T fb)%nat ->
    compile fb = COk b -> full_cnf b = (ok, n', final) ->
    agree_upto (GZ fb) t1 t2 -> sat t1 final = true -> sat t2 final = true ->
    agree_upto n' t1 t2.
Proof. intros fb b ok n' final t1 t2 HF1 HT Hc. exact (unique_extension fb HF1 HT b Hc ok n' final t1 t2). Qed.

Lemma c03_vars_contiguous :
  forall (fb : flat) (b : backend) (ok : bool) (n' : Z) (final : cnf),
    in_f1 fb = true -> (0 < T fb)%nat ->
    compile fb = COk b -> full_cnf b = (ok, n', final) ->
    ok = true /\ vars_upto n' final /\
    forall t v, (GZ fb < v <= n')%Z -> sat t final = true -> sat (upd t v (negb (t v))) final = false.
Proof. intros fb b ok n' final HF1 HT Hc. exact (vars_contiguous fb HF1 HT b Hc ok n' final). Qed.

Lemma c03_cardinality_unique :
  forall (b : backend) (n' : Z) (final : cnf),
    (1 <= b_fresh b)%Z ->
    Forall (req_ok (b_fresh b - 1)) (b_requests b) ->
    vars_upto (b_fresh b - 1) (b_clauses b) ->
    full_cnf b = (true, n', final) ->
    vars_upto n' final /\
    forall t1 t2, agree_upto (b_fresh b - 1) t1 t2 ->
      sat t1 final = true -> sat t2 final = true -> agree_upto n' t1 t2.
Proof.
  intros b n' final Hf Hok Hv E.
  destruct (full_cnf_denotes b Hf Hok Hv) as (n1 & f1 & E1 & _ & V & _ & U).
  rewrite E in E1. inversion E1. subst. split; assumption.
Qed.

Lemma c03_support : forall fb, in_f1 fb = true -> GZ fb = zn (Design.Layout.variables_per_sample fb).
Proof. intros fb HF1. unfold GZ. now rewrite (Encode.LayoutF1.f1_vps fb HF1). Qed.

Lemma ex_stroop_facts :
  in_f1 ex_stroop = true /\ (0 < T ex_stroop)%nat /\
  (exists b, compile ex_stroop = COk b) /\ length (all_valid (code_sem ex_stroop)) = 6%nat.
Proof.
  split; [exact (proj1 ex_stroop_in_f1)|]. split; [exact (proj2 ex_stroop_in_f1)|].
  split; [destruct ex_stroop_compiles as (b & E & _); now exists b|exact ex_stroop_valid_count].
Qed.
