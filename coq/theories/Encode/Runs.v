(** Pure list lemmas connecting the boolean predicates that the SAT encoding
    imposes on the per-trial variables of one level (windows of consecutive
    variables, cardinalities) with the documented meaning on the trial
    sequence (maximal runs, occurrence counts) of [Design.Sem].

    Everything holds for every [k] and every list length. *)
From Coq Require Import ZArith List Bool Lia Arith.
From SP Require Import Design.Sem Encode.Compile.
Import ListNotations.
Close Scope Z_scope.
Open Scope nat_scope.

(** * Definitions *)

(** maximal runs of [true] *)
Fixpoint bruns_aux (bs : list bool) (cur : nat) : list nat :=
  match bs with
  | [] => if cur =? 0 then [] else [cur]
  | b :: r => if b then bruns_aux r (S cur)
              else if cur =? 0 then bruns_aux r 0 else cur :: bruns_aux r 0
  end.
Definition bruns (bs : list bool) : list nat := bruns_aux bs 0.
Definition ntrue (bs : list bool) : nat := length (filter (fun b => b) bs).
Definition is_level (l : nat) (c : cell) : bool := cell_eqb c (Some l).

(** number of leading [true]s *)
Fixpoint lead (bs : list bool) : nat :=
  match bs with
  | true :: r => S (lead r)
  | _ => 0
  end.

(** * 1. The reference semantics is the boolean view of the [is_level] row *)

Lemma runs_aux_bruns_aux : forall l cells cur,
  runs_aux l cells cur = bruns_aux (map (is_level l) cells) cur.
Proof.
  intros l cells. induction cells as [|c r IH]; intro cur; simpl.
  - reflexivity.
  - unfold is_level at 1. destruct (cell_eqb c (Some l)).
    + apply IH.
    + destruct (cur =? 0); [apply IH | f_equal; apply IH].
Qed.

Theorem runs_bruns : forall l cells,
  Sem.runs l cells = bruns (map (is_level l) cells).
Proof. intros l cells. apply runs_aux_bruns_aux. Qed.

Theorem count_level_ntrue : forall l cells,
  Sem.count_level l cells = ntrue (map (is_level l) cells).
Proof.
  intros l cells. unfold Sem.count_level, ntrue.
  induction cells as [|c r IH]; simpl.
  - reflexivity.
  - unfold is_level at 1. destruct (cell_eqb c (Some l)); simpl; rewrite IH; reflexivity.
Qed.

(** * 4. [ntrue] *)

Lemma ntrue_nil : ntrue [] = 0.
Proof. reflexivity. Qed.

Lemma ntrue_cons : forall b bs, ntrue (b :: bs) = (if b then 1 else 0) + ntrue bs.
Proof. intros [|] bs; reflexivity. Qed.

Lemma ntrue_app : forall a b, ntrue (a ++ b) = ntrue a + ntrue b.
Proof.
  intros a b. unfold ntrue. rewrite filter_app, app_length. reflexivity.
Qed.

Lemma ntrue_le_length : forall bs, ntrue bs <= length bs.
Proof.
  induction bs as [|b r IH].
  - apply Nat.le_refl.
  - rewrite ntrue_cons. simpl length. destruct b; lia.
Qed.

Lemma ntrue_repeat_true : forall n, ntrue (repeat true n) = n.
Proof.
  induction n as [|n IH]; [reflexivity|].
  simpl repeat. rewrite ntrue_cons, IH. reflexivity.
Qed.

Lemma ntrue_repeat_false : forall n, ntrue (repeat false n) = 0.
Proof.
  induction n as [|n IH]; [reflexivity|].
  simpl repeat. rewrite ntrue_cons, IH. reflexivity.
Qed.

Lemma ntrue_map_filter : forall A (f : A -> bool) (l : list A),
  ntrue (map f l) = length (filter f l).
Proof.
  intros A f l. induction l as [|a r IH]; [reflexivity|].
  simpl map. rewrite ntrue_cons, IH. simpl filter.
  destruct (f a); reflexivity.
Qed.

Lemma ntrue_firstn_le : forall n bs, ntrue (firstn n bs) <= n.
Proof.
  intros n bs. pose proof (ntrue_le_length (firstn n bs)) as H1.
  pose proof (firstn_le_length n bs) as H2. lia.
Qed.

Theorem ntrue_all_false : forall bs,
  ntrue bs = 0 <-> Forall (fun b => b = false) bs.
Proof.
  induction bs as [|b r IH].
  - split; intro H; [constructor | reflexivity].
  - rewrite ntrue_cons, Forall_cons_iff, <- IH. destruct b; split.
    + intro H. discriminate H.
    + intros [H _]. discriminate H.
    + intro H. split; [reflexivity | exact H].
    + intros [_ H]. exact H.
Qed.

Lemma all_false_nth : forall bs,
  Forall (fun b => b = false) bs <-> forall j, j < length bs -> nth j bs false = false.
Proof.
  induction bs as [|b r IH].
  - split; intro H; [|constructor]. intros j Hj. simpl in Hj. lia.
  - rewrite Forall_cons_iff, IH. split.
    + intros [Hb Hr] [|j] Hj; simpl; [exact Hb|]. apply Hr. simpl in Hj. lia.
    + intro H. split.
      * apply (H 0). simpl. lia.
      * intros j Hj. apply (H (S j)). simpl. lia.
Qed.

(** ntrue w < length w  iff  some position of w is off *)
Lemma ntrue_lt_length : forall bs,
  ntrue bs < length bs <-> exists j, j < length bs /\ nth j bs false = false.
Proof.
  induction bs as [|b r IH].
  - simpl. split; [lia | intros [j [Hj _]]; lia].
  - rewrite ntrue_cons. simpl length. destruct b.
    + split.
      * intro H. assert (Hr : ntrue r < length r) by lia.
        apply IH in Hr. destruct Hr as [j [Hj Hn]].
        exists (S j). split; [lia | exact Hn].
      * intros [[|j] [Hj Hn]]; simpl in Hn; [discriminate Hn|].
        assert (Hr : ntrue r < length r) by (apply IH; exists j; split; [lia | exact Hn]).
        lia.
    + split.
      * intros _. exists 0. split; [lia | reflexivity].
      * intros _. pose proof (ntrue_le_length r). lia.
Qed.

(** * 5. One-hot *)

Theorem ntrue_one : forall bs,
  ntrue bs = 1 <->
  exists i, i < length bs /\ forall j, j < length bs -> nth j bs false = (j =? i).
Proof.
  induction bs as [|b r IH].
  - simpl. split; [intro H; discriminate H | intros [i [Hi _]]; lia].
  - rewrite ntrue_cons. destruct b.
    + split.
      * intro H. assert (H0 : ntrue r = 0) by lia.
        apply ntrue_all_false in H0. rewrite all_false_nth in H0.
        exists 0. split; [simpl; lia|].
        intros [|j] Hj; simpl; [reflexivity|]. apply H0. simpl in Hj. lia.
      * intros [i [Hi Hall]].
        assert (Hi0 : i = 0).
        { specialize (Hall 0). simpl in Hall.
          destruct i; [reflexivity|]. assert (Hf : true = false) by (apply Hall; lia).
          discriminate Hf. }
        subst i.
        assert (H0 : ntrue r = 0).
        { apply ntrue_all_false. rewrite all_false_nth. intros j Hj.
          specialize (Hall (S j)). simpl in Hall. apply Hall. lia. }
        lia.
    + simpl plus. rewrite IH. split.
      * intros [i [Hi Hall]]. exists (S i). split; [simpl; lia|].
        intros [|j] Hj; simpl; [reflexivity|]. apply Hall. simpl in Hj. lia.
      * intros [i [Hi Hall]]. destruct i as [|i].
        { specialize (Hall 0). simpl in Hall.
          assert (Hf : false = true) by (apply Hall; lia). discriminate Hf. }
        exists i. split; [simpl in Hi; lia|].
        intros j Hj. specialize (Hall (S j)). simpl in Hall. apply Hall. lia.
Qed.

(** * 2. [windows] *)

Lemma windows_cons : forall A L (a : A) (r : list A),
  windows L (a :: r) =
  (if L <=? length (a :: r) then [firstn L (a :: r)] else []) ++ windows L r.
Proof.
  intros A L a r. cbn [windows]. cbv zeta. f_equal.
  rewrite firstn_length.
  destruct (L <=? length (a :: r)) eqn:E.
  - apply Nat.leb_le in E. rewrite Nat.min_l by exact E. rewrite Nat.eqb_refl. reflexivity.
  - apply Nat.leb_gt in E. rewrite Nat.min_r by lia.
    destruct (length (a :: r) =? L) eqn:E2; [|reflexivity].
    apply Nat.eqb_eq in E2. lia.
Qed.

(** True for every [L], including [L = 0], where [windows 0 l] is [length l]
    copies of the empty list. *)
Theorem windows_spec : forall A L (l w : list A),
  In w (windows L l) <->
  exists i, i + L <= length l /\ i < length l /\ w = firstn L (skipn i l).
Proof.
  intros A L l w. induction l as [|a r IH].
  - simpl. split; [intros [] | intros [i [_ [Hi _]]]; lia].
  - rewrite windows_cons, in_app_iff, IH. split.
    + intros [H | [i [H1 [H2 H3]]]].
      * destruct (L <=? length (a :: r)) eqn:E; [|destruct H].
        apply Nat.leb_le in E. destruct H as [H | []].
        exists 0. split; [lia|]. split; [simpl; lia|]. symmetry. exact H.
      * exists (S i). simpl length. split; [lia|]. split; [lia|]. exact H3.
    + intros [[|i] [H1 [H2 H3]]].
      * left. assert (E : L <=? length (a :: r) = true) by (apply Nat.leb_le; lia).
        rewrite E. left. symmetry. exact H3.
      * right. exists i. simpl length in H1, H2. split; [lia|]. split; [lia|]. exact H3.
Qed.

Theorem windows_map : forall A B (f : A -> B) L l,
  windows L (map f l) = map (map f) (windows L l).
Proof.
  intros A B f L l. induction l as [|a r IH]; [reflexivity|].
  change (map f (a :: r)) with (f a :: map f r).
  rewrite !windows_cons, map_app, <- IH. f_equal.
  simpl length. rewrite map_length.
  destruct (L <=? S (length r)); [|reflexivity].
  simpl map at 2. rewrite <- firstn_map. reflexivity.
Qed.

Theorem windows_length : forall A L (l w : list A),
  In w (windows L l) -> length w = L.
Proof.
  intros A L l w H. apply windows_spec in H. destruct H as [i [H1 [H2 H3]]].
  subst w. rewrite firstn_length, skipn_length. lia.
Qed.

Lemma windows_short : forall A L (l : list A), length l < L -> windows L l = [].
Proof.
  intros A L l. induction l as [|a r IH]; intro H; [reflexivity|].
  rewrite windows_cons.
  assert (E : L <=? length (a :: r) = false) by (apply Nat.leb_gt; exact H).
  rewrite E. simpl. apply IH. simpl in H. lia.
Qed.

Lemma windows_count : forall A L (l : list A),
  0 < L -> length (windows L l) = S (length l) - L.
Proof.
  intros A L l HL. induction l as [|a r IH].
  - cbn [windows length]. lia.
  - rewrite windows_cons, app_length, IH. simpl length.
    destruct (L <=? S (length r)) eqn:E.
    + apply Nat.leb_le in E. cbn [length]. lia.
    + apply Nat.leb_gt in E. cbn [length]. lia.
Qed.

(** * 6. Basic facts about [bruns] *)

Lemma repeat_true_snoc : forall n (l : list bool),
  repeat true n ++ true :: l = repeat true (S n) ++ l.
Proof.
  induction n as [|n IH]; intro l; [reflexivity|].
  simpl. f_equal. apply IH.
Qed.

Lemma bruns_aux_repeat : forall bs cur, bruns_aux bs cur = bruns (repeat true cur ++ bs).
Proof.
  intros bs cur. unfold bruns.
  assert (G : forall n c, bruns_aux (repeat true n ++ bs) c = bruns_aux bs (n + c)).
  { induction n as [|n IH]; intro c; [reflexivity|].
    simpl. rewrite IH. f_equal. lia. }
  rewrite G. f_equal. lia.
Qed.

Lemma bruns_aux_positive : forall bs cur, Forall (fun n => 0 < n) (bruns_aux bs cur).
Proof.
  induction bs as [|b r IH]; intro cur; simpl.
  - destruct (cur =? 0) eqn:E; constructor; [|constructor].
    apply Nat.eqb_neq in E. lia.
  - destruct b; [apply IH|].
    destruct (cur =? 0) eqn:E; [apply IH|].
    constructor; [|apply IH]. apply Nat.eqb_neq in E. lia.
Qed.

Theorem bruns_positive : forall bs, Forall (fun n => 0 < n) (bruns bs).
Proof. intro bs. apply bruns_aux_positive. Qed.

Lemma bruns_aux_sum : forall bs cur, list_sum (bruns_aux bs cur) = cur + ntrue bs.
Proof.
  induction bs as [|b r IH]; intro cur.
  - simpl. destruct (cur =? 0) eqn:E; simpl.
    + apply Nat.eqb_eq in E. rewrite ntrue_nil. lia.
    + rewrite ntrue_nil. lia.
  - rewrite ntrue_cons. simpl bruns_aux. destruct b.
    + rewrite IH. lia.
    + destruct (cur =? 0) eqn:E.
      * apply Nat.eqb_eq in E. rewrite IH. lia.
      * simpl list_sum. rewrite IH. lia.
Qed.

(** the runs partition the on-trials *)
Theorem bruns_sum : forall bs, list_sum (bruns bs) = ntrue bs.
Proof. intro bs. apply bruns_aux_sum. Qed.

Lemma bruns_aux_le_length : forall bs cur,
  Forall (fun n => n <= cur + length bs) (bruns_aux bs cur).
Proof.
  induction bs as [|b r IH]; intro cur; simpl.
  - destruct (cur =? 0); constructor; [lia | constructor].
  - destruct b.
    + eapply Forall_impl; [|apply IH]. simpl. intros n Hn. lia.
    + assert (H0 : Forall (fun n => n <= cur + S (length r)) (bruns_aux r 0)).
      { eapply Forall_impl; [|apply IH]. simpl. intros n Hn. lia. }
      destruct (cur =? 0); [exact H0|]. constructor; [lia | exact H0].
Qed.

Theorem bruns_all_le_length : forall bs, Forall (fun n => n <= length bs) (bruns bs).
Proof. intro bs. apply (bruns_aux_le_length bs 0). Qed.

Lemma bruns_aux_nil_iff : forall bs cur,
  bruns_aux bs cur = [] <-> cur = 0 /\ Forall (fun b => b = false) bs.
Proof.
  induction bs as [|b r IH]; intro cur; simpl.
  - destruct (cur =? 0) eqn:E.
    + apply Nat.eqb_eq in E. split; [intros _; split; [exact E | constructor] | reflexivity].
    + apply Nat.eqb_neq in E. split; [intro H; discriminate H | intros [H _]; contradiction].
  - rewrite Forall_cons_iff. destruct b.
    + rewrite IH. split.
      * intros [H _]. discriminate H.
      * intros [_ [H _]]. discriminate H.
    + destruct (cur =? 0) eqn:E.
      * apply Nat.eqb_eq in E. rewrite IH. split.
        { intros [_ H]. split; [exact E|]. split; [reflexivity | exact H]. }
        { intros [_ [_ H]]. split; [reflexivity | exact H]. }
      * apply Nat.eqb_neq in E. split; [intro H; discriminate H | intros [H _]; contradiction].
Qed.

Theorem bruns_nil_iff : forall bs, bruns bs = [] <-> Forall (fun b => b = false) bs.
Proof.
  intro bs. unfold bruns. rewrite bruns_aux_nil_iff. split.
  - intros [_ H]. exact H.
  - intro H. split; [reflexivity | exact H].
Qed.

(** * 3. AtMostKInARow *)

(** "no window of k+1 consecutive positions is entirely on" *)
Definition nowin (k : nat) (l : list bool) : Prop :=
  forall w, In w (windows (S k) l) -> ntrue w < S k.

Lemma nowin_nil : forall k, nowin k [] <-> True.
Proof. intro k. split; [trivial|]. intros _ w H. destruct H. Qed.

Lemma nowin_cons : forall k a r,
  nowin k (a :: r) <->
  (S k <= length (a :: r) -> ntrue (firstn (S k) (a :: r)) < S k) /\ nowin k r.
Proof.
  intros k a r. unfold nowin. split.
  - intro H. split.
    + intro Hlen. apply H. rewrite windows_cons. apply in_or_app. left.
      assert (E : S k <=? length (a :: r) = true) by (apply Nat.leb_le; exact Hlen).
      rewrite E. left. reflexivity.
    + intros w Hw. apply H. rewrite windows_cons. apply in_or_app. right. exact Hw.
  - intros [H1 H2] w Hw. rewrite windows_cons in Hw. apply in_app_or in Hw.
    destruct Hw as [Hw | Hw]; [|apply H2; exact Hw].
    destruct (S k <=? length (a :: r)) eqn:E; [|destruct Hw].
    apply Nat.leb_le in E. destruct Hw as [Hw | []]. subst w. apply H1. exact E.
Qed.

Lemma firstn_repeat : forall A (a : A) n m, firstn n (repeat a m) = repeat a (Nat.min n m).
Proof.
  intros A a. induction n as [|n IH]; intros [|m]; simpl; try reflexivity.
  f_equal. apply IH.
Qed.

(** only on-trials: fine iff fewer than k+1 of them *)
Lemma nowin_repeat : forall k cur, nowin k (repeat true cur) <-> cur <= k.
Proof.
  intros k. induction cur as [|cur IH].
  - simpl. rewrite nowin_nil. split; [lia | trivial].
  - change (repeat true (S cur)) with (true :: repeat true cur).
    rewrite nowin_cons, IH.
    change (true :: repeat true cur) with (repeat true (S cur)).
    rewrite firstn_repeat, ntrue_repeat_true, repeat_length. split.
    + intros [H1 H2]. destruct (Nat.le_gt_cases (S k) (S cur)) as [Hc | Hc]; [|lia].
      specialize (H1 Hc). lia.
    + intro H. split; [|lia]. intro Hc. lia.
Qed.

(** a run of [cur] on-trials followed by an off-trial *)
Lemma nowin_repeat_false : forall k r cur,
  nowin k (repeat true cur ++ false :: r) <-> cur <= k /\ nowin k r.
Proof.
  intros k r. induction cur as [|cur IH].
  - simpl app. rewrite nowin_cons. split.
    + intros [_ H]. split; [lia | exact H].
    + intros [_ H]. split; [|exact H]. intros _.
      cbn [firstn]. rewrite ntrue_cons. pose proof (ntrue_firstn_le k r). simpl. lia.
  - change (repeat true (S cur) ++ false :: r) with (true :: (repeat true cur ++ false :: r)).
    rewrite nowin_cons, IH.
    change (true :: (repeat true cur ++ false :: r)) with (repeat true (S cur) ++ false :: r).
    rewrite firstn_app, repeat_length, ntrue_app, firstn_repeat, ntrue_repeat_true, app_length,
      repeat_length.
    simpl length. split.
    + intros [H1 [H2 H3]]. split; [|exact H3].
      destruct (Nat.eq_dec cur k) as [Hk | Hk]; [|lia]. exfalso.
      assert (Hlen : S k <= S cur + S (length r)) by lia. specialize (H1 Hlen).
      rewrite Nat.min_l in H1 by lia. lia.
    + intros [H1 H2]. split; [|split; [lia | exact H2]]. intros _.
      rewrite Nat.min_r by lia.
      replace (S k - S cur) with (S (k - S cur)) by lia. cbn [firstn].
      rewrite ntrue_cons. pose proof (ntrue_firstn_le (k - S cur) r). simpl. lia.
Qed.

Lemma atmost_aux : forall k bs cur,
  nowin k (repeat true cur ++ bs) <-> Forall (fun n => n <= k) (bruns_aux bs cur).
Proof.
  intros k. induction bs as [|b r IH]; intro cur.
  - rewrite app_nil_r, nowin_repeat. simpl. destruct (cur =? 0) eqn:E.
    + apply Nat.eqb_eq in E. split; [constructor | lia].
    + split.
      * intro H. constructor; [exact H | constructor].
      * intro H. inversion H; assumption.
  - destruct b.
    + rewrite repeat_true_snoc. simpl bruns_aux. apply IH.
    + rewrite nowin_repeat_false. simpl bruns_aux.
      specialize (IH 0). simpl app in IH. rewrite IH.
      destruct (cur =? 0) eqn:E.
      * apply Nat.eqb_eq in E. split; [intros [_ H]; exact H | intro H; split; [lia | exact H]].
      * rewrite Forall_cons_iff. reflexivity.
Qed.

(** AtMostKInARow: "no window of k+1 consecutive trials is entirely on" iff
    "every maximal run has length at most k". *)
Theorem atmost_windows_runs : forall k bs,
  (forall w, In w (windows (S k) bs) -> ntrue w < S k) <->
  Forall (fun n => n <= k) (bruns bs).
Proof. intros k bs. apply (atmost_aux k bs 0). Qed.

Lemma nth_skipn_add : forall A i j (l : list A) d, nth j (skipn i l) d = nth (i + j) l d.
Proof.
  intros A. induction i as [|i IHi]; intros j l d; [reflexivity|].
  destruct l as [|a l]; [destruct j; reflexivity|]. simpl. apply IHi.
Qed.

Lemma nth_firstn_lt : forall A n j (l : list A) d, j < n -> nth j (firstn n l) d = nth j l d.
Proof.
  intros A. induction n as [|n IHn]; intros j l d Hj; [lia|].
  destruct l as [|a l]; [reflexivity|].
  destruct j as [|j]; [reflexivity|]. simpl. apply IHn. lia.
Qed.

(** the same with the window predicate spelled out per position *)
Corollary atmost_index_runs : forall k bs,
  (forall i, i + S k <= length bs ->
     exists j, j < S k /\ nth (i + j) bs false = false) <->
  Forall (fun n => n <= k) (bruns bs).
Proof.
  intros k bs. rewrite <- atmost_windows_runs.
  split.
  - intros H w Hw. pose proof (windows_length _ _ _ _ Hw) as Hlen.
    apply windows_spec in Hw. destruct Hw as [i [H1 [H2 H3]]].
    destruct (H i H1) as [j [Hj Hn]].
    assert (G : ntrue w < length w); [|rewrite Hlen in G; exact G].
    apply ntrue_lt_length. exists j. split; [lia|].
    subst w. rewrite nth_firstn_lt by exact Hj. rewrite nth_skipn_add. exact Hn.
  - intros H i Hi.
    assert (Hw : In (firstn (S k) (skipn i bs)) (windows (S k) bs)).
    { apply windows_spec. exists i. split; [exact Hi|]. split; [lia | reflexivity]. }
    pose proof (windows_length _ _ _ _ Hw) as Hlen.
    specialize (H _ Hw).
    assert (G : ntrue (firstn (S k) (skipn i bs)) < length (firstn (S k) (skipn i bs)))
      by (rewrite Hlen; exact H).
    apply ntrue_lt_length in G.
    destruct G as [j [Hj Hn]]. rewrite Hlen in Hj. exists j. split; [exact Hj|].
    rewrite nth_firstn_lt in Hn by exact Hj. rewrite nth_skipn_add in Hn. exact Hn.
Qed.

(** * Stretch: runs described by their start positions *)

(** structural form: at every run start, [P] holds of the number of on-trials
    from there on; [prev] is the element in front of the list *)
Fixpoint starts_ok (P : nat -> Prop) (prev : bool) (bs : list bool) : Prop :=
  match bs with
  | [] => True
  | b :: r => (b = true -> prev = false -> P (lead (b :: r))) /\ starts_ok P b r
  end.

Lemma starts_ok_runs : forall (P : nat -> Prop) bs,
  (forall cur, Forall P (bruns_aux bs (S cur)) <->
               P (S cur + lead bs) /\ starts_ok P true bs) /\
  (Forall P (bruns_aux bs 0) <-> starts_ok P false bs).
Proof.
  intros P. induction bs as [|b r [IH1 IH0]].
  - split.
    + intro cur. simpl. rewrite Nat.add_0_r. split.
      * intro H. inversion H; subst. split; [assumption | trivial].
      * intros [H _]. constructor; [exact H | constructor].
    + simpl. split; [trivial | constructor].
  - destruct b.
    + split.
      * intro cur. simpl bruns_aux. rewrite IH1. cbn [starts_ok lead].
        replace (S (S cur) + lead r) with (S cur + S (lead r)) by lia.
        split.
        -- intros [H1 H2]. split; [exact H1|].
           split; [intros _ Hf; discriminate Hf | exact H2].
        -- intros [H1 [_ H2]]. split; assumption.
      * simpl bruns_aux. rewrite IH1. cbn [starts_ok lead].
        change (1 + lead r) with (S (lead r)). split.
        -- intros [H1 H2]. split; [intros _ _; exact H1 | exact H2].
        -- intros [H1 H2]. split; [apply H1; reflexivity | exact H2].
    + split.
      * intro cur. simpl bruns_aux. rewrite Forall_cons_iff, IH0. cbn [starts_ok lead].
        rewrite Nat.add_0_r. split.
        -- intros [H1 H2]. split; [exact H1|].
           split; [intro Hf; discriminate Hf | exact H2].
        -- intros [H1 [_ H2]]. split; assumption.
      * simpl bruns_aux. rewrite IH0. cbn [starts_ok]. split.
        -- intro H. split; [intro Hf; discriminate Hf | exact H].
        -- intros [_ H]. exact H.
Qed.

Lemma starts_ok_index : forall (P : nat -> Prop) bs prev,
  starts_ok P prev bs <->
  forall i, i < length bs -> nth i bs false = true -> nth i (prev :: bs) false = false ->
            P (lead (skipn i bs)).
Proof.
  intros P. induction bs as [|b r IH]; intro prev.
  - simpl. split; [intros _ i Hi; lia | trivial].
  - cbn [starts_ok]. rewrite IH. split.
    + intros [H0 HS] [|i] Hi Hn Hp.
      * simpl in Hn, Hp. simpl skipn. apply H0; assumption.
      * simpl in Hi. apply HS; [lia | exact Hn | exact Hp].
    + intro H. split.
      * intros Hb Hp. apply (H 0); simpl; [lia | exact Hb | exact Hp].
      * intros i Hi Hn Hp. apply (H (S i)); [simpl; lia | exact Hn | exact Hp].
Qed.

Lemma start_cond : forall i bs,
  nth i (false :: bs) false = false <-> (i = 0 \/ nth (i - 1) bs false = false).
Proof.
  intros [|i] bs.
  - simpl. split; [intros _; left; reflexivity | intros _; reflexivity].
  - replace (S i - 1) with i by lia. simpl nth. split.
    + intro H. right. exact H.
    + intros [H | H]; [discriminate H | exact H].
Qed.

(** General form: a predicate holds of every maximal run iff it holds, at
    every run start (an on-trial that is first or preceded by an off-trial),
    of the number of consecutive on-trials from there. *)
Theorem runs_starts_spec : forall (P : nat -> Prop) bs,
  Forall P (bruns bs) <->
  forall i, i < length bs -> nth i bs false = true ->
            (i = 0 \/ nth (i - 1) bs false = false) ->
            P (lead (skipn i bs)).
Proof.
  intros P bs. unfold bruns.
  destruct (starts_ok_runs P bs) as [_ H0]. rewrite H0, starts_ok_index.
  split; intros H i Hi Hn Hs; apply H; try assumption; apply start_cond; assumption.
Qed.

Lemma lead_ge_iff : forall l k,
  k <= lead l <-> k <= length l /\ forall j, j < k -> nth j l false = true.
Proof.
  induction l as [|b r IH]; intro k.
  - simpl. split.
    + intro H. split; [exact H|]. intros j Hj. lia.
    + intros [H _]. exact H.
  - destruct k as [|k].
    { split; [intros _; split; [lia | intros j Hj; lia] | intros _; lia]. }
    destruct b; cbn [lead length].
    + split.
      * intro H. assert (H' : k <= lead r) by lia. apply IH in H'.
        destruct H' as [H1 H2]. split; [lia|].
        intros [|j] Hj; simpl; [reflexivity | apply H2; lia].
      * intros [H1 H2]. assert (H' : k <= lead r).
        { apply IH. split; [lia|]. intros j Hj. apply (H2 (S j)). lia. }
        lia.
    + split; [intro H; lia|]. intros [_ H2].
      assert (Hf : nth 0 (false :: r) false = true) by (apply H2; lia).
      simpl in Hf. discriminate Hf.
Qed.

Lemma lead_ge_at : forall bs i k, i < length bs ->
  (k <= lead (skipn i bs) <->
   i + k <= length bs /\ forall j, j < k -> nth (i + j) bs false = true).
Proof.
  intros bs i k Hi. rewrite lead_ge_iff, skipn_length. split; intros [H1 H2].
  - split; [lia|]. intros j Hj. rewrite <- nth_skipn_add. apply H2. exact Hj.
  - split; [lia|]. intros j Hj. rewrite nth_skipn_add. apply H2. exact Hj.
Qed.

Lemma lead_eq_iff : forall l k,
  lead l = k <-> k <= lead l /\ nth k l false = false.
Proof.
  induction l as [|b r IH]; intro k.
  - cbn [lead]. split.
    + intro H. subst k. split; [lia | reflexivity].
    + intros [H _]. lia.
  - destruct b; cbn [lead].
    + destruct k as [|k].
      * split; [intro H; discriminate H | intros [_ H]; simpl in H; discriminate H].
      * split.
        -- intro H. assert (H' : lead r = k) by lia. apply IH in H'.
           destruct H' as [H1 H2]. split; [lia | exact H2].
        -- intros [H1 H2]. assert (H' : lead r = k).
           { apply IH. split; [lia | exact H2]. }
           lia.
    + split.
      * intro H. subst k. split; [lia | reflexivity].
      * intros [H _]. lia.
Qed.

(** S1 (no side condition on [k] needed) *)
Theorem atleast_runs_spec0 : forall k bs,
  Forall (fun n => k <= n) (bruns bs) <->
  forall i, i < length bs -> nth i bs false = true ->
            (i = 0 \/ nth (i - 1) bs false = false) ->
            (i + k <= length bs /\ forall j, j < k -> nth (i + j) bs false = true).
Proof.
  intros k bs. rewrite (runs_starts_spec (fun n => k <= n)).
  split; intros H i Hi Hn Hs.
  - apply lead_ge_at; [exact Hi|]. apply H; assumption.
  - apply lead_ge_at; [exact Hi|]. apply H; assumption.
Qed.

(** S1: every maximal run has length at least k iff every run start is
    followed by k on-trials inside the list. *)
Theorem atleast_runs_spec : forall k bs, 0 < k ->
  (Forall (fun n => k <= n) (bruns bs) <->
   forall i, i < length bs -> nth i bs false = true ->
             (i = 0 \/ nth (i - 1) bs false = false) ->
             (i + k <= length bs /\ forall j, j < k -> nth (i + j) bs false = true)).
Proof. intros k bs _. apply atleast_runs_spec0. Qed.

(** S2: every maximal run has length exactly k. *)
Theorem exact_runs_spec : forall k bs, 0 < k ->
  (Forall (fun n => n = k) (bruns bs) <->
   (forall i, i < length bs -> nth i bs false = true ->
              (i = 0 \/ nth (i - 1) bs false = false) ->
              (i + k <= length bs /\ forall j, j < k -> nth (i + j) bs false = true)) /\
   (forall i, i + k < length bs ->
              (forall j, j < k -> nth (i + j) bs false = true) ->
              (i = 0 \/ nth (i - 1) bs false = false) ->
              nth (i + k) bs false = false)).
Proof.
  intros k bs Hk. rewrite (runs_starts_spec (fun n => n = k)). split.
  - intro H. split.
    + intros i Hi Hn Hs. apply lead_ge_at; [exact Hi|].
      pose proof (H i Hi Hn Hs) as E. lia.
    + intros i Hi Hall Hs. assert (Hi' : i < length bs) by lia.
      pose proof (Hall 0 Hk) as Hn. rewrite Nat.add_0_r in Hn.
      pose proof (H i Hi' Hn Hs) as E. apply lead_eq_iff in E.
      destruct E as [_ E]. rewrite nth_skipn_add in E. exact E.
  - intros [H1 H2] i Hi Hn Hs. apply lead_eq_iff.
    destruct (H1 i Hi Hn Hs) as [H1a H1b]. split.
    + apply lead_ge_at; [exact Hi|]. split; assumption.
    + rewrite nth_skipn_add.
      destruct (Nat.lt_ge_cases (i + k) (length bs)) as [Hlt | Hge].
      * apply H2; [exact Hlt | exact H1b | exact Hs].
      * apply nth_overflow. exact Hge.
Qed.

Print Assumptions atleast_runs_spec.
Print Assumptions exact_runs_spec.
Print Assumptions atmost_windows_runs.
