(** C07 on the intersection of the two proved fragments: the sequences the
    SAT pipeline can return (decodings of models of the compiled formula,
    Encode/CompileCorollaries.v) are exactly the candidates RandomGen accepts
    (Random/Frag0Thms.v) - both are the sequences valid for [code_sem fb]. *)
From Coq Require Import ZArith List Bool Arith Lia.
From SP Require Import Base.Sat Design.Flat Design.Layout Design.Sem.
From SP Require Import Encode.Compile Encode.CodeSem Encode.LayoutF1 Encode.F1Kinds Encode.F1Sem
     Encode.CompileProofs Encode.CompileCorollaries Encode.Totality.
From SP Require Import Random.Enum Random.Frag Random.FragSem Random.Frag0Thms.
Import ListNotations.
Close Scope Z_scope.
Open Scope nat_scope.

(** a one-hot grid is the image of one sequence only *)
Lemma onehot_unique fb s q q' : onehot fb s q -> onehot fb s q' -> q = q'.
Proof.
  intros (L & R & C & B & I & N) (L' & R' & C' & B' & I' & N').
  apply (nth_ext q q' [] []); [congruence|]. intros f Hf. rewrite L in Hf.
  apply (nth_ext (nth f q []) (nth f q' []) None None).
  - rewrite (R f Hf), (R' f Hf). reflexivity.
  - intros t Ht. rewrite (R f Hf) in Ht.
    change (get_cell q f t = get_cell q' f t).
    destruct (isact fb f) eqn:Ea; [destruct (lappl fb f t) eqn:Eap|].
    + destruct (C t f Ht Ea Eap) as (i & Hi & Ei). destruct (C' t f Ht Ea Eap) as (i' & Hi' & Ei').
      pose proof (B t f i Ht Ea Eap Hi) as E1. pose proof (B' t f i Ht Ea Eap Hi) as E2.
      rewrite Ei in E1. rewrite Ei' in E2. rewrite E1 in E2. rewrite !is_level_some, Nat.eqb_refl in E2.
      symmetry in E2. apply Nat.eqb_eq in E2. congruence.
    + now rewrite (N t f Ht Ea Eap), (N' t f Ht Ea Eap).
    + now rewrite (I t f Ht Hf Ea), (I' t f Ht Hf Ea).
Qed.

Theorem sat_eq_random (fb : flat) (b : backend) (ok : bool) (n' : Z) (final : cnf) :
  in_f1 fb = true -> frag0 fb = true -> 0 < T fb -> fl_errors_fail fb = false ->
  compile fb = COk b -> full_cnf b = (ok, n', final) ->
  forall q : tseq,
    (exists t, sat t final = true /\ onehot fb t q) <->
    (exists k cand, In k (keys_of fb) /\ decode_key fb k = Some cand /\ accepts fb cand = true /\
                    tseq_of_run fb cand = q).
Proof.
  intros HF1 HF0 HT He Hc Ef q. split.
  - intros (t & St & Ho).
    destruct (models_are_valid fb HF1 HT b Hc ok n' final t Ef St) as (q' & Ho' & Hv).
    rewrite (onehot_unique fb t q q' Ho Ho'). exact (f0_accept_complete fb HF0 q' He Hv).
  - intros (k & cand & Hk & Hd & Ha & <-).
    pose proof (f0_accept_sound fb HF0 k cand Hk Hd Ha) as Hv.
    exact (valid_has_model fb HF1 HT b Hc ok n' final _ Ef Hv).
Qed.

(** the two fragments are jointly satisfiable: a 2 x 3 crossing on 6 trials *)
Lemma sat_eq_random_example :
  in_f1 ex_fb = true /\ frag0 ex_fb = true /\ 0 < T ex_fb /\ fl_errors_fail ex_fb = false /\
  (exists b, compile ex_fb = COk b) /\ length (keys_of ex_fb) = 720.
Proof.
  split; [vm_compute; reflexivity|]. split; [vm_compute; reflexivity|]. split; [vm_compute; lia|].
  split; [reflexivity|]. split; [|vm_compute; reflexivity].
  apply compile_total_f1; [vm_compute; reflexivity|vm_compute; lia].
Qed.
