(** Totality of the compilation model (property C08): on the fragment F1 the
    model of [build_backend_request] never returns an error constructor, the
    cardinality stage succeeds on every request with a non-empty variable list
    (and fails - the real code raises ValueError - on an empty one), the
    AtLeastKInARow / ExactlyKInARow encoders succeed for every window length, and
    [Gen.decode] succeeds on one-hot assignments. *)
From Coq Require Import ZArith List Bool Arith Lia.
From SP Require Import Base.Sat Base.Bits Core.CnfModel Core.Card Core.CnfProofs Core.CardProofs.
From SP Require Import Design.Flat Design.Layout Design.Sem.
From SP Require Import Encode.Compile Encode.CodeSem Encode.Generic Encode.Blocks Encode.Runs
     Encode.GridLemmas Encode.CrossChunks Encode.LayoutF1 Encode.F1Kinds Encode.F1Cross Encode.F1Deriv Encode.F1DerivC Encode.F1Sem Encode.F1Sustain Encode.F1Latin
     Encode.F1InARow Encode.F1Sequential Encode.CompileProofs Encode.CompileCorollaries.
From SP Require Sample.Decode Sample.DecodeProofs Design.LayoutWf Sample.DecodeWf.
Import ListNotations.
Close Scope Z_scope.
Open Scope nat_scope.

Section F1Total.
Variable fb : flat.
Hypothesis HF1 : in_f1 fb = true.
Hypothesis HT : 0 < T fb.

Notation GZ := (GZ fb).
Notation Facts := (in_f1_facts fb HF1).

(** * One crossing *)
Lemma one_crossing_total i c fresh :
  crossing_f1 fb i c = true -> exists ct, apply_one_crossing fb i c fresh = COk ct.
Proof.
  intros Hcf. pose proof (crossing_f1_factors fb i c Hcf) as Hc.
  destruct (crossing_f1_starts fb i c Hcf) as [Hpre _].
  unfold crossing_f1 in Hcf. rewrite !andb_true_iff in Hcf. destruct Hcf as [[[_ Hsize] _] _].
  apply Nat.ltb_lt in Hsize.
  unfold apply_one_crossing. set (pre := preamble_size fb i) in *.
  set (combos := trial_combinations_of fb c).
  set (rows := map (fun t => map (fun di => map (gv fb (t - 1)) di) combos) (seq (1 + pre) (T fb - pre))).
  assert (Eenc : cmapM (fun t => cmapM (fun di => encode_combination fb di t) combos) (seq (1 + pre) (T fb - pre)) = COk rows).
  { unfold rows. apply cmapM_ok. intros t _. apply cmapM_ok. intros di Hdi. apply (encode_combo fb HF1 HT c); [exact Hc|].
    unfold combos, trial_combinations_of in Hdi. apply filter_In in Hdi. apply Hdi. }
  rewrite Eenc. cbn [cbind].
  assert (Hrows : rows <> []).
  { intros H. apply (f_equal (@length _)) in H. unfold rows in H. rewrite map_length, seq_length in H. cbn in H. lia. }
  rewrite (match_first rows _ _ [] Hrows).
  destruct (cmapM_total
              (fun p : list Z * nat => add_weight_constraint (S (length (fst p))) (fst p) (snd p)
                                         (nth i (fl_sizes fb) 0 * crossing_weight fb c) (crossing_weight fb c))
              (combine (map (fun j => map (fun t => (fresh + zn (t * length (hd [] rows) + j))%Z)
                                          (seq 0 (length (seq (1 + pre) (T fb - pre))))) (seq 0 (length (hd [] rows))))
                       (map (fun di => combination_weight fb di * sustain_of fb (hd 0 c)) combos)))
    as [reqss Er].
  { intros p _. apply awc_total; [exact Hsize|lia]. }
  rewrite Er. cbn [cbind]. destruct (cnf_fn _ _) as [cls fresh2]. eexists. reflexivity.
Qed.

Lemma crossings_total cs : forall i fresh,
  crossings_f1 fb i cs = true -> exists ct, apply_crossings fb i cs fresh = COk ct.
Proof.
  induction cs as [|c cs IH]; intros i fresh Hf; cbn [apply_crossings]; [eexists; reflexivity|].
  cbn [crossings_f1] in Hf. apply andb_true_iff in Hf. destruct Hf as [Hc Hcs].
  destruct (one_crossing_total i c fresh Hc) as [c1 E1]. rewrite E1. cbn [cbind].
  destruct (IH (S i) (ct_fresh c1) Hcs) as [c2 E2]. rewrite E2. cbn [cbind]. eexists. reflexivity.
Qed.

(** * Every constraint of an F1 record *)
Lemma constraint_total c fresh :
  In c (fl_constraints fb) -> exists ct, apply_constraint fb c fresh = COk ct.
Proof.
  intros Hin. pose proof (f1_constraints fb Facts c Hin) as Hc.
  destruct c; cbn [apply_constraint]; try (cbn [constraint_f1] in Hc; discriminate); try (eexists; reflexivity).
  - (* Cross *) exact (crossings_total _ 0 fresh (f1_crossings fb Facts)).
  - (* Consistency *) rewrite (f1_consistency fb HF1 fresh). eexists. reflexivity.
  - (* Sustain *) exact (sustain_total fb HF1 HT fresh).
  - (* Derivation *)
    destruct (is_complex fb factor) eqn:Hcx.
    + destruct (derivc_formulas_eq fb HF1 HT _ _ _ Hin Hcx) as (fd & w & l & lv & Efd & Ew & Elv & Hf & Hc' & Hl & Hdd & Hd & He & L & EF).
      unfold apply_derivation. replace (derived_idx <? grid_variables fb) with false.
      2:{ symmetry. apply Nat.ltb_ge. rewrite (f1_grid fb). lia. }
      unfold deriv_complex. change (factor_at fb factor) with (nth_error (fl_design fb) factor). rewrite Efd, Ew.
      rewrite (f1_sustain_cx fb HF1 factor Hf Hcx) in *. cbn [Nat.eqb]. rewrite L. cbn [cbind].
      destruct (cnf_fn _ _) as [cls fresh']. eexists. reflexivity.
    + destruct (deriv_shape fb HF1 HT _ _ _ Hin Hcx) as (fd & w & l & lv & Efd & Ew & Elv & Hf & Hl & Hd & Hdeps & Hlt & Hent).
      assert (Hdv : derived_idx < vpt fb) by (pose proof (f1_off_vpt fb HF1 factor (proj2 (sact_split fb factor) (conj Hf Hcx))); lia).
      unfold apply_derivation. replace (derived_idx <? grid_variables fb) with true.
      2:{ symmetry. apply Nat.ltb_lt. rewrite (f1_grid fb). unfold GN. nia. }
      unfold deriv_simple. replace (existsb (existsb is_before) deps) with false.
      2:{ symmetry. apply not_true_is_false. intros Hex. apply existsb_exists in Hex. destruct Hex as (e & He & Hex).
          apply existsb_exists in Hex. destruct Hex as (x & Hx & Hb).
          rewrite Hdeps in He. apply in_map_iff in He. destruct He as (entry & <- & Hentry).
          destruct (entry_deps_idx fb HF1 HT (win_deps w) entry x) as (ix & -> & _); [exact Hlt|exact (proj1 (Forall_forall _ _) Hent entry Hentry)|exact Hx|discriminate]. }
      rewrite andb_false_r. destruct (cnf_fn _ _) as [cls fresh']. eexists. reflexivity.
  - (* AtMost *)
    cbn [constraint_f1] in Hc. rewrite !andb_true_iff in Hc. destruct Hc as [[[Hf Hl] Hg] _].
    apply Nat.ltb_lt in Hl. destruct (geom_ok_some fb wb Hg) as [rs Ers].
    unfold apply_atmost, sublistss. rewrite (f1_var_lists fb HF1 f l wb rs HT Hf Hl Ers). cbn [cbind]. eexists. reflexivity.
  - (* AtLeastKInARow *) exact (atleast_total fb HF1 HT _ _ _ _ fresh Hc).
  - (* ExactlyK *)
    cbn [constraint_f1] in Hc. rewrite !andb_true_iff in Hc. destruct Hc as [[[[Hf Hl] Hg] _] _].
    apply Nat.ltb_lt in Hl. destruct (geom_ok_some fb wb Hg) as [rs Ers].
    unfold apply_exactlyk. rewrite (f1_var_lists fb HF1 f l wb rs HT Hf Hl Ers). cbn [cbind]. eexists. reflexivity.
  - (* ExactlyKInARow *) exact (exactrow_total fb HF1 HT _ _ _ _ fresh Hc).
  - (* Exclude *)
    cbn [constraint_f1] in Hc. rewrite !andb_true_iff in Hc. destruct Hc as [[Hf Hl] _]. apply Nat.ltb_lt in Hl.
    unfold apply_exclude. rewrite (f1_var_lists_none fb HF1 f l HT Hf Hl). cbn [cbind]. eexists. reflexivity.
  - (* Pin *)
    destruct (pin_guard fb HF1 HT _ _ _ _ Hc) as (Hf & Hl & _ & ps & Ep & Hpb).
    unfold apply_pin. rewrite Ep. destruct ps as [|p ps']; [eexists; reflexivity|].
    rewrite (pin_cmapM fb HF1 HT f l (p :: ps') Hf Hl). cbn [cbind]. eexists. reflexivity.
  - (* LatinSquare *) exact (latin_total fb HF1 HT _ fresh Hc).
  - (* Sequential *) exact (sequential_total fb HF1 HT _ fresh Hc).
Qed.

(** * The fold *)
Lemma apply_all_total cs : forall b0,
  incl cs (fl_constraints fb) -> (GZ < b_fresh b0)%Z -> exists b, apply_all fb cs b0 = COk b.
Proof.
  induction cs as [|c cs IH]; intros b0 Hincl Hfr; cbn [apply_all]; [eexists; reflexivity|].
  assert (Hin : In c (fl_constraints fb)) by (apply Hincl; now left).
  destruct (constraint_total c (b_fresh b0) Hin) as [ct Ec]. rewrite Ec. cbn [cbind].
  pose proof (proj1 (Forall_forall _ _) (all_steps fb HF1 HT) c Hin (b_fresh b0) ct Hfr Ec) as (ext & D).
  pose proof (da_range _ _ _ _ _ _ D) as R.
  apply IH; [intros x Hx; apply Hincl; now right|]. cbn [b_fresh]. lia.
Qed.

Theorem compile_total_f1 : exists b, compile fb = COk b.
Proof.
  unfold compile. apply apply_all_total; [apply incl_refl|]. cbn [b_fresh].
  unfold F1Kinds.GZ. rewrite <- (f1_vps fb HF1). unfold zn. lia.
Qed.

End F1Total.

(** * The cardinality stage *)
Lemma full_cnf_total b :
  (1 <= b_fresh b)%Z -> Forall (req_ok (b_fresh b - 1)) (b_requests b) ->
  exists n' final, full_cnf b = (true, n', final).
Proof.
  intros Hf Hok.
  destruct (run_requests_spec (b_requests b) (b_fresh b - 1)%Z ltac:(lia) Hok) as (n' & new & _ & _ & _ & R & _).
  exists n', (new ++ b_clauses b). unfold full_cnf, combine_requests.
  change {| next := (b_fresh b - 1)%Z; cls := [] |} with (mk (b_fresh b - 1)%Z []). rewrite R. reflexivity.
Qed.

(** an empty variable list is what the real code rejects with
    ValueError('cannot take pop count of empty list'): the model answers ok = false *)
Lemma full_cnf_empty_list :
  exists b, In (Card.EQ, 1%Z, []) (b_requests b) /\ fst (fst (full_cnf b)) = false.
Proof.
  exists {| b_fresh := 2%Z; b_clauses := []; b_requests := [(Card.EQ, 1%Z, [])] |}.
  split; [now left|]. vm_compute. reflexivity.
Qed.

(** * ExactlyK never asks for the pop count of an empty list (/repo 4d027cb) *)
Lemma exactlyk_empty_list_total (fb : flat) (k f l : nat) (wb : option geometry) (fresh : Z) (ct : contrib) :
  apply_exactlyk fb k f l wb fresh = COk ct ->
  Forall (fun q : req => snd q <> []) (ct_requests ct).
Proof.
  unfold apply_exactlyk. destruct (var_lists fb f l wb) as [vls|e]; cbn [cbind]; [|discriminate].
  intros E. inversion E. subst ct. cbn [ct_requests]. apply exactlyk_requests_no_empty.
Qed.

(** * AtLeastKInARow / ExactlyKInARow never fail on the window length *)
Lemma inarow_short_window_total (fb : flat) (k f l : nat) (wb : option geometry) (fresh : Z) (vls : list (list nat)) :
  var_lists fb f l wb = COk vls ->
  (exists ct, apply_atleast fb k f l wb fresh = COk ct) /\
  (exists ct, apply_exactlykinarow fb k f l wb fresh = COk ct).
Proof.
  intros E. split.
  - unfold apply_atleast. rewrite E. cbn [cbind]. destruct (cnf_fn _ _). eexists. reflexivity.
  - unfold apply_exactlykinarow. rewrite E. cbn [cbind]. destruct (ekr_loop _ _ _ _). eexists. reflexivity.
Qed.

(** e.g. a window of two trials with k = 5: both succeed (before /repo 0e49512
    the code raised IndexError here) *)
Example inarow_short_example :
  exists c1 c2, apply_atleast ex_stroop 5 0 0 None 100%Z = COk c1 /\ apply_exactlykinarow ex_stroop 5 0 0 None 100%Z = COk c2.
Proof. vm_compute. eexists. eexists. split; reflexivity. Qed.

(** * Decoding a one-hot assignment succeeds *)
Lemma decode_total (fb : flat) :
  LayoutWf.wf_layout fb = true -> DecodeWf.act_keys_distinct fb = true -> 1 <= fl_trials fb ->
  forall s : nat -> nat -> nat,
    (forall f t, DecodeProofs.cell fb f t -> s f t < nlevels fb f) ->
    forall sol : list Z, NoDup sol ->
      (forall v, 1 <= v <= variables_per_sample fb ->
                 (In (Z.of_nat v) sol <-> exists f t, DecodeProofs.cell fb f t /\ encode_variable fb f (s f t) t = Some v)) ->
      exists d, Decode.decode fb sol = Decode.DOk d.
Proof.
  intros Hwf Hk HT s Hs sol Hnd Hoh.
  destruct (DecodeProofs.decode_onehot fb Hwf Hk HT s Hs sol Hnd Hoh) as (d & E & _). now exists d.
Qed.

(** the compilation theorem instantiated on the worked example *)
Lemma c08_example :
  in_f1 ex_stroop = true /\ 0 < T ex_stroop /\ (exists b, compile ex_stroop = COk b).
Proof.
  destruct ex_stroop_in_f1 as [A B]. split; [exact A|]. split; [exact B|]. exact (compile_total_f1 ex_stroop A B).
Qed.
