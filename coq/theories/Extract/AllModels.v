(** Root of extraction: requires every *model* file (never a proof file) and
    names, per domain, the functions the OCaml drivers call.  [Separate
    Extraction] of [roots] produces one .ml per library, sharing the datatypes
    ([BinNums.positive], [BinNums.coq_Z], [Datatypes.nat], ...). *)
From SP Require Base.Sat Core.CnfModel Core.Card.

Definition roots_card :=
  (Core.CnfModel.half_adder, Core.CnfModel.full_adder, Core.CnfModel.saturate_adder,
   Core.CnfModel.ripple_carry, Core.CnfModel.ripple_saturate, Core.CnfModel.pop_count,
   Core.Card.int_to_binary, Core.Card.run_request, Core.Card.combine_requests,
   Base.Sat.sat).

Definition roots := (roots_card).
