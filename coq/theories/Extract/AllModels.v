(** Root of extraction: one [Roots<Dom>.v] per domain names the functions the
    OCaml driver [extract/drv_<dom>.ml] calls.  [Separate Extraction] of
    [roots] produces one .ml per library, sharing the datatypes. *)
From SP Require Extract.RootsCard.
Definition roots := (RootsCard.roots).
