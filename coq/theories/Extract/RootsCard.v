(** Extraction roots of the cardinality / adder domain (driver: extract/drv_card.ml). *)
From SP Require Base.Sat Core.CnfModel Core.Card.
Definition roots :=
  (Core.CnfModel.half_adder, Core.CnfModel.full_adder, Core.CnfModel.saturate_adder,
   Core.CnfModel.ripple_carry, Core.CnfModel.ripple_saturate, Core.CnfModel.pop_count,
   Core.Card.int_to_binary, Core.Card.run_request, Core.Card.combine_requests,
   Base.Sat.sat).
