(** Extraction roots of the mismatch-checker model (driver: extract/drv_check.ml).
    The reference semantics and the layout roots are included so that a private
    binary built from this root can also serve the oracle commands of
    extract/drv_design.ml and extract/drv_layout.ml. *)
From SP Require Check.Mismatch Check.FragmentProofs Check.NestProofs Check.DerivedFrag Extract.RootsDesign Extract.RootsLayout.
Definition roots := (Check.Mismatch.mismatch, Check.Mismatch.no_mismatch,
                     Check.Mismatch.mismatch_factors, Check.Mismatch.mismatch_constraints,
                     Check.Mismatch.mismatch_crossings, Check.Mismatch.counts,
                     Check.NestProofs.nfrag, Check.NestProofs.code_sem_n, Check.FragmentProofs.wf_rowsb,
                     Check.FragmentProofs.cand_of_rows,
                     Check.DerivedFrag.dfrag, Check.DerivedFrag.dfrag_w, Check.DerivedFrag.code_sem_d,
                     Check.DerivedFrag.wf_rowsb_d, Check.DerivedFrag.dfrag_why,
                     Check.DerivedFrag.efrag, Check.DerivedFrag.code_sem_x, Check.DerivedFrag.efrag_why,
                     Extract.RootsDesign.roots, Extract.RootsLayout.roots).
