(** Extraction roots of the combinatorics domain (driver: extract/drv_comb.ml). *)
From SP Require Comb.CombModel.
Definition roots :=
  (Comb.CombModel.extract_components, Comb.CombModel.compute_jth_combination,
   Comb.CombModel.n_choose_m_given_m_factorial, Comb.CombModel.n_choose_m,
   Comb.CombModel.compute_jth_combination_without_replacement,
   Comb.CombModel.compute_jth_inversion_sequence, Comb.CombModel.construct_permutation,
   Comb.CombModel.compute_jth_permutation_prefix,
   Comb.CombModel.count_remaining_permutations, Comb.CombModel.count_interleavings,
   Comb.CombModel.construct_with_copies, Comb.CombModel.construct_permutation_with_copies,
   Comb.CombModel.construct_permutation_with_varying_copies,
   Comb.CombModel.count_permutations_with_copies, Comb.CombModel.count_permutations_with_varying_copies,
   Comb.CombModel.recur_count_prefixes_of_permutations_with_copies,
   Comb.CombModel.k_prefixes_of_permutations_with_copies,
   Comb.CombModel.count_prefixes_of_permutations_with_copies,
   Comb.CombModel.compute_jth_prefix_of_permutations_with_copies,
   Comb.CombModel.memo_session,
   Comb.CombModel.cnt, Comb.CombModel.prefix_unrank).
