(** Extraction roots of the compilation model (driver: extract/drv_compile.ml). *)
From SP Require Design.Flat Design.Layout Encode.Compile Core.Card Base.Sat.
Definition roots :=
  (Encode.Compile.compile, Encode.Compile.full_cnf, Encode.Compile.apply_constraint,
   Design.Layout.variables_per_sample, Core.Card.combine_requests, Base.Sat.sat).
