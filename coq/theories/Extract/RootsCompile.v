(** Extraction roots of the compilation model (driver: extract/drv_compile.ml). *)
From SP Require Design.Flat Design.Layout Design.Sem Encode.Compile Encode.CodeSem Core.Card Base.Sat.
Definition roots :=
  (Encode.Compile.compile, Encode.Compile.full_cnf, Encode.Compile.apply_constraint,
   Design.Layout.variables_per_sample, Core.Card.combine_requests, Base.Sat.sat,
   Encode.CodeSem.code_sem, Encode.CodeSem.in_f1, Encode.CodeSem.f1_why, Design.Sem.all_valid, Design.Sem.valid_b).
