(** Extraction roots of the continuous-factor sampling model (driver: extract/drv_cont.ml).
    [attempt] and [scan] are the specification-side reading of the resample loop
    (Out/ContinuousLive.v: verdict of one attempt, first non-rejected attempt of a
    stream); the harness evaluates them on the recorded draws. *)
From SP Require Out.Continuous Out.ContinuousLive.
Definition roots :=
  (Out.Continuous.window_post_init, Out.Continuous.get_window_val,
   Out.Continuous.check_dependency, Out.Continuous._sample_continuous,
   Out.Continuous.check_constraints, Out.Continuous.sample_continuous,
   Out.Continuous.merge, Out.Continuous.synthesize_post,
   Out.ContinuousLive.attempt, Out.ContinuousLive.scan).
