(** Extraction roots of the continuous-factor sampling model (driver: extract/drv_cont.ml). *)
From SP Require Out.Continuous.
Definition roots :=
  (Out.Continuous.window_post_init, Out.Continuous.get_window_val,
   Out.Continuous.check_dependency, Out.Continuous._sample_continuous,
   Out.Continuous.check_constraints, Out.Continuous.sample_continuous,
   Out.Continuous.merge, Out.Continuous.synthesize_post).
