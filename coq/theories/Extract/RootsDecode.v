(** Extraction roots of the [Gen.decode] model together with the variable-layout
    model it is built on (driver: extract/drv_decode.ml, which also serves the
    layout commands so that checks C14 and C26 need a single binary). *)
From SP Require Design.Flat Design.Layout Design.LayoutWf Sample.Decode Sample.DecodeWf.
Definition roots :=
  (Sample.Decode.decode, Sample.Decode.zsort, Design.LayoutWf.wf_layout, Sample.DecodeWf.act_keys_distinct,
   Design.Layout.variables_per_trial, Design.Layout.grid_variables, Design.Layout.variables_per_sample,
   Design.Layout.variables_for_factor, Design.Layout.first_variable_for_level, Design.Layout.encode_variable,
   Design.Layout.factor_variables_for_trial, Design.Layout.variable_list_for_trial, Design.Layout.support_variables,
   Design.Layout.decode_variable, Design.Layout.map_block_trial_ranges, Design.Layout.build_variable_lists,
   Design.Layout.get_trial_numbers, Design.Layout.applies_at, Design.Layout.nlevels, Design.Flat.sustain_of).
