(** Extraction roots of the derived-factor model (driver: extract/drv_derive.ml). *)
From SP Require Design.Flat Design.Layout Design.Derive.
Definition roots :=
  (Design.Derive.domain, Design.Derive.accepts, Design.Derive.gen_factor, Design.Derive.check_factor,
   Design.Derive.outcome_fails, Design.Derive.window_args, Design.Derive.select_level,
   Design.Derive.select_level_for_sample, Design.Derive.test_trial, Design.Derive.implied_args,
   Design.Derive.add_implied, Design.Derive.applies_group, Design.Derive.dfac_of_flat,
   Design.Derive.generate_derivations, Design.Derive.derivation_errors_fail, Design.Derive.shift_window,
   Design.Derive.is_warning).
