(** Extraction roots of the design-level reference semantics (driver: extract/drv_design.ml). *)
From SP Require Design.Sem Design.Flat.
Definition roots := (Design.Sem.valid_b, Design.Sem.all_valid, Design.Sem.candidates_count,
                     Design.Sem.factor_ok, Design.Sem.crossing_ok, Design.Sem.constraint_ok,
                     Design.Flat.sustain_of, Design.Flat.fl_trials).
