(** Extraction roots of the documented semantics of programs (driver: extract/drv_docsem.ml). *)
From SP Require Design.Sem Design.Flat Design.DocSem.
Definition roots := (Design.DocSem.doc_sem, Design.DocSem.doc_sem_block, Design.DocSem.doc_block,
                     Design.DocSem.window_params, Design.DocSem.is_complex, Design.DocSem.accepted_tables,
                     Design.Sem.valid_b, Design.Flat.sustain_of, Design.Flat.fl_trials).
