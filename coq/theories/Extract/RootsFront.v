(** Extraction roots of the front-end models (driver: extract/drv_front.ml). *)
From SP Require Design.Flat Design.Layout Front.Trials Front.TrialsWf Front.Create Front.Desugar Front.NestSem Front.NestSem2 Front.NestSem3 Front.NestSem4 Front.DesugarSem Front.CreateFlat Front.CreateOk.
Definition roots :=
  (Front.Trials.trials_required, Front.Trials.trials_for_one_crossing, Front.Trials.trials_for_crossings,
   Front.Trials.model_preambles, Front.Trials.min_trials_raw, Front.Trials.model_min_trials,
   Front.Trials.model_trials, Front.Trials.model_weights,
   Front.Trials.crossing_size_no_excl, Front.Trials.common_preamble, Front.Trials.model_geometry,
   Front.TrialsWf.wf_trials_b, Front.TrialsWf.doc_need_own, Front.TrialsWf.doc_need_post,
   Front.Desugar.desugar, Front.Desugar.combo_weights, Front.Desugar.crossing_size_wo, Front.Desugar.hidden_accepts,
   Front.NestSem.nest_sem, Front.NestSem.nestable_b,
   Front.NestSem2.nest_sem2, Front.NestSem2.nestable_d_b, Front.NestSem2.groups2_b,
   Front.NestSem3.nestable_c_b, Front.NestSem3.nestable_f_b, Front.NestSem4.nestable_s_b, Front.NestSem4.nest_sem2_own, Front.NestSem4.groups2_own_b,
   Front.CreateFlat.create_flat,
   Front.CreateOk.input_ok, Front.CreateOk.window_ok, Front.CreateOk.sustains_consistent, Front.CreateOk.paired, Front.CreateOk.in_flat,
   Front.DesugarSem.free_b, Front.DesugarSem.widen, Front.DesugarSem.orig,
   Front.Create.create_of, Front.Create.norm_crossings, Front.Create.adds_sustain, Front.Create.sustain_map,
   Front.Create.binfo_of_create, Front.Create.created_constraints, Front.Create.block_of_create,
   Design.Layout.applies_at, Design.Flat.sustain_of).
