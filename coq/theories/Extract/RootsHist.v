(** Extraction roots of the history models (driver: extract/drv_hist.ml):
    Hist/BlockState.v (C19) and Hist/Reuse.v (C18). *)
From SP Require Hist.BlockState Hist.Reuse.
Definition roots := (Hist.BlockState.step, Hist.BlockState.trace, Hist.BlockState.run,
                     Hist.BlockState.declared_writes, Hist.BlockState.prev_pure,
                     Hist.BlockState.vpt_pure, Hist.BlockState.simple_pure, Hist.BlockState.columns,
                     Hist.Reuse.build, Hist.Reuse.run, Hist.Reuse.init_state, Hist.Reuse.store_list,
                     Hist.Reuse.shared_summary, Hist.Reuse.fresh_summary, Hist.Reuse.keep_of, Hist.Reuse.mask,
                     Hist.Reuse.closed, Hist.Reuse.wf, Hist.Reuse.declared_writes, Hist.Reuse.last_entries).
