(** Extraction roots of the history models (driver: extract/drv_hist.ml):
    Hist/BlockState.v (C19) and Hist/Reuse.v (C18). *)
From SP Require Hist.BlockState.
Definition roots := (Hist.BlockState.step, Hist.BlockState.trace, Hist.BlockState.run,
                     Hist.BlockState.declared_writes, Hist.BlockState.prev_pure,
                     Hist.BlockState.vpt_pure, Hist.BlockState.simple_pure, Hist.BlockState.columns).
