(** Extraction roots of the iterate-and-block loop (driver: extract/drv_iterate.ml). *)
From SP Require Sample.Iterate.
Definition roots := (Sample.Iterate.iterate, Sample.Iterate.returned).
