(** Extraction roots of the formula / CNF-conversion domain (driver: extract/drv_logic.ml). *)
From SP Require Base.Sat Logic.Formula Logic.Tseitin Logic.Naive Logic.Switching.
Definition roots :=
  (Logic.Formula.eval, Logic.Formula.neval, Logic.Formula.cnf_to_json, Logic.Formula.leaves,
   Logic.Tseitin.tseitin_tree, Logic.Tseitin.tseitin,
   Logic.Naive.to_cnf_naive, Logic.Naive.pysort, Logic.Naive.py_lt, Logic.Naive.elim,
   Logic.Naive.demorgan, Logic.Naive.demorgan_fuel, Logic.Naive.dist_naive,
   Logic.Switching.to_cnf_switching, Logic.Switching.dist_sw,
   Base.Sat.sat).
