(** Extraction roots of the output domain (driver: extract/drv_out.ml). *)
From SP Require Out.Convert Out.Tabulate.
Definition roots :=
  (Out.Convert.block_design, Out.Convert.conv_keys, Out.Convert.user_names,
   Out.Convert.tuples_of, Out.Convert.dicts_of, Out.Convert.csv_of,
   Out.Convert.experiments_to_tuples, Out.Convert.experiments_to_dicts,
   Out.Convert.save_experiments_csv, Out.Convert.synth_post,
   @Out.Tabulate.product Out.Convert.value, Out.Tabulate.tabulate_experiments).
