(** Extraction roots of the RandomGen model (driver: extract/drv_random.ml).
    The roots of the reference semantics are included so that a private binary
    built from this file can also serve the oracle commands of drv_design.ml. *)
From SP Require Design.Flat Design.Layout Random.Enum Random.Frag Random.FragSem Extract.RootsDesign.
Definition roots :=
  (Extract.RootsDesign.roots,
   Random.Enum.make_enumerator, Random.Enum.all_keys, Random.Enum.decode_with,
   Random.Enum.are_constraints_violated, Random.Enum.possible_keys, Random.Enum.rounds_per_run,
   Random.Enum.rows_in_design_order, Random.Enum.sample_keys, Random.Enum.decode_key, Random.Enum.accepts,
   Random.Enum.solution_count, Random.Enum.preamble_solution_count, Random.Enum.leftover_solution_count,
   Random.Frag.frag0, Random.FragSem.code_sem, Random.Frag.tseq_of_run, Random.FragSem.keys_of, Random.FragSem.check_sound,
   Random.FragSem.check_inj, Random.FragSem.check_complete, Random.FragSem.check_count,
   Random.Frag.frag1, Random.Frag.frag2, Random.FragSem.enumerates_b, Random.Frag.rejection_free, Random.FragSem.check_accepted_count, Random.FragSem.accepted_count_of).
