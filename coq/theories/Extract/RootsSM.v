(** Extraction roots of the SMGen gate model (driver: extract/drv_sm.ml); the reference
    semantics is included so that a private binary spmodel_SM also answers (valid ...). *)
From SP Require SM.SMGate Extract.RootsDesign.
Definition roots := (SM.SMGate.gate, SM.SMGate.ignored_by_gate, SM.SMGate.refused_kind, SM.SMGate.user_kind,
                     SM.SMGate.realised_kind, Extract.RootsDesign.roots).
