(** Extraction roots of the T2(c) check: program -> create_input -> flat -> code_sem beside doc_sem
    (drivers: extract/drv_docsem.ml for the program parser, extract/drv_t2.ml). *)
From SP Require Design.Sem Design.Flat Design.DocSem Front.CreateFlat Front.PlainInput Front.PlainT2Final Encode.CodeSem Front.DerivedInput Front.DerivedGuard Front.DerivedCheck Design.SemEqvTB Front.DerivedGuard2.
Definition roots := (Design.DocSem.doc_sem, Design.DocSem.doc_sem_block, Design.DocSem.doc_block,
                     Design.DocSem.window_params, Design.DocSem.is_complex, Design.DocSem.accepted_tables,
                     Front.PlainInput.plain_input, Front.PlainT2Final.t2_guard, Front.PlainInput.t2_flat, Front.PlainInput.t2_code_sem,
                     Front.CreateFlat.create_flat, Encode.CodeSem.code_sem,
                     Design.Sem.valid_b, Design.Flat.sustain_of, Design.Flat.fl_trials,
                     Front.DerivedInput.derived_input, Front.DerivedInput.derived_raises, Front.DerivedInput.t2d_flat,
                     Front.DerivedInput.t2d_code_sem, Front.DerivedGuard.t2d_guard,
                     Front.DerivedCheck.t2d_check, Design.SemEqvTB.sem_eqv_tb,
                     Front.DerivedGuard2.t2d_guard2).
