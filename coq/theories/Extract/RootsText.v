(** Extraction roots of the solver-text domain (driver: extract/drv_text.ml). *)
From SP Require Base.Sat Core.Card Text.Tok Text.Dimacs Text.SolverIO Text.Opb Text.Chars Text.TextChars.
Definition roots :=
  (Text.Dimacs.str_lines, Text.Dimacs.dimacs_lines, Text.Dimacs.unigen_lines,
   Text.Dimacs.support_set, Text.Dimacs.cnf_num_vars, Text.Dimacs.save_cnf_lines,
   Text.Dimacs.combine_save_lines, Text.Dimacs.parse_cms, Text.Dimacs.parse_unigen,
   Text.Dimacs.sampler_input, Text.Dimacs.update_file, Text.Dimacs.blocking_clause,
   Text.SolverIO.cms_output, Text.SolverIO.cli_output, Text.SolverIO.parse_v_lines,
   Text.SolverIO.solve_result, Text.SolverIO.build_solution,
   Text.SolverIO.parse_sampler_output, Text.SolverIO.unigen_format,
   Text.SolverIO.cmsgen_format,
   Text.Opb.opb_lines, Text.Opb.opb_file, Text.Opb.opb_file_with, Text.Opb.gt_rhs,
   Text.Opb.ilp_block_line, Text.Opb.ilp_update, Text.Opb.pb_line_sat, Text.Opb.pb_file_sat,
   Base.Sat.sat, Base.Sat.csat,
   (* character level *)
   Text.Chars.string_of_Z, Text.Chars.Z_of_string, Text.Chars.split_ws, Text.Chars.strip,
   Text.Chars.lines, Text.Chars.join,
   Text.TextChars.tok_of_string, Text.TextChars.string_of_tok, Text.TextChars.lex_file,
   Text.TextChars.render_file,
   Text.TextChars.str_text, Text.TextChars.dimacs_text, Text.TextChars.unigen_text,
   Text.TextChars.save_cnf_text, Text.TextChars.combine_save_text,
   Text.TextChars.parse_cms_text, Text.TextChars.parse_unigen_text, Text.TextChars.sampler_input_text,
   Text.TextChars.update_file_text, Text.TextChars.cms_output_text, Text.TextChars.parse_v_text,
   Text.TextChars.solve_result_text, Text.TextChars.unigen_format_text, Text.TextChars.cmsgen_format_text, Text.TextChars.parse_sampler_text,
   Text.TextChars.opb_text, Text.TextChars.opb_file_text, Text.TextChars.ilp_update_text,
   Text.TextChars.pb_file_sat_text).
