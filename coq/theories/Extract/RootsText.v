(** Extraction roots of the solver-text domain (driver: extract/drv_text.ml). *)
From SP Require Base.Sat Core.Card Text.Tok Text.Dimacs Text.SolverIO Text.Opb.
Definition roots :=
  (Text.Dimacs.str_lines, Text.Dimacs.dimacs_lines, Text.Dimacs.unigen_lines,
   Text.Dimacs.support_set, Text.Dimacs.cnf_num_vars, Text.Dimacs.save_cnf_lines,
   Text.Dimacs.combine_save_lines, Text.Dimacs.parse_cms, Text.Dimacs.parse_unigen,
   Text.Dimacs.sampler_input, Text.Dimacs.update_file, Text.Dimacs.blocking_clause,
   Text.SolverIO.cms_output, Text.SolverIO.cli_output, Text.SolverIO.parse_v_lines,
   Text.SolverIO.solve_result, Text.SolverIO.build_solution,
   Text.SolverIO.parse_sampler_output, Text.SolverIO.unigen_format,
   Text.SolverIO.cmsgen_format,
   Text.Opb.opb_lines, Text.Opb.opb_file, Text.Opb.opb_file_with, Text.Opb.gt_rhs,
   Text.Opb.ilp_block_line, Text.Opb.ilp_update, Text.Opb.pb_line_sat, Text.Opb.pb_file_sat,
   Base.Sat.sat, Base.Sat.csat).
