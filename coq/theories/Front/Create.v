(** Model of what each block constructor of [sweetpea/_internal/cross_block.py]
    ([CrossBlock], [MultiCrossBlock], [Repeat], [Merge], [Nest]) passes to
    [MultiCrossBlockRepeat._create], as a function of the attributes the
    constructor reads from its argument blocks.

    Factors and constraints are global identifiers ([nat]; two factor objects
    get the same identifier iff Python's [==] holds, which for factors is object
    identity because a level belongs to one factor).  A constraint is described
    by the fields the constructors and [_create] can change: its class, its
    integer parameter ([k] / [index] / [trials]) and its [within_block]
    geometry.  No proofs here (Front/CreateProofs.v). *)
From Coq Require Import ZArith List Bool Arith.
From SP Require Import Design.Flat Front.Trials.
Import ListNotations.

Inductive ckind :=
| KAtMost | KAtLeast | KExactlyK | KExactlyKInARow | KExactlyKMultiple
| KPin | KMinimumTrials | KExclude | KOther.

Record cinfo := {
  c_id : nat;                    (* which user constraint (class + level/factor) *)
  c_kind : ckind;
  c_param : Z;                   (* k | index | trials | 0 *)
  c_wb : option geometry         (* within_block *)
}.

(** where an entry of the constraint list handed to [_create] comes from *)
Inductive origin :=
| OOwn                           (* the constructor's own [constraints] argument *)
| OBlock (i : nat)               (* [orig_constraints] of the i-th argument block, same object: the block's
                                    private copy of what it was given, carrying the block's geometry *)
| OOuterCopy.                    (* [copy.copy] of an outer constraint after [sustain_within_block] *)

(** the attributes a constructor reads from an argument block *)
Record binfo := {
  bi_multicross : bool;          (* isinstance(block, MultiCrossBlock): CrossBlock, MultiCrossBlock, Merge *)
  bi_design : list nat;
  bi_crossings : list (list nat);
  bi_sustains : list nat;        (* crossing_sustain_counts *)
  bi_weights : list Z;           (* crossing_weights *)
  bi_orig_design : list nat;
  bi_orig_crossings : list (list nat);
  bi_orig_constraints : list cinfo;
  bi_alignment : alignment;
  bi_rcc : bool;
  bi_trials : nat;               (* trials_per_sample() *)
  bi_common_preamble : nat       (* common_preamble_size() *)
}.

Record create_args := {
  ca_design : list nat;
  ca_crossings : list (list nat);
  ca_sustains : list nat;
  ca_weights : list Z;
  ca_constraints : list (origin * cinfo);
  ca_rcc : bool;
  ca_mode : rmode;
  ca_alignment : alignment
}.

Inductive cerr :=
| ENestSharedCrossing            (* "Factor cannot be in crossing for both outer and inner blocks." *)
| ENestAlignment                 (* "Outer and inner blocks cannot have different alignment." *)
| ENestSustainNone               (* AttributeError: within_block is None in _KInARow.sustain_within_block *)
| EMergeEmpty                    (* "Blocks to merge must be nonempty." *)
| EMergeAlignment                (* "Blocks have different alignments." *)
| ERepeatArg.                    (* argcheck: Repeat needs a MultiCrossBlock *)

Inductive cres := COk (a : create_args) | CErr (e : cerr).

Inductive bexp :=
| BCross (design crossing : list nat) (cs : list cinfo) (rcc : bool)
| BMulti (design : list nat) (crossings : list (list nat)) (cs : list cinfo) (rcc : bool)
         (mode : rmode) (al : alignment)
| BRepeat (b : binfo) (cs : list cinfo)
| BMerge (bs : list binfo) (cs : list cinfo) (mode : rmode) (al : option alignment)
| BNest (outer inner : binfo) (cs : list cinfo) (al : option alignment).

Definition alignment_eqb (a b : alignment) : bool :=
  match a, b with
  | PostPreamble, PostPreamble | ParallelStart, ParallelStart | EqualPreamble, EqualPreamble => true
  | _, _ => false
  end.

Definition mem (f : nat) (l : list nat) : bool := existsb (Nat.eqb f) l.

(** [for f in fs: if f not in design: design.append(f)] *)
Definition add_new (design fs : list nat) : list nat :=
  fold_left (fun d f => if mem f d then d else d ++ [f]) fs design.

Definition own (cs : list cinfo) : list (origin * cinfo) := map (fun c => (OOwn, c)) cs.
Definition from_block (i : nat) (b : binfo) : list (origin * cinfo) :=
  map (fun c => (OBlock i, c)) (bi_orig_constraints b).

(** [BlockGeometry.sustain(n)] *)
Definition geometry_sustain_by (n : nat) (g : geometry) : geometry :=
  {| g_trials := g_trials g * n; g_preamble := g_preamble g * n;
     g_sustain := map (fun p => (fst p, snd p * n)) (g_sustain g) |}.

(** [ct.sustain_within_block(n)] on a copy of [ct]; [None] = AttributeError *)
Definition sustain_within_block (n : nat) (c : cinfo) : option cinfo :=
  match c_kind c with
  | KAtMost | KAtLeast | KExactlyKInARow | KExactlyKMultiple =>
    match c_wb c with
    | Some g => Some {| c_id := c_id c; c_kind := c_kind c; c_param := c_param c; c_wb := Some (geometry_sustain_by n g) |}
    | None => None
    end
  | KExactlyK =>
    match c_wb c with
    | Some g => Some {| c_id := c_id c; c_kind := c_kind c; c_param := (c_param c * Z.of_nat n)%Z;
                        c_wb := Some (geometry_sustain_by n g) |}
    | None => None
    end
  | KPin =>
    Some {| c_id := c_id c; c_kind := c_kind c; c_param := c_param c; c_wb := option_map (geometry_sustain_by n) (c_wb c) |}
  | KMinimumTrials =>
    Some {| c_id := c_id c; c_kind := c_kind c; c_param := (c_param c * Z.of_nat n)%Z; c_wb := c_wb c |}
  | KExclude | KOther => Some c
  end.

Fixpoint sustain_all (n : nat) (cs : list cinfo) : option (list (origin * cinfo)) :=
  match cs with
  | [] => Some []
  | c :: r =>
    match sustain_within_block n c, sustain_all n r with
    | Some c', Some r' => Some ((OOuterCopy, c') :: r')
    | _, _ => None
    end
  end.

Definition ones {A} (l : list A) : list nat := map (fun _ => 1) l.
Definition onesZ {A} (l : list A) : list Z := map (fun _ => 1%Z) l.

Definition create_cross (design crossing : list nat) (cs : list cinfo) (rcc : bool) : create_args :=
  {| ca_design := design; ca_crossings := [crossing]; ca_sustains := [1]; ca_weights := [1%Z];
     ca_constraints := own cs; ca_rcc := rcc; ca_mode := MWeight; ca_alignment := EqualPreamble |}.

Definition create_multi (design : list nat) (crossings : list (list nat)) (cs : list cinfo) (rcc : bool)
           (mode : rmode) (al : alignment) : create_args :=
  {| ca_design := design; ca_crossings := crossings; ca_sustains := ones crossings; ca_weights := onesZ crossings;
     ca_constraints := own cs; ca_rcc := rcc; ca_mode := mode; ca_alignment := al |}.

Definition create_repeat (b : binfo) (cs : list cinfo) : cres :=
  if negb (bi_multicross b) then CErr ERepeatArg
  else COk {| ca_design := bi_orig_design b; ca_crossings := bi_orig_crossings b; ca_sustains := bi_sustains b;
              ca_weights := bi_weights b; ca_constraints := from_block 0 b ++ own cs; ca_rcc := bi_rcc b;
              ca_mode := MRepeat; ca_alignment := EqualPreamble |}.

Fixpoint from_blocks (i : nat) (bs : list binfo) : list (origin * cinfo) :=
  match bs with
  | [] => []
  | b :: r => from_block i b ++ from_blocks (S i) r
  end.

Definition create_merge (bs : list binfo) (cs : list cinfo) (mode : rmode) (al : option alignment) : cres :=
  match bs with
  | [] => CErr EMergeEmpty
  | b0 :: _ =>
    let al' := match al with Some a => a | None => bi_alignment b0 end in
    if negb (forallb (fun b => alignment_eqb (bi_alignment b) al') bs) then CErr EMergeAlignment
    else COk {| ca_design := fold_left (fun d b => add_new d (bi_design b)) bs [];
                ca_crossings := flat_map bi_crossings bs;
                (* only the entries that belong to actual crossings: a block without crossings
                   keeps a placeholder count and weight (/repo commit c5d7328) *)
                ca_sustains := flat_map (fun b => firstn (length (bi_crossings b)) (bi_sustains b)) bs;
                ca_weights := flat_map (fun b => firstn (length (bi_crossings b)) (bi_weights b)) bs;
                ca_constraints := own cs ++ from_blocks 0 bs;
                ca_rcc := forallb bi_rcc bs;
                ca_mode := mode; ca_alignment := al' |}
  end.

Definition nest_alignment (outer inner : binfo) (al : option alignment) : option alignment :=
  let a := match al with Some a => a | None => bi_alignment outer end in
  if alignment_eqb a (bi_alignment inner) then Some a
  else if alignment_eqb a EqualPreamble && (length (bi_crossings outer) =? 1) then Some (bi_alignment inner)
  else if alignment_eqb (bi_alignment inner) EqualPreamble && (length (bi_crossings inner) =? 1) then Some a
  else None.

Definition create_nest (outer inner : binfo) (cs : list cinfo) (al : option alignment) : cres :=
  if existsb (fun c => existsb (fun f => existsb (mem f) (bi_crossings inner)) c) (bi_crossings outer)
  then CErr ENestSharedCrossing
  else
    match nest_alignment outer inner al with
    | None => CErr ENestAlignment
    | Some a =>
      let inner_len := bi_trials inner - bi_common_preamble inner in
      match sustain_all inner_len (bi_orig_constraints outer) with
      | None => CErr ENestSustainNone
      | Some oc =>
        COk {| ca_design := add_new (bi_design outer) (bi_design inner);
               ca_crossings := bi_crossings outer ++ bi_crossings inner;
               (* [:len(crossings)] as in Merge (/repo commit c5d7328) *)
               ca_sustains := map (fun sc => inner_len * sc) (firstn (length (bi_crossings outer)) (bi_sustains outer))
                              ++ firstn (length (bi_crossings inner)) (bi_sustains inner);
               ca_weights := firstn (length (bi_crossings outer)) (bi_weights outer)
                             ++ firstn (length (bi_crossings inner)) (bi_weights inner);
               ca_constraints := oc ++ from_block 1 inner ++ own cs;
               ca_rcc := bi_rcc outer && bi_rcc inner;
               ca_mode := MRepeat; ca_alignment := a |}
      end
    end.

Definition create_of (e : bexp) : cres :=
  match e with
  | BCross d c cs rcc => COk (create_cross d c cs rcc)
  | BMulti d crs cs rcc m a => COk (create_multi d crs cs rcc m a)
  | BRepeat b cs => create_repeat b cs
  | BMerge bs cs m a => create_merge bs cs m a
  | BNest o i cs a => create_nest o i cs a
  end.

(** What [_create] does with its arguments before anything else reads them:
    empty crossings are dropped (the sustain-count and weight lists are *not*
    filtered alongside), and a [Sustain()] constraint is added iff some sustain
    count differs from 1. *)
Definition nonempty (c : list nat) : bool := match c with [] => false | _ => true end.
Definition norm_crossings (a : create_args) : list (list nat) := filter nonempty (ca_crossings a).
Definition adds_sustain (a : create_args) : bool := existsb (fun n => negb (n =? 1)) (ca_sustains a).

(** [factor_to_sustain_count] as [Block.__init__] builds it from the (unfiltered)
    zip of the crossings handed to it (already filtered by [_create]) and the
    sustain counts: later crossings override earlier ones. *)
Definition sustain_map (a : create_args) : list (nat * nat) :=
  flat_map (fun cs => map (fun f => (f, snd cs)) (fst cs)) (combine (norm_crossings a) (ca_sustains a)).

(** The attributes of the block that [_create] builds, for a design that needs no
    weight desugaring (no weighted non-derived factor outside every crossing),
    given the trial count, common preamble and final crossing weights it arrives at. *)
Definition binfo_of_create (multicross : bool) (a : create_args) (ocs : list cinfo)
           (T P : nat) (ws : list Z) : binfo :=
  {| bi_multicross := multicross;
     bi_design := ca_design a; bi_crossings := norm_crossings a; bi_sustains := ca_sustains a; bi_weights := ws;
     bi_orig_design := ca_design a; bi_orig_crossings := norm_crossings a; bi_orig_constraints := ocs;
     bi_alignment := ca_alignment a; bi_rcc := ca_rcc a; bi_trials := T; bi_common_preamble := P |}.

(** What [_create] does with the constraints it is handed.  It works on private shallow copies
    ([constraints = [copy.copy(ct) for ct in constraints]], /repo commit 88b3d0f): the objects handed
    over are never changed, so a user's constraint object keeps [within_block = None] for ever.  At
    its end [ct.init_within_block(self.get_geometry(0))] on every copy ([orig_constraints]): a
    run-length or Pin constraint that carries no geometry yet gets the new block's geometry [g]; one
    that carries the geometry of the block it comes from ([orig_constraints] of an argument block,
    the outer copies of Nest) keeps it; the other classes have no [init_within_block]. *)
Definition has_within_block (k : ckind) : bool :=
  match k with
  | KAtMost | KAtLeast | KExactlyK | KExactlyKInARow | KExactlyKMultiple | KPin => true
  | KMinimumTrials | KExclude | KOther => false
  end.

Definition init_within_block (g : geometry) (c : cinfo) : cinfo :=
  if has_within_block (c_kind c) then
    match c_wb c with
    | None => {| c_id := c_id c; c_kind := c_kind c; c_param := c_param c; c_wb := Some g |}
    | Some _ => c
    end
  else c.

(** [orig_constraints] of the block that [_create] builds from the arguments [a]; [g] = its [get_geometry(0)] *)
Definition created_constraints (g : geometry) (a : create_args) : list cinfo :=
  map (fun oc => init_within_block g (snd oc)) (ca_constraints a).

(** [binfo_of_create] with the [orig_constraints] that [_create] arrives at *)
Definition block_of_create (multicross : bool) (a : create_args) (g : geometry) (T P : nat) (ws : list Z) : binfo :=
  binfo_of_create multicross a (created_constraints g a) T P ws.
