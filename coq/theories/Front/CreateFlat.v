(** Model of [MultiCrossBlockRepeat._create] itself (with [Block.__init__]): from the
    arguments the constructors hand over (Front/Create.v) to the flat record of the block
    (Design/Flat.v), for designs that need no weight desugaring.

    The design is a list of factor descriptions ([ffactor]); factors and levels are positions.
    Modelled: dropping empty crossings; the constraint list [Cross, Consistency] + desugared
    constraints (+ [Sustain] iff some sustain count differs from 1) + derivations; the
    [MinimumTrials] fold and rounding; [exclude]; [act_design] ([factor_is_implied]);
    crossing sizes = (product of level-weight sums - exclusions) x crossing sustain count;
    preamble sizes; the EQUAL_PREAMBLE check; [trials_per_sample]; crossing weights by mode;
    [_alignment_preamble]; [within_block] initialisation with [get_geometry(0)].
    Taken from the real block as part of the input (not modelled: they call the user's
    predicates): the exclusion count of every crossing ([__count_exclusions]), the generated
    [Derivation] constraints, [excluded_derived], whether [show_errors()] fails.
    Weight desugaring (Front/Desugar.v) is not composed in: a design that needs it is
    [FUnsupported].  No proofs here (Front/CreateFlatProofs.v). *)
From Coq Require Import ZArith List Bool Arith.
From SP Require Import Design.Flat Design.Layout Front.Trials.
Import ListNotations.

Inductive krow := RAtMost | RAtLeast | RExactlyK | RExactlyKInARow | RExactlyKMultiple.

(** a constraint as handed to [_create]: already about one level ([ICon], with the
    [within_block] it has at that moment), or a run-length constraint given a whole factor *)
Inductive iconstraint :=
| ICon (c : fconstraint)
| IKRowFactor (kind : krow) (k : nat) (f : nat) (wb : option geometry).

Record create_input := {
  ci_design : list ffactor;
  ci_crossings : list (list nat);
  ci_sustains : list nat;
  ci_weights : list nat;
  ci_constraints : list iconstraint;
  ci_rcc : bool;
  ci_mode : rmode;
  ci_alignment : alignment;
  ci_exclusions : list nat;                        (* per non-empty crossing *)
  ci_derivations : list fconstraint;
  ci_excluded_derived : list (list (nat * nat));
  ci_errors_fail : bool
}.

Inductive ferr := FUnsupported | FEqualPreamble | FEqualMode | FArith.
Inductive fres := FOk (fb : flat) | FErr (e : ferr).

Definition mk_krow (kind : krow) (k f l : nat) (wb : option geometry) : fconstraint :=
  match kind with
  | RAtMost => FAtMost k f l wb
  | RAtLeast => FAtLeast k f l wb
  | RExactlyK => FExactlyK k f l wb
  | RExactlyKInARow => FExactlyKInARow k f l wb
  | RExactlyKMultiple => FExactlyKMultiple k f l wb
  end.

Definition nlevels_of (design : list ffactor) (f : nat) : nat :=
  match nth_error design f with Some fd => length (ff_levels fd) | None => 0 end.

(** [Constraint.desugar] without replacements.  A run-length constraint on a whole factor becomes one
    [deepcopy] per level; the deep copy also copies an already initialised [within_block] together with
    the factor objects that key its sustain map, so none of the keys is a factor of the design any more
    (harness/flat.py, like [get_trial_numbers], then finds no entry): the map is empty *)
Definition forget_keys (g : geometry) : geometry :=
  {| g_trials := g_trials g; g_preamble := g_preamble g; g_sustain := [] |}.

Definition desugar_constraint (design : list ffactor) (c : iconstraint) : list fconstraint :=
  match c with
  | ICon c => [c]
  | IKRowFactor kind k f wb =>
    map (fun l => mk_krow kind k f l (option_map forget_keys wb)) (seq 0 (nlevels_of design f))
  end.

Definition nonempty_c (c : list nat) : bool := match c with [] => false | _ => true end.
Definition memf (f : nat) (l : list nat) : bool := existsb (Nat.eqb f) l.

(** would [_desugar_factors_with_weights] rewrite the design? *)
Definition needs_desugar (design : list ffactor) (crossings : list (list nat)) : bool :=
  existsb (fun p => match ff_window (snd p) with
                    | None => existsb (fun l => 1 <? lv_weight l) (ff_levels (snd p))
                              && forallb (fun c => negb (memf (fst p) c)) crossings
                    | Some _ => false
                    end) (combine (seq 0 (length design)) design).

(** [g.uses_factor(f)]: g is f, or a derived g one of whose window factors uses f *)
Fixpoint uses (design : list ffactor) (fuel g f : nat) : bool :=
  (g =? f) ||
  match fuel with
  | O => false
  | S fuel' =>
    match nth_error design g with
    | Some fd => match ff_window fd with
                 | Some w => existsb (fun d => uses design fuel' d f) (win_deps w)
                 | None => false
                 end
    | None => false
    end
  end.

Definition constraint_uses (design : list ffactor) (c : fconstraint) (f : nat) : bool :=
  let u g := uses design (length design) g f in
  match c with
  | FAtMost _ g _ _ | FAtLeast _ g _ _ | FExactlyK _ g _ _ | FExactlyKInARow _ g _ _ | FExactlyKMultiple _ g _ _ => u g
  | FExclude g _ => u g
  | FPin _ g _ _ => u g
  | FReify g => u g
  | FLatin gs => existsb u gs
  | FSequential g => u g
  | _ => false
  end.

(** [factor_is_implied] *)
Definition implied (design : list ffactor) (crossings : list (list nat)) (cons : list fconstraint) (f : nat) : bool :=
  match nth_error design f with
  | Some fd =>
    match ff_window fd with
    | None => false
    | Some _ =>
      negb (existsb (fun c => existsb (fun g => uses design (length design) g f) c) crossings)
      && negb (existsb (fun c => constraint_uses design c f) cons)
    end
  | None => false
  end.

Definition init_wb (g : geometry) (c : fconstraint) : fconstraint :=
  match c with
  | FAtMost k f l None => FAtMost k f l (Some g)
  | FAtLeast k f l None => FAtLeast k f l (Some g)
  | FExactlyK k f l None => FExactlyK k f l (Some g)
  | FExactlyKInARow k f l None => FExactlyKInARow k f l (Some g)
  | FExactlyKMultiple k f l None => FExactlyKMultiple k f l (Some g)
  | FPin i f l None => FPin i f l (Some g)
  | c => c
  end.

Definition mkflat design act crossings sustains weights sizes preambles al alpre mint trials rcc excl excld cons errs : flat :=
  {| fl_design := design; fl_act := act; fl_crossings := crossings; fl_sustains := sustains; fl_weights := weights;
     fl_sizes := sizes; fl_preambles := preambles; fl_alignment := al; fl_alignment_preamble := alpre;
     fl_min_trials := mint; fl_trials := trials; fl_rcc := rcc; fl_exclude := excl; fl_excluded_derived := excld;
     fl_constraints := cons; fl_errors_fail := errs |}.

Fixpoint dedup_keys (l : list nat) (seen : list nat) : list nat :=
  match l with
  | [] => []
  | x :: r => if memf x seen then dedup_keys r seen else x :: dedup_keys r (x :: seen)
  end.

Fixpoint all_eq (l : list nat) : bool :=
  match l with
  | x :: ((y :: _) as r) => (x =? y) && all_eq r
  | _ => true
  end.

Definition zs_of (l : list nat) : list Z := map Z.of_nat l.

(** [_create] in stages (named so that Front/CreateFlatProofs.v can reason stage by stage) *)

Definition st_crossings (ci : create_input) : list (list nat) := filter nonempty_c (ci_crossings ci).

(** [Cross, Consistency] + desugared constraints (+ [Sustain]) *)
Definition st_cons (ci : create_input) : list fconstraint :=
  [FCross; FConsistency] ++ flat_map (desugar_constraint (ci_design ci)) (ci_constraints ci)
  ++ (if existsb (fun n => negb (n =? 1)) (ci_sustains ci) then [FSustain] else []).

Definition st_exclude (cons0 : list fconstraint) : list (nat * nat) :=
  flat_map (fun c => match c with FExclude f l => [(f, l)] | _ => [] end) cons0.

Definition st_act (ci : create_input) : list nat :=
  filter (fun f => negb (implied (ci_design ci) (st_crossings ci) (st_cons ci) f)) (seq 0 (length (ci_design ci))).

Definition st_alpre (ci : create_input) : nat :=
  fold_left Nat.max
    (map (fun fd => match ff_window fd with
                    | Some w => if ff_complex fd then win_start w else 0
                    | None => 0
                    end) (ci_design ci)) 0.

(** the record as far as it is known once [sizes] and [pres] are *)
Definition st_flat (ci : create_input) (sizes pres : list nat) : flat :=
  mkflat (ci_design ci) (st_act ci) (st_crossings ci) (ci_sustains ci) (ci_weights ci) sizes pres (ci_alignment ci)
         (st_alpre ci) 0 0 (ci_rcc ci) (st_exclude (st_cons ci)) (ci_excluded_derived ci) (st_cons ci) (ci_errors_fail ci).

Definition st_sizes (ci : create_input) : list nat :=
  let fb1 := st_flat ci [] [] in
  map (fun ce => (crossing_size_no_excl fb1 (fst ce) - snd ce)
                 * match fst ce with f :: _ => sustain_of fb1 f | [] => 1 end)
      (combine (st_crossings ci) (ci_exclusions ci)).

Definition st_geometry (ci : create_input) (pres : list nat) (T : Z) : geometry :=
  let p0 := match st_crossings ci with
            | [] => 0
            | _ => match ci_alignment ci with
                   | PostPreamble => Nat.max (st_alpre ci) (fold_left Nat.max pres 0)
                   | _ => nth 0 pres 0
                   end
            end in
  let keys := dedup_keys (flat_map (fun cs => fst cs) (combine (st_crossings ci) (ci_sustains ci))) [] in
  {| g_trials := Z.to_nat T; g_preamble := p0; g_sustain := map (fun f => (f, 1)) keys |}.

Definition create_flat (ci : create_input) : fres :=
  if needs_desugar (ci_design ci) (st_crossings ci) then FErr FUnsupported else
  let sizes := st_sizes ci in
  match model_preambles (st_flat ci sizes []) with
  | None => FErr FArith
  | Some pres =>
    if match ci_alignment ci with EqualPreamble => negb (all_eq pres) | _ => false end then FErr FEqualPreamble else
    let fb3 := st_flat ci sizes pres in
    match model_trials fb3, model_min_trials fb3 with
    | Some T, Some m =>
      match model_weights fb3 (ci_mode ci) T (zs_of (ci_weights ci)) with
      | WOk ws =>
        FOk (mkflat (ci_design ci) (st_act ci) (st_crossings ci) (ci_sustains ci) (map Z.to_nat ws) sizes pres
                    (ci_alignment ci) (st_alpre ci) (Z.to_nat m) (Z.to_nat T) (ci_rcc ci)
                    (st_exclude (st_cons ci)) (ci_excluded_derived ci)
                    (map (init_wb (st_geometry ci pres T)) (st_cons ci) ++ ci_derivations ci) (ci_errors_fail ci))
      | WErrEqual => FErr FEqualMode
      | _ => FErr FArith
      end
    | _, _ => FErr FArith
    end
  end.
