(** Proofs about Front/CreateFlat.v: the flat record [_create] builds depends on its
    arguments only through the non-empty crossings with their sustain counts and weights
    and on the constraints as a set ([create_flat_respects]). *)
From Coq Require Import ZArith List Bool Arith Lia Permutation.
From SP Require Import Design.Flat Design.Layout Front.Trials Front.TrialsProofs Front.CreateFlat.
Import ListNotations.

(** * Equivalence of inputs and of flat records *)

Definition min_trials_positive (cs : list iconstraint) : Prop :=
  forall n, In (ICon (FMinimumTrials n)) cs -> (0 < n)%Z.

Definition input_equiv (a b : create_input) : Prop :=
  let k := length (st_crossings a) in
  ci_design a = ci_design b /\ st_crossings a = st_crossings b /\
  firstn k (ci_sustains a) = firstn k (ci_sustains b) /\
  Forall (fun n => n = 1) (skipn k (ci_sustains a)) /\ Forall (fun n => n = 1) (skipn k (ci_sustains b)) /\
  firstn k (ci_weights a) = firstn k (ci_weights b) /\
  Permutation (ci_constraints a) (ci_constraints b) /\ min_trials_positive (ci_constraints a) /\
  ci_rcc a = ci_rcc b /\ ci_mode a = ci_mode b /\ ci_alignment a = ci_alignment b /\
  ci_exclusions a = ci_exclusions b /\ ci_derivations a = ci_derivations b /\
  ci_excluded_derived a = ci_excluded_derived b /\ ci_errors_fail a = ci_errors_fail b.

Definition flat_equiv (x y : flat) : Prop :=
  let k := length (fl_crossings x) in
  fl_design x = fl_design y /\ fl_act x = fl_act y /\ fl_crossings x = fl_crossings y /\
  firstn k (fl_sustains x) = firstn k (fl_sustains y) /\ firstn k (fl_weights x) = firstn k (fl_weights y) /\
  fl_sizes x = fl_sizes y /\ fl_preambles x = fl_preambles y /\ fl_alignment x = fl_alignment y /\
  fl_alignment_preamble x = fl_alignment_preamble y /\ fl_min_trials x = fl_min_trials y /\
  fl_trials x = fl_trials y /\ fl_rcc x = fl_rcc y /\
  Permutation (fl_exclude x) (fl_exclude y) /\ fl_excluded_derived x = fl_excluded_derived y /\
  Permutation (fl_constraints x) (fl_constraints y) /\ fl_errors_fail x = fl_errors_fail y.

Definition fres_equiv (x y : fres) : Prop :=
  match x, y with
  | FOk fx, FOk fy => flat_equiv fx fy
  | FErr e, FErr e' => e = e'
  | _, _ => False
  end.

(** * Lists *)

Lemma combine_firstn_l : forall {A B} (l : list A) (m : list B), combine l (firstn (length l) m) = combine l m.
Proof. intros A B l. induction l as [|x l IH]; intros [|y m]; cbn; try reflexivity. rewrite IH. reflexivity. Qed.

Lemma combine_agree : forall {A B} (l : list A) (m m' : list B),
  firstn (length l) m = firstn (length l) m' -> combine l m = combine l m'.
Proof. intros A B l m m' H. rewrite <- (combine_firstn_l l m), <- (combine_firstn_l l m'), H. reflexivity. Qed.

Lemma existsb_perm : forall {A} (P : A -> bool) l l', Permutation l l' -> existsb P l = existsb P l'.
Proof.
  intros A P l l' H. induction H; cbn; try congruence.
  destruct (P x), (P y); reflexivity.
Qed.

Lemma existsb_tail_ones : forall k (l : list nat),
  Forall (fun n => n = 1) (skipn k l) -> existsb (fun n => negb (n =? 1)) l = existsb (fun n => negb (n =? 1)) (firstn k l).
Proof.
  intros k l H. rewrite <- (firstn_skipn k l) at 1. rewrite existsb_app.
  assert (E : existsb (fun n => negb (n =? 1)) (skipn k l) = false).
  { induction (skipn k l) as [|x r IH]; [reflexivity|]. inversion H; subst. cbn. apply IH. assumption. }
  rewrite E. apply orb_false_r.
Qed.

(** * What the trial arithmetic reads of a flat record *)

Definition trial_fields_eq (x y : flat) : Prop :=
  fl_design x = fl_design y /\ fl_crossings x = fl_crossings y /\ fl_sizes x = fl_sizes y /\
  fl_alignment x = fl_alignment y /\ (forall f, sustain_of x f = sustain_of y f).

Lemma applies_at_ext : forall x y f t, trial_fields_eq x y -> applies_at x f t = applies_at y f t.
Proof.
  intros x y f t [Hd [_ [_ [_ Hs]]]]. unfold applies_at, applies_to_trial, factor_at, sustain. rewrite Hd, Hs. reflexivity.
Qed.

Lemma tr_loop_ext : forall x y f size fuel trial counter,
  trial_fields_eq x y -> tr_loop x fuel f size trial counter = tr_loop y fuel f size trial counter.
Proof.
  intros x y f size fuel. induction fuel as [|fuel IH]; intros trial counter H; [reflexivity|].
  cbn [tr_loop]. rewrite (applies_at_ext x y f _ H), (IH _ _ H). reflexivity.
Qed.

Lemma trials_required_ext : forall x y f size, trial_fields_eq x y -> trials_required x f size = trials_required y f size.
Proof.
  intros x y f size H. unfold trials_required, tr_fuel, fstart, fstride, factor_at, sustain.
  destruct H as [Hd [Hc [Hz [Ha Hs]]]]. rewrite Hd, Hs.
  destruct (sustain_of y f =? 0); [reflexivity|]. apply tr_loop_ext. repeat split; assumption.
Qed.

Lemma one_crossing_ext : forall x y c size, trial_fields_eq x y -> trials_for_one_crossing x c size = trials_for_one_crossing y c size.
Proof.
  intros x y c size H. unfold trials_for_one_crossing. f_equal. f_equal. apply map_ext. intro f. apply trials_required_ext. exact H.
Qed.

Lemma trials_for_crossings_ext : forall x y, trial_fields_eq x y -> trials_for_crossings x = trials_for_crossings y.
Proof.
  intros x y H. unfold trials_for_crossings. destruct H as [Hd [Hc [Hz [Ha Hs]]]]. rewrite Ha, Hc, Hz.
  assert (H : trial_fields_eq x y) by (repeat split; assumption).
  destruct (fl_alignment y).
  - destruct (fl_crossings y); [reflexivity|]. f_equal. f_equal. apply map_ext. intro c. apply one_crossing_ext. exact H.
  - f_equal. f_equal. apply map_ext. intro c. apply one_crossing_ext. exact H.
  - f_equal. f_equal. apply map_ext. intro c. apply one_crossing_ext. exact H.
Qed.

Lemma model_preambles_ext : forall x y, trial_fields_eq x y -> model_preambles x = model_preambles y.
Proof.
  intros x y H. unfold model_preambles. destruct H as [Hd [Hc [Hz [Ha Hs]]]]. rewrite Hc, Hz.
  assert (H : trial_fields_eq x y) by (repeat split; assumption).
  f_equal. apply map_ext. intro c. rewrite (one_crossing_ext x y _ _ H). reflexivity.
Qed.

(** * MinimumTrials *)
Open Scope Z_scope.

Fixpoint max_min (l : list fconstraint) : Z :=
  match l with
  | [] => 0
  | FMinimumTrials n :: r => Z.max n (max_min r)
  | _ :: r => max_min r
  end.

Lemma max_min_nonneg : forall l, 0 <= max_min l.
Proof. induction l as [|c l IH]; cbn; [lia|]. destruct c; lia. Qed.

Lemma fold_min_step : forall l m,
  0 <= m -> (forall n, In (FMinimumTrials n) l -> 0 < n) -> fold_left min_step l m = Z.max m (max_min l).
Proof.
  induction l as [|c l IH]; intros m Hm Hp; cbn [fold_left max_min].
  - pose proof (max_min_nonneg []). cbn in *. lia.
  - assert (Hp' : forall n, In (FMinimumTrials n) l -> 0 < n) by (intros n Hn; apply Hp; right; exact Hn).
    pose proof (max_min_nonneg l) as Hnn.
    destruct c; cbn [min_step]; try (rewrite IH by assumption; reflexivity).
    assert (Hn : 0 < n) by (apply Hp; left; reflexivity).
    destruct (m =? 0) eqn:E.
    + apply Z.eqb_eq in E. subst m. rewrite IH by (try assumption; lia). lia.
    + rewrite IH by (try assumption; lia). lia.
Qed.

Lemma max_min_perm : forall l l', Permutation l l' -> max_min l = max_min l'.
Proof.
  intros l l' H. induction H; cbn [max_min]; try congruence.
  - destruct x; congruence.
  - destruct x, y; try reflexivity. lia.
Qed.

Lemma min_trials_raw_eq : forall fb, min_trials_raw fb = fold_left min_step (fl_constraints fb) 0.
Proof. reflexivity. Qed.

Lemma min_trials_raw_perm : forall x y,
  Permutation (fl_constraints x) (fl_constraints y) ->
  (forall n, In (FMinimumTrials n) (fl_constraints x) -> 0 < n) ->
  min_trials_raw x = min_trials_raw y.
Proof.
  intros x y HP Hpos. rewrite !min_trials_raw_eq. rewrite !fold_min_step; try lia; try assumption.
  - rewrite (max_min_perm _ _ HP). reflexivity.
  - intros n Hn. apply Hpos. apply (Permutation_in _ (Permutation_sym HP)). exact Hn.
Qed.

Lemma round_to_1 : forall m, round_to (Some m) 1 = Some m.
Proof. intro m. unfold round_to. cbn. rewrite Z.div_1_r, Z.mul_1_r, Z.eqb_refl. reflexivity. Qed.

Lemma round_fold_tail_ones : forall l m, Forall (fun n => n = 1%nat) l -> fold_left round_to l m = m.
Proof.
  induction l as [|c l IH]; intros m H; [reflexivity|]. inversion H; subst. cbn [fold_left].
  destruct m as [m|]; [rewrite round_to_1|cbn]; apply IH; assumption.
Qed.

Lemma round_min_trials_agree : forall x y m k,
  firstn k (fl_sustains x) = firstn k (fl_sustains y) ->
  Forall (fun n => n = 1%nat) (skipn k (fl_sustains x)) -> Forall (fun n => n = 1%nat) (skipn k (fl_sustains y)) ->
  round_min_trials x m = round_min_trials y m.
Proof.
  intros x y m k H1 H2 H3. unfold round_min_trials.
  assert (Hx : forall l, Forall (fun n => n = 1%nat) (skipn k l) ->
                         fold_left round_to l (Some m) = fold_left round_to (firstn k l) (Some m)).
  { intros l Hl. rewrite <- (firstn_skipn k l) at 1. rewrite fold_left_app. apply round_fold_tail_ones. exact Hl. }
  rewrite (Hx _ H2), (Hx _ H3), H1. reflexivity.
Qed.
Close Scope Z_scope.

(** * Crossing weights *)

Lemma weights_loop_agree : forall eq T n sus sus' pres sizes ws ws',
  firstn n sus = firstn n sus' -> firstn n ws = firstn n ws' ->
  match weights_loop eq T n sus pres sizes ws, weights_loop eq T n sus' pres sizes ws' with
  | WOk r, WOk r' => firstn n r = firstn n r'
  | WErrEqual, WErrEqual | WErrDiv, WErrDiv | WErrIndex, WErrIndex => True
  | _, _ => False
  end.
Proof.
  intros eq T n. induction n as [|n IH]; intros sus sus' pres sizes ws ws' Hs Hw; [reflexivity|].
  cbn [weights_loop].
  destruct sus as [|su sus]; destruct sus' as [|su' sus']; try discriminate Hs; [exact I|].
  destruct pres as [|p pres]; [exact I|]. destruct sizes as [|s sizes]; [exact I|].
  destruct ws as [|w0 ws]; destruct ws' as [|w0' ws']; try discriminate Hw; [exact I|].
  cbn [firstn] in Hs, Hw. inversion Hs; subst su'. inversion Hw; subst w0'.
  specialize (IH sus sus' pres sizes ws ws' H1 H2).
  destruct ((su =? 0) || (s =? 0)); [exact I|].
  set (w := ((T / Z.of_nat su - Z.of_nat p + Z.of_nat s - 1) / Z.of_nat s)%Z).
  destruct (w =? w0)%Z.
  - destruct (weights_loop eq T n sus pres sizes ws), (weights_loop eq T n sus' pres sizes ws'); try exact IH; try contradiction.
    cbn [firstn]. f_equal. exact IH.
  - destruct eq; [exact I|].
    destruct (weights_loop false T n sus pres sizes ws), (weights_loop false T n sus' pres sizes ws'); try exact IH; try contradiction.
    cbn [firstn]. f_equal. exact IH.
Qed.

(** * The stages of [create_flat] under equivalent inputs *)

Section Respects.
Variables a b : create_input.
Hypothesis H : input_equiv a b.

Let k := length (st_crossings a).

Lemma eq_design : ci_design a = ci_design b. Proof. apply H. Qed.
Lemma eq_crossings : st_crossings a = st_crossings b. Proof. apply H. Qed.

Lemma eq_sustains_k : firstn k (ci_sustains a) = firstn k (ci_sustains b). Proof. apply H. Qed.

Lemma perm_cons : Permutation (st_cons a) (st_cons b).
Proof.
  destruct H as [Hd [Hc [Hs [Ha [Hb [Hw [Hp _]]]]]]]. unfold st_cons.
  rewrite (existsb_tail_ones (length (st_crossings a)) (ci_sustains a) Ha).
  rewrite (existsb_tail_ones (length (st_crossings a)) (ci_sustains b) Hb). rewrite Hs, Hd.
  apply Permutation_app_head. apply Permutation_app_tail. apply Permutation_flat_map. exact Hp.
Qed.

Lemma perm_exclude : Permutation (st_exclude (st_cons a)) (st_exclude (st_cons b)).
Proof. unfold st_exclude. apply Permutation_flat_map. apply perm_cons. Qed.

Lemma eq_act : st_act a = st_act b.
Proof.
  unfold st_act. rewrite eq_design. apply filter_ext. intro f. f_equal. unfold implied.
  rewrite <- eq_design, <- eq_crossings.
  destruct (nth_error (ci_design a) f) as [fd|]; [|reflexivity]. destruct (ff_window fd); [|reflexivity].
  f_equal. f_equal. apply existsb_perm. apply perm_cons.
Qed.

Lemma eq_alpre : st_alpre a = st_alpre b.
Proof. unfold st_alpre. rewrite eq_design. reflexivity. Qed.

Lemma eq_sustain_of : forall sa pa sb pb f, sustain_of (st_flat a sa pa) f = sustain_of (st_flat b sb pb) f.
Proof.
  intros. unfold sustain_of. cbn [st_flat mkflat fl_crossings fl_sustains]. rewrite <- eq_crossings.
  rewrite (combine_agree (st_crossings a) (ci_sustains a) (ci_sustains b) eq_sustains_k). reflexivity.
Qed.

Lemma tfe : forall s pa pb, trial_fields_eq (st_flat a s pa) (st_flat b s pb).
Proof.
  intros s pa pb. unfold trial_fields_eq. cbn [st_flat mkflat fl_design fl_crossings fl_sizes fl_alignment].
  destruct H as [Hd [Hc [_ [_ [_ [_ [_ [_ [_ [_ [Hal _]]]]]]]]]]].
  repeat split; try assumption. intro f. apply eq_sustain_of.
Qed.

Lemma crossing_size_ext : forall x y c, fl_design x = fl_design y -> crossing_size_no_excl x c = crossing_size_no_excl y c.
Proof. intros x y c Hd. unfold crossing_size_no_excl, level_weight_sum, factor_at. rewrite Hd. reflexivity. Qed.

Lemma eq_sizes : st_sizes a = st_sizes b.
Proof.
  unfold st_sizes. rewrite <- eq_crossings.
  assert (He : ci_exclusions a = ci_exclusions b) by apply H. rewrite <- He.
  apply map_ext. intros [c e]. cbn [fst snd]. f_equal.
  - f_equal. apply crossing_size_ext. cbn. apply eq_design.
  - destruct c; [reflexivity|]. apply eq_sustain_of.
Qed.

Lemma cons_min_positive : forall n, In (FMinimumTrials n) (st_cons a) -> (0 < n)%Z.
Proof.
  intros n Hin. destruct H as [_ [_ [_ [_ [_ [_ [_ [Hpos _]]]]]]]]. unfold st_cons in Hin.
  cbn [app] in Hin. destruct Hin as [E|[E|Hin]]; try discriminate.
  apply in_app_or in Hin. destruct Hin as [Hin|Hin].
  - apply in_flat_map in Hin. destruct Hin as [c [Hc Hin]]. destruct c as [c|kind k0 f wb]; cbn in Hin.
    + destruct Hin as [E|[]]. subst c. apply Hpos. exact Hc.
    + apply in_map_iff in Hin. destruct Hin as [l [E _]]. destruct kind; discriminate.
  - destruct (existsb _ _); [destruct Hin as [E|[]]; discriminate | destruct Hin].
Qed.

Lemma eq_min_trials : forall s p, model_min_trials (st_flat a s p) = model_min_trials (st_flat b s p).
Proof.
  intros s p. unfold model_min_trials.
  rewrite (min_trials_raw_perm (st_flat a s p) (st_flat b s p)); [|apply perm_cons|apply cons_min_positive].
  destruct H as [_ [_ [Hs [Ha [Hb _]]]]].
  apply (round_min_trials_agree _ _ _ (length (st_crossings a))); assumption.
Qed.

Lemma eq_trials : forall s p, model_trials (st_flat a s p) = model_trials (st_flat b s p).
Proof.
  intros s p. unfold model_trials. rewrite (trials_for_crossings_ext _ _ (tfe s p p)), eq_min_trials. reflexivity.
Qed.

Lemma eq_geometry : forall pres T, st_geometry a pres T = st_geometry b pres T.
Proof.
  intros pres T. unfold st_geometry. rewrite <- eq_crossings, <- eq_alpre.
  assert (Hal : ci_alignment a = ci_alignment b) by apply H. rewrite <- Hal.
  rewrite (combine_agree (st_crossings a) (ci_sustains a) (ci_sustains b) eq_sustains_k). reflexivity.
Qed.

Theorem create_flat_respects_ab : fres_equiv (create_flat a) (create_flat b).
Proof.
  unfold create_flat. rewrite <- eq_design, <- eq_crossings, <- eq_sizes.
  destruct (needs_desugar (ci_design a) (st_crossings a)); [reflexivity|].
  rewrite <- (model_preambles_ext _ _ (tfe (st_sizes a) [] [])).
  destruct (model_preambles (st_flat a (st_sizes a) [])) as [pres|]; [|reflexivity].
  assert (Hal : ci_alignment a = ci_alignment b) by apply H. rewrite <- Hal.
  destruct (match ci_alignment a with EqualPreamble => negb (all_eq pres) | _ => false end); [reflexivity|].
  rewrite <- eq_trials, <- eq_min_trials.
  destruct (model_trials (st_flat a (st_sizes a) pres)) as [T|]; [|reflexivity].
  destruct (model_min_trials (st_flat a (st_sizes a) pres)) as [m|]; [|reflexivity].
  assert (Hmode : ci_mode a = ci_mode b) by apply H. rewrite <- Hmode.
  assert (Hw : firstn k (ci_weights a) = firstn k (ci_weights b)) by apply H.
  (* the weights *)
  assert (HW : match model_weights (st_flat a (st_sizes a) pres) (ci_mode a) T (zs_of (ci_weights a)),
                     model_weights (st_flat b (st_sizes a) pres) (ci_mode a) T (zs_of (ci_weights b)) with
               | WOk r, WOk r' => firstn k r = firstn k r'
               | WErrEqual, WErrEqual | WErrDiv, WErrDiv | WErrIndex, WErrIndex => True
               | _, _ => False
               end).
  { unfold model_weights. cbn [st_flat mkflat fl_crossings fl_sustains fl_preambles fl_sizes]. rewrite <- eq_crossings. fold k.
    assert (Hz : firstn k (zs_of (ci_weights a)) = firstn k (zs_of (ci_weights b)))
      by (unfold zs_of; rewrite !firstn_map, Hw; reflexivity).
    destruct (ci_mode a).
    - apply weights_loop_agree; [apply eq_sustains_k | exact Hz].
    - exact Hz.
    - apply weights_loop_agree; [apply eq_sustains_k | exact Hz]. }
  destruct (model_weights (st_flat a (st_sizes a) pres) (ci_mode a) T (zs_of (ci_weights a))) as [r| | |];
    destruct (model_weights (st_flat b (st_sizes a) pres) (ci_mode a) T (zs_of (ci_weights b))) as [r'| | |];
    try contradiction; try reflexivity.
  cbn [fres_equiv]. unfold flat_equiv. cbn [mkflat fl_design fl_act fl_crossings fl_sustains fl_weights fl_sizes fl_preambles
    fl_alignment fl_alignment_preamble fl_min_trials fl_trials fl_rcc fl_exclude fl_excluded_derived fl_constraints fl_errors_fail].
  fold k.
  split; [reflexivity|]. split; [apply eq_act|]. split; [reflexivity|]. split; [apply eq_sustains_k|].
  split; [rewrite !firstn_map, HW; reflexivity|]. split; [reflexivity|]. split; [reflexivity|]. split; [reflexivity|].
  split; [apply eq_alpre|]. split; [reflexivity|]. split; [reflexivity|]. split; [apply H|].
  split; [apply perm_exclude|]. split; [apply H|]. split; [|apply H].
  rewrite <- eq_geometry. assert (Hd : ci_derivations a = ci_derivations b) by apply H. rewrite <- Hd.
  apply Permutation_app_tail. apply Permutation_map. apply perm_cons.
Qed.
End Respects.

Theorem create_flat_respects : forall a b, input_equiv a b -> fres_equiv (create_flat a) (create_flat b).
Proof. intros a b H. apply create_flat_respects_ab. exact H. Qed.

(** * The documented equivalences at the level of the flat record *)

Definition with_constraints (ci : create_input) (cs : list iconstraint) : create_input :=
  {| ci_design := ci_design ci; ci_crossings := ci_crossings ci; ci_sustains := ci_sustains ci; ci_weights := ci_weights ci;
     ci_constraints := cs; ci_rcc := ci_rcc ci; ci_mode := ci_mode ci; ci_alignment := ci_alignment ci;
     ci_exclusions := ci_exclusions ci; ci_derivations := ci_derivations ci;
     ci_excluded_derived := ci_excluded_derived ci; ci_errors_fail := ci_errors_fail ci |}.

Lemma Forall_ones_skipn : forall {A} (l : list A) k, Forall (fun n => n = 1) (skipn k (map (fun _ => 1) l)).
Proof.
  intros A l k. apply Forall_forall. intros x Hx.
  assert (Hin : In x (map (fun _ : A => 1) l)).
  { rewrite <- (firstn_skipn k (map (fun _ : A => 1) l)). apply in_or_app. right. exact Hx. }
  apply in_map_iff in Hin. destruct Hin as [_ [E _]]. auto.
Qed.

(** Repeat(block, cs) hands [_create] the block's constraints followed by [cs], Merge([block], cs, ...)
    [cs] followed by the block's (everything else equal, C24_repeat_eq_merge): same flat record up to
    the order of the constraints *)
Theorem flat_repeat_merge : forall ci cb own,
  Forall (fun n => n = 1) (skipn (length (st_crossings ci)) (ci_sustains ci)) ->
  min_trials_positive (cb ++ own) ->
  fres_equiv (create_flat (with_constraints ci (cb ++ own))) (create_flat (with_constraints ci (own ++ cb))).
Proof.
  intros ci cb own Hones Hpos. apply create_flat_respects. unfold input_equiv, with_constraints, st_crossings. cbn.
  repeat split; try assumption. apply Permutation_app_comm.
Qed.

(** MultiCrossBlock hands [_create] all its crossings (possibly empty ones) with one count 1 and one
    weight 1 each; the Merge of CrossBlocks only the non-empty crossings with theirs
    (C24_multicross_eq_merge): same flat record up to the placeholder counts and weights *)
Definition drop_empty (ci : create_input) : create_input :=
  {| ci_design := ci_design ci; ci_crossings := st_crossings ci;
     ci_sustains := map (fun _ => 1) (st_crossings ci); ci_weights := map (fun _ => 1) (st_crossings ci);
     ci_constraints := ci_constraints ci; ci_rcc := ci_rcc ci; ci_mode := ci_mode ci; ci_alignment := ci_alignment ci;
     ci_exclusions := ci_exclusions ci; ci_derivations := ci_derivations ci;
     ci_excluded_derived := ci_excluded_derived ci; ci_errors_fail := ci_errors_fail ci |}.

Lemma filter_nonempty_idem : forall l, filter nonempty_c (filter nonempty_c l) = filter nonempty_c l.
Proof.
  induction l as [|c l IH]; [reflexivity|]. cbn [filter]. destruct (nonempty_c c) eqn:E; cbn [filter]; [rewrite E, IH|]; auto.
Qed.

Lemma firstn_ones_le : forall {A B} (l : list A) (l' : list B),
  length l' <= length l -> firstn (length l') (map (fun _ => 1) l) = map (fun _ => 1) l'.
Proof.
  intros A B l. induction l as [|x l IH]; intros [|y l'] Hle; cbn in *; try reflexivity; try lia. f_equal. apply IH. lia.
Qed.

Lemma filter_le : forall {A} (P : A -> bool) l, length (filter P l) <= length l.
Proof. intros A P l. induction l as [|x l IH]; cbn [filter length]; [lia|]. destruct (P x); cbn [length]; lia. Qed.

Theorem flat_multi_merge : forall ci,
  ci_sustains ci = map (fun _ => 1) (ci_crossings ci) -> ci_weights ci = map (fun _ => 1) (ci_crossings ci) ->
  min_trials_positive (ci_constraints ci) ->
  fres_equiv (create_flat ci) (create_flat (drop_empty ci)).
Proof.
  intros ci Hs Hw Hpos. apply create_flat_respects. unfold input_equiv, drop_empty, st_crossings. cbn.
  rewrite filter_nonempty_idem, Hs, Hw.
  assert (Hle : length (filter nonempty_c (ci_crossings ci)) <= length (ci_crossings ci)) by apply filter_le.
  rewrite !(firstn_ones_le _ _ Hle), !(firstn_ones_le _ _ (le_n _)).
  repeat split; try assumption; try apply Forall_ones_skipn. apply Permutation_refl.
Qed.

(** identical arguments give the identical record (CrossBlock vs MultiCrossBlock in WEIGHT mode) *)
Lemma fres_equiv_refl_ok : forall ci fb, create_flat ci = FOk fb -> flat_equiv fb fb.
Proof. intros ci fb _. unfold flat_equiv. repeat split; reflexivity || apply Permutation_refl. Qed.

(** * ... and as statements about valid sequences
    [sem_of] is the reading of a flat record as a reference-semantics normal form (in the
    development: Encode/CodeSem.v's [code_sem], compared with the real samplers on every run).
    The hypothesis left is about that reading, no longer about [_create]: it looks at the record
    only up to [flat_equiv] (sustain counts and weights of actual crossings, constraints and
    exclusions as sets). *)
From SP Require Import Design.Sem.

Section SemOf.
Variable sem_of : flat -> sem.
Hypothesis sem_of_respects : forall x y, flat_equiv x y -> forall s, valid_b (sem_of x) s = valid_b (sem_of y) s.

Theorem respects_valid : forall a b x y s,
  input_equiv a b -> create_flat a = FOk x -> create_flat b = FOk y -> valid_b (sem_of x) s = valid_b (sem_of y) s.
Proof.
  intros a b x y s Hab Hx Hy. apply sem_of_respects.
  pose proof (create_flat_respects a b Hab) as E. rewrite Hx, Hy in E. exact E.
Qed.

Theorem repeat_merge_valid_flat : forall ci cb own x y s,
  Forall (fun n => n = 1) (skipn (length (st_crossings ci)) (ci_sustains ci)) ->
  min_trials_positive (cb ++ own) ->
  create_flat (with_constraints ci (cb ++ own)) = FOk x -> create_flat (with_constraints ci (own ++ cb)) = FOk y ->
  valid_b (sem_of x) s = valid_b (sem_of y) s.
Proof.
  intros ci cb own x y s H1 H2 Hx Hy. apply sem_of_respects.
  pose proof (flat_repeat_merge ci cb own H1 H2) as E. rewrite Hx, Hy in E. exact E.
Qed.

Theorem multi_merge_valid_flat : forall ci x y s,
  ci_sustains ci = map (fun _ => 1) (ci_crossings ci) -> ci_weights ci = map (fun _ => 1) (ci_crossings ci) ->
  min_trials_positive (ci_constraints ci) ->
  create_flat ci = FOk x -> create_flat (drop_empty ci) = FOk y ->
  valid_b (sem_of x) s = valid_b (sem_of y) s.
Proof.
  intros ci x y s H1 H2 H3 Hx Hy. apply sem_of_respects.
  pose proof (flat_multi_merge ci H1 H2 H3) as E. rewrite Hx, Hy in E. exact E.
Qed.
End SemOf.

(** equivalent inputs are accepted or rejected alike *)
Theorem respects_outcome : forall a b, input_equiv a b ->
  (forall e, create_flat a = FErr e <-> create_flat b = FErr e).
Proof.
  intros a b Hab e. pose proof (create_flat_respects a b Hab) as E.
  destruct (create_flat a) as [x|ea], (create_flat b) as [y|eb]; cbn in E; try contradiction; split; intro Hc; try discriminate; congruence.
Qed.

(** * Example: a block with an empty crossing and two constraints *)
Require Import String.
Open Scope string_scope.
Definition ex_lv (n : string) : flevel := {| lv_name := n; lv_weight := 1; lv_accepts := [] |}.
Definition ex_fac (n a b : string) : ffactor :=
  {| ff_name := n; ff_hidden := false; ff_levels := [ex_lv a; ex_lv b]; ff_window := None; ff_complex := false |}.
Definition ex_input : create_input :=
  {| ci_design := [ex_fac "A" "a0" "a1"; ex_fac "B" "b0" "b1"]; ci_crossings := [[0]; []; [1]];
     ci_sustains := [1; 1; 1]; ci_weights := [1; 1; 1];
     ci_constraints := [ICon (FMinimumTrials 3); IKRowFactor RAtMost 1 0 None];
     ci_rcc := true; ci_mode := MRepeat; ci_alignment := EqualPreamble;
     ci_exclusions := [0; 0]; ci_derivations := []; ci_excluded_derived := []; ci_errors_fail := false |}.

Lemma ex_input_flat :
  exists fb, create_flat ex_input = FOk fb /\ fl_trials fb = 3 /\ fl_crossings fb = [[0]; [1]] /\ fl_sustains fb = [1; 1; 1] /\
    fl_constraints fb = [FCross; FConsistency; FMinimumTrials 3;
                         FAtMost 1 0 0 (Some {| g_trials := 3; g_preamble := 0; g_sustain := [(0, 1); (1, 1)] |});
                         FAtMost 1 0 1 (Some {| g_trials := 3; g_preamble := 0; g_sustain := [(0, 1); (1, 1)] |})] /\
  exists fb', create_flat (drop_empty ex_input) = FOk fb' /\ fl_sustains fb' = [1; 1] /\ flat_equiv fb fb'.
Proof.
  eexists. split; [vm_compute; reflexivity|]. repeat split.
  eexists. split; [vm_compute; reflexivity|]. split; [reflexivity|].
  unfold flat_equiv. cbn. repeat split; apply Permutation_refl.
Qed.

(** * Building again from a built block: Repeat(block, []) and Merge([block]) *)
Close Scope string_scope.

(** the constraints of a built block as a later constructor sees them ([orig_constraints], whose
    [within_block] has been initialised with the block's geometry [g]) *)
Definition reinit (g : geometry) (c : iconstraint) : iconstraint :=
  match c with ICon c => ICon (init_wb g c) | c => c end.

Definition all_level_constraints (cs : list iconstraint) : Prop :=
  forall c, In c cs -> exists c0, c = ICon c0.

(** the arguments a constructor passes on when it re-creates the block [fb] built from [ci]:
    filtered crossings, all sustain counts, the final weights, the initialised constraints, REPEAT
    mode, alignment [al] *)
Definition again (ci : create_input) (fb : flat) (al : alignment) : create_input :=
  {| ci_design := ci_design ci; ci_crossings := st_crossings ci; ci_sustains := ci_sustains ci;
     ci_weights := fl_weights fb;
     ci_constraints := map (reinit (st_geometry ci (fl_preambles fb) (Z.of_nat (fl_trials fb)))) (ci_constraints ci);
     ci_rcc := ci_rcc ci; ci_mode := MRepeat; ci_alignment := al;
     ci_exclusions := ci_exclusions ci; ci_derivations := ci_derivations ci;
     ci_excluded_derived := ci_excluded_derived ci; ci_errors_fail := ci_errors_fail ci |}.

Definition with_alignment (fb : flat) (al : alignment) : flat :=
  mkflat (fl_design fb) (fl_act fb) (fl_crossings fb) (fl_sustains fb) (fl_weights fb) (fl_sizes fb) (fl_preambles fb) al
         (fl_alignment_preamble fb) (fl_min_trials fb) (fl_trials fb) (fl_rcc fb) (fl_exclude fb) (fl_excluded_derived fb)
         (fl_constraints fb) (fl_errors_fail fb).

Lemma init_wb_idem : forall g c, init_wb g (init_wb g c) = init_wb g c.
Proof. intros g c. destruct c; try reflexivity; destruct wb; reflexivity. Qed.

Lemma constraint_uses_init : forall d g c f, constraint_uses d (init_wb g c) f = constraint_uses d c f.
Proof. intros d g c f. destruct c; try reflexivity; destruct wb; reflexivity. Qed.

Lemma st_exclude_init : forall g l, st_exclude (map (init_wb g) l) = st_exclude l.
Proof.
  intros g l. unfold st_exclude. induction l as [|c l IH]; [reflexivity|]. cbn [map flat_map]. rewrite IH.
  f_equal. destruct c; try reflexivity; destruct wb; reflexivity.
Qed.

Lemma min_fold_init : forall g l m, fold_left min_step (map (init_wb g) l) m = fold_left min_step l m.
Proof.
  intros g l. induction l as [|c l IH]; intro m; [reflexivity|]. cbn [map fold_left]. rewrite IH. f_equal.
  destruct c; try reflexivity; destruct wb; reflexivity.
Qed.

Lemma desugar_reinit : forall d g cs,
  all_level_constraints cs ->
  flat_map (desugar_constraint d) (map (reinit g) cs) = map (init_wb g) (flat_map (desugar_constraint d) cs).
Proof.
  intros d g cs. induction cs as [|c cs IH]; intro Hall; [reflexivity|].
  cbn [map flat_map]. rewrite map_app, IH by (intros c' Hc'; apply Hall; right; exact Hc').
  destruct (Hall c (or_introl eq_refl)) as [c0 ->]. reflexivity.
Qed.

Lemma st_cons_again : forall ci fb al,
  all_level_constraints (ci_constraints ci) ->
  st_cons (again ci fb al) = map (init_wb (st_geometry ci (fl_preambles fb) (Z.of_nat (fl_trials fb)))) (st_cons ci).
Proof.
  intros ci fb al Hall. unfold st_cons. cbn [again ci_design ci_constraints ci_sustains].
  rewrite desugar_reinit by exact Hall. rewrite !map_app. cbn [map init_wb]. f_equal. f_equal.
  destruct (existsb _ (ci_sustains ci)); reflexivity.
Qed.

Lemma st_crossings_again : forall ci fb al, st_crossings (again ci fb al) = st_crossings ci.
Proof. intros. unfold st_crossings. cbn [again ci_crossings]. apply filter_nonempty_idem. Qed.

Lemma existsb_map_ext : forall {A B} (h : A -> B) (P : B -> bool) (Q : A -> bool) l,
  (forall x, P (h x) = Q x) -> existsb P (map h l) = existsb Q l.
Proof. intros A B h P Q l Hx. induction l as [|x l IH]; [reflexivity|]. cbn. rewrite Hx, IH. reflexivity. Qed.

Lemma st_act_again : forall ci fb al, all_level_constraints (ci_constraints ci) -> st_act (again ci fb al) = st_act ci.
Proof.
  intros ci fb al Hall. unfold st_act. rewrite st_crossings_again, st_cons_again by exact Hall.
  cbn [again ci_design]. apply filter_ext. intro f. f_equal. unfold implied.
  destruct (nth_error (ci_design ci) f) as [fd|]; [|reflexivity]. destruct (ff_window fd); [|reflexivity].
  f_equal. f_equal. apply existsb_map_ext. intro c. apply constraint_uses_init.
Qed.

(** the trial arithmetic does not distinguish PARALLEL_START from EQUAL_PREAMBLE *)
Definition trial_fields_eq' (x y : flat) : Prop :=
  fl_design x = fl_design y /\ fl_crossings x = fl_crossings y /\ fl_sizes x = fl_sizes y /\
  fl_alignment x <> PostPreamble /\ fl_alignment y <> PostPreamble /\ (forall f, sustain_of x f = sustain_of y f).

Lemma tr_loop_ext0 : forall x y f size fuel trial counter,
  fl_design x = fl_design y -> (forall g, sustain_of x g = sustain_of y g) ->
  tr_loop x fuel f size trial counter = tr_loop y fuel f size trial counter.
Proof.
  intros x y f size fuel. induction fuel as [|fuel IH]; intros trial counter Hd Hs; [reflexivity|].
  cbn [tr_loop].
  assert (E : applies_at x f (Datatypes.S trial) = applies_at y f (Datatypes.S trial)).
  { unfold applies_at, applies_to_trial, factor_at, sustain. rewrite Hd, Hs. reflexivity. }
  rewrite E, (IH _ _ Hd Hs). reflexivity.
Qed.

Lemma tfe'_required : forall x y f size, trial_fields_eq' x y -> trials_required x f size = trials_required y f size.
Proof.
  intros x y f size [Hd [Hc [Hz [_ [_ Hs]]]]]. unfold trials_required, tr_fuel, fstart, fstride, factor_at, sustain.
  rewrite Hd, Hs. destruct (sustain_of y f =? 0); [reflexivity|]. apply tr_loop_ext0; assumption.
Qed.

Lemma tfe'_one : forall x y c size, trial_fields_eq' x y -> trials_for_one_crossing x c size = trials_for_one_crossing y c size.
Proof. intros x y c size Hxy. unfold trials_for_one_crossing. f_equal. f_equal. apply map_ext. intro f. apply tfe'_required. exact Hxy. Qed.

Lemma tfe'_crossings : forall x y, trial_fields_eq' x y -> trials_for_crossings x = trials_for_crossings y.
Proof.
  intros x y Hxy. pose proof Hxy as [Hd [Hc [Hz [Hax [Hay Hs]]]]]. unfold trials_for_crossings. rewrite Hc, Hz.
  destruct (fl_alignment x); [congruence| |]; destruct (fl_alignment y); try congruence;
    f_equal; f_equal; apply map_ext; intro c; apply tfe'_one; exact Hxy.
Qed.

Lemma tfe'_preambles : forall x y, trial_fields_eq' x y -> model_preambles x = model_preambles y.
Proof.
  intros x y Hxy. pose proof Hxy as [Hd [Hc [Hz _]]]. unfold model_preambles. rewrite Hc, Hz.
  f_equal. apply map_ext. intro c. rewrite (tfe'_one x y _ _ Hxy). reflexivity.
Qed.

Lemma sustain_of_again : forall ci fb al s p s' p' f,
  sustain_of (st_flat (again ci fb al) s p) f = sustain_of (st_flat ci s' p') f.
Proof.
  intros. unfold sustain_of. cbn [st_flat mkflat fl_crossings fl_sustains]. rewrite st_crossings_again. reflexivity.
Qed.

Lemma st_alpre_again : forall ci fb al, st_alpre (again ci fb al) = st_alpre ci.
Proof. reflexivity. Qed.

Lemma st_sizes_again : forall ci fb al, st_sizes (again ci fb al) = st_sizes ci.
Proof.
  intros ci fb al. unfold st_sizes. rewrite st_crossings_again. cbn [again ci_exclusions].
  apply map_ext. intros [c e]. cbn [fst snd].
  replace (crossing_size_no_excl (st_flat (again ci fb al) [] []) c) with (crossing_size_no_excl (st_flat ci [] []) c)
    by (apply crossing_size_ext; reflexivity).
  f_equal. destruct c; [reflexivity|]. apply sustain_of_again.
Qed.

Lemma tfe'_again : forall ci fb al s p p',
  ci_alignment ci <> PostPreamble -> al <> PostPreamble ->
  trial_fields_eq' (st_flat (again ci fb al) s p) (st_flat ci s p').
Proof.
  intros ci fb al s p p' H1 H2. unfold trial_fields_eq'. cbn [st_flat mkflat fl_design fl_crossings fl_sizes fl_alignment].
  rewrite st_crossings_again. cbn [again ci_design ci_alignment]. repeat split; try assumption.
  intro f. apply sustain_of_again.
Qed.

Lemma to_nat_zs : forall l, map Z.to_nat (zs_of l) = l.
Proof. intro l. unfold zs_of. rewrite map_map. rewrite <- (map_id l) at 2. apply map_ext. intro n. apply Nat2Z.id. Qed.

(** re-creating a built block with its own (filtered) crossings, its final weights in REPEAT mode and
    its initialised constraints gives the same flat record, for any non-POST alignment [al] that the
    EQUAL_PREAMBLE check admits (the record then carries [al]) *)
Theorem create_again : forall ci fb al,
  create_flat ci = FOk fb -> all_level_constraints (ci_constraints ci) ->
  ci_alignment ci <> PostPreamble -> al <> PostPreamble ->
  (al = EqualPreamble -> all_eq (fl_preambles fb) = true) ->
  create_flat (again ci fb al) = FOk (with_alignment fb al).
Proof.
  intros ci fb al Hc Hall Ha1 Ha2 Heq.
  unfold create_flat in Hc.
  destruct (needs_desugar (ci_design ci) (st_crossings ci)) eqn:Hnd; [discriminate|].
  destruct (model_preambles (st_flat ci (st_sizes ci) [])) as [pres|] eqn:Hp; [|discriminate].
  destruct (match ci_alignment ci with EqualPreamble => negb (all_eq pres) | _ => false end) eqn:He; [discriminate|].
  destruct (model_trials (st_flat ci (st_sizes ci) pres)) as [T|] eqn:HT; [|discriminate].
  destruct (model_min_trials (st_flat ci (st_sizes ci) pres)) as [m|] eqn:Hm; [|discriminate].
  destruct (model_weights (st_flat ci (st_sizes ci) pres) (ci_mode ci) T (zs_of (ci_weights ci))) as [ws| | |] eqn:Hw;
    try discriminate.
  injection Hc as Hfb.
  assert (HT1 : (1 <= T)%Z).
  { destruct (model_trials_ge_min _ _ HT) as [_ [_ [t [_ [_ H1]]]]]. exact H1. }
  (* the fields of [fb] that [again] reads *)
  assert (Hpres : fl_preambles fb = pres) by (rewrite <- Hfb; reflexivity).
  assert (Htr : fl_trials fb = Z.to_nat T) by (rewrite <- Hfb; reflexivity).
  assert (Hwts : fl_weights fb = map Z.to_nat ws) by (rewrite <- Hfb; reflexivity).
  set (g := st_geometry ci (fl_preambles fb) (Z.of_nat (fl_trials fb))).
  assert (Hg : g = st_geometry ci pres T) by (unfold g; rewrite Hpres, Htr, Z2Nat.id by lia; reflexivity).
  unfold create_flat. rewrite st_crossings_again, st_sizes_again.
  change (ci_design (again ci fb al)) with (ci_design ci). rewrite Hnd.
  rewrite (tfe'_preambles _ _ (tfe'_again ci fb al (st_sizes ci) [] [] Ha1 Ha2)), Hp.
  change (ci_alignment (again ci fb al)) with al. change (ci_mode (again ci fb al)) with MRepeat.
  change (ci_weights (again ci fb al)) with (fl_weights fb). change (ci_rcc (again ci fb al)) with (ci_rcc ci).
  change (ci_sustains (again ci fb al)) with (ci_sustains ci).
  change (ci_excluded_derived (again ci fb al)) with (ci_excluded_derived ci).
  change (ci_derivations (again ci fb al)) with (ci_derivations ci).
  change (ci_errors_fail (again ci fb al)) with (ci_errors_fail ci).
  assert (Hchk : match al with EqualPreamble => negb (all_eq pres) | _ => false end = false).
  { destruct al; try reflexivity. rewrite <- Hpres, (Heq eq_refl). reflexivity. }
  rewrite Hchk.
  (* trials and min_trials *)
  assert (Hmin' : model_min_trials (st_flat (again ci fb al) (st_sizes ci) pres) = Some m).
  { rewrite <- Hm. unfold model_min_trials. rewrite !min_trials_raw_eq.
    cbn [st_flat mkflat fl_constraints]. rewrite st_cons_again by exact Hall. rewrite min_fold_init.
    unfold round_min_trials. reflexivity. }
  assert (HT' : model_trials (st_flat (again ci fb al) (st_sizes ci) pres) = Some T).
  { rewrite <- HT. unfold model_trials. rewrite Hmin', Hm.
    rewrite (tfe'_crossings _ _ (tfe'_again ci fb al (st_sizes ci) pres pres Ha1 Ha2)). reflexivity. }
  rewrite HT', Hmin'. cbn [model_weights].
  rewrite Hwts, to_nat_zs.
  rewrite st_act_again by exact Hall. rewrite st_cons_again by exact Hall. fold g.
  rewrite st_exclude_init.
  assert (Hg' : st_geometry (again ci fb al) pres T = g).
  { rewrite Hg. unfold st_geometry. rewrite st_crossings_again.
    change (ci_alignment (again ci fb al)) with al. change (ci_sustains (again ci fb al)) with (ci_sustains ci).
    rewrite st_alpre_again. destruct (st_crossings ci); [reflexivity|].
    destruct al; [congruence| |]; destruct (ci_alignment ci); try congruence; reflexivity. }
  rewrite Hg'. rewrite map_map. rewrite (map_ext _ (init_wb g) (fun c => init_wb_idem g c)).
  f_equal. rewrite <- Hfb. unfold with_alignment. cbn [mkflat fl_design fl_act fl_crossings fl_sustains fl_weights fl_sizes
    fl_preambles fl_alignment_preamble fl_min_trials fl_trials fl_rcc fl_exclude fl_excluded_derived fl_constraints fl_errors_fail].
  rewrite <- Hg. reflexivity.
Qed.

Lemma create_flat_equal_preamble : forall ci fb,
  create_flat ci = FOk fb -> ci_alignment ci = EqualPreamble -> all_eq (fl_preambles fb) = true.
Proof.
  intros ci fb Hc Hal. unfold create_flat in Hc.
  destruct (needs_desugar _ _); [discriminate|].
  destruct (model_preambles _) as [pres|]; [|discriminate]. rewrite Hal in Hc.
  destruct (all_eq pres) eqn:E; cbn [negb] in Hc; [|discriminate].
  destruct (model_trials _); [|discriminate]. destruct (model_min_trials _); [|discriminate].
  destruct (model_weights _ _ _ _); try discriminate. injection Hc as <-. exact E.
Qed.

Lemma create_flat_alignment : forall ci fb, create_flat ci = FOk fb -> fl_alignment fb = ci_alignment ci.
Proof.
  intros ci fb Hc. unfold create_flat in Hc.
  destruct (needs_desugar _ _); [discriminate|].
  destruct (model_preambles _) as [pres|]; [|discriminate].
  destruct (match ci_alignment ci with EqualPreamble => _ | _ => _ end); [discriminate|].
  destruct (model_trials _); [|discriminate]. destruct (model_min_trials _); [|discriminate].
  destruct (model_weights _ _ _ _); try discriminate. injection Hc as <-. reflexivity.
Qed.

Lemma with_alignment_same : forall fb, with_alignment fb (fl_alignment fb) = fb.
Proof. intros []. reflexivity. Qed.

(** Repeat(block, []): the block's original design and crossings, all its sustain counts, its final
    weights, its constraints, REPEAT mode, EQUAL_PREAMBLE - the same flat record (carrying
    EQUAL_PREAMBLE), for a block that is not aligned POST_PREAMBLE and has equal preamble sizes
    (otherwise Repeat raises, as documented) *)
Theorem repeat_nil_flat : forall ci fb,
  create_flat ci = FOk fb -> all_level_constraints (ci_constraints ci) ->
  ci_alignment ci <> PostPreamble -> all_eq (fl_preambles fb) = true ->
  create_flat (again ci fb EqualPreamble) = FOk (with_alignment fb EqualPreamble).
Proof. intros ci fb Hc Hall Ha Heq. apply create_again; try assumption; [discriminate | intros _; exact Heq]. Qed.

(** Merge([block]) (REPEAT mode, the block's alignment): the block's crossings with the sustain counts
    and weights of those crossings only *)
Definition merge_again (ci : create_input) (fb : flat) : create_input :=
  let k := List.length (st_crossings ci) in
  let a := again ci fb (ci_alignment ci) in
  {| ci_design := ci_design a; ci_crossings := ci_crossings a; ci_sustains := firstn k (ci_sustains a);
     ci_weights := firstn k (ci_weights a); ci_constraints := ci_constraints a; ci_rcc := ci_rcc a; ci_mode := ci_mode a;
     ci_alignment := ci_alignment a; ci_exclusions := ci_exclusions a; ci_derivations := ci_derivations a;
     ci_excluded_derived := ci_excluded_derived a; ci_errors_fail := ci_errors_fail a |}.

Lemma reinit_positive : forall g cs, min_trials_positive cs -> min_trials_positive (map (reinit g) cs).
Proof.
  intros g cs Hpos n Hin. apply in_map_iff in Hin. destruct Hin as [c [E Hc]].
  destruct c as [c0|]; cbn in E; [|discriminate]. inversion E as [E0].
  destruct c0; try discriminate; try (destruct wb; discriminate). cbn in E0. inversion E0; subst. apply Hpos. exact Hc.
Qed.

Lemma st_crossings_merge_again : forall ci fb, st_crossings (merge_again ci fb) = st_crossings ci.
Proof. intros. unfold st_crossings, merge_again. cbn [ci_crossings again]. apply filter_nonempty_idem. Qed.

Theorem merge_singleton_flat : forall ci fb,
  create_flat ci = FOk fb -> all_level_constraints (ci_constraints ci) -> min_trials_positive (ci_constraints ci) ->
  ci_alignment ci <> PostPreamble ->
  Forall (fun n => n = 1) (skipn (List.length (st_crossings ci)) (ci_sustains ci)) ->
  exists fb', create_flat (merge_again ci fb) = FOk fb' /\ flat_equiv fb fb'.
Proof.
  intros ci fb Hc Hall Hpos Ha Hones.
  assert (Hag : create_flat (again ci fb (ci_alignment ci)) = FOk fb).
  { rewrite (create_again ci fb (ci_alignment ci) Hc Hall Ha Ha).
    - rewrite <- (create_flat_alignment ci fb Hc). rewrite with_alignment_same. reflexivity.
    - intro E. apply (create_flat_equal_preamble ci fb Hc E). }
  assert (Heqv : input_equiv (again ci fb (ci_alignment ci)) (merge_again ci fb)).
  { unfold input_equiv. rewrite st_crossings_again, st_crossings_merge_again.
    unfold merge_again.
    cbn [ci_design ci_sustains ci_weights ci_constraints ci_rcc ci_mode ci_alignment ci_exclusions ci_derivations
         ci_excluded_derived ci_errors_fail].
    rewrite !firstn_firstn, !Nat.min_id.
    repeat split; try reflexivity; try exact Hones;
      try (rewrite skipn_firstn_comm, Nat.sub_diag; constructor);
      try (apply reinit_positive; exact Hpos). }
  pose proof (create_flat_respects _ _ Heqv) as E. rewrite Hag in E.
  destruct (create_flat (merge_again ci fb)) as [fb'|e]; [|contradiction]. exists fb'. split; [reflexivity | exact E].
Qed.

(** Example: MultiCrossBlock([A,B], [[A],[B]], [MinimumTrials(3), AtMostKInARow(1,(A,a0))], mode=REPEAT,
    alignment=PARALLEL_START) built, then Repeat(block, []) and Merge([block]) *)
Definition ex_block_input : create_input :=
  {| ci_design := [ex_fac "A" "a0" "a1"; ex_fac "B" "b0" "b1"]; ci_crossings := [[0]; [1]];
     ci_sustains := [1; 1]; ci_weights := [1; 1];
     ci_constraints := [ICon (FMinimumTrials 3); ICon (FAtMost 1 0 0 None)];
     ci_rcc := true; ci_mode := MRepeat; ci_alignment := ParallelStart;
     ci_exclusions := [0; 0]; ci_derivations := []; ci_excluded_derived := []; ci_errors_fail := false |}.

Lemma ex_block_again :
  exists fb, create_flat ex_block_input = FOk fb /\ fl_trials fb = 3 /\ fl_alignment fb = ParallelStart /\
    all_level_constraints (ci_constraints ex_block_input) /\ all_eq (fl_preambles fb) = true /\
    create_flat (again ex_block_input fb EqualPreamble) = FOk (with_alignment fb EqualPreamble) /\
    create_flat (merge_again ex_block_input fb) = FOk fb.
Proof.
  eexists. split; [vm_compute; reflexivity|]. split; [reflexivity|]. split; [reflexivity|]. split.
  - intros c [<-|[<-|[]]]; eexists; reflexivity.
  - split; [reflexivity|]. split; vm_compute; reflexivity.
Qed.
