(** The executable condition [input_ok] on the arguments of [_create] ([create_input], Front/CreateFlat.v) under which
    the flat record built by [create_flat] satisfies the well-formedness guards of the property theorems
    (proved in Front/CreateWf.v).  Definitions only; the harness evaluates [input_ok] on the recorded
    arguments of every real block (driver command [inputok]).

    - [window_ok]: every derivation window has stride >= 1 ([Window.__post_init__] rejects others) and a
      derived factor that is not flagged [has_complex_window] has stride <= 1 and start 0 (one direction of
      the definition of [Factor.has_complex_window]);
    - one exclusion count per non-empty crossing, smaller than the product of the level-weight sums of the
      crossing (no crossing is excluded entirely);
    - a sustain count for every non-empty crossing, all sustain counts positive;
    - crossed factors have stride 1 ([Block.__validate] rejects stride > 1 in a crossing);
    - [sustains_consistent]: crossings that share a factor have the same sustain count. *)
From Coq Require Import List Bool Arith.
From SP Require Import Design.Flat Design.Layout Front.Trials Front.CreateFlat.
Import ListNotations.

(** * The condition on the input *)

(** the input seen as a flat record before sizes and preambles are known (what [st_sizes] computes on) *)
Definition in_flat (ci : create_input) : flat := st_flat ci [] [].

Definition window_ok (fd : ffactor) : bool :=
  match ff_window fd with
  | None => true
  | Some w => (1 <=? win_stride w) && (ff_complex fd || ((win_stride w <=? 1) && (win_start w =? 0)))
  end.

Definition shares (c d : list nat) : bool := existsb (fun f => memf f d) c.

(** crossings (with their sustain counts) that share a factor have the same sustain count *)
Fixpoint sustains_consistent (l : list (list nat * nat)) : bool :=
  match l with
  | [] => true
  | cs :: r => forallb (fun dt => negb (shares (fst cs) (fst dt)) || (snd cs =? snd dt)) r && sustains_consistent r
  end.

(** the non-empty crossings with the sustain counts [Block.__init__] zips them with *)
Definition paired (ci : create_input) : list (list nat * nat) := combine (st_crossings ci) (ci_sustains ci).

Definition input_ok (ci : create_input) : bool :=
  forallb window_ok (ci_design ci)
  && (length (ci_exclusions ci) =? length (st_crossings ci))
  && forallb (fun ce => snd ce <? crossing_size_no_excl (in_flat ci) (fst ce)) (combine (st_crossings ci) (ci_exclusions ci))
  && (length (st_crossings ci) <=? length (ci_sustains ci))
  && forallb (fun n => 0 <? n) (ci_sustains ci)
  && forallb (fun c => forallb (fun f => fstride (in_flat ci) f =? 1) c) (st_crossings ci)
  && sustains_consistent (paired ci).
