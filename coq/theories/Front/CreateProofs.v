(** Proofs about Front/Create.v: the documented block-combinator equivalences at
    the level of the arguments handed to [_create] (the model is not changed here). *)
From Coq Require Import ZArith List Bool Arith Lia Permutation.
From SP Require Import Design.Flat Design.Layout Front.Trials Front.Create.
Import ListNotations.

(** * [add_new]: order-preserving union *)

Lemma mem_false_iff : forall f l, mem f l = false <-> ~ In f l.
Proof.
  intros f l. unfold mem. split.
  - intros H Hin. assert (existsb (Nat.eqb f) l = true).
    { apply existsb_exists. exists f. split; [assumption | apply Nat.eqb_refl]. }
    congruence.
  - intro H. destruct (existsb (Nat.eqb f) l) eqn:E; [|reflexivity].
    apply existsb_exists in E. destruct E as [x [Hx Hfx]]. apply Nat.eqb_eq in Hfx. subst. contradiction.
Qed.

Lemma mem_true_iff : forall f l, mem f l = true <-> In f l.
Proof.
  intros f l. unfold mem. rewrite existsb_exists. split.
  - intros [x [Hx Hfx]]. apply Nat.eqb_eq in Hfx. subst. assumption.
  - intro H. exists f. split; [assumption | apply Nat.eqb_refl].
Qed.

Lemma add_new_nodup : forall d acc, NoDup (acc ++ d) -> add_new acc d = acc ++ d.
Proof.
  unfold add_new. induction d as [|f d IH]; intros acc H; cbn [fold_left].
  - rewrite app_nil_r. reflexivity.
  - assert (Hf : mem f acc = false).
    { apply mem_false_iff. intro Hin. apply NoDup_remove_2 in H. apply H. apply in_or_app. left. assumption. }
    rewrite Hf. rewrite IH.
    + rewrite <- app_assoc. reflexivity.
    + rewrite <- app_assoc. exact H.
Qed.

Lemma add_new_subset : forall fs d, (forall f, In f fs -> In f d) -> add_new d fs = d.
Proof.
  unfold add_new. induction fs as [|f fs IH]; intros d H; cbn [fold_left]; [reflexivity|].
  assert (Hf : mem f d = true) by (apply mem_true_iff; apply H; left; reflexivity).
  rewrite Hf. apply IH. intros g Hg. apply H. right. assumption.
Qed.

Lemma add_new_nil : forall d, NoDup d -> add_new [] d = d.
Proof. intros d H. apply (add_new_nodup d []). exact H. Qed.

Lemma filter_nonempty_idem : forall l : list (list nat), filter nonempty (filter nonempty l) = filter nonempty l.
Proof.
  induction l as [|c l IH]; [reflexivity|].
  cbn [filter]. destruct (nonempty c) eqn:E; cbn [filter]; [rewrite E, IH; reflexivity | exact IH].
Qed.

(** * CrossBlock = MultiCrossBlock with one crossing in WEIGHT mode *)

Theorem cross_eq_multicross_weight : forall design crossing cs rcc,
  create_of (BCross design crossing cs rcc) = create_of (BMulti design [crossing] cs rcc MWeight EqualPreamble).
Proof. reflexivity. Qed.

(** * Repeat(block, cs) = Merge([block], cs, REPEAT, EQUAL_PREAMBLE) *)

(** equality of [_create] arguments except for the constraint list *)
Definition same_but_constraints (a b : create_args) : Prop :=
  ca_design a = ca_design b /\ ca_crossings a = ca_crossings b /\ ca_sustains a = ca_sustains b /\
  ca_weights a = ca_weights b /\ ca_rcc a = ca_rcc b /\ ca_mode a = ca_mode b /\ ca_alignment a = ca_alignment b.

(** the block was built without weight desugaring: its design and crossings are
    the ones it was given ([orig_design], [orig_crossings]) *)
Definition not_desugared (b : binfo) : Prop :=
  bi_design b = bi_orig_design b /\ bi_crossings b = bi_orig_crossings b.

(** one sustain count and one weight per crossing (no empty crossing was dropped by [_create]) *)
Definition aligned (b : binfo) : Prop :=
  length (bi_sustains b) = length (bi_crossings b) /\ length (bi_weights b) = length (bi_crossings b).

Theorem repeat_eq_merge : forall b cs,
  bi_multicross b = true -> bi_alignment b = EqualPreamble -> not_desugared b -> aligned b -> NoDup (bi_design b) ->
  exists r m,
    create_of (BRepeat b cs) = COk r /\
    create_of (BMerge [b] cs MRepeat (Some EqualPreamble)) = COk m /\
    same_but_constraints r m /\
    Permutation (ca_constraints r) (ca_constraints m).
Proof.
  intros b cs Hmc Hal [Hd Hc] [Hl1 Hl2] Hnd. cbn [create_of]. unfold create_repeat, create_merge.
  rewrite Hmc. cbn [negb forallb]. rewrite Hal. cbn [alignment_eqb andb negb].
  eexists. eexists. split; [reflexivity|]. split; [reflexivity|]. split.
  - unfold same_but_constraints. cbn [ca_design ca_crossings ca_sustains ca_weights ca_rcc ca_mode ca_alignment
                                      fold_left flat_map forallb].
    rewrite !app_nil_r, andb_true_r. rewrite add_new_nil by assumption.
    rewrite <- Hl1 at 1. rewrite <- Hl2. rewrite !firstn_all.
    repeat split; congruence.
  - cbn [ca_constraints from_blocks]. rewrite app_nil_r. apply Permutation_app_comm.
Qed.

(** Where the block is not aligned EQUAL_PREAMBLE the two sides differ: Repeat builds
    (switching to EQUAL_PREAMBLE), the documented Merge call is rejected. *)
Theorem repeat_merge_alignment : forall b cs,
  bi_multicross b = true -> bi_alignment b <> EqualPreamble ->
  (exists r, create_of (BRepeat b cs) = COk r /\ ca_alignment r = EqualPreamble) /\
  create_of (BMerge [b] cs MRepeat (Some EqualPreamble)) = CErr EMergeAlignment.
Proof.
  intros b cs Hmc Hal. split.
  - cbn [create_of]. unfold create_repeat. rewrite Hmc. cbn [negb]. eexists. split; reflexivity.
  - cbn [create_of]. unfold create_merge. cbn [forallb].
    destruct (bi_alignment b); cbn; congruence.
Qed.

(** * Repeat(block, []) and Merge([block]) *)

Theorem repeat_nil : forall b,
  bi_multicross b = true ->
  create_of (BRepeat b []) =
  COk {| ca_design := bi_orig_design b; ca_crossings := bi_orig_crossings b; ca_sustains := bi_sustains b;
         ca_weights := bi_weights b; ca_constraints := from_block 0 b; ca_rcc := bi_rcc b;
         ca_mode := MRepeat; ca_alignment := EqualPreamble |}.
Proof.
  intros b H. cbn [create_of]. unfold create_repeat. rewrite H. cbn [negb own map]. rewrite app_nil_r. reflexivity.
Qed.

Theorem merge_singleton : forall b mode,
  NoDup (bi_design b) ->
  create_of (BMerge [b] [] mode None) =
  COk {| ca_design := bi_design b; ca_crossings := bi_crossings b;
         ca_sustains := firstn (length (bi_crossings b)) (bi_sustains b);
         ca_weights := firstn (length (bi_crossings b)) (bi_weights b);
         ca_constraints := from_block 0 b; ca_rcc := bi_rcc b;
         ca_mode := mode; ca_alignment := bi_alignment b |}.
Proof.
  intros b mode Hnd. cbn [create_of]. unfold create_merge. cbn [forallb].
  assert (Hal : alignment_eqb (bi_alignment b) (bi_alignment b) = true) by (destruct (bi_alignment b); reflexivity).
  rewrite Hal. cbn [andb negb fold_left flat_map own map from_blocks app]. rewrite !app_nil_r, andb_true_r.
  rewrite add_new_nil by assumption. reflexivity.
Qed.

(** For a block that [_create] built from arguments [a] without weight desugaring
    (final weights [ws]): [Repeat(block, [])] hands [_create] the same design,
    (normalised) crossings, sustain counts, rcc and constraints, the block's *final*
    weights, mode REPEAT (which keeps them: [model_weights_repeat]) and EQUAL_PREAMBLE. *)
Theorem repeat_nil_of_create : forall a ocs T P ws,
  exists r, create_of (BRepeat (binfo_of_create true a ocs T P ws) []) = COk r /\
    ca_design r = ca_design a /\ ca_crossings r = norm_crossings a /\ norm_crossings r = norm_crossings a /\
    ca_sustains r = ca_sustains a /\ ca_rcc r = ca_rcc a /\ map snd (ca_constraints r) = ocs /\
    ca_weights r = ws /\ ca_mode r = MRepeat /\ ca_alignment r = EqualPreamble.
Proof.
  intros a ocs T P ws. rewrite repeat_nil by reflexivity. eexists. split; [reflexivity|].
  cbn [ca_design ca_crossings ca_sustains ca_weights ca_constraints ca_rcc ca_mode ca_alignment binfo_of_create
       bi_orig_design bi_orig_crossings bi_sustains bi_weights bi_rcc].
  repeat split.
  - unfold norm_crossings at 1. cbn [ca_crossings]. unfold norm_crossings. apply filter_nonempty_idem.
  - unfold from_block. cbn [bi_orig_constraints]. rewrite map_map. cbn [snd]. apply map_id.
Qed.

(** Merge([block]) of such a block: the same arguments with the final weights
    (and the given mode; the block's own alignment). *)
Theorem merge_singleton_of_create : forall a ocs T P ws mode,
  NoDup (ca_design a) ->
  exists m, create_of (BMerge [binfo_of_create true a ocs T P ws] [] mode None) = COk m /\
    ca_design m = ca_design a /\ ca_crossings m = norm_crossings a /\
    ca_sustains m = firstn (length (norm_crossings a)) (ca_sustains a) /\ ca_rcc m = ca_rcc a /\
    map snd (ca_constraints m) = ocs /\
    ca_weights m = firstn (length (norm_crossings a)) ws /\ ca_mode m = mode /\ ca_alignment m = ca_alignment a.
Proof.
  intros a ocs T P ws mode Hnd. rewrite merge_singleton by exact Hnd. eexists. split; [reflexivity|].
  cbn [ca_design ca_crossings ca_sustains ca_weights ca_constraints ca_rcc ca_mode ca_alignment binfo_of_create
       bi_design bi_crossings bi_sustains bi_weights bi_rcc bi_alignment].
  repeat split.
  unfold from_block. cbn [bi_orig_constraints]. rewrite map_map. cbn [snd]. apply map_id.
Qed.

(** * The constraints of the created block: [_create] initialises private copies

    [_create] never changes the constraint objects it is handed (/repo commit 88b3d0f); the block's
    [orig_constraints] are copies whose [within_block] is set to the block's geometry where it was None.
    So the constraints [Repeat(b, [])] / [Merge([b])] hand on ([created_constraints g a], carrying b's
    geometry [g]) differ from the ones b itself was handed ([ca_constraints a]) exactly in the entries
    that carried no geometry yet - and the blocks built from them have the same [orig_constraints],
    whatever geometry [g'] the new block has. *)

Lemma init_within_block_some : forall g h c, c_wb c = Some h -> init_within_block g c = c.
Proof. intros g h c H. unfold init_within_block. rewrite H. destruct (has_within_block (c_kind c)); reflexivity. Qed.

Lemma init_within_block_none : forall g c,
  c_wb c = None -> has_within_block (c_kind c) = true ->
  init_within_block g c = {| c_id := c_id c; c_kind := c_kind c; c_param := c_param c; c_wb := Some g |}.
Proof. intros g c H K. unfold init_within_block. rewrite H, K. reflexivity. Qed.

Lemma init_within_block_other : forall g c, has_within_block (c_kind c) = false -> init_within_block g c = c.
Proof. intros g c K. unfold init_within_block. rewrite K. reflexivity. Qed.

(** the three cases in one statement: every field but [within_block] is kept, and [within_block]
    changes only from None to [g], only for the classes that have [init_within_block] *)
Theorem init_within_block_spec : forall g c,
  c_id (init_within_block g c) = c_id c /\ c_kind (init_within_block g c) = c_kind c /\
  c_param (init_within_block g c) = c_param c /\
  c_wb (init_within_block g c) =
    match c_wb c with
    | Some h => Some h
    | None => if has_within_block (c_kind c) then Some g else None
    end.
Proof.
  intros g c. unfold init_within_block.
  destruct (has_within_block (c_kind c)) eqn:K; destruct (c_wb c) eqn:W; cbn [c_id c_kind c_param c_wb];
    repeat split; try reflexivity; exact W.
Qed.

Lemma init_within_block_again : forall g g' c, init_within_block g' (init_within_block g c) = init_within_block g c.
Proof.
  intros g g' c. destruct (has_within_block (c_kind c)) eqn:K.
  - destruct (c_wb c) as [h|] eqn:W.
    + rewrite (init_within_block_some g h c W). apply (init_within_block_some g' h c W).
    + rewrite (init_within_block_none g c W K). apply (init_within_block_some g' g). reflexivity.
  - rewrite (init_within_block_other g c K). apply init_within_block_other. exact K.
Qed.

Lemma created_constraints_length : forall g a, length (created_constraints g a) = length (ca_constraints a).
Proof. intros. unfold created_constraints. apply map_length. Qed.

(** [Repeat(b, [])] for the block b that [_create] built from [a] (geometry [g]): as [repeat_nil_of_create],
    and the constraints handed on are b's initialised copies; the new block's own [orig_constraints]
    are b's, whatever its geometry [g'] *)
Theorem repeat_nil_of_created : forall a g T P ws,
  exists r, create_of (BRepeat (block_of_create true a g T P ws) []) = COk r /\
    ca_design r = ca_design a /\ ca_crossings r = norm_crossings a /\ norm_crossings r = norm_crossings a /\
    ca_sustains r = ca_sustains a /\ ca_rcc r = ca_rcc a /\
    map snd (ca_constraints r) = map (init_within_block g) (map snd (ca_constraints a)) /\
    ca_weights r = ws /\ ca_mode r = MRepeat /\ ca_alignment r = EqualPreamble /\
    forall g', created_constraints g' r = created_constraints g a.
Proof.
  intros a g T P ws. unfold block_of_create.
  destruct (repeat_nil_of_create a (created_constraints g a) T P ws) as [r [Hr [H1 [H2 [H3 [H4 [H5 [H6 [H7 [H8 H9]]]]]]]]]].
  exists r. split; [exact Hr|]. repeat (split; [assumption|]).
  split; [rewrite H6; unfold created_constraints; rewrite map_map; reflexivity|].
  repeat (split; [assumption|]).
  intro g'. unfold created_constraints at 1. rewrite <- map_map with (f := snd) (g := init_within_block g').
  rewrite H6. unfold created_constraints. rewrite map_map.
  apply map_ext. intro oc. apply init_within_block_again.
Qed.

Theorem merge_singleton_of_created : forall a g T P ws mode,
  NoDup (ca_design a) ->
  exists m, create_of (BMerge [block_of_create true a g T P ws] [] mode None) = COk m /\
    ca_design m = ca_design a /\ ca_crossings m = norm_crossings a /\
    ca_sustains m = firstn (length (norm_crossings a)) (ca_sustains a) /\ ca_rcc m = ca_rcc a /\
    map snd (ca_constraints m) = map (init_within_block g) (map snd (ca_constraints a)) /\
    ca_weights m = firstn (length (norm_crossings a)) ws /\ ca_mode m = mode /\ ca_alignment m = ca_alignment a /\
    forall g', created_constraints g' m = created_constraints g a.
Proof.
  intros a g T P ws mode Hnd. unfold block_of_create.
  destruct (merge_singleton_of_create a (created_constraints g a) T P ws mode Hnd) as [m [Hm [H1 [H2 [H3 [H4 [H5 [H6 [H7 H8]]]]]]]]].
  exists m. split; [exact Hm|]. repeat (split; [assumption|]).
  split; [rewrite H5; unfold created_constraints; rewrite map_map; reflexivity|].
  repeat (split; [assumption|]).
  intro g'. unfold created_constraints at 1. rewrite <- map_map with (f := snd) (g := init_within_block g').
  rewrite H5. unfold created_constraints. rewrite map_map.
  apply map_ext. intro oc. apply init_within_block_again.
Qed.

(** a user's Pin and MinimumTrials given to a CrossBlock of 4 trials, then [Repeat(block, [])]: the block
    is handed the objects without geometry, Repeat hands on the block's copies - the Pin with the geometry
    of the 4 trials *)
Definition ex_geometry : geometry := {| g_trials := 4; g_preamble := 0; g_sustain := [(0, 1); (1, 1)] |}.
Definition ex_pin : cinfo := {| c_id := 0; c_kind := KPin; c_param := (-1)%Z; c_wb := None |}.
Definition ex_mint : cinfo := {| c_id := 1; c_kind := KMinimumTrials; c_param := 3%Z; c_wb := None |}.
Definition ex_pin_block : binfo :=
  block_of_create true (create_cross [0; 1] [0; 1] [ex_pin; ex_mint] true) ex_geometry 4 0 [1%Z].

Lemma ex_pin_repeat :
  ca_constraints (create_cross [0; 1] [0; 1] [ex_pin; ex_mint] true) = [(OOwn, ex_pin); (OOwn, ex_mint)] /\
  exists r, create_of (BRepeat ex_pin_block []) = COk r /\
    ca_constraints r = [(OBlock 0, {| c_id := 0; c_kind := KPin; c_param := (-1)%Z; c_wb := Some ex_geometry |});
                        (OBlock 0, ex_mint)].
Proof. split; [reflexivity|]. eexists. split; reflexivity. Qed.

(** * MultiCrossBlock = Merge of one CrossBlock per crossing *)

(** what [CrossBlock(design, c, [], rcc)] is after [_create], absent weight
    desugaring: trial count [T], common preamble [P], final weight 1
    (Front/TrialsProofs.v, [single_crossing_weight_one]) *)
Definition cross_leaf (design c : list nat) (rcc : bool) (T P : nat) : binfo :=
  binfo_of_create true (create_cross design c [] rcc) [] T P [1%Z].

Definition is_cross_leaf (design : list nat) (rcc : bool) (c : list nat) (b : binfo) : Prop :=
  exists T P, b = cross_leaf design c rcc T P.

Lemma leaves_fields : forall design rcc crossings leaves,
  Forall2 (is_cross_leaf design rcc) crossings leaves ->
  flat_map bi_crossings leaves = filter nonempty crossings /\
  flat_map (fun b => firstn (length (bi_crossings b)) (bi_sustains b)) leaves = ones (filter nonempty crossings) /\
  flat_map (fun b => firstn (length (bi_crossings b)) (bi_weights b)) leaves = onesZ (filter nonempty crossings) /\
  (forall i, from_blocks i leaves = []) /\
  forallb (fun b => alignment_eqb (bi_alignment b) EqualPreamble) leaves = true /\
  (forall b, In b leaves -> bi_design b = design /\ bi_rcc b = rcc).
Proof.
  intros design rcc crossings leaves H. induction H as [|c0 b0 cr0 lv0 [T [P Hb]] H0 IH].
  - split; [|split; [|split; [|split; [|split]]]]; try reflexivity. intros b [].
  - destruct IH as [I1 [I2 [I3 [I4 [I5 I6]]]]]. subst b0.
    split; [|split; [|split; [|split; [|split]]]].
    + cbn [flat_map]. rewrite I1. unfold cross_leaf, binfo_of_create. cbn [bi_crossings].
      unfold norm_crossings, create_cross. cbn [ca_crossings filter]. destruct (nonempty c0); reflexivity.
    + cbn [flat_map]. rewrite I2. unfold cross_leaf, binfo_of_create. cbn [bi_crossings bi_sustains].
      unfold norm_crossings, create_cross. cbn [ca_crossings ca_sustains filter]. destruct (nonempty c0); reflexivity.
    + cbn [flat_map]. rewrite I3. unfold cross_leaf, binfo_of_create. cbn [bi_crossings bi_weights].
      unfold norm_crossings, create_cross. cbn [ca_crossings filter]. destruct (nonempty c0); reflexivity.
    + intro i. cbn [from_blocks]. rewrite I4. reflexivity.
    + cbn [forallb]. rewrite I5. reflexivity.
    + intros b [<-|Hin]; [split; reflexivity | apply I6; assumption].
Qed.

Lemma fold_add_new_same : forall design leaves,
  (forall b, In b leaves -> bi_design b = design) ->
  forall acc, (acc = design \/ (acc = [] /\ leaves <> [])) -> NoDup design ->
  fold_left (fun d b => add_new d (bi_design b)) leaves acc = design.
Proof.
  intros design leaves. induction leaves as [|b leaves IH]; intros Hall acc Hacc Hnd; cbn [fold_left].
  - destruct Hacc as [->|[_ H]]; [reflexivity | congruence].
  - rewrite (Hall b (or_introl eq_refl)). apply IH.
    + intros b' Hb'. apply Hall. right. assumption.
    + left. destruct Hacc as [->|[-> _]].
      * apply add_new_subset. auto.
      * apply add_new_nil. assumption.
    + assumption.
Qed.

Theorem multicross_eq_merge : forall design crossings cs rcc mode leaves,
  NoDup design -> crossings <> [] ->
  Forall2 (is_cross_leaf design rcc) crossings leaves ->
  exists m,
    create_of (BMerge leaves cs mode (Some EqualPreamble)) = COk m /\
    let a := create_multi design crossings cs rcc mode EqualPreamble in
    ca_design m = ca_design a /\
    ca_crossings m = norm_crossings a /\ norm_crossings m = norm_crossings a /\
    ca_sustains m = ones (norm_crossings a) /\ ca_sustains a = ones (ca_crossings a) /\
    ca_weights m = onesZ (norm_crossings a) /\ ca_weights a = onesZ (ca_crossings a) /\
    ca_constraints m = ca_constraints a /\ ca_rcc m = ca_rcc a /\
    ca_mode m = ca_mode a /\ ca_alignment m = ca_alignment a.
Proof.
  intros design crossings cs rcc mode leaves Hnd Hne HF.
  destruct (leaves_fields _ _ _ _ HF) as [I1 [I2 [I3 [I4 [I5 I6]]]]].
  assert (Hl : leaves <> []) by (inversion HF; subst; congruence).
  cbn [create_of]. unfold create_merge. destruct leaves as [|b0 leaves'] eqn:El; [congruence|]. rewrite <- El in *.
  rewrite I5. cbn [negb]. eexists. split; [reflexivity|].
  cbn [ca_design ca_crossings ca_sustains ca_weights ca_constraints ca_rcc ca_mode ca_alignment create_multi].
  repeat split.
  - apply fold_add_new_same; [intros b Hb; apply I6; assumption | right; split; [reflexivity|assumption] | assumption].
  - rewrite I1. reflexivity.
  - unfold norm_crossings. cbn [ca_crossings]. rewrite I1. apply filter_nonempty_idem.
  - exact I2.
  - exact I3.
  - rewrite I4. apply app_nil_r.
  - destruct rcc.
    + apply forallb_forall. intros b Hb. apply I6. assumption.
    + rewrite El. cbn [forallb]. destruct (I6 b0) as [_ Hr]; [rewrite El; left; reflexivity|]. rewrite Hr. reflexivity.
Qed.

(** For any other alignment the documented Merge call is rejected, because a
    CrossBlock is always aligned EQUAL_PREAMBLE (while MultiCrossBlock accepts it). *)
Theorem multicross_merge_alignment : forall design crossings cs rcc mode al leaves,
  crossings <> [] -> al <> EqualPreamble ->
  Forall2 (is_cross_leaf design rcc) crossings leaves ->
  create_of (BMerge leaves cs mode (Some al)) = CErr EMergeAlignment.
Proof.
  intros design crossings cs rcc mode al leaves Hne Hal HF.
  inversion HF as [|c b cr lv [T [P Hb]] HF']; subst; [congruence|].
  cbn [create_of]. unfold create_merge. cbn [forallb cross_leaf binfo_of_create bi_alignment create_cross ca_alignment].
  destruct al; cbn; congruence.
Qed.

(** * The trial count does not depend on which non-POST alignment is recorded *)

Definition set_alignment (fb : flat) (a : alignment) : flat :=
  {| fl_design := fl_design fb; fl_act := fl_act fb; fl_crossings := fl_crossings fb; fl_sustains := fl_sustains fb;
     fl_weights := fl_weights fb; fl_sizes := fl_sizes fb; fl_preambles := fl_preambles fb; fl_alignment := a;
     fl_alignment_preamble := fl_alignment_preamble fb; fl_min_trials := fl_min_trials fb; fl_trials := fl_trials fb;
     fl_rcc := fl_rcc fb; fl_exclude := fl_exclude fb; fl_excluded_derived := fl_excluded_derived fb;
     fl_constraints := fl_constraints fb; fl_errors_fail := fl_errors_fail fb |}.

Lemma model_trials_alignment : forall fb a,
  fl_alignment fb <> PostPreamble -> a <> PostPreamble ->
  model_trials (set_alignment fb a) = model_trials fb /\
  model_preambles (set_alignment fb a) = model_preambles fb /\
  model_min_trials (set_alignment fb a) = model_min_trials fb.
Proof.
  intros fb a H1 H2. destruct fb as [d ac cr su we si pr al ap mt tr rc ex ed co er]. cbn in H1.
  destruct al; [congruence| |]; destruct a; try congruence; repeat split; reflexivity.
Qed.

(** * Examples: the hypotheses are met by concrete blocks *)

(** CrossBlock([0,1],[0],[]) and CrossBlock([0,1],[1],[]) after [_create] (2 and 3 trials) *)
Definition ex_leaf0 : binfo := cross_leaf [0; 1] [0] true 2 0.
Definition ex_leaf1 : binfo := cross_leaf [0; 1] [1] true 3 0.

Lemma ex_leaves : Forall2 (is_cross_leaf [0; 1] true) [[0]; [1]] [ex_leaf0; ex_leaf1].
Proof. repeat constructor; eexists; eexists; reflexivity. Qed.

Lemma ex_nodup : NoDup [0; 1].
Proof. repeat constructor; cbn; intuition discriminate. Qed.

(** a MultiCrossBlock([0,1],[[0],[1]],[],mode=REPEAT) after [_create], as the argument of Repeat / Merge *)
Definition ex_multi_block (al : alignment) : binfo :=
  binfo_of_create true (create_multi [0; 1] [[0]; [1]] [] true MRepeat al) [] 3 0 [1%Z; 1%Z].
