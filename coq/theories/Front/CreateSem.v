(** The documented block-combinator equivalences as statements about valid sequences.

    Front/CreateProofs.v proves that the two sides of each equivalence hand [_create] the same
    arguments, up to the order of the constraint list and up to empty crossings.  Here the
    step to "the same valid sequences" is made explicit.  There is no Coq model of [_create]
    itself (arguments -> flat record); it enters as the section variable [denote]: the
    reference-semantics normal form (Design/Sem.v) of the block that [_create] builds from
    given arguments - in the development: Encode/CodeSem.v's [code_sem] of its flat record.
    That [_create] is a *function* of its arguments is then the fact that [denote] is a Coq
    function; what else is used about it is the explicit hypothesis [denote_respects]: the
    valid set depends on the arguments only through the non-empty crossings with their
    sustain counts and weights, and on the constraints only as a set (every constraint is a
    conjunct - [valid_perm_constraints] below proves that for the reference semantics). *)
From Coq Require Import ZArith List Bool Arith Lia Permutation.
From SP Require Import Design.Flat Design.Sem Front.Trials Front.Create Front.CreateProofs.
Import ListNotations.

(** what [_create] reads of its arguments *)
Definition args_equiv (a b : create_args) : Prop :=
  ca_design a = ca_design b /\
  norm_crossings a = norm_crossings b /\
  firstn (length (norm_crossings a)) (ca_sustains a) = firstn (length (norm_crossings b)) (ca_sustains b) /\
  firstn (length (norm_crossings a)) (ca_weights a) = firstn (length (norm_crossings b)) (ca_weights b) /\
  ca_rcc a = ca_rcc b /\ ca_mode a = ca_mode b /\ ca_alignment a = ca_alignment b /\
  Permutation (ca_constraints a) (ca_constraints b).

(** the reference semantics does not depend on the order of the constraints *)
Lemma forallb_perm : forall {A} (P : A -> bool) l l', Permutation l l' -> forallb P l = forallb P l'.
Proof.
  intros A P l l' H. induction H; cbn.
  - reflexivity.
  - rewrite IHPermutation. reflexivity.
  - destruct (P x), (P y); reflexivity.
  - congruence.
Qed.

Theorem valid_perm_constraints : forall S S' s,
  s_trials S = s_trials S' -> s_factors S = s_factors S' -> s_crossings S = s_crossings S' ->
  Permutation (s_constraints S) (s_constraints S') ->
  valid_b S s = valid_b S' s.
Proof.
  intros S S' s HT HF HX HP. unfold valid_b. rewrite HF, HX.
  assert (E1 : forall fds, forallb (fun p => factor_ok S s (fst p) (snd p)) fds = forallb (fun p => factor_ok S' s (fst p) (snd p)) fds).
  { intro fds. induction fds as [|p l IH]; [reflexivity|]. cbn [forallb]. rewrite IH. f_equal.
    unfold factor_ok. rewrite HT. reflexivity. }
  assert (E2 : forall cs, forallb (crossing_ok S s) cs = forallb (crossing_ok S' s) cs).
  { intro cs. induction cs as [|c l IH]; [reflexivity|]. cbn [forallb]. rewrite IH. f_equal.
    unfold crossing_ok. rewrite HT. f_equal.
    generalize (c_first c). generalize (Datatypes.S (s_trials S')). intro fuel.
    induction fuel as [|fuel IHf]; intro a; [reflexivity|]. cbn [chunks_ok]. rewrite HT, IHf. reflexivity. }
  assert (E3 : forall k, constraint_ok S s k = constraint_ok S' s k).
  { intro k. unfold constraint_ok. rewrite HT, HF. destruct (k_kind k); try reflexivity.
    unfold latin_ok. rewrite HT. reflexivity. }
  rewrite E1, E2. f_equal.
  rewrite (forallb_perm _ _ _ HP). clear HP. induction (s_constraints S') as [|k l IH]; [reflexivity|].
  cbn [forallb]. rewrite E3, IH. reflexivity.
Qed.

Section Denote.
Variable denote : create_args -> sem.
Hypothesis denote_respects : forall a b, args_equiv a b -> forall s, valid_b (denote a) s = valid_b (denote b) s.

(** CrossBlock(design, crossing, cs, rcc) and MultiCrossBlock(design, [crossing], cs, rcc, WEIGHT)
    have the same valid sequences (identical arguments: no hypothesis on [denote] is used) *)
Theorem cross_multi_valid : forall design crossing cs rcc a b s,
  create_of (BCross design crossing cs rcc) = COk a ->
  create_of (BMulti design [crossing] cs rcc MWeight EqualPreamble) = COk b ->
  valid_b (denote a) s = valid_b (denote b) s.
Proof.
  intros design crossing cs rcc a b s Ha Hb. rewrite cross_eq_multicross_weight in Ha. rewrite Ha in Hb.
  inversion Hb. reflexivity.
Qed.

(** Repeat(block, cs) and Merge([block], cs, REPEAT, EQUAL_PREAMBLE) have the same valid sequences
    (block aligned EQUAL_PREAMBLE, not weight-desugared, one count and weight per crossing) *)
Theorem repeat_merge_valid : forall b cs r m s,
  bi_multicross b = true -> bi_alignment b = EqualPreamble -> not_desugared b -> aligned b -> NoDup (bi_design b) ->
  create_of (BRepeat b cs) = COk r -> create_of (BMerge [b] cs MRepeat (Some EqualPreamble)) = COk m ->
  valid_b (denote r) s = valid_b (denote m) s.
Proof.
  intros b cs r m s H1 H2 H3 H4 H5 Hr Hm.
  destruct (repeat_eq_merge b cs H1 H2 H3 H4 H5) as [r' [m' [Hr' [Hm' [Hsame Hperm]]]]].
  rewrite Hr in Hr'. rewrite Hm in Hm'. inversion Hr'; inversion Hm'; subst r' m'.
  apply denote_respects. destruct Hsame as [Hd [Hc [Hs [Hw [Hrc [Hmo Hal]]]]]].
  unfold args_equiv, norm_crossings. rewrite Hd, Hc, Hs, Hw, Hrc, Hmo, Hal. repeat split. exact Hperm.
Qed.

Lemma firstn_ones : forall {A B} (l : list A) (l' : list B), length l' <= length l -> firstn (length l') (ones l) = ones l'.
Proof.
  intros A B l. induction l as [|x l IH]; intros [|y l'] H; cbn in *; try reflexivity; try lia.
  f_equal. apply IH. lia.
Qed.

Lemma firstn_onesZ : forall {A B} (l : list A) (l' : list B), length l' <= length l -> firstn (length l') (onesZ l) = onesZ l'.
Proof.
  intros A B l. induction l as [|x l IH]; intros [|y l'] H; cbn in *; try reflexivity; try lia.
  f_equal. apply IH. lia.
Qed.

Lemma filter_length_le : forall {A} (P : A -> bool) l, length (filter P l) <= length l.
Proof. intros A P l. induction l as [|x l IH]; cbn; [lia|]. destruct (P x); cbn; lia. Qed.

(** MultiCrossBlock(design, crossings, cs, rcc, mode, EQUAL_PREAMBLE) and the Merge of one
    CrossBlock(design, c, [], rcc) per crossing have the same valid sequences *)
Theorem multi_merge_valid : forall design crossings cs rcc mode leaves m s,
  NoDup design -> crossings <> [] ->
  Forall2 (is_cross_leaf design rcc) crossings leaves ->
  create_of (BMerge leaves cs mode (Some EqualPreamble)) = COk m ->
  valid_b (denote (create_multi design crossings cs rcc mode EqualPreamble)) s = valid_b (denote m) s.
Proof.
  intros design crossings cs rcc mode leaves m s Hnd Hne HF Hm.
  destruct (multicross_eq_merge design crossings cs rcc mode leaves Hnd Hne HF) as [m' [Hm' H]].
  rewrite Hm in Hm'. inversion Hm'; subst m'. cbv zeta in H.
  destruct H as [Hd [Hc [Hn [Hs [Hsa [Hw [Hwa [Hk [Hr [Hmo Hal]]]]]]]]]].
  set (a := create_multi design crossings cs rcc mode EqualPreamble) in *.
  assert (Hle : length (norm_crossings a) <= length (ca_crossings a)) by (unfold norm_crossings; apply filter_length_le).
  apply denote_respects. unfold args_equiv.
  split; [symmetry; exact Hd|]. split; [symmetry; exact Hn|].
  split; [rewrite Hn, Hs, Hsa, (firstn_ones _ _ Hle), (firstn_ones _ _ (le_n _)); reflexivity|].
  split; [rewrite Hn, Hw, Hwa, (firstn_onesZ _ _ Hle), (firstn_onesZ _ _ (le_n _)); reflexivity|].
  split; [symmetry; exact Hr|]. split; [symmetry; exact Hmo|]. split; [symmetry; exact Hal|].
  rewrite Hk. apply Permutation_refl.
Qed.

End Denote.

(** * The hypothesis is satisfiable: a toy [denote] that reads the design and the constraint list *)
Definition ex_denote (a : create_args) : sem :=
  {| s_trials := 2;
     s_factors := map (fun _ => {| f_nlevels := 2; f_sustain := 1; f_derived := None |}) (ca_design a);
     s_crossings := [];
     s_constraints := map (fun oc => {| k_kind := Sem.KExactlyK (Z.to_nat (c_param (snd oc))); k_factor := 0; k_level := 0;
                                       k_windows := [(0, 2)] |}) (ca_constraints a) |}.

Lemma ex_denote_respects : forall a b, args_equiv a b -> forall s, valid_b (ex_denote a) s = valid_b (ex_denote b) s.
Proof.
  intros a b [Hd [_ [_ [_ [_ [_ [_ Hp]]]]]]] s. apply valid_perm_constraints; try reflexivity.
  - cbn. rewrite Hd. reflexivity.
  - cbn. apply Permutation_map. exact Hp.
Qed.
