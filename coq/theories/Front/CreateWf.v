(** The well-formedness guards of the property theorems hold of every flat record the model of the
    constructor ([create_flat], Front/CreateFlat.v) builds from an acceptable input.

    The guards [wf_layout] (Design/LayoutWf.v, hypothesis of C14) and [wf_trials_b] / [wf_trials]
    (Front/TrialsWf.v, Front/TrialsProofs.v, hypothesis of C16) are checked per run on the flat record
    of every real block; here they are *proved* of [fb] whenever [create_flat ci = FOk fb] and the
    executable condition [input_ok ci] (Front/CreateOk.v) on the constructor arguments holds:

    - [window_ok]: every derivation window has stride >= 1 ([Window.__post_init__] rejects others) and a
      derived factor that is not flagged [has_complex_window] has stride <= 1 and start 0 (one direction of
      the definition of [Factor.has_complex_window]);
    - one exclusion count per non-empty crossing, smaller than the product of the level-weight sums of the
      crossing (so no crossing is excluded entirely; in particular every crossed factor is a factor of the
      design with a level of positive weight: [input_ok_crossed]);
    - a sustain count for every non-empty crossing, all sustain counts positive;
    - crossed factors have stride 1 ([Block.__validate] rejects stride > 1 in a crossing);
    - [sustains_consistent]: crossings that share a factor have the same sustain count.

    Also proved of a created record: its [preamble_sizes] and trial count are the documented numbers
    ([created_fields]), it has at least one trial ([created_trials_pos]), and the geometry its constraints are
    initialised with satisfies the hypotheses of the C26 theorems ([created_geometry], [ranges_of_created]).

    What is *not* implied without the conditions (concrete inputs, replayed on the real constructors): the
    [_refuted] examples at the end - a factor shared by crossings of different sustain counts
    (Merge of a Nest with a block crossing one of the Nest's outer factors: accepted by the real code), a
    crossing all of whose combinations are excluded (accepted in REPEAT mode, with the error flag), a crossed
    factor of stride 2 (rejected by the real [Block.__validate], which [create_flat] does not model). *)
From Coq Require Import ZArith List Bool Arith Lia.
From SP Require Import Design.Flat Design.Layout Design.LayoutWf Design.LayoutProofs Design.RangesProofs.
From SP Require Import Front.Trials Front.TrialsWf Front.TrialsProofs Front.CreateFlat.
From SP Require Export Front.CreateOk.
Import ListNotations.

Record input_ok_P (ci : create_input) : Prop := {
  ok_windows : forall fd, In fd (ci_design ci) -> window_ok fd = true;
  ok_excl_len : length (ci_exclusions ci) = length (st_crossings ci);
  ok_excl : forall c e, In (c, e) (combine (st_crossings ci) (ci_exclusions ci)) -> e < crossing_size_no_excl (in_flat ci) c;
  ok_sus_len : length (st_crossings ci) <= length (ci_sustains ci);
  ok_sus_pos : forall n, In n (ci_sustains ci) -> 0 < n;
  ok_stride : forall c f, In c (st_crossings ci) -> In f c -> fstride (in_flat ci) f = 1;
  ok_cons : sustains_consistent (paired ci) = true
}.

Lemma input_ok_spec : forall ci, input_ok ci = true -> input_ok_P ci.
Proof.
  intros ci H. unfold input_ok in H.
  repeat (apply andb_prop in H; let H' := fresh "H" in destruct H as [H H']).
  constructor.
  - apply forallb_forall. assumption.
  - apply Nat.eqb_eq. assumption.
  - intros c e Hin. rewrite forallb_forall in H4. apply Nat.ltb_lt. exact (H4 (c, e) Hin).
  - apply Nat.leb_le. assumption.
  - intros n Hin. rewrite forallb_forall in H2. apply Nat.ltb_lt. exact (H2 n Hin).
  - intros c f Hc Hf. rewrite forallb_forall in H1. specialize (H1 c Hc). rewrite forallb_forall in H1.
    apply Nat.eqb_eq. exact (H1 f Hf).
  - assumption.
Qed.

(** * Inversion of [create_flat] *)

Lemma create_flat_inv : forall ci fb,
  create_flat ci = FOk fb ->
  exists pres T m ws,
    model_preambles (st_flat ci (st_sizes ci) []) = Some pres /\
    model_trials (st_flat ci (st_sizes ci) pres) = Some T /\
    model_min_trials (st_flat ci (st_sizes ci) pres) = Some m /\
    fb = mkflat (ci_design ci) (st_act ci) (st_crossings ci) (ci_sustains ci) (map Z.to_nat ws) (st_sizes ci) pres
                (ci_alignment ci) (st_alpre ci) (Z.to_nat m) (Z.to_nat T) (ci_rcc ci)
                (st_exclude (st_cons ci)) (ci_excluded_derived ci)
                (map (init_wb (st_geometry ci pres T)) (st_cons ci) ++ ci_derivations ci) (ci_errors_fail ci).
Proof.
  intros ci fb Hc. unfold create_flat in Hc.
  destruct (needs_desugar _ _); [discriminate|].
  destruct (model_preambles _) as [pres|] eqn:Ep; [|discriminate].
  destruct (match ci_alignment ci with EqualPreamble => _ | _ => _ end); [discriminate|].
  destruct (model_trials _) as [T|] eqn:ET; [|discriminate].
  destruct (model_min_trials _) as [m|] eqn:Em; [|discriminate].
  destruct (model_weights _ _ _ _) as [ws| | |]; try discriminate.
  injection Hc as <-. exists pres, T, m, ws. repeat split; assumption.
Qed.

(** * [wf_layout] *)

Lemma nodupb_NoDup : forall l, NoDup l -> nodupb l = true.
Proof.
  induction l as [|x r IH]; intro H; [reflexivity|]. inversion H; subst. cbn [nodupb].
  rewrite IH by assumption. rewrite andb_true_r. apply negb_true_iff.
  destruct (existsb (Nat.eqb x) r) eqn:E; [|reflexivity].
  apply existsb_exists in E. destruct E as [y [Hy Hxy]]. apply Nat.eqb_eq in Hxy. subst. contradiction.
Qed.

Lemma st_act_wf : forall ci, (forall fd, In fd (ci_design ci) -> window_ok fd = true) ->
  forall f, In f (st_act ci) ->
    match nth_error (ci_design ci) f with
    | Some fd => ff_complex fd || match ff_window fd with
                                  | None => true
                                  | Some w => (win_start w =? 0) && (win_stride w =? 1)
                                  end
    | None => true
    end = true.
Proof.
  intros ci Hw f Hin. destruct (nth_error (ci_design ci) f) as [fd|] eqn:E; [|reflexivity].
  pose proof (Hw fd (nth_error_In _ _ E)) as Hfd. unfold window_ok in Hfd.
  destruct (ff_window fd) as [w|]; [|apply orb_true_r].
  destruct (ff_complex fd); [reflexivity|]. cbn [orb] in *.
  apply andb_prop in Hfd. destruct Hfd as [H1 H2]. apply andb_prop in H2. destruct H2 as [H2 H3].
  apply Nat.leb_le in H1. apply Nat.leb_le in H2. rewrite H3. cbn [andb]. apply Nat.eqb_eq. lia.
Qed.

Theorem create_flat_wf_layout : forall ci fb,
  input_ok ci = true -> create_flat ci = FOk fb -> wf_layout fb = true.
Proof.
  intros ci fb Hok Hc. apply input_ok_spec in Hok.
  destruct (create_flat_inv ci fb Hc) as [pres [T [m [ws [_ [_ [_ ->]]]]]]].
  unfold wf_layout, mkflat. cbn [fl_act]. apply andb_true_intro. split.
  - apply forallb_forall. intros f Hin.
    pose proof (st_act_wf ci (ok_windows ci Hok) f Hin) as H.
    unfold is_complex, always_applies, factor_at. cbn [fl_design].
    destruct (nth_error (ci_design ci) f) as [fd|]; [exact H | reflexivity].
  - apply nodupb_NoDup. unfold st_act. apply NoDup_filter. apply seq_NoDup.
Qed.

(** * [wf_trials] *)

(** the sustain count of a factor as a function of the paired crossings *)
Definition sus_step (f : nat) (acc : nat) (cs : list nat * nat) : nat :=
  if existsb (Nat.eqb f) (fst cs) then snd cs else acc.

Lemma sustain_of_fold : forall fb f, sustain_of fb f = fold_left (sus_step f) (combine (fl_crossings fb) (fl_sustains fb)) 1.
Proof. reflexivity. Qed.

Lemma memf_In : forall f l, memf f l = true <-> In f l.
Proof.
  intros f l. unfold memf. rewrite existsb_exists. split.
  - intros [x [Hx E]]. apply Nat.eqb_eq in E. subst. exact Hx.
  - intro H. exists f. split; [exact H | apply Nat.eqb_refl].
Qed.

Lemma sus_fold_pos : forall f l acc, 0 < acc -> (forall c s, In (c, s) l -> 0 < s) -> 0 < fold_left (sus_step f) l acc.
Proof.
  intros f l. induction l as [|[c s] r IH]; intros acc Ha Hl; [exact Ha|].
  cbn [fold_left]. apply IH.
  - unfold sus_step. cbn [fst snd]. destruct (existsb _ c); [apply (Hl c s); left; reflexivity | exact Ha].
  - intros c' s' Hin. apply (Hl c' s'). right. exact Hin.
Qed.

Lemma sus_fold_stable : forall f l s,
  (forall d t, In (d, t) l -> In f d -> t = s) -> fold_left (sus_step f) l s = s.
Proof.
  intros f l s. induction l as [|[d t] r IH]; intro H; [reflexivity|].
  cbn [fold_left]. unfold sus_step at 2. cbn [fst snd].
  destruct (existsb (Nat.eqb f) d) eqn:E.
  - assert (t = s) as -> by (apply (H d t); [left; reflexivity | apply memf_In; exact E]).
    apply IH. intros d' t' Hin. apply H. right. exact Hin.
  - apply IH. intros d' t' Hin. apply H. right. exact Hin.
Qed.

Lemma sus_fold_consistent : forall f l acc c s,
  sustains_consistent l = true -> In (c, s) l -> In f c -> fold_left (sus_step f) l acc = s.
Proof.
  intros f l. induction l as [|[c0 s0] r IH]; intros acc c s Hcons Hin Hf; [contradiction|].
  cbn [sustains_consistent fst snd] in Hcons. apply andb_prop in Hcons. destruct Hcons as [Hhd Hr].
  cbn [fold_left]. destruct Hin as [Heq|Hin].
  - injection Heq as -> ->. unfold sus_step at 2. cbn [fst snd].
    assert (E : existsb (Nat.eqb f) c = true) by (apply memf_In; exact Hf). rewrite E.
    apply sus_fold_stable. intros d t Hdt Hfd. rewrite forallb_forall in Hhd. specialize (Hhd (d, t) Hdt).
    cbn [fst snd] in Hhd. apply orb_prop in Hhd. destruct Hhd as [Hn|He].
    + apply negb_true_iff in Hn. exfalso.
      assert (Hs : shares c d = true).
      { unfold shares. apply existsb_exists. exists f. split; [exact Hf | apply memf_In; exact Hfd]. }
      congruence.
    + apply Nat.eqb_eq in He. symmetry. exact He.
  - apply (IH _ c s Hr Hin Hf).
Qed.

Lemma In_combine_l_ex : forall {A B} (l : list A) (m : list B) x,
  In x l -> length l <= length m -> exists y, In (x, y) (combine l m).
Proof.
  intros A B l. induction l as [|a r IH]; intros m x Hin Hlen; [contradiction|].
  destruct m as [|b m']; [cbn in Hlen; lia|]. cbn [combine]. destruct Hin as [<-|Hin].
  - exists b. left. reflexivity.
  - destruct (IH m' x Hin) as [y Hy]; [cbn in Hlen; lia|]. exists y. right. exact Hy.
Qed.

Lemma st_crossings_nonempty : forall ci c, In c (st_crossings ci) -> nonempty_b c = true.
Proof. intros ci c H. unfold st_crossings in H. apply filter_In in H. destruct H as [_ H]. destruct c; [discriminate|reflexivity]. Qed.

Section Created.
Variable ci : create_input.
Hypothesis Hok : input_ok_P ci.

(** any flat record that carries the input's design, its non-empty crossings and its sustain counts *)
Variable fb : flat.
Hypothesis Hdesign : fl_design fb = ci_design ci.
Hypothesis Hcross : fl_crossings fb = st_crossings ci.
Hypothesis Hsus : fl_sustains fb = ci_sustains ci.

Lemma created_sustain_pos : forall f, 0 < sustain fb f.
Proof.
  intro f. unfold sustain. rewrite sustain_of_fold, Hcross, Hsus. apply sus_fold_pos; [lia|].
  intros c s Hin. apply (ok_sus_pos ci Hok). exact (in_combine_r _ _ _ _ Hin).
Qed.

Lemma created_sustain_crossing : forall c f, In c (st_crossings ci) -> In f c -> sustain fb f = csustain fb c.
Proof.
  intros c f Hc Hf. destruct (In_combine_l_ex _ (ci_sustains ci) c Hc (ok_sus_len ci Hok)) as [s Hs].
  assert (H : forall g, In g c -> sustain fb g = s).
  { intros g Hg. unfold sustain. rewrite sustain_of_fold, Hcross, Hsus.
    exact (sus_fold_consistent g _ 1 c s (ok_cons ci Hok) Hs Hg). }
  rewrite (H f Hf). destruct c as [|g r]; [contradiction|]. cbn [csustain]. symmetry. apply H. left. reflexivity.
Qed.

Lemma created_fstride : forall f, fstride fb f = fstride (in_flat ci) f.
Proof. intro f. unfold fstride, factor_at. rewrite Hdesign. reflexivity. Qed.

Lemma created_wf_crossing_b : forall c, In c (st_crossings ci) -> wf_crossing_b fb c = true.
Proof.
  intros c Hc. unfold wf_crossing_b. rewrite (st_crossings_nonempty ci c Hc). cbn [andb].
  apply andb_true_intro. split.
  - apply Nat.ltb_lt. destruct c as [|g r]; [cbn; lia|]. cbn [csustain]. apply created_sustain_pos.
  - apply forallb_forall. intros f Hf. apply andb_true_intro. split; apply Nat.eqb_eq.
    + rewrite created_fstride. exact (ok_stride ci Hok c f Hc Hf).
    + exact (created_sustain_crossing c f Hc Hf).
Qed.

Lemma created_sizes_pos : forall S, In S (st_sizes ci) -> 0 < S.
Proof.
  intros S HS. unfold st_sizes in HS. apply in_map_iff in HS. destruct HS as [[c e] [<- Hin]]. cbn [fst snd].
  pose proof (ok_excl ci Hok c e Hin) as He. fold (in_flat ci).
  assert (Hc : In c (st_crossings ci)) by exact (in_combine_l _ _ _ _ Hin).
  assert (Hs : 0 < match c with f :: _ => sustain_of (in_flat ci) f | [] => 1 end).
  { destruct c as [|g r]; [lia|]. rewrite sustain_of_fold. apply sus_fold_pos; [lia|].
    intros c' s' Hin'. apply (ok_sus_pos ci Hok). exact (in_combine_r _ _ _ _ Hin'). }
  apply Nat.mul_pos_pos; [lia | exact Hs].
Qed.

Lemma created_sizes_length : length (st_sizes ci) = length (st_crossings ci).
Proof. unfold st_sizes. rewrite map_length, combine_length, (ok_excl_len ci Hok). apply Nat.min_id. Qed.

Lemma created_wf_trials_b : fl_sizes fb = st_sizes ci -> wf_trials_b fb = true.
Proof.
  intro Hsz. unfold wf_trials_b. rewrite Hsz, Hcross. apply andb_true_intro. split; [apply andb_true_intro; split|].
  - apply Nat.eqb_eq. exact created_sizes_length.
  - apply forallb_forall. intros S HS. apply Nat.ltb_lt. exact (created_sizes_pos S HS).
  - apply forallb_forall. exact created_wf_crossing_b.
Qed.

End Created.

Theorem create_flat_wf_trials_b : forall ci fb,
  input_ok ci = true -> create_flat ci = FOk fb -> wf_trials_b fb = true.
Proof.
  intros ci fb Hok Hc. apply input_ok_spec in Hok.
  destruct (create_flat_inv ci fb Hc) as [pres [T [m [ws [_ [_ [_ ->]]]]]]].
  apply (created_wf_trials_b ci Hok); reflexivity.
Qed.

Theorem create_flat_wf_trials : forall ci fb,
  input_ok ci = true -> create_flat ci = FOk fb -> wf_trials fb.
Proof. intros ci fb Hok Hc. apply wf_trials_b_sound. exact (create_flat_wf_trials_b ci fb Hok Hc). Qed.

Theorem create_flat_wf_trials_both : forall ci fb,
  input_ok ci = true -> create_flat ci = FOk fb -> wf_trials_b fb = true /\ wf_trials fb.
Proof. intros ci fb Hok Hc. split; [exact (create_flat_wf_trials_b ci fb Hok Hc) | exact (create_flat_wf_trials ci fb Hok Hc)]. Qed.

(** * The recorded preamble sizes, trial count and block geometry *)

Lemma map_fst_combine_eq : forall {A B} (l : list A) (m : list B), length l = length m -> map fst (combine l m) = l.
Proof.
  intros A B l. induction l as [|a r IH]; intros m H; [reflexivity|].
  destruct m as [|b m']; [discriminate|]. cbn [combine map fst]. f_equal. apply IH. cbn in H. lia.
Qed.

(** the fields [preamble_sizes] and [trials_per_sample()] of a created record are the documented numbers:
    per crossing the latest window start among its factors, in trials; the larger of the rounded
    [MinimumTrials] and the largest need of a crossing *)
Theorem created_fields : forall ci fb,
  input_ok ci = true -> create_flat ci = FOk fb ->
  fl_preambles fb = map (fun c => cstart fb c * csustain fb c) (fl_crossings fb) /\
  (fl_alignment fb <> PostPreamble -> fl_trials fb = Nat.max (fl_min_trials fb) (doc_need_own fb)) /\
  (fl_alignment fb = PostPreamble -> fl_crossings fb <> [] -> fl_trials fb = Nat.max (fl_min_trials fb) (doc_need_post fb)).
Proof.
  intros ci fb Hok Hc. apply input_ok_spec in Hok.
  destruct (create_flat_inv ci fb Hc) as [pres [T [m [ws [Hp [HT [Hm ->]]]]]]].
  assert (W2 : wf_trials (st_flat ci (st_sizes ci) []))
    by (apply wf_trials_b_sound; apply (created_wf_trials_b ci Hok); reflexivity).
  assert (W3 : wf_trials (st_flat ci (st_sizes ci) pres))
    by (apply wf_trials_b_sound; apply (created_wf_trials_b ci Hok); reflexivity).
  split; [|split].
  - rewrite (model_preambles_closed _ W2) in Hp. injection Hp as Hp.
    cbn [st_flat mkflat fl_crossings fl_sizes] in Hp.
    rewrite (map_fst_combine_eq _ _ (eq_sym (created_sizes_length ci Hok))) in Hp.
    symmetry. exact Hp.
  - intro Hal. cbn [mkflat fl_alignment] in Hal.
    rewrite (model_trials_own _ m W3 Hal Hm) in HT. injection HT as HT.
    cbn [mkflat fl_trials fl_min_trials].
    change (doc_need_own (mkflat _ _ _ _ _ _ _ _ _ _ _ _ _ _ _ _)) with (doc_need_own (st_flat ci (st_sizes ci) pres)).
    assert (1 <= doc_need_own (st_flat ci (st_sizes ci) pres)) by (unfold doc_need_own; lia).
    lia.
  - intros Hal Hne. cbn [mkflat fl_alignment fl_crossings] in Hal, Hne.
    rewrite (model_trials_post _ m W3 Hal Hne Hm) in HT. injection HT as HT.
    cbn [mkflat fl_trials fl_min_trials].
    change (doc_need_post (mkflat _ _ _ _ _ _ _ _ _ _ _ _ _ _ _ _)) with (doc_need_post (st_flat ci (st_sizes ci) pres)).
    assert (1 <= doc_need_post (st_flat ci (st_sizes ci) pres)) by (unfold doc_need_post; lia).
    lia.
Qed.

Lemma preamble0_lt_need : forall fb,
  wf_trials fb -> nth 0 (map (fun c => cstart fb c * csustain fb c) (fl_crossings fb)) 0 < doc_need_own fb.
Proof.
  intros fb [Hlen [Hs _]]. unfold doc_need_own.
  destruct (fl_crossings fb) as [|c0 r]; [cbn; lia|].
  destruct (fl_sizes fb) as [|S0 Ss]; [discriminate|]. inversion Hs; subst.
  cbn [combine map nth fst snd]. rewrite max_list_cons. unfold crossing_need. lia.
Qed.

(** every created record has at least one trial *)
Theorem created_trials_pos : forall ci fb, create_flat ci = FOk fb -> 0 < fl_trials fb.
Proof.
  intros ci fb Hc. destruct (create_flat_inv ci fb Hc) as [pres [T [m [ws [_ [HT [_ ->]]]]]]].
  destruct (model_trials_ge_min _ T HT) as [_ [_ [t [_ [_ H1]]]]]. cbn [mkflat fl_trials]. lia.
Qed.

(** [get_geometry(0)], the [within_block] every constraint given to this constructor is initialised with
    (C26: its repetition windows), is the whole created block, and outside POST_PREAMBLE its preamble is
    shorter than the block *)
Theorem created_geometry : forall ci fb,
  input_ok ci = true -> create_flat ci = FOk fb -> fl_alignment fb <> PostPreamble ->
  exists g, fl_constraints fb = map (init_wb g) (st_cons ci) ++ ci_derivations ci /\
            g_trials g = fl_trials fb /\ g_preamble g = nth 0 (fl_preambles fb) 0 /\ g_preamble g < g_trials g.
Proof.
  intros ci fb Hok Hc Hal.
  destruct (created_fields ci fb Hok Hc) as [Hpre [Htr _]]. specialize (Htr Hal).
  pose proof (create_flat_wf_trials ci fb Hok Hc) as Hwf. pose proof (preamble0_lt_need fb Hwf) as Hlt.
  rewrite <- Hpre in Hlt. clear Hpre.
  destruct (create_flat_inv ci fb Hc) as [pres [T [m [ws [Hp [HT [_ ->]]]]]]].
  exists (st_geometry ci pres T). cbn [mkflat fl_constraints fl_trials fl_preambles fl_alignment fl_min_trials] in *.
  assert (Hg : g_preamble (st_geometry ci pres T) = nth 0 pres 0).
  { unfold st_geometry. cbn [g_preamble]. destruct (st_crossings ci) eqn:Ec.
    - unfold model_preambles in Hp. cbn [st_flat mkflat fl_crossings] in Hp. rewrite Ec in Hp. cbn in Hp.
      injection Hp as <-. reflexivity.
    - destruct (ci_alignment ci); [congruence|reflexivity|reflexivity]. }
  split; [reflexivity|]. split; [reflexivity|]. split; [exact Hg|]. rewrite Hg. cbn [st_geometry g_trials]. lia.
Qed.

(** C26: for the created block itself the repetition windows of its own geometry are one window, the whole
    sequence (the hypotheses [g_preamble g < g_trials g] of the C26 theorems hold of it) *)
Theorem ranges_of_created : forall ci fb,
  input_ok ci = true -> create_flat ci = FOk fb -> fl_alignment fb <> PostPreamble ->
  exists g, fl_constraints fb = map (init_wb g) (st_cons ci) ++ ci_derivations ci /\
            g_preamble g < g_trials g /\ g_preamble g < fl_trials fb /\
            map_block_trial_ranges fb (Some g) = Some [(0, fl_trials fb)].
Proof.
  intros ci fb Hok Hc Hal. destruct (created_geometry ci fb Hok Hc Hal) as [g [Hcs [Ht [_ Hlt]]]].
  exists g. split; [exact Hcs|]. split; [exact Hlt|]. split; [lia|].
  destruct (ranges_spec fb g Hlt Hal) as [n [Hr Hn]]. rewrite Hr. f_equal.
  assert (n = 1).
  { pose proof (proj2 (Hn 0)) as H0. pose proof (proj1 (Hn 1)) as H1.
    rewrite Nat.mul_0_l in H0. rewrite Nat.mul_1_l in H1.
    assert (0 < n) by (apply H0; lia). destruct (Nat.lt_ge_cases 1 n) as [Hgt|Hle]; [specialize (H1 Hgt); lia | lia]. }
  subst n. cbn [seq map]. unfold window_of. rewrite Nat.mul_0_l. f_equal. f_equal. lia.
Qed.

(** * The property theorems without their guards (Properties/C14.v, Properties/C16.v) *)

(** C14: on a created record distinct choices have distinct variables, the variables of the choices are exactly
    1..variables_per_sample, [decode_variable] inverts [encode_variable], and the first auxiliary variable is fresh *)
Theorem layout_of_created : forall (ci : create_input) (fb : flat),
  input_ok ci = true -> create_flat ci = FOk fb ->
  (forall f l t f' l' t',
     applicable fb f l t -> applicable fb f' l' t' ->
     encode_variable fb f l t = encode_variable fb f' l' t' -> f = f' /\ l = l' /\ t = t') /\
  (forall f l t, applicable fb f l t ->
     exists v, encode_variable fb f l t = Some v /\ 1 <= v <= variables_per_sample fb) /\
  (forall v, 1 <= v <= variables_per_sample fb ->
     exists f l t, applicable fb f l t /\ encode_variable fb f l t = Some v) /\
  (forall f l t v, applicable fb f l t -> encode_variable fb f l t = Some v ->
     decode_variable fb v = Some (f, l) /\ v < variables_per_sample fb + 1).
Proof.
  intros ci fb Hok Hc. pose proof (create_flat_wf_layout ci fb Hok Hc) as Hwf.
  split; [exact (encode_inj fb Hwf) | split; [exact (encode_range fb Hwf) | split; [exact (encode_onto fb Hwf)|]]].
  intros f l t v Ha He. split; [exact (decode_encode fb Hwf f l t v Ha He) | exact (fresh_above fb Hwf f l t v Ha He)].
Qed.

(** C16: on a created record the trial arithmetic follows the documented formulas *)
Theorem trials_of_created : forall (ci : create_input) (fb : flat),
  input_ok ci = true -> create_flat ci = FOk fb ->
  (forall m, fl_alignment fb <> PostPreamble -> model_min_trials fb = Some m ->
     model_trials fb = Some (Z.max m (Z.of_nat (doc_need_own fb)))) /\
  (forall m, fl_alignment fb = PostPreamble -> fl_crossings fb <> [] -> model_min_trials fb = Some m ->
     model_trials fb = Some (Z.max m (Z.of_nat (doc_need_post fb)))) /\
  model_preambles fb
  = Some (map (fun c => cstart fb c * csustain fb c) (map fst (combine (fl_crossings fb) (fl_sizes fb)))).
Proof.
  intros ci fb Hok Hc. pose proof (create_flat_wf_trials ci fb Hok Hc) as Hwf.
  split; [|split].
  - intros m Hal Hm. exact (model_trials_own fb m Hwf Hal Hm).
  - intros m Hal Hne Hm. exact (model_trials_post fb m Hwf Hal Hne Hm).
  - exact (model_preambles_closed fb Hwf).
Qed.

(** * Consequences of [input_ok]: crossed factors are factors of the design with a level of positive weight *)

Lemma fold_mul_pos : forall (w : nat -> nat) c acc,
  0 < fold_left (fun a f => a * w f) c acc -> 0 < acc /\ forall f, In f c -> 0 < w f.
Proof.
  intros w c. induction c as [|g r IH]; intros acc H; cbn [fold_left] in H.
  - split; [exact H | intros f []].
  - destruct (IH _ H) as [Hacc Hr]. split; [nia|]. intros f [<-|Hf]; [nia | exact (Hr f Hf)].
Qed.

Lemma fold_sum_pos : forall (ls : list flevel) acc,
  acc < fold_left (fun a l => a + lv_weight l) ls acc -> exists l, In l ls /\ 0 < lv_weight l.
Proof.
  induction ls as [|l r IH]; intros acc H; cbn [fold_left] in H; [lia|].
  destruct (Nat.eq_dec (lv_weight l) 0) as [E|E].
  - rewrite E, Nat.add_0_r in H. destruct (IH acc H) as [l' [Hin Hp]]. exists l'. split; [right; exact Hin | exact Hp].
  - exists l. split; [left; reflexivity | lia].
Qed.

Theorem input_ok_crossed : forall ci,
  input_ok ci = true ->
  forall c f, In c (st_crossings ci) -> In f c ->
    exists fd, nth_error (ci_design ci) f = Some fd /\ exists l, In l (ff_levels fd) /\ 0 < lv_weight l.
Proof.
  intros ci Hok c f Hc Hf. apply input_ok_spec in Hok.
  assert (Hlen : length (st_crossings ci) <= length (ci_exclusions ci)) by (rewrite (ok_excl_len ci Hok); lia).
  destruct (In_combine_l_ex _ (ci_exclusions ci) c Hc Hlen) as [e He].
  pose proof (ok_excl ci Hok c e He) as Hlt.
  assert (Hpos : 0 < crossing_size_no_excl (in_flat ci) c) by lia.
  unfold crossing_size_no_excl in Hpos. apply fold_mul_pos in Hpos. destruct Hpos as [_ Hall].
  specialize (Hall f Hf). unfold level_weight_sum, factor_at in Hall. cbn [in_flat st_flat mkflat fl_design] in Hall.
  destruct (nth_error (ci_design ci) f) as [fd|]; [|lia]. exists fd. split; [reflexivity|].
  apply (fold_sum_pos _ 0). exact Hall.
Qed.

(** * Examples *)
Require Import String.
Open Scope string_scope.

Definition xlv (n : string) : flevel := {| lv_name := n; lv_weight := 1; lv_accepts := [] |}.
Definition xfac (n a b : string) : ffactor :=
  {| ff_name := n; ff_hidden := false; ff_levels := [xlv a; xlv b]; ff_window := None; ff_complex := false |}.
(** a transition factor on factor [dep] (two levels: same / different) *)
Definition xtrans (n : string) (dep : nat) : ffactor :=
  {| ff_name := n; ff_hidden := false;
     ff_levels := [ {| lv_name := "same"; lv_weight := 1; lv_accepts := [[[Some 0; Some 0]]; [[Some 1; Some 1]]] |};
                    {| lv_name := "diff"; lv_weight := 1; lv_accepts := [[[Some 0; Some 1]]; [[Some 1; Some 0]]] |} ];
     ff_window := Some {| win_deps := [dep]; win_width := 2; win_stride := 1; win_start := 1; win_start_delta := 0%Z |};
     ff_complex := true |}.

(** the arguments [_create] receives for
      MultiCrossBlock([o, i, t], [[o, t], [i]], [MinimumTrials(7), AtMostKInARow(1, i)],
                      mode=RepeatMode.WEIGHT, alignment=AlignmentMode.PARALLEL_START)
    (t a transition factor on o), with the two [Derivation] constraints the real block generates for t *)
Definition ex_ok_input : create_input :=
  {| ci_design := [xfac "o" "a" "b"; xfac "i" "x" "y"; xtrans "t" 0];
     ci_crossings := [[0; 2]; [1]]; ci_sustains := [1; 1]; ci_weights := [1; 1];
     ci_constraints := [ICon (FMinimumTrials 7); IKRowFactor RAtMost 1 1 None];
     ci_rcc := true; ci_mode := MWeight; ci_alignment := ParallelStart;
     ci_exclusions := [0; 0];
     ci_derivations := [FDerivation 28 [[DIdx 0; DIdx 4]; [DIdx 1; DIdx 5]] 2; FDerivation 29 [[DIdx 0; DIdx 5]; [DIdx 1; DIdx 4]] 2];
     ci_excluded_derived := []; ci_errors_fail := false |}.

(** it satisfies [input_ok], [create_flat] accepts it, and the record is the flat record of the real block:
    7 trials (the crossing o x t needs 1 + 4 = 5), weights 2 and 4, sizes 4 and 2, preambles 1 and 0 *)
Example ex_ok_input_created :
  input_ok ex_ok_input = true /\
  exists fb, create_flat ex_ok_input = FOk fb /\
    fl_act fb = [0; 1; 2] /\ fl_crossings fb = [[0; 2]; [1]] /\ fl_weights fb = [2; 4] /\ fl_sizes fb = [4; 2] /\
    fl_preambles fb = [1; 0] /\ fl_alignment_preamble fb = 1 /\ fl_min_trials fb = 7 /\ fl_trials fb = 7 /\
    wf_layout fb = true /\ wf_trials_b fb = true.
Proof.
  split; [vm_compute; reflexivity|]. eexists. split; [vm_compute; reflexivity|]. repeat split.
Qed.

(** ** What is not implied *)

(** Without [sustains_consistent] the guard of C16 fails on a record the real constructors build:
      Merge([Nest(CrossBlock([g, f], [g, f], []), CrossBlock([h], [h], [])), CrossBlock([f, k], [f, k], [])])
    hands [_create] the crossings [g, f] (sustain count 2), [h] (1), [f, k] (1); [factor_to_sustain_count]
    keeps the last count for f, so the crossing [g, f] has factors of sustain counts 2 and 1. *)
Definition ex_shared_input : create_input :=
  {| ci_design := [xfac "g" "g0" "g1"; xfac "f" "f0" "f1"; xfac "h" "h0" "h1"; xfac "k" "k0" "k1"];
     ci_crossings := [[0; 1]; [2]; [1; 3]]; ci_sustains := [2; 1; 1]; ci_weights := [1; 1; 1];
     ci_constraints := []; ci_rcc := true; ci_mode := MRepeat; ci_alignment := EqualPreamble;
     ci_exclusions := [0; 0; 0]; ci_derivations := []; ci_excluded_derived := []; ci_errors_fail := false |}.

Example create_flat_wf_trials_inconsistent_sustain_refuted :
  exists ci fb, create_flat ci = FOk fb /\ sustains_consistent (paired ci) = false /\ wf_trials_b fb = false /\
    fl_sizes fb = [8; 2; 4] /\ fl_trials fb = 8 /\ sustain fb 0 = 2 /\ sustain fb 1 = 1.
Proof. exists ex_shared_input. eexists. split; [vm_compute; reflexivity|]. repeat split. Qed.

(** the same with a transition factor t on g shared between the nested crossing [g, t] and a crossing [t, k]:
    the formula of C16 (one preamble group of 2 trials + 8 = 10, the count of the Nest alone) does not give
    the trial count of the merged block (9) *)
Definition ex_shared_trans_input : create_input :=
  {| ci_design := [xfac "g" "g0" "g1"; xtrans "tg" 0; xfac "h" "h0" "h1"; xfac "k" "k0" "k1"];
     ci_crossings := [[0; 1]; [2]; [1; 3]]; ci_sustains := [2; 1; 1]; ci_weights := [1; 1; 1];
     ci_constraints := []; ci_rcc := true; ci_mode := MRepeat; ci_alignment := ParallelStart;
     ci_exclusions := [0; 0; 0];
     ci_derivations := [FDerivation 54 [[DIdx 0; DIdx 6]; [DIdx 1; DIdx 7]] 1; FDerivation 55 [[DIdx 0; DIdx 7]; [DIdx 1; DIdx 6]] 1];
     ci_excluded_derived := []; ci_errors_fail := false |}.

Example create_flat_trials_formula_inconsistent_sustain_refuted :
  exists ci fb, create_flat ci = FOk fb /\ wf_trials_b fb = false /\ fl_alignment fb <> PostPreamble /\
    fl_trials fb = 9 /\ fl_preambles fb = [1; 0; 1] /\ doc_need_own fb = 10 /\ model_trials fb = Some 9%Z.
Proof.
  exists ex_shared_trans_input. eexists. split; [vm_compute; reflexivity|]. repeat split. discriminate.
Qed.

(** Without the bound on the exclusion counts: a crossing all of whose combinations are excluded has size 0.
      MultiCrossBlock([a, b], [[a, b]], [Exclude(a0), Exclude(a1)], mode=RepeatMode.REPEAT)
    is built by the real constructor (with the error flag set; in WEIGHT mode the weight loop divides by 0) *)
Definition ex_excluded_input : create_input :=
  {| ci_design := [xfac "a" "a0" "a1"; xfac "b" "b0" "b1"];
     ci_crossings := [[0; 1]]; ci_sustains := [1]; ci_weights := [1];
     ci_constraints := [ICon (FExclude 0 0); ICon (FExclude 0 1)]; ci_rcc := true; ci_mode := MRepeat;
     ci_alignment := ParallelStart;
     ci_exclusions := [4]; ci_derivations := []; ci_excluded_derived := []; ci_errors_fail := true |}.

Example create_flat_wf_trials_all_excluded_refuted :
  exists ci fb, create_flat ci = FOk fb /\ wf_trials_b fb = false /\ fl_sizes fb = [0] /\ fl_trials fb = 1 /\
    fl_errors_fail fb = true.
Proof. exists ex_excluded_input. eexists. split; [vm_compute; reflexivity|]. repeat split. Qed.

(** in WEIGHT mode the model, like the real constructor (ZeroDivisionError), fails *)
Example create_flat_all_excluded_weight_mode :
  create_flat {| ci_design := ci_design ex_excluded_input; ci_crossings := [[0; 1]]; ci_sustains := [1]; ci_weights := [1];
                 ci_constraints := ci_constraints ex_excluded_input; ci_rcc := true; ci_mode := MWeight;
                 ci_alignment := ParallelStart; ci_exclusions := [4]; ci_derivations := []; ci_excluded_derived := [];
                 ci_errors_fail := true |} = FErr FArith.
Proof. vm_compute. reflexivity. Qed.

(** Without the stride condition: [create_flat] does not model the check of [Block.__validate] that rejects a
    crossed factor of stride > 1 (the real constructor raises), so the condition has to be stated on the input *)
Definition xwin2 (n : string) (dep : nat) : ffactor :=
  {| ff_name := n; ff_hidden := false;
     ff_levels := [ {| lv_name := "w0"; lv_weight := 1; lv_accepts := [] |}; {| lv_name := "w1"; lv_weight := 1; lv_accepts := [] |} ];
     ff_window := Some {| win_deps := [dep]; win_width := 1; win_stride := 2; win_start := 0; win_start_delta := 0%Z |};
     ff_complex := true |}.

Example create_flat_wf_trials_stride_refuted :
  exists ci fb, create_flat ci = FOk fb /\ wf_trials_b fb = false /\ fstride fb 1 = 2.
Proof.
  exists {| ci_design := [xfac "a" "a0" "a1"; xwin2 "w" 0]; ci_crossings := [[1]]; ci_sustains := [1]; ci_weights := [1];
            ci_constraints := []; ci_rcc := true; ci_mode := MRepeat; ci_alignment := ParallelStart;
            ci_exclusions := [0]; ci_derivations := []; ci_excluded_derived := []; ci_errors_fail := false |}.
  eexists. split; [vm_compute; reflexivity|]. repeat split.
Qed.
Close Scope string_scope.
