(** The hypotheses of the decoding theorem of C14 ([wf_layout], [act_keys_distinct], at least one trial) hold of
    every flat record [create_flat] (Front/CreateFlat.v) builds from an input satisfying [input_ok]
    (Front/CreateOk.v) whose design has pairwise distinct dict keys (the constructors reject equal factor names). *)
From Coq Require Import ZArith List Bool Arith Lia String.
From SP Require Import Design.Flat Design.Layout Design.LayoutWf.
From SP Require Import Sample.Decode Sample.DecodeWf Sample.DecodeProofs.
From SP Require Import Front.CreateFlat Front.CreateWf.
Import ListNotations.

(** the dict keys of the factors of the design are pairwise distinct *)
Definition design_keys_distinct (ci : create_input) : bool :=
  keys_nodup (map (key_of (in_flat ci)) (seq 0 (List.length (ci_design ci)))).

Lemma keys_nodup_filter : forall (k : nat -> dkey) (P : nat -> bool) l,
  keys_nodup (map k l) = true -> keys_nodup (map k (filter P l)) = true.
Proof.
  intros k P l. induction l as [|x r IH]; intro H; [reflexivity|].
  cbn [map keys_nodup] in H. apply andb_prop in H. destruct H as [Hx Hr].
  cbn [filter]. destruct (P x); [|exact (IH Hr)].
  cbn [map keys_nodup]. rewrite (IH Hr), andb_true_r.
  apply negb_true_iff. apply negb_true_iff in Hx.
  destruct (existsb (dkey_eqb (k x)) (map k (filter P r))) eqn:E; [|reflexivity].
  apply existsb_exists in E. destruct E as [y [Hy Hxy]].
  apply in_map_iff in Hy. destruct Hy as [z [<- Hz]]. apply filter_In in Hz. destruct Hz as [Hz _].
  assert (existsb (dkey_eqb (k x)) (map k r) = true).
  { apply existsb_exists. exists (k z). split; [apply in_map; exact Hz | exact Hxy]. }
  congruence.
Qed.

Lemma key_of_design : forall x y f, fl_design x = fl_design y -> key_of x f = key_of y f.
Proof. intros x y f H. unfold key_of, factor_at. rewrite H. reflexivity. Qed.

Theorem created_act_keys_distinct : forall ci fb,
  design_keys_distinct ci = true -> create_flat ci = FOk fb -> act_keys_distinct fb = true.
Proof.
  intros ci fb Hk Hc.
  destruct (create_flat_inv ci fb Hc) as [pres [T [m [ws [_ [_ [_ ->]]]]]]].
  unfold act_keys_distinct. cbn [mkflat fl_act]. unfold st_act.
  rewrite (map_ext _ (key_of (in_flat ci))) by (intro f; apply key_of_design; reflexivity).
  apply keys_nodup_filter. exact Hk.
Qed.

(** C14 decoding on a created record: no hypothesis about [fb] left *)
Theorem decode_of_created : forall (ci : create_input) (fb : flat),
  input_ok ci = true -> design_keys_distinct ci = true -> create_flat ci = FOk fb ->
  forall s : nat -> nat -> nat,
    (forall f t, In f (fl_act fb) /\ 1 <= t <= fl_trials fb /\ applies_at fb f t = true ->
                 s f t < nlevels fb f) ->
    forall sol : list Z,
      NoDup sol ->
      (forall v, 1 <= v <= variables_per_sample fb ->
                 (In (Z.of_nat v) sol <->
                  exists f t, (In f (fl_act fb) /\ 1 <= t <= fl_trials fb /\ applies_at fb f t = true) /\
                              encode_variable fb f (s f t) t = Some v)) ->
      exists d,
        decode fb sol = DOk d /\
        (forall f, In f (fl_act fb) ->
                   lookup (key_of fb f) d
                   = Some (map (fun t0 => if applies_at fb f (S t0)
                                          then level_name fb f (s f (S t0)) else EmptyString)
                               (seq 0 (fl_trials fb)))) /\
        (forall k ys, In (k, ys) d -> exists f, In f (fl_act fb) /\ k = key_of fb f).
Proof.
  intros ci fb Hok Hk Hc.
  exact (decode_onehot fb (create_flat_wf_layout ci fb Hok Hc) (created_act_keys_distinct ci fb Hk Hc)
                       (created_trials_pos ci fb Hc)).
Qed.

(** the example input of Front/CreateWf.v has distinct keys *)
Example ex_ok_input_keys : design_keys_distinct ex_ok_input = true.
Proof. reflexivity. Qed.
