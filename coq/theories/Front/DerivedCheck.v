(** The per-program check of T2(d): the checker [sem_eqv_tb] (Design/SemEqvTB.v) between the code's
    reading of the flat record created from the PROGRAM and the documented semantics of the program.
    Evaluated by the driver (extract/drv_t2.ml, command t2derived) on every generated program.
    Model-style file: executable definitions only. *)
From Coq Require Import List Bool.
From SP Require Import Design.Flat Design.Sem Design.DocSem Design.SemEqvTB Front.CreateFlat Front.DerivedInput Encode.CodeSem.

(** [None]: outside the fragment, the constructor fails, or the documentation is silent *)
Definition t2d_check (p : program) : option bool :=
  match derived_input p, doc_sem p with
  | Some ci, Ok ds =>
    match create_flat ci with
    | FOk fb => Some (sem_eqv_tb (code_sem fb) (ds_sem ds))
    | FErr _ => None
    end
  | _, _ => None
  end.
