(** The guard of T2(d) (Front/DerivedT2*.v, Properties/T2d.v), evaluated per program by the driver
    (extract/drv_t2.ml, command t2derived).  Model-style file: executable definitions only.

    A program is inside the guard when its main block is a single CrossBlock such that
    - the design and the crossing list every factor once and the crossing is not empty;
    - the design lists its simple factors before its derived factors (then the factor order of
      [doc_sem], by depth, is the design order of the flat record);
    - every design factor has a level and distinct level names; a derived factor is WithinTrial over
      distinct simple factors of the design ([derived_input] is defined);
    - no argument tuple matches two levels of a derived factor (the constructor does not raise);
    - the constructor reports no error ([show_errors()] does not fail): every argument tuple matches
      a level of every derived factor, and not (complete crossing required and a combination of the
      crossing impossible or excluded);
    - [joint_free]: at most one derived factor takes part in the crossing arithmetic;
    - [uncrossed_ok]: an excluded level of an uncrossed derived factor reads crossed factors only, or
      removes no combination. *)
From Coq Require Import ZArith List Bool Arith String.
From SP Require Import Design.Flat Design.Sem Design.DocSem Front.CreateFlat Front.PlainInput Front.DerivedInput.
Import ListNotations.
Local Open Scope nat_scope.
Local Open Scope list_scope.

Fixpoint nodup_nat_b' (l : list nat) : bool :=
  match l with [] => true | x :: r => negb (DocSem.mem x r) && nodup_nat_b' r end.

Fixpoint nodup_names_b' (l : list name) : bool :=
  match l with [] => true | x :: r => negb (existsb (String.eqb x) r) && nodup_names_b' r end.

Section Guard.
Variable p : program.

Definition kind_of (f : nat) : option pfkind := match fm p f with Ok fd => Some (pf_kind fd) | _ => None end.

Definition is_simple_id (f : nat) : bool := match kind_of f with Some (FSimple _) => true | _ => false end.

(** no derived factor before a simple one *)
Fixpoint simple_first (design : list nat) : bool :=
  match design with
  | [] => true
  | f :: r => (is_simple_id f || forallb (fun g => negb (is_simple_id g)) r) && simple_first r
  end.

Definition factor_guard (f : nat) : bool :=
  match kind_of f with
  | Some (FSimple levels) => nonempty levels && nodup_names_b' (map fst levels)
  | Some (FDerived w levels) => nonempty levels && nodup_names_b' (map dl_name levels) && nodup_nat_b' (pw_deps w)
  | _ => false
  end.

(** at most one derived factor takes part in the crossing arithmetic: the crossed derived factors
    and the (distinct) excluded levels of uncrossed derived factors are at most one in all.
    ([__count_exclusions] judges every derived level of a combination, and every Exclude of an
    uncrossed derived level, on its own; the documented semantics judges them together.) *)
Definition is_derived_id (f : nat) : bool := match kind_of f with Some (FDerived _ _) => true | _ => false end.

Definition joint_free (crossing : list nat) (cs : list pcons) : bool :=
  List.length (filter is_derived_id crossing)
  + List.length (dedupe level_eqb (filter (fun fn : nat * name => is_derived_id (fst fn) && negb (DocSem.mem (fst fn) crossing))
                                          (excludes_of cs))) <=? 1.

(** the Exclude of a level of an uncrossed derived factor either reads crossed factors only, or removes no
    combination of the crossing.  (Otherwise [__count_exclusions] shrinks the crossing size through
    [__excluded_derived], but [is_excluded_combination] - which compares the [excluded_derived] dicts with the
    crossed levels only - keeps the combination in the Cross constraint: the block is unsatisfiable.) *)
Definition uncrossed_ok (ci : create_input) : bool :=
  let fds := ci_design ci in
  let cr := hd [] (ci_crossings ci) in
  forallb (fun fl : nat * nat =>
             negb (is_der fds (fst fl)) || memf (fst fl) cr
             || forallb (fun d => memf d cr) (fdeps_of fds (fst fl))
             || forallb (fun c => negb (exclude_hits fds (st_act ci) cr fl c)) (all_crossings fds cr))
          (st_exclude (st_cons ci)).

Definition t2d_guard : bool :=
  match p_main p with
  | PCross design crossing cs rcc =>
    nodup_nat_b' design && nodup_nat_b' crossing && nonempty crossing &&
    simple_first design && forallb factor_guard design && joint_free crossing cs &&
    match derived_input p with
    | Some ci => negb (derivation_raises (ci_design ci)) && negb (ci_errors_fail ci) && uncrossed_ok ci
    | None => false
    end
  | _ => false
  end.

End Guard.
