(** The narrower guard [t2d_guard2] of the UNCONDITIONAL T2(d) theorem (Front/DerivedT2Main.v,
    Properties/T2d.v), evaluated per program by the driver (extract/drv_t2.ml, command t2derived).
    Model-style file: executable definitions only.

    [t2d_guard2 p] = [t2d_guard p] (Front/DerivedGuard.v) and
    - every factor of the crossing is a simple factor (the derived factors are outside the crossing:
      the uncrossed-congruency Stroop shape);
    - no Exclude constraint names a level of a derived factor;
    - [wf_derived]: every tuple of an explicit level's table is the key of a combination of level
      names of the window factors (one column [Some name] per window factor - a tuple of another
      shape never matches the predicate of harness/ir.py, but [doc_sem]'s table encoding truncates it
      to the window factors: without this conjunct the tie is refuted, Properties/T2d.v), and every
      combination of window levels matches exactly one level (stated on the program's tables; for
      well-formed tables this is what "no ambiguity, no unmatched tuple" of [t2d_guard] says on the
      flat record). *)
From Coq Require Import ZArith List Bool Arith String.
From SP Require Import Design.Flat Design.Sem Design.DocSem Front.CreateFlat Front.PlainInput Front.DerivedInput Front.DerivedGuard.
Import ListNotations.
Local Open Scope nat_scope.
Local Open Scope list_scope.

Section Guard2.
Variable p : program.

Definition wf_derived (f : nat) : bool :=
  match kind_of p f with
  | Some (FDerived w levels) =>
    match all_opt (map (simple_names p) (pw_deps w)) with
    | Some dnames =>
      let keys := map (key_of dnames) (dep_product dnames) in
      forallb (fun lev => dl_else lev || forallb (fun e => memb entry_eqb e keys) (dl_table lev)) levels &&
      forallb (fun combo => List.length (filter (fun lev => dl_accepts levels lev (key_of dnames combo)) levels) =? 1)
              (dep_product dnames)
    | None => false
    end
  | _ => true
  end.

Definition t2d_guard2 : bool :=
  t2d_guard p &&
  match p_main p with
  | PCross design crossing cs rcc =>
    forallb (is_simple_id p) crossing &&
    forallb (fun fn : nat * name => is_simple_id p (fst fn)) (excludes_of cs) &&
    forallb wf_derived design
  | _ => false
  end.

End Guard2.
