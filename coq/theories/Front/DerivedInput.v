(** T2(d): the function "flatten" on single CrossBlocks with WITHIN-TRIAL DERIVED factors (the
    Stroop shape: design [color, text, congruent = WithinTrial(color, text)], the derived factor in
    the crossing or not, constraints on derived levels).

    From a program whose main block is a single CrossBlock of factors that are simple, or derived
    with a WithinTrial window (width 1, stride 1, start 0) over simple factors of the design, with
    constraints among MinimumTrials / the row kinds / Exclude / Pin, to the [create_input] that the
    constructor hands to [_create] (Front/CreateFlat.v) - now including the three inputs that
    [create_flat] otherwise reads from the real block:

    - [ci_exclusions]        [MultiCrossBlockRepeat.__count_exclusions] (cross_block.py): impossible
                             combinations of crossed derived levels + Exclude of crossed levels +
                             Exclude of an uncrossed derived level via [__excluded_derived];
    - [ci_derivations]       [DerivationProcessor.generate_derivations] (derivation_processor.py);
    - [ci_excluded_derived]  [Exclude.validate] / [extract_simplelevel] (constraint.py);
    - [ci_errors_fail]       the three non-WARNING messages that can be added to [block.errors].

    The user's predicates are the table-defined predicates of harness/ir.py ([_mk_predicate]: the
    tuple of names, one per depended-on factor, is a member of the level's table; an else level is
    "no explicit level accepts", [ElseLevel.derive_level_from_levels]).

    [t2d_flat p = create_flat (derived_input p)] is compared with harness/flat.py on every generated
    program (harness/t2_corr.py compare_derived, driver command t2derived).
    Model-style file: executable definitions only. *)
From Coq Require Import ZArith List Bool Arith String.
From SP Require Import Design.Flat Design.Layout Design.Sem Design.DocSem Front.Trials Front.CreateFlat
     Front.PlainInput Encode.Compile Encode.CodeSem.
Import ListNotations.
Local Open Scope nat_scope.
Local Open Scope list_scope.

(** * The factor table *)
Section DerivedInput.
Variable p : program.

(** the level names of a simple factor ([None]: not a simple factor) *)
Definition simple_names (d : nat) : option (list name) :=
  match fm p d with
  | Ok dd => match pf_kind dd with FSimple ls => Some (map fst ls) | _ => None end
  | _ => None
  end.

(** harness/ir.py [_mk_predicate] (width 1) on the tuple [key] of names, and [ElseLevel.derive_level_from_levels] *)
Definition dl_accepts (levels : list pdlevel) (lev : pdlevel) (key : entry) : bool :=
  if dl_else lev
  then negb (existsb (fun o => negb (dl_else o) && memb entry_eqb key (dl_table o)) levels)
  else memb entry_eqb key (dl_table lev).

Definition key_of (dnames : list (list name)) (combo : list nat) : entry :=
  map (fun ni => [Some (nth (snd ni) (fst ni) EmptyString)]) (combine dnames combo).

(** [get_dependent_cross_product] of a WithinTrial level over simple factors, as level indices *)
Definition dep_product (dnames : list (list name)) : list (list nat) :=
  DocSem.product (map (fun ns => seq 0 (List.length ns)) dnames).

(** harness/flat.py [_table]: the accepted tuples in the order of the cross product *)
Definition derived_levels (dnames : list (list name)) (levels : list pdlevel) : list flevel :=
  map (fun lev =>
         {| lv_name := dl_name lev; lv_weight := dl_weight lev;
            lv_accepts := map (map (fun x => [Some x]))
                              (filter (fun combo => dl_accepts levels lev (key_of dnames combo)) (dep_product dnames)) |})
      levels.

Definition derived_factor (design : list nat) (fd : pfactor) : option ffactor :=
  match pf_kind fd with
  | FSimple _ => plain_factor fd
  | FDerived w levels =>
    match pw_type w with
    | WWithin =>
      if nonempty (pw_deps w) && existsb (fun l => negb (dl_else l)) levels then
        match all_opt (map (fpos design) (pw_deps w)), all_opt (map simple_names (pw_deps w)) with
        | Some pdeps, Some dnames =>
          Some {| ff_name := pf_name fd; ff_hidden := false;
                  ff_levels := derived_levels dnames levels;
                  ff_window := Some {| win_deps := pdeps; win_width := 1; win_stride := 1; win_start := 0;
                                       win_start_delta := 0%Z |};
                  ff_complex := false |}
        | _, _ => None
        end
      else None
    | _ => None
    end
  | FContinuous => None
  end.

End DerivedInput.

(** * On the factor descriptions: factors and levels are positions *)
Section OnDesign.
Variable fds : list ffactor.

Definition fwin (f : nat) : option fwindow :=
  match nth_error fds f with Some fd => ff_window fd | None => None end.
Definition fdeps_of (f : nat) : list nat :=
  match fwin f with Some w => win_deps w | None => [] end.
Definition is_der (f : nat) : bool := match fwin f with Some _ => true | None => false end.
Definition flevels (f : nat) : list flevel :=
  match nth_error fds f with Some fd => ff_levels fd | None => [] end.

(** [level.window.predicate] applied to the names] of level [l] of derived factor [f] on the levels [args] of its window factors *)
Definition accepts_idx (f l : nat) (args : list nat) : bool :=
  match nth_error fds f with Some fd => level_accepts fd l args | None => false end.

Definition level_list (f : nat) : list (nat * nat) := map (pair f) (seq 0 (nlevels_of fds f)).

(** [all_crossings = list of product of levels_lists], a combination as (factor, level) pairs *)
Definition all_crossings (cr : list nat) : list (list (nat * nat)) := DocSem.product (map level_list cr).

(** "Check for impossible combinations" *)
Definition impossible (cr : list nat) (c : list (nat * nat)) : bool :=
  existsb (fun fl : nat * nat =>
             is_der (fst fl) &&
             let argss := flat_map (fun af => if memf af cr
                                              then match lookup_level c af with Some x => [[x]] | None => [] end
                                              else [seq 0 (nlevels_of fds af)]) (fdeps_of (fst fl)) in
             negb (existsb (accepts_idx (fst fl) (snd fl)) (DocSem.product argss))) c.

(** [cx = {l.factor: l.name for l in c}]: the last pair of a factor wins *)
Definition cx_get (c : list (nat * nat)) (f : nat) : option nat := lookup_level (rev c) f.

(** [__excluded_derived(excluded_level, c)] for a level whose window factors are simple
    (a missing key is a KeyError in Python; it cannot happen when the window factors are simple factors
    of the design, which are all in act_design) *)
Definition excluded_derived_pred (f l : nat) (c : list (nat * nat)) : bool :=
  match all_opt (map (cx_get c) (fdeps_of f)) with
  | Some args => accepts_idx f l args
  | None => false
  end.

(** "Check for excluded combinations": does the Exclude of level [l] of factor [f] remove combination [c]? *)
Definition exclude_hits (act cr : list nat) (fl : nat * nat) (c : list (nat * nat)) : bool :=
  let f := fst fl in
  let l := snd fl in
  (memf f cr && existsb (fun q => (fst q =? f) && (snd q =? l)) c)
  || (is_der f && negb (memf f cr) &&
      forallb (fun d => excluded_derived_pred f l (c ++ d))
              (DocSem.product (map level_list (filter (fun g => negb (memf g cr)) act)))).

(** [excluded_crossings], each combination once, in the order of [all_crossings] *)
Definition excluded_crossings (act cr : list nat) (excl : list (nat * nat)) : list (list (nat * nat)) :=
  filter (fun c => impossible cr c || existsb (fun fl => exclude_hits act cr fl c) excl) (all_crossings cr).

Definition combo_weight_idx (c : list (nat * nat)) : nat :=
  fold_left (fun w fl => w * match nth_error (flevels (fst fl)) (snd fl) with Some lv => lv_weight lv | None => 1 end) c 1.

(** [__count_exclusions(crossing)] *)
Definition derived_exclusions (act cr : list nat) (excl : list (nat * nat)) : nat :=
  fold_left (fun acc c => acc + combo_weight_idx c) (excluded_crossings act cr excl) 0.

(** [Exclude.validate]: [extract_simplelevel] of an excluded WithinTrial level over simple factors -
    per accepted tuple the dict {window factor: level} *)
Definition cells_of (e : list (list (option nat))) : list nat :=
  flat_map (fun col => match col with [Some x] => [x] | _ => [] end) e.

Definition derived_excluded_derived (excl : list (nat * nat)) : list (list (nat * nat)) :=
  flat_map (fun fl : nat * nat =>
              if is_der (fst fl) then
                match nth_error (flevels (fst fl)) (snd fl) with
                | Some lv => map (fun e => dict_of Nat.eqb (combine (fdeps_of (fst fl)) (cells_of e))) (lv_accepts lv)
                | None => []
                end
              else []) excl.

(** [generate_derivations(block)]: the layout is read off the record [fb0] known so far (design, act_design) *)
Definition derived_derivations (fb0 : flat) : list fconstraint :=
  flat_map (fun f =>
              match nth_error fds f with
              | Some fd =>
                match ff_window fd with
                | Some w =>
                  if memf f (fl_act fb0) then
                    flat_map (fun llv : nat * flevel =>
                                match first_variable_for_level fb0 f (fst llv) with
                                | Some v => [FDerivation v (expected_deps fb0 w (snd llv)) f]
                                | None => []
                                end) (combine (seq 0 (List.length (ff_levels fd))) (ff_levels fd))
                  else []
                | None => []
                end
              | None => []
              end) (seq 0 (List.length fds)).

(** the messages without "WARNING" that [generate_derivations] adds to [block.errors]:
    a level of a crossed factor without any match under require_complete_crossing; a tuple no level matches *)
Definition dep_tuples (f : nat) : list (list nat) :=
  DocSem.product (map (fun d => seq 0 (nlevels_of fds d)) (fdeps_of f)).

Definition derivation_errors (cr : list nat) (rcc : bool) : bool :=
  existsb (fun f =>
             is_der f &&
             ((rcc && memf f cr && existsb (fun lv => match lv_accepts lv with [] => true | _ => false end) (flevels f))
              || existsb (fun args => negb (existsb (fun l => accepts_idx f l args) (seq 0 (nlevels_of fds f))))
                         (dep_tuples f)))
          (seq 0 (List.length fds)).

(** [generate_derivations] raises ValueError: a tuple matches two levels *)
Definition derivation_raises : bool :=
  existsb (fun f =>
             is_der f &&
             existsb (fun args => 1 <? List.length (filter (fun l => accepts_idx f l args) (seq 0 (nlevels_of fds f))))
                     (dep_tuples f))
          (seq 0 (List.length fds)).

End OnDesign.

Section DerivedInput2.
Variable p : program.

Definition mk_input (fds : list ffactor) (cr : list nat) (ics : list iconstraint) (rcc : bool)
           (ex : list nat) (ders : list fconstraint) (exd : list (list (nat * nat))) (ef : bool) : create_input :=
  {| ci_design := fds; ci_crossings := [cr]; ci_sustains := [1]; ci_weights := [1];
     ci_constraints := ics; ci_rcc := rcc; ci_mode := MWeight; ci_alignment := EqualPreamble;
     ci_exclusions := ex; ci_derivations := ders; ci_excluded_derived := exd; ci_errors_fail := ef |}.

Definition derived_factors (design : list nat) : option (list ffactor) :=
  all_opt (map (fun f => match fm p f with Ok fd => derived_factor p design fd | _ => None end) design).

Definition derived_input_of (design crossing : list nat) (cs : list pcons) (rcc : bool) : option create_input :=
  match derived_factors design,
        all_opt (map (fpos design) crossing),
        all_opt (map (plain_constraint p design) cs) with
  | Some fds, Some cr, Some ics =>
    let ci0 := mk_input fds cr ics rcc [] [] [] false in
    let fb0 := st_flat ci0 [] [] in
    let excl := excluded_levels ics in
    let exs := excluded_crossings fds (fl_act fb0) cr excl in
    let ex := match cr with [] => [] | _ => [derived_exclusions fds (fl_act fb0) cr excl] end in
    Some (mk_input fds cr ics rcc ex (derived_derivations fds fb0) (derived_excluded_derived fds excl)
                   ((rcc && match cr with [] => false | _ => nonempty exs end) || derivation_errors fds cr rcc))
  | _, _, _ => None
  end.

Definition derived_input : option create_input :=
  match p_main p with
  | PCross design crossing cs rcc => derived_input_of design crossing cs rcc
  | _ => None
  end.

(** the constructor raises ValueError (ambiguous derived level) *)
Definition derived_raises : bool :=
  match derived_input with
  | Some ci => derivation_raises (ci_design ci)
  | None => false
  end.

Definition t2d_flat : option fres := option_map create_flat derived_input.

Definition t2d_code_sem : option sem :=
  match t2d_flat with Some (FOk fb) => Some (code_sem fb) | _ => None end.

End DerivedInput2.
