(** T2(d), the part that is a theorem today: whenever the checker accepts, the code's reading of the
    flat record created from the program has exactly the valid sequences of the documented semantics.
    What remains for the unconditional statement under [t2d_guard] is listed in Properties/T2d.v. *)
From Coq Require Import ZArith List Bool Arith String.
From SP Require Import Design.Flat Design.Sem Design.SemEqv Design.SemEqvT Design.SemEqvTB Design.SemEqvTBProofs Design.DocSem
     Front.CreateFlat Front.PlainInput Front.DerivedInput Front.DerivedGuard Front.DerivedCheck Encode.CodeSem.
Import ListNotations.
Local Open Scope string_scope.

Theorem derived_checked_sem_eqv : forall p ci fb ds,
  derived_input p = Some ci -> create_flat ci = FOk fb -> doc_sem p = Ok ds -> t2d_check p = Some true ->
  sem_eqv_t (code_sem fb) (ds_sem ds).
Proof.
  intros p ci fb ds Hin Hfb Hds Hc. unfold t2d_check in Hc. rewrite Hin, Hds, Hfb in Hc.
  apply sem_eqv_tb_sound. congruence.
Qed.

Theorem derived_checked_valid : forall p ci fb ds,
  derived_input p = Some ci -> create_flat ci = FOk fb -> doc_sem p = Ok ds -> t2d_check p = Some true ->
  forall s, valid_b (code_sem fb) s = valid_b (ds_sem ds) s.
Proof. intros p ci fb ds H1 H2 H3 H4. apply sem_eqv_t_valid. eapply derived_checked_sem_eqv; eauto. Qed.

(** * The Stroop shapes are inside the guard and the checker accepts them *)
Definition stroop_factors : list pfactor :=
  [ {| pf_id := 0; pf_name := "color"; pf_kind := FSimple [("red", 1); ("blue", 1)] |};
    {| pf_id := 1; pf_name := "text"; pf_kind := FSimple [("red", 1); ("blue", 1)] |};
    {| pf_id := 2; pf_name := "congruent";
       pf_kind := FDerived {| pw_type := WWithin; pw_deps := [0; 1] |}
                    [ {| dl_name := "con"; dl_weight := 1; dl_else := false;
                         dl_table := [ [[Some "red"]; [Some "red"]]; [[Some "blue"]; [Some "blue"]] ] |};
                      {| dl_name := "inc"; dl_weight := 1; dl_else := true; dl_table := [] |} ] |} ].

(** crossing [color, text], the congruent trials excluded, at most 1 incongruent trial in a row *)
Definition stroop_uncrossed : program :=
  {| p_factors := stroop_factors;
     p_main := PCross [0; 1; 2] [0; 1] [PExclude 2 "con"; PKRow DocSem.RAtMost 1 (TLevel 2 "inc")] false |}.

(** crossing [color, congruent], complete crossing required *)
Definition stroop_crossed : program :=
  {| p_factors := stroop_factors;
     p_main := PCross [0; 1; 2] [0; 2] [PMinimumTrials 6] true |}.

Example stroop_uncrossed_ok : t2d_guard stroop_uncrossed = true /\ t2d_check stroop_uncrossed = Some true.
Proof. vm_compute. split; reflexivity. Qed.

Example stroop_crossed_ok : t2d_guard stroop_crossed = true /\ t2d_check stroop_crossed = Some true.
Proof. vm_compute. split; reflexivity. Qed.

(** the trial counts: 2 (four combinations, two excluded) and 6 (MinimumTrials 6 over a crossing of size 4: one full chunk and a partial one) *)
Example stroop_trials :
  option_map (fun r => match r with FOk fb => fl_trials fb | FErr _ => 0 end) (t2d_flat stroop_uncrossed) = Some 2 /\
  option_map (fun r => match r with FOk fb => fl_trials fb | FErr _ => 0 end) (t2d_flat stroop_crossed) = Some 6.
Proof. vm_compute. split; reflexivity. Qed.
