(** T2(d), obligation O5: the constraints of the program and of the created record agree for a design
    of simple and WITHIN-TRIAL derived factors (constraints may name levels of either kind), and
    the exclusion count of the crossing ([derived_exclusions], the model of [__count_exclusions]) is
    the weight of the level tuples that contain an excluded level when the crossing consists of simple
    factors and no Exclude names a derived level (part of O3, code side). *)
From Coq Require Import ZArith List Bool Arith Lia String Permutation.
From SP Require Import Design.Flat Design.Layout Design.Sem Design.SemEqv Design.DocSem Design.DocSemProofs Design.DocSemPlain
     Design.ListSums Front.Trials Front.TrialsProofs Front.CreateFlat Front.CreateFlatProofs Front.PlainInput
     Front.PlainT2 Front.PlainT2Flat Front.PlainT2Doc Front.PlainT2Keys Front.PlainT2Cons Front.PlainT2Sem Front.PlainT2Main
     Front.DerivedInput Encode.Compile Encode.CodeSem.
Import ListNotations.
Local Open Scope nat_scope.
Local Open Scope list_scope.

Lemma st_exclude_desugar_gen : forall fds l, st_exclude (flat_map (desugar_constraint fds) l) = excluded_levels l.
Proof.
  intros fds. induction l as [|ic l IH]; [reflexivity|]. unfold st_exclude, excluded_levels in *. cbn [flat_map]. rewrite flat_map_app, IH. f_equal.
  destruct ic as [c|kind k f wb]; cbn [desugar_constraint flat_map].
  - destruct c; reflexivity.
  - generalize (seq 0 (nlevels_of fds f)). intro ls. induction ls as [|x ls IHl]; [reflexivity|]. cbn [map flat_map]. rewrite IHl. destruct kind; reflexivity.
Qed.

Section Cons.
Variable p : program.
Variable design : list nat.
Variable fds : list ffactor.
Hypothesis HndD : NoDup design.
Hypothesis Hfm : forall f, In f design -> fm p f = Ok (fd_of p f).
Hypothesis Hstr : forall f, In f design -> strided (fd_of p f) = false.
Hypothesis Hln : forall f, In f design -> level_names (fd_of p f) = Ok (names_of p f).
Hypothesis HndN : forall f, In f design -> NoDup (names_of p f).
Hypothesis Hnl : forall f, In f design -> nlevels_of fds (pos design f) = List.length (names_of p f).

Lemma level_index_names : forall f l, In f design -> l < List.length (names_of p f) ->
  level_index p f (nth l (names_of p f) EmptyString) = Ok l.
Proof.
  intros f l Hf Hl. unfold level_index. rewrite (Hfm f Hf). cbn [bind]. rewrite (Hln f Hf). cbn [bind].
  rewrite (index_of_nth_nodup _ _ _ (HndN f Hf) Hl). reflexivity.
Qed.

Lemma lpos_index : forall f n l, lpos p f n = Some l -> level_index p f n = Ok l.
Proof. intros f n l H. unfold lpos, opt_of_res in H. destruct (level_index p f n); try discriminate. congruence. Qed.

Lemma level_index_inv : forall f n l, In f design -> level_index p f n = Ok l ->
  l < List.length (names_of p f) /\ nth l (names_of p f) EmptyString = n.
Proof.
  intros f n l Hf H. unfold level_index in H. rewrite (Hfm f Hf) in H. cbn [bind] in H. rewrite (Hln f Hf) in H. cbn [bind] in H.
  unfold of_option in H. destruct (index_of String.eqb n (names_of p f)) as [i|] eqn:Ei; [|discriminate]. inversion H; subst i.
  split; [eapply index_of_lt; exact Ei|]. clear -Ei. revert l Ei. induction (names_of p f) as [|x xs IH]; intros l Ei; cbn in Ei; [discriminate|].
  destruct (String.eqb_spec n x) as [->|Hne]; [inversion Ei; reflexivity|].
  destruct (index_of String.eqb n xs) as [j|]; [|discriminate]. inversion Ei; subst. cbn. apply IH. reflexivity.
Qed.

(** * the excluded levels *)
Lemma excluded_levels_gen : forall cs ics, Forall2 (fun c ic => plain_constraint p design c = Some ic) cs ics ->
  excluded_levels ics = map (fun fn => (pos design (fst fn), lidx p (fst fn) (snd fn))) (excludes_of cs) /\
  forall f n, In (f, n) (excludes_of cs) -> In f design /\ lidx p f n < List.length (names_of p f) /\ nth (lidx p f n) (names_of p f) EmptyString = n.
Proof.
  intros cs ics Hics. induction Hics as [|c ic cs' ics' Hc _ IH]; [split; [reflexivity|intros f n []]|].
  destruct IH as [IH1 IH2]. unfold excluded_levels, excludes_of in *. cbn [flat_map]. rewrite IH1.
  unfold plain_constraint in Hc. destruct c as [kd k [f n|f]|f n|ix f n|f|fs|t| |kind]; try discriminate.
  - destruct (fpos design f); [|discriminate]. destruct (lpos p f n); [|discriminate]. inversion Hc; subst.
    destruct kd; cbn; split; auto.
  - destruct (fpos design f); [|discriminate]. inversion Hc; subst. cbn. split; auto.
  - destruct (fpos design f) as [pf|] eqn:Ef; [|discriminate]. destruct (lpos p f n) as [l|] eqn:El; [|discriminate]. inversion Hc; subst.
    destruct (fpos_pos _ _ _ Ef) as [-> [_ Hfd]]. pose proof (lpos_index _ _ _ El) as Eli.
    destruct (level_index_inv f n l Hfd Eli) as [Hl Hn]. assert (Hli : lidx p f n = l) by (unfold lidx; rewrite Eli; reflexivity).
    cbn [app map fst snd]. rewrite Hli. split; [reflexivity|]. intros g m [E|Hin]; [|apply IH2; exact Hin].
    inversion E; subst. rewrite Hli. auto.
  - destruct (fpos design f); [|discriminate]. destruct (lpos p f n); [|discriminate]. inversion Hc; subst. cbn. split; auto.
  - inversion Hc; subst. cbn. split; auto.
Qed.

(** * the constraints *)
Section Constraints.
Variables (cs : list pcons) (rcc : bool).
Variable T : nat.
Hypothesis HT : 0 < T.
Variable fb : flat.
Hypothesis Htr : fl_trials fb = T.
Hypothesis Hal : fl_alignment fb = EqualPreamble.
Variable g : geometry.
Hypothesis Hgt : g_trials g = T.
Hypothesis Hgp : g_preamble g = 0.
Hypothesis Hgs : forall kv, In kv (g_sustain g) -> snd kv = 1.
Variable x : dcross.

Lemma dwindows_g : windows_of fb (Some g) = [(0, T)].
Proof.
  unfold windows_of, map_block_trial_ranges. rewrite Hgt, Hgp, Hal.
  replace (T <=? 0) with false by (symmetry; apply Nat.leb_gt; exact HT). cbn [andb].
  unfold trials. rewrite Htr, Nat.sub_0_r. destruct T as [|T']; [lia|]. cbn [ranges_loop].
  replace (0 <? Datatypes.S T') with true by (symmetry; apply Nat.ltb_lt; lia). unfold trials. rewrite Htr, Nat.min_id.
  rewrite Nat.add_0_l, Nat.ltb_irrefl. destruct T'; reflexivity.
Qed.

Definition dcode_of (ic : iconstraint) : list dconstraint :=
  flat_map (code_constraint fb) (map (init_wb g) (desugar_constraint fds ic)).

Definition ddoc_of (c : pcons) : res (list dconstraint) :=
  cs0 <- expand_constraint p c ;;
  ks <- mapM (fun c0 => sem_constraint p (the_bd design cs rcc x T) design 0 T c0 ScNone) cs0 ;; Ok (List.concat ks).

Lemma ddoc_level : forall kd k f n pf l, fpos design f = Some pf -> level_index p f n = Ok l ->
  sem_constraint p (the_bd design cs rcc x T) design 0 T (PKRow kd k (TLevel f n)) ScNone
  = Ok [{| k_kind := krow_kind kd k 1; k_factor := pf; k_level := l; k_windows := [(0, T)] |}].
Proof.
  intros kd k f n pf l Hf Eli. destruct (fpos_pos design f pf Hf) as [-> [_ Hfd]].
  unfold sem_constraint. cbn [scope_windows bind]. rewrite (pos_of_design design f HndD Hfd). cbn [bind]. rewrite Eli. reflexivity.
Qed.

Lemma run_check : forall kd f, In f design ->
  (if is_run_kind kd then fd <- fm p f ;; (if strided fd then Unsup UStrided else Ok tt) else Ok tt) = Ok tt.
Proof. intros kd f Hf. destruct (is_run_kind kd); [|reflexivity]. rewrite (Hfm f Hf). cbn [bind]. rewrite (Hstr f Hf). reflexivity. Qed.

Lemma dcons_agree_one : forall c ic, plain_constraint p design c = Some ic ->
  (is_min_trials c = true -> dcode_of ic = []) /\
  (is_min_trials c = false -> ddoc_of c = Ok (dcode_of ic)).
Proof.
  intros c ic H. unfold plain_constraint in H.
  destruct c as [kd k [f n|f]|f n|ix f n|f|fs|t| |kind]; try discriminate.
  - destruct (fpos design f) as [pf|] eqn:Ef; [|discriminate]. destruct (lpos p f n) as [l|] eqn:El; [|discriminate]. inversion H; subst ic.
    split; [discriminate|]. intros _. unfold ddoc_of, expand_constraint.
    destruct (fpos_pos design f pf Ef) as [_ [_ Hfd]]. cbn [target_factor]. rewrite (run_check kd f Hfd). cbn [bind mapM].
    rewrite (ddoc_level kd k f n pf l Ef (lpos_index _ _ _ El)). cbn [bind List.concat app].
    unfold dcode_of. cbn [desugar_constraint map flat_map app].
    destruct kd; cbn [krow_of mk_krow init_wb code_constraint krow_kind app]; unfold mk_c; rewrite dwindows_g, ?Nat.mul_1_r; reflexivity.
  - destruct (fpos design f) as [pf|] eqn:Ef; [|discriminate]. inversion H; subst ic.
    split; [discriminate|]. intros _. unfold ddoc_of, expand_constraint.
    destruct (fpos_pos design f pf Ef) as [Epf [Hnth Hfd]]. cbn [target_factor]. rewrite (run_check kd f Hfd). cbn [bind].
    rewrite (Hfm f Hfd). cbn [bind]. rewrite (Hln f Hfd). cbn [bind].
    rewrite (map_nth_seq (names_of p f) EmptyString). rewrite map_map.
    assert (Enl : nlevels_of fds pf = List.length (names_of p f)) by (rewrite Epf; apply Hnl; exact Hfd).
    unfold dcode_of. cbn [desugar_constraint option_map]. rewrite Enl. rewrite !map_map. rewrite mapM_map.
    rewrite (mapM_all_ok _ (fun l => [{| k_kind := krow_kind kd k 1; k_factor := pf; k_level := l; k_windows := [(0, T)] |}])).
    2:{ intros l Hl. apply in_seq in Hl. apply ddoc_level; [exact Ef|]. apply level_index_names; [exact Hfd|lia]. }
    cbn [bind]. f_equal. generalize (seq 0 (List.length (names_of p f))). intro ls. induction ls as [|l ls IH]; [reflexivity|].
    cbn [map List.concat flat_map app]. rewrite IH.
    destruct kd; cbn [krow_of mk_krow init_wb code_constraint krow_kind app]; unfold mk_c; rewrite dwindows_g, ?Nat.mul_1_r; reflexivity.
  - destruct (fpos design f) as [pf|] eqn:Ef; [|discriminate]. destruct (lpos p f n) as [l|] eqn:El; [|discriminate]. inversion H; subst ic.
    split; [discriminate|]. intros _. unfold ddoc_of. cbn [expand_constraint bind mapM].
    destruct (fpos_pos design f pf Ef) as [Epf [_ Hfd]].
    unfold sem_constraint. cbn [scope_windows bind]. rewrite (pos_of_design design f HndD Hfd). cbn [bind]. rewrite (lpos_index _ _ _ El). cbn [bind List.concat app].
    rewrite <- Epf. reflexivity.
  - destruct (fpos design f) as [pf|] eqn:Ef; [|discriminate]. destruct (lpos p f n) as [l|] eqn:El; [|discriminate]. inversion H; subst ic.
    split; [discriminate|]. intros _. unfold ddoc_of. cbn [expand_constraint bind mapM].
    destruct (fpos_pos design f pf Ef) as [Epf [_ Hfd]].
    unfold sem_constraint. cbn [scope_windows bind]. rewrite (pos_of_design design f HndD Hfd). cbn [bind]. rewrite (lpos_index _ _ _ El). cbn [bind List.concat app].
    unfold dcode_of. cbn [desugar_constraint map flat_map init_wb code_constraint app]. unfold mk_c. rewrite dwindows_g, (geometry_sustain_g fb g Hgs), <- Epf.
    reflexivity.
  - inversion H; subst ic. split; [reflexivity|discriminate].
Qed.

Lemma dcons_agree : forall cs' ics' ks,
  Forall2 (fun c ic => plain_constraint p design c = Some ic) cs' ics' ->
  mapM (fun csc : pcons * scope =>
          cs0 <- expand_constraint p (fst csc) ;;
          ks <- mapM (fun c => sem_constraint p (the_bd design cs rcc x T) design 0 T c (snd csc)) cs0 ;; Ok (List.concat ks))
       (own_constraints cs') = Ok ks ->
  List.concat ks = flat_map dcode_of ics'.
Proof.
  intros cs' ics' ks H. revert ks. induction H as [|c ic cs' ics' Hcic _ IH]; intros ks Hm.
  - cbn in Hm. inversion Hm. reflexivity.
  - destruct (dcons_agree_one c ic Hcic) as [H1 H2]. unfold own_constraints in *. cbn [filter] in Hm.
    destruct (is_min_trials c) eqn:Em; cbn [negb map] in Hm.
    + cbn [flat_map]. rewrite (H1 eq_refl). cbn [app]. apply IH. exact Hm.
    + cbn [mapM fst snd] in Hm. fold (ddoc_of c) in Hm. rewrite (H2 eq_refl) in Hm. cbn [bind] in Hm.
      inv_bind Hm as ks' Hks Hm. inversion Hm; subst ks. cbn [List.concat flat_map]. f_equal. apply IH. exact Hks.
Qed.

End Constraints.
End Cons.
