(** T2(d), obligation O2 (first half): the documented normal form of a WITHIN-TRIAL derived factor
    over simple factors: [window_params] = (deps, 1, 1, 0), [is_complex] = false, the closed form of
    [accepted_tables], [collect] adds no basic factor, [depth] = 1; and the depth sort of a design that
    lists its simple factors first is the identity. *)
From Coq Require Import ZArith List Bool Arith Lia String Permutation Sorted.
From SP Require Import Design.Flat Design.Sem Design.DocSem Design.DocSemProofs Design.DocSemPlain
     Design.ListSums Front.PlainInput Front.PlainT2 Front.PlainT2Doc Front.PlainT2Keys Front.PlainT2Sem.
Import ListNotations.
Local Open Scope nat_scope.
Local Open Scope list_scope.

Section DocDerived.
Variable p : program.

Lemma wp_fold_simple : forall (wp' : pfactor -> res wparams) (cx' : pfactor -> res bool) width deps a,
  (forall d, In d deps -> simple_id p d) ->
  fold_left (fun acc d =>
               default <- acc ;; dd <- fm p d ;;
               if is_derived dd then q <- wp' dd ;; c <- cx' dd ;; Ok (if c : bool then Nat.max default (wp_start q + width - 1) else default)
               else Ok default) deps (Ok a) = Ok a.
Proof.
  intros wp' cx' width deps a. revert a. induction deps as [|d deps IH]; intros a H; [reflexivity|]. cbn [fold_left bind].
  destruct (simple_fm p d (H d (or_introl eq_refl))) as [-> Hs]. cbn [bind]. rewrite (simple_not_derived _ Hs).
  apply IH. intros x Hx. apply H. right. exact Hx.
Qed.

Variable fd : pfactor.
Variable w : pwindow.
Variable levels : list pdlevel.
Hypothesis Hkind : pf_kind fd = FDerived w levels.
Hypothesis Hty : pw_type w = WWithin.
Hypothesis Hdeps : forall d, In d (pw_deps w) -> simple_id p d.
Hypothesis Hdne : pw_deps w <> [].

Lemma window_params_within : window_params p fd = Ok (pw_deps w, 1, 1, 0).
Proof.
  unfold window_params, fuel0. cbn [wp_cx fst]. rewrite Hkind, Hty.
  rewrite (wp_fold_simple _ _ 1 (pw_deps w) (1 - 1) Hdeps). reflexivity.
Qed.

Lemma is_derived_fd : is_derived fd = true.
Proof. unfold is_derived. rewrite Hkind. reflexivity. Qed.

Lemma is_complex_within : is_complex p fd = Ok false.
Proof.
  unfold is_complex, fuel0. cbn [wp_cx snd]. rewrite is_derived_fd. cbn [negb]. rewrite Hkind, Hty.
  rewrite (wp_fold_simple _ _ 1 (pw_deps w) (1 - 1) Hdeps). cbn [bind Nat.ltb Nat.leb orb Nat.sub].
  destruct (pw_deps w) as [|d0 ds] eqn:E; [congruence|].
  destruct (simple_fm p d0 (Hdeps d0 (or_introl eq_refl))) as [-> Hs]. cbn [bind]. rewrite (simple_not_derived _ Hs). reflexivity.
Qed.

Definition dom_of (d : nat) : list (option name) := map Some (names_of p d) ++ [None].

Lemma concat_map_single : forall {A B} (g : A -> B) l, List.concat (map (fun x => [g x]) l) = map g l.
Proof. intros. induction l as [|x l IH]; [reflexivity|]. cbn. rewrite IH. reflexivity. Qed.

Definition explicit_of (lev : pdlevel) : option (list entry) :=
  if dl_else lev then None else Some (dedupe entry_eqb (dl_table lev)).
Definition union_of : list entry := flat_map (fun e => match e with Some s => s | None => [] end) (map explicit_of levels).
Definition others_of : list entry :=
  filter (fun cols => negb (memb entry_eqb cols union_of))
         (map (regroup 1 (List.length (pw_deps w))) (DocSem.product (map dom_of (pw_deps w)))).
Definition tab_of (lev : pdlevel) : list entry :=
  match explicit_of lev with None => others_of | Some s => sort_entries s end.

Lemma accepted_tables_within : accepted_tables p fd = Ok (map tab_of levels).
Proof.
  unfold accepted_tables. rewrite window_params_within. cbn [bind].
  rewrite (mapM_all_ok _ (fun d => [dom_of d])).
  2:{ intros d Hd. destruct (simple_fm p d (Hdeps d Hd)) as [-> _]. cbn [bind]. rewrite (simple_names p d (Hdeps d Hd)). reflexivity. }
  cbn [bind]. rewrite Hkind. rewrite concat_map_single. rewrite map_map. reflexivity.
Qed.


(** [collect] and [depth] with any positive fuel *)
Lemma collect_simple_any : forall n basics f e, simple_id p f -> In f basics -> collect p (S n) basics f e = Ok e.
Proof.
  intros n basics f e Hf Hin. cbn [collect]. destruct (simple_fm p f Hf) as [E Hs]. rewrite E. cbn [bind].
  unfold is_simple in Hs. destruct (pf_kind (fd_of p f)); try discriminate.
  assert (M : DocSem.mem f basics = true).
  { unfold DocSem.mem. apply existsb_exists. exists f. split; [exact Hin|apply Nat.eqb_refl]. }
  rewrite M. reflexivity.
Qed.

Lemma collect_fold_simple : forall n basics l e, (forall d, In d l -> simple_id p d /\ In d basics) ->
  fold_left (fun acc d => e <- acc ;; collect p (S n) basics d e) l (Ok e) = Ok e.
Proof.
  intros n basics l e H. induction l as [|d l IH]; [reflexivity|]. cbn [fold_left bind].
  rewrite collect_simple_any by (apply H; left; reflexivity). apply IH. intros x Hx. apply H. right. exact Hx.
Qed.

Lemma depth_simple_any : forall n f, simple_id p f -> depth p (S n) f = Ok 0.
Proof.
  intros n f H. cbn [depth]. destruct (simple_fm p f H) as [-> Hs]. cbn [bind].
  unfold is_simple in Hs. destruct (pf_kind (fd_of p f)); try discriminate. reflexivity.
Qed.

Lemma list_max_zeros : forall {A} (l : list A), list_max (map (fun _ => 0) l) = 0.
Proof. intros A l. induction l as [|x l IH]; [reflexivity|]. cbn. exact IH. Qed.

Lemma factors_nonempty : forall f fd0, fm p f = Ok fd0 -> exists n, List.length (p_factors p) = S n.
Proof.
  intros f fd0 H. unfold fm in H. destruct (p_factors p) as [|x l]; [discriminate|]. exists (List.length l). reflexivity.
Qed.

Hypothesis Hfm : exists f, fm p f = Ok fd.

Lemma collect_within : forall basics f e, fm p f = Ok fd -> (forall d, In d (pw_deps w) -> In d basics) ->
  collect p (fuel0 p) basics f e = Ok e.
Proof.
  intros basics f e Hf Hb. unfold fuel0. destruct (factors_nonempty f fd Hf) as [n ->]. cbn [collect]. rewrite Hf. cbn [bind].
  rewrite Hkind. apply collect_fold_simple. intros d Hd. split; [apply Hdeps; exact Hd|apply Hb; exact Hd].
Qed.

Lemma depth_within : forall f, fm p f = Ok fd -> depth p (fuel0 p) f = Ok 1.
Proof.
  intros f Hf. unfold fuel0. destruct (factors_nonempty f fd Hf) as [n ->]. cbn [depth]. rewrite Hf. cbn [bind]. rewrite Hkind.
  rewrite (mapM_all_ok _ (fun _ => 0)) by (intros d Hd; apply depth_simple_any; apply Hdeps; exact Hd).
  cbn [bind]. rewrite list_max_zeros. destruct (pw_deps w); [congruence|reflexivity].
Qed.

End DocDerived.

(** * a sorted list is a fixed point of the stable insertion sort *)
Lemma SS_before : forall {A} (R : A -> A -> Prop) acc x l, StronglySorted R (acc ++ x :: l) -> forall y, In y acc -> R y x.
Proof.
  intros A R acc x l. induction acc as [|a acc IH]; intros H y Hy; [contradiction|]. cbn in H. inversion H as [|a' l' Hs Hall]; subst.
  destruct Hy as [->|Hy]; [|apply IH; assumption]. rewrite Forall_forall in Hall. apply Hall. apply in_or_app. right. left. reflexivity.
Qed.

Lemma sort_by_sorted : forall {A} (leb : A -> A -> bool) l, StronglySorted (fun a b => leb a b = true) l -> sort_by leb l = l.
Proof.
  intros A leb l H. unfold sort_by.
  assert (G : forall l' acc, StronglySorted (fun a b => leb a b = true) (acc ++ l') ->
                             fold_left (fun acc x => insert_by leb x acc) l' acc = acc ++ l').
  { induction l' as [|x l' IH]; intros acc Hl; cbn [fold_left]; [rewrite app_nil_r; reflexivity|].
    rewrite insert_by_last by (intros y Hy; exact (SS_before _ acc x l' Hl y Hy)).
    rewrite IH; [rewrite <- app_assoc; reflexivity|]. rewrite <- app_assoc. exact Hl. }
  apply (G l []). exact H.
Qed.

Lemma SS_all : forall {A} (R : A -> A -> Prop) l, (forall a b, In a l -> In b l -> R a b) -> StronglySorted R l.
Proof.
  intros A R l H. induction l as [|x l IH]; constructor.
  - apply IH. intros a b Ha Hb. apply H; right; assumption.
  - apply Forall_forall. intros b Hb. apply H; [left; reflexivity|right; exact Hb].
Qed.

Lemma SS_app : forall {A} (R : A -> A -> Prop) l1 l2, StronglySorted R l1 -> StronglySorted R l2 ->
  (forall a b, In a l1 -> In b l2 -> R a b) -> StronglySorted R (l1 ++ l2).
Proof.
  intros A R l1 l2 H1 H2 H. induction H1 as [|x l1 Hs IH Hall]; [exact H2|]. cbn. constructor.
  - apply IH. intros a b Ha Hb. apply H; [right; exact Ha|exact Hb].
  - apply Forall_app. split; [exact Hall|]. apply Forall_forall. intros b Hb. apply H; [left; reflexivity|exact Hb].
Qed.
