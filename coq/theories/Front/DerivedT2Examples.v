(** T2(d): the uncrossed-congruency Stroop program is inside the narrower guard [t2d_guard2]; and the
    wider guard [t2d_guard] alone does not imply the tie: a table tuple with one column too many never
    matches the predicate of harness/ir.py, but [doc_sem]'s table encoding ([enc_table], zip with the
    window factors) truncates it to a tuple that the documented level then accepts. *)
From Coq Require Import ZArith List Bool Arith String.
From SP Require Import Design.Flat Design.Sem Design.SemEqv Design.SemEqvT Design.DocSem Front.CreateFlat Front.PlainInput
     Front.DerivedInput Front.DerivedGuard Front.DerivedGuard2 Front.DerivedCheck Front.DerivedT2 Encode.CodeSem.
Import ListNotations.
Local Open Scope string_scope.

(** crossing [color, text]; congruent = WithinTrial(color, text) outside the crossing; the red colour
    excluded, at most 1 incongruent trial in a row, at least 5 trials *)
Definition stroop_uncrossed2 : program :=
  {| p_factors := stroop_factors;
     p_main := PCross [0; 1; 2] [0; 1] [PExclude 0 "red"; PKRow DocSem.RAtMost 1 (TLevel 2 "inc"); PMinimumTrials 5] false |}.

Example stroop_uncrossed2_ok : t2d_guard2 stroop_uncrossed2 = true /\ t2d_check stroop_uncrossed2 = Some true.
Proof. vm_compute. split; reflexivity. Qed.

(** the Exclude of a derived level, and a crossed derived factor, are outside the narrower guard *)
Example stroop_outside_guard2 : t2d_guard2 stroop_uncrossed = false /\ t2d_guard2 stroop_crossed = false.
Proof. vm_compute. split; reflexivity. Qed.

(** a tuple with three columns in the table of a level over two window factors *)
Definition malformed_factors : list pfactor :=
  [ {| pf_id := 0; pf_name := "color"; pf_kind := FSimple [("red", 1); ("blue", 1)] |};
    {| pf_id := 1; pf_name := "text"; pf_kind := FSimple [("red", 1); ("blue", 1)] |};
    {| pf_id := 2; pf_name := "congruent";
       pf_kind := FDerived {| pw_type := WWithin; pw_deps := [0; 1] |}
                    [ {| dl_name := "con"; dl_weight := 1; dl_else := false;
                         dl_table := [ [[Some "red"]; [Some "red"]]; [[Some "blue"]; [Some "blue"]];
                                       [[Some "red"]; [Some "blue"]; [Some "red"]] ] |};
                      {| dl_name := "inc"; dl_weight := 1; dl_else := true; dl_table := [] |} ] |} ].

Definition malformed : program :=
  {| p_factors := malformed_factors; p_main := PCross [0; 1; 2] [0; 1] [] false |}.

Theorem guard_alone_refuted : exists p ci fb ds,
  derived_input p = Some ci /\ t2d_guard p = true /\ create_flat ci = FOk fb /\ doc_sem p = Ok ds /\
  ~ sem_eqv_t (code_sem fb) (ds_sem ds).
Proof.
  exists malformed. eexists. eexists. eexists.
  split; [vm_compute; reflexivity|]. split; [vm_compute; reflexivity|]. split; [vm_compute; reflexivity|]. split; [vm_compute; reflexivity|].
  intros [_ [HF _]]. vm_compute in HF.
  inversion HF as [|a1 b1 l1 m1 _ HF1]; subst. inversion HF1 as [|a2 b2 l2 m2 _ HF2]; subst. inversion HF2 as [|a3 b3 l3 m3 H3 _]; subst.
  destruct H3 as [_ [_ [H3|[[_ [_ [_ [_ H3]]]] _]]]].
  - discriminate H3.
  - specialize (H3 0 [[Some 0]; [Some 1]]). 
    assert (Hs : all_some_args [[Some 0]; [Some 1]]) by (repeat constructor; discriminate).
    specialize (H3 Hs). vm_compute in H3. discriminate H3.
Qed.
