(** T2(d), the statement on programs (unconditional under the boolean guard [t2d_guard2],
    Front/DerivedGuard2.v):
    [derived_input p = Some ci -> t2d_guard2 p = true -> create_flat ci = FOk fb -> doc_sem p = Ok ds ->
     sem_eqv_t (code_sem fb) (ds_sem ds)], hence equal [valid_b]. *)
From Coq Require Import ZArith List Bool Arith Lia String Sorted.
From SP Require Import Design.Flat Design.Sem Design.SemEqv Design.SemEqvT Design.SemEqvTB Design.SemEqvTBProofs Design.DocSem
     Design.DocSemProofs Design.DocSemPlain Design.ListSums
     Front.Trials Front.CreateFlat Front.PlainInput Front.PlainT2 Front.PlainT2Keys Front.DerivedInput Front.DerivedGuard Front.DerivedGuard2
     Front.DerivedT2Flat Front.DerivedT2Doc Front.DerivedT2Tables Front.DerivedT2Keys Front.DerivedT2Main Encode.Compile Encode.CodeSem.
Import ListNotations.
Local Open Scope nat_scope.
Local Open Scope list_scope.

Lemma nodup_nat_b'_sound : forall l, nodup_nat_b' l = true -> NoDup l.
Proof.
  induction l as [|x l IH]; intro H; [constructor|]. cbn in H. apply andb_true_iff in H. destruct H as [H1 H2].
  constructor; [|apply IH; exact H2]. intro Hin. apply negb_true_iff in H1. unfold DocSem.mem in H1.
  assert (existsb (Nat.eqb x) l = true) by (apply existsb_exists; exists x; split; [exact Hin|apply Nat.eqb_refl]). congruence.
Qed.

Lemma nodup_names_b'_sound : forall l, nodup_names_b' l = true -> NoDup l.
Proof.
  induction l as [|x l IH]; intro H; [constructor|]. cbn in H. apply andb_true_iff in H. destruct H as [H1 H2].
  constructor; [|apply IH; exact H2]. intro Hin. apply negb_true_iff in H1.
  assert (existsb (String.eqb x) l = true) by (apply existsb_exists; exists x; split; [exact Hin|apply String.eqb_refl]). congruence.
Qed.

Lemma is_simple_id_b : forall p f, is_simple_id p f = simple_b p f.
Proof.
  intros p f. unfold is_simple_id, kind_of, simple_b, fd_of, is_simple. destruct (fm p f) as [fd| |]; [|reflexivity|reflexivity].
  destruct (pf_kind fd); reflexivity.
Qed.

Lemma is_simple_id_prop : forall p f, is_simple_id p f = true -> simple_id p f.
Proof.
  intros p f H. unfold is_simple_id, kind_of in H. destruct (fm p f) as [fd| |] eqn:E; try discriminate.
  exists fd. split; [exact E|]. unfold is_simple. destruct (pf_kind fd); try discriminate. reflexivity.
Qed.

Lemma simple_first_sorted : forall p design, simple_first p design = true ->
  StronglySorted (fun a b : nat * nat => (snd a <=? snd b) = true) (map (fun f => (f, if simple_b p f then 0 else 1)) design).
Proof.
  intros p design. induction design as [|f r IH]; intro H; [constructor|]. cbn [simple_first] in H. apply andb_true_iff in H. destruct H as [H1 H2].
  cbn [map]. constructor; [apply IH; exact H2|]. apply Forall_forall. intros b Hb. apply in_map_iff in Hb. destruct Hb as [g [<- Hg]]. cbn [snd].
  apply orb_true_iff in H1. destruct H1 as [H1|H1].
  - rewrite <- is_simple_id_b, H1. reflexivity.
  - rewrite forallb_forall in H1. specialize (H1 g Hg). apply negb_true_iff in H1. rewrite <- (is_simple_id_b p g), H1.
    destruct (simple_b p f); reflexivity.
Qed.

Lemma derivations_shape : forall fds fb0 c, In c (derived_derivations fds fb0) -> exists v dd f, c = FDerivation v dd f.
Proof.
  intros fds fb0 c H. unfold derived_derivations in H. apply in_flat_map in H. destruct H as [f [_ H]].
  destruct (nth_error fds f) as [fd|]; [|contradiction]. destruct (ff_window fd) as [w|]; [|contradiction].
  destruct (memf f (fl_act fb0)); [|contradiction]. apply in_flat_map in H. destruct H as [llv [_ H]].
  destruct (Layout.first_variable_for_level fb0 f (fst llv)) as [v|]; [|contradiction]. destruct H as [<-|[]]. eauto.
Qed.

Lemma forallb_Forall : forall {A} (P : A -> bool) (Q : A -> Prop) l, (forall x, P x = true -> Q x) -> forallb P l = true -> Forall Q l.
Proof. intros A P Q l H Hb. apply Forall_forall. intros x Hx. apply H. rewrite forallb_forall in Hb. apply Hb. exact Hx. Qed.

Theorem derived_t2 : forall p ci fb ds,
  derived_input p = Some ci -> t2d_guard2 p = true -> create_flat ci = FOk fb -> doc_sem p = Ok ds ->
  sem_eqv_t (code_sem fb) (ds_sem ds).
Proof.
  intros p ci fb ds Hin Hg2 Hfb Hds. unfold t2d_guard2 in Hg2. apply andb_true_iff in Hg2. destruct Hg2 as [Hg Hg2].
  unfold t2d_guard in Hg. rewrite Hin in Hg. unfold derived_input in Hin.
  destruct (p_main p) as [design crossing cs rcc| | | |] eqn:Hmain; try discriminate.
  rewrite !andb_true_iff in Hg. destruct Hg as [[[[[[G1 G2] G3] G4] G5] _] [[G7 G8] _]].
  rewrite !andb_true_iff in Hg2. destruct Hg2 as [[X1 X2] X3].
  unfold derived_input_of in Hin.
  destruct (derived_factors p design) as [fds|] eqn:Hfds; [|discriminate].
  destruct (all_opt (map (fpos design) crossing)) as [cr|] eqn:Hcr; [|discriminate].
  destruct (all_opt (map (plain_constraint p design) cs)) as [ics|] eqn:Hics; [|discriminate].
  unfold derived_factors in Hfds. apply all_opt_some in Hfds. apply all_opt_some in Hics.
  destruct (plain_cr design crossing cr Hcr) as [-> Hpos].
  assert (HndD : NoDup design) by (apply nodup_nat_b'_sound; exact G1).
  assert (HndC : NoDup crossing) by (apply nodup_nat_b'_sound; exact G2).
  assert (Hne : crossing <> []) by (destruct crossing; [discriminate|discriminate]).
  rewrite forallb_forall in G5, X1, X3.
  (* the kinds of the design factors *)
  assert (Hfdsf : forall f, In f design -> exists fd ff, fm p f = Ok fd /\ derived_factor p design fd = Some ff).
  { intros f Hf. destruct (Forall2_nth_error_l _ _ _ _ _ Hfds (pos_nth_error design f Hf)) as [ff [_ H]].
    destruct (fm p f) as [fd| |]; try discriminate. exists fd, ff. split; [reflexivity|exact H]. }
  assert (Hsimple_names : forall d, In d design -> simple_id p d -> NoDup (names_of p d) /\ 0 < List.length (names_of p d)).
  { intros d Hd Hs. pose proof (G5 d Hd) as Hfg. unfold factor_guard, kind_of in Hfg. destruct (simple_fm p d Hs) as [E Hsi]. rewrite E in Hfg.
    unfold names_of. unfold is_simple in Hsi. destruct (pf_kind (fd_of p d)) as [ls| |]; try discriminate.
    apply andb_true_iff in Hfg. destruct Hfg as [H1 H2]. split; [apply nodup_names_b'_sound; exact H2|]. rewrite map_length. destruct ls; [discriminate|cbn; lia]. }
  assert (Hkinds : forall f, In f design -> simple_id p f \/ within_ok p design f).
  { intros f Hf. destruct (Hfdsf f Hf) as [fd [ff [Hfm Hdf]]]. pose proof (G5 f Hf) as Hfg. pose proof (X3 f Hf) as Hwf.
    unfold factor_guard, kind_of in Hfg. unfold wf_derived, kind_of in Hwf. rewrite Hfm in Hfg, Hwf.
    unfold derived_factor in Hdf. destruct (pf_kind fd) as [ls|w levels|] eqn:Hk; [| |discriminate].
    - left. exists fd. split; [exact Hfm|]. unfold is_simple. rewrite Hk. reflexivity.
    - right. destruct (pw_type w) eqn:Hty; try discriminate.
      destruct (nonempty (pw_deps w) && existsb (fun l => negb (dl_else l)) levels) eqn:Hne'; [|discriminate].
      apply andb_true_iff in Hne'. destruct Hne' as [Hne' _].
      destruct (all_opt (map (fpos design) (pw_deps w))) as [pdeps|] eqn:Ep; [|discriminate].
      destruct (all_opt (map (DerivedInput.simple_names p) (pw_deps w))) as [dnames|] eqn:En; [|discriminate].
      destruct (plain_cr design (pw_deps w) pdeps Ep) as [_ Hdpos].
      rewrite !andb_true_iff in Hfg. destruct Hfg as [[F1 F2] F3].
      assert (Hdsimple : forall d, In d (pw_deps w) -> simple_id p d).
      { intros d Hd. pose proof (all_opt_some _ _ _ En) as F. destruct (Forall2_nth_error_l _ _ _ _ _ F (pos_nth_error _ d Hd)) as [y [_ Hy]].
        unfold DerivedInput.simple_names in Hy. destruct (fm p d) as [dd| |] eqn:Ed; try discriminate. exists dd. split; [exact Ed|].
        unfold is_simple. destruct (pf_kind dd); try discriminate. reflexivity. }
      assert (Ednames : dnames = map (names_of p) (pw_deps w)).
      { apply all_opt_some in En. apply Forall2_map_eq. clear -En Hdsimple. induction En as [|d y l ys Hy _ IH]; constructor.
        - pose proof (Hdsimple d (or_introl eq_refl)) as Hs. unfold DerivedInput.simple_names in Hy. destruct (simple_fm p d Hs) as [E _]. rewrite E in Hy.
          unfold names_of. rewrite (simple_plevels p d Hs) in Hy |- *. congruence.
        - apply IH. intros x Hx. apply Hdsimple. right. exact Hx. }
      subst dnames. apply andb_true_iff in Hwf. destruct Hwf as [W1 W2]. rewrite forallb_forall in W1, W2.
      exists fd, w, levels. split; [exact Hfm|]. split; [exact Hk|]. split; [exact Hty|].
      split; [destruct (pw_deps w); [discriminate|discriminate]|].
      split.
      { intros d Hd. split; [apply Hdsimple; exact Hd|]. assert (Hdd : In d design) by (eapply nth_error_In; apply Hdpos; exact Hd).
        split; [exact Hdd|]. apply (Hsimple_names d Hdd (Hdsimple d Hd)). }
      split; [apply nodup_nat_b'_sound; exact F3|]. split; [destruct levels; [discriminate|discriminate]|].
      split; [apply nodup_names_b'_sound; exact F2|]. split.
      + intros lev Hlev El e He. specialize (W1 lev Hlev). rewrite El in W1. cbn [orb] in W1. rewrite forallb_forall in W1. specialize (W1 e He).
        apply memb_entry_in in W1. apply in_map_iff in W1. destruct W1 as [combo [<- Hc]]. exists combo. split; [apply in_dep_product; exact Hc|reflexivity].
      + intros combo Hv. apply Nat.eqb_eq. apply W2. apply in_dep_product. exact Hv. }
  (* the input record *)
  set (excl := excluded_levels ics) in *.
  set (ci0 := mk_input fds (map (pos design) crossing) ics rcc [] [] [] false) in *.
  set (fb0 := st_flat ci0 [] []) in *.
  set (act := fl_act fb0) in *.
  assert (Ecr : match map (pos design) crossing with [] => false | _ => true end = true) by (destruct crossing; [congruence|reflexivity]).
  assert (Eci : ci = dci design crossing fds ics rcc (ci_errors_fail ci)
                         (derived_exclusions fds act (map (pos design) crossing) excl) (derived_derivations fds fb0)
                         (derived_excluded_derived fds excl)).
  { inversion Hin. unfold dci, mk_input. cbn [ci_errors_fail]. destruct crossing; [congruence|]. reflexivity. }
  assert (Eef : ci_errors_fail ci = (rcc && match map (pos design) crossing with [] => false | _ => nonempty (excluded_crossings fds act (map (pos design) crossing) excl) end)
                                    || derivation_errors fds (map (pos design) crossing) rcc) by (inversion Hin; reflexivity).
  rewrite Eci in Hfb.
  eapply (derived_sem_eqv p design crossing cs rcc fds ics act (derived_derivations fds fb0) (ci_errors_fail ci)); try eassumption.
  - intros f Hf. split; [apply is_simple_id_prop; apply X1; exact Hf|eapply nth_error_In; apply Hpos; exact Hf].
  - eapply forallb_Forall; [|exact X2]. intros fn H. apply is_simple_id_prop. exact H.
  - intros d Hd Hs. rewrite <- (names_of_plevels p d Hs). apply (Hsimple_names d Hd Hs).
  - intros d Hd Hs. unfold nlv. rewrite <- (map_length fst). rewrite <- (names_of_plevels p d Hs). apply (Hsimple_names d Hd Hs).
  - apply simple_first_sorted. exact G4.
  - intro Hr. apply negb_true_iff in G8. rewrite Eef in G8.
    apply orb_false_iff in G8. destruct G8 as [G8 _]. rewrite Hr in G8. cbn [andb] in G8.
    assert (Em : forall b : bool, match map (pos design) crossing with [] => false | _ => b end = b) by (intro b; destruct crossing; [congruence|reflexivity]).
    rewrite Em in G8. fold excl.
    destruct (excluded_crossings fds act (map (pos design) crossing) excl); [reflexivity|discriminate].
  - apply derivations_shape.
Qed.

Corollary derived_t2_valid : forall p ci fb ds,
  derived_input p = Some ci -> t2d_guard2 p = true -> create_flat ci = FOk fb -> doc_sem p = Ok ds ->
  forall s, valid_b (code_sem fb) s = valid_b (ds_sem ds) s.
Proof. intros p ci fb ds H1 H2 H3 H4. apply sem_eqv_t_valid. eapply derived_t2; eauto. Qed.
