(** T2(d), obligation O1: the flat record [create_flat] builds from an input whose single non-empty
    crossing consists of simple factors (the derived factors of the design are outside the crossing),
    WEIGHT mode, EQUAL_PREAMBLE, in closed form:
    size = (sum of the weights of the level tuples) - exclusions, preamble 0,
    T = max(min_trials, max(1, size)), crossing weight = ceil(T / size).
    Generalises Front/PlainT2.v (Section Crossing) and Front/PlainT2Flat.v: the design may contain
    any factor descriptions outside the crossing positions. *)
From Coq Require Import ZArith List Bool Arith Lia String.
From SP Require Import Design.Flat Design.Layout Design.Sem Design.DocSem Design.DocSemProofs Design.DocSemPlain
     Design.ListSums Front.Trials Front.TrialsWf Front.TrialsProofs Front.CreateFlat Front.CreateFlatProofs
     Front.PlainInput Front.PlainT2 Front.PlainT2Flat Front.DerivedInput Encode.Compile.
Import ListNotations.
Local Open Scope nat_scope.
Local Open Scope list_scope.

Section FlatOfDerived.
Variable p : program.
Variables design crossing : list nat.
Variable fds : list ffactor.
Hypothesis Hcs : forall f, In f crossing -> simple_id p f.
Hypothesis Hpos : forall f, In f crossing -> nth_error design (pos design f) = Some f.
Hypothesis Hfds : forall f, In f crossing -> nth_error fds (pos design f) = Some (mkff p f).
Hypothesis Hne : crossing <> [].

Let cr := map (pos design) crossing.

(** * any flat record with this design *)
Section AnyFlat.
Variable fb : flat.
Hypothesis Hd : fl_design fb = fds.

Lemma dfactor_at_pos : forall f, In f crossing -> Layout.factor_at fb (pos design f) = Some (mkff p f).
Proof. intros f Hf. unfold Layout.factor_at. rewrite Hd. apply Hfds. exact Hf. Qed.

Lemma dnlevels_pos : forall f, In f crossing -> Layout.nlevels fb (pos design f) = nlv p f.
Proof. intros f Hf. unfold Layout.nlevels. rewrite (dfactor_at_pos f Hf). unfold mkff, nlv. cbn. apply map_length. Qed.

Lemma dlevel_weight_pos : forall f l, In f crossing -> l < nlv p f -> level_weight fb (pos design f) l = wt p f l.
Proof.
  intros f l Hf Hl. unfold level_weight. rewrite (dfactor_at_pos f Hf). unfold mkff. cbn [ff_levels].
  rewrite nth_error_map. unfold nlv in Hl.
  pose proof (nth_error_nth' (plevels p f) ((EmptyString, 1) : name * nat) Hl) as E. unfold name in *. rewrite E. cbn.
  unfold wt. symmetry. exact (map_nth snd (plevels p f) (EmptyString, 1) l).
Qed.

Lemma dcrossing_combos_IP :
  crossing_combos fb (map (pos design) crossing) = map (zipw (fun f l => (pos design f, l)) crossing) (IP p crossing).
Proof.
  unfold crossing_combos, IP. rewrite cproduct_eq. rewrite map_map. rewrite <- product_map2. apply (f_equal (@DocSem.product _)). apply map_ext_in.
  intros f Hf. rewrite (dnlevels_pos f Hf). reflexivity.
Qed.

Lemma dlevel_weight_sum_pos : forall f, In f crossing ->
  level_weight_sum fb (pos design f) = list_sum (map (wt p f) (seq 0 (nlv p f))).
Proof.
  intros f Hf. unfold level_weight_sum. rewrite (dfactor_at_pos f Hf). unfold mkff. cbn [ff_levels].
  rewrite (fold_add_sum lv_weight). cbn [Nat.add]. rewrite map_map. cbn [lv_weight].
  unfold wt, nlv. rewrite <- (map_length snd (plevels p f)) at 1.
  rewrite <- (map_nth_seq (map snd (plevels p f)) 1). reflexivity.
Qed.

Lemma dsize_no_excl_sum : crossing_size_no_excl fb (map (pos design) crossing) = list_sum (map (W p crossing) (IP p crossing)).
Proof.
  unfold crossing_size_no_excl. rewrite (fold_mul_map (level_weight_sum fb)). rewrite map_map.
  rewrite (map_ext_in _ (fun f => list_sum (map (wt p f) (seq 0 (nlv p f))))) by (intros f Hf; apply dlevel_weight_sum_pos; exact Hf).
  change (fold_left Nat.mul ?l 1) with (prod_list l).
  rewrite <- (map_map (fun f => map (wt p f) (seq 0 (nlv p f))) (fun d => list_sum d)).
  rewrite <- sum_product. unfold IP. rewrite product_map2. rewrite map_map. reflexivity.
Qed.

Hypothesis Hc : fl_crossings fb = [cr].
Hypothesis Hs : fl_sustains fb = [1].

Lemma cr_not_derived : forall c, In c cr -> not_derived fb c.
Proof.
  intros c Hc'. unfold cr in Hc'. apply in_map_iff in Hc'. destruct Hc' as [f [<- Hf]]. right. exists (mkff p f).
  split; [apply dfactor_at_pos; exact Hf|reflexivity].
Qed.

Lemma dtrials_required : forall c size, In c cr -> trials_required fb c size = Some size.
Proof.
  intros c size Hc'. apply trials_required_simple; [apply cr_not_derived; exact Hc'|]. unfold sustain.
  rewrite (sustain_one design crossing fb Hc Hs). lia.
Qed.

Lemma dtrials_one_crossing : forall size, trials_for_one_crossing fb cr size = Some size.
Proof.
  intro size. unfold trials_for_one_crossing.
  rewrite (all_some_map_some (fun _ => size)) by (intros c Hc'; apply dtrials_required; exact Hc').
  cbn [option_map]. f_equal. apply max_list_const. unfold cr. destruct crossing; [congruence|discriminate].
Qed.

End AnyFlat.

(** * the input record and the stages of [create_flat] *)
Variable ics : list iconstraint.
Variables rcc ef : bool.
Variable E : nat.                                  (* the exclusion count handed to [_create] *)
Variable ders : list fconstraint.
Variable exd : list (list (nat * nat)).

Definition dci : create_input := mk_input fds cr ics rcc [E] ders exd ef.

Definition dsize : nat := list_sum (map (W p crossing) (IP p crossing)) - E.

Lemma dcr_nonempty : cr <> [].
Proof. unfold cr. destruct crossing; [congruence|discriminate]. Qed.

Lemma st_crossings_dci : st_crossings dci = [cr].
Proof. unfold st_crossings. cbn [dci mk_input ci_crossings filter]. pose proof dcr_nonempty. destruct cr; [congruence|reflexivity]. Qed.

Lemma st_sizes_dci : st_sizes dci = [dsize].
Proof.
  unfold st_sizes. rewrite st_crossings_dci. cbn [dci mk_input ci_exclusions combine map fst snd]. f_equal.
  set (fb1 := st_flat dci [] []).
  assert (Hd : fl_design fb1 = fds) by reflexivity.
  assert (Hc : fl_crossings fb1 = [cr]) by (unfold fb1, st_flat, mkflat; cbn [fl_crossings]; apply st_crossings_dci).
  assert (Hs : fl_sustains fb1 = [1]) by reflexivity.
  pose proof (sustain_one design crossing fb1 Hc Hs) as Hone.
  assert (Hsu : match cr with f :: _ => sustain_of fb1 f | [] => 1 end = 1) by (destruct cr; [reflexivity|apply Hone]).
  rewrite Hsu, Nat.mul_1_r. unfold cr. rewrite (dsize_no_excl_sum fb1 Hd). reflexivity.
Qed.

Lemma model_preambles_dci : forall size, model_preambles (st_flat dci [size] []) = Some [0].
Proof.
  intro size. unfold model_preambles. set (fb2 := st_flat dci [size] []).
  assert (Hc : fl_crossings fb2 = [cr]) by (unfold fb2, st_flat, mkflat; cbn [fl_crossings]; apply st_crossings_dci).
  rewrite Hc. change (fl_sizes fb2) with [size]. cbn [combine map fst snd].
  rewrite (dtrials_one_crossing fb2 eq_refl Hc eq_refl). cbn. rewrite Nat.sub_diag. reflexivity.
Qed.

Lemma trials_for_crossings_dci : forall size pres, trials_for_crossings (st_flat dci [size] pres) = Some (Nat.max 1 size).
Proof.
  intros size pres. unfold trials_for_crossings. set (fb3 := st_flat dci [size] pres).
  assert (Hc : fl_crossings fb3 = [cr]) by (unfold fb3, st_flat, mkflat; cbn [fl_crossings]; apply st_crossings_dci).
  change (fl_alignment fb3) with EqualPreamble. cbv iota. rewrite Hc. change (fl_sizes fb3) with [size]. cbn [combine map fst snd].
  rewrite (dtrials_one_crossing fb3 eq_refl Hc eq_refl). cbn [all_some option_map]. unfold max_list. cbn [fold_left].
  rewrite Nat.max_0_l. reflexivity.
Qed.

Lemma model_min_trials_dci : forall sizes pres,
  model_min_trials (st_flat dci sizes pres) = Some (min_trials_raw (st_flat dci sizes pres)).
Proof. intros. unfold model_min_trials, round_min_trials. cbn [st_flat mkflat fl_sustains dci mk_input ci_sustains fold_left]. apply round_to_1. Qed.

Definition draw : Z := min_trials_raw (st_flat dci [dsize] [0]).
Definition dT : Z := Z.max draw (Z.of_nat (Nat.max 1 dsize)).
Definition dw : Z := ((dT / 1 - 0 + Z.of_nat dsize - 1) / Z.of_nat dsize)%Z.

(** O1: the closed form of the created record *)
Theorem create_flat_dci : forall fb, create_flat dci = FOk fb ->
  0 < dsize /\
  fb = mkflat fds (st_act dci) [cr] [1] [Z.to_nat dw] [dsize] [0] EqualPreamble (st_alpre dci)
              (Z.to_nat draw) (Z.to_nat dT) rcc (st_exclude (st_cons dci)) exd
              (map (init_wb (st_geometry dci [0] dT)) (st_cons dci) ++ ders) ef.
Proof.
  intros fb H. unfold create_flat in H. destruct (needs_desugar _ _); [discriminate|].
  rewrite st_sizes_dci in H. cbv zeta in H. rewrite model_preambles_dci in H.
  change (ci_alignment dci) with EqualPreamble in H. cbn [all_eq negb] in H.
  unfold model_trials in H. rewrite trials_for_crossings_dci, model_min_trials_dci in H. fold draw in H. fold dT in H.
  change (ci_mode dci) with MWeight in H. unfold model_weights in H.
  change (fl_crossings (st_flat dci [dsize] [0])) with (st_crossings dci) in H. rewrite st_crossings_dci in H.
  cbn [List.length st_flat mkflat fl_sustains fl_preambles fl_sizes dci mk_input ci_sustains ci_weights zs_of map weights_loop] in H.
  destruct (dsize =? 0) eqn:Z0; cbn [Nat.eqb orb] in H; [discriminate|]. apply Nat.eqb_neq in Z0.
  split; [lia|]. change (Z.of_nat 1) with 1%Z in H. change (Z.of_nat 0) with 0%Z in H. fold dw in H.
  destruct (dw =? 1)%Z eqn:W1.
  - apply Z.eqb_eq in W1. inversion H; subst fb. rewrite W1. reflexivity.
  - inversion H; subst fb. reflexivity.
Qed.

End FlatOfDerived.
