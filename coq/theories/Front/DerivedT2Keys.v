(** T2(d), obligation O3 (documented side): for a design of simple factors and WITHIN-TRIAL derived
    factors over simple factors of the design, a crossing of simple factors, and Exclude constraints
    on simple factors only, [feasible_combos] is the fold of the plain fragment over the simple
    factors of the design ([plain_feasible], Design/DocSemPlain.v): every derived factor has a value
    under every assignment ([within_value_some]) and that value is never excluded, so no assignment
    is skipped on account of a derived factor. *)
From Coq Require Import ZArith List Bool Arith Lia String Permutation.
From SP Require Import Design.Flat Design.Sem Design.DocSem Design.DocSemProofs Design.DocSemPlain
     Design.ListSums Front.PlainInput Front.PlainT2 Front.PlainT2Doc Front.PlainT2Keys Front.PlainT2Cons Front.PlainT2Main
     Front.DerivedInput Front.DerivedT2Doc Front.DerivedT2Tables.
Import ListNotations.
Local Open Scope nat_scope.
Local Open Scope list_scope.

Section WithinOk.
Variable p : program.

(** a WITHIN-TRIAL derived factor over simple factors of [design], with well-formed tables in which
    every combination of window levels matches exactly one level *)
Definition within_ok (design : list nat) (f : nat) : Prop :=
  exists fd w levels,
    fm p f = Ok fd /\ pf_kind fd = FDerived w levels /\ pw_type w = WWithin /\ pw_deps w <> [] /\
    (forall d, In d (pw_deps w) -> simple_id p d /\ In d design /\ NoDup (names_of p d)) /\
    NoDup (pw_deps w) /\ levels <> [] /\ NoDup (map dl_name levels) /\
    (forall lev, In lev levels -> dl_else lev = false -> forall e, In e (dl_table lev) ->
                 exists combo, Vc p (pw_deps w) combo /\ e = keyc p w combo) /\
    (forall combo, Vc p (pw_deps w) combo ->
                   List.length (filter (fun lev => dl_accepts levels lev (keyc p w combo)) levels) = 1).

Definition simple_b (f : nat) : bool := is_simple (fd_of p f).

Lemma simple_b_true : forall f, simple_id p f -> simple_b f = true.
Proof. intros f H. unfold simple_b. apply (simple_fm p f H). Qed.

Lemma within_not_simple : forall design f, within_ok design f -> simple_b f = false.
Proof.
  intros design f [fd [w [levels [Hfm [Hk _]]]]]. unfold simple_b, fd_of. rewrite Hfm. unfold is_simple. rewrite Hk. reflexivity.
Qed.

Lemma within_fm : forall design f, within_ok design f -> fm p f = Ok (fd_of p f) /\ is_derived (fd_of p f) = true.
Proof.
  intros design f [fd [w [levels [Hfm [Hk _]]]]]. unfold fd_of. rewrite Hfm. split; [reflexivity|]. unfold is_derived. rewrite Hk. reflexivity.
Qed.

End WithinOk.

Section Feasible.
Variable p : program.
Variables design crossing : list nat.
Variable excludes : list (nat * name).
Hypothesis Hkinds : forall f, In f design -> simple_id p f \/ within_ok p design f.
Hypothesis HndD : NoDup design.
Hypothesis Hcs : forall f, In f crossing -> simple_id p f /\ In f design.
Hypothesis Hex : Forall (fun fn : nat * name => simple_id p (fst fn)) excludes.

Definition sd : list nat := filter (simple_b p) design.

Lemma design_fm : forall f, In f design -> fm p f = Ok (fd_of p f).
Proof. intros f Hf. destruct (Hkinds f Hf) as [H|H]; [apply (simple_fm p f H)|apply (within_fm p design f H)]. Qed.

Lemma in_sd : forall f, In f sd <-> simple_id p f /\ In f design.
Proof.
  intro f. unfold sd. rewrite filter_In. split.
  - intros [Hf Hs]. split; [|exact Hf]. destruct (Hkinds f Hf) as [H|H]; [exact H|]. rewrite (within_not_simple p design f H) in Hs. discriminate.
  - intros [Hs Hf]. split; [exact Hf|apply simple_b_true; exact Hs].
Qed.

Lemma sd_simple : Forall (simple_id p) sd.
Proof. apply Forall_forall. intros f Hf. apply in_sd in Hf. apply Hf. Qed.

Lemma NoDup_sd : NoDup sd.
Proof. apply NoDup_filter. exact HndD. Qed.

Lemma basics_gen : forall l, map fst (filter (fun x : nat * pfactor => is_simple (snd x)) (map (fun f => (f, fd_of p f)) l)) = filter (simple_b p) l.
Proof. unfold simple_b. induction l as [|f l IH]; [reflexivity|]. cbn [map filter snd]. destruct (is_simple (fd_of p f)); cbn [map fst]; rewrite IH; reflexivity. Qed.

Lemma basics_sd : map fst (filter (fun x : nat * pfactor => is_simple (snd x)) (map (fun f => (f, fd_of p f)) design)) = sd.
Proof. apply basics_gen. Qed.

Lemma extra_nil : forall l, incl l design ->
  fold_left (fun acc f => e <- acc ;; collect p (fuel0 p) sd f e) l (Ok []) = Ok [].
Proof.
  induction l as [|f l IH]; intro Hincl; [reflexivity|]. cbn [fold_left bind].
  assert (Hf : In f design) by (apply Hincl; left; reflexivity).
  assert (E : collect p (fuel0 p) sd f [] = Ok []).
  { destruct (Hkinds f Hf) as [H|[fd [w [levels [Hfm [Hk [Hty [Hne [Hd _]]]]]]]]].
    - apply collect_simple; [exact H|apply in_sd; split; assumption].
    - apply (collect_within p fd w levels Hk (fun d Hd' => proj1 (Hd d Hd'))); [exact Hfm|].
      intros d Hd'. apply in_sd. destruct (Hd d Hd') as [H1 [H2 _]]. split; assumption. }
  rewrite E. apply IH. intros x Hx. apply Hincl. right. exact Hx.
Qed.

(** the within-trial factors of the design all have a value, never an excluded one *)
Lemma wv_fold_some : forall (excl : list (nat * name)) (assign : assignment) (l : list (nat * pfactor)) wv0,
  (forall x, In x l -> snd x = fd_of p (fst x) /\ within_ok p design (fst x)) ->
  (forall fn, In fn excl -> simple_id p (fst fn)) ->
  (forall d, In d sd -> exists v, dict_get Nat.eqb d assign = Some v /\ In v (names_of p d)) ->
  exists wv,
    fold_left (fun acc x =>
                 o <- acc ;;
                 match o with
                 | None => Ok None
                 | Some wv =>
                   v <- within_value p (fuel0 p) (snd x) assign ;;
                   match v with
                   | None => Ok None
                   | Some l => if memb level_eqb (fst x, l) excl then Ok None
                               else Ok (Some (dict_set Nat.eqb (fst x) l wv))
                   end
                 end) l (Ok (Some wv0)) = Ok (Some wv).
Proof.
  intros excl assign l. induction l as [|[f fd] l IH]; intros wv0 Hl Hexc Ha; [exists wv0; reflexivity|].
  cbn [fold_left bind fst snd]. destruct (Hl (f, fd) (or_introl eq_refl)) as [Efd Hw]. cbn [fst snd] in Efd, Hw.
  pose proof (within_not_simple p design f Hw) as Hns.
  destruct Hw as [fd' [w [levels [Hfm [Hk [Hty [Hne [Hd [_ [_ [_ [Hwf Hu]]]]]]]]]]]].
  assert (fd = fd') by (rewrite Efd; unfold fd_of; rewrite Hfm; reflexivity). subst fd'.
  destruct (within_value_some p fd w levels Hk Hty (fun d Hd' => proj1 (Hd d Hd')) Hu assign) as [lv Hlv].
  { intros d Hd'. apply Ha. apply in_sd. destruct (Hd d Hd') as [H1 [H2 _]]. split; assumption. }
  rewrite Hlv. cbn [bind].
  assert (M : memb level_eqb (f, lv) excl = false).
  { apply not_true_iff_false. intro M. unfold memb in M. apply existsb_exists in M. destruct M as [e [He M]]. apply level_eqb_eq in M. subst e.
    pose proof (simple_b_true p f (Hexc _ He)) as Hs. cbn [fst] in Hs. congruence. }
  rewrite M. apply IH; [|exact Hexc|exact Ha]. intros x Hx. apply Hl. right. exact Hx.
Qed.

Lemma existsb_ext_in : forall {A} (P Q : A -> bool) l, (forall x, In x l -> P x = Q x) -> existsb P l = existsb Q l.
Proof.
  intros A P Q l H. induction l as [|x l IH]; [reflexivity|]. cbn. rewrite (H x (or_introl eq_refl)), IH; [reflexivity|].
  intros y Hy. apply H. right. exact Hy.
Qed.

Lemma mem_true : forall f l, In f l -> DocSem.mem f l = true.
Proof. intros f l H. unfold DocSem.mem. apply existsb_exists. exists f. split; [exact H|apply Nat.eqb_refl]. Qed.

Theorem feasible_derived : feasible_combos p design crossing excludes = plain_feasible p sd crossing excludes.
Proof.
  unfold feasible_combos.
  rewrite (mapM_all_ok _ (fun f => (f, fd_of p f))) by (intros f Hf; rewrite (design_fm f Hf); reflexivity).
  cbn [bind]. rewrite basics_sd. rewrite (extra_nil design (incl_refl _)). cbn [bind]. rewrite app_nil_r.
  rewrite (filterM_all_ok _ (fun x => is_derived (snd x))).
  2:{ intros [f fd] Hin. apply in_map_iff in Hin. destruct Hin as [f' [E Hf']]. inversion E; subst. cbn [snd].
      destruct (Hkinds f Hf') as [H|H].
      - destruct (simple_fm p f H) as [_ Hs]. rewrite (simple_not_derived _ Hs). reflexivity.
      - destruct (within_fm p design f H) as [_ Hd]. rewrite Hd.
        destruct H as [fd [w [levels [Hfm [Hk [Hty [Hne [Hdp _]]]]]]]].
        assert (Efd : fd_of p f = fd) by (unfold fd_of; rewrite Hfm; reflexivity). rewrite Efd.
        rewrite (is_complex_within p fd w levels Hk Hty (fun d Hd' => proj1 (Hdp d Hd')) Hne). reflexivity. }
  cbn [bind].
  rewrite (filterM_all_ok _ (fun fn => DocSem.mem (fst fn) crossing)).
  2:{ intros fn Hin. destruct (DocSem.mem (fst fn) crossing); [reflexivity|]. rewrite Forall_forall in Hex.
      destruct (simple_fm _ _ (Hex fn Hin)) as [-> Hs]. cbn [bind]. rewrite (simple_not_derived _ Hs). reflexivity. }
  cbn [bind].
  rewrite (mapM_all_ok _ (names_of p)).
  2:{ intros f Hf. apply in_sd in Hf. destruct Hf as [Hs _]. destruct (simple_fm p f Hs) as [-> _]. cbn [bind]. apply DocSemPlain.simple_names. exact Hs. }
  cbn [bind]. unfold plain_feasible. apply fold_left_ext_in. intros acc vals Hvals.
  unfold plain_step. destruct acc as [feasible|e|w0]; cbn [bind]; try reflexivity.
  fold (assign_of sd vals). fold (plain_excl crossing excludes).
  assert (Hlen : List.length vals = List.length sd) by (rewrite (in_product_length _ _ Hvals), map_length; reflexivity).
  assert (Hkeys : forall bv, In bv (assign_of sd vals) -> In (fst bv) sd).
  { intros bv Hbv. assert (In (fst bv) (map fst (assign_of sd vals))) by (apply in_map; exact Hbv).
    unfold assign_of in H. apply (proj1 (dict_of_keys _ _)) in H. rewrite map_fst_combine in H by (symmetry; exact Hlen). exact H. }
  assert (Esk : existsb (fun bv : nat * name => DocSem.mem (fst bv) design && memb level_eqb bv (plain_excl crossing excludes)) (assign_of sd vals)
                = skip sd (plain_excl crossing excludes) (assign_of sd vals)).
  { unfold skip. apply existsb_ext_in. intros bv Hbv. pose proof (Hkeys bv Hbv) as Hs.
    rewrite (mem_true _ _ Hs). apply in_sd in Hs. rewrite (mem_true _ _ (proj2 Hs)). reflexivity. }
  rewrite Esk. destruct (skip sd (plain_excl crossing excludes) (assign_of sd vals)); [reflexivity|].
  (* every within-trial factor has a value *)
  assert (Hav : forall d, In d sd -> exists v, dict_get Nat.eqb d (assign_of sd vals) = Some v /\ In v (names_of p d)).
  { intros d Hd. destruct (In_nth_error _ _ Hd) as [i Hi].
    assert (Hlt : i < List.length vals) by (rewrite Hlen; apply nth_error_Some; congruence).
    pose proof (aval_nth sd NoDup_sd vals d i Hlen Hi) as Eav.
    destruct (dict_get_present (assign_of sd vals) d) as [v Hv].
    { unfold assign_of. apply dict_of_keys. rewrite map_fst_combine by (symmetry; exact Hlen). exact Hd. }
    exists v. split; [exact Hv|]. unfold aval in Eav. rewrite Hv in Eav. subst v.
    apply in_product_iff in Hvals. pose proof (Forall2_nth _ _ _ i EmptyString [] Hvals Hlt) as Hn. cbn beta in Hn.
    rewrite (nth_map_error (names_of p) sd _ d [] Hi) in Hn. exact Hn. }
  destruct (wv_fold_some (plain_excl crossing excludes) (assign_of sd vals)
              (filter (fun x : nat * pfactor => is_derived (snd x)) (map (fun f => (f, fd_of p f)) design)) []) as [wv Hwv]; [| |exact Hav|].
  { intros [f fd] Hin. apply filter_In in Hin. destruct Hin as [Hin Hd]. apply in_map_iff in Hin. destruct Hin as [f' [E Hf']]. inversion E; subst. cbn [fst snd] in *.
    split; [reflexivity|]. destruct (Hkinds f Hf') as [H|H]; [|exact H]. destruct (simple_fm p f H) as [_ Hs]. rewrite (simple_not_derived _ Hs) in Hd. discriminate. }
  { intros fn Hfn. unfold plain_excl in Hfn. apply filter_In in Hfn. rewrite Forall_forall in Hex. apply Hex. apply Hfn. }
  rewrite Hwv. cbn [bind].
  rewrite (mapM_all_ok _ (fun f => [aval (assign_of sd vals) f])).
  2:{ intros f Hf. destruct (Hcs f Hf) as [Hs Hfd]. destruct (simple_fm p f Hs) as [-> Hs']. cbn [bind]. rewrite Hs'.
      destruct (Hav f (proj2 (in_sd f) (conj Hs Hfd))) as [v [Hv _]]. unfold aval. rewrite Hv. reflexivity. }
  cbn [bind]. rewrite <- (map_map (aval (assign_of sd vals)) (fun x => [x])). rewrite product_singletons.
  cbn [fold_left bind]. reflexivity.
Qed.

End Feasible.
