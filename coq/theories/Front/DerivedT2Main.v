(** T2(d), obligations O3 (code side), O5 ([forder] = design) and O6 (assembly): for a design of simple
    and WITHIN-TRIAL derived factors (simple factors first), a crossing of simple factors and Exclude
    constraints on simple factors, [code_sem (create_flat (derived_input p))] and [doc_sem p] are
    [sem_eqv_t], hence have the same valid sequences. *)
From Coq Require Import ZArith List Bool Arith Lia String Permutation Sorted.
From SP Require Import Design.Flat Design.Layout Design.Sem Design.SemEqv Design.SemEqvT Design.SemEqvTB Design.SemEqvTBProofs
     Design.DocSem Design.DocSemProofs Design.DocSemPlain
     Design.ListSums Front.Trials Front.TrialsProofs Front.CreateFlat Front.CreateFlatProofs Front.PlainInput
     Front.PlainT2 Front.PlainT2Flat Front.PlainT2Doc Front.PlainT2Keys Front.PlainT2Cons Front.PlainT2Sem Front.PlainT2Main
     Front.DerivedInput Front.DerivedT2Flat Front.DerivedT2Doc Front.DerivedT2Tables Front.DerivedT2Keys Front.DerivedT2Cons
     Encode.Compile Encode.CodeSem.
Import ListNotations.
Local Open Scope nat_scope.
Local Open Scope list_scope.

Lemma Forall2_nth_intro : forall {A B} (R : A -> B -> Prop) l1 l2, List.length l1 = List.length l2 ->
  (forall i x y, nth_error l1 i = Some x -> nth_error l2 i = Some y -> R x y) -> Forall2 R l1 l2.
Proof.
  intros A B R l1. induction l1 as [|a l1 IH]; intros [|b l2] Hlen H; cbn in Hlen; try discriminate; constructor.
  - apply (H 0); reflexivity.
  - apply IH; [lia|]. intros i x y Hx Hy. apply (H (S i)); assumption.
Qed.

Lemma nth_error_combine_seq : forall {A} (l : list A) s i x, nth_error l i = Some x -> nth_error (combine (seq s (List.length l)) l) i = Some (s + i, x).
Proof.
  intros A l. induction l as [|a l IH]; intros s i x H; [destruct i; discriminate|]. destruct i as [|i]; cbn in *.
  - inversion H. rewrite Nat.add_0_r. reflexivity.
  - rewrite (IH (S s) i x H). f_equal. f_equal. lia.
Qed.

Section Main.
Variable p : program.
Variables design crossing : list nat.
Variable cs : list pcons.
Variable rcc : bool.
Variable fds : list ffactor.
Variable ics : list iconstraint.
Variable act : list nat.
Variables (ders : list fconstraint) (ef : bool).

Hypothesis Hkinds : forall f, In f design -> simple_id p f \/ within_ok p design f.
Hypothesis HndD : NoDup design.
Hypothesis HndC : NoDup crossing.
Hypothesis Hne : crossing <> [].
Hypothesis Hcs : forall f, In f crossing -> simple_id p f /\ In f design.
Hypothesis Hexs : Forall (fun fn : nat * name => simple_id p (fst fn)) (excludes_of cs).
Hypothesis Hnames : forall d, In d design -> simple_id p d -> NoDup (map fst (plevels p d)).
Hypothesis Hlev : forall d, In d design -> simple_id p d -> 0 < nlv p d.
Hypothesis Hsorted : StronglySorted (fun a b : nat * nat => (snd a <=? snd b) = true)
                                    (map (fun f => (f, if simple_b p f then 0 else 1)) design).
Hypothesis Hfds : Forall2 (fun f ff => match fm p f with Ok fd => derived_factor p design fd | _ => None end = Some ff) design fds.
Hypothesis Hics : Forall2 (fun c ic => plain_constraint p design c = Some ic) cs ics.

Let cr := map (pos design) crossing.
Let excl := excluded_levels ics.
Let Sz := psize p design crossing ics.

Hypothesis Hrcc : rcc = true -> excluded_crossings fds act cr excl = [].

(** * the factor descriptions *)
Lemma Hpos : forall f, In f crossing -> nth_error design (pos design f) = Some f.
Proof. intros f Hf. apply pos_nth_error. apply Hcs. exact Hf. Qed.

Lemma fds_at : forall f, In f design -> exists ff, nth_error fds (pos design f) = Some ff /\ derived_factor p design (fd_of p f) = Some ff.
Proof.
  intros f Hf. destruct (Forall2_nth_error_l _ _ _ _ _ Hfds (pos_nth_error design f Hf)) as [ff [H1 H2]]. exists ff. split; [exact H1|].
  rewrite (design_fm p design Hkinds f Hf) in H2. exact H2.
Qed.

Lemma fds_simple : forall f, In f design -> simple_id p f -> nth_error fds (pos design f) = Some (mkff p f).
Proof.
  intros f Hf Hs. destruct (fds_at f Hf) as [ff [H1 H2]]. rewrite H1. f_equal. unfold derived_factor in H2.
  rewrite (simple_plevels p f Hs) in H2. unfold plain_factor in H2. rewrite (simple_plevels p f Hs) in H2. inversion H2. reflexivity.
Qed.

Lemma Hfdsc : forall f, In f crossing -> nth_error fds (pos design f) = Some (mkff p f).
Proof. intros f Hf. destruct (Hcs f Hf). apply fds_simple; assumption. Qed.

Lemma Hcs1 : forall f, In f crossing -> simple_id p f.
Proof. intros f Hf. apply Hcs. exact Hf. Qed.

Lemma nlevels_of_c : forall f, In f crossing -> nlevels_of fds (pos design f) = nlv p f.
Proof. intros f Hf. unfold nlevels_of. rewrite (Hfdsc f Hf). unfold mkff, nlv. cbn. apply map_length. Qed.

(** * the exclusion count of the crossing *)
Lemma all_crossings_IP : all_crossings fds cr = map (zipw (fun f l => (pos design f, l)) crossing) (IP p crossing).
Proof.
  unfold all_crossings, cr, IP. rewrite map_map. rewrite <- product_map2. apply (f_equal (@DocSem.product _)). apply map_ext_in.
  intros f Hf. unfold level_list. rewrite (nlevels_of_c f Hf). reflexivity.
Qed.

Lemma is_der_simple : forall f, In f design -> simple_id p f -> is_der fds (pos design f) = false.
Proof. intros f Hf Hs. unfold is_der, fwin. rewrite (fds_simple f Hf Hs). reflexivity. Qed.

(** the description of a within-trial factor *)
Definition wff (f : nat) (w : pwindow) (levels : list pdlevel) : ffactor :=
  {| ff_name := pf_name (fd_of p f); ff_hidden := false;
     ff_levels := derived_levels (map (names_of p) (pw_deps w)) levels;
     ff_window := Some {| win_deps := map (pos design) (pw_deps w); win_width := 1; win_stride := 1; win_start := 0; win_start_delta := 0%Z |};
     ff_complex := false |}.

Lemma simple_names_of : forall d, simple_id p d -> DerivedInput.simple_names p d = Some (names_of p d).
Proof.
  intros d Hs. unfold DerivedInput.simple_names. destruct (simple_fm p d Hs) as [-> _]. unfold names_of. rewrite (simple_plevels p d Hs). reflexivity.
Qed.

Lemma fds_within : forall f fd w levels, In f design -> fm p f = Ok fd -> pf_kind fd = FDerived w levels ->
  (forall d, In d (pw_deps w) -> simple_id p d) ->
  nth_error fds (pos design f) = Some (wff f w levels).
Proof.
  intros f fd w levels Hf Hfm Hk Hd. destruct (fds_at f Hf) as [ff [H1 H2]]. rewrite H1. f_equal.
  assert (Efd : fd_of p f = fd) by (unfold fd_of; rewrite Hfm; reflexivity). rewrite Efd in H2. unfold derived_factor in H2. rewrite Hk in H2.
  destruct (pw_type w); try discriminate. destruct (_ && _); [|discriminate].
  destruct (all_opt (map (fpos design) (pw_deps w))) as [pdeps|] eqn:Ep; [|discriminate].
  destruct (all_opt (map (DerivedInput.simple_names p) (pw_deps w))) as [dnames|] eqn:En; [|discriminate].
  destruct (plain_cr design (pw_deps w) pdeps Ep) as [-> _].
  assert (dnames = map (names_of p) (pw_deps w)).
  { apply all_opt_some in En. apply Forall2_map_eq. clear -En Hd. induction En as [|d y l ys Hy _ IH]; constructor.
    - rewrite (simple_names_of d (Hd d (or_introl eq_refl))) in Hy. congruence.
    - apply IH. intros x Hx. apply Hd. right. exact Hx. }
  subst dnames. inversion H2. unfold wff. rewrite Efd. reflexivity.
Qed.

(** facts about every design factor *)
Lemma design_ln : forall f, In f design -> level_names (fd_of p f) = Ok (names_of p f).
Proof.
  intros f Hf. destruct (Hkinds f Hf) as [H|[fd [w [levels [Hfm [Hk _]]]]]]; [apply DocSemPlain.simple_names; exact H|].
  unfold level_names, names_of, fd_of. rewrite Hfm, Hk. reflexivity.
Qed.

Lemma design_str : forall f, In f design -> strided (fd_of p f) = false.
Proof.
  intros f Hf. destruct (Hkinds f Hf) as [H|[fd [w [levels [Hfm [Hk [Hty _]]]]]]]; [apply strided_simple; exact H|].
  unfold strided, fd_of. rewrite Hfm, Hk, Hty. reflexivity.
Qed.

Lemma design_ndn : forall f, In f design -> NoDup (names_of p f).
Proof.
  intros f Hf. destruct (Hkinds f Hf) as [H|[fd [w [levels [Hfm [Hk [_ [_ [_ [_ [_ [Hnd _]]]]]]]]]]]].
  - rewrite (names_of_plevels p f H). apply Hnames; assumption.
  - unfold names_of, fd_of. rewrite Hfm, Hk. exact Hnd.
Qed.

Lemma design_nl : forall f, In f design -> nlevels_of fds (pos design f) = List.length (names_of p f).
Proof.
  intros f Hf. destruct (Hkinds f Hf) as [H|[fd [w [levels [Hfm [Hk [_ [_ [Hd _]]]]]]]]].
  - unfold nlevels_of. rewrite (fds_simple f Hf H). rewrite (names_of_plevels p f H). unfold mkff. cbn. rewrite !map_length. reflexivity.
  - unfold nlevels_of. rewrite (fds_within f fd w levels Hf Hfm Hk (fun d Hd' => proj1 (Hd d Hd'))). unfold wff, derived_levels. cbn [ff_levels].
    unfold names_of, fd_of. rewrite Hfm, Hk. rewrite !map_length. reflexivity.
Qed.

Lemma excl_in : forall e, In e excl -> exists f n, In (f, n) (excludes_of cs) /\ e = (pos design f, lidx p f n) /\ In f design /\ simple_id p f /\
  lidx p f n < nlv p f /\ nm p f (lidx p f n) = n.
Proof.
  intros e He.
  destruct (excluded_levels_gen p design (design_fm p design Hkinds) design_ln cs ics Hics) as [Eidx Hexc].
  unfold excl in He. rewrite Eidx in He. apply in_map_iff in He. destruct He as [[f n] [<- Hfn]]. exists f, n.
  destruct (Hexc f n Hfn) as [Hf [Hl Hn]]. rewrite Forall_forall in Hexs. pose proof (Hexs _ Hfn) as Hs. cbn [fst snd] in *.
  rewrite (names_of_plevels p f Hs) in Hl, Hn. rewrite map_length in Hl. repeat split; assumption.
Qed.

(** an Exclude hits a combination iff the combination contains the excluded level *)
Lemma hits_exI : forall ls, In ls (IP p crossing) ->
  existsb (fun fl => exclude_hits fds act cr fl (combine cr ls)) excl = exI design crossing excl ls.
Proof.
  intros ls Hls. unfold exI. fold cr. apply existsb_eq_iff. rewrite !existsb_exists. split.
  - intros [e [He Hh]]. destruct (excl_in e He) as [f [n [_ [-> [Hf [Hs _]]]]]]. unfold exclude_hits in Hh. cbn [fst snd] in Hh.
    rewrite (is_der_simple f Hf Hs) in Hh. cbn [andb] in Hh. rewrite orb_false_r in Hh. apply andb_true_iff in Hh. destruct Hh as [_ Hh].
    apply existsb_exists in Hh. destruct Hh as [q [Hq Hm]]. exists q. split; [exact Hq|]. unfold memP. apply existsb_exists.
    exists (pos design f, lidx p f n). split; [exact He|]. cbn [fst snd]. apply andb_true_iff in Hm. destruct Hm as [H1 H2].
    apply Nat.eqb_eq in H1, H2. rewrite H1, H2, !Nat.eqb_refl. reflexivity.
  - intros [q [Hq Hm]]. unfold memP in Hm. apply existsb_exists in Hm. destruct Hm as [e [He Hm]]. exists e. split; [exact He|].
    apply andb_true_iff in Hm. destruct Hm as [H1 H2]. apply Nat.eqb_eq in H1, H2. unfold exclude_hits. apply orb_true_iff. left. apply andb_true_iff. split.
    + unfold memf. apply existsb_exists. exists (fst q). split; [|apply Nat.eqb_eq; exact H1].
      assert (In (fst q) (map fst (combine cr ls))) by (apply in_map; exact Hq).
      rewrite map_fst_combine in H; [exact H|]. unfold cr. rewrite map_length. symmetry. apply (in_IP_length p). exact Hls.
    + apply existsb_exists. exists q. split; [exact Hq|]. rewrite H1, H2, !Nat.eqb_refl. reflexivity.
Qed.

Lemma impossible_false : forall ls, In ls (IP p crossing) -> impossible fds cr (combine cr ls) = false.
Proof.
  intros ls Hls. unfold impossible. apply existsb_false. intros [c l] Hin. cbn [fst snd].
  assert (Hc : In c cr).
  { assert (In c (map fst (combine cr ls))) by (apply (in_map fst) in Hin; exact Hin).
    rewrite map_fst_combine in H; [exact H|]. unfold cr. rewrite map_length. symmetry. apply (in_IP_length p). exact Hls. }
  unfold cr in Hc. apply in_map_iff in Hc. destruct Hc as [f [<- Hf]]. destruct (Hcs f Hf) as [Hs Hfd]. rewrite (is_der_simple f Hfd Hs). reflexivity.
Qed.

Lemma excluded_crossings_IP :
  excluded_crossings fds act cr excl = map (fun ls => combine cr ls) (filter (exI design crossing excl) (IP p crossing)).
Proof.
  unfold excluded_crossings. rewrite all_crossings_IP. rewrite (map_ext _ _ (zipw_pos_combine design crossing)).
  rewrite filter_map_comm. f_equal. apply filter_ext_in. intros ls Hls. fold cr. rewrite (impossible_false ls Hls). cbn [orb]. apply hits_exI. exact Hls.
Qed.

Lemma combo_weight_idx_W : forall ls, In ls (IP p crossing) -> combo_weight_idx fds (combine cr ls) = W p crossing ls.
Proof.
  intros ls Hls. unfold combo_weight_idx, W, prod_list, zipw, cr. pose proof (in_IP_lt p crossing ls Hls) as Hlt.
  assert (G : forall (fs ls : list nat) a, (forall f, In f fs -> In f crossing) -> Forall2 (fun l f => l < nlv p f) ls fs ->
    fold_left (fun w fl => w * match nth_error (flevels fds (fst fl)) (snd fl) with Some lv => lv_weight lv | None => 1 end) (combine (map (pos design) fs) ls) a
    = fold_left Nat.mul (map (fun xy => wt p (fst xy) (snd xy)) (combine fs ls)) a).
  { intros fs ls0 a Hin H. revert a. induction H as [|l f ls0 fs Hl _ IH]; intro a; [reflexivity|]. cbn [map combine fold_left fst snd].
    assert (Hf : In f crossing) by (apply Hin; left; reflexivity).
    assert (E : match nth_error (flevels fds (pos design f)) l with Some lv => lv_weight lv | None => 1 end = wt p f l).
    { unfold flevels. rewrite (Hfdsc f Hf). unfold mkff. cbn [ff_levels]. rewrite nth_error_map. unfold nlv in Hl.
      pose proof (nth_error_nth' (plevels p f) ((EmptyString, 1) : name * nat) Hl) as E. unfold name in *. rewrite E. cbn.
      unfold wt. symmetry. exact (map_nth snd (plevels p f) (EmptyString, 1) l). }
    rewrite E. apply IH. intros g Hg. apply Hin. right. exact Hg. }
  apply G; [auto|exact Hlt].
Qed.

Lemma exclusions_sum : derived_exclusions fds act cr excl = list_sum (map (W p crossing) (filter (exI design crossing excl) (IP p crossing))).
Proof.
  unfold derived_exclusions. rewrite (fold_add_sum (combo_weight_idx fds)). cbn [Nat.add]. rewrite excluded_crossings_IP. rewrite map_map.
  apply (f_equal (@list_sum)). apply map_ext_in. intros ls Hls. apply filter_In in Hls. apply combo_weight_idx_W. apply Hls.
Qed.

Lemma dsize_Sz : dsize p crossing (derived_exclusions fds act cr excl) = Sz.
Proof.
  unfold dsize, Sz, psize. rewrite exclusions_sum. fold excl.
  rewrite (list_sum_filter_split (exI design crossing excl) (W p crossing) (IP p crossing)). lia.
Qed.

(** * the documented side over the simple factors of the design *)
Let sdd := sd p design.

Lemma sdd_simple : Forall (simple_id p) sdd.
Proof. apply sd_simple. exact Hkinds. Qed.

Lemma crossing_sdd : forall f, In f crossing -> In f sdd.
Proof. intros f Hf. apply (in_sd p design Hkinds). destruct (Hcs f Hf). split; assumption. Qed.

Lemma Hpos_sd : forall f, In f crossing -> nth_error sdd (pos sdd f) = Some f.
Proof. intros f Hf. apply pos_nth_error. apply crossing_sdd. exact Hf. Qed.

Lemma HnamesC : forall f, In f crossing -> NoDup (map fst (plevels p f)).
Proof. intros f Hf. destruct (Hcs f Hf). apply Hnames; assumption. Qed.

Lemma Hnames_sd : forall d, In d sdd -> NoDup (map fst (plevels p d)).
Proof. intros d Hd. apply (in_sd p design Hkinds) in Hd. destruct Hd. apply Hnames; assumption. Qed.

Lemma Hlev_sd : forall d, In d sdd -> 0 < nlv p d.
Proof. intros d Hd. apply (in_sd p design Hkinds) in Hd. destruct Hd. apply Hlev; assumption. Qed.

Lemma feasible_sd : forall feas, feasible_combos p design crossing (excludes_of cs) = Ok feas ->
  feasible_combos p sdd crossing (excludes_of cs) = Ok feas.
Proof.
  intros feas H. rewrite (feasible_derived p design crossing (excludes_of cs) Hkinds HndD Hcs Hexs) in H.
  rewrite (feasible_plain p sdd crossing (excludes_of cs) sdd_simple crossing_sdd Hexs). exact H.
Qed.

Lemma ex_agree_gen : forall ls, In ls (IP p crossing) ->
  exI design crossing excl ls = exN p crossing (plain_excl crossing (excludes_of cs)) ls.
Proof.
  intros ls Hls. pose proof (in_IP_lt p crossing ls Hls) as Hlt.
  destruct (excluded_levels_gen p design (design_fm p design Hkinds) design_ln cs ics Hics) as [Eidx Hexc].
  unfold exI, exN. apply existsb_eq_iff. rewrite !existsb_exists. split.
  - intros [[c l] [Hin Hm]]. apply in_combine_map_l in Hin. destruct Hin as [f [Hfl ->]].
    destruct (Forall2_combine_in _ _ _ _ _ Hlt Hfl) as [Hl Hf].
    unfold memP in Hm. apply existsb_exists in Hm. destruct Hm as [e [He Hm]].
    destruct (excl_in e He) as [g [m [Hgm [-> [Hgd [Hgs [_ Hnm]]]]]]]. cbn [fst snd] in Hm. apply andb_true_iff in Hm. destruct Hm as [H1 H2].
    apply Nat.eqb_eq in H1, H2.
    assert (g = f).
    { pose proof (pos_nth_error design g Hgd) as E1. pose proof (Hpos f Hf) as E2. rewrite H1 in E1. congruence. }
    subst g. exists (f, nm p f l). split; [apply in_combine_zipw; exists l; split; [exact Hfl|reflexivity]|].
    unfold memb. apply existsb_exists. exists (f, m). split.
    + unfold plain_excl. apply filter_In. split; [exact Hgm|]. cbn. apply mem_true. exact Hf.
    + apply level_eqb_eq. rewrite <- Hnm, H2. reflexivity.
  - intros [[f n] [Hin Hm]]. apply in_combine_zipw in Hin. destruct Hin as [l [Hfl ->]].
    destruct (Forall2_combine_in _ _ _ _ _ Hlt Hfl) as [Hl Hf].
    unfold memb in Hm. apply existsb_exists in Hm. destruct Hm as [e [He Hm]]. apply level_eqb_eq in Hm. subst e.
    unfold plain_excl in He. apply filter_In in He. destruct He as [He _].
    exists (pos design f, l). split; [apply in_combine_map_l; exists f; split; [exact Hfl|reflexivity]|].
    unfold memP. apply existsb_exists. exists (pos design f, lidx p f (nm p f l)). split.
    + unfold excl. rewrite Eidx. apply in_map_iff. exists (f, nm p f l). split; [reflexivity|exact He].
    + cbn [fst snd]. rewrite Nat.eqb_refl. cbn. apply Nat.eqb_eq. unfold lidx.
      rewrite (level_index_nm p [f]); [reflexivity| | |left; reflexivity|exact Hl].
      * constructor; [apply Hcs1; exact Hf|constructor].
      * intros d [<-|[]]. apply HnamesC. exact Hf.
Qed.

Lemma excludes_simple_gen : Forall (fun fn : nat * name => simple_id p (fst fn)) (excludes_of cs).
Proof. exact Hexs. Qed.

Lemma exI_false_rcc_gen : rcc = true -> forall ls, In ls (IP p crossing) -> exI design crossing excl ls = false.
Proof.
  intros Hr ls Hls. pose proof (Hrcc Hr) as H0. rewrite excluded_crossings_IP in H0. apply map_eq_nil in H0.
  destruct (exI design crossing excl ls) eqn:E; [|reflexivity]. exfalso.
  assert (Hin : In ls (filter (exI design crossing excl) (IP p crossing))) by (apply filter_In; split; assumption).
  rewrite H0 in Hin. exact Hin.
Qed.

Lemma doc_size_gen : forall allc feas,
  all_combos p crossing = Ok allc -> feasible_combos p design crossing (excludes_of cs) = Ok feas ->
  sum_values (if rcc then allc else feas) = Sz.
Proof.
  intros allc feas Ha Hf. apply feasible_sd in Hf. unfold Sz, psize. fold excl. destruct (Bool.bool_dec rcc true) as [Hr|Hr].
  - rewrite Hr. destruct (all_combos_keys p sdd crossing sdd_simple Hpos_sd allc Ha) as [Hnd Hk].
    rewrite (dict_sum p sdd crossing sdd_simple Hpos_sd HnamesC allc (fun _ => true) Hnd).
    + apply (f_equal (@list_sum)). apply (f_equal (map (W p crossing))). apply filter_ext_in. intros ls Hls.
      rewrite (exI_false_rcc_gen Hr ls Hls). reflexivity.
    + intros k v Hin. eapply all_combos_weight; eauto.
    + intro combo. rewrite Hk. split; [intros [ls [H1 H2]]; exists ls; auto|intros [ls [H1 [_ H2]]]; exists ls; auto].
  - apply not_true_is_false in Hr. rewrite Hr.
    destruct (feasible_keys p sdd crossing sdd_simple Hpos_sd (NoDup_sd p design HndD) HndC Hlev_sd (excludes_of cs) feas Hexs Hf) as [Hnd Hk].
    rewrite (dict_sum p sdd crossing sdd_simple Hpos_sd HnamesC feas
                      (fun ls => negb (exN p crossing (plain_excl crossing (excludes_of cs)) ls)) Hnd).
    + apply (f_equal (@list_sum)). apply (f_equal (map (W p crossing))). apply filter_ext_in. intros ls Hls.
      rewrite (ex_agree_gen ls Hls). reflexivity.
    + intros k v Hin. eapply feasible_plain_weight; eauto using sdd_simple. intros f Hf'. apply crossing_sdd. exact Hf'.
    + intro combo. rewrite Hk. split; intros [ls [H1 [H2 H3]]]; exists ls; (split; [exact H1|split; [|exact H3]]).
      * rewrite H2. reflexivity.
      * apply negb_true_iff in H2. exact H2.
Qed.

(** * the documented normal form *)
Hypothesis Hmain : p_main p = PCross design crossing cs rcc.

Lemma design_not_continuous_gen :
  map fst (filter (fun x : nat * pfactor => negb (is_continuous (snd x))) (map (fun f => (f, fd_of p f)) design)) = design.
Proof.
  assert (G : forall l, (forall f, In f l -> is_continuous (fd_of p f) = false) ->
              map fst (filter (fun x : nat * pfactor => negb (is_continuous (snd x))) (map (fun f => (f, fd_of p f)) l)) = l).
  { induction l as [|f l IH]; intro H; [reflexivity|]. cbn [map filter snd]. rewrite (H f (or_introl eq_refl)). cbn [negb map fst]. f_equal.
    apply IH. intros g Hg. apply H. right. exact Hg. }
  apply G. intros f Hf. destruct (Hkinds f Hf) as [H|[fd [w [levels [Hfm [Hk _]]]]]].
  - destruct (simple_fm p f H) as [_ Hs]. unfold is_simple in Hs. unfold is_continuous. destruct (pf_kind (fd_of p f)); try discriminate. reflexivity.
  - unfold is_continuous, fd_of. rewrite Hfm, Hk. reflexivity.
Qed.

Lemma doc_block_gen : forall bd, doc_block p (PCross design crossing cs rcc) = Ok bd ->
  exists allc feas,
    all_combos p crossing = Ok allc /\ feasible_combos p design crossing (excludes_of cs) = Ok feas /\
    let cmb := if rcc then allc else feas in
    let S := sum_values cmb in
    let T := Nat.max (Nat.max S 1) (list_max (min_trials_of cs)) in
    let x := {| x_factors := crossing; x_S := S; x_P := 0; x_su := 1; x_cw := 1; x_combos := cmb;
                x_complete := same_keys feas allc; x_rcc := rcc |} in
    bd = the_bd design cs rcc (if S =? 0 then x else set_cw x (ceil_div T S)) T.
Proof.
  intros bd H. cbn [doc_block] in H. unfold doc_cross in H.
  rewrite (mapM_all_ok _ (fun f => (f, fd_of p f))) in H
    by (intros f Hf; rewrite (design_fm p design Hkinds f Hf); reflexivity).
  cbn [bind] in H. rewrite design_not_continuous_gen in H.
  assert (Hf : filter nonempty [crossing] = [crossing]) by (destruct crossing; [congruence|reflexivity]).
  rewrite Hf in H. cbn [mapM] in H. inv_bind H as xs Hxs H. inv_bind Hxs as x Hx Hxs. cbn [bind] in Hxs. inversion Hxs; subst xs. clear Hxs.
  unfold doc_crossing in Hx. inv_bind Hx as allc Ha Hx. inv_bind Hx as feas Hfe Hx. inv_bind Hx as P HP Hx.
  rewrite crossing_preamble_plain in HP by exact Hcs1. inversion HP; subst P. clear HP.
  exists allc, feas. split; [exact Ha|]. split; [exact Hfe|]. cbv zeta.
  inv_bind H as bd0 Hfin H. inversion H; subst bd. clear H. inversion Hx; subst x. clear Hx.
  unfold finish in Hfin. cbv zeta in Hfin.
  cbn [b_alignment b_crossings b_min_trials b_design b_constraints b_sustain b_rcc alignment_eqb andb forallb x_P negb] in Hfin.
  rewrite Nat.eqb_refl in Hfin. cbn [andb negb mapM] in Hfin.
  set (S := sum_values (if rcc then allc else feas)) in *.
  assert (ET : finish_T EqualPreamble [{| x_factors := crossing; x_S := S; x_P := 0; x_su := 1; x_cw := 1;
                                          x_combos := if rcc then allc else feas; x_complete := same_keys feas allc; x_rcc := rcc |}]
                        (list_max (min_trials_of cs)) = Nat.max (Nat.max S 1) (list_max (min_trials_of cs))).
  { unfold finish_T. cbn [map list_max fold_right fold_left x_P x_S x_su]. rewrite Nat.mod_1_r. cbn [Nat.eqb].
    rewrite Nat.mul_1_r, Nat.add_0_l, Nat.max_0_r. reflexivity. }
  rewrite ET in Hfin. set (T := Nat.max (Nat.max S 1) (list_max (min_trials_of cs))) in *.
  unfold finish_cw in Hfin. cbn [x_S x_su x_P x_cw] in Hfin. rewrite Nat.div_1_r, Nat.sub_0_r in Hfin.
  unfold the_bd. destruct (S =? 0) eqn:ES.
  - cbn [bind] in Hfin. inversion Hfin; subst bd0. cbn. reflexivity.
  - destruct (ceil_div T S =? 1) eqn:EW.
    + cbn [bind] in Hfin. inversion Hfin; subst bd0. cbn. apply Nat.eqb_eq in EW. rewrite EW. reflexivity.
    + cbn [bind] in Hfin. inversion Hfin; subst bd0. cbn. reflexivity.
Qed.

Lemma depth_design : forall f, In f design -> depth p (fuel0 p) f = Ok (if simple_b p f then 0 else 1).
Proof.
  intros f Hf. destruct (Hkinds f Hf) as [H|H].
  - rewrite (simple_b_true p f H). apply depth_simple. exact H.
  - rewrite (within_not_simple p design f H). destruct H as [fd [w [levels [Hfm [Hk [_ [Hne' [Hd _]]]]]]]].
    apply (depth_within p fd w levels Hk (fun d Hd' => proj1 (Hd d Hd')) Hne' f Hfm).
Qed.

Lemma sem_of_gen : forall x T ds,
  x_factors x = crossing -> x_P x = 0 -> x_su x = 1 ->
  sem_of_block p (the_bd design cs rcc x T) = Ok ds ->
  s_trials (ds_sem ds) = T /\
  mapM (sem_factor p (the_bd design cs rcc x T) design) design = Ok (s_factors (ds_sem ds)) /\
  x_S x * x_cw x <> 0 /\
  (exists mult,
     s_crossings (ds_sem ds) = [{| c_factors := map (pos design) crossing; c_first := 0; c_chunk := x_S x * x_cw x; c_mult := mult |}] /\
     mapM (fun cw : list name * nat =>
             idx <- mapM (fun fn => level_index p (fst fn) (snd fn)) (combine crossing (fst cw)) ;;
             Ok (idx, snd cw * x_cw x * 1))
          (sort_by (fun a b => names_leb (fst a) (fst b)) (x_combos x)) = Ok mult) /\
  (exists ks,
     mapM (fun csc : pcons * scope =>
             cs0 <- expand_constraint p (fst csc) ;;
             ks <- mapM (fun c => sem_constraint p (the_bd design cs rcc x T) design 0 T c (snd csc)) cs0 ;; Ok (List.concat ks))
          (own_constraints cs) = Ok ks /\
     s_constraints (ds_sem ds) = List.concat ks ++
       (if (negb (x_complete x) && x_rcc x || false) && nonempty design
        then [{| k_kind := KExactlyK (T + 1); k_factor := 0; k_level := 0; k_windows := [(0, T)] |}] else [])).
Proof.
  intros x T ds Hxf HxP Hxsu H. unfold sem_of_block in H. cbn [the_bd b_design b_T b_crossings b_constraints] in H.
  rewrite (mapM_all_ok _ (fun f => (f, fd_of p f))) in H
    by (intros f Hf; rewrite (design_fm p design Hkinds f Hf); reflexivity).
  cbn [bind] in H.
  assert (Hdeps : forallb (fun x0 : nat * pfactor => forallb (fun d => DocSem.mem d design) (fdeps (snd x0))) (map (fun f => (f, fd_of p f)) design) = true).
  { apply forallb_forall. intros [f fd] Hin. apply in_map_iff in Hin. destruct Hin as [f' [E Hf']]. inversion E; subst. cbn [snd].
    destruct (Hkinds f Hf') as [Hs|[fd [w [levels [Hfm [Hk [_ [_ [Hd _]]]]]]]]].
    - unfold fdeps. rewrite (simple_plevels p f Hs). reflexivity.
    - unfold fdeps, fd_of. rewrite Hfm, Hk. apply forallb_forall. intros d Hd'. apply mem_true. apply (Hd d Hd'). }
  rewrite Hdeps in H. cbn [negb] in H.
  rewrite (mapM_all_ok _ (fun f => (f, if simple_b p f then 0 else 1))) in H
    by (intros f Hf; rewrite (depth_design f Hf); reflexivity).
  cbn [bind] in H.
  rewrite (sort_by_sorted _ _ Hsorted) in H.
  rewrite map_map in H. cbn [fst] in H. rewrite map_id in H.
  inv_bind H as factors Hfac H.
  cbn [bind mapM map list_max fold_right] in H. rewrite HxP in H. cbn [Nat.mul Nat.max] in H.
  inv_bind H as crossings Hx H. inv_bind Hx as dc Hdc Hx. cbn [bind] in Hx. inversion Hx; subst crossings. clear Hx.
  inv_bind H as constraints Hc H. inversion H; subst ds. clear H. cbn [ds_sem s_trials s_factors s_crossings s_constraints].
  unfold sem_crossing in Hdc. rewrite Hxsu, Nat.mul_1_r in Hdc.
  destruct (x_S x * x_cw x =? 0) eqn:E0; [discriminate|]. apply Nat.eqb_neq in E0.
  inv_bind Hdc as mult Hm Hdc. inv_bind Hdc as fs Hfs Hdc. inversion Hdc; subst dc. clear Hdc.
  rewrite Hxf in Hfs, Hm. rewrite (mapM_all_ok _ (pos design)) in Hfs.
  2:{ intros f Hf. apply pos_of_design; [exact HndD|]. apply Hcs. exact Hf. }
  inversion Hfs; subst fs. clear Hfs.
  split; [reflexivity|]. split; [exact Hfac|]. split; [exact E0|]. split.
  - exists mult. split.
    + unfold crossing_first. cbn [the_bd b_alignment]. rewrite HxP. reflexivity.
    + exact Hm.
  - exists constraints. split; [exact Hc|]. reflexivity.
Qed.

(** * the factor tables *)
Lemma pos_of_nth_error : forall i f, nth_error design i = Some f -> pos design f = i.
Proof.
  intros i f H. assert (Hf : In f design) by (eapply nth_error_In; eauto). pose proof (pos_nth_error design f Hf) as H'.
  assert (Hlt : pos design f < List.length design) by (apply nth_error_Some; congruence).
  apply (proj1 (NoDup_nth_error design) HndD _ _ Hlt). congruence.
Qed.

Lemma code_factors_nth : forall fb i ff, fl_design fb = fds -> nth_error fds i = Some ff ->
  nth_error (s_factors (code_sem fb)) i = Some (code_factor fb i ff).
Proof.
  intros fb i ff Hd H. unfold code_sem. cbn [s_factors]. rewrite Hd. rewrite nth_error_map. rewrite (nth_error_combine_seq fds 0 i ff H). reflexivity.
Qed.

Lemma factors_eqv : forall fb x T factors, fl_design fb = fds -> (forall i, sustain_of fb i = 1) ->
  mapM (sem_factor p (the_bd design cs rcc x T) design) design = Ok factors ->
  Forall2 (factor_eqv_t (s_factors (code_sem fb))) (s_factors (code_sem fb)) factors.
Proof.
  intros fb x T factors Hd Hsu Hm.
  pose proof (mapM_length _ _ _ Hm) as Hlf. pose proof (Forall2_len _ _ _ Hfds) as Hld. apply mapM_ok in Hm.
  apply Forall2_nth_intro.
  { unfold code_sem. cbn [s_factors]. rewrite Hd, map_length, combine_length, seq_length, Nat.min_id. congruence. }
  intros i cf y Hcf Hy.
  destruct (Forall2_nth_error_r _ _ _ _ _ Hm Hy) as [f [Hf Hsf]].
  assert (Hfd : In f design) by (eapply nth_error_In; eauto). pose proof (pos_of_nth_error i f Hf) as Epos.
  destruct (Hkinds f Hfd) as [Hs|Hw].
  - pose proof (fds_simple f Hfd Hs) as Eff. rewrite Epos in Eff. rewrite (code_factors_nth fb i _ Hd Eff) in Hcf. inversion Hcf; subst cf.
    rewrite (sem_factor_simple p _ design f Hs) in Hsf. inversion Hsf; subst y.
    unfold factor_eqv_t, code_factor, mkff. cbn. rewrite map_length, Hsu. repeat split.
  - destruct Hw as [fd [w [levels [Hfm [Hk [Hty [Hne' [Hdp [Hndd [_ [_ [Hwf Hu]]]]]]]]]]]].
    pose proof (fds_within f fd w levels Hfd Hfm Hk (fun d Hd' => proj1 (Hdp d Hd'))) as Eff. rewrite Epos in Eff.
    rewrite (code_factors_nth fb i _ Hd Eff) in Hcf. inversion Hcf; subst cf.
    unfold sem_factor in Hsf. rewrite Hfm in Hsf. cbn [bind] in Hsf. unfold DocSem.nlevels in Hsf. rewrite Hk in Hsf. cbn [bind] in Hsf.
    assert (Ens : is_simple fd = false) by (unfold is_simple; rewrite Hk; reflexivity). rewrite Ens in Hsf.
    rewrite (window_params_within p fd w levels Hk Hty (fun d Hd' => proj1 (Hdp d Hd'))) in Hsf. cbn [bind] in Hsf.
    change (sustain_get (the_bd design cs rcc x T) f) with 1 in Hsf. cbn [Nat.ltb Nat.leb andb] in Hsf.
    rewrite (accepted_tables_within p fd w levels Hk Hty (fun d Hd' => proj1 (Hdp d Hd'))) in Hsf. cbn [bind] in Hsf.
    inv_bind Hsf as enc Henc Hsf.
    rewrite (mapM_all_ok _ (pos design)) in Hsf by (intros d Hd'; apply pos_of_design; [exact HndD|apply (Hdp d Hd')]).
    cbn [bind] in Hsf. inversion Hsf; subst y. clear Hsf.
    unfold factor_eqv_t, code_factor, wff. cbn [f_nlevels f_sustain f_derived ff_levels ff_window win_deps win_width win_stride win_start].
    split; [unfold derived_levels; rewrite map_length; reflexivity|]. split; [apply Hsu|]. right. split; [|split; [reflexivity|]].
    + unfold window_eqv. cbn [w_deps w_width w_stride w_start w_table]. repeat split. intros l args Hargs. unfold accepts. cbn [w_table].
      apply (table_eqv p w levels (fun d Hd' => proj1 (Hdp d Hd')) (fun d Hd' => proj2 (proj2 (Hdp d Hd'))) Hwf enc Henc l args Hargs).
    + cbn [w_deps]. apply Forall_forall. intros c Hc. apply in_map_iff in Hc. destruct Hc as [d [<- Hd']]. destruct (Hdp d Hd') as [Hsd [Hdd _]].
      exists (code_factor fb (pos design d) (mkff p d)). split; [apply (code_factors_nth fb _ _ Hd (fds_simple d Hdd Hsd))|reflexivity].
Qed.

(** * the code side *)
Let E := derived_exclusions fds act cr excl.
Let exd := derived_excluded_derived fds excl.
Let ci := dci design crossing fds ics rcc ef E ders exd.
Hypothesis Hders : forall c, In c ders -> exists v dd f, c = FDerivation v dd f.

Lemma Hexd0 : exd = [].
Proof.
  unfold exd, derived_excluded_derived.
  assert (G : forall l, (forall fl, In fl l -> In fl excl) ->
              flat_map (fun fl : nat * nat =>
                          if is_der fds (fst fl) then
                            match nth_error (flevels fds (fst fl)) (snd fl) with
                            | Some lv => map (fun e => dict_of Nat.eqb (combine (fdeps_of fds (fst fl)) (cells_of e))) (lv_accepts lv)
                            | None => []
                            end
                          else []) l = []).
  { induction l as [|fl l IH]; intro H; [reflexivity|]. cbn [flat_map].
    destruct (excl_in fl (H fl (or_introl eq_refl))) as [f [n [_ [-> [Hf [Hs _]]]]]]. cbn [fst snd]. rewrite (is_der_simple f Hf Hs). cbn [app].
    apply IH. intros x Hx. apply H. right. exact Hx. }
  apply G. auto.
Qed.
Let M := list_max (min_trials_of cs).

Lemma st_cons_dci : st_cons ci = FCross :: FConsistency :: flat_map (desugar_constraint fds) ics.
Proof. unfold st_cons, ci, dci. cbn [mk_input ci_design ci_constraints ci_sustains existsb Nat.eqb negb orb app]. rewrite app_nil_r. reflexivity. Qed.

Lemma draw_eq : draw p design crossing fds ics rcc ef E ders exd = Z.of_nat M.
Proof.
  unfold draw. rewrite min_trials_raw_eq. fold ci.
  change (fl_constraints (st_flat ci [dsize p crossing E] [0])) with (st_cons ci). rewrite st_cons_dci. cbn [fold_left min_step].
  rewrite (min_fold_cs p design fds cs ics Hics 0%Z) by lia. fold M. lia.
Qed.

Lemma dT_eq : dT p design crossing fds ics rcc ef E ders exd = Z.of_nat (Nat.max (Nat.max Sz 1) M).
Proof. unfold dT. rewrite draw_eq. unfold E. rewrite dsize_Sz. lia. Qed.

Lemma dw_eq : 0 < Sz -> dw p design crossing fds ics rcc ef E ders exd = Z.of_nat (ceil_div (Nat.max (Nat.max Sz 1) M) Sz).
Proof.
  intro HS. unfold dw. rewrite dT_eq. unfold E. rewrite dsize_Sz. set (T := Nat.max (Nat.max Sz 1) M). unfold ceil_div.
  rewrite Nat2Z.inj_div. rewrite Z.div_1_r. f_equal. lia.
Qed.

Lemma NoDup_cr_gen : NoDup cr.
Proof.
  unfold cr. apply NoDup_map_inj_in; [exact HndC|]. intros f g Hf Hg Efg.
  pose proof (Hpos f Hf) as E1. pose proof (Hpos g Hg) as E2. rewrite Efg in E1. congruence.
Qed.

Section CodeCombos.
Variable fb : flat.
Hypothesis Hd : fl_design fb = fds.
Hypothesis Hex : fl_exclude fb = excl.
Hypothesis Hexd : fl_excluded_derived fb = [].

Lemma code_excluded_gen : forall ls, In ls (IP p crossing) ->
  is_excluded_or_inconsistent fb (combine cr ls) = exI design crossing excl ls.
Proof.
  intros ls Hls. unfold is_excluded_or_inconsistent.
  assert (Hlen : List.length cr = List.length ls) by (unfold cr; rewrite map_length; symmetry; apply (in_IP_length p); exact Hls).
  rewrite (existsb_false (fun pr : nat * nat => match Layout.factor_at fb (fst pr) with
                                                 | Some fd => match ff_window fd with Some w => _ | None => false end
                                                 | None => false end)).
  2:{ intros [c l] Hin. cbn [fst].
      assert (Hc : In c cr) by (apply (in_map fst) in Hin; rewrite map_fst_combine in Hin by exact Hlen; exact Hin).
      unfold cr in Hc. apply in_map_iff in Hc. destruct Hc as [f [<- Hf]].
      rewrite (dfactor_at_pos p design crossing fds Hfdsc fb Hd f Hf). reflexivity. }
  rewrite orb_false_r. unfold is_excluded_combination. rewrite Hexd, Hex. cbn [existsb]. rewrite orb_false_r.
  assert (Hnd : NoDup (map fst (combine cr ls))) by (rewrite map_fst_combine by exact Hlen; apply NoDup_cr_gen).
  unfold exI. fold cr. apply existsb_eq_iff. rewrite !existsb_exists. split.
  - intros [e [He Hl]]. unfold level_is in Hl. destruct (lookup_level (combine cr ls) (fst e)) as [l|] eqn:El; [|discriminate].
    apply Nat.eqb_eq in Hl. apply lookup_level_some in El. exists (fst e, l). split; [exact El|].
    unfold memP. apply existsb_exists. exists e. split; [exact He|]. cbn [fst snd]. rewrite Nat.eqb_refl. cbn. apply Nat.eqb_eq. symmetry. exact Hl.
  - intros [[c l] [Hin Hm]]. unfold memP in Hm. apply existsb_exists in Hm. destruct Hm as [e [He Hm]]. cbn [fst snd] in Hm.
    apply andb_true_iff in Hm. destruct Hm as [H1 H2]. apply Nat.eqb_eq in H1, H2. exists e. split; [exact He|].
    unfold level_is. rewrite H1. rewrite (lookup_level_in _ _ _ Hnd Hin). apply Nat.eqb_eq. symmetry. exact H2.
Qed.

Lemma code_combinations_gen :
  trial_combinations_of fb cr = map (fun ls => combine cr ls) (filter (fun ls => negb (exI design crossing excl ls)) (IP p crossing)).
Proof.
  unfold trial_combinations_of. unfold cr. rewrite (dcrossing_combos_IP p design crossing fds Hfdsc fb Hd).
  rewrite filter_map_comm. rewrite (map_ext _ _ (zipw_pos_combine design crossing)). f_equal.
  apply filter_ext_in. intros ls Hls. rewrite (zipw_pos_combine design crossing ls).
  pose proof (code_excluded_gen ls Hls) as E0. unfold cr in E0. rewrite E0. reflexivity.
Qed.

Lemma code_weight_gen2 : forall (fs ls : list nat) a,
  (forall f, In f fs -> In f crossing) -> Forall2 (fun l f => l < nlv p f) ls fs ->
  fold_left (fun n pr => n * level_weight fb (fst pr) (snd pr)) (combine (map (pos design) fs) ls) a
  = fold_left Nat.mul (map (fun xy => wt p (fst xy) (snd xy)) (combine fs ls)) a.
Proof.
  intros fs ls a Hin H. revert a. induction H as [|l f ls fs Hl _ IH]; intro a; [reflexivity|].
  cbn [map combine fold_left fst snd].
  rewrite (dlevel_weight_pos p design crossing fds Hfdsc fb Hd f l (Hin f (or_introl eq_refl)) Hl).
  apply IH. intros g0 Hg. apply Hin. right. exact Hg.
Qed.

Lemma code_weight_gen3 : forall ls, In ls (IP p crossing) -> combination_weight fb (combine cr ls) = W p crossing ls.
Proof.
  intros ls Hls. unfold combination_weight, W, prod_list, zipw, cr. apply code_weight_gen2; [auto|]. apply in_IP_lt. exact Hls.
Qed.

End CodeCombos.

(** * O6: the tie *)
Theorem derived_sem_eqv : forall fb ds,
  create_flat ci = FOk fb -> doc_sem p = Ok ds -> sem_eqv_t (code_sem fb) (ds_sem ds).
Proof.
  intros fb ds Hfb Hds.
  destruct (create_flat_dci p design crossing fds Hcs1 Hpos Hfdsc Hne ics rcc ef E ders exd fb Hfb) as [HS Efb].
  unfold E in HS. rewrite dsize_Sz in HS.
  (* the documented side *)
  unfold doc_sem, doc_sem_block in Hds. rewrite Hmain in Hds. inv_bind Hds as bd Hbd Hsem.
  destruct (doc_block_gen bd Hbd) as [allc [feas [Ha [Hfe Ebd]]]].
  cbv zeta in Ebd. rewrite (doc_size_gen allc feas Ha Hfe) in Ebd. fold M in Ebd.
  set (T := Nat.max (Nat.max Sz 1) M) in *.
  replace (Sz =? 0) with false in Ebd by (symmetry; apply Nat.eqb_neq; lia).
  set (w := ceil_div T Sz) in *.
  set (x0 := {| x_factors := crossing; x_S := Sz; x_P := 0; x_su := 1; x_cw := 1; x_combos := if rcc then allc else feas;
                x_complete := same_keys feas allc; x_rcc := rcc |}) in *.
  subst bd.
  destruct (sem_of_gen (set_cw x0 w) T ds eq_refl eq_refl eq_refl Hsem)
    as [ET [EF [Hchunk [[mult [EX Hmult]] [ks [Hks EK]]]]]].
  cbn [set_cw x_S x_cw x_combos x_complete x_rcc x0] in Hchunk, EX, Hmult, EK.
  assert (HT : 0 < T) by (unfold T; lia).
  pose proof (feasible_sd feas Hfe) as Hfe'.
  (* the code side *)
  fold ci in Efb.
  set (g := st_geometry ci [0] (dT p design crossing fds ics rcc ef E ders exd)) in *.
  assert (EpT : Z.to_nat (dT p design crossing fds ics rcc ef E ders exd) = T) by (rewrite dT_eq; apply Nat2Z.id).
  assert (Epw : Z.to_nat (dw p design crossing fds ics rcc ef E ders exd) = w) by (rewrite (dw_eq HS); apply Nat2Z.id).
  assert (Esz : dsize p crossing E = Sz) by (unfold E; apply dsize_Sz).
  rewrite EpT, Epw, Esz in Efb. fold cr in Efb.
  assert (Hd : fl_design fb = fds) by (rewrite Efb; reflexivity).
  assert (Hc : fl_crossings fb = [cr]) by (rewrite Efb; reflexivity).
  assert (Hs : fl_sustains fb = [1]) by (rewrite Efb; reflexivity).
  assert (Htr : fl_trials fb = T) by (rewrite Efb; reflexivity).
  assert (Hal : fl_alignment fb = EqualPreamble) by (rewrite Efb; reflexivity).
  assert (Hex : fl_exclude fb = excl).
  { rewrite Efb. cbn [mkflat fl_exclude]. rewrite st_cons_dci. unfold st_exclude at 1. cbn [flat_map app].
    apply st_exclude_desugar_gen. }
  assert (Hexd : fl_excluded_derived fb = []) by (rewrite Efb; cbn [mkflat fl_excluded_derived]; exact Hexd0).
  assert (Hgt : g_trials g = T) by (unfold g, st_geometry; cbn [g_trials]; exact EpT).
  assert (Hgp : g_preamble g = 0).
  { unfold g, st_geometry. cbn [g_preamble]. unfold ci. rewrite (st_crossings_dci p design crossing fds Hcs1 Hpos Hfdsc Hne ics rcc ef E ders exd).
    reflexivity. }
  assert (Hgs : forall kv, In kv (g_sustain g) -> snd kv = 1).
  { intros kv Hin. unfold g, st_geometry in Hin. cbn [g_sustain] in Hin. apply in_map_iff in Hin. destruct Hin as [f [<- _]]. reflexivity. }
  assert (Hsu : forall i, sustain_of fb i = 1) by (intro i; apply (sustain_one design crossing fb Hc Hs)).
  unfold sem_eqv_t. split; [|split; [|split]].
  - unfold code_sem. cbn [s_trials]. rewrite Htr, ET. reflexivity.
  - apply (factors_eqv fb (set_cw x0 w) T _ Hd Hsu EF).
  - (* constraints *)
    unfold code_sem. cbn [s_constraints]. rewrite EK.
    assert (Ecomplete : (negb (same_keys feas allc) && rcc || false) && nonempty design = false).
    { destruct (Bool.bool_dec rcc true) as [Hr|Hr]; [|apply not_true_is_false in Hr; rewrite Hr; rewrite andb_false_r; reflexivity].
      rewrite same_keys_true; [reflexivity|]. intro k.
      destruct (all_combos_keys p sdd crossing sdd_simple Hpos_sd allc Ha) as [_ Hka].
      destruct (feasible_keys p sdd crossing sdd_simple Hpos_sd (NoDup_sd p design HndD) HndC Hlev_sd (excludes_of cs) feas Hexs Hfe') as [_ Hkf].
      rewrite Hka, Hkf. split.
      - intros [ls [H1 [_ H3]]]. exists ls. auto.
      - intros [ls [H1 H3]]. exists ls. split; [exact H1|]. split; [|exact H3].
        pose proof (exI_false_rcc_gen Hr ls H1) as E0. rewrite (ex_agree_gen ls H1) in E0. exact E0. }
    rewrite Ecomplete, app_nil_r.
    rewrite (dcons_agree p design fds HndD (design_fm p design Hkinds) design_str design_ln design_ndn design_nl
                         cs rcc T HT fb Htr Hal g Hgt Hgp Hgs (set_cw x0 w) cs ics ks Hics Hks).
    assert (Hcons : fl_constraints fb = map (init_wb g) (st_cons ci) ++ ders) by (rewrite Efb; reflexivity).
    rewrite Hcons. rewrite flat_map_app.
    assert (Eders : flat_map (code_constraint fb) ders = []).
    { clear -Hders. induction ders as [|c l IH]; [reflexivity|]. cbn [flat_map]. destruct (Hders c (or_introl eq_refl)) as [v [dd [f ->]]]. cbn.
      apply IH. intros c' Hc'. apply Hders. right. exact Hc'. }
    rewrite Eders, app_nil_r. rewrite st_cons_dci. cbn [map flat_map init_wb code_constraint app].
    unfold dcode_of. generalize ics. intro l. induction l as [|ic l IH]; [reflexivity|].
    cbn [flat_map]. rewrite map_app, flat_map_app, IH. reflexivity.
  - (* the crossing *)
    unfold code_sem. cbn [s_crossings]. rewrite Hc, EX. cbn [code_crossings]. constructor; [|constructor].
    unfold crossing_eqv, code_crossing. cbn [c_factors c_first c_chunk c_mult]. split; [reflexivity|]. split; [|split].
    + unfold preamble_size. rewrite Hal. rewrite Efb. reflexivity.
    + unfold crossing_weight. rewrite Hc. cbn [crossing_ind]. rewrite list_nat_eqb_refl. rewrite Efb. cbn [mkflat fl_sizes fl_weights nth]. reflexivity.
    + intro xm. rewrite (code_combinations_gen fb Hd Hex Hexd). rewrite map_map.
      assert (Ecw : crossing_weight fb cr = w).
      { unfold crossing_weight. rewrite Hc. cbn [crossing_ind]. rewrite list_nat_eqb_refl. rewrite Efb. reflexivity. }
      rewrite Ecw. rewrite in_map_iff.
      assert (El : forall ls, In ls (IP p crossing) -> map snd (combine cr ls) = ls).
      { intros ls Hls. pose proof (in_IP_length p crossing ls Hls) as Hlen. unfold cr. clear -Hlen. revert ls Hlen.
        induction crossing as [|f fs IH]; intros [|l ls] Hlen; try discriminate; [reflexivity|]. cbn. f_equal. apply IH. cbn in Hlen. lia. }
      assert (Hcode : (exists ls, (map snd (combine cr ls), combination_weight fb (combine cr ls) * sustain_of fb (hd 0 cr) * w) = xm /\
                                  In ls (filter (fun ls => negb (exI design crossing excl ls)) (IP p crossing)))
                      <-> exists ls, In ls (IP p crossing) /\ negb (exI design crossing excl ls) = true /\ xm = (ls, W p crossing ls * w * 1)).
      { split; intros [ls H].
        - destruct H as [E0 Hin]. apply filter_In in Hin. destruct Hin as [Hls Hp]. exists ls. split; [exact Hls|]. split; [exact Hp|].
          rewrite <- E0. rewrite (code_weight_gen3 fb Hd ls Hls), Hsu, (El ls Hls). f_equal. ring.
        - destruct H as [Hls [Hp ->]]. exists ls. split; [|apply filter_In; split; assumption].
          rewrite (code_weight_gen3 fb Hd ls Hls), Hsu, (El ls Hls). f_equal. ring. }
      rewrite Hcode. clear Hcode.
      destruct (Bool.bool_dec rcc true) as [Hr|Hr].
      * rewrite Hr in Hmult. destruct (all_combos_keys p sdd crossing sdd_simple Hpos_sd allc Ha) as [_ Hka].
        rewrite (doc_mult_char p sdd crossing sdd_simple Hpos_sd Hnames_sd allc (fun _ => true) w mult
                   (fun k v Hin => all_combos_weight p crossing allc k v Ha Hin)
                   (fun combo => conj (fun H => match proj1 (Hka combo) H with ex_intro _ ls (conj H1 H2) => ex_intro _ ls (conj H1 (conj eq_refl H2)) end)
                                      (fun H => match H with ex_intro _ ls (conj H1 (conj _ H2)) => proj2 (Hka combo) (ex_intro _ ls (conj H1 H2)) end))
                   Hmult xm).
        split; intros [ls [H1 [H2 H3]]]; exists ls; (split; [exact H1|split; [|exact H3]]).
        -- reflexivity.
        -- rewrite (exI_false_rcc_gen Hr ls H1). reflexivity.
      * apply not_true_is_false in Hr. rewrite Hr in Hmult.
        destruct (feasible_keys p sdd crossing sdd_simple Hpos_sd (NoDup_sd p design HndD) HndC Hlev_sd (excludes_of cs) feas Hexs Hfe') as [_ Hkf].
        assert (Hkf' : forall combo, In combo (map fst feas) <->
                        exists ls, In ls (IP p crossing) /\ negb (exI design crossing excl ls) = true /\ zipw (nm p) crossing ls = combo).
        { intro combo. rewrite Hkf. split; intros [ls [H1 [H2 H3]]]; exists ls; (split; [exact H1|split; [|exact H3]]).
          - rewrite (ex_agree_gen ls H1), H2. reflexivity.
          - rewrite (ex_agree_gen ls H1) in H2. apply negb_true_iff in H2. exact H2. }
        assert (Hv : forall k v, In (k, v) feas -> combo_weight p crossing k = Ok v).
        { intros k v Hin. eapply feasible_plain_weight; eauto using sdd_simple. intros f Hf'. apply crossing_sdd. exact Hf'. }
        rewrite (doc_mult_char p sdd crossing sdd_simple Hpos_sd Hnames_sd feas (fun ls => negb (exI design crossing excl ls)) w mult Hv Hkf' Hmult xm). reflexivity.
Qed.

End Main.
