(** T2(d), obligation O4 (and the second half of O2): the acceptance tables of a WITHIN-TRIAL derived
    factor over simple factors.  The flat record lists, per level, the accepted combinations of window
    levels in cross-product order ([derived_levels]); [doc_sem] encodes [accepted_tables] (explicit
    levels sorted by repr, the else level = the complement, including tuples with a None cell).
    For well-formed tables ([Hwf]: every tuple of an explicit level is the key of a combination of
    window levels) the two accept the same tuples without a None cell ([table_eqv]), and
    [within_value] is the unique accepting level ([within_value_some]). *)
From Coq Require Import ZArith List Bool Arith Lia String Permutation.
From SP Require Import Design.Flat Design.Sem Design.SemEqvT Design.SemEqvTB Design.SemEqvTBProofs Design.DocSem Design.DocSemProofs
     Design.DocSemPlain Design.ListSums Front.PlainInput Front.PlainT2 Front.PlainT2Doc Front.PlainT2Keys Front.PlainT2Cons Front.PlainT2Main
     Front.DerivedInput Front.DerivedT2Doc.
Import ListNotations.
Local Open Scope nat_scope.
Local Open Scope list_scope.

(** * entries *)
Lemma oname_eqb_sound : forall a b, oname_eqb a b = true -> a = b.
Proof. intros [x|] [y|] E; cbn in E; try discriminate; [|reflexivity]. apply String.eqb_eq in E. congruence. Qed.
Lemma oname_eqb_refl : forall a, oname_eqb a a = true.
Proof. intros [x|]; cbn; [apply String.eqb_refl|reflexivity]. Qed.
Lemma entry_eqb_sound : forall a b, entry_eqb a b = true -> a = b.
Proof. unfold entry_eqb. apply list_eqb_sound. apply list_eqb_sound. exact oname_eqb_sound. Qed.
Lemma entry_eqb_refl : forall a, entry_eqb a a = true.
Proof. unfold entry_eqb. apply list_eqb_refl. apply list_eqb_refl. exact oname_eqb_refl. Qed.

Lemma memb_entry_in : forall x l, memb entry_eqb x l = true <-> In x l.
Proof.
  intros x l. unfold memb. rewrite existsb_exists. split.
  - intros [e [He E]]. apply entry_eqb_sound in E. subst. exact He.
  - intro H. exists x. split; [exact H|apply entry_eqb_refl].
Qed.

Lemma dedupe_in : forall x l, In x (dedupe entry_eqb l) <-> In x l.
Proof.
  intros x l. unfold dedupe.
  assert (G : forall acc, In x (fold_left (fun acc y => if memb entry_eqb y acc then acc else acc ++ [y]) l acc) <-> In x acc \/ In x l).
  { induction l as [|y l IH]; intro acc; cbn [fold_left]; [cbn; tauto|]. rewrite IH. destruct (memb entry_eqb y acc) eqn:M.
    - apply memb_entry_in in M. cbn. split; [tauto|]. intros [H|[->|H]]; tauto.
    - rewrite in_app_iff. cbn. tauto. }
  rewrite G. cbn. tauto.
Qed.

Lemma sort_entries_in : forall x l, In x (sort_entries l) <-> In x l.
Proof. intros x l. unfold sort_entries. split; [apply in_sort_by|apply in_sort_by_conv]. Qed.

Lemma Forall2_map_r : forall {A B C} (R : A -> C -> Prop) (g : B -> C) l m, Forall2 R l (map g m) <-> Forall2 (fun x y => R x (g y)) l m.
Proof.
  intros A B C R g l m. revert l. induction m as [|y m IH]; intro l; cbn.
  - split; intro H; inversion H; constructor.
  - split; intro H; inversion H; subst; constructor; try assumption; apply IH; assumption.
Qed.

Lemma firstn1_skipn : forall {A} (l : list A) i d, i < List.length l -> firstn 1 (skipn i l) = [nth i l d].
Proof.
  intros A l. induction l as [|x l IH]; intros i d Hi; cbn in Hi; [lia|]. destruct i as [|i]; [reflexivity|]. cbn [skipn nth]. apply IH. lia.
Qed.

Lemma regroup_1 : forall flat, regroup 1 (List.length flat) flat = map (fun x => [x]) flat.
Proof.
  intro flat. unfold regroup. destruct flat as [|x0 fl]; [reflexivity|]. set (flat := x0 :: fl).
  rewrite (map_ext_in _ (fun i => [nth i flat x0])).
  - rewrite <- (map_map (fun i => nth i flat x0) (fun x => [x])). rewrite <- (map_nth_seq flat x0). reflexivity.
  - intros i Hi. apply in_seq in Hi. rewrite Nat.mul_1_r. apply firstn1_skipn. lia.
Qed.

Lemma nth_map_lt : forall {A B} (f : A -> B) l i dB dA, i < List.length l -> nth i (map f l) dB = f (nth i l dA).
Proof. intros A B f l i dB dA H. rewrite (nth_indep _ dB (f dA)) by (rewrite map_length; exact H). apply map_nth. Qed.

Section Tables.
Variable p : program.
Variable fd : pfactor.
Variable w : pwindow.
Variable levels : list pdlevel.
Hypothesis Hkind : pf_kind fd = FDerived w levels.
Hypothesis Hty : pw_type w = WWithin.
Hypothesis Hdeps : forall d, In d (pw_deps w) -> simple_id p d.
Hypothesis Hdne : pw_deps w <> [].
Hypothesis Hnames : forall d, In d (pw_deps w) -> NoDup (names_of p d).

(** the key of a combination of window levels, and the valid combinations *)
Definition kflat (ds combo : list nat) : list (option name) := zipw (fun d c => Some (nth c (names_of p d) EmptyString)) ds combo.
Definition Vc (ds combo : list nat) : Prop := Forall2 (fun c d => c < List.length (names_of p d)) combo ds.

Lemma key_of_kflat : forall ds combo, key_of (map (names_of p) ds) combo = map (fun x => [x]) (kflat ds combo).
Proof.
  induction ds as [|d ds IH]; intros [|c combo]; try reflexivity. unfold key_of, kflat, zipw in *. cbn [map combine fst snd]. f_equal. apply IH.
Qed.

Lemma in_dep_product : forall ds combo, In combo (dep_product (map (names_of p) ds)) <-> Vc ds combo.
Proof.
  intros ds combo. unfold dep_product, Vc. rewrite map_map, in_product_iff, Forall2_map_r. split; intro H.
  - eapply Forall2_impl'; [|exact H]. intros c d Hc. cbv beta in *. apply in_seq in Hc. lia.
  - eapply Forall2_impl'; [|exact H]. intros c d Hc. cbv beta in *. apply in_seq. lia.
Qed.

Lemma Vc_length : forall ds combo, Vc ds combo -> List.length combo = List.length ds.
Proof. intros ds combo H. induction H; cbn; congruence. Qed.

Lemma kflat_length : forall ds combo, Vc ds combo -> List.length (kflat ds combo) = List.length ds.
Proof. intros ds combo H. unfold kflat, zipw. rewrite map_length, combine_length, (Vc_length _ _ H). apply Nat.min_id. Qed.

Lemma kflat_in_doms : forall ds combo, Vc ds combo -> Forall2 (fun x d => In x (dom_of p d)) (kflat ds combo) ds.
Proof.
  intros ds combo H. induction H as [|c d combo ds Hc _ IH]; [constructor|]. unfold kflat, zipw in *. cbn [combine map fst snd]. constructor; [|exact IH].
  unfold dom_of. apply in_or_app. left. apply in_map. apply nth_In. exact Hc.
Qed.

(** * the encoding of an entry *)
Definition encE (ds : list nat) (cols : entry) : res (list (list (option nat))) :=
  mapM (fun dc : nat * list (option name) =>
          dd <- fm p (fst dc) ;;
          ns <- level_names dd ;;
          mapM (fun o : option name =>
                  match o with
                  | None => Ok None
                  | Some n => i <- of_option "ValueError: table name" (index_of String.eqb n ns) ;; Ok (Some i)
                  end) (snd dc))
       (combine ds cols).

Lemma enc_table_encE : forall ds tabs, enc_table p ds tabs = mapM (mapM (encE ds)) tabs.
Proof. reflexivity. Qed.

Lemma encE_key : forall ds combo, (forall d, In d ds -> simple_id p d /\ NoDup (names_of p d)) -> Vc ds combo ->
  encE ds (map (fun x => [x]) (kflat ds combo)) = Ok (map (fun c => [Some c]) combo).
Proof.
  intros ds combo Hds H. induction H as [|c d combo ds Hc _ IH]; [reflexivity|].
  unfold encE, kflat, zipw in *. cbn [combine map fst snd mapM].
  destruct (Hds d (or_introl eq_refl)) as [Hs Hnd]. destruct (simple_fm p d Hs) as [-> _]. cbn [bind].
  rewrite (DocSemPlain.simple_names p d Hs). cbn [bind]. rewrite (index_of_nth_nodup _ _ _ Hnd Hc). cbn [of_option bind].
  rewrite IH by (intros x Hx; apply Hds; right; exact Hx). reflexivity.
Qed.

Lemma encE_flat_inv : forall ds flat args, Forall2 (fun x d => In x (dom_of p d)) flat ds ->
  (forall d, In d ds -> simple_id p d /\ NoDup (names_of p d)) ->
  encE ds (map (fun x => [x]) flat) = Ok args -> all_some_args args ->
  exists combo, Vc ds combo /\ flat = kflat ds combo.
Proof.
  intros ds flat args H. revert args. induction H as [|x d flat ds Hx _ IH]; intros args Hds He Hs.
  - exists []. split; [constructor|reflexivity].
  - unfold encE in He. cbn [combine map fst snd mapM] in He.
    destruct (Hds d (or_introl eq_refl)) as [Hsd Hnd]. destruct (simple_fm p d Hsd) as [E _]. rewrite E in He. cbn [bind] in He.
    rewrite (DocSemPlain.simple_names p d Hsd) in He. cbn [bind] in He.
    destruct x as [n|].
    + unfold dom_of in Hx. apply in_app_or in Hx. destruct Hx as [Hx|[Hx|[]]]; [|discriminate].
      apply in_map_iff in Hx. destruct Hx as [n' [E' Hn]]. inversion E'; subst n'.
      destruct (index_of_in _ _ EmptyString Hn) as [i [Ei [Hi Hnth]]]. rewrite Ei in He. cbn [of_option bind] in He.
      fold (encE ds (map (fun x => [x]) flat)) in He. destruct (encE ds (map (fun x => [x]) flat)) as [rest| |] eqn:Er; cbn [bind] in He; try discriminate.
      inversion He; subst args. inversion Hs as [|a l Ha Hl]; subst a l.
      destruct (IH rest (fun x Hx => Hds x (or_intror Hx)) eq_refl Hl) as [combo [Hv Hf]].
      exists (i :: combo). split; [constructor; assumption|]. unfold kflat, zipw in *. cbn [combine map fst snd]. f_equal; [f_equal; symmetry; exact Hnth|exact Hf].
    + cbn [bind] in He. fold (encE ds (map (fun x => [x]) flat)) in He.
      destruct (encE ds (map (fun x => [x]) flat)) as [rest| |]; cbn [bind] in He; try discriminate.
      inversion He; subst args. inversion Hs as [|a l Ha Hl]; subst a l. inversion Ha as [|c cs Hc _]. congruence.
Qed.

Let deps := pw_deps w.
Let dnames := map (names_of p) deps.
Definition keyc (combo : list nat) : entry := key_of dnames combo.

Lemma Hds : forall d, In d deps -> simple_id p d /\ NoDup (names_of p d).
Proof. intros d Hd. split; [apply Hdeps|apply Hnames]; exact Hd. Qed.

Lemma key_in_all : forall combo, Vc deps combo ->
  In (keyc combo) (map (regroup 1 (List.length deps)) (DocSem.product (map (dom_of p) deps))).
Proof.
  intros combo Hv. unfold keyc, dnames. rewrite key_of_kflat. apply in_map_iff. exists (kflat deps combo). split.
  - rewrite <- (kflat_length deps combo Hv). exact (regroup_1 (kflat deps combo)).
  - apply in_product_iff. apply Forall2_map_r. apply kflat_in_doms. exact Hv.
Qed.

Lemma in_union : forall e, In e (union_of levels) <-> exists o, In o levels /\ dl_else o = false /\ In e (dl_table o).
Proof.
  intro e. unfold union_of. rewrite in_flat_map. split.
  - intros [x [Hx He]]. apply in_map_iff in Hx. destruct Hx as [o [<- Ho]]. unfold explicit_of in He.
    destruct (dl_else o) eqn:El; [contradiction|]. apply (proj1 (dedupe_in _ _)) in He. exists o. repeat split; assumption.
  - intros [o [Ho [El He]]]. exists (explicit_of o). split; [apply in_map; exact Ho|]. unfold explicit_of. rewrite El. apply (proj2 (dedupe_in _ _)). exact He.
Qed.

(** membership of a key in the documented table of a level = the predicate of harness/ir.py *)
Lemma tab_mem : forall combo lev, Vc deps combo ->
  In (keyc combo) (tab_of p w levels lev) <-> dl_accepts levels lev (keyc combo) = true.
Proof.
  intros combo lev Hv. unfold tab_of, explicit_of, dl_accepts. destruct (dl_else lev) eqn:El.
  - unfold others_of. rewrite filter_In, !negb_true_iff. fold deps. split.
    + intros [_ Hn]. apply not_true_iff_false in Hn. apply not_true_iff_false. intro Hex. apply Hn. apply memb_entry_in. apply in_union.
      apply existsb_exists in Hex. destruct Hex as [o [Ho Ha]]. apply andb_true_iff in Ha. destruct Ha as [H1 H2]. apply negb_true_iff in H1.
      apply memb_entry_in in H2. exists o. repeat split; assumption.
    + intro Hn. split; [apply key_in_all; exact Hv|]. apply not_true_iff_false in Hn. apply not_true_iff_false. intro Hm. apply Hn.
      apply memb_entry_in in Hm. apply in_union in Hm. destruct Hm as [o [Ho [H1 H2]]]. apply existsb_exists. exists o. split; [exact Ho|].
      rewrite H1. cbn. apply memb_entry_in. exact H2.
  - rewrite sort_entries_in, dedupe_in, memb_entry_in. reflexivity.
Qed.

(** well-formed tables *)
Hypothesis Hwf : forall lev, In lev levels -> dl_else lev = false -> forall e, In e (dl_table lev) -> exists combo, Vc deps combo /\ e = keyc combo.

Lemma tab_shape : forall lev e args, In lev levels -> In e (tab_of p w levels lev) -> encE deps e = Ok args -> all_some_args args ->
  exists combo, Vc deps combo /\ e = keyc combo.
Proof.
  intros lev e args Hl He Henc Hs. unfold tab_of, explicit_of in He. destruct (dl_else lev) eqn:El.
  - unfold others_of in He. apply filter_In in He. destruct He as [He _]. apply in_map_iff in He. destruct He as [flat [<- Hf]]. fold deps in Hf.
    apply in_product_iff in Hf. apply (proj1 (Forall2_map_r _ _ _ _)) in Hf.
    assert (Hlen : List.length flat = List.length deps) by (exact (Forall2_len _ _ _ Hf)).
    fold deps in Henc |- *. rewrite <- Hlen in Henc |- *. rewrite regroup_1 in Henc |- *.
    destruct (encE_flat_inv deps flat args Hf Hds Henc Hs) as [combo [Hv ->]]. exists combo. split; [exact Hv|].
    unfold keyc, dnames. rewrite key_of_kflat. reflexivity.
  - apply (proj1 (sort_entries_in _ _)) in He. apply (proj1 (dedupe_in _ _)) in He. apply (Hwf lev Hl El e He).
Qed.

Lemma encE_keyc : forall combo, Vc deps combo -> encE deps (keyc combo) = Ok (map (fun c => [Some c]) combo).
Proof. intros combo Hv. unfold keyc, dnames. rewrite key_of_kflat. apply encE_key; [exact Hds|exact Hv]. Qed.

(** O4: the two tables accept the same tuples without a None cell *)
Theorem table_eqv : forall enc, enc_table p deps (map (tab_of p w levels) levels) = Ok enc ->
  forall l args, all_some_args args ->
  existsb (args_eqb args) (nth l (map lv_accepts (derived_levels dnames levels)) []) = existsb (args_eqb args) (nth l enc []).
Proof.
  intros enc Henc l args Hs. rewrite enc_table_encE in Henc.
  pose proof (mapM_length _ _ _ Henc) as Hlen. rewrite map_length in Hlen.
  destruct (Nat.lt_ge_cases l (List.length levels)) as [Hl|Hl].
  2:{ rewrite !nth_overflow; [reflexivity| |]; [lia|]. unfold derived_levels. rewrite !map_length. exact Hl. }
  set (d0 := {| dl_name := EmptyString; dl_weight := 0; dl_else := false; dl_table := [] |}).
  set (lev := nth l levels d0).
  assert (Hlev : In lev levels) by (apply nth_In; exact Hl).
  assert (E1 : nth l (map lv_accepts (derived_levels dnames levels)) []
               = map (map (fun x => [Some x])) (filter (fun combo => dl_accepts levels lev (key_of dnames combo)) (dep_product dnames))).
  { unfold derived_levels. rewrite map_map. cbn [lv_accepts]. exact (nth_map_lt (fun x => map (map (fun x0 : nat => [Some x0])) (filter (fun combo => dl_accepts levels x (key_of dnames combo)) (dep_product dnames))) levels l [] d0 Hl). }
  assert (E2 : mapM (encE deps) (tab_of p w levels lev) = Ok (nth l enc [])).
  { pose proof (mapM_nth _ _ _ (tab_of p w levels d0) [] l Henc ltac:(rewrite map_length; exact Hl)) as H.
    rewrite (nth_map_lt _ levels l (tab_of p w levels d0) d0 Hl) in H. exact H. }
  rewrite E1. apply existsb_eq_iff. rewrite !existsb_args_in. split.
  - intro Hin. apply in_map_iff in Hin. destruct Hin as [combo [<- Hc]]. apply filter_In in Hc. destruct Hc as [Hp Ha].
    apply in_dep_product in Hp. fold (keyc combo) in Ha. apply (tab_mem combo lev Hp) in Ha.
    destruct (mapM_in_l _ _ _ _ E2 Ha) as [y [Hy Ey]]. rewrite (encE_keyc combo Hp) in Ey. inversion Ey; subst y. exact Hy.
  - intro Hin. destruct (mapM_in _ _ _ _ E2 Hin) as [e [He Ee]].
    destruct (tab_shape lev e args Hlev He Ee Hs) as [combo [Hv ->]]. rewrite (encE_keyc combo Hv) in Ee. inversion Ee; subst args.
    apply in_map. apply filter_In. split; [apply in_dep_product; exact Hv|]. fold (keyc combo). apply tab_mem; assumption.
Qed.

(** * [within_value]: the unique accepting level *)
Lemma idx_spec : forall d v, simple_id p d -> In v (names_of p d) ->
  idx p d v < List.length (names_of p d) /\ nth (idx p d v) (names_of p d) EmptyString = v.
Proof.
  intros d v Hs Hn. rewrite (names_of_plevels p d Hs) in *. destruct (index_of_in _ _ EmptyString Hn) as [i [E1 [E2 E3]]].
  unfold idx. rewrite E1. split; assumption.
Qed.

Lemma Vc_map : forall (g : nat -> nat) ds, (forall d, In d ds -> g d < List.length (names_of p d)) -> Vc ds (map g ds).
Proof.
  intros g ds H. unfold Vc. induction ds as [|d ds IH]; cbn; constructor; [apply H; left; reflexivity|apply IH; intros x Hx; apply H; right; exact Hx].
Qed.

Hypothesis Huniq : forall combo, Vc deps combo ->
  List.length (filter (fun lev => dl_accepts levels lev (keyc combo)) levels) = 1.

Lemma level_names_fd_derived : level_names fd = Ok (map dl_name levels).
Proof. unfold level_names. rewrite Hkind. reflexivity. Qed.

Lemma combine_map_map : forall {A B C} (g : A -> B) (h : A -> C) l, combine (map g l) (map h l) = map (fun x => (g x, h x)) l.
Proof. intros. induction l as [|x l IH]; [reflexivity|]. cbn. rewrite IH. reflexivity. Qed.

Theorem within_value_some : forall (assign : assignment),
  (forall d, In d deps -> exists v, dict_get Nat.eqb d assign = Some v /\ In v (names_of p d)) ->
  exists l, within_value p (fuel0 p) fd assign = Ok (Some l).
Proof.
  intros assign Ha. unfold fuel0. cbn [within_value]. rewrite (window_params_within p fd w levels Hkind Hty Hdeps). cbn [bind].
  fold deps.
  set (go := fix go (ds : list nat) : res (option (list name)) :=
               match ds with
               | [] => Ok (Some [])
               | d :: r =>
                 dd <- fm p d ;;
                 v <- (if is_derived dd then c <- is_complex p dd ;; if c : bool then Ok None else within_value p (List.length (p_factors p)) dd assign
                       else Ok (dict_get Nat.eqb d assign)) ;;
                 match v with
                 | None => Ok None
                 | Some x => rest <- go r ;; Ok (option_map (cons x) rest)
                 end
               end).
  assert (Hgo : forall ds, (forall d, In d ds -> In d deps) -> go ds = Ok (Some (map (aval assign) ds))).
  { induction ds as [|d ds IH]; intro Hin; [reflexivity|]. cbn [go].
    assert (Hd : In d deps) by (apply Hin; left; reflexivity).
    destruct (simple_fm p d (Hdeps d Hd)) as [-> Hsd]. cbn [bind]. rewrite (simple_not_derived _ Hsd). cbn [bind].
    destruct (Ha d Hd) as [v [Hv _]]. rewrite Hv. fold go. rewrite IH by (intros x Hx; apply Hin; right; exact Hx). cbn [bind option_map map].
    unfold aval. rewrite Hv. reflexivity. }
  rewrite (Hgo deps (fun d Hd => Hd)). cbn [bind].
  rewrite (accepted_tables_within p fd w levels Hkind Hty Hdeps). cbn [bind]. rewrite level_names_fd_derived. cbn [bind].
  set (combo := map (fun d => idx p d (aval assign d)) deps).
  assert (Hv : Vc deps combo).
  { unfold combo. apply Vc_map. intros d Hd. destruct (Ha d Hd) as [v [Hv Hn]]. unfold aval. rewrite Hv.
    apply (idx_spec d v (Hdeps d Hd) Hn). }
  assert (Ek : map (fun v : name => [Some v]) (map (aval assign) deps) = keyc combo).
  { unfold keyc, dnames, combo. rewrite key_of_kflat. rewrite map_map. unfold kflat. rewrite zipw_map_r. rewrite map_map.
    apply map_ext_in. intros d Hd. destruct (Ha d Hd) as [v [Hv' Hn]]. unfold aval. rewrite Hv'. f_equal. f_equal.
    symmetry. apply (idx_spec d v (Hdeps d Hd) Hn). }
  rewrite Ek. rewrite combine_map_map. rewrite filter_map_comm. cbn [snd]. rewrite map_map. cbn [fst].
  rewrite (filter_ext_in _ (fun lev => dl_accepts levels lev (keyc combo))).
  2:{ intros lev _. destruct (dl_accepts levels lev (keyc combo)) eqn:E.
      - apply memb_entry_in. apply (tab_mem combo lev Hv). exact E.
      - apply not_true_iff_false. intro M. apply memb_entry_in in M. apply (tab_mem combo lev Hv) in M. congruence. }
  pose proof (Huniq combo Hv) as Hu. destruct (filter (fun lev => dl_accepts levels lev (keyc combo)) levels) as [|x [|y r]]; try discriminate.
  exists (dl_name x). reflexivity.
Qed.

End Tables.
