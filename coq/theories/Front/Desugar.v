(** Model of the weight desugaring of [sweetpea/_internal/cross_block.py]
    ([_desugar_factors_with_weights]) and [primitive.py] ([SimpleFactor.desugar_weights],
    [SimpleLevel.desugar_weight], [DerivedFactor.desugar_for_weights],
    [DerivedLevel.desugar_for_weights]) and of the crossing-weight arithmetic of
    [weight.py] ([combination_weight]) / [crossing_size_without_exclusions].

    A factor is described by what the desugaring reads and produces: name, whether it
    is derived (and the factors its windows read), and the (name, weight) of its levels.
    Factors are positions in the design list.  No proofs here (Front/DesugarProofs.v). *)
From Coq Require Import List Bool Arith String.
Import ListNotations.

Record wfactor := {
  wf_name : string;
  wf_hidden : bool;                    (* name is a HiddenName *)
  wf_derived : bool;
  wf_deps : list nat;                  (* window.factors of its levels (positions in the design) *)
  wf_levels : list (string * nat)      (* (level name, weight) *)
}.

Definition memn (f : nat) (l : list nat) : bool := existsb (Nat.eqb f) l.

(** the test of [_desugar_factors_with_weights]: non-derived, some weight > 1, and
    in *no* crossing ([all([not f in c for c in crossings])]) *)
Definition is_weighted (crossings : list (list nat)) (i : nat) (f : wfactor) : bool :=
  negb (wf_derived f) && existsb (fun l => 1 <? snd l) (wf_levels f)
  && forallb (fun c => negb (memn i c)) crossings.

(** [SimpleLevel.desugar_weight]: [weight] levels of the same name (weight 1) *)
Definition flat_levels (f : wfactor) : list (string * nat) :=
  flat_map (fun l => repeat (fst l, 1) (snd l)) (wf_levels f).

(** [SimpleFactor.desugar_weights]: the non-derived replacement ... *)
Definition flat_factor (f : wfactor) : wfactor :=
  {| wf_name := wf_name f; wf_hidden := false; wf_derived := false; wf_deps := []; wf_levels := flat_levels f |}.

(** ... and the derived replacement (HiddenName), one level per original level name, reading
    the non-derived replacement (at position [flat_pos] of the new design) with the
    predicate [lambda n: n == name] *)
Definition hidden_factor (f : wfactor) (flat_pos : nat) : wfactor :=
  {| wf_name := wf_name f; wf_hidden := true; wf_derived := true; wf_deps := [flat_pos];
     wf_levels := map (fun l => (fst l, 1)) (wf_levels f) |}.

(** the predicate of the hidden level named [hname], applied to the name of a level of the flat factor *)
Definition hidden_accepts (hname flatname : string) : bool := String.eqb flatname hname.

(** which design positions are rewritten: the weighted factors, then (in design order,
    the replacements accumulating) every derived factor one of whose window factors is
    already replaced *)
Fixpoint rewritten_loop (fs : list (nat * wfactor)) (replaced : list nat) : list nat :=
  match fs with
  | [] => replaced
  | (i, f) :: rest =>
    if wf_derived f && existsb (fun d => memn d replaced) (wf_deps f)
    then rewritten_loop rest (replaced ++ [i]) else rewritten_loop rest replaced
  end.

Definition indexed {A} (l : list A) : list (nat * A) := combine (seq 0 (List.length l)) l.

Definition weighted_positions (design : list wfactor) (crossings : list (list nat)) : list nat :=
  map fst (filter (fun p => is_weighted crossings (fst p) (snd p)) (indexed design)).

Definition replaced_positions (design : list wfactor) (crossings : list (list nat)) : list nat :=
  rewritten_loop (indexed design) (weighted_positions design crossings).

(** position in the new design of (the second replacement of) old position [i]:
    every weighted factor before it adds one entry; a weighted factor itself is
    [hidden; flat], so its flat copy is one further *)
Definition new_pos (design : list wfactor) (crossings : list (list nat)) (i : nat) : nat :=
  let ws := weighted_positions design crossings in
  i + List.length (filter (fun w => w <? i) ws) + (if memn i ws then 1 else 0).
(** ... and of its first replacement (what a rewritten window reads) *)
Definition new_pos_first (design : list wfactor) (crossings : list (list nat)) (i : nat) : nat :=
  let ws := weighted_positions design crossings in
  i + List.length (filter (fun w => w <? i) ws).

(** [DerivedFactor.desugar_for_weights]: same name, levels re-created by
    [DerivedLevel(self.name, Window(...), self.weight)] (the weight is kept since /repo commit
    f3dc07b), reading the first replacements *)
Definition rewrite_derived (design : list wfactor) (crossings : list (list nat)) (f : wfactor) : wfactor :=
  {| wf_name := wf_name f; wf_hidden := wf_hidden f; wf_derived := true;
     wf_deps := map (new_pos_first design crossings) (wf_deps f);
     wf_levels := wf_levels f |}.

Definition shift_deps (design : list wfactor) (crossings : list (list nat)) (f : wfactor) : wfactor :=
  {| wf_name := wf_name f; wf_hidden := wf_hidden f; wf_derived := wf_derived f;
     wf_deps := map (new_pos_first design crossings) (wf_deps f); wf_levels := wf_levels f |}.

(** [_desugar_factors_with_weights]: (new design, new crossings) *)
Definition desugar (design : list wfactor) (crossings : list (list nat)) : list wfactor * list (list nat) :=
  let ws := weighted_positions design crossings in
  match ws with
  | [] => (design, crossings)
  | _ =>
    let rs := replaced_positions design crossings in
    (flat_map (fun p =>
                 let i := fst p in let f := snd p in
                 if memn i ws then [hidden_factor f (S (new_pos_first design crossings i)); flat_factor f]
                 else if memn i rs then [rewrite_derived design crossings f]
                 else [shift_deps design crossings f]) (indexed design),
     map (map (new_pos design crossings)) crossings)
  end.

(** [combination_weight]: product of the level weights; [crossing_size_without_exclusions] *)
Definition combination_weight (ws : list nat) : nat := fold_left Nat.mul ws 1.

Fixpoint combos {A} (ls : list (list A)) : list (list A) :=
  match ls with
  | [] => [[]]
  | l :: rest => flat_map (fun x => map (cons x) (combos rest)) l
  end.

Definition level_weight_sum (f : wfactor) : nat := fold_left (fun a l => a + snd l) (wf_levels f) 0.

Definition crossing_size_wo (design : list wfactor) (c : list nat) : nat :=
  fold_left (fun a i => a * match nth_error design i with Some f => level_weight_sum f | None => 0 end) c 1.

(** all combinations of a crossing (itertools.product order) with their weights *)
Definition crossing_combos (design : list wfactor) (c : list nat) : list (list (string * nat)) :=
  combos (map (fun i => match nth_error design i with Some f => wf_levels f | None => [] end) c).

Definition combo_weights (design : list wfactor) (c : list nat) : list nat :=
  map (fun cb => combination_weight (map snd cb)) (crossing_combos design c).
