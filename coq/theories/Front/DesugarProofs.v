(** Proofs about Front/Desugar.v (the model is not changed here). *)
From Coq Require Import List Bool Arith Lia String.
From SP Require Import Front.Desugar.
Import ListNotations.

(** * Combination weights and crossing sizes *)

Definition sum_list (l : list nat) : nat := fold_left Nat.add l 0.

Lemma fold_mul_acc : forall ws a, fold_left Nat.mul ws a = a * fold_left Nat.mul ws 1.
Proof.
  induction ws as [|w ws IH]; intro a; cbn [fold_left]; [lia|].
  rewrite (IH (a * w)), (IH (1 * w)). lia.
Qed.

Lemma combination_weight_nil : combination_weight [] = 1.
Proof. reflexivity. Qed.

Lemma combination_weight_cons : forall w ws, combination_weight (w :: ws) = w * combination_weight ws.
Proof. intros. unfold combination_weight. cbn [fold_left]. rewrite fold_mul_acc. lia. Qed.

Lemma combination_weight_app : forall a b, combination_weight (a ++ b) = combination_weight a * combination_weight b.
Proof.
  induction a as [|w a IH]; intro b; cbn [app].
  - rewrite combination_weight_nil. lia.
  - rewrite !combination_weight_cons, IH. lia.
Qed.

(** a combination containing a level of weight [w] weighs [w] times what it would with weight 1 there *)
Theorem weight_scales_combination : forall ws1 w ws2,
  combination_weight (ws1 ++ w :: ws2) = w * combination_weight (ws1 ++ 1 :: ws2).
Proof.
  intros. rewrite !combination_weight_app, !combination_weight_cons. lia.
Qed.

Lemma fold_add_acc : forall l a, fold_left Nat.add l a = a + fold_left Nat.add l 0.
Proof.
  induction l as [|x l IH]; intro a; cbn [fold_left]; [lia|].
  rewrite (IH (a + x)), (IH (0 + x)). lia.
Qed.

Lemma sum_list_cons : forall x l, sum_list (x :: l) = x + sum_list l.
Proof. intros. unfold sum_list. cbn [fold_left]. rewrite fold_add_acc. lia. Qed.

Lemma sum_list_app : forall a b, sum_list (a ++ b) = sum_list a + sum_list b.
Proof.
  induction a as [|x a IH]; intro b; cbn [app]; [reflexivity|].
  rewrite !sum_list_cons, IH. lia.
Qed.

Lemma sum_list_map_mul : forall (l : list nat) k, sum_list (map (fun x => k * x) l) = k * sum_list l.
Proof.
  induction l as [|x l IH]; intro k; cbn [map]; [unfold sum_list; cbn; lia|].
  rewrite !sum_list_cons, IH. lia.
Qed.

Lemma level_weight_sum_eq : forall f, level_weight_sum f = sum_list (map snd (wf_levels f)).
Proof.
  intro f. unfold level_weight_sum, sum_list. generalize 0.
  induction (wf_levels f) as [|l ls IH]; intro a; cbn [fold_left map]; [reflexivity | apply IH].
Qed.

(** sum over all combinations of the product of weights = product over the factors of the weight sums *)
Lemma combos_weight_sum : forall (ls : list (list (string * nat))),
  sum_list (map (fun cb => combination_weight (map snd cb)) (combos ls))
  = fold_left (fun a l => a * sum_list (map snd l)) ls 1.
Proof.
  assert (Hacc : forall (ls : list (list (string * nat))) a,
             fold_left (fun a l => a * sum_list (map snd l)) ls a
             = a * fold_left (fun a l => a * sum_list (map snd l)) ls 1).
  { induction ls as [|l ls IH]; intro a; cbn [fold_left]; [lia|]. rewrite (IH (a * _)), (IH (1 * _)). lia. }
  induction ls as [|l ls IH]; [reflexivity|].
  cbn [combos fold_left]. rewrite Hacc, <- IH. clear Hacc IH.
  induction l as [|x l IHl]; [reflexivity|].
  cbn [flat_map map]. rewrite map_app, sum_list_app, IHl. cbn [map]. rewrite sum_list_cons.
  rewrite map_map. cbn [map snd].
  rewrite (map_ext _ (fun cb => snd x * combination_weight (map snd cb)))
    by (intro cb; apply combination_weight_cons).
  rewrite <- (map_map (fun cb => combination_weight (map snd cb)) (fun v => snd x * v)).
  rewrite sum_list_map_mul. lia.
Qed.

(** crossing size (before exclusions) = sum over its combinations of their weights *)
Theorem crossing_size_is_sum : forall design c,
  (forall i, In i c -> nth_error design i <> None) ->
  sum_list (combo_weights design c) = crossing_size_wo design c.
Proof.
  intros design c Hin. unfold combo_weights, crossing_combos. rewrite combos_weight_sum.
  unfold crossing_size_wo. generalize 1.
  induction c as [|i c IH]; intro a; cbn [map fold_left]; [reflexivity|].
  rewrite IH by (intros j Hj; apply Hin; right; assumption).
  f_equal. f_equal. destruct (nth_error design i) as [f|] eqn:E.
  - symmetry. apply level_weight_sum_eq.
  - exfalso. apply (Hin i); [left; reflexivity | assumption].
Qed.

Theorem weight_multiplicity :
  (forall w ws, combination_weight (w :: ws) = w * combination_weight ws) /\
  combination_weight [] = 1 /\
  (forall ws1 w ws2, combination_weight (ws1 ++ w :: ws2) = w * combination_weight (ws1 ++ 1 :: ws2)) /\
  (forall design c, (forall i, In i c -> nth_error design i <> None) ->
     sum_list (combo_weights design c) = crossing_size_wo design c).
Proof.
  split; [exact combination_weight_cons | split; [exact combination_weight_nil |
  split; [exact weight_scales_combination | exact crossing_size_is_sum]]].
Qed.

(** * Desugaring: the hidden derived factor reports exactly the original names *)

Lemma hidden_accepts_iff : forall h n, hidden_accepts h n = true <-> n = h.
Proof. intros. unfold hidden_accepts. apply String.eqb_eq. Qed.

Lemma hidden_names : forall f p, map fst (wf_levels (hidden_factor f p)) = map fst (wf_levels f).
Proof. intros. cbn. rewrite map_map. reflexivity. Qed.

Lemma flat_names_in : forall f n, In n (map fst (flat_levels f)) -> In n (map fst (wf_levels f)).
Proof.
  intros f n. unfold flat_levels. induction (wf_levels f) as [|[m w] ls IH]; cbn [flat_map map]; [auto|].
  rewrite map_app, in_app_iff. intros [H|H].
  - left. cbn [fst snd] in H. apply in_map_iff in H. destruct H as [[m' w'] [H1 H2]]. apply repeat_spec in H2.
    inversion H2; subst. reflexivity.
  - right. apply IH. assumption.
Qed.

Lemma count_repeat_same : forall (n : string) w,
  List.length (filter (fun l : string * nat => hidden_accepts n (fst l)) (repeat (n, 1) w)) = w.
Proof.
  intros n w. induction w as [|w IH]; [reflexivity|].
  cbn [repeat filter fst]. unfold hidden_accepts at 1. rewrite String.eqb_refl. cbn [List.length]. rewrite IH. reflexivity.
Qed.

Lemma count_repeat_other : forall (n m : string) w, m <> n ->
  List.length (filter (fun l : string * nat => hidden_accepts n (fst l)) (repeat (m, 1) w)) = 0.
Proof.
  intros n m w H. induction w as [|w IH]; [reflexivity|].
  cbn [repeat filter fst]. unfold hidden_accepts at 1.
  destruct (String.eqb m n) eqn:E; [apply String.eqb_eq in E; contradiction | exact IH].
Qed.

(** the hidden level named [n] accepts exactly [w] levels of the flat factor, where [w]
    is the weight of the original level [n]: weight w = w copies reported as [n] *)
Theorem desugar_multiplicity : forall f n w,
  NoDup (map fst (wf_levels f)) -> In (n, w) (wf_levels f) ->
  List.length (filter (fun l => hidden_accepts n (fst l)) (flat_levels f)) = w.
Proof.
  intros f n w. unfold flat_levels. induction (wf_levels f) as [|[m v] ls IH]; intros Hnd Hin; [destruct Hin|].
  cbn [flat_map map fst snd] in *. rewrite filter_app, app_length.
  inversion Hnd as [|? ? Hnotin Hnd']; subst.
  destruct Hin as [Heq|Hin].
  - inversion Heq; subst. rewrite count_repeat_same.
    assert (Hz : List.length (filter (fun l : string * nat => hidden_accepts n (fst l))
                                     (flat_map (fun l => repeat (fst l, 1) (snd l)) ls)) = 0).
    { clear IH Hnd Hnd'. induction ls as [|[m' v'] ls IH2]; [reflexivity|].
      cbn [flat_map fst snd]. rewrite filter_app, app_length.
      rewrite count_repeat_other.
      - apply IH2. intro H. apply Hnotin. right. assumption.
      - intro H. apply Hnotin. left. cbn. assumption. }
    rewrite Hz. lia.
  - rewrite count_repeat_other.
    + rewrite IH by assumption. reflexivity.
    + intro H. subst m. apply Hnotin. apply in_map_iff. exists (n, w). split; [reflexivity | assumption].
Qed.

(** every level of the flat factor is accepted by exactly one hidden level, the one carrying its name *)
Theorem desugar_names : forall f p,
  (map fst (wf_levels (hidden_factor f p)) = map fst (wf_levels f)) /\
  (forall l, In l (flat_levels f) ->
     In (fst l) (map fst (wf_levels (hidden_factor f p))) /\
     forall h, In h (map fst (wf_levels (hidden_factor f p))) -> (hidden_accepts h (fst l) = true <-> h = fst l)).
Proof.
  intros f p. split; [apply hidden_names|].
  intros l Hl. split.
  - rewrite hidden_names. apply flat_names_in. apply in_map. assumption.
  - intros h _. rewrite hidden_accepts_iff. split; congruence.
Qed.

(** a design without weighted non-derived factor outside the crossings is left alone *)
Theorem desugar_noop : forall design crossings,
  weighted_positions design crossings = [] -> desugar design crossings = (design, crossings).
Proof. intros design crossings H. unfold desugar. rewrite H. reflexivity. Qed.

(** a factor that is in some crossing is never desugared (the code's test is "in no crossing") *)
Theorem in_a_crossing_not_weighted : forall crossings i f c,
  In c crossings -> In i c -> is_weighted crossings i f = false.
Proof.
  intros crossings i f c Hc Hi. unfold is_weighted.
  assert (H : forallb (fun c0 => negb (memn i c0)) crossings = false).
  { destruct (forallb (fun c0 => negb (memn i c0)) crossings) eqn:E; [|reflexivity].
    rewrite forallb_forall in E. specialize (E c Hc). apply negb_true_iff in E.
    assert (memn i c = true) by (unfold memn; apply existsb_exists; exists i; split; [assumption | apply Nat.eqb_refl]).
    congruence. }
  rewrite H. apply andb_false_r.
Qed.

(** * Where the model (hence the code) departs from the documentation *)
Open Scope string_scope.

Definition ex_A : wfactor := {| wf_name := "A"; wf_hidden := false; wf_derived := false; wf_deps := []; wf_levels := [("a0", 2); ("a1", 1)] |}.
Definition ex_B : wfactor := {| wf_name := "B"; wf_hidden := false; wf_derived := false; wf_deps := []; wf_levels := [("b0", 1); ("b1", 1); ("b2", 1)] |}.
Definition ex_D : wfactor := {| wf_name := "D"; wf_hidden := false; wf_derived := true; wf_deps := [0]; wf_levels := [("p", 2); ("q", 1)] |}.

(** the documentation desugars a weighted non-derived factor that is "not in all crossings";
    the code only one that is in none: A in crossings [[A];[B]] stays weighted *)
Theorem not_in_every_crossing_refuted :
  exists design crossings i f,
    nth_error design i = Some f /\ wf_derived f = false /\ existsb (fun l => (1 <? snd l)%nat) (wf_levels f) = true /\
    (exists c, In c crossings /\ ~ In i c) /\
    desugar design crossings = (design, crossings).
Proof.
  exists [ex_A; ex_B], [[0]; [1]], 0, ex_A. repeat split.
  exists [1]. split; [right; left; reflexivity | intros [H|[]]; discriminate].
Qed.

(** a derived factor that is re-created because it reads a desugared factor keeps its name,
    its levels and their weights (so a crossed derived factor keeps its crossing weights);
    every other factor is kept as it is *)
Theorem desugar_keeps_levels : forall design crossings f,
  wf_name (rewrite_derived design crossings f) = wf_name f /\
  wf_levels (rewrite_derived design crossings f) = wf_levels f /\
  wf_name (shift_deps design crossings f) = wf_name f /\
  wf_levels (shift_deps design crossings f) = wf_levels f.
Proof. intros. repeat split. Qed.

Example ex_derived_weights_kept :
  exists f', nth_error (fst (desugar [ex_A; ex_D] [[1]])) (new_pos [ex_A; ex_D] [[1]] 1) = Some f' /\
             wf_name f' = "D" /\ wf_levels f' = [("p", 2); ("q", 1)] /\ wf_deps f' = [0] /\
             snd (desugar [ex_A; ex_D] [[1]]) = [[2]].
Proof. eexists. repeat split. Qed.

(** the in-no-crossing case works as documented: A = [a0 x 2, a1] outside the crossing [B]
    becomes a hidden derived factor named A with levels a0, a1 over a flat factor a0, a0, a1 *)
Example ex_desugar :
  desugar [ex_A; ex_B] [[1]] =
  ([hidden_factor ex_A 1; flat_factor ex_A; ex_B], [[2]]) /\
  wf_levels (flat_factor ex_A) = [("a0", 1); ("a0", 1); ("a1", 1)] /\
  NoDup (map fst (wf_levels ex_A)).
Proof.
  repeat split. repeat constructor; cbn; intuition discriminate.
Qed.
