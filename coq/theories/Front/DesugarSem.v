(** Weight desugaring in terms of the reference semantics (Design/Sem.v).

    A weighted non-derived factor that is in no crossing is replaced by a factor with one
    level per copy ([weight] copies of every level, Front/Desugar.v [flat_factor]); the
    hidden derived factor reports the original level of every copy.  In normal forms: the
    desugared design is [widen f (list_sum ws) S] - factor [f] with [list_sum ws] levels -
    and the copy-to-original map on sequences is [proj_seq f ws].  Here: a sequence of the
    desugared form is valid iff its image is valid (and its copies are in range), and every
    row of original levels has exactly (product of the chosen levels' weights) pre-images.
    This is what harness/props/c23.py search (b) tests with the twin program. *)
From Coq Require Import List Bool Arith Lia.
From SP Require Import Design.Sem Front.NestSem.
Import ListNotations.

(** * Definitions *)

(** copy index -> original level: level 0 [w0] times, level 1 [w1] times, ... *)
Definition expand_from (a : nat) (ws : list nat) : list nat :=
  flat_map (fun p => repeat (fst p) (snd p)) (combine (seq a (length ws)) ws).
Definition expand (ws : list nat) : list nat := expand_from 0 ws.
Definition orig (ws : list nat) (c : nat) : nat := nth c (expand ws) 0.

Fixpoint set_nth {A} (i : nat) (g : A -> A) (l : list A) : list A :=
  match l, i with
  | [], _ => []
  | x :: r, 0 => g x :: r
  | x :: r, Datatypes.S i' => x :: set_nth i' g r
  end.

(** the same normal form with [N] levels for factor [f] *)
Definition widen (f N : nat) (S : sem) : sem :=
  {| s_trials := s_trials S;
     s_factors := set_nth f (fun fd => {| f_nlevels := N; f_sustain := f_sustain fd; f_derived := f_derived fd |}) (s_factors S);
     s_crossings := s_crossings S; s_constraints := s_constraints S |}.

(** copies replaced by the original levels in row [f] *)
Definition proj_seq (f : nat) (ws : list nat) (s : tseq) : tseq :=
  set_nth f (map (option_map (orig ws))) s.

Definition in_range (N : nat) (row : list cell) : Prop := forall t c, nth t row None = Some c -> c < N.

(** [f] is a free factor of [S]: non-derived, sustain count 1, in no crossing, named by no
    constraint, read by no derived factor (and [S] has no LatinSquare constraint) *)
Definition not_latin (k : ckind) : bool := match k with KLatin _ _ _ _ => false | _ => true end.

Definition free_b (S : sem) (f : nat) : bool :=
  match nth_error (s_factors S) f with
  | Some fd => simple_factor_b fd
  | None => false
  end &&
  forallb (fun c => negb (existsb (Nat.eqb f) (c_factors c))) (s_crossings S) &&
  forallb (fun k => negb (k_factor k =? f) && not_latin (k_kind k)) (s_constraints S) &&
  forallb (fun fd => match f_derived fd with
                     | None => true
                     | Some w => negb (existsb (Nat.eqb f) (w_deps w))
                     end) (s_factors S).

(** * [set_nth] *)

Lemma set_nth_length : forall {A} i (g : A -> A) l, length (set_nth i g l) = length l.
Proof. intros A i g l. revert i. induction l as [|x l IH]; intros [|i]; cbn; auto. Qed.

Lemma set_nth_other : forall {A} i j (g : A -> A) l d, i <> j -> nth j (set_nth i g l) d = nth j l d.
Proof.
  intros A i j g l d. revert i j. induction l as [|x l IH]; intros [|i] [|j] H; cbn; try reflexivity; try lia.
  apply IH. lia.
Qed.

Lemma set_nth_same : forall {A} i (g : A -> A) l d, i < length l -> nth i (set_nth i g l) d = g (nth i l d).
Proof.
  intros A i g l d. revert i. induction l as [|x l IH]; intros [|i] H; cbn in *; try lia; try reflexivity.
  apply IH. lia.
Qed.

Lemma set_nth_error_other : forall {A} i j (g : A -> A) l, i <> j -> nth_error (set_nth i g l) j = nth_error l j.
Proof.
  intros A i j g l. revert i j. induction l as [|x l IH]; intros [|i] [|j] H; cbn; try reflexivity; try lia.
  apply IH. lia.
Qed.

Lemma set_nth_error_same : forall {A} i (g : A -> A) l, nth_error (set_nth i g l) i = option_map g (nth_error l i).
Proof.
  intros A i g l. revert i. induction l as [|x l IH]; intros [|i]; cbn; try reflexivity. apply IH.
Qed.

(** * The copy map *)

Lemma expand_from_cons : forall a w ws, expand_from a (w :: ws) = repeat a w ++ expand_from (Datatypes.S a) ws.
Proof. reflexivity. Qed.

Lemma expand_from_length : forall ws a, length (expand_from a ws) = list_sum ws.
Proof.
  induction ws as [|w ws IH]; intro a; [reflexivity|].
  rewrite expand_from_cons, app_length, repeat_length, IH. reflexivity.
Qed.

Lemma expand_from_bound : forall ws a x, In x (expand_from a ws) -> a <= x < a + length ws.
Proof.
  induction ws as [|w ws IH]; intros a x H; [destruct H|].
  rewrite expand_from_cons in H. apply in_app_or in H. destruct H as [H|H].
  - apply repeat_spec in H. subst. cbn. lia.
  - apply IH in H. cbn. lia.
Qed.

Lemma orig_lt : forall ws c, c < list_sum ws -> orig ws c < length ws.
Proof.
  intros ws c H. unfold orig, expand.
  assert (Hin : In (nth c (expand_from 0 ws) 0) (expand_from 0 ws)) by (apply nth_In; rewrite expand_from_length; exact H).
  apply expand_from_bound in Hin. lia.
Qed.

Lemma count_repeat : forall a l w, length (filter (fun x => x =? l) (repeat a w)) = if a =? l then w else 0.
Proof.
  intros a l w. induction w as [|w IH]; [destruct (a =? l); reflexivity|].
  cbn [repeat filter]. destruct (a =? l) eqn:E; cbn [length]; rewrite IH; reflexivity.
Qed.

Lemma count_expand_from : forall ws a l,
  length (filter (fun x => x =? l) (expand_from a ws)) = if l <? a then 0 else nth (l - a) ws 0.
Proof.
  induction ws as [|w ws IH]; intros a l.
  - cbn [expand_from length seq combine flat_map filter]. destruct (l <? a); [reflexivity | destruct (l - a); reflexivity].
  - rewrite expand_from_cons, filter_app, app_length, count_repeat, IH.
    destruct (Nat.eqb_spec a l) as [E1|E1]; destruct (Nat.ltb_spec l (Datatypes.S a)) as [E2|E2];
      destruct (Nat.ltb_spec l a) as [E3|E3]; try lia.
    + replace (l - a) with 0 by lia. cbn [nth]. lia.
    + replace (l - a) with (Datatypes.S (l - Datatypes.S a)) by lia. cbn. reflexivity.
Qed.

Lemma map_nth_seq_id : forall (L : list nat) d, map (fun c => nth c L d) (seq 0 (length L)) = L.
Proof.
  intros L d. apply (nth_ext _ _ d d).
  - rewrite map_length, seq_length. reflexivity.
  - intros i Hi. rewrite map_length, seq_length in Hi. rewrite (nth_map_seq (fun c => nth c L d)) by exact Hi. reflexivity.
Qed.

(** a level [l] has exactly [weight l] copies *)
Theorem copies_of_level : forall ws l,
  length (filter (fun c => orig ws c =? l) (seq 0 (list_sum ws))) = nth l ws 0.
Proof.
  intros ws l. unfold orig.
  rewrite <- (expand_from_length ws 0) at 1. fold (expand ws).
  rewrite <- (filter_map_length (fun c => nth c (expand ws) 0) (fun x => x =? l)).
  rewrite map_nth_seq_id. unfold expand. rewrite count_expand_from. cbn. rewrite Nat.sub_0_r. reflexivity.
Qed.

(** * Rows: product of the weights *)

Lemma fibre_step : forall {A B} (P : B -> bool) (Q : A -> bool) (F : A -> list B) (k : nat) (L : list A),
  (forall w, length (filter P (F w)) = if Q w then k else 0) ->
  length (filter P (flat_map F L)) = k * length (filter Q L).
Proof.
  intros A B P Q F k L H. induction L as [|w L IH]; [cbn; lia|].
  cbn [flat_map filter]. rewrite filter_app, app_length, IH, H. destruct (Q w); cbn [length]; lia.
Qed.

Definition row_matches (ws : list nat) (r w : list nat) : bool := list_eqb Nat.eqb (map (orig ws) w) r.

Theorem row_fibre : forall ws r,
  length (filter (row_matches ws r) (all_words (list_sum ws) (length r)))
  = fold_right (fun l acc => nth l ws 0 * acc) 1 r.
Proof.
  intros ws r. induction r as [|l r IH]; [reflexivity|].
  cbn [length all_words fold_right].
  rewrite (fibre_step (row_matches ws (l :: r)) (row_matches ws r) _ (nth l ws 0)).
  - rewrite IH. reflexivity.
  - intro w. rewrite filter_map_length. unfold row_matches. cbn [map list_eqb].
    destruct (list_eqb Nat.eqb (map (orig ws) w) r).
    + rewrite <- (copies_of_level ws l). apply filter_ext_in_length. intros c _. rewrite andb_true_r. reflexivity.
    + rewrite (filter_const_length _ _ false); [reflexivity|]. intros c _. apply andb_false_r.
Qed.

(** * Validity does not look at a free factor's row, except for its own well-formedness *)

Lemma set_nth_same_default : forall {A} i (g : A -> A) l d, g d = d -> nth i (set_nth i g l) d = g (nth i l d).
Proof.
  intros A i g l d Hd. revert i. induction l as [|x l IH]; intros [|i]; cbn; try (symmetry; exact Hd); try reflexivity.
  apply IH.
Qed.

Lemma get_cell_proj_other : forall f ws s g t, g <> f -> get_cell (proj_seq f ws s) g t = get_cell s g t.
Proof. intros. unfold get_cell, proj_seq. rewrite set_nth_other by congruence. reflexivity. Qed.

Lemma factor_ok_other : forall S f N ws s g fd,
  g <> f ->
  match f_derived fd with None => True | Some w => ~ In f (w_deps w) end ->
  factor_ok (widen f N S) s g fd = factor_ok S (proj_seq f ws s) g fd.
Proof.
  intros S f N ws s g fd Hg Hdeps. unfold factor_ok. cbn [widen s_trials].
  unfold proj_seq at 1. rewrite set_nth_other by congruence. f_equal.
  apply forallb_ext_in. intros t _. rewrite !get_cell_proj_other by exact Hg.
  destruct (get_cell s g t) as [l|]; [|reflexivity]. f_equal.
  destruct (f_derived fd) as [w|]; [|reflexivity]. f_equal.
  unfold window_args. apply map_ext_in. intros d Hd. apply map_ext. intro j.
  destruct (_ <=? _); [|reflexivity]. rewrite get_cell_proj_other; [reflexivity|]. intro E. subst. contradiction.
Qed.

Lemma chunk_good_ext : forall S1 S2 s1 s2 c a,
  s_trials S1 = s_trials S2 -> (forall t, combo_at s1 (c_factors c) t = combo_at s2 (c_factors c) t) ->
  chunk_good S1 s1 c a = chunk_good S2 s2 c a.
Proof.
  intros S1 S2 s1 s2 c a HT Hc. unfold chunk_good. rewrite HT. f_equal.
  - apply forallb_ext_in. intros cm _. unfold count_combo.
    rewrite (filter_ext_in_length (fun t => combo_eqb (fst cm) (combo_at s1 (c_factors c) t))
                                  (fun t => combo_eqb (fst cm) (combo_at s2 (c_factors c) t)))
      by (intros t _; rewrite Hc; reflexivity).
    reflexivity.
  - apply forallb_ext_in. intros t _.
    rewrite Hc. reflexivity.
Qed.

Lemma chunks_ok_ext : forall S1 S2 s1 s2 c fuel a,
  s_trials S1 = s_trials S2 -> (forall t, combo_at s1 (c_factors c) t = combo_at s2 (c_factors c) t) ->
  chunks_ok fuel S1 s1 c a = chunks_ok fuel S2 s2 c a.
Proof.
  intros S1 S2 s1 s2 c fuel. induction fuel as [|fuel IH]; intros a HT Hc; [reflexivity|].
  rewrite !chunks_ok_step. rewrite HT. rewrite (chunk_good_ext S1 S2 s1 s2 c a HT Hc), (IH _ HT Hc). reflexivity.
Qed.

Lemma crossing_ok_other : forall S f N ws s c,
  ~ In f (c_factors c) -> crossing_ok (widen f N S) s c = crossing_ok S (proj_seq f ws s) c.
Proof.
  intros S f N ws s c Hf. unfold crossing_ok. f_equal. cbn [widen s_trials].
  apply chunks_ok_ext; [reflexivity|]. intro t. unfold combo_at. apply map_ext_in. intros g Hg.
  symmetry. apply get_cell_proj_other. intro E. subst. contradiction.
Qed.

Lemma constraint_ok_other : forall S f N ws s k,
  k_factor k <> f -> not_latin (k_kind k) = true ->
  constraint_ok (widen f N S) s k = constraint_ok S (proj_seq f ws s) k.
Proof.
  intros S f N ws s k Hf Hl. unfold constraint_ok. unfold proj_seq. rewrite set_nth_other by congruence.
  cbn [widen s_trials s_factors]. rewrite set_nth_error_other by congruence.
  destruct (k_kind k); try reflexivity. discriminate.
Qed.

(** the free factor's own row *)
Lemma free_row : forall S f ws s fd,
  f_derived fd = None -> f_sustain fd = 1 -> length ws = f_nlevels fd ->
  (factor_ok (widen f (list_sum ws) S) s f {| f_nlevels := list_sum ws; f_sustain := f_sustain fd; f_derived := f_derived fd |} = true
   <-> factor_ok S (proj_seq f ws s) f fd = true /\ in_range (list_sum ws) (nth f s [])).
Proof.
  intros S f ws s fd Hd Hsu Hws.
  rewrite !factor_ok_simple by (cbn; exact Hd). cbn [f_nlevels f_sustain widen s_trials]. rewrite Hsu.
  assert (Hrow : nth f (proj_seq f ws s) [] = map (option_map (orig ws)) (nth f s [])).
  { unfold proj_seq. apply set_nth_same_default. reflexivity. }
  rewrite Hrow, map_length.
  assert (Hnth : forall t, nth t (map (option_map (orig ws)) (nth f s [])) None = option_map (orig ws) (nth t (nth f s []) None)).
  { intro t. apply (map_nth (option_map (orig ws)) (nth f s []) None t). }
  assert (Htriv : forall (s0 : tseq) t, get_cell s0 f t = get_cell s0 f (t / 1 * 1))
    by (intros; rewrite Nat.div_1_r, Nat.mul_1_r; reflexivity).
  split.
  - intros [Hlen [Hwf _]]. split.
    + split; [exact Hlen|]. split; [|intros; apply Htriv].
      intros t Ht. destruct (Hwf t Ht) as [c [Hc Hlt]]. exists (orig ws c). rewrite Hnth, Hc. split; [reflexivity|].
      rewrite <- Hws. apply orig_lt. exact Hlt.
    + intros t c Hc. destruct (Nat.lt_ge_cases t (s_trials S)) as [Ht|Ht].
      * destruct (Hwf t Ht) as [c' [Hc' Hlt]]. congruence.
      * rewrite nth_overflow in Hc by lia. discriminate.
  - intros [[Hlen [Hwf _]] Hr]. split; [exact Hlen|]. split; [|intros; apply Htriv].
    intros t Ht. destruct (Hwf t Ht) as [l [Hl _]]. rewrite Hnth in Hl.
    destruct (nth t (nth f s []) None) as [c|] eqn:E; [|discriminate].
    exists c. split; [reflexivity|]. apply (Hr t c). exact E.
Qed.

Lemma free_b_spec : forall S f,
  free_b S f = true ->
  (exists fd, nth_error (s_factors S) f = Some fd /\ f_derived fd = None /\ f_sustain fd = 1) /\
  (forall c, In c (s_crossings S) -> ~ In f (c_factors c)) /\
  (forall k, In k (s_constraints S) -> k_factor k <> f /\ not_latin (k_kind k) = true) /\
  (forall fd, In fd (s_factors S) -> match f_derived fd with None => True | Some w => ~ In f (w_deps w) end).
Proof.
  intros S f H. unfold free_b in H. rewrite !andb_true_iff in H. destruct H as [[[H1 H2] H3] H4].
  rewrite forallb_forall in H2, H3, H4.
  assert (Hnotin : forall l, existsb (Nat.eqb f) l = false -> ~ In f l).
  { intros l E Hin. assert (existsb (Nat.eqb f) l = true) by (apply existsb_exists; exists f; split; [exact Hin|apply Nat.eqb_refl]).
    congruence. }
  split; [|split; [|split]].
  - destruct (nth_error (s_factors S) f) as [fd|]; [|discriminate]. exists fd. split; [reflexivity|].
    apply simple_factor_b_spec. exact H1.
  - intros c Hc. apply Hnotin. specialize (H2 c Hc). apply negb_true_iff in H2. exact H2.
  - intros k Hk. specialize (H3 k Hk). rewrite andb_true_iff in H3. destruct H3 as [Ha Hb]. split; [|exact Hb].
    apply negb_true_iff in Ha. apply Nat.eqb_neq in Ha. exact Ha.
  - intros fd Hfd. specialize (H4 fd Hfd). destruct (f_derived fd) as [w|]; [|exact I].
    apply Hnotin. apply negb_true_iff in H4. exact H4.
Qed.

(** * The theorem: valid in the desugared form iff the image is valid and the copies exist *)
Theorem desugared_valid : forall S f ws s fd,
  free_b S f = true -> nth_error (s_factors S) f = Some fd -> length ws = f_nlevels fd ->
  (valid_b (widen f (list_sum ws) S) s = true <->
   valid_b S (proj_seq f ws s) = true /\ in_range (list_sum ws) (nth f s [])).
Proof.
  intros S f ws s fd Hfree Hfd Hws.
  destruct (free_b_spec S f Hfree) as [[fd0 [Hfd0 [Hd Hsu]]] [HX [HK HD]]].
  rewrite Hfd in Hfd0. inversion Hfd0; subst fd0. clear Hfd0.
  rewrite !valid_b_unfold. cbn [widen s_factors s_crossings s_constraints].
  unfold proj_seq at 1. rewrite !set_nth_length.
  set (h := fun fd1 : dfactor => {| f_nlevels := list_sum ws; f_sustain := f_sustain fd1; f_derived := f_derived fd1 |}).
  split.
  - intros [Hl [Hf [Hc Hk]]].
    assert (Hown := Hf f (h fd)). rewrite set_nth_error_same, Hfd in Hown. specialize (Hown eq_refl).
    apply (proj1 (free_row S f ws s fd Hd Hsu Hws)) in Hown. destruct Hown as [Hown Hrange].
    split; [|exact Hrange]. split; [exact Hl|]. split; [|split].
    + intros g fdg Hg. destruct (Nat.eq_dec g f) as [->|Hne].
      * rewrite Hfd in Hg. inversion Hg; subst. exact Hown.
      * rewrite <- (factor_ok_other S f (list_sum ws)) by (try exact Hne; apply HD; eapply nth_error_In; eauto).
        apply Hf. rewrite set_nth_error_other by congruence. exact Hg.
    + intros c Hin. rewrite <- (crossing_ok_other S f (list_sum ws)) by (apply HX; exact Hin). apply Hc. exact Hin.
    + intros k Hin. destruct (HK k Hin) as [Ha Hb].
      rewrite <- (constraint_ok_other S f (list_sum ws)) by assumption. apply Hk. exact Hin.
  - intros [[Hl [Hf [Hc Hk]]] Hrange]. split; [exact Hl|]. split; [|split].
    + intros g fdg Hg. destruct (Nat.eq_dec g f) as [->|Hne].
      * rewrite set_nth_error_same, Hfd in Hg. cbn in Hg. inversion Hg; subst fdg.
        apply (proj2 (free_row S f ws s fd Hd Hsu Hws)). split; [apply Hf; exact Hfd | exact Hrange].
      * rewrite set_nth_error_other in Hg by congruence.
        rewrite (factor_ok_other S f (list_sum ws) ws) by (try exact Hne; apply HD; eapply nth_error_In; eauto).
        apply Hf. exact Hg.
    + intros c Hin. rewrite (crossing_ok_other S f (list_sum ws) ws) by (apply HX; exact Hin). apply Hc. exact Hin.
    + intros k Hin. destruct (HK k Hin) as [Ha Hb].
      rewrite (constraint_ok_other S f (list_sum ws) ws) by assumption. apply Hk. exact Hin.
Qed.

(** * Fibres: which sequences of the desugared form lie over a given valid sequence *)

Lemma all_words_spec : forall nl len w, In w (all_words nl len) -> length w = len /\ forall x, In x w -> x < nl.
Proof.
  intros nl len. induction len as [|len IH]; intros w H.
  - cbn in H. destruct H as [<-|[]]. split; [reflexivity | intros x []].
  - cbn [all_words] in H. apply in_flat_map in H. destruct H as [w0 [Hw0 H]].
    apply in_map_iff in H. destruct H as [l [<- Hl]]. apply in_seq in Hl.
    destruct (IH w0 Hw0) as [H1 H2]. split; [cbn; lia|]. intros x [<-|Hx]; [lia | apply H2; exact Hx].
Qed.

Lemma list_eqb_nat_eq : forall a b : list nat, list_eqb Nat.eqb a b = true <-> a = b.
Proof.
  induction a as [|x a IH]; intros [|y b]; cbn; split; intro H; try discriminate; try reflexivity.
  - apply andb_prop in H. destruct H as [H1 H2]. apply Nat.eqb_eq in H1. apply IH in H2. congruence.
  - inversion H; subst. rewrite Nat.eqb_refl. apply IH. reflexivity.
Qed.

Lemma set_nth_set_nth : forall {A} i (g h : A -> A) l, set_nth i g (set_nth i h l) = set_nth i (fun x => g (h x)) l.
Proof. intros A i g h l. revert i. induction l as [|x l IH]; intros [|i]; cbn; try reflexivity. rewrite IH. reflexivity. Qed.

Lemma set_nth_const_same : forall {A} i (l : list A) d, i < length l -> set_nth i (fun _ => nth i l d) l = l.
Proof.
  intros A i l d. revert i. induction l as [|x l IH]; intros [|i] H; cbn in *; try lia; try reflexivity.
  f_equal. apply IH. lia.
Qed.

Lemma set_nth_ext_at : forall {A} i (g h : A -> A) l, (forall x, g x = h x) -> set_nth i g l = set_nth i h l.
Proof. intros A i g h l H. revert i. induction l as [|x l IH]; intros [|i]; cbn; try reflexivity; [rewrite H|rewrite IH]; reflexivity. Qed.

(** [s] valid in the original form, with row [map Some r] for the free factor [f]; the sequences
    over [s] are those whose row for [f] is a word [w] of copies with [map (orig ws) w = r] *)
Definition with_row (f : nat) (w : list nat) (s : tseq) : tseq := set_nth f (fun _ => map Some w) s.

Theorem desugared_fibre : forall S f ws s fd r w,
  free_b S f = true -> nth_error (s_factors S) f = Some fd -> length ws = f_nlevels fd ->
  valid_b S s = true -> f < length s -> nth f s [] = map Some r ->
  In w (all_words (list_sum ws) (length r)) ->
  (proj_seq f ws (with_row f w s) = s /\ valid_b (widen f (list_sum ws) S) (with_row f w s) = true
   <-> row_matches ws r w = true).
Proof.
  intros S f ws s fd r w Hfree Hfd Hws Hval Hf Hrow Hw.
  destruct (all_words_spec _ _ _ Hw) as [Hlen Hlt].
  assert (Hproj : proj_seq f ws (with_row f w s) = set_nth f (fun _ => map Some (map (orig ws) w)) s).
  { unfold proj_seq, with_row. rewrite set_nth_set_nth. apply set_nth_ext_at. intros _.
    rewrite !map_map. reflexivity. }
  unfold row_matches. rewrite list_eqb_nat_eq. split.
  - intros [Hp _]. rewrite Hproj in Hp.
    assert (E : nth f (set_nth f (fun _ => map Some (map (orig ws) w)) s) [] = nth f s []) by (rewrite Hp; reflexivity).
    rewrite set_nth_same in E by exact Hf. rewrite Hrow in E.
    clear -E. revert r E. induction (map (orig ws) w) as [|x l IH]; intros [|y r] E; cbn in E; try discriminate; [reflexivity|].
    inversion E; subst. f_equal. apply IH. assumption.
  - intro E. assert (Hp : proj_seq f ws (with_row f w s) = s).
    { rewrite Hproj, E, <- Hrow. apply set_nth_const_same. exact Hf. }
    split; [exact Hp|].
    apply (proj2 (desugared_valid S f ws (with_row f w s) fd Hfree Hfd Hws)). split.
    + rewrite Hp. exact Hval.
    + unfold with_row. rewrite set_nth_same by exact Hf. unfold in_range. intros t c Hc. cbn beta in Hc.
      destruct (Nat.lt_ge_cases t (length w)) as [Ht|Ht].
      * pose proof (nth_map_in (@Some nat) w t 0 None Ht) as Hx.
        assert (Hc' : Some c = Some (nth t w 0)) by (rewrite <- Hx; symmetry; exact Hc).
        inversion Hc'; subst. apply Hlt. apply nth_In. exact Ht.
      * rewrite nth_overflow in Hc by (rewrite map_length; lia). discriminate.
Qed.

(** * Example: a factor W = [w0 x 2, w1] outside the crossing [B] *)

Definition ex_orig_sem : sem :=
  {| s_trials := 2;
     s_factors := [{| f_nlevels := 2; f_sustain := 1; f_derived := None |}; {| f_nlevels := 2; f_sustain := 1; f_derived := None |}];
     s_crossings := [{| c_factors := [1]; c_first := 0; c_chunk := 2; c_mult := [([0], 1); ([1], 1)] |}];
     s_constraints := [] |}.

(** 4 rows for W x 2 orders of B = 8 valid sequences; the desugared form (3 copies) has 9 x 2 = 18:
    every sequence with W = w0,w0 has 2 x 2 = 4 pre-images, w0,w1 and w1,w0 have 2, w1,w1 has 1 *)
Lemma ex_free : free_b ex_orig_sem 0 = true /\
  length (all_valid ex_orig_sem) = 8 /\ length (all_valid (widen 0 (list_sum [2; 1]) ex_orig_sem)) = 18 /\
  map (orig [2; 1]) [0; 1; 2] = [0; 0; 1] /\
  length (filter (row_matches [2; 1] [0; 0]) (all_words 3 2)) = 4 /\
  length (filter (row_matches [2; 1] [0; 1]) (all_words 3 2)) = 2 /\
  length (filter (row_matches [2; 1] [1; 1]) (all_words 3 2)) = 1.
Proof. repeat split; vm_compute; reflexivity. Qed.
