(** Proofs about Nest: what [create_nest] (Front/Create.v) hands to [_create], the
    trial count of the result from the sustain arithmetic (Front/Trials.v), and
    what a sustain count means in the reference semantics (Design/Sem.v). *)
From Coq Require Import ZArith List Bool Arith Lia.
From SP Require Import Design.Flat Design.Layout Design.Sem Front.Trials Front.TrialsWf Front.TrialsProofs
  Front.Create Front.CreateProofs.
Import ListNotations.

(** * Structure of the arguments *)

Definition inner_len (i : binfo) : nat := bi_trials i - bi_common_preamble i.

Lemma sustain_all_length : forall n cs oc, sustain_all n cs = Some oc -> length oc = length cs.
Proof.
  intros n cs. induction cs as [|c cs IH]; intros oc H; cbn in H.
  - inversion H. reflexivity.
  - destruct (sustain_within_block n c); [|discriminate]. destruct (sustain_all n cs); [|discriminate].
    inversion H. cbn. f_equal. apply IH. reflexivity.
Qed.

(** every outer constraint is copied; a MinimumTrials is multiplied by the inner length,
    an ExactlyK's k as well; every geometry is scaled *)
Lemma sustain_all_spec : forall n cs oc,
  sustain_all n cs = Some oc ->
  Forall2 (fun c oc' => fst oc' = OOuterCopy /\ sustain_within_block n c = Some (snd oc')) cs oc.
Proof.
  intros n cs. induction cs as [|c cs IH]; intros oc H; cbn in H.
  - inversion H. constructor.
  - destruct (sustain_within_block n c) eqn:E; [|discriminate]. destruct (sustain_all n cs) eqn:E2; [|discriminate].
    inversion H. constructor; [split; [reflexivity | exact E] | apply IH; reflexivity].
Qed.

Lemma sustain_min_trials : forall n c c',
  c_kind c = KMinimumTrials -> sustain_within_block n c = Some c' ->
  c_kind c' = KMinimumTrials /\ c_param c' = (c_param c * Z.of_nat n)%Z.
Proof.
  intros n c c' Hk H. unfold sustain_within_block in H. rewrite Hk in H. inversion H. cbn. split; reflexivity.
Qed.

Theorem nest_args : forall o i cs al a,
  create_of (BNest o i cs al) = COk a ->
  let L := inner_len i in
  ca_design a = add_new (bi_design o) (bi_design i) /\
  ca_crossings a = bi_crossings o ++ bi_crossings i /\
  ca_sustains a = map (fun sc => L * sc) (firstn (length (bi_crossings o)) (bi_sustains o))
                  ++ firstn (length (bi_crossings i)) (bi_sustains i) /\
  ca_weights a = firstn (length (bi_crossings o)) (bi_weights o) ++ firstn (length (bi_crossings i)) (bi_weights i) /\
  ca_mode a = MRepeat /\
  ca_rcc a = bi_rcc o && bi_rcc i /\
  (exists oc, sustain_all L (bi_orig_constraints o) = Some oc /\
              ca_constraints a = oc ++ from_block 1 i ++ own cs) /\
  (forall c f ic, In c (bi_crossings o) -> In f c -> In ic (bi_crossings i) -> ~ In f ic).
Proof.
  intros o i cs al a H L. cbn [create_of] in H. unfold create_nest in H.
  destruct (existsb _ (bi_crossings o)) eqn:Esh; [discriminate|].
  destruct (nest_alignment o i al) as [al'|]; [|discriminate].
  fold (inner_len i) in H. fold L in H.
  destruct (sustain_all L (bi_orig_constraints o)) as [oc|] eqn:Eoc; [|discriminate].
  inversion H; subst a; clear H. cbn.
  repeat split; try reflexivity.
  - exists oc. split; reflexivity.
  - intros c f ic Hc Hf Hic Hin.
    assert (existsb (fun c => existsb (fun f => existsb (mem f) (bi_crossings i)) c) (bi_crossings o) = true).
    { apply existsb_exists. exists c. split; [assumption|].
      apply existsb_exists. exists f. split; [assumption|].
      apply existsb_exists. exists ic. split; [assumption|]. apply mem_true_iff. assumption. }
    congruence.
Qed.

(** the Sustain() constraint is added as soon as the inner block has more than one
    post-preamble trial and the outer block has a crossing (sustain count 1 in the outer block) *)
Lemma nest_adds_sustain : forall o i cs al a so c co,
  create_of (BNest o i cs al) = COk a -> bi_sustains o = 1 :: so -> bi_crossings o = c :: co -> inner_len i <> 1 ->
  adds_sustain a = true.
Proof.
  intros o i cs al a so c co H Hs Hc HL. destruct (nest_args _ _ _ _ _ H) as [_ [_ [Hsu _]]].
  unfold adds_sustain. rewrite Hsu, Hs, Hc. cbn [length firstn map app existsb]. rewrite Nat.mul_1_r.
  destruct (inner_len i =? 1) eqn:E; [apply Nat.eqb_eq in E; contradiction | reflexivity].
Qed.

(** * Trial count: outer trials x inner trials *)

Lemma max_list_app : forall a b, max_list (a ++ b) = Nat.max (max_list a) (max_list b).
Proof.
  induction a as [|x a IH]; intro b; [reflexivity|].
  cbn [app]. rewrite !max_list_cons, IH. lia.
Qed.

Lemma max_list_map_mul_l : forall (l : list nat) k, max_list (map (Nat.mul k) l) = k * max_list l.
Proof.
  induction l as [|x l IH]; intro k; [cbn; lia|].
  cbn [map]. rewrite !max_list_cons, IH. nia.
Qed.

Lemma need_no_preamble : forall fb crs sizes,
  length sizes = length crs -> Forall (fun c => cstart fb c = 0) crs ->
  map (fun cs => crossing_need fb (fst cs) (snd cs)) (combine crs sizes) = sizes.
Proof.
  intros fb crs. induction crs as [|c crs IH]; intros sizes Hlen H0; destruct sizes as [|S sizes]; try discriminate; [reflexivity|].
  inversion H0 as [|c' crs' Hc Hrest]; subst. cbn [combine map fst snd]. f_equal.
  - unfold crossing_need. rewrite Hc. lia.
  - apply IH; [cbn in Hlen; lia | assumption].
Qed.

(** without preamble trials a crossing needs exactly its size *)
Lemma doc_need_own_no_preamble : forall fb,
  length (fl_sizes fb) = length (fl_crossings fb) ->
  Forall (fun c => cstart fb c = 0) (fl_crossings fb) ->
  doc_need_own fb = Nat.max 1 (max_list (fl_sizes fb)).
Proof.
  intros fb Hlen H0. unfold doc_need_own. rewrite need_no_preamble by assumption. reflexivity.
Qed.

(** The trial count of a Nest without preamble trials.  [L] is the inner block's trial
    count ([= max(m_i, max(1, sizes_i))]), [sizes_o] the outer block's crossing sizes (in
    the Nest each is multiplied by [L], the sustain count of its factors), [sizes_i] the
    inner block's; [m_o], [m_i] the blocks' min_trials: the Nest multiplies the outer
    MinimumTrials by [L] and keeps the inner ones, so that its own rounded min_trials
    [m_n] lies between [max(L*m_o, m_i)] and [L * T_o]. *)
Theorem nest_trials : forall fn (L : nat) (sizes_o sizes_i : list nat) (m_o m_i m_n : Z),
  wf_trials fn -> fl_alignment fn <> PostPreamble ->
  fl_sizes fn = map (Nat.mul L) sizes_o ++ sizes_i ->
  Forall (fun c => cstart fn c = 0) (fl_crossings fn) ->
  Z.of_nat L = Z.max m_i (Z.of_nat (Nat.max 1 (max_list sizes_i))) ->
  model_min_trials fn = Some m_n ->
  (Z.max (Z.of_nat L * m_o) m_i <= m_n)%Z ->
  (m_n <= Z.of_nat L * Z.max m_o (Z.of_nat (Nat.max 1 (max_list sizes_o))))%Z ->
  model_trials fn = Some (Z.of_nat L * Z.max m_o (Z.of_nat (Nat.max 1 (max_list sizes_o))))%Z.
Proof.
  intros fn L so si m_o m_i m_n Hwf Hal Hs H0 HL Hm Hlo Hhi.
  rewrite (model_trials_own fn _ Hwf Hal Hm). f_equal.
  destruct Hwf as [Hlen _].
  rewrite doc_need_own_no_preamble by assumption.
  rewrite Hs, max_list_app, max_list_map_mul_l.
  set (a := max_list so) in *. set (b := max_list si) in *.
  assert (Hl1 : (1 <= Z.of_nat L)%Z) by lia.
  rewrite <- Z.mul_max_distr_nonneg_l in * by lia.
  rewrite !Nat2Z.inj_max, Nat2Z.inj_mul in *.
  rewrite <- Z.mul_max_distr_nonneg_l by lia.
  set (l := Z.of_nat L) in *. set (x := (l * m_o)%Z) in *. set (y := (l * Z.of_nat a)%Z) in *.
  cbn [Z.of_nat] in *. replace (l * Z.pos 1)%Z with l in * by lia. lia.
Qed.

(** the same for the outer block alone: [T_o = max(m_o, max(1, sizes_o))] *)
Theorem block_trials_no_preamble : forall fb (m : Z),
  wf_trials fb -> fl_alignment fb <> PostPreamble ->
  Forall (fun c => cstart fb c = 0) (fl_crossings fb) ->
  model_min_trials fb = Some m ->
  model_trials fb = Some (Z.max m (Z.of_nat (Nat.max 1 (max_list (fl_sizes fb))))).
Proof.
  intros fb m Hwf Hal H0 Hm. rewrite (model_trials_own fb _ Hwf Hal Hm). destruct Hwf as [Hlen _].
  rewrite doc_need_own_no_preamble by assumption. reflexivity.
Qed.

(** Nest length = outer trials x inner trials (no preamble trials anywhere). *)
Theorem nest_length : forall fn fo fi (T_o T_i m_o m_i m_n : Z),
  wf_trials fn -> wf_trials fo -> wf_trials fi ->
  fl_alignment fn <> PostPreamble -> fl_alignment fo <> PostPreamble -> fl_alignment fi <> PostPreamble ->
  Forall (fun c => cstart fn c = 0) (fl_crossings fn) ->
  Forall (fun c => cstart fo c = 0) (fl_crossings fo) ->
  Forall (fun c => cstart fi c = 0) (fl_crossings fi) ->
  model_trials fo = Some T_o -> model_min_trials fo = Some m_o ->
  model_trials fi = Some T_i -> model_min_trials fi = Some m_i ->
  fl_sizes fn = map (Nat.mul (Z.to_nat T_i)) (fl_sizes fo) ++ fl_sizes fi ->
  model_min_trials fn = Some m_n ->
  (Z.max (T_i * m_o) m_i <= m_n <= T_i * T_o)%Z ->
  model_trials fn = Some (T_o * T_i)%Z.
Proof.
  intros fn fo fi T_o T_i m_o m_i m_n Hwn Hwo Hwi Han Hao Hai H0n H0o H0i HTo Hmo HTi Hmi Hs Hmn [Hlo Hhi].
  assert (HTo' : Z.max m_o (Z.of_nat (Nat.max 1 (max_list (fl_sizes fo)))) = T_o).
  { pose proof (block_trials_no_preamble fo m_o Hwo Hao H0o Hmo) as E. congruence. }
  assert (HTi' : Z.max m_i (Z.of_nat (Nat.max 1 (max_list (fl_sizes fi)))) = T_i).
  { pose proof (block_trials_no_preamble fi m_i Hwi Hai H0i Hmi) as E. congruence. }
  assert (H1 : (1 <= T_i)%Z) by lia.
  rewrite (nest_trials fn (Z.to_nat T_i) (fl_sizes fo) (fl_sizes fi) m_o m_i m_n); try assumption.
  - f_equal. rewrite Z2Nat.id by lia. rewrite HTo'. lia.
  - rewrite Z2Nat.id by lia. symmetry. exact HTi'.
  - rewrite Z2Nat.id by lia. exact Hlo.
  - rewrite Z2Nat.id by lia. rewrite HTo'. exact Hhi.
Qed.

(** * The MinimumTrials of the Nest: the outer minimum times the inner length *)

Open Scope Z_scope.
Lemma round_to_scale : forall (L su : nat) (m : Z),
  (0 < L)%nat -> (0 < su)%nat ->
  round_to (Some (Z.of_nat L * m)) (L * su) = option_map (Z.mul (Z.of_nat L)) (round_to (Some m) su).
Proof.
  intros L su m HL Hsu. unfold round_to.
  rewrite Nat2Z.inj_mul.
  set (l := Z.of_nat L). set (s := Z.of_nat su).
  assert (Hl : 0 < l) by (unfold l; lia). assert (Hs : 0 < s) by (unfold s; lia).
  destruct (l * s =? 0) eqn:E1; [apply Z.eqb_eq in E1; nia|].
  destruct (s =? 0) eqn:E2; [apply Z.eqb_eq in E2; lia|].
  rewrite Z.div_mul_cancel_l by lia.
  destruct (m / s * s =? m) eqn:E3.
  - apply Z.eqb_eq in E3. replace (m / s * (l * s) =? l * m) with true; [reflexivity|].
    symmetry. apply Z.eqb_eq. nia.
  - apply Z.eqb_neq in E3. replace (m / s * (l * s) =? l * m) with false.
    + cbn [option_map]. f_equal. ring.
    + symmetry. apply Z.eqb_neq. nia.
Qed.

Lemma round_fold_scale : forall (L : nat) (sus : list nat) (m : Z),
  (0 < L)%nat -> Forall (fun su => (0 < su)%nat) sus ->
  fold_left round_to (map (Nat.mul L) sus) (Some (Z.of_nat L * m))
  = option_map (Z.mul (Z.of_nat L)) (fold_left round_to sus (Some m)).
Proof.
  intros L sus. induction sus as [|su sus IH]; intros m HL Hall; [reflexivity|].
  inversion Hall; subst. cbn [map fold_left]. rewrite round_to_scale by assumption.
  destruct (round_to (Some m) su) as [m'|] eqn:E; cbn [option_map].
  - apply IH; assumption.
  - rewrite !round_to_none. reflexivity.
Qed.

Lemma round_to_one : forall m, round_to (Some m) 1 = Some m.
Proof. intro m. unfold round_to. cbn. rewrite Z.div_1_r, Z.mul_1_r, Z.eqb_refl. reflexivity. Qed.

Lemma round_fold_ones : forall (l : list nat) m, Forall (fun su => su = 1%nat) l -> fold_left round_to l (Some m) = Some m.
Proof.
  induction l as [|su l IH]; intros m H; [reflexivity|]. inversion H; subst. cbn [fold_left]. rewrite round_to_one. apply IH. assumption.
Qed.

(** outer sustain counts scaled by [L], inner sustain counts all 1 (the inner block is
    not itself a Nest): rounding commutes with the scaling *)
Theorem nest_min_trials : forall (fn fo : flat) (L : nat) (sus_i : list nat) (m_o : Z),
  (0 < L)%nat -> Forall (fun su => (0 < su)%nat) (fl_sustains fo) -> Forall (fun su => su = 1%nat) sus_i ->
  fl_sustains fn = map (Nat.mul L) (fl_sustains fo) ++ sus_i ->
  min_trials_raw fn = Z.of_nat L * min_trials_raw fo ->
  model_min_trials fo = Some m_o ->
  model_min_trials fn = Some (Z.of_nat L * m_o).
Proof.
  intros fn fo L sus_i m_o HL Hso Hsi Hs Hraw Hmo.
  unfold model_min_trials, round_min_trials in *. rewrite Hs, Hraw, fold_left_app.
  rewrite round_fold_scale by assumption. rewrite Hmo. cbn [option_map]. apply round_fold_ones. assumption.
Qed.
Close Scope Z_scope.

(** * What a sustain count means in the reference semantics (Design/Sem.v, V4) *)

(** a non-derived factor with sustain count [su] that passes [factor_ok] has, at every
    trial, the level it has at the first trial of that trial's group of [su] trials *)
Theorem sem_sustain_constant : forall (S : sem) (s : tseq) (f : nat) (fd : dfactor) (t : nat),
  factor_ok S s f fd = true -> f_derived fd = None -> t < s_trials S ->
  exists l, get_cell s f t = Some l /\ get_cell s f ((t / f_sustain fd) * f_sustain fd) = Some l.
Proof.
  intros S s f fd t H Hd Ht. unfold factor_ok in H. apply andb_prop in H. destruct H as [_ H].
  rewrite forallb_forall in H. specialize (H t). rewrite in_seq in H. specialize (H ltac:(lia)).
  destruct (get_cell s f t) as [l|] eqn:E.
  - exists l. split; [reflexivity|].
    apply andb_prop in H. destruct H as [H _]. apply andb_prop in H. destruct H as [_ H].
    unfold cell_eqb in H. destruct (get_cell s f (t / f_sustain fd * f_sustain fd)) as [x|]; [|discriminate].
    apply Nat.eqb_eq in H. subst. reflexivity.
  - unfold applies in H. rewrite Hd in H. discriminate.
Qed.

(** hence two trials of the same group carry the same level *)
Corollary sem_sustain_group : forall (S : sem) (s : tseq) (f : nat) (fd : dfactor) (t t' : nat),
  factor_ok S s f fd = true -> f_derived fd = None -> t < s_trials S -> t' < s_trials S ->
  t / f_sustain fd = t' / f_sustain fd -> get_cell s f t = get_cell s f t'.
Proof.
  intros S s f fd t t' H Hd Ht Ht' Hg.
  destruct (sem_sustain_constant S s f fd t H Hd Ht) as [l [H1 H2]].
  destruct (sem_sustain_constant S s f fd t' H Hd Ht') as [l' [H1' H2']].
  rewrite Hg in H2. rewrite H2 in H2'. congruence.
Qed.

(** * Examples *)
Require Import SP.Front.TrialsExamples.
Import String.
Open Scope string_scope.

Definition mkflat (design : list ffactor) (crossings : list (list nat)) (sus sizes : list nat) (T : nat)
           (cons : list fconstraint) : flat :=
  {| fl_design := design; fl_act := List.seq 0 (List.length design); fl_crossings := crossings; fl_sustains := sus;
     fl_weights := map (fun _ => 1) crossings; fl_sizes := sizes; fl_preambles := map (fun _ => 0) crossings;
     fl_alignment := EqualPreamble; fl_alignment_preamble := 0; fl_min_trials := 0; fl_trials := T; fl_rcc := true;
     fl_exclude := []; fl_excluded_derived := []; fl_constraints := cons; fl_errors_fail := false |}.

(** outer = CrossBlock([A],[A],[MinimumTrials(3)]) (3 trials), inner = CrossBlock([B],[B],[]) (2 trials),
    Nest(outer, inner): A sustained over 2 trials, MinimumTrials(3*2): 6 trials *)
Definition ex_outer : flat := mkflat [simple2 "A" "a0" "a1"] [[0]] [1] [2] 3 [FCross; FConsistency; FMinimumTrials 3].
Definition ex_inner : flat := mkflat [simple2 "B" "b0" "b1"] [[0]] [1] [2] 2 [FCross; FConsistency].
Definition ex_nested : flat :=
  mkflat [simple2 "A" "a0" "a1"; simple2 "B" "b0" "b1"] [[0]; [1]] [2; 1] [4; 2] 6
         [FCross; FConsistency; FMinimumTrials 6; FSustain].

Lemma ex_wf : wf_trials ex_outer /\ wf_trials ex_inner /\ wf_trials ex_nested.
Proof. repeat split; apply wf_trials_b_sound; reflexivity. Qed.

Lemma ex_no_preamble :
  Forall (fun c => cstart ex_outer c = 0) (fl_crossings ex_outer) /\
  Forall (fun c => cstart ex_inner c = 0) (fl_crossings ex_inner) /\
  Forall (fun c => cstart ex_nested c = 0) (fl_crossings ex_nested).
Proof. repeat split; repeat constructor. Qed.

(** the argument blocks of that Nest as [binfo]s *)
Definition ex_outer_b : binfo :=
  binfo_of_create true (create_cross [0] [0] [{| c_id := 0; c_kind := KMinimumTrials; c_param := 3; c_wb := None |}] true)
                  [{| c_id := 0; c_kind := KMinimumTrials; c_param := 3; c_wb := None |}] 3 0 [2%Z].
Definition ex_inner_b : binfo := binfo_of_create true (create_cross [1] [1] [] true) [] 2 0 [1%Z].

(** an outer block without crossing: CrossBlock([A], [], [MinimumTrials(2)]) keeps the placeholder
    sustain count / weight [1] / [1] with no crossing *)
Definition ex_outer_empty_b : binfo :=
  binfo_of_create true (create_cross [0] [] [{| c_id := 0; c_kind := KMinimumTrials; c_param := 2; c_wb := None |}] true)
                  [{| c_id := 0; c_kind := KMinimumTrials; c_param := 2; c_wb := None |}] 2 0 [1%Z].
