(** The reference-semantics normal form that the arguments of Nest(outer, inner) denote
    (documentation of Nest; harness/docsem.py builds the same form), and the theorem that
    its valid sequences are exactly the group compositions (Properties/C25.v).

    [nest_sem So Si]: the outer block's trials are stretched over [Ti] = inner trial count
    (its crossed factors get sustain count [Ti], its crossing chunks and multiplicities are
    multiplied by [Ti]), the inner crossings are repeated (REPEAT mode: same chunks over the
    longer sequence).  Definitions first, proofs below; nothing in Design/Sem.v is changed. *)
From Coq Require Import List Bool Arith Lia.
From SP Require Import Design.Sem.
Import ListNotations.

(** * Definitions *)

Definition crossed_in (S : sem) (f : nat) : bool :=
  existsb (fun c => existsb (Nat.eqb f) (c_factors c)) (s_crossings S).

Definition scale_factor (L : nat) (crossed : bool) (fd : dfactor) : dfactor :=
  if crossed then {| f_nlevels := f_nlevels fd; f_sustain := f_sustain fd * L; f_derived := f_derived fd |} else fd.

Definition scale_crossing (L : nat) (c : dcrossing) : dcrossing :=
  {| c_factors := c_factors c; c_first := c_first c * L; c_chunk := c_chunk c * L;
     c_mult := map (fun cm => (fst cm, snd cm * L)) (c_mult c) |}.

Definition shift_crossing (k : nat) (c : dcrossing) : dcrossing :=
  {| c_factors := map (Nat.add k) (c_factors c); c_first := c_first c; c_chunk := c_chunk c; c_mult := c_mult c |}.

(** an inner constraint applies within every group: its trial windows are repeated per group *)
Definition repeat_constraint (k To Ti : nat) (c : dconstraint) : dconstraint :=
  {| k_kind := k_kind c; k_factor := k + k_factor c; k_level := k_level c;
     k_windows := flat_map (fun g => map (fun w => (g * Ti + fst w, g * Ti + snd w)) (k_windows c)) (seq 0 To) |}.

Definition nest_sem (So Si : sem) : sem :=
  {| s_trials := s_trials So * s_trials Si;
     s_factors := map (fun p => scale_factor (s_trials Si) (crossed_in So (fst p)) (snd p)) (index_list (s_factors So))
                  ++ s_factors Si;
     s_crossings := map (scale_crossing (s_trials Si)) (s_crossings So)
                    ++ map (shift_crossing (length (s_factors So))) (s_crossings Si);
     s_constraints := map (repeat_constraint (length (s_factors So)) (s_trials So) (s_trials Si)) (s_constraints Si) |}.

(** the guard: non-derived factors of sustain count 1, no outer constraints, inner constraints
    of the run-length / count kinds (AtMostKInARow, AtLeastKInARow, ExactlyKInARow, ExactlyK)
    with windows inside the inner block, no preamble trials (crossings start at trial 0),
    outer crossings over outer factors, inner crossing chunks dividing the inner trial count
    (no partial last chunk inside a group) *)
Definition window_kind_b (k : ckind) : bool :=
  match k with KAtMost _ | KAtLeast _ | KExactlyInARow _ | KExactlyK _ => true | _ => false end.

Definition inner_constraint_b (Si : sem) (c : dconstraint) : bool :=
  window_kind_b (k_kind c) && (k_factor c <? length (s_factors Si)) &&
  forallb (fun w => snd w <=? s_trials Si) (k_windows c).

Definition simple_factor_b (fd : dfactor) : bool :=
  match f_derived fd with None => f_sustain fd =? 1 | Some _ => false end.

Definition nestable_b (So Si : sem) : bool :=
  forallb simple_factor_b (s_factors So) && forallb simple_factor_b (s_factors Si) &&
  match s_constraints So with [] => true | _ => false end && forallb (inner_constraint_b Si) (s_constraints Si) &&
  forallb (fun c => (c_first c =? 0) && (0 <? c_chunk c) &&
                    forallb (fun f => f <? length (s_factors So)) (c_factors c)) (s_crossings So) &&
  forallb (fun c => (c_first c =? 0) && (0 <? c_chunk c) && (s_trials Si mod c_chunk c =? 0)) (s_crossings Si) &&
  (0 <? s_trials Si).

(** group representatives (outer rows sampled at the first trial of each group) and the
    g-th group (inner rows restricted to trials [g*Ti, (g+1)*Ti)) *)
Definition reps (no To Ti : nat) (s : tseq) : tseq :=
  map (fun row => map (fun g => nth (g * Ti) row None) (seq 0 To)) (firstn no s).

Definition grp (no Ti g : nat) (s : tseq) : tseq :=
  map (fun row => map (fun t => nth (g * Ti + t) row None) (seq 0 Ti)) (skipn no s).

Definition wf_cells (nl : nat) (row : list cell) (T : nat) : Prop :=
  forall t, t < T -> exists l, nth t row None = Some l /\ l < nl.

Definition groups_spec (So Si : sem) (s : tseq) : Prop :=
  let To := s_trials So in let Ti := s_trials Si in
  let no := length (s_factors So) in let ni := length (s_factors Si) in
  length s = no + ni /\
  (forall f, f < no + ni -> length (nth f s []) = To * Ti) /\
  (* every outer factor has one of its levels at every trial *)
  (forall f fd, nth_error (s_factors So) f = Some fd -> wf_cells (f_nlevels fd) (nth f s []) (To * Ti)) /\
  (* (a) the outer block's crossed factors are constant within each group *)
  (forall f t, f < no -> crossed_in So f = true -> t < To * Ti -> get_cell s f t = get_cell s f (t / Ti * Ti)) /\
  (* (b) the group representatives satisfy the outer block's crossings *)
  (forall c, In c (s_crossings So) -> crossing_ok So (reps no To Ti s) c = true) /\
  (* (c) each group is a valid sequence of the inner block *)
  (forall g, g < To -> valid_b Si (grp no Ti g s) = true).

(** * List helpers *)

Lemma nth_map_seq : forall {A} (h : nat -> A) n g d, g < n -> nth g (map h (seq 0 n)) d = h g.
Proof.
  intros A h n g d H. rewrite (nth_indep _ d (h 0)) by (rewrite map_length, seq_length; exact H).
  rewrite map_nth. rewrite seq_nth by exact H. reflexivity.
Qed.

Lemma nth_map_in : forall {A B} (F : A -> B) l f dA dB, f < length l -> nth f (map F l) dB = F (nth f l dA).
Proof.
  intros A B F l f dA dB H. rewrite (nth_indep _ dB (F dA)) by (rewrite map_length; exact H). apply map_nth.
Qed.

Lemma nth_firstn_lt : forall {A} k (l : list A) f d, f < k -> nth f (firstn k l) d = nth f l d.
Proof.
  intros A k. induction k as [|k IH]; intros l f d H; [lia|].
  destruct l as [|x l]; [destruct f; reflexivity|]. destruct f as [|f]; [reflexivity|]. cbn. apply IH. lia.
Qed.

Lemma nth_skipn_add : forall {A} k (l : list A) f d, nth f (skipn k l) d = nth (k + f) l d.
Proof.
  intros A k. induction k as [|k IH]; intros l f d; [reflexivity|].
  destruct l as [|x l]; [destruct f; reflexivity|]. cbn. apply IH.
Qed.

Lemma cell_eqb_eq : forall a b, cell_eqb a b = true <-> a = b.
Proof.
  intros [x|] [y|]; cbn; split; intro H; try discriminate; try reflexivity.
  - apply Nat.eqb_eq in H. congruence.
  - inversion H. apply Nat.eqb_refl.
Qed.

(** * Non-derived factors *)

Lemma factor_ok_simple : forall S s f fd,
  f_derived fd = None ->
  (factor_ok S s f fd = true <->
   length (nth f s []) = s_trials S /\ wf_cells (f_nlevels fd) (nth f s []) (s_trials S) /\
   forall t, t < s_trials S -> get_cell s f t = get_cell s f (t / f_sustain fd * f_sustain fd)).
Proof.
  intros S s f fd Hd. unfold factor_ok. rewrite andb_true_iff, Nat.eqb_eq, forallb_forall. split.
  - intros [Hlen H]. split; [exact Hlen|]. split.
    + intros t Ht. specialize (H t). rewrite in_seq in H. specialize (H ltac:(lia)).
      unfold get_cell in H. destruct (nth t (nth f s []) None) as [l|] eqn:E.
      * exists l. split; [reflexivity|]. rewrite !andb_true_iff in H. destruct H as [[[_ H] _] _]. apply Nat.ltb_lt. exact H.
      * unfold applies in H. rewrite Hd in H. discriminate.
    + intros t Ht. specialize (H t). rewrite in_seq in H. specialize (H ltac:(lia)).
      destruct (get_cell s f t) as [l|] eqn:E.
      * rewrite !andb_true_iff in H. destruct H as [[[_ _] H] _]. apply cell_eqb_eq in H. congruence.
      * unfold applies in H. rewrite Hd in H. discriminate.
  - intros [Hlen [Hwf Hc]]. split; [exact Hlen|]. intros t Ht. rewrite in_seq in Ht.
    destruct (Hwf t ltac:(lia)) as [l [Hl Hlt]]. unfold get_cell at 1. rewrite Hl.
    rewrite Hd. unfold applies. rewrite Hd. cbn [andb].
    rewrite !andb_true_iff. repeat split.
    + apply Nat.ltb_lt. exact Hlt.
    + apply cell_eqb_eq. rewrite <- Hc by lia. unfold get_cell. exact Hl.
Qed.

(** * Crossing chunks without fuel *)

Definition chunk_good (S : sem) (s : tseq) (c : dcrossing) (a : nat) : bool :=
  let b := a + c_chunk c in
  let full := b <=? s_trials S in
  let b' := Nat.min b (s_trials S) in
  forallb (fun cm =>
             let n := count_combo s (c_factors c) (fst cm) a b' in
             if full then n =? snd cm else n <=? snd cm) (c_mult c) &&
  forallb (fun t => existsb (fun cm => combo_eqb (fst cm) (combo_at s (c_factors c) t)) (c_mult c))
          (seq a (b' - a)).

Lemma chunks_ok_step : forall fuel S s c a,
  chunks_ok (Datatypes.S fuel) S s c a =
  if s_trials S <=? a then true else chunk_good S s c a && chunks_ok fuel S s c (a + c_chunk c).
Proof. reflexivity. Qed.

Lemma chunks_ok_spec : forall S s c fuel a,
  0 < c_chunk c -> s_trials S < a + fuel ->
  (chunks_ok fuel S s c a = true <->
   forall j, a + j * c_chunk c < s_trials S -> chunk_good S s c (a + j * c_chunk c) = true).
Proof.
  intros S s c fuel. induction fuel as [|fuel IH]; intros a Hch Hf.
  - cbn [chunks_ok]. split; [|reflexivity]. intros _ j Hj. lia.
  - rewrite chunks_ok_step. destruct (s_trials S <=? a) eqn:E.
    + apply Nat.leb_le in E. split; [|reflexivity]. intros _ j Hj. lia.
    + apply Nat.leb_gt in E. rewrite andb_true_iff. rewrite IH by lia. split.
      * intros [H0 H] j Hj. destruct j as [|j]; [rewrite Nat.add_0_r; exact H0|].
        replace (a + Datatypes.S j * c_chunk c) with (a + c_chunk c + j * c_chunk c) by lia. apply H. lia.
      * intro H. split.
        -- specialize (H 0). rewrite Nat.add_0_r in H. apply H. lia.
        -- intros j Hj. replace (a + c_chunk c + j * c_chunk c) with (a + Datatypes.S j * c_chunk c) by lia. apply H. lia.
Qed.

Lemma crossing_ok_spec : forall S s c,
  c_first c = 0 ->
  (crossing_ok S s c = true <->
   0 < c_chunk c /\ forall j, j * c_chunk c < s_trials S -> chunk_good S s c (j * c_chunk c) = true).
Proof.
  intros S s c H0. unfold crossing_ok. rewrite andb_true_iff, Nat.ltb_lt, H0. split.
  - intros [Hc H]. split; [exact Hc|]. rewrite chunks_ok_spec in H by lia. exact H.
  - intros [Hc H]. split; [exact Hc|]. rewrite chunks_ok_spec by lia. exact H.
Qed.

(** * Counting over stretched and shifted trial ranges *)

Lemma filter_const_length : forall {A} (P : A -> bool) (l : list A) (b : bool),
  (forall x, In x l -> P x = b) -> length (filter P l) = if b then length l else 0.
Proof.
  intros A P l b. induction l as [|x l IH]; intro H; [destruct b; reflexivity|].
  cbn [filter]. rewrite (H x (or_introl eq_refl)).
  assert (IH' := IH (fun y Hy => H y (or_intror Hy))).
  destruct b; cbn [length]; rewrite IH'; reflexivity.
Qed.

Lemma div_block : forall L a t, 0 < L -> a * L <= t < a * L + L -> t / L = a.
Proof.
  intros L a t HL [H1 H2]. symmetry. apply (Nat.div_unique t L a (t - a * L)); lia.
Qed.

Lemma count_scale : forall (L : nat) (P Q : nat -> bool) n a,
  0 < L -> (forall t, a * L <= t < (a + n) * L -> P t = Q (t / L)) ->
  length (filter P (seq (a * L) (n * L))) = L * length (filter Q (seq a n)).
Proof.
  intros L P Q n. induction n as [|n IH]; intros a HL H; [cbn; lia|].
  replace (Datatypes.S n * L) with (L + n * L) by lia. rewrite seq_app, filter_app, app_length.
  replace (a * L + L) with (Datatypes.S a * L) by lia. rewrite IH; [|exact HL|intros t Ht; apply H; lia].
  rewrite (filter_const_length P (seq (a * L) L) (Q a)).
  - rewrite seq_length. cbn [seq filter]. destruct (Q a); cbn [length]; lia.
  - intros t Ht. rewrite in_seq in Ht. rewrite H by lia. f_equal. apply div_block; lia.
Qed.

Lemma forallb_scale : forall (L : nat) (P Q : nat -> bool) n a,
  0 < L -> (forall t, a * L <= t < (a + n) * L -> P t = Q (t / L)) ->
  forallb P (seq (a * L) (n * L)) = forallb Q (seq a n).
Proof.
  intros L P Q n. induction n as [|n IH]; intros a HL H; [reflexivity|].
  replace (Datatypes.S n * L) with (L + n * L) by lia. rewrite seq_app, forallb_app.
  replace (a * L + L) with (Datatypes.S a * L) by lia. rewrite IH; [|exact HL|intros t Ht; apply H; lia].
  cbn [seq forallb]. f_equal.
  destruct (Q a) eqn:E.
  - apply forallb_forall. intros t Ht. rewrite in_seq in Ht. rewrite H by lia.
    rewrite (div_block L a t) by lia. exact E.
  - destruct L as [|L]; [lia|]. cbn [seq forallb]. rewrite H by lia. rewrite (div_block (Datatypes.S L) a) by lia.
    rewrite E. reflexivity.
Qed.

Lemma seq_shift_add : forall k n a, seq (k + a) n = map (Nat.add k) (seq a n).
Proof.
  intros k n. induction n as [|n IH]; intro a; [reflexivity|].
  cbn [seq map]. f_equal. rewrite <- IH. f_equal. lia.
Qed.

Lemma filter_map_length : forall {A B} (h : A -> B) (P : B -> bool) l,
  length (filter P (map h l)) = length (filter (fun x => P (h x)) l).
Proof.
  intros A B h P l. induction l as [|x l IH]; [reflexivity|].
  cbn [map filter]. destruct (P (h x)); cbn [length]; rewrite IH; reflexivity.
Qed.

Lemma filter_ext_in_length : forall {A} (P Q : A -> bool) l,
  (forall x, In x l -> P x = Q x) -> length (filter P l) = length (filter Q l).
Proof.
  intros A P Q l H. rewrite (filter_ext_in P Q l H). reflexivity.
Qed.

Lemma forallb_ext_in : forall {A} (P Q : A -> bool) l,
  (forall x, In x l -> P x = Q x) -> forallb P l = forallb Q l.
Proof.
  intros A P Q l. induction l as [|x l IH]; intro H; [reflexivity|].
  cbn [forallb]. rewrite (H x (or_introl eq_refl)), IH by (intros y Hy; apply H; right; exact Hy). reflexivity.
Qed.

Lemma forallb_map' : forall {A B} (h : A -> B) (P : B -> bool) l, forallb P (map h l) = forallb (fun x => P (h x)) l.
Proof. intros. induction l as [|x l IH]; [reflexivity|]. cbn. rewrite IH. reflexivity. Qed.

Lemma existsb_map' : forall {A B} (h : A -> B) (P : B -> bool) l, existsb P (map h l) = existsb (fun x => P (h x)) l.
Proof. intros. induction l as [|x l IH]; [reflexivity|]. cbn. rewrite IH. reflexivity. Qed.

(** * The outer crossing, stretched *)

Lemma chunk_good_scaled : forall (S1 S2 : sem) (s r : tseq) (c : dcrossing) (To Ti a : nat),
  s_trials S1 = To * Ti -> s_trials S2 = To -> 0 < Ti ->
  (forall t, t < To * Ti -> combo_at s (c_factors c) t = combo_at r (c_factors c) (t / Ti)) ->
  chunk_good S1 s (scale_crossing Ti c) (a * Ti) = chunk_good S2 r c a.
Proof.
  intros S1 S2 s r c To Ti a H1 H2 HTi Hc. unfold chunk_good. rewrite H1, H2.
  cbn [scale_crossing c_chunk c_mult c_factors].
  replace (a * Ti + c_chunk c * Ti) with ((a + c_chunk c) * Ti) by lia.
  assert (Hfull : ((a + c_chunk c) * Ti <=? To * Ti) = (a + c_chunk c <=? To)).
  { destruct (a + c_chunk c <=? To) eqn:E.
    - apply Nat.leb_le in E. apply Nat.leb_le. nia.
    - apply Nat.leb_gt in E. apply Nat.leb_gt. nia. }
  rewrite Hfull.
  assert (Hmin : Nat.min ((a + c_chunk c) * Ti) (To * Ti) = Nat.min (a + c_chunk c) To * Ti) by nia.
  rewrite Hmin. set (b' := Nat.min (a + c_chunk c) To).
  assert (Hb' : b' <= To) by (unfold b'; lia).
  replace (b' * Ti - a * Ti) with ((b' - a) * Ti) by nia.
  f_equal.
  - rewrite forallb_map'. apply forallb_ext_in. intros cm _. cbn [fst snd].
    assert (Hcnt : count_combo s (c_factors c) (fst cm) (a * Ti) (b' * Ti)
                   = Ti * count_combo r (c_factors c) (fst cm) a b').
    { unfold count_combo. replace (b' * Ti - a * Ti) with ((b' - a) * Ti) by nia.
      apply count_scale; [exact HTi|]. intros t Ht. rewrite Hc by nia. reflexivity. }
    rewrite Hcnt. set (n := count_combo r (c_factors c) (fst cm) a b').
    destruct (a + c_chunk c <=? To).
    + destruct (n =? snd cm) eqn:E.
      * apply Nat.eqb_eq in E. apply Nat.eqb_eq. nia.
      * apply Nat.eqb_neq in E. apply Nat.eqb_neq. nia.
    + destruct (n <=? snd cm) eqn:E.
      * apply Nat.leb_le in E. apply Nat.leb_le. nia.
      * apply Nat.leb_gt in E. apply Nat.leb_gt. nia.
  - apply forallb_scale; [exact HTi|]. intros t Ht. rewrite existsb_map'. cbn [fst]. rewrite Hc by nia. reflexivity.
Qed.

Lemma crossing_ok_scaled : forall (S1 S2 : sem) (s r : tseq) (c : dcrossing) (To Ti : nat),
  s_trials S1 = To * Ti -> s_trials S2 = To -> 0 < Ti -> c_first c = 0 ->
  (forall t, t < To * Ti -> combo_at s (c_factors c) t = combo_at r (c_factors c) (t / Ti)) ->
  (crossing_ok S1 s (scale_crossing Ti c) = true <-> crossing_ok S2 r c = true).
Proof.
  intros S1 S2 s r c To Ti H1 H2 HTi H0 Hc.
  rewrite (crossing_ok_spec S1) by (cbn; rewrite H0; reflexivity). rewrite (crossing_ok_spec S2) by exact H0.
  cbn [scale_crossing c_chunk]. rewrite H1, H2. split.
  - intros [Hch H]. split; [nia|]. intros j Hj.
    rewrite <- (chunk_good_scaled S1 S2 s r c To Ti (j * c_chunk c) H1 H2 HTi Hc).
    replace (j * c_chunk c * Ti) with (j * (c_chunk c * Ti)) by lia. apply H. nia.
  - intros [Hch H]. split; [nia|]. intros j Hj.
    replace (j * (c_chunk c * Ti)) with (j * c_chunk c * Ti) by lia.
    rewrite (chunk_good_scaled S1 S2 s r c To Ti (j * c_chunk c) H1 H2 HTi Hc). apply H. nia.
Qed.

(** * The inner crossing, repeated *)

Lemma chunk_good_shifted : forall (S1 S2 : sem) (s r : tseq) (c : dcrossing) (k To Ti g a : nat),
  s_trials S1 = To * Ti -> s_trials S2 = Ti -> g < To -> a + c_chunk c <= Ti ->
  (forall t, t < Ti -> combo_at s (map (Nat.add k) (c_factors c)) (g * Ti + t) = combo_at r (c_factors c) t) ->
  chunk_good S1 s (shift_crossing k c) (g * Ti + a) = chunk_good S2 r c a.
Proof.
  intros S1 S2 s r c k To Ti g a H1 H2 Hg Ha Hc. unfold chunk_good. rewrite H1, H2.
  cbn [shift_crossing c_chunk c_mult c_factors].
  assert (Hle : g * Ti + a + c_chunk c <= To * Ti) by nia.
  assert (F1 : (g * Ti + a + c_chunk c <=? To * Ti) = true) by (apply Nat.leb_le; exact Hle).
  assert (F2 : (a + c_chunk c <=? Ti) = true) by (apply Nat.leb_le; exact Ha).
  rewrite F1, F2. rewrite !Nat.min_l by lia.
  replace (g * Ti + a + c_chunk c - (g * Ti + a)) with (c_chunk c) by lia.
  replace (a + c_chunk c - a) with (c_chunk c) by lia.
  f_equal.
  - apply forallb_ext_in. intros cm _. f_equal. unfold count_combo.
    replace (g * Ti + a + c_chunk c - (g * Ti + a)) with (c_chunk c) by lia.
    replace (a + c_chunk c - a) with (c_chunk c) by lia.
    rewrite seq_shift_add, filter_map_length. apply filter_ext_in_length.
    intros t Ht. rewrite in_seq in Ht. rewrite Hc by lia. reflexivity.
  - rewrite seq_shift_add, forallb_map'. apply forallb_ext_in.
    intros t Ht. rewrite in_seq in Ht. rewrite Hc by lia. reflexivity.
Qed.

Lemma crossing_ok_repeated : forall (S1 S2 : sem) (s : tseq) (r : nat -> tseq) (c : dcrossing) (k To Ti : nat),
  s_trials S1 = To * Ti -> s_trials S2 = Ti -> c_first c = 0 -> 0 < c_chunk c -> Ti mod c_chunk c = 0 -> 0 < To ->
  (forall g t, g < To -> t < Ti ->
     combo_at s (map (Nat.add k) (c_factors c)) (g * Ti + t) = combo_at (r g) (c_factors c) t) ->
  (crossing_ok S1 s (shift_crossing k c) = true <-> forall g, g < To -> crossing_ok S2 (r g) c = true).
Proof.
  intros S1 S2 s r c k To Ti H1 H2 H0 Hch Hmod HTo Hc.
  assert (Hq : Ti = c_chunk c * (Ti / c_chunk c)).
  { pose proof (Nat.div_mod Ti (c_chunk c) ltac:(lia)) as E. rewrite Hmod in E. lia. }
  set (ch := c_chunk c) in *. set (q := Ti / ch) in *.
  rewrite (crossing_ok_spec S1) by exact H0. cbn [shift_crossing c_chunk]. fold ch. rewrite H1.
  split.
  - intros [_ H] g Hg. rewrite (crossing_ok_spec S2) by exact H0. fold ch. rewrite H2. split; [exact Hch|].
    intros j Hj.
    rewrite <- (chunk_good_shifted S1 S2 s (r g) c k To Ti g (j * ch) H1 H2 Hg).
    + replace (g * Ti + j * ch) with ((g * q + j) * ch) by nia. apply H. nia.
    + fold ch. assert (j < q) by nia. nia.
    + intros t Ht. apply Hc; assumption.
  - intro H. split; [exact Hch|]. intros J HJ.
    assert (Hq0 : 0 < q) by nia.
    assert (HJ' : J < To * q) by nia.
    pose proof (Nat.div_mod J q ltac:(lia)) as EJ.
    pose proof (Nat.mod_upper_bound J q ltac:(lia)) as Hm.
    set (g := J / q) in *. set (j := J mod q) in *.
    assert (Hg : g < To). { apply Nat.div_lt_upper_bound; lia. }
    specialize (H g Hg). rewrite (crossing_ok_spec S2) in H by exact H0. fold ch in H. rewrite H2 in H.
    destruct H as [_ H]. specialize (H j ltac:(nia)).
    replace (J * ch) with (g * Ti + j * ch) by nia.
    rewrite (chunk_good_shifted S1 S2 s (r g) c k To Ti g (j * ch) H1 H2 Hg).
    + exact H.
    + fold ch. nia.
    + intros t Ht. apply Hc; assumption.
Qed.

(** * Representatives and groups, cell by cell *)

Lemma get_cell_reps : forall no To Ti s f g,
  f < no -> no <= length s -> g < To -> get_cell (reps no To Ti s) f g = get_cell s f (g * Ti).
Proof.
  intros no To Ti s f g Hf Hs Hg. unfold get_cell, reps.
  rewrite (nth_map_in _ _ f [] []) by (rewrite firstn_length; lia).
  rewrite nth_firstn_lt by exact Hf. rewrite nth_map_seq by exact Hg. reflexivity.
Qed.

Lemma get_cell_grp : forall no ni Ti g s f t,
  length s = no + ni -> t < Ti -> get_cell (grp no Ti g s) f t = get_cell s (no + f) (g * Ti + t).
Proof.
  intros no ni Ti g s f t Hs Ht. unfold get_cell, grp.
  destruct (Nat.lt_ge_cases f ni) as [Hf|Hf].
  - rewrite (nth_map_in _ _ f [] []) by (rewrite skipn_length; lia).
    rewrite nth_skipn_add. rewrite nth_map_seq by exact Ht. reflexivity.
  - rewrite (nth_overflow _ []) by (rewrite map_length, skipn_length; lia).
    rewrite (nth_overflow s []) by lia. destruct t; destruct (g * Ti + _); reflexivity.
Qed.

Lemma combo_at_grp : forall no ni Ti g s fs t,
  length s = no + ni -> t < Ti ->
  combo_at s (map (Nat.add no) fs) (g * Ti + t) = combo_at (grp no Ti g s) fs t.
Proof.
  intros no ni Ti g s fs t Hs Ht. unfold combo_at. rewrite map_map. apply map_ext.
  intro f. symmetry. apply (get_cell_grp no ni); assumption.
Qed.

(** * Indexed factor lists *)

Lemma forallb_indexed : forall {A} (P : nat -> A -> bool) (l : list A) a,
  forallb (fun p => P (fst p) (snd p)) (combine (seq a (length l)) l) = true <->
  forall f x, nth_error l f = Some x -> P (a + f) x = true.
Proof.
  intros A P l. induction l as [|y l IH]; intro a.
  - split; [intros _ f x H; destruct f; discriminate | reflexivity].
  - cbn [length seq combine forallb fst snd]. rewrite andb_true_iff, IH. split.
    + intros [H0 H] f x Hf. destruct f as [|f].
      * cbn in Hf. inversion Hf; subst. rewrite Nat.add_0_r. exact H0.
      * cbn in Hf. replace (a + Datatypes.S f) with (Datatypes.S a + f) by lia. apply H. exact Hf.
    + intro H. split.
      * rewrite <- (Nat.add_0_r a). apply (H 0). reflexivity.
      * intros f x Hf. replace (Datatypes.S a + f) with (a + Datatypes.S f) by lia. apply H. exact Hf.
Qed.

Lemma forallb_index_list : forall {A} (P : nat -> A -> bool) (l : list A),
  forallb (fun p => P (fst p) (snd p)) (index_list l) = true <->
  forall f x, nth_error l f = Some x -> P f x = true.
Proof. intros A P l. unfold index_list. rewrite forallb_indexed. reflexivity. Qed.

Lemma nth_error_indexed_map : forall {A B} (h : nat -> A -> B) (l : list A) a f,
  nth_error (map (fun p => h (fst p) (snd p)) (combine (seq a (length l)) l)) f
  = option_map (h (a + f)) (nth_error l f).
Proof.
  intros A B h l. induction l as [|y l IH]; intros a f; [destruct f; reflexivity|].
  cbn [length seq combine map]. destruct f as [|f].
  - cbn. rewrite Nat.add_0_r. reflexivity.
  - cbn [nth_error]. rewrite IH. replace (Datatypes.S a + f) with (a + Datatypes.S f) by lia. reflexivity.
Qed.

Lemma indexed_map_length : forall {A B} (h : nat * A -> B) (l : list A),
  length (map h (index_list l)) = length l.
Proof. intros. unfold index_list. rewrite map_length, combine_length, seq_length. lia. Qed.

(** * What the guard says *)

Lemma simple_factor_b_spec : forall fd, simple_factor_b fd = true -> f_derived fd = None /\ f_sustain fd = 1.
Proof.
  intros fd H. unfold simple_factor_b in H. destruct (f_derived fd); [discriminate|].
  apply Nat.eqb_eq in H. auto.
Qed.

Lemma nestable_spec : forall So Si,
  nestable_b So Si = true ->
  (forall fd, In fd (s_factors So) -> f_derived fd = None /\ f_sustain fd = 1) /\
  (forall fd, In fd (s_factors Si) -> f_derived fd = None /\ f_sustain fd = 1) /\
  s_constraints So = [] /\
  (forall k, In k (s_constraints Si) ->
     window_kind_b (k_kind k) = true /\ k_factor k < length (s_factors Si) /\
     forall w, In w (k_windows k) -> snd w <= s_trials Si) /\
  (forall c, In c (s_crossings So) ->
     c_first c = 0 /\ 0 < c_chunk c /\ forall f, In f (c_factors c) -> f < length (s_factors So)) /\
  (forall c, In c (s_crossings Si) -> c_first c = 0 /\ 0 < c_chunk c /\ s_trials Si mod c_chunk c = 0) /\
  0 < s_trials Si.
Proof.
  intros So Si H. unfold nestable_b in H. rewrite !andb_true_iff in H.
  destruct H as [[[[[[H1 H2] H3] H3'] H4] H5] H6].
  rewrite forallb_forall in H1, H2, H3', H4, H5.
  split; [intros fd Hfd; apply simple_factor_b_spec; apply H1; exact Hfd|].
  split; [intros fd Hfd; apply simple_factor_b_spec; apply H2; exact Hfd|].
  split; [destruct (s_constraints So); [reflexivity|discriminate]|].
  split.
  { intros k Hk. specialize (H3' k Hk). unfold inner_constraint_b in H3'. rewrite !andb_true_iff in H3'.
    destruct H3' as [[Ha Hb] Hc]. apply Nat.ltb_lt in Hb. rewrite forallb_forall in Hc.
    repeat split; try assumption. intros w Hw. apply Nat.leb_le. apply Hc. exact Hw. }
  split.
  - intros c Hc. specialize (H4 c Hc). rewrite !andb_true_iff in H4. destruct H4 as [[Ha Hb] Hd].
    apply Nat.eqb_eq in Ha. apply Nat.ltb_lt in Hb. rewrite forallb_forall in Hd.
    repeat split; try assumption. intros f Hf. apply Nat.ltb_lt. apply Hd. exact Hf.
  - split; [|apply Nat.ltb_lt; exact H6].
    intros c Hc. specialize (H5 c Hc). rewrite !andb_true_iff in H5. destruct H5 as [[Ha Hb] Hd].
    apply Nat.eqb_eq in Ha. apply Nat.ltb_lt in Hb. apply Nat.eqb_eq in Hd. auto.
Qed.

Lemma crossed_in_intro : forall S c f, In c (s_crossings S) -> In f (c_factors c) -> crossed_in S f = true.
Proof.
  intros S c f Hc Hf. unfold crossed_in. apply existsb_exists. exists c. split; [exact Hc|].
  apply existsb_exists. exists f. split; [exact Hf | apply Nat.eqb_refl].
Qed.

(** * Inner constraints, repeated per group *)

Lemma map_nth_firstn_skipn : forall {A} (row : list A) (d : A) k n,
  k + n <= length row -> map (fun t => nth (k + t) row d) (seq 0 n) = firstn n (skipn k row).
Proof.
  intros A row d k n H. apply (nth_ext _ _ d d).
  - rewrite map_length, seq_length, firstn_length, skipn_length. lia.
  - intros i Hi. rewrite map_length, seq_length in Hi.
    rewrite (nth_map_seq (fun t => nth (k + t) row d)) by exact Hi.
    rewrite nth_firstn_lt by exact Hi. rewrite nth_skipn_add. reflexivity.
Qed.

Lemma slice_group : forall {A} (row : list A) K Ti a b,
  K + Ti <= length row -> b <= Ti ->
  slice (firstn Ti (skipn K row)) a b = slice row (K + a) (K + b).
Proof.
  intros A row K Ti a b HK Hb. unfold slice.
  replace (K + b - (K + a)) with (b - a) by lia.
  destruct (Nat.le_gt_cases b a) as [Hba|Hab].
  - replace (b - a) with 0 by lia. reflexivity.
  - destruct row as [|x0 row'] eqn:Erow; [cbn in HK; lia|]. rewrite <- Erow in *.
    apply (nth_ext _ _ x0 x0).
    + rewrite !firstn_length, !skipn_length, firstn_length, skipn_length. lia.
    + intros i Hi. rewrite firstn_length, skipn_length, firstn_length, skipn_length in Hi.
      rewrite !nth_firstn_lt by lia. rewrite !nth_skipn_add. rewrite nth_firstn_lt by lia.
      rewrite nth_skipn_add. f_equal. lia.
Qed.

Lemma grp_row : forall no ni Ti g s f,
  length s = no + ni -> f < ni ->
  nth f (grp no Ti g s) [] = map (fun t => nth (g * Ti + t) (nth (no + f) s []) None) (seq 0 Ti).
Proof.
  intros no ni Ti g s f Hs Hf. unfold grp.
  rewrite (nth_map_in _ _ f [] []) by (rewrite skipn_length; lia). rewrite nth_skipn_add. reflexivity.
Qed.

Lemma constraint_ok_repeated : forall (S1 S2 : sem) (s : tseq) (k : dconstraint) (no ni To Ti : nat),
  length s = no + ni -> k_factor k < ni -> length (nth (no + k_factor k) s []) = To * Ti ->
  window_kind_b (k_kind k) = true -> (forall w, In w (k_windows k) -> snd w <= Ti) ->
  (constraint_ok S1 s (repeat_constraint no To Ti k) = true <->
   forall g, g < To -> constraint_ok S2 (grp no Ti g s) k = true).
Proof.
  intros S1 S2 s k no ni To Ti Hs Hf Hlen Hkind Hw.
  set (row := nth (no + k_factor k) s []) in *.
  assert (Hslice : forall g w, g < To -> In w (k_windows k) ->
            slice (nth (k_factor k) (grp no Ti g s) []) (fst w) (snd w) = slice row (g * Ti + fst w) (g * Ti + snd w)).
  { intros g w Hg Hin. rewrite (grp_row no ni) by assumption. fold row.
    rewrite map_nth_firstn_skipn by (rewrite Hlen; nia).
    apply slice_group; [rewrite Hlen; nia | apply Hw; exact Hin]. }
  assert (Hgen : forall (P : list cell -> bool),
            forallb (fun w => P (slice row (fst w) (snd w)))
                    (flat_map (fun g => map (fun w => (g * Ti + fst w, g * Ti + snd w)) (k_windows k)) (seq 0 To)) = true <->
            forall g, g < To -> forallb (fun w => P (slice (nth (k_factor k) (grp no Ti g s) []) (fst w) (snd w))) (k_windows k) = true).
  { intro P. rewrite forallb_forall. split.
    - intros H g Hg. apply forallb_forall. intros w Hin. rewrite Hslice by assumption.
      apply (H (g * Ti + fst w, g * Ti + snd w)). apply in_flat_map. exists g. split; [apply in_seq; lia|].
      apply in_map_iff. exists w. auto.
    - intros H w' Hin. apply in_flat_map in Hin. destruct Hin as [g [Hg Hin]]. apply in_seq in Hg.
      apply in_map_iff in Hin. destruct Hin as [w [<- Hin]]. cbn [fst snd].
      specialize (H g ltac:(lia)). rewrite forallb_forall in H. specialize (H w Hin).
      rewrite Hslice in H by (assumption || lia). exact H. }
  unfold constraint_ok. cbn [repeat_constraint k_kind k_factor k_level k_windows]. fold row.
  destruct (k_kind k); try discriminate Hkind.
  - apply (Hgen (fun cells => forallb (fun n => n <=? k0) (runs (k_level k) cells))).
  - apply (Hgen (fun cells => forallb (fun n => k0 <=? n) (runs (k_level k) cells))).
  - apply (Hgen (fun cells => forallb (fun n => n =? k0) (runs (k_level k) cells))).
  - apply (Hgen (fun cells => count_level (k_level k) cells =? k0)).
Qed.

(** * [valid_b] unfolded *)

Lemma valid_b_unfold : forall S s,
  (valid_b S s = true <->
   length s = length (s_factors S) /\
   (forall f fd, nth_error (s_factors S) f = Some fd -> factor_ok S s f fd = true) /\
   (forall c, In c (s_crossings S) -> crossing_ok S s c = true) /\
   (forall k, In k (s_constraints S) -> constraint_ok S s k = true)).
Proof.
  intros S s. unfold valid_b. rewrite !andb_true_iff.
  rewrite Nat.eqb_eq, forallb_index_list, !forallb_forall. tauto.
Qed.

Lemma nest_valid_unfold : forall So Si s,
  let N := nest_sem So Si in
  let no := length (s_factors So) in let ni := length (s_factors Si) in let Ti := s_trials Si in
  (valid_b N s = true <->
   length s = no + ni /\
   (forall f fd, nth_error (s_factors So) f = Some fd ->
      factor_ok N s f (scale_factor Ti (crossed_in So f) fd) = true) /\
   (forall f fd, nth_error (s_factors Si) f = Some fd -> factor_ok N s (no + f) fd = true) /\
   (forall c, In c (s_crossings So) -> crossing_ok N s (scale_crossing Ti c) = true) /\
   (forall c, In c (s_crossings Si) -> crossing_ok N s (shift_crossing no c) = true) /\
   (forall k, In k (s_constraints Si) -> constraint_ok N s (repeat_constraint no (s_trials So) Ti k) = true)).
Proof.
  intros So Si s N no ni Ti. rewrite valid_b_unfold.
  set (h := fun (i : nat) (fd : dfactor) => scale_factor Ti (crossed_in So i) fd).
  assert (HA : forall f, nth_error (map (fun p => h (fst p) (snd p)) (index_list (s_factors So))) f
                         = option_map (h f) (nth_error (s_factors So) f)).
  { intro f. unfold index_list. rewrite nth_error_indexed_map. reflexivity. }
  assert (HlenA : length (map (fun p => h (fst p) (snd p)) (index_list (s_factors So))) = no)
    by apply indexed_map_length.
  change (s_factors N) with (map (fun p => h (fst p) (snd p)) (index_list (s_factors So)) ++ s_factors Si).
  change (s_crossings N) with (map (scale_crossing Ti) (s_crossings So) ++ map (shift_crossing no) (s_crossings Si)).
  change (s_constraints N) with (map (repeat_constraint no (s_trials So) Ti) (s_constraints Si)).
  rewrite app_length, HlenA. fold ni.
  split.
  - intros [Hl [Hf [Hc Hk]]]. split; [exact Hl|]. split; [|split; [|split; [|split]]].
    + intros f fd Hfd. apply Hf. rewrite nth_error_app1.
      * rewrite HA, Hfd. reflexivity.
      * rewrite HlenA. apply nth_error_Some. congruence.
    + intros f fd Hfd. apply Hf. rewrite nth_error_app2 by lia. rewrite HlenA.
      replace (no + f - no) with f by lia. exact Hfd.
    + intros c Hin. apply Hc. apply in_or_app. left. apply in_map. exact Hin.
    + intros c Hin. apply Hc. apply in_or_app. right. apply in_map. exact Hin.
    + intros k Hin. apply Hk. apply in_map. exact Hin.
  - intros [Hl [Hfo [Hfi [Hco [Hci Hki]]]]]. split; [exact Hl|]. split; [|split].
    + intros f x Hx. destruct (Nat.lt_ge_cases f no) as [Hlt|Hge].
      * rewrite nth_error_app1 in Hx by lia. rewrite HA in Hx.
        destruct (nth_error (s_factors So) f) as [fd|] eqn:E; [|discriminate].
        cbn in Hx. inversion Hx; subst x. apply Hfo. exact E.
      * rewrite nth_error_app2 in Hx by lia. rewrite HlenA in Hx.
        replace f with (no + (f - no)) by lia. apply Hfi. exact Hx.
    + intros c Hin. apply in_app_or in Hin. destruct Hin as [Hin|Hin]; apply in_map_iff in Hin;
        destruct Hin as [c0 [<- Hc0]]; [apply Hco | apply Hci]; exact Hc0.
    + intros k Hin. apply in_map_iff in Hin. destruct Hin as [k0 [<- Hk0]]. apply Hki. exact Hk0.
Qed.

(** * The theorem *)

Theorem nest_groups : forall So Si s,
  nestable_b So Si = true ->
  (valid_b (nest_sem So Si) s = true <-> groups_spec So Si s).
Proof.
  intros So Si s Hg.
  destruct (nestable_spec So Si Hg) as [HFo [HFi [HCo [HCi [HXo [HXi HTi]]]]]].
  rewrite nest_valid_unfold. unfold groups_spec.
  set (N := nest_sem So Si). set (To := s_trials So). set (Ti := s_trials Si) in *.
  set (no := length (s_factors So)). set (ni := length (s_factors Si)).
  assert (HN : s_trials N = To * Ti) by reflexivity.
  (* an outer factor's conditions in N *)
  assert (Houter : forall f fd, nth_error (s_factors So) f = Some fd ->
            (factor_ok N s f (scale_factor Ti (crossed_in So f) fd) = true <->
             length (nth f s []) = To * Ti /\ wf_cells (f_nlevels fd) (nth f s []) (To * Ti) /\
             (crossed_in So f = true -> forall t, t < To * Ti -> get_cell s f t = get_cell s f (t / Ti * Ti)))).
  { intros f fd Hfd. destruct (HFo fd (nth_error_In _ _ Hfd)) as [Hd Hsu].
    destruct (crossed_in So f) eqn:Ecr; cbn [scale_factor].
    - rewrite factor_ok_simple by exact Hd. cbn [f_nlevels f_sustain]. rewrite HN, Hsu, Nat.mul_1_l.
      split; [intros [A [B C]]; auto | intros [A [B C]]; auto].
    - rewrite factor_ok_simple by exact Hd. rewrite HN, Hsu. split.
      + intros [A [B _]]. repeat split; try assumption. discriminate.
      + intros [A [B _]]. repeat split; try assumption. intros t _. rewrite Nat.div_1_r, Nat.mul_1_r. reflexivity. }
  (* an inner factor's conditions in N *)
  assert (Hinner : forall f fd, nth_error (s_factors Si) f = Some fd ->
            (factor_ok N s (no + f) fd = true <->
             length (nth (no + f) s []) = To * Ti /\ wf_cells (f_nlevels fd) (nth (no + f) s []) (To * Ti))).
  { intros f fd Hfd. destruct (HFi fd (nth_error_In _ _ Hfd)) as [Hd Hsu].
    rewrite factor_ok_simple by exact Hd. rewrite HN, Hsu. split.
    - intros [A [B _]]. auto.
    - intros [A B]. repeat split; try assumption. intros t _. rewrite Nat.div_1_r, Nat.mul_1_r. reflexivity. }
  (* combinations of an outer crossing read on representatives *)
  assert (Hcombo : length s = no + ni ->
            (forall f t, f < no -> crossed_in So f = true -> t < To * Ti -> get_cell s f t = get_cell s f (t / Ti * Ti)) ->
            forall c, In c (s_crossings So) -> forall t, t < To * Ti ->
            combo_at s (c_factors c) t = combo_at (reps no To Ti s) (c_factors c) (t / Ti)).
  { intros Hl Hconst c Hc t Ht. unfold combo_at. apply map_ext_in. intros f Hf.
    destruct (HXo c Hc) as [_ [_ Hrange]].
    rewrite get_cell_reps; [|apply Hrange; exact Hf|lia|apply Nat.div_lt_upper_bound; lia].
    apply Hconst; [apply Hrange; exact Hf | eapply crossed_in_intro; eauto | exact Ht]. }
  split.
  - (* valid in the Nest normal form -> group composition *)
    intros [Hl [Hfo [Hfi [Hco [Hci Hki]]]]].
    assert (Hrowlen : forall f fd, nth_error (s_factors Si) f = Some fd -> length (nth (no + f) s []) = To * Ti).
    { intros f fd E. apply (proj1 (Hinner f fd E) (Hfi f fd E)). }
    assert (Hconst : forall f t, f < no -> crossed_in So f = true -> t < To * Ti ->
                                 get_cell s f t = get_cell s f (t / Ti * Ti)).
    { intros f t Hf Hcr Ht. destruct (nth_error (s_factors So) f) as [fd|] eqn:E.
      - apply (proj1 (Houter f fd E) (Hfo f fd E)); assumption.
      - apply nth_error_None in E. fold no in E. lia. }
    split; [exact Hl|]. split; [|split; [|split; [|split]]].
    + intros f Hf. destruct (Nat.lt_ge_cases f no) as [Hlt|Hge].
      * destruct (nth_error (s_factors So) f) as [fd|] eqn:E.
        -- apply (proj1 (Houter f fd E) (Hfo f fd E)).
        -- apply nth_error_None in E. fold no in E. lia.
      * destruct (nth_error (s_factors Si) (f - no)) as [fd|] eqn:E.
        -- replace f with (no + (f - no)) by lia. apply (proj1 (Hinner _ fd E) (Hfi _ fd E)).
        -- apply nth_error_None in E. fold ni in E. lia.
    + intros f fd E. apply (proj1 (Houter f fd E) (Hfo f fd E)).
    + exact Hconst.
    + intros c Hc. destruct (HXo c Hc) as [H0 _].
      apply (proj1 (crossing_ok_scaled N So s (reps no To Ti s) c To Ti HN eq_refl HTi H0
                                       (Hcombo Hl Hconst c Hc))).
      apply Hco. exact Hc.
    + intros g Hgt. rewrite valid_b_unfold. split; [|split; [|split]].
      * unfold grp. rewrite map_length, skipn_length. fold ni. lia.
      * intros f fd E. destruct (HFi fd (nth_error_In _ _ E)) as [Hd Hsu].
        rewrite factor_ok_simple by exact Hd. fold Ti. rewrite Hsu.
        destruct (proj1 (Hinner f fd E) (Hfi f fd E)) as [Hlen Hwf].
        assert (Hfn : f < ni) by (apply nth_error_Some; congruence).
        assert (Hrow : nth f (grp no Ti g s) [] = map (fun t => nth (g * Ti + t) (nth (no + f) s []) None) (seq 0 Ti)).
        { unfold grp. rewrite (nth_map_in _ _ f [] []) by (rewrite skipn_length; lia). rewrite nth_skipn_add. reflexivity. }
        split; [rewrite Hrow, map_length, seq_length; reflexivity|]. split.
        -- intros t Ht. rewrite Hrow. rewrite nth_map_seq by exact Ht. apply Hwf. nia.
        -- intros t _. rewrite Nat.div_1_r, Nat.mul_1_r. reflexivity.
      * intros c Hc. destruct (HXi c Hc) as [H0 [Hch Hmod]].
        apply (proj1 (crossing_ok_repeated N Si s (fun g => grp no Ti g s) c no To Ti HN eq_refl H0 Hch Hmod
                        ltac:(lia) (fun g t Hg' Ht => combo_at_grp no ni Ti g s (c_factors c) t Hl Ht))).
        -- apply Hci. exact Hc.
        -- exact Hgt.
      * intros k Hk. destruct (HCi k Hk) as [Hkind [Hkf Hkw]]. fold ni in Hkf. fold Ti in Hkw.
        destruct (nth_error (s_factors Si) (k_factor k)) as [fd|] eqn:E;
          [|apply nth_error_None in E; fold ni in E; lia].
        apply (proj1 (constraint_ok_repeated N Si s k no ni To Ti Hl Hkf (Hrowlen _ fd E) Hkind Hkw)).
        -- apply Hki. exact Hk.
        -- exact Hgt.
  - (* group composition -> valid in the Nest normal form *)
    intros [Hl [Hlen [Hwf [Hconst [Hco Hgrp]]]]].
    split; [exact Hl|]. split; [|split; [|split; [|split]]].
    + intros f fd E. apply (proj2 (Houter f fd E)).
      assert (Hfn : f < no) by (apply nth_error_Some; congruence).
      split; [apply Hlen; lia|]. split; [apply Hwf; exact E|].
      intros Hcr t Ht. apply Hconst; assumption.
    + intros f fd E. apply (proj2 (Hinner f fd E)).
      assert (Hfn : f < ni) by (apply nth_error_Some; congruence).
      split; [apply Hlen; lia|].
      intros t Ht.
      assert (Hgt : t / Ti < To) by (apply Nat.div_lt_upper_bound; lia).
      specialize (Hgrp (t / Ti) Hgt). rewrite valid_b_unfold in Hgrp.
      destruct Hgrp as [_ [Hfg _]]. specialize (Hfg f fd E).
      destruct (HFi fd (nth_error_In _ _ E)) as [Hd _].
      rewrite factor_ok_simple in Hfg by exact Hd. destruct Hfg as [_ [Hw _]].
      fold Ti in Hw. specialize (Hw (t mod Ti) ltac:(apply Nat.mod_upper_bound; lia)).
      destruct Hw as [l [Hl1 Hl2]]. exists l. split; [|exact Hl2].
      change (nth (t mod Ti) (nth f (grp no Ti (t / Ti) s) []) None) with (get_cell (grp no Ti (t / Ti) s) f (t mod Ti)) in Hl1.
      rewrite (get_cell_grp no ni) in Hl1; [|exact Hl|apply Nat.mod_upper_bound; lia].
      unfold get_cell in Hl1. rewrite <- Hl1. f_equal.
      pose proof (Nat.div_mod t Ti ltac:(lia)). lia.
    + intros c Hc. destruct (HXo c Hc) as [H0 _].
      apply (proj2 (crossing_ok_scaled N So s (reps no To Ti s) c To Ti HN eq_refl HTi H0
                                       (Hcombo Hl Hconst c Hc))).
      apply Hco. exact Hc.
    + intros c Hc. destruct (HXi c Hc) as [H0 [Hch Hmod]].
      destruct (Nat.eq_dec To 0) as [Hz|Hnz].
      * (* no trials at all *)
        unfold crossing_ok. cbn [shift_crossing c_chunk c_first]. rewrite H0.
        assert (E : (0 <? c_chunk c) = true) by (apply Nat.ltb_lt; exact Hch). rewrite E.
        rewrite chunks_ok_step. rewrite HN. fold To. rewrite Hz. reflexivity.
      * apply (proj2 (crossing_ok_repeated N Si s (fun g => grp no Ti g s) c no To Ti HN eq_refl H0 Hch Hmod
                        ltac:(lia) (fun g t Hg' Ht => combo_at_grp no ni Ti g s (c_factors c) t Hl Ht))).
        intros g Hgt. specialize (Hgrp g Hgt). rewrite valid_b_unfold in Hgrp.
        destruct Hgrp as [_ [_ [Hcg _]]]. apply Hcg. exact Hc.
    + intros k Hk. destruct (HCi k Hk) as [Hkind [Hkf Hkw]]. fold ni in Hkf. fold Ti in Hkw.
      apply (proj2 (constraint_ok_repeated N Si s k no ni To Ti Hl Hkf (Hlen (no + k_factor k) ltac:(lia)) Hkind Hkw)).
      intros g Hgt. specialize (Hgrp g Hgt). rewrite valid_b_unfold in Hgrp.
      destruct Hgrp as [_ [_ [_ Hkg]]]. apply Hkg. exact Hk.
Qed.

(** * Example: the guard is met by a concrete Nest, and the normal form has the expected valid set *)

Definition ex_two_levels (T : nat) : sem :=
  {| s_trials := T;
     s_factors := [{| f_nlevels := 2; f_sustain := 1; f_derived := None |}];
     s_crossings := [{| c_factors := [0]; c_first := 0; c_chunk := 2; c_mult := [([0], 1); ([1], 1)] |}];
     s_constraints := [] |}.

(** outer = CrossBlock([A],[A],[]) (2 trials), inner = Repeat(CrossBlock([B],[B],[]), [MinimumTrials(4)]) (4 trials) *)
Definition ex_sem_outer : sem := ex_two_levels 2.
Definition ex_sem_inner : sem := ex_two_levels 4.

Lemma ex_nestable : nestable_b ex_sem_outer ex_sem_inner = true.
Proof. reflexivity. Qed.

(** 2 orders of A x (2 x 2 orders of B per group)^2 groups = 32 valid sequences of 8 trials *)
Lemma ex_nest_count : length (all_valid (nest_sem ex_sem_outer ex_sem_inner)) = 32 /\
                      s_trials (nest_sem ex_sem_outer ex_sem_inner) = 8.
Proof. split; vm_compute; reflexivity. Qed.

Definition ex_nest_seq : tseq :=
  [[Some 1; Some 1; Some 1; Some 1; Some 0; Some 0; Some 0; Some 0];
   [Some 0; Some 1; Some 1; Some 0; Some 1; Some 0; Some 0; Some 1]].

Lemma ex_nest_seq_valid : valid_b (nest_sem ex_sem_outer ex_sem_inner) ex_nest_seq = true /\
  reps 1 2 4 ex_nest_seq = [[Some 1; Some 0]] /\
  grp 1 4 0 ex_nest_seq = [[Some 0; Some 1; Some 1; Some 0]] /\
  grp 1 4 1 ex_nest_seq = [[Some 1; Some 0; Some 0; Some 1]].
Proof. repeat split. Qed.

(** the same Nest with the inner block constraint AtMostKInARow(1, (B, b0)): 3 valid inner runs
    (0101, 0110, 1010), hence 2 x 3 x 3 = 18 valid sequences; b0 may meet b0 across a group boundary *)
Definition ex_sem_inner_c : sem :=
  {| s_trials := 4; s_factors := s_factors ex_sem_inner; s_crossings := s_crossings ex_sem_inner;
     s_constraints := [{| k_kind := KAtMost 1; k_factor := 0; k_level := 0; k_windows := [(0, 4)] |}] |}.

Lemma ex_nestable_c : nestable_b ex_sem_outer ex_sem_inner_c = true /\
  length (all_valid ex_sem_inner_c) = 3 /\
  length (all_valid (nest_sem ex_sem_outer ex_sem_inner_c)) = 18 /\
  s_constraints (nest_sem ex_sem_outer ex_sem_inner_c)
  = [{| k_kind := KAtMost 1; k_factor := 1; k_level := 0; k_windows := [(0, 4); (4, 8)] |}] /\
  valid_b (nest_sem ex_sem_outer ex_sem_inner_c)
          [[Some 1; Some 1; Some 1; Some 1; Some 0; Some 0; Some 0; Some 0];
           [Some 1; Some 0; Some 1; Some 0; Some 0; Some 1; Some 0; Some 1]] = true.
Proof. repeat split; vm_compute; reflexivity. Qed.
