(** Wider guards for the Nest group theorem (Front/NestSem.v, Properties/C25.v).

    [nest_sem2 So Si] is the reference-semantics normal form the arguments of Nest(outer, inner)
    denote, for every kind of factor and constraint harness/docsem.py (Design/DocSem.v) handles:
    compared with [nest_sem] it also renumbers the dependencies of inner derived factors and carries
    the outer block's constraints, scaled as the documentation-side form scales them (trial windows
    multiplied by the inner trial count [Ti], the count of ExactlyK multiplied by [Ti], the run
    lengths of AtMostKInARow etc. NOT rescaled, the trial-group size of Pin / Sequential multiplied
    by [Ti] for crossed factors).  Under [nestable_b] it is [nest_sem] ([nest_sem2_old]).

    Guards, each containing the previous one:
    - [nestable_d_b]: [nestable_b] + within-trial derived factors (window width 1) in both blocks;
    - [nestable_c_b]: + inner constraints Exclude and Pin, outer constraints Exclude / ExactlyK /
      AtMostKInARow on crossed outer factors;
    - [nestable_f_b]: + outer constraints of these kinds on uncrossed (free) outer factors.
    Definitions first, proofs below; nothing in Design/Sem.v or Front/NestSem.v is changed. *)
From Coq Require Import List Bool Arith Lia ZArith.
From SP Require Import Design.Sem Front.NestSem.
Import ListNotations.

(** * Definitions *)

Definition shift_window (k : nat) (w : dwindow) : dwindow :=
  {| w_deps := map (Nat.add k) (w_deps w); w_width := w_width w; w_stride := w_stride w;
     w_start := w_start w; w_table := w_table w |}.

Definition shift_factor (k : nat) (fd : dfactor) : dfactor :=
  {| f_nlevels := f_nlevels fd; f_sustain := f_sustain fd; f_derived := option_map (shift_window k) (f_derived fd) |}.

(** an outer constraint in the Nest: ExactlyK counts trials, so its count is multiplied by the inner
    trial count; the trial-group size of Pin and Sequential follows the factor's sustain count; run
    lengths are left as they are (the documentation-side form does not rescale them) *)
Definition scale_kind (L : nat) (crossed : bool) (k : ckind) : ckind :=
  match k with
  | KExactlyK n => KExactlyK (n * L)
  | KPin i su => KPin i (if crossed then su * L else su)
  | KSequential first su => KSequential (first * L) (if crossed then su * L else su)
  | _ => k
  end.

Definition scale_outer_constraint (So : sem) (Ti : nat) (c : dconstraint) : dconstraint :=
  let T := s_trials So * Ti in
  {| k_kind := scale_kind Ti (crossed_in So (k_factor c)) (k_kind c); k_factor := k_factor c; k_level := k_level c;
     k_windows := flat_map (fun w => let lo := fst w * Ti in let hi := Nat.min (snd w * Ti) T in
                                     if lo <? hi then [(lo, hi)] else []) (k_windows c) |}.

Definition nest_sem2 (So Si : sem) : sem :=
  {| s_trials := s_trials So * s_trials Si;
     s_factors := map (fun p => scale_factor (s_trials Si) (crossed_in So (fst p)) (snd p)) (index_list (s_factors So))
                  ++ map (shift_factor (length (s_factors So))) (s_factors Si);
     s_crossings := map (scale_crossing (s_trials Si)) (s_crossings So)
                    ++ map (shift_crossing (length (s_factors So))) (s_crossings Si);
     s_constraints := map (scale_outer_constraint So (s_trials Si)) (s_constraints So)
                      ++ map (repeat_constraint (length (s_factors So)) (s_trials So) (s_trials Si)) (s_constraints Si) |}.

(** ** Guards *)

Definition fdeps (fd : dfactor) : list nat := match f_derived fd with Some w => w_deps w | None => [] end.

(** a non-derived factor, or a within-trial derived factor (window of width 1 applied at every trial)
    over factors of its own block, of sustain count 1 *)
Definition plain_factor_b (n : nat) (fd : dfactor) : bool :=
  (f_sustain fd =? 1) &&
  match f_derived fd with
  | None => true
  | Some w => (w_width w =? 1) && (w_stride w =? 1) && (w_start w =? 0) && forallb (fun d => d <? n) (w_deps w)
  end.

Definition crossings_b (So Si : sem) : bool :=
  forallb (fun c => (c_first c =? 0) && (0 <? c_chunk c) &&
                    forallb (fun f => f <? length (s_factors So)) (c_factors c)) (s_crossings So) &&
  forallb (fun c => (c_first c =? 0) && (0 <? c_chunk c) && (s_trials Si mod c_chunk c =? 0)) (s_crossings Si) &&
  (0 <? s_trials Si).

Definition factors_b (So Si : sem) : bool :=
  forallb (plain_factor_b (length (s_factors So))) (s_factors So) &&
  forallb (plain_factor_b (length (s_factors Si))) (s_factors Si).

Definition nestable_d_b (So Si : sem) : bool :=
  factors_b So Si &&
  match s_constraints So with [] => true | _ => false end && forallb (inner_constraint_b Si) (s_constraints Si) &&
  crossings_b So Si.

(** ** The group specification *)

(** the outer rows sampled at offset [j] of every group ([reps] is offset 0) *)
Definition reps_at (no To Ti j : nat) (s : tseq) : tseq :=
  map (fun row => map (fun g => nth (g * Ti + j) row None) (seq 0 To)) (firstn no s).

(** an outer constraint read on the group representatives: a run of [r] groups is a run of [r * Ti]
    trials, so AtMostKInARow(k) allows runs of [k / Ti] groups *)
Definition reps_kind (Ti : nat) (k : ckind) : ckind :=
  match k with KAtMost n => KAtMost (n / Ti) | _ => k end.

Definition reps_constraint (Ti : nat) (c : dconstraint) : dconstraint :=
  {| k_kind := reps_kind Ti (k_kind c); k_factor := k_factor c; k_level := k_level c; k_windows := k_windows c |}.

Definition groups_spec2 (So Si : sem) (s : tseq) : Prop :=
  let To := s_trials So in let Ti := s_trials Si in
  let no := length (s_factors So) in let ni := length (s_factors Si) in
  length s = no + ni /\
  (forall f, f < no + ni -> length (nth f s []) = To * Ti) /\
  (* every outer factor has one of its levels at every trial, a derived one the level its table gives
     for the levels of its dependencies at that trial: the outer rows sampled at any offset [j] of
     the groups meet the outer block's factor conditions (offset 0 suffices for a crossed factor,
     which (a) holds fixed) *)
  (forall f fd j, nth_error (s_factors So) f = Some fd -> j < Ti -> (crossed_in So f = true -> j = 0) ->
                  factor_ok So (reps_at no To Ti j s) f fd = true) /\
  (* (a) the outer block's crossed factors are constant within each group *)
  (forall f t, f < no -> crossed_in So f = true -> t < To * Ti -> get_cell s f t = get_cell s f (t / Ti * Ti)) /\
  (* (b) the group representatives satisfy the outer block's crossings *)
  (forall c, In c (s_crossings So) -> crossing_ok So (reps no To Ti s) c = true) /\
  (* (d) ... and its constraints on crossed factors; a constraint on an uncrossed (free) outer factor
     is read on the whole sequence with its scaled windows and count *)
  (forall c, In c (s_constraints So) ->
     if crossed_in So (k_factor c) then constraint_ok So (reps no To Ti s) (reps_constraint Ti c) = true
     else constraint_ok So s (scale_outer_constraint So Ti c) = true) /\
  (* (c) each group is a valid sequence of the inner block *)
  (forall g, g < To -> valid_b Si (grp no Ti g s) = true).

(** * Within-trial factors *)

Definition loc (fd : dfactor) (c : cell) (args : list (list cell)) : Prop :=
  exists l, c = Some l /\ l < f_nlevels fd /\
            match f_derived fd with None => True | Some w => accepts w l args = true end.

Definition args_at (s : tseq) (deps : list nat) (t : nat) : list (list cell) := map (fun d => [get_cell s d t]) deps.

Definition within_b (fd : dfactor) : bool :=
  match f_derived fd with
  | None => true
  | Some w => (w_width w =? 1) && (w_stride w =? 1) && (w_start w =? 0)
  end.

Lemma applies_within : forall fd t, within_b fd = true -> applies fd t = true.
Proof.
  intros fd t H. unfold within_b in H. unfold applies. destruct (f_derived fd) as [w|]; [|reflexivity].
  rewrite !andb_true_iff, !Nat.eqb_eq in H. destruct H as [[_ H2] H3]. rewrite H2, H3.
  rewrite Nat.mod_1_r. reflexivity.
Qed.

Lemma window_args_within : forall s fd w t,
  w_width w = 1 -> window_args s fd w t = args_at s (w_deps w) (t / f_sustain fd * f_sustain fd).
Proof.
  intros s fd w t H. unfold window_args, args_at. rewrite H. apply map_ext. intro d.
  cbn [seq map Nat.sub Nat.mul Nat.leb]. rewrite Nat.sub_0_r. reflexivity.
Qed.

Lemma factor_ok_local : forall S s f fd,
  within_b fd = true ->
  (factor_ok S s f fd = true <->
   length (nth f s []) = s_trials S /\
   forall t, t < s_trials S ->
     get_cell s f t = get_cell s f (t / f_sustain fd * f_sustain fd) /\
     loc fd (get_cell s f t) (args_at s (fdeps fd) (t / f_sustain fd * f_sustain fd))).
Proof.
  intros S s f fd Hw. unfold factor_ok. rewrite andb_true_iff, Nat.eqb_eq, forallb_forall.
  assert (Hargs : forall w t, f_derived fd = Some w ->
            window_args s fd w t = args_at s (fdeps fd) (t / f_sustain fd * f_sustain fd)).
  { intros w t E. unfold fdeps. rewrite E. apply window_args_within.
    unfold within_b in Hw. rewrite E in Hw. rewrite !andb_true_iff, !Nat.eqb_eq in Hw. tauto. }
  split.
  - intros [Hlen H]. split; [exact Hlen|]. intros t Ht.
    specialize (H t). rewrite in_seq in H. specialize (H ltac:(lia)).
    destruct (get_cell s f t) as [l|] eqn:E.
    + rewrite !andb_true_iff in H. destruct H as [[[_ H1] H2] H3].
      apply cell_eqb_eq in H2. apply Nat.ltb_lt in H1. split; [congruence|].
      exists l. split; [reflexivity|]. split; [exact H1|].
      destruct (f_derived fd) as [w|] eqn:Ed; [|exact I]. rewrite <- (Hargs w t eq_refl). exact H3.
    + rewrite applies_within in H by exact Hw. discriminate.
  - intros [Hlen H]. split; [exact Hlen|]. intros t Ht. rewrite in_seq in Ht.
    destruct (H t ltac:(lia)) as [Hc [l [Hl [Hlt Hacc]]]]. rewrite Hl.
    rewrite applies_within by exact Hw. rewrite !andb_true_iff. repeat split.
    + apply Nat.ltb_lt. exact Hlt.
    + apply cell_eqb_eq. congruence.
    + destruct (f_derived fd) as [w|] eqn:Ed; [|reflexivity]. rewrite (Hargs w t eq_refl). exact Hacc.
Qed.

(** * Sampling the outer rows *)

Lemma get_cell_reps_at : forall no To Ti j s f g,
  f < no -> no <= length s -> g < To -> get_cell (reps_at no To Ti j s) f g = get_cell s f (g * Ti + j).
Proof.
  intros no To Ti j s f g Hf Hs Hg. unfold get_cell, reps_at.
  rewrite (nth_map_in _ _ f [] []) by (rewrite firstn_length; lia).
  rewrite nth_firstn_lt by exact Hf. rewrite nth_map_seq by exact Hg. reflexivity.
Qed.

Lemma reps_at_row_length : forall no To Ti j s f,
  f < no -> no <= length s -> length (nth f (reps_at no To Ti j s) []) = To.
Proof.
  intros no To Ti j s f Hf Hs. unfold reps_at.
  rewrite (nth_map_in _ _ f [] []) by (rewrite firstn_length; lia).
  rewrite map_length, seq_length. reflexivity.
Qed.

Lemma reps_at_0 : forall no To Ti s, reps_at no To Ti 0 s = reps no To Ti s.
Proof.
  intros. unfold reps_at, reps. apply map_ext. intro row. apply map_ext. intro g. rewrite Nat.add_0_r. reflexivity.
Qed.

Lemma args_at_reps_at : forall no To Ti j s deps g,
  (forall d, In d deps -> d < no) -> no <= length s -> g < To ->
  args_at (reps_at no To Ti j s) deps g = args_at s deps (g * Ti + j).
Proof.
  intros no To Ti j s deps g Hd Hs Hg. unfold args_at. apply map_ext_in. intros d Hin.
  rewrite get_cell_reps_at by (try apply Hd; assumption). reflexivity.
Qed.

Lemma divmod_decompose : forall t Ti, 0 < Ti -> t = t / Ti * Ti + t mod Ti /\ t mod Ti < Ti.
Proof.
  intros t Ti H. split; [|apply Nat.mod_upper_bound; lia].
  pose proof (Nat.div_mod t Ti ltac:(lia)). lia.
Qed.

Lemma div_group : forall g Ti j, j < Ti -> (g * Ti + j) / Ti = g.
Proof. intros g Ti j H. apply div_block; lia. Qed.

(** * An outer factor in the Nest *)

Lemma plain_factor_spec : forall n fd,
  plain_factor_b n fd = true -> f_sustain fd = 1 /\ within_b fd = true /\ forall d, In d (fdeps fd) -> d < n.
Proof.
  intros n fd H. unfold plain_factor_b in H. rewrite andb_true_iff, Nat.eqb_eq in H. destruct H as [H1 H2].
  split; [exact H1|]. unfold within_b, fdeps. destruct (f_derived fd) as [w|].
  - rewrite !andb_true_iff in H2. destruct H2 as [[[A B] C] D]. rewrite A, B, C. split; [reflexivity|].
    intros d Hd. rewrite forallb_forall in D. apply Nat.ltb_lt. apply D. exact Hd.
  - split; [reflexivity|]. intros d [].
Qed.

Lemma loc_scale : forall L b fd c a, loc (scale_factor L b fd) c a <-> loc fd c a.
Proof. intros L b fd c a. destruct b; reflexivity. Qed.

Lemma fdeps_scale : forall L b fd, fdeps (scale_factor L b fd) = fdeps fd.
Proof. intros L b fd. destruct b; reflexivity. Qed.

Lemma within_scale : forall L b fd, within_b (scale_factor L b fd) = within_b fd.
Proof. intros L b fd. destruct b; reflexivity. Qed.

(** uncrossed: the factor keeps sustain count 1; its conditions hold at every trial, i.e. on every sampling *)
Lemma outer_factor_free : forall (N So : sem) s f fd no To Ti,
  s_trials N = To * Ti -> s_trials So = To -> 0 < Ti -> f < no -> no <= length s ->
  plain_factor_b no fd = true -> length (nth f s []) = To * Ti ->
  (factor_ok N s f fd = true <-> forall j, j < Ti -> factor_ok So (reps_at no To Ti j s) f fd = true).
Proof.
  intros N So s f fd no To Ti HN HSo HTi Hf Hs Hp Hlen.
  destruct (plain_factor_spec no fd Hp) as [Hsu [Hw Hd]].
  rewrite factor_ok_local by exact Hw. rewrite HN, Hsu. split.
  - intros [_ H] j Hj. rewrite factor_ok_local by exact Hw. rewrite HSo, Hsu. split.
    + apply reps_at_row_length; assumption.
    + intros g Hg. rewrite Nat.div_1_r, Nat.mul_1_r. split; [reflexivity|].
      rewrite get_cell_reps_at by assumption. rewrite args_at_reps_at by assumption.
      destruct (H (g * Ti + j) ltac:(nia)) as [_ Hl]. rewrite Nat.div_1_r, Nat.mul_1_r in Hl. exact Hl.
  - intro H. split; [exact Hlen|]. intros t Ht. rewrite Nat.div_1_r, Nat.mul_1_r. split; [reflexivity|].
    destruct (divmod_decompose t Ti HTi) as [Et Hm].
    assert (Hg : t / Ti < To) by (apply Nat.div_lt_upper_bound; lia).
    specialize (H (t mod Ti) Hm). rewrite factor_ok_local in H by exact Hw. rewrite HSo, Hsu in H.
    destruct H as [_ H]. destruct (H (t / Ti) Hg) as [_ Hl]. rewrite Nat.div_1_r, Nat.mul_1_r in Hl.
    rewrite get_cell_reps_at in Hl by assumption. rewrite args_at_reps_at in Hl by assumption.
    rewrite <- Et in Hl. exact Hl.
Qed.

(** crossed: sustain count [Ti]; constant within each group, and its conditions hold on the representatives *)
Lemma outer_factor_crossed : forall (N So : sem) s f fd no To Ti,
  s_trials N = To * Ti -> s_trials So = To -> 0 < Ti -> f < no -> no <= length s ->
  plain_factor_b no fd = true -> length (nth f s []) = To * Ti ->
  (factor_ok N s f (scale_factor Ti true fd) = true <->
   (forall t, t < To * Ti -> get_cell s f t = get_cell s f (t / Ti * Ti)) /\
   factor_ok So (reps_at no To Ti 0 s) f fd = true).
Proof.
  intros N So s f fd no To Ti HN HSo HTi Hf Hs Hp Hlen.
  destruct (plain_factor_spec no fd Hp) as [Hsu [Hw Hd]].
  rewrite factor_ok_local by (rewrite within_scale; exact Hw). rewrite HN, fdeps_scale.
  change (f_sustain (scale_factor Ti true fd)) with (f_sustain fd * Ti). rewrite Hsu, Nat.mul_1_l.
  rewrite (factor_ok_local So) by exact Hw. rewrite HSo, Hsu. split.
  - intros [_ H]. split; [intros t Ht; apply (H t Ht)|]. split; [apply reps_at_row_length; assumption|].
    intros g Hg. rewrite Nat.div_1_r, Nat.mul_1_r. split; [reflexivity|].
    rewrite get_cell_reps_at by assumption. rewrite args_at_reps_at by assumption.
    destruct (H (g * Ti + 0) ltac:(nia)) as [_ Hl]. apply (proj1 (loc_scale Ti true fd _ _)) in Hl.
    rewrite div_group in Hl by lia. rewrite Nat.add_0_r in *. exact Hl.
  - intros [Hc [_ H]]. split; [exact Hlen|]. intros t Ht. split; [apply Hc; exact Ht|].
    apply (proj2 (loc_scale Ti true fd _ _)).
    assert (Hg : t / Ti < To) by (apply Nat.div_lt_upper_bound; lia).
    destruct (H (t / Ti) Hg) as [_ Hl]. rewrite Nat.div_1_r, Nat.mul_1_r in Hl.
    rewrite get_cell_reps_at in Hl by assumption. rewrite args_at_reps_at in Hl by assumption.
    rewrite Nat.add_0_r in Hl. rewrite Hc by exact Ht. exact Hl.
Qed.

(** * An inner factor in the Nest *)

Lemma loc_shift : forall k fd c a, loc (shift_factor k fd) c a <-> loc fd c a.
Proof.
  intros k fd c a. unfold loc. cbn [shift_factor f_nlevels f_derived].
  destruct (f_derived fd) as [w|]; reflexivity.
Qed.

Lemma fdeps_shift : forall k fd, fdeps (shift_factor k fd) = map (Nat.add k) (fdeps fd).
Proof. intros k fd. unfold fdeps. cbn [shift_factor f_derived]. destruct (f_derived fd); reflexivity. Qed.

Lemma within_shift : forall k fd, within_b (shift_factor k fd) = within_b fd.
Proof. intros k fd. unfold within_b. cbn [shift_factor f_derived]. destruct (f_derived fd); reflexivity. Qed.

Lemma args_at_grp : forall no ni Ti g s deps t,
  length s = no + ni -> t < Ti ->
  args_at (grp no Ti g s) deps t = args_at s (map (Nat.add no) deps) (g * Ti + t).
Proof.
  intros no ni Ti g s deps t Hs Ht. unfold args_at. rewrite map_map. apply map_ext. intro d.
  rewrite (get_cell_grp no ni) by assumption. reflexivity.
Qed.

Lemma inner_factor : forall (N Si : sem) s f fd no ni To Ti,
  s_trials N = To * Ti -> s_trials Si = Ti -> 0 < Ti -> f < ni -> length s = no + ni ->
  plain_factor_b ni fd = true -> length (nth (no + f) s []) = To * Ti ->
  (factor_ok N s (no + f) (shift_factor no fd) = true <->
   forall g, g < To -> factor_ok Si (grp no Ti g s) f fd = true).
Proof.
  intros N Si s f fd no ni To Ti HN HSi HTi Hf Hs Hp Hlen.
  destruct (plain_factor_spec ni fd Hp) as [Hsu [Hw Hd]].
  rewrite factor_ok_local by (rewrite within_shift; exact Hw). rewrite HN, fdeps_shift.
  change (f_sustain (shift_factor no fd)) with (f_sustain fd). rewrite Hsu. split.
  - intros [_ H] g Hg. rewrite factor_ok_local by exact Hw. rewrite HSi, Hsu. split.
    + rewrite (grp_row no ni) by assumption. rewrite map_length, seq_length. reflexivity.
    + intros t Ht. rewrite Nat.div_1_r, Nat.mul_1_r. split; [reflexivity|].
      rewrite (get_cell_grp no ni) by assumption. rewrite (args_at_grp no ni) by assumption.
      destruct (H (g * Ti + t) ltac:(nia)) as [_ Hl]. rewrite Nat.div_1_r, Nat.mul_1_r in Hl.
      apply (proj1 (loc_shift no fd _ _)) in Hl. exact Hl.
  - intro H. split; [exact Hlen|]. intros t Ht. rewrite Nat.div_1_r, Nat.mul_1_r. split; [reflexivity|].
    apply (proj2 (loc_shift no fd _ _)).
    destruct (divmod_decompose t Ti HTi) as [Et Hm].
    assert (Hg : t / Ti < To) by (apply Nat.div_lt_upper_bound; lia).
    specialize (H (t / Ti) Hg). rewrite factor_ok_local in H by exact Hw. rewrite HSi, Hsu in H.
    destruct H as [_ H]. destruct (H (t mod Ti) Hm) as [_ Hl]. rewrite Nat.div_1_r, Nat.mul_1_r in Hl.
    rewrite (get_cell_grp no ni) in Hl by assumption. rewrite (args_at_grp no ni) in Hl by assumption.
    rewrite <- Et in Hl. exact Hl.
Qed.

(** * [valid_b] of the Nest normal form, unfolded *)

Lemma factor_ok_length : forall S s f fd, factor_ok S s f fd = true -> length (nth f s []) = s_trials S.
Proof. intros S s f fd H. unfold factor_ok in H. rewrite andb_true_iff, Nat.eqb_eq in H. tauto. Qed.

Lemma nest2_valid_unfold : forall So Si s,
  let N := nest_sem2 So Si in
  let no := length (s_factors So) in let ni := length (s_factors Si) in let Ti := s_trials Si in
  (valid_b N s = true <->
   length s = no + ni /\
   (forall f fd, nth_error (s_factors So) f = Some fd ->
      factor_ok N s f (scale_factor Ti (crossed_in So f) fd) = true) /\
   (forall f fd, nth_error (s_factors Si) f = Some fd -> factor_ok N s (no + f) (shift_factor no fd) = true) /\
   (forall c, In c (s_crossings So) -> crossing_ok N s (scale_crossing Ti c) = true) /\
   (forall c, In c (s_crossings Si) -> crossing_ok N s (shift_crossing no c) = true) /\
   (forall k, In k (s_constraints So) -> constraint_ok N s (scale_outer_constraint So Ti k) = true) /\
   (forall k, In k (s_constraints Si) -> constraint_ok N s (repeat_constraint no (s_trials So) Ti k) = true)).
Proof.
  intros So Si s N no ni Ti. rewrite valid_b_unfold.
  set (h := fun (i : nat) (fd : dfactor) => scale_factor Ti (crossed_in So i) fd).
  assert (HA : forall f, nth_error (map (fun p => h (fst p) (snd p)) (index_list (s_factors So))) f
                         = option_map (h f) (nth_error (s_factors So) f)).
  { intro f. unfold index_list. rewrite nth_error_indexed_map. reflexivity. }
  assert (HlenA : length (map (fun p => h (fst p) (snd p)) (index_list (s_factors So))) = no)
    by apply indexed_map_length.
  change (s_factors N) with (map (fun p => h (fst p) (snd p)) (index_list (s_factors So)) ++ map (shift_factor no) (s_factors Si)).
  change (s_crossings N) with (map (scale_crossing Ti) (s_crossings So) ++ map (shift_crossing no) (s_crossings Si)).
  change (s_constraints N) with (map (scale_outer_constraint So Ti) (s_constraints So)
                                 ++ map (repeat_constraint no (s_trials So) Ti) (s_constraints Si)).
  rewrite app_length, HlenA, map_length. fold ni.
  split.
  - intros [Hl [Hf [Hc Hk]]]. split; [exact Hl|]. split; [|split; [|split; [|split; [|split]]]].
    + intros f fd Hfd. apply Hf. rewrite nth_error_app1.
      * rewrite HA, Hfd. reflexivity.
      * rewrite HlenA. apply nth_error_Some. congruence.
    + intros f fd Hfd. apply Hf. rewrite nth_error_app2 by lia. rewrite HlenA.
      replace (no + f - no) with f by lia. rewrite nth_error_map, Hfd. reflexivity.
    + intros c Hin. apply Hc. apply in_or_app. left. apply in_map. exact Hin.
    + intros c Hin. apply Hc. apply in_or_app. right. apply in_map. exact Hin.
    + intros k Hin. apply Hk. apply in_or_app. left. apply in_map. exact Hin.
    + intros k Hin. apply Hk. apply in_or_app. right. apply in_map. exact Hin.
  - intros [Hl [Hfo [Hfi [Hco [Hci [Hko Hki]]]]]]. split; [exact Hl|]. split; [|split].
    + intros f x Hx. destruct (Nat.lt_ge_cases f no) as [Hlt|Hge].
      * rewrite nth_error_app1 in Hx by lia. rewrite HA in Hx.
        destruct (nth_error (s_factors So) f) as [fd|] eqn:E; [|discriminate].
        cbn in Hx. inversion Hx; subst x. apply Hfo. exact E.
      * rewrite nth_error_app2 in Hx by lia. rewrite HlenA in Hx. rewrite nth_error_map in Hx.
        destruct (nth_error (s_factors Si) (f - no)) as [fd|] eqn:E; [|discriminate].
        cbn in Hx. inversion Hx; subst x.
        replace f with (no + (f - no)) by lia. apply Hfi. exact E.
    + intros c Hin. apply in_app_or in Hin. destruct Hin as [Hin|Hin]; apply in_map_iff in Hin;
        destruct Hin as [c0 [<- Hc0]]; [apply Hco | apply Hci]; exact Hc0.
    + intros k Hin. apply in_app_or in Hin. destruct Hin as [Hin|Hin]; apply in_map_iff in Hin;
        destruct Hin as [k0 [<- Hk0]]; [apply Hko | apply Hki]; exact Hk0.
Qed.

(** * The theorem, for any guard under which the constraints split *)

Lemma crossings_b_spec : forall So Si,
  crossings_b So Si = true ->
  (forall c, In c (s_crossings So) ->
     c_first c = 0 /\ 0 < c_chunk c /\ forall f, In f (c_factors c) -> f < length (s_factors So)) /\
  (forall c, In c (s_crossings Si) -> c_first c = 0 /\ 0 < c_chunk c /\ s_trials Si mod c_chunk c = 0) /\
  0 < s_trials Si.
Proof.
  intros So Si H. unfold crossings_b in H. rewrite !andb_true_iff in H. destruct H as [[H4 H5] H6].
  rewrite forallb_forall in H4, H5. split; [|split; [|apply Nat.ltb_lt; exact H6]].
  - intros c Hc. specialize (H4 c Hc). rewrite !andb_true_iff in H4. destruct H4 as [[Ha Hb] Hd].
    apply Nat.eqb_eq in Ha. apply Nat.ltb_lt in Hb. rewrite forallb_forall in Hd.
    repeat split; try assumption. intros f Hf. apply Nat.ltb_lt. apply Hd. exact Hf.
  - intros c Hc. specialize (H5 c Hc). rewrite !andb_true_iff in H5. destruct H5 as [[Ha Hb] Hd].
    apply Nat.eqb_eq in Ha. apply Nat.ltb_lt in Hb. apply Nat.eqb_eq in Hd. auto.
Qed.

Lemma factors_b_spec : forall So Si,
  factors_b So Si = true ->
  (forall fd, In fd (s_factors So) -> plain_factor_b (length (s_factors So)) fd = true) /\
  (forall fd, In fd (s_factors Si) -> plain_factor_b (length (s_factors Si)) fd = true).
Proof.
  intros So Si H. unfold factors_b in H. rewrite andb_true_iff, !forallb_forall in H. exact H.
Qed.

(** within-trial factors of sustain count 1 meet the factor hypotheses of the assembly below *)
Lemma plain_outer_split : forall So Si s,
  factors_b So Si = true -> 0 < s_trials Si ->
  length s = length (s_factors So) + length (s_factors Si) ->
  forall f fd, nth_error (s_factors So) f = Some fd -> length (nth f s []) = s_trials So * s_trials Si ->
    (factor_ok (nest_sem2 So Si) s f (scale_factor (s_trials Si) (crossed_in So f) fd) = true <->
     (crossed_in So f = true -> forall t, t < s_trials So * s_trials Si ->
        get_cell s f t = get_cell s f (t / s_trials Si * s_trials Si)) /\
     (forall j, j < s_trials Si -> (crossed_in So f = true -> j = 0) ->
        factor_ok So (reps_at (length (s_factors So)) (s_trials So) (s_trials Si) j s) f fd = true)).
Proof.
  intros So Si s HF HTi Hl f fd Hfd Hlen.
  destruct (factors_b_spec So Si HF) as [HFo _].
  set (N := nest_sem2 So Si). set (To := s_trials So) in *. set (Ti := s_trials Si) in *.
  set (no := length (s_factors So)) in *. set (ni := length (s_factors Si)) in *.
  assert (HN : s_trials N = To * Ti) by reflexivity.
  assert (Hfn : f < no) by (apply nth_error_Some; congruence).
  pose proof (HFo fd (nth_error_In _ _ Hfd)) as Hp. fold no in Hp.
  destruct (crossed_in So f) eqn:Ecr.
  - rewrite (outer_factor_crossed N So s f fd no To Ti HN eq_refl HTi Hfn ltac:(lia) Hp Hlen). split.
    + intros [A B]. split; [intros _; exact A|]. intros j Hj Hj0. rewrite (Hj0 eq_refl). exact B.
    + intros [A B]. split; [apply A; reflexivity|]. apply B; [exact HTi|reflexivity].
  - cbn [scale_factor].
    rewrite (outer_factor_free N So s f fd no To Ti HN eq_refl HTi Hfn ltac:(lia) Hp Hlen). split.
    + intro A. split; [discriminate|]. intros j Hj _. apply A. exact Hj.
    + intros [_ B] j Hj. apply B; [exact Hj|discriminate].
Qed.

Lemma plain_inner_split : forall So Si s,
  factors_b So Si = true -> 0 < s_trials Si ->
  length s = length (s_factors So) + length (s_factors Si) ->
  forall f fd, nth_error (s_factors Si) f = Some fd ->
    length (nth (length (s_factors So) + f) s []) = s_trials So * s_trials Si ->
    (factor_ok (nest_sem2 So Si) s (length (s_factors So) + f) (shift_factor (length (s_factors So)) fd) = true <->
     forall g, g < s_trials So -> factor_ok Si (grp (length (s_factors So)) (s_trials Si) g s) f fd = true).
Proof.
  intros So Si s HF HTi Hl f fd Hfd Hlen.
  destruct (factors_b_spec So Si HF) as [_ HFi].
  assert (Hfn : f < length (s_factors Si)) by (apply nth_error_Some; congruence).
  apply (inner_factor (nest_sem2 So Si) Si s f fd _ (length (s_factors Si)) (s_trials So) (s_trials Si));
    try assumption; try reflexivity.
  apply (HFi fd (nth_error_In _ _ Hfd)).
Qed.

Section Assembly.
  Variables So Si : sem.
  Variable s : tseq.
  Let N := nest_sem2 So Si.
  Let To := s_trials So.
  Let Ti := s_trials Si.
  Let no := length (s_factors So).
  Let ni := length (s_factors Si).

  Hypothesis HX : crossings_b So Si = true.
  (** what the guard must provide about the factors: an outer factor's conditions in the Nest are those of
      the outer block on the samplings of its row (a crossed factor is constant within each group and meets
      them on the representatives), an inner factor's conditions split per group *)
  Hypothesis HOut : length s = no + ni ->
    forall f fd, nth_error (s_factors So) f = Some fd -> length (nth f s []) = To * Ti ->
      (factor_ok N s f (scale_factor Ti (crossed_in So f) fd) = true <->
       (crossed_in So f = true -> forall t, t < To * Ti -> get_cell s f t = get_cell s f (t / Ti * Ti)) /\
       (forall j, j < Ti -> (crossed_in So f = true -> j = 0) -> factor_ok So (reps_at no To Ti j s) f fd = true)).
  Hypothesis HInn : length s = no + ni ->
    forall f fd, nth_error (s_factors Si) f = Some fd -> length (nth (no + f) s []) = To * Ti ->
      (factor_ok N s (no + f) (shift_factor no fd) = true <->
       forall g, g < To -> factor_ok Si (grp no Ti g s) f fd = true).
  (** what the guard must provide about the constraints, for a sequence of the right shape *)
  Hypothesis HKi : length s = no + ni -> (forall f, f < no + ni -> length (nth f s []) = To * Ti) ->
    forall k, In k (s_constraints Si) ->
      (constraint_ok N s (repeat_constraint no To Ti k) = true <->
       forall g, g < To -> constraint_ok Si (grp no Ti g s) k = true).
  Hypothesis HKo : length s = no + ni -> (forall f, f < no + ni -> length (nth f s []) = To * Ti) ->
    (forall f t, f < no -> crossed_in So f = true -> t < To * Ti -> get_cell s f t = get_cell s f (t / Ti * Ti)) ->
    forall c, In c (s_constraints So) ->
      (constraint_ok N s (scale_outer_constraint So Ti c) = true <->
       if crossed_in So (k_factor c) then constraint_ok So (reps no To Ti s) (reps_constraint Ti c) = true
       else constraint_ok So s (scale_outer_constraint So Ti c) = true).

  Lemma nest_groups_gen : valid_b N s = true <-> groups_spec2 So Si s.
  Proof.
    destruct (crossings_b_spec So Si HX) as [HXo [HXi HTi]].
    unfold N. rewrite nest2_valid_unfold. fold N. unfold groups_spec2.
    fold To Ti no ni. fold Ti in HTi.
    assert (HN : s_trials N = To * Ti) by reflexivity.
    assert (Houter : forall f fd, nth_error (s_factors So) f = Some fd -> length s = no + ni ->
              length (nth f s []) = To * Ti -> _) by (intros f fd E Hl Hlen; exact (HOut Hl f fd E Hlen)).
    assert (Hcombo : length s = no + ni ->
              (forall f t, f < no -> crossed_in So f = true -> t < To * Ti -> get_cell s f t = get_cell s f (t / Ti * Ti)) ->
              forall c, In c (s_crossings So) -> forall t, t < To * Ti ->
              combo_at s (c_factors c) t = combo_at (reps no To Ti s) (c_factors c) (t / Ti)).
    { intros Hl Hconst c Hc t Ht. unfold combo_at. apply map_ext_in. intros f Hf.
      destruct (HXo c Hc) as [_ [_ Hrange]].
      rewrite get_cell_reps; [|apply Hrange; exact Hf|lia|apply Nat.div_lt_upper_bound; lia].
      apply Hconst; [apply Hrange; exact Hf | eapply crossed_in_intro; eauto | exact Ht]. }
    split.
    - intros [Hl [Hfo [Hfi [Hco [Hci [Hko Hki]]]]]].
      assert (Hrowlen : forall f, f < no + ni -> length (nth f s []) = To * Ti).
      { intros f Hf. destruct (Nat.lt_ge_cases f no) as [Hlt|Hge].
        - destruct (nth_error (s_factors So) f) as [fd|] eqn:E.
          + apply (factor_ok_length N s f _ (Hfo f fd E)).
          + apply nth_error_None in E. fold no in E. lia.
        - destruct (nth_error (s_factors Si) (f - no)) as [fd|] eqn:E.
          + replace f with (no + (f - no)) by lia. apply (factor_ok_length N s _ _ (Hfi _ fd E)).
          + apply nth_error_None in E. fold ni in E. lia. }
      assert (Hconst : forall f t, f < no -> crossed_in So f = true -> t < To * Ti ->
                                   get_cell s f t = get_cell s f (t / Ti * Ti)).
      { intros f t Hf Hcr Ht. destruct (nth_error (s_factors So) f) as [fd|] eqn:E.
        - apply (proj1 (proj1 (Houter f fd E Hl (Hrowlen f ltac:(lia))) (Hfo f fd E))); assumption.
        - apply nth_error_None in E. fold no in E. lia. }
      split; [exact Hl|]. split; [exact Hrowlen|]. split; [|split; [|split; [|split]]].
      + intros f fd j E Hj Hj0.
        assert (Hfn : f < no) by (apply nth_error_Some; congruence).
        apply (proj2 (proj1 (Houter f fd E Hl (Hrowlen f ltac:(lia))) (Hfo f fd E))); assumption.
      + exact Hconst.
      + intros c Hc. destruct (HXo c Hc) as [H0 _].
        apply (proj1 (crossing_ok_scaled N So s (reps no To Ti s) c To Ti HN eq_refl HTi H0
                                         (Hcombo Hl Hconst c Hc))).
        apply Hco. exact Hc.
      + intros c Hc. apply (proj1 (HKo Hl Hrowlen Hconst c Hc)). apply Hko. exact Hc.
      + intros g Hgt. rewrite valid_b_unfold. split; [|split; [|split]].
        * unfold grp. rewrite map_length, skipn_length. fold ni. lia.
        * intros f fd E.
          assert (Hfn : f < ni) by (apply nth_error_Some; congruence).
          apply (proj1 (HInn Hl f fd E (Hrowlen (no + f) ltac:(lia)))).
          -- apply Hfi. exact E.
          -- exact Hgt.
        * intros c Hc. destruct (HXi c Hc) as [H0 [Hch Hmod]].
          apply (proj1 (crossing_ok_repeated N Si s (fun g => grp no Ti g s) c no To Ti HN eq_refl H0 Hch Hmod
                          ltac:(lia) (fun g t Hg' Ht => combo_at_grp no ni Ti g s (c_factors c) t Hl Ht))).
          -- apply Hci. exact Hc.
          -- exact Hgt.
        * intros k Hk. apply (proj1 (HKi Hl Hrowlen k Hk)); [apply Hki; exact Hk | exact Hgt].
    - intros [Hl [Hrowlen [Hfac [Hconst [Hco [Hko Hgrp]]]]]].
      split; [exact Hl|]. split; [|split; [|split; [|split; [|split]]]].
      + intros f fd E.
        assert (Hfn : f < no) by (apply nth_error_Some; congruence).
        apply (proj2 (Houter f fd E Hl (Hrowlen f ltac:(lia)))). split.
        * intros Hcr t Ht. apply Hconst; assumption.
        * intros j Hj Hj0. apply Hfac; assumption.
      + intros f fd E.
        assert (Hfn : f < ni) by (apply nth_error_Some; congruence).
        apply (proj2 (HInn Hl f fd E (Hrowlen (no + f) ltac:(lia)))).
        intros g Hgt. specialize (Hgrp g Hgt). rewrite valid_b_unfold in Hgrp.
        destruct Hgrp as [_ [Hfg _]]. apply Hfg. exact E.
      + intros c Hc. destruct (HXo c Hc) as [H0 _].
        apply (proj2 (crossing_ok_scaled N So s (reps no To Ti s) c To Ti HN eq_refl HTi H0
                                         (Hcombo Hl Hconst c Hc))).
        apply Hco. exact Hc.
      + intros c Hc. destruct (HXi c Hc) as [H0 [Hch Hmod]].
        destruct (Nat.eq_dec To 0) as [Hz|Hnz].
        * unfold crossing_ok. cbn [shift_crossing c_chunk c_first]. rewrite H0.
          assert (E : (0 <? c_chunk c) = true) by (apply Nat.ltb_lt; exact Hch). rewrite E.
          rewrite chunks_ok_step. rewrite HN. rewrite Hz. reflexivity.
        * apply (proj2 (crossing_ok_repeated N Si s (fun g => grp no Ti g s) c no To Ti HN eq_refl H0 Hch Hmod
                          ltac:(lia) (fun g t Hg' Ht => combo_at_grp no ni Ti g s (c_factors c) t Hl Ht))).
          intros g Hgt. specialize (Hgrp g Hgt). rewrite valid_b_unfold in Hgrp.
          destruct Hgrp as [_ [_ [Hcg _]]]. apply Hcg. exact Hc.
      + intros c Hc. apply (proj2 (HKo Hl Hrowlen Hconst c Hc)). apply Hko. exact Hc.
      + intros k Hk. apply (proj2 (HKi Hl Hrowlen k Hk)).
        intros g Hgt. specialize (Hgrp g Hgt). rewrite valid_b_unfold in Hgrp.
        destruct Hgrp as [_ [_ [_ Hkg]]]. apply Hkg. exact Hk.
  Qed.
End Assembly.

(** * Guard 1: within-trial derived factors *)

Lemma inner_constraints_window : forall So Si s,
  forallb (inner_constraint_b Si) (s_constraints Si) = true ->
  length s = length (s_factors So) + length (s_factors Si) ->
  (forall f, f < length (s_factors So) + length (s_factors Si) -> length (nth f s []) = s_trials So * s_trials Si) ->
  forall k, In k (s_constraints Si) ->
    (constraint_ok (nest_sem2 So Si) s (repeat_constraint (length (s_factors So)) (s_trials So) (s_trials Si) k) = true <->
     forall g, g < s_trials So -> constraint_ok Si (grp (length (s_factors So)) (s_trials Si) g s) k = true).
Proof.
  intros So Si s H Hl Hrow k Hk. rewrite forallb_forall in H. specialize (H k Hk).
  unfold inner_constraint_b in H. rewrite !andb_true_iff in H. destruct H as [[Ha Hb] Hc].
  apply Nat.ltb_lt in Hb. rewrite forallb_forall in Hc.
  apply (constraint_ok_repeated _ Si s k _ (length (s_factors Si))); try assumption.
  - apply Hrow. lia.
  - intros w Hw. apply Nat.leb_le. apply Hc. exact Hw.
Qed.

Theorem nest_groups_d : forall So Si s,
  nestable_d_b So Si = true ->
  (valid_b (nest_sem2 So Si) s = true <-> groups_spec2 So Si s).
Proof.
  intros So Si s Hg. unfold nestable_d_b in Hg. rewrite !andb_true_iff in Hg.
  destruct Hg as [[[HF HCo] HCi] HX].
  destruct (crossings_b_spec So Si HX) as [_ [_ HTi]].
  apply nest_groups_gen; try assumption.
  - intro Hl. apply plain_outer_split; assumption.
  - intro Hl. apply plain_inner_split; assumption.
  - intros Hl Hrow. apply inner_constraints_window; assumption.
  - intros _ _ _ c Hc. destruct (s_constraints So); [destruct Hc | discriminate].
Qed.

Lemma simple_plain : forall n fd, simple_factor_b fd = true -> plain_factor_b n fd = true.
Proof.
  intros n fd H. destruct (simple_factor_b_spec fd H) as [Hd Hs]. unfold plain_factor_b.
  rewrite Hd, Hs. reflexivity.
Qed.

Lemma forallb_impl : forall {A} (P Q : A -> bool) l,
  (forall x, P x = true -> Q x = true) -> forallb P l = true -> forallb Q l = true.
Proof.
  intros A P Q l H. rewrite !forallb_forall. intros H1 x Hx. apply H. apply H1. exact Hx.
Qed.

Theorem nestable_d_includes : forall So Si, nestable_b So Si = true -> nestable_d_b So Si = true.
Proof.
  intros So Si H. unfold nestable_b in H. rewrite !andb_true_iff in H.
  destruct H as [[[[[[H1 H2] H3] H3'] H4] H5] H6].
  unfold nestable_d_b, factors_b, crossings_b. rewrite H3, H3', H4, H5, H6.
  rewrite (forallb_impl _ _ _ (simple_plain _) H1), (forallb_impl _ _ _ (simple_plain _) H2). reflexivity.
Qed.

Lemma shift_factor_simple : forall k fd, f_derived fd = None -> shift_factor k fd = fd.
Proof. intros k [nl su d] H. cbn in H. subst d. reflexivity. Qed.

(** under the old guard the two normal forms coincide *)
Theorem nest_sem2_old : forall So Si, nestable_b So Si = true -> nest_sem2 So Si = nest_sem So Si.
Proof.
  intros So Si H. destruct (nestable_spec So Si H) as [_ [HFi [HCo _]]].
  unfold nest_sem2, nest_sem. rewrite HCo. cbn [map app]. f_equal. f_equal.
  rewrite <- (map_id (s_factors Si)) at 2. apply map_ext_in. intros fd Hfd.
  apply shift_factor_simple. apply (HFi fd Hfd).
Qed.

(** ** Example: an inner and an outer within-trial derived factor *)

(** the table of "same index": level 0 accepts (0,0) and (1,1), level 1 accepts (0,1) and (1,0) *)
Definition ex_same_window (d0 d1 : nat) : dwindow :=
  {| w_deps := [d0; d1]; w_width := 1; w_stride := 1; w_start := 0;
     w_table := [[[[Some 0]; [Some 0]]; [[Some 1]; [Some 1]]]; [[[Some 0]; [Some 1]]; [[Some 1]; [Some 0]]]] |}.

Definition ex_two : dfactor := {| f_nlevels := 2; f_sustain := 1; f_derived := None |}.

(** CrossBlock([A, C, wAC], [A], []): C free, wAC = same(A, C) *)
Definition ex_outer_d : sem :=
  {| s_trials := 2;
     s_factors := [ex_two; ex_two; {| f_nlevels := 2; f_sustain := 1; f_derived := Some (ex_same_window 0 1) |}];
     s_crossings := [{| c_factors := [0]; c_first := 0; c_chunk := 2; c_mult := [([0], 1); ([1], 1)] |}];
     s_constraints := [] |}.

(** CrossBlock([B, D, wBD], [B], []) *)
Definition ex_inner_d : sem := ex_outer_d.

Definition ex_seq_d : tseq :=
  [[Some 0; Some 0; Some 1; Some 1]; [Some 0; Some 1; Some 1; Some 0]; [Some 0; Some 1; Some 0; Some 1];
   [Some 0; Some 1; Some 1; Some 0]; [Some 0; Some 0; Some 1; Some 1]; [Some 0; Some 1; Some 0; Some 1]].

Lemma ex_nestable_d :
  nestable_b ex_outer_d ex_inner_d = false /\ nestable_d_b ex_outer_d ex_inner_d = true /\
  s_trials (nest_sem2 ex_outer_d ex_inner_d) = 4 /\
  map fdeps (s_factors (nest_sem2 ex_outer_d ex_inner_d)) = [[]; []; [0; 1]; []; []; [3; 4]] /\
  valid_b (nest_sem2 ex_outer_d ex_inner_d) ex_seq_d = true /\
  (* the outer derived factor wAC follows A and the free factor C trial by trial *)
  reps_at 3 2 2 0 ex_seq_d = [[Some 0; Some 1]; [Some 0; Some 1]; [Some 0; Some 0]] /\
  reps_at 3 2 2 1 ex_seq_d = [[Some 0; Some 1]; [Some 1; Some 0]; [Some 1; Some 1]] /\
  grp 3 2 1 ex_seq_d = [[Some 1; Some 0]; [Some 1; Some 1]; [Some 0; Some 1]] /\
  (* a wrong derived level in the second group *)
  valid_b (nest_sem2 ex_outer_d ex_inner_d)
          [[Some 0; Some 0; Some 1; Some 1]; [Some 0; Some 1; Some 1; Some 0]; [Some 0; Some 1; Some 0; Some 1];
           [Some 0; Some 1; Some 1; Some 0]; [Some 0; Some 0; Some 1; Some 1]; [Some 0; Some 1; Some 0; Some 0]] = false.
Proof. repeat split; vm_compute; reflexivity. Qed.

(** * The group specification, decided *)

Definition groups2_b (So Si : sem) (s : tseq) : bool :=
  let To := s_trials So in let Ti := s_trials Si in
  let no := length (s_factors So) in let ni := length (s_factors Si) in
  (length s =? no + ni) &&
  forallb (fun f => length (nth f s []) =? To * Ti) (seq 0 (no + ni)) &&
  forallb (fun p => forallb (fun j => (crossed_in So (fst p) && negb (j =? 0))
                                      || factor_ok So (reps_at no To Ti j s) (fst p) (snd p)) (seq 0 Ti))
          (index_list (s_factors So)) &&
  forallb (fun f => negb (crossed_in So f)
                    || forallb (fun t => cell_eqb (get_cell s f t) (get_cell s f (t / Ti * Ti))) (seq 0 (To * Ti)))
          (seq 0 no) &&
  forallb (crossing_ok So (reps no To Ti s)) (s_crossings So) &&
  forallb (fun c => if crossed_in So (k_factor c) then constraint_ok So (reps no To Ti s) (reps_constraint Ti c)
                    else constraint_ok So s (scale_outer_constraint So Ti c)) (s_constraints So) &&
  forallb (fun g => valid_b Si (grp no Ti g s)) (seq 0 To).

Lemma forallb_seq0 : forall (P : nat -> bool) n, forallb P (seq 0 n) = true <-> forall i, i < n -> P i = true.
Proof.
  intros P n. rewrite forallb_forall. split.
  - intros H i Hi. apply H. apply in_seq. lia.
  - intros H i Hi. apply in_seq in Hi. apply H. lia.
Qed.

Theorem groups2_b_spec : forall So Si s, groups2_b So Si s = true <-> groups_spec2 So Si s.
Proof.
  intros So Si s. unfold groups2_b, groups_spec2.
  set (To := s_trials So). set (Ti := s_trials Si). set (no := length (s_factors So)). set (ni := length (s_factors Si)).
  rewrite !andb_true_iff, Nat.eqb_eq, !forallb_seq0.
  rewrite (forallb_index_list (fun f fd => forallb (fun j => (crossed_in So f && negb (j =? 0))
                                                        || factor_ok So (reps_at no To Ti j s) f fd) (seq 0 Ti))).
  rewrite !forallb_forall.
  assert (E1 : (forall i, i < no + ni -> (length (nth i s []) =? To * Ti) = true) <->
               (forall f, f < no + ni -> length (nth f s []) = To * Ti)).
  { split; intros H f Hf; specialize (H f Hf); apply Nat.eqb_eq; exact H. }
  assert (E2 : (forall f fd, nth_error (s_factors So) f = Some fd ->
                  forallb (fun j => (crossed_in So f && negb (j =? 0)) || factor_ok So (reps_at no To Ti j s) f fd) (seq 0 Ti) = true) <->
               (forall f fd j, nth_error (s_factors So) f = Some fd -> j < Ti -> (crossed_in So f = true -> j = 0) ->
                  factor_ok So (reps_at no To Ti j s) f fd = true)).
  { split.
    - intros H f fd j E Hj Hj0. specialize (H f fd E). rewrite forallb_seq0 in H. specialize (H j Hj).
      apply orb_true_iff in H. destruct H as [H|H]; [|exact H].
      apply andb_true_iff in H. destruct H as [Hc Hn]. rewrite (Hj0 Hc) in Hn. cbn in Hn. discriminate.
    - intros H f fd E. apply forallb_seq0. intros j Hj. apply orb_true_iff.
      destruct (crossed_in So f) eqn:Ec; [|right; apply H; [exact E|exact Hj|intro X; rewrite Ec in X; discriminate X]].
      destruct j as [|j]; [right; apply H; [exact E|exact Hj|intros _; reflexivity] | left; reflexivity]. }
  assert (E3 : (forall i, i < no -> negb (crossed_in So i)
                  || forallb (fun t => cell_eqb (get_cell s i t) (get_cell s i (t / Ti * Ti))) (seq 0 (To * Ti)) = true) <->
               (forall f t, f < no -> crossed_in So f = true -> t < To * Ti -> get_cell s f t = get_cell s f (t / Ti * Ti))).
  { split.
    - intros H f t Hf Hc Ht. specialize (H f Hf). rewrite Hc in H. cbn [negb orb] in H.
      rewrite forallb_seq0 in H. apply cell_eqb_eq. apply H. exact Ht.
    - intros H f Hf. destruct (crossed_in So f) eqn:Ec; [|reflexivity]. cbn [negb orb].
      apply forallb_seq0. intros t Ht. apply cell_eqb_eq. apply H; assumption. }
  assert (E4 : (forall x, In x (s_constraints So) ->
                  (if crossed_in So (k_factor x) then constraint_ok So (reps no To Ti s) (reps_constraint Ti x)
                   else constraint_ok So s (scale_outer_constraint So Ti x)) = true) <->
               (forall c, In c (s_constraints So) ->
                  if crossed_in So (k_factor c) then constraint_ok So (reps no To Ti s) (reps_constraint Ti c) = true
                  else constraint_ok So s (scale_outer_constraint So Ti c) = true)).
  { split; intros H c Hc; specialize (H c Hc); destruct (crossed_in So (k_factor c)); exact H. }
  rewrite E1, E2, E3, E4. tauto.
Qed.

(** the theorem as an equation between two decision procedures (evaluated by the harness on every
    sequence the real generator returns for a Nest inside the guard) *)
Corollary nest_groups_d_b : forall So Si s,
  nestable_d_b So Si = true -> valid_b (nest_sem2 So Si) s = groups2_b So Si s.
Proof.
  intros So Si s Hg. pose proof (nest_groups_d So Si s Hg) as H. rewrite <- groups2_b_spec in H.
  destruct (valid_b (nest_sem2 So Si) s), (groups2_b So Si s); try reflexivity; intuition discriminate.
Qed.
